import Gv.Model.Fmt.Stockholm
import Gv.Proofs.FmtBagInv
/-!
Stockholm parser: lexer progress, fuel sufficiency (no `hang` once the markup loop stops at EOF),
container invariant through the main loop (helper development for `Props/C03.lean`).
-/
namespace Gv.Proofs.StockholmOutcome
open Gv Gv.Model Gv.Model.Fmt Gv.Model.Fmt.Stockholm Gv.Proofs.FmtBagInv

theorem length_dropWhile_le {α} (p : α → Bool) : ∀ l : List α, (l.dropWhile p).length ≤ l.length
  | [] => by simp
  | x :: xs => by
    simp only [List.dropWhile]
    split
    · exact Nat.le_succ_of_le (length_dropWhile_le p xs)
    · simp

theorem afterRun_le (l : Seq) : (afterRun l).length ≤ l.length := by
  unfold afterRun; split
  · split <;> simp
  · simp

theorem identFrom_le (c : Byte) (cs : Seq) : (identFrom c cs).2.length ≤ cs.length := by
  unfold identFrom
  exact Nat.le_trans (afterRun_le _) (length_dropWhile_le _ _)

/-- every `Scan` on a non-empty input consumes at least one byte -/
theorem scan_shorter (c : Byte) (cs : Seq) : (scan (c :: cs)).2.length < (c :: cs).length := by
  have h1 := Nat.le_trans (afterRun_le (cs.dropWhile isWS)) (length_dropWhile_le isWS cs)
  have h2 := identFrom_le c cs
  unfold scan
  simp only [List.length_cons]
  by_cases c1 : isWS c = true
  · simp only [c1, if_true]; omega
  · by_cases c2 : (c == NL) = true
    · simp only [c1, c2, if_true, Bool.false_eq_true, if_false]; omega
    · by_cases c3 : (c == CR) = true
      · simp only [c1, c2, c3, if_true, Bool.false_eq_true, if_false]
        cases cs with
        | nil => simp
        | cons x r =>
          have := identFrom_le x r
          split
          · rename_i r' he
            simp only [List.cons.injEq] at he
            rw [← he.2]
            simp only [List.length_cons]; omega
          · rename_i x' r' _ he
            simp only [List.cons.injEq] at he
            rw [← he.1, ← he.2]
            simp only [List.length_cons]; omega
          · simp
      · by_cases c4 : (c == 0) = true
        · simp only [c1, c2, c3, c4, if_true, Bool.false_eq_true, if_false]; omega
        · by_cases c5 : (c == 35) = true
          · simp only [c1, c2, c3, c4, c5, if_true, Bool.false_eq_true, if_false]; omega
          · simp only [c1, c2, c3, c4, c5, Bool.false_eq_true, if_false]; omega

theorem scan_le (inp : Seq) : (scan inp).2.length ≤ inp.length := by
  cases inp with
  | nil => simp [scan]
  | cons c cs => exact Nat.le_of_lt (scan_shorter c cs)

theorem scanIW_le (inp : Seq) : (scanIW inp).2.length ≤ inp.length := by
  unfold scanIW
  split
  · rename_i s r h
    have h1 := scan_le inp
    rw [h] at h1
    exact Nat.le_trans (scan_le r) h1
  · exact scan_le inp

theorem scanIW_shorter (c : Byte) (cs : Seq) : (scanIW (c :: cs)).2.length < (c :: cs).length := by
  unfold scanIW
  split
  · rename_i s r h
    have h1 := scan_shorter c cs
    rw [h] at h1
    exact Nat.lt_of_le_of_lt (scan_le r) h1
  · exact scan_shorter c cs

theorem scanIW_nil : scanIW [] = (.eof, []) := by simp [scanIW, scan]

/-- with the repaired loop condition the markup loop always ends, on a suffix of its input -/
theorem skipMarkup_fixed : ∀ (fuel : Nat) (inp : Seq), inp.length < fuel →
    ∃ r, skipMarkup true fuel inp = some r ∧ r.length ≤ inp.length := by
  intro fuel
  induction fuel with
  | zero => intro inp h; omega
  | succ f ih =>
    intro inp h
    unfold skipMarkup
    have hle := scanIW_le inp
    split
    · rename_i r he; rw [he] at hle; exact ⟨r, rfl, hle⟩
    · rename_i r he; rw [he] at hle; exact ⟨r, by simp, hle⟩
    · rename_i t r hn1 hn2 he
      cases inp with
      | nil =>
        rw [scanIW_nil] at he
        have e1 : t = Tok.eof := by simp at he; exact he.1.symm
        subst e1
        simp_all
      | cons c cs =>
        have hs := scanIW_shorter c cs
        rw [he] at hs
        obtain ⟨r', h1, h2⟩ := ih r (by simp at h hs ⊢; omega)
        exact ⟨r', h1, by simp at hs ⊢; omega⟩

/-- the main loop keeps the container invariant (both variants of the markup loop) -/
theorem loop_ok_inv (m : Bool) : ∀ (fuel : Nat) (inp : Seq) (bag b : Bag), Inv bag →
    loop m fuel inp bag = .ok b → Inv b := by
  intro fuel
  induction fuel with
  | zero => intro inp bag b _ h; simp [loop] at h
  | succ f ih =>
    intro inp bag b hb h
    unfold loop at h
    split at h
    · simp at h; subst h; exact hb
    · exact ih _ _ _ hb h
    · split at h
      · simp at h
      · exact ih _ _ _ hb h
    · simp at h; subst h; exact hb
    · split at h
      · split at h
        · simp at h
        · rename_i b1 hadd
          exact ih _ _ _ (add_inv bag hb _ _ b1 hadd) h
      · simp at h
    · split at h
      · split at h
        · simp at h
        · rename_i b1 hadd
          exact ih _ _ _ (add_inv bag hb _ _ b1 hadd) h
      · simp at h
    · exact ih _ _ _ hb h

/-- the main loop never panics and never exits -/
theorem loop_kinds (m : Bool) : ∀ (fuel : Nat) (inp : Seq) (bag : Bag),
    loop m fuel inp bag ≠ .panic ∧ loop m fuel inp bag ≠ .exit := by
  intro fuel
  induction fuel with
  | zero => intro inp bag; simp [loop]
  | succ f ih =>
    intro inp bag
    unfold loop
    split
    · simp
    · exact ih _ _
    · split
      · simp
      · exact ih _ _
    · simp
    · split
      · split
        · simp
        · exact ih _ _
      · simp
    · split
      · split
        · simp
        · exact ih _ _
      · simp
    · exact ih _ _

/-- with the repaired markup loop and enough fuel the main loop never reports `hang` -/
theorem loop_no_hang : ∀ (fuel : Nat) (inp : Seq) (bag : Bag), inp.length < fuel →
    loop true fuel inp bag ≠ .hang := by
  intro fuel
  induction fuel with
  | zero => intro inp bag h; omega
  | succ f ih =>
    intro inp bag h
    have hrec : ∀ (r : Seq) (t : Tok) (b : Bag), scanIW inp = (t, r) → t ≠ .eof → loop true f r b ≠ .hang := by
      intro r t b he hne
      cases inp with
      | nil => rw [scanIW_nil] at he; simp at he; exact absurd he.1.symm hne
      | cons c cs =>
        have hs := scanIW_shorter c cs
        rw [he] at hs
        exact ih r b (by simp at h hs ⊢; omega)
    unfold loop
    split
    · simp
    · rename_i r he; exact hrec r _ bag he (by simp)
    · rename_i r he
      obtain ⟨r', h1, h2⟩ := skipMarkup_fixed (r.length + 2) r (by omega)
      rw [h1]
      simp only
      have hle := scanIW_le inp
      rw [he] at hle
      cases inp with
      | nil => rw [scanIW_nil] at he; simp at he
      | cons c cs =>
        have hs := scanIW_shorter c cs
        rw [he] at hs
        exact ih r' bag (by simp at h hs ⊢; omega)
    · simp
    · rename_i name r he
      split
      · rename_i q r' he2
        split
        · simp
        · rename_i b hadd
          have h2 := scanIW_le r
          rw [he2] at h2
          cases inp with
          | nil => rw [scanIW_nil] at he; simp at he
          | cons c cs =>
            have hs := scanIW_shorter c cs
            rw [he] at hs
            exact ih r' b (by simp at h hs h2 ⊢; omega)
      · simp
    · rename_i name r he
      split
      · rename_i q r' he2
        split
        · simp
        · rename_i b hadd
          have h2 := scanIW_le r
          rw [he2] at h2
          cases inp with
          | nil => rw [scanIW_nil] at he; simp at he
          | cons c cs =>
            have hs := scanIW_shorter c cs
            rw [he] at hs
            exact ih r' b (by simp at h hs h2 ⊢; omega)
      · simp
    · rename_i t r h1 h2 h3 h4 h5 h6 he
      exact hrec r t bag he (by intro e; subst e; simp_all)

end Gv.Proofs.StockholmOutcome
