import Gv.Proofs.BagRef10
import Gv.Proofs.BagRefExt
import Gv.Proofs.BagRefExt2
import Gv.Proofs.BagRefExt3
import Gv.Proofs.BagRefExt4
import Gv.Proofs.BagSitesAgree
/-!
Names stay pairwise distinct (C01): every operation other than the caller's own name edits
(`Rename`, `RenameRegexp`, `AppendSeqIdentifier`, `CleanNames`, `TrimNames`, `TrimNamesAuto`) keeps the names of a
container pairwise distinct — insertion renames a duplicate to a name that is not in use.
-/
namespace Gv.Proofs.BagAbs
open Gv Gv.Model Gv.Spec Gv.Proofs.BagInv Gv.Proofs.BagFresh

theorem NI.congr {b b' : Bag} (h : NI b) (hr : b'.rows = b.rows) (hi : b'.index = b.index) (hn : b'.next = b.next) : NI b' :=
  ⟨h.inv.congr hr hi hn, by rw [hr]; exact h.nodup⟩

theorem NI.keys {b b' : Bag} (h : NI b) (hk : keys b'.rows = keys b.rows) (hi : b'.index = b.index) (hn : b'.next = b.next) : NI b' := by
  refine ⟨h.inv.transfer (by rw [hk]) hi (by omega), ?_⟩
  have := congrArg (List.map Prod.snd) hk
  simp only [BagInv.keys, List.map_map, Function.comp_def] at this
  rw [this]; exact h.nodup

theorem NI.perm {b b' : Bag} (h : NI b) (hp : b'.rows.Perm b.rows) (hi : b'.index = b.index) (hn : b'.next = b.next) : NI b' :=
  ⟨h.inv.transfer (hp.map _) hi (by omega), (hp.map _).nodup_iff.mpr h.nodup⟩

theorem ni_empty {c : Bag} (hr : c.rows = []) (hi : c.index = []) : NI c :=
  ⟨(gi_of_empty hr hi).inv, by simp [hr]⟩

theorem ni_addAllStopBase (l : List (String × Seq)) {b : Bag} (h : NI b) : NI (addAllStopBase b l).1 := by
  induction l generalizing b with
  | nil => exact h
  | cons p t ih =>
    obtain ⟨n, s⟩ := p
    simp only [addAllStopBase]
    exact ite_fst (P := NI) (ni_addSeqAs _ h n s) (ih (ni_addSeqAs _ h n s))

theorem ni_addAllIgnore (l : List (String × Seq)) {b : Bag} (h : NI b) : NI (Model.addAllIgnore b l) := by
  induction l generalizing b with
  | nil => exact h
  | cons p t ih =>
    obtain ⟨n, s⟩ := p
    exact ih (ni_addSeqAs _ h n s)

theorem ni_dedupLoop (alpha : Nat) (g : Bool) (l : List Row) {b : Bag} (h : NI b)
    (seen : List (Seq × Nat)) (groups : List (List String)) : NI (dedupLoop alpha g l b seen groups).1 := by
  induction l generalizing b seen groups with
  | nil => exact h
  | cons r t ih =>
    simp only [dedupLoop]
    split
    · exact ite_fst (P := NI) (ni_addSeqAs _ h _ _) (ih (ni_addSeqAs _ h _ _) _ _)
    · exact ih h _ _

theorem ni_translateLoop1 (code) (phases : List Nat) (sfx : Bool) (r : Row) (l : List Nat) {b : Bag} (h : NI b) :
    NI (translateLoop1 code phases sfx r l b).1 := by
  induction l generalizing b with
  | nil => exact h
  | cons ph rest ih =>
    simp only [translateLoop1]
    split
    · exact h
    · exact ite_fst (P := NI) (ni_addSeqAs _ h _ _) (ih (ni_addSeqAs _ h _ _))

theorem ni_translateRows (code) (phases : List Nat) (sfx : Bool) (l : List Row) {b : Bag} (h : NI b) :
    NI (translateRows code phases sfx l b).1 := by
  induction l generalizing b with
  | nil => exact h
  | cons r t ih =>
    simp only [translateRows]
    exact ite_fst (P := NI) (ni_translateLoop1 _ _ _ _ _ h) (ih (ni_translateLoop1 _ _ _ _ _ h))

theorem ni_fixLength {b : Bag} (h : NI b) : NI (fixLength b) := by
  obtain ⟨f1, f2, f3, _, _, _⟩ := fixLength_fields b
  exact h.congr f1 f2 f3

/-- `Concat` on pairwise distinct names (the argument alignment's names are distinct by construction) -/
theorem ni_concat (other : List (String × Seq)) (clen : Int) (ca : Nat) {b : Bag} (h : NI b) (hr : Rect b)
    (ha : b.isAlign = true) : NI (concat other clen ca b).1 := by
  obtain ⟨hblen, _⟩ := length_nat_of_rect hr ha
  have h1 := step1_fold other (List.replicate clen.toNat GAP) b.rows b h (fun r hr => List.mem_map_of_mem (f := (·.name)) hr)
  have hkeys := keys_step1 other (List.replicate clen.toNat GAP) b.rows h.nodup
  have hni1 : NI { b with rows := step1Rows other (List.replicate clen.toNat GAP) b.rows b.rows } :=
    h.keys (by simp only []; exact hkeys) rfl rfl
  obtain ⟨x2, e2, hx2, _, _, _⟩ := loop2_ok b.length.toNat other (x := { b with rows := step1Rows other (List.replicate clen.toNat GAP) b.rows b.rows })
    ⟨hni1, ha, hblen⟩
  unfold concat
  split
  · exact h
  · simp only [h1, Bool.false_eq_true, if_false, e2]
    exact hx2.ni.congr rfl rfl rfl

/-- the caller's own name edits -/
def NameEdit : Op → Prop
  | .rename _ => True
  | .appendId _ _ => True
  | .cleanNames => True
  | .trimNames _ => True
  | .trimAuto _ => True
  | .renameRe _ _ => True
  | _ => False

theorem ni_stepOp {b : Bag} (h : NI b) (hr : Rect b) (op : Op) (hne : ¬ NameEdit op)
    (hw : ∀ perm, op = .permute perm → IsPerm perm b.rows.length) : NI (Model.stepOp b op).1 := by
  cases op with
  | add n s => exact ni_addSeqAs _ h n s
  | ignore p => exact h.congr rfl rfl rfl
  | clear => exact ni_empty rfl rfl
  | append rows =>
    simp only [Model.stepOp]
    split
    · exact h
    · split
      · exact h
      · exact ni_addAllStop _ h
  | concat rows =>
    simp only [Model.stepOp]
    split
    · exact h
    · rename_i ha
      split
      · exact h
      · exact ni_concat _ _ _ h hr (by simpa using ha)
  | rename m => exact absurd trivial hne
  | appendId id right => exact absurd trivial hne
  | cleanNames => exact absurd trivial hne
  | trimNames size => exact absurd trivial hne
  | trimAuto cur => exact absurd trivial hne
  | sort => exact h.perm (List.mergeSort_perm _ _) rfl rfl
  | permute perm => exact h.perm (permute_perm perm b.rows (hw perm rfl)) rfl rfl
  | filter mn mx =>
    simp only [Model.stepOp, filterLength]
    have := ni_addAllStopBase ((b.rows.filter fun r => (mn < 0 || (r.seq.length : Int) ≥ mn) && (mx < 0 || (r.seq.length : Int) ≤ mx)).map
      fun r => (r.name, r.seq)) (b := clearBase b) (ni_empty rfl rfl)
    unfold resetLengthIfEmpty
    split
    · exact this.congr rfl rfl rfl
    · exact this
  | dedup g => exact ni_dedupLoop _ _ _ (ni_empty rfl rfl) _ _
  | rmSeqs c num den ic ig iN =>
    simp only [Model.stepOp]
    split
    · exact h
    · split
      · exact h
      · rename_i r hrr
        unfold removeCharacterSeqs at hrr
        simp only [] at hrr
        split at hrr
        · simp at hrr
        · simp only [Option.some.injEq] at hrr; subst hrr
          exact ni_addAllIgnore _ (ni_empty rfl rfl)
  | translate ph code =>
    simp only [Model.stepOp, translateBag]
    split
    · exact ni_fixLength h
    · split
      · exact ni_fixLength h
      · have := ni_translateRows (by assumption) (if ph == -1 then [0, 1, 2] else [ph.toNat]) (ph == -1) b.rows
          (b := clearBase b) (ni_empty rfl rfl)
        exact ite_fst (P := NI) (ni_fixLength this) (ni_fixLength (this.congr rfl rfl rfl))
  | clone =>
    simp only [Model.stepOp]
    split
    · exact h
    · simp only [clone]
      apply ni_addAllStop
      split
      · exact ni_empty rfl rfl
      · exact ni_empty rfl rfl
  | sample nb perm =>
    simp only [Model.stepOp]
    split
    · exact h
    · rename_i s hs
      unfold sample at hs
      split at hs
      · simp at hs
      · simp only [] at hs
        have := ni_addAllIgnore (((perm.take nb.toNat).filterMap fun i => b.rows[i]?).map fun r => (r.name, r.seq))
          (b := newBag b.alphabet) (ni_empty rfl rfl)
        split at hs
        · unfold seqBagToAlignment at hs
          split at hs
          · simp at hs
          · simp only [Option.some.injEq] at hs; subst hs
            exact this.congr rfl rfl rfl
        · simp only [Option.some.injEq] at hs; subst hs
          exact this
  | toUpper => exact h.keys (by simp only [Model.stepOp, mapSeqs]; rw [keys_map_seq (fun r => r.seq.map toUpper)]) rfl rfl
  | toLower => exact h.keys (by simp only [Model.stepOp, mapSeqs]; rw [keys_map_seq (fun r => r.seq.map toLower)]) rfl rfl
  | replace old new =>
    exact h.keys (by simp only [Model.stepOp, replaceBag, mapSeqs]; rw [keys_map_seq (fun r => replaceAll old new r.seq)]) rfl rfl
  | setChar i j c =>
    simp only [Model.stepOp, setSequenceChar]
    split
    · exact h
    · split
      · exact h
      · split
        · exact h
        · rename_i r hrr _
          exact h.keys (by simp only []; rw [keys_set _ _ _ _ hrr]) rfl rfl
  | trimSeqs n fs =>
    simp only [Model.stepOp]
    split
    · exact h
    · split
      · exact h
      · rename_i r hrr
        unfold trimSequences at hrr
        split at hrr
        · simp only [Option.some.injEq] at hrr; subst hrr; exact h
        · split at hrr
          · simp only [Option.some.injEq] at hrr; subst hrr; exact h
          · split at hrr
            · simp at hrr
            · simp only [Option.some.injEq] at hrr; subst hrr
              exact h.keys (by simp only [mapSeqs]; rw [keys_map_seq (fun r => if fs then r.seq.drop n.toNat else r.seq.take (r.seq.length - n.toNat))]) rfl rfl
  | autoAlpha => exact h.congr rfl rfl rfl
  | revcomp =>
    exact h.keys (reverseComplement_keys b) (reverseComplement_fields b).1 (reverseComplement_fields b).2.1
  | replaceChar name site c =>
    simp only [Model.stepOp]
    split
    · exact h
    · split
      · exact h
      · rename_i r hrr
        rcases replaceChar_cases hrr with e | ⟨i, e⟩ <;> rw [e]
        · exact h
        · exact h.keys (by simp only []; rw [keys_setInRow]) rfl rfl
  | rmGapSites num den ends =>
    simp only [Model.stepOp]
    split
    · exact h
    · split
      · exact h
      · rename_i r hrr
        obtain ⟨k, i, n, _⟩ := removeGapSites_fields hrr
        exact h.keys k i n
  | compress =>
    simp only [Model.stepOp]
    split
    · exact h
    · split
      · exact h
      · split
        · exact h
        · rename_i r hrr
          obtain ⟨k, i, n, _⟩ := compressBag_fields hrr
          exact h.keys k i n
  | unalign =>
    simp only [Model.stepOp]
    split
    · exact h
    · exact ni_addAllIgnore _ (ni_empty rfl rfl)
  | renameRe ok names => exact absurd trivial hne
  | setAlpha a =>
    obtain ⟨f1, f2, f3, -⟩ := setAlphabet_fields a b
    exact h.congr f1 f2 f3
  | revcompSeqs names =>
    have s := sameShape_reverseComplementSequences names b h.inv
    exact h.keys s.keys s.index s.next
  | diffFirst =>
    simp only [Model.stepOp]
    split
    · exact h
    · split
      · exact h
      · rename_i r hrr
        have s := sameShape_diffWithFirst hrr
        exact h.keys s.keys s.index s.next
  | replaceMatch =>
    simp only [Model.stepOp]
    split
    · exact h
    · split
      · exact h
      · rename_i r hrr
        have s := sameShape_replaceMatchChars hrr
        exact h.keys s.keys s.index s.next
  | mask refseq start len mr nogap noref =>
    simp only [Model.stepOp]
    split
    · exact h
    · split
      · exact h
      · rename_i r hrr
        have s := sameShape_maskBag hrr
        exact h.keys s.keys s.index s.next
  | maskOcc refseq maxOcc mr =>
    simp only [Model.stepOp]
    split
    · exact h
    · split
      · exact h
      · rename_i r hrr
        have s := sameShape_maskOccBag hrr
        exact h.keys s.keys s.index s.next
  | rmCharSites cs num den ends ic ig iN rev =>
    simp only [Model.stepOp]
    split
    · exact h
    · split
      · exact h
      · rename_i r hrr
        obtain ⟨k, i, n, _⟩ := cleanSitesBag_fields (isCleanFn_char _ cs ends ic ig iN rev) hrr
        exact h.keys k i n
  | rmMajSites num den ends ig iN =>
    simp only [Model.stepOp]
    split
    · exact h
    · split
      · exact h
      · rename_i r hrr
        obtain ⟨k, i, n, _⟩ := cleanSitesBag_fields (isCleanFn_maj _ ends ig iN) hrr
        exact h.keys k i n
  | replaceRe ok seqs =>
    simp only [Model.stepOp]
    split
    · exact h
    · obtain ⟨k, i, n, _⟩ := replaceRegexBag_fields seqs b
      exact h.keys k i n

end Gv.Proofs.BagAbs
