import Gv.Spec.Bag
import Gv.Spec.Dedup
/-!
C13, list level: the reference de-duplication `Spec.dedupRows` (an accumulator loop) computes exactly the
declarative `Spec.firstOccs` / `Spec.groupsOf`; its groups partition the names, every group is led by its
kept row, and on rows with pairwise distinct keys it changes nothing.  Core-only.
-/
namespace Gv.Proofs.Dedup
open Gv Gv.Model Gv.Spec

abbrev Grp := Seq × String × Seq × List String

/-- the kept row of an accumulator entry -/
def rowOf (g : Grp) : String × Seq := (g.2.1, g.2.2.1)
/-- the names of an accumulator entry -/
def grpOf (g : Grp) : List String := g.2.2.2
/-- the update `dedupRows` applies to the entry whose key is `k` -/
def upd (k : Seq) (x : String) (g : Grp) : Grp := if g.1 == k then (g.1, g.2.1, g.2.2.1, g.2.2.2 ++ [x]) else g

theorem dedupRows_cons (key : Seq → Seq) (r : String × Seq) (t : List (String × Seq)) (acc : List Grp) :
    dedupRows key (r :: t) acc =
      if acc.any (fun g => g.1 == key r.2) then dedupRows key t (acc.map (upd (key r.2) r.1))
      else dedupRows key t (acc ++ [(key r.2, r.1, r.2, [r.1])]) := rfl

/-- induction adding elements at the end -/
theorem snoc_induction {α : Type} {P : List α → Prop} (nil : P [])
    (append_singleton : ∀ l a, P l → P (l ++ [a])) : ∀ l, P l := by
  have h : ∀ l : List α, P l.reverse := by
    intro l
    induction l with
    | nil => exact nil
    | cons a t ih => rw [List.reverse_cons]; exact append_singleton _ _ ih
  intro l
  have := h l.reverse
  rwa [List.reverse_reverse] at this

/-! ### the declarative first occurrences -/

theorem firstOccs_snoc (key : Seq → Seq) (pre : List (String × Seq)) (r : String × Seq) :
    firstOccs key (pre ++ [r]) =
      firstOccs key pre ++ (if pre.any (fun y => key y.2 == key r.2) then [] else [r]) := by
  unfold firstOccs
  rw [List.zipIdx_append, List.filter_append, List.map_append]
  congr 1
  · congr 1
    apply List.filter_congr
    intro xi hxi
    have : xi.2 < pre.length := by
      have := List.mem_zipIdx hxi
      omega
    rw [List.take_append_of_le_length (by omega)]
  · simp only [List.zipIdx_cons, List.zipIdx_nil, List.filter_cons, List.filter_nil, Nat.zero_add,
      List.take_left']
    cases h : pre.any (fun y => key y.2 == key r.2) <;> simp

theorem firstOccs_nil (key : Seq → Seq) : firstOccs key [] = [] := rfl

theorem firstOccs_sublist (key : Seq → Seq) (rows : List (String × Seq)) : (firstOccs key rows).Sublist rows := by
  unfold firstOccs
  have h := (List.filter_sublist (l := rows.zipIdx)
    (p := fun xi => !((rows.take xi.2).any fun y => key y.2 == key xi.1.2))).map Prod.fst
  simpa using h

/-- a key occurs among the kept rows iff it occurs at all -/
theorem firstOccs_key_iff (key : Seq → Seq) (rows : List (String × Seq)) (k : Seq) :
    (∃ x ∈ firstOccs key rows, key x.2 = k) ↔ (∃ y ∈ rows, key y.2 = k) := by
  constructor
  · rintro ⟨x, hx, e⟩
    exact ⟨x, (firstOccs_sublist key rows).subset hx, e⟩
  · induction rows using snoc_induction with
    | nil => simp
    | append_singleton pre r ih =>
      rintro ⟨y, hy, e⟩
      rw [firstOccs_snoc]
      rcases List.mem_append.mp hy with hy | hy
      · obtain ⟨x, hx, e'⟩ := ih ⟨y, hy, e⟩
        exact ⟨x, List.mem_append_left _ hx, e'⟩
      · simp only [List.mem_singleton] at hy
        subst hy
        by_cases ha : pre.any (fun z => key z.2 == key y.2) = true
        · simp only [List.any_eq_true, beq_iff_eq] at ha
          obtain ⟨z, hz, ez⟩ := ha
          obtain ⟨x, hx, e'⟩ := ih ⟨z, hz, ez.trans e⟩
          exact ⟨x, List.mem_append_left _ hx, e'⟩
        · rw [if_neg ha]
          exact ⟨y, by simp, e⟩

theorem firstOccs_any (key : Seq → Seq) (rows : List (String × Seq)) (k : Seq) :
    (firstOccs key rows).any (fun x => key x.2 == k) = rows.any (fun y => key y.2 == k) := by
  have h := firstOccs_key_iff key rows k
  rw [Bool.eq_iff_iff]
  simpa only [List.any_eq_true, beq_iff_eq] using h

/-- the kept rows have pairwise distinct keys -/
theorem firstOccs_keys_nodup (key : Seq → Seq) (rows : List (String × Seq)) :
    ((firstOccs key rows).map fun x => key x.2).Nodup := by
  induction rows using snoc_induction with
  | nil => simp [firstOccs_nil]
  | append_singleton pre r ih =>
    rw [firstOccs_snoc]
    by_cases ha : pre.any (fun z => key z.2 == key r.2) = true
    · simpa [ha] using ih
    · rw [if_neg ha]
      simp only [List.map_append, List.map_cons, List.map_nil]
      refine List.nodup_append.mpr ⟨ih, by simp, ?_⟩
      intro a h1 b h2
      simp only [List.mem_singleton] at h2
      subst h2
      intro e
      subst e
      obtain ⟨x, hx, e'⟩ := List.mem_map.mp h1
      apply ha
      rw [← firstOccs_any]
      simp only [List.any_eq_true, beq_iff_eq]
      exact ⟨x, hx, e'⟩

/-! ### `dedupRows` computes the declarative answer -/

/-- the accumulator after the rows `pre`, in closed form -/
def specAcc (key : Seq → Seq) (pre : List (String × Seq)) : List Grp :=
  (firstOccs key pre).map fun x => (key x.2, x.1, x.2, (pre.filter fun y => key y.2 == key x.2).map Prod.fst)

theorem specAcc_snoc (key : Seq → Seq) (pre : List (String × Seq)) (r : String × Seq) :
    specAcc key (pre ++ [r]) =
      if (specAcc key pre).any (fun g => g.1 == key r.2) then (specAcc key pre).map (upd (key r.2) r.1)
      else specAcc key pre ++ [(key r.2, r.1, r.2, [r.1])] := by
  have hany : (specAcc key pre).any (fun g => g.1 == key r.2) = pre.any (fun y => key y.2 == key r.2) := by
    rw [← firstOccs_any]
    simp [specAcc, List.any_map, Function.comp_def]
  rw [hany]
  unfold specAcc
  rw [firstOccs_snoc]
  by_cases ha : pre.any (fun z => key z.2 == key r.2) = true
  · simp only [ha, if_true, List.append_nil, List.map_map]
    apply List.map_congr_left
    intro x _
    simp only [Function.comp, upd, List.filter_append, List.map_append]
    by_cases e : key x.2 = key r.2
    · simp [e]
    · have e' : ¬ key r.2 = key x.2 := fun h => e h.symm
      simp [e, e']
  · rw [if_neg ha, if_neg ha]
    simp only [List.map_append, List.map_cons, List.map_nil]
    have hne : ∀ y ∈ pre, ¬ key y.2 = key r.2 := by
      intro y hy e
      apply ha
      simp only [List.any_eq_true, beq_iff_eq]
      exact ⟨y, hy, e⟩
    congr 1
    · apply List.map_congr_left
      intro x hx
      have hx' := (firstOccs_sublist key pre).subset hx
      have e' : ¬ key r.2 = key x.2 := fun h => hne x hx' h.symm
      simp [List.filter_append, e']
    · have : pre.filter (fun y => key y.2 == key r.2) = [] := by
        simp only [List.filter_eq_nil_iff, beq_iff_eq]
        exact hne
      simp [List.filter_append, this]

theorem dedupRows_specAcc (key : Seq → Seq) (rest pre : List (String × Seq)) :
    dedupRows key rest (specAcc key pre) = specAcc key (pre ++ rest) := by
  induction rest generalizing pre with
  | nil => simp [dedupRows]
  | cons r t ih =>
    have e : pre ++ r :: t = (pre ++ [r]) ++ t := by simp
    rw [e, ← ih (pre ++ [r]), dedupRows_cons, specAcc_snoc]
    split <;> rfl

/-- **closed form of the reference de-duplication** -/
theorem dedupRows_closed (key : Seq → Seq) (rows : List (String × Seq)) :
    dedupRows key rows [] = specAcc key rows := by
  have := dedupRows_specAcc key rows []
  simpa [specAcc, firstOccs_nil] using this

theorem dedupRows_rows (key : Seq → Seq) (rows : List (String × Seq)) :
    (dedupRows key rows []).map rowOf = firstOccs key rows := by
  rw [dedupRows_closed]; simp [specAcc, rowOf, List.map_map, Function.comp_def]

theorem dedupRows_groups (key : Seq → Seq) (rows : List (String × Seq)) :
    (dedupRows key rows []).map grpOf = groupsOf key rows := by
  rw [dedupRows_closed]; simp [specAcc, grpOf, groupsOf, List.map_map, Function.comp_def]

/-! ### invariants of the accumulator loop -/

theorem map_upd_keys (k : Seq) (x : String) (acc : List Grp) : (acc.map (upd k x)).map Prod.fst = acc.map Prod.fst := by
  rw [List.map_map]; apply List.map_congr_left; intro g _; simp only [Function.comp, upd]; split <;> rfl

theorem map_upd_rows (k : Seq) (x : String) (acc : List Grp) : (acc.map (upd k x)).map rowOf = acc.map rowOf := by
  rw [List.map_map]; apply List.map_congr_left; intro g _; simp only [Function.comp, upd, rowOf]; split <;> rfl

theorem map_upd_of_ne (k : Seq) (x : String) (acc : List Grp) (h : ∀ g ∈ acc, g.1 ≠ k) : acc.map (upd k x) = acc := by
  have : ∀ g ∈ acc, upd k x g = id g := by
    intro g hg
    have := h g hg
    simp [upd, this]
  rw [List.map_congr_left this, List.map_id]

theorem nodup_keys_snoc (acc : List Grp) (k : Seq) (e : Grp) (he : e.1 = k) (h : (acc.map Prod.fst).Nodup)
    (ha : ¬ acc.any (fun g => g.1 == k) = true) : ((acc ++ [e]).map Prod.fst).Nodup := by
  simp only [List.map_append, List.map_cons, List.map_nil]
  refine List.nodup_append.mpr ⟨h, by simp, ?_⟩
  intro a h1 b h2
  simp only [List.mem_singleton] at h2
  subst h2
  intro e'
  apply ha
  obtain ⟨g, hg, e''⟩ := List.mem_map.mp h1
  simp only [List.any_eq_true, beq_iff_eq]
  exact ⟨g, hg, by rw [e'', e', he]⟩

/-- every group starts with the name of its kept row -/
theorem dedupRows_leader (key : Seq → Seq) (rest : List (String × Seq)) (acc : List Grp)
    (h : ∀ g ∈ acc, (grpOf g).head? = some g.2.1) :
    ∀ g ∈ dedupRows key rest acc, (grpOf g).head? = some g.2.1 := by
  induction rest generalizing acc with
  | nil => simpa [dedupRows] using h
  | cons r t ih =>
    rw [dedupRows_cons]
    split
    · apply ih
      intro g hg
      obtain ⟨g0, hg0, e⟩ := List.mem_map.mp hg
      subst e
      have h0 := h g0 hg0
      unfold upd
      split
      · simp only [grpOf] at h0 ⊢
        cases hl : g0.2.2.2 with
        | nil => rw [hl] at h0; simp at h0
        | cons a l => rw [hl] at h0; simpa using h0
      · exact h0
    · apply ih
      intro g hg
      rcases List.mem_append.mp hg with hg | hg
      · exact h g hg
      · simp only [List.mem_singleton] at hg
        subst hg
        rfl

theorem flatten_upd (k : Seq) (x : String) (acc : List Grp) (hn : (acc.map Prod.fst).Nodup)
    (ha : acc.any (fun g => g.1 == k) = true) :
    (((acc.map (upd k x)).map grpOf).flatten).Perm (x :: (acc.map grpOf).flatten) := by
  induction acc with
  | nil => simp at ha
  | cons g t ih =>
    simp only [List.map_cons, List.nodup_cons] at hn
    by_cases hg : g.1 = k
    · have hne : ∀ g' ∈ t, g'.1 ≠ k := by
        intro g' hg' e
        exact hn.1 (List.mem_map.mpr ⟨g', hg', by rw [e, hg]⟩)
      rw [List.map_cons, map_upd_of_ne k x t hne]
      simp only [upd, hg, beq_self_eq_true, if_true, List.map_cons, List.flatten_cons, grpOf, List.append_assoc]
      exact (List.perm_middle (l₁ := g.2.2.2) (a := x) (l₂ := (t.map grpOf).flatten))
    · have ha' : t.any (fun g => g.1 == k) = true := by
        simp only [List.any_cons, Bool.or_eq_true, beq_iff_eq] at ha
        rcases ha with ha | ha
        · exact absurd ha hg
        · exact ha
      have hb : (g.1 == k) = false := by simpa using hg
      simp only [List.map_cons, upd, hb, List.flatten_cons]
      exact ((ih hn.2 ha').append_left _).trans List.perm_middle

/-- **the groups partition the names**: together they contain every input name exactly as often as it
occurs in the input -/
theorem dedupRows_partition (key : Seq → Seq) (rest : List (String × Seq)) (acc : List Grp)
    (hn : (acc.map Prod.fst).Nodup) :
    (((dedupRows key rest acc).map grpOf).flatten).Perm ((acc.map grpOf).flatten ++ rest.map Prod.fst) := by
  induction rest generalizing acc with
  | nil => simp [dedupRows]
  | cons r t ih =>
    rw [dedupRows_cons]
    split
    · rename_i ha
      refine (ih _ (by rw [map_upd_keys]; exact hn)).trans ?_
      simp only [List.map_cons]
      exact ((flatten_upd _ r.1 acc hn ha).append_right _).trans (by simpa using List.perm_middle.symm)
    · rename_i ha
      refine (ih _ (nodup_keys_snoc acc _ _ rfl hn ha)).trans ?_
      simp [grpOf]

/-- rows with pairwise distinct keys are all kept, each in a group of its own -/
theorem dedupRows_distinct (key : Seq → Seq) (rest : List (String × Seq)) (acc : List Grp)
    (hn : (acc.map Prod.fst ++ rest.map fun r => key r.2).Nodup) :
    dedupRows key rest acc = acc ++ rest.map fun r => (key r.2, r.1, r.2, [r.1]) := by
  induction rest generalizing acc with
  | nil => simp [dedupRows]
  | cons r t ih =>
    rw [dedupRows_cons]
    have ha : ¬ acc.any (fun g => g.1 == key r.2) = true := by
      intro ha
      simp only [List.any_eq_true, beq_iff_eq] at ha
      obtain ⟨g, hg, e⟩ := ha
      have := (List.nodup_append.mp hn).2.2 g.1 (List.mem_map.mpr ⟨g, hg, rfl⟩) (key r.2) (by simp)
      exact this e
    rw [if_neg ha, ih]
    · simp
    · simpa using hn

end Gv.Proofs.Dedup
