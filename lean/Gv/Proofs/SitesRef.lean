import Gv.Proofs.SitesLists
/-!
Helper development for C04: the scanning loops of `RefCoordinates` / `RefSites` against the
residue-counting vocabulary of `Gv/Spec/Sites.lean`.
-/
namespace Gv.Proofs.SitesRef
open Gv Gv.Model Gv.Spec.Sites Gv.Proofs.SitesLists

theorem refLoop_phase2 (rs rl : Nat) : ∀ (t : Seq) (seen ng as al : Nat), rs < seen → seen < rs + rl →
    (refLoop rs rl t seen ng as al).2 = (as, al + spanOf (rs + rl - seen) t) := by
  intro t
  induction t with
  | nil => intro seen ng as al _ _; simp [refLoop, spanOf]
  | cons c t ih =>
    intro seen ng as al h1 h2
    by_cases hc : c = GAP
    · subst hc
      have e1 : ¬ (seen ≤ rs) := by omega
      have e2 : ¬ (seen ≥ rs + rl) := by omega
      simp only [refLoop, bne_self_eq_false, Bool.false_eq_true, if_false, e1, e2, spanOf, if_true]
      rw [ih seen (ng + 1) as (al + 1) h1 h2]
      simp; omega
    · have hb : (c != GAP) = true := by simpa using hc
      have e1 : ¬ (seen + 1 ≤ rs) := by omega
      simp only [refLoop, hb, if_true, e1, if_false, spanOf, hc]
      by_cases e2 : seen + 1 ≥ rs + rl
      · have : rs + rl - seen ≤ 1 := by omega
        simp [e2, this]
      · have : ¬ (rs + rl - seen ≤ 1) := by omega
        simp only [e2, if_false, this]
        rw [ih (seen + 1) ng as (al + 1) (by omega) (by omega)]
        have : rs + rl - (seen + 1) = rs + rl - seen - 1 := by omega
        rw [this]; simp; omega

theorem refLoop_phase1 (rs rl : Nat) (hrl : 0 < rl) : ∀ (t : Seq) (seen ng as : Nat), seen ≤ rs →
    (refLoop rs rl t seen ng as 0).2 =
      (as + skipTo (rs - seen) t, spanOf rl (t.drop (skipTo (rs - seen) t))) := by
  intro t
  induction t with
  | nil => intro seen ng as _; simp [refLoop, skipTo, spanOf]
  | cons c t ih =>
    intro seen ng as h1
    by_cases hc : c = GAP
    · subst hc
      simp only [refLoop, bne_self_eq_false, Bool.false_eq_true, if_false, h1, if_true, skipTo]
      rw [ih seen (ng + 1) (as + 1) h1]
      have : 1 + skipTo (rs - seen) t = skipTo (rs - seen) t + 1 := by omega
      rw [this, List.drop_succ_cons]
      simp; omega
    · have hb : (c != GAP) = true := by simpa using hc
      simp only [refLoop, hb, if_true, skipTo, hc, if_false]
      by_cases e1 : seen + 1 ≤ rs
      · have hk : ¬ (rs - seen = 0) := by omega
        simp only [e1, if_true, hk, if_false]
        rw [ih (seen + 1) ng (as + 1) e1]
        have e : rs - (seen + 1) = rs - seen - 1 := by omega
        have : 1 + skipTo (rs - seen - 1) t = skipTo (rs - seen - 1) t + 1 := by omega
        rw [e, this, List.drop_succ_cons]
        simp; omega
      · have hk : rs - seen = 0 := by omega
        have hs : seen = rs := by omega
        simp only [e1, if_false, hk, if_true, List.drop_zero, spanOf, hc]
        by_cases e2 : seen + 1 ≥ rs + rl
        · have : rl ≤ 1 := by omega
          simp [e2, this]
        · have hn : ¬ (rl ≤ 1) := by omega
          simp only [e2, if_false, hn]
          have := refLoop_phase2 rs rl t (seen + 1) ng as 1 (by omega) (by omega)
          rw [this]
          have : rs + rl - (seen + 1) = rl - 1 := by omega
          rw [this]; simp

/-- the gap counter: either enough residues were met (the loop broke out), or every gap was counted -/
theorem refLoop_ngaps (rs rl : Nat) : ∀ (t : Seq) (seen ng as al : Nat),
    rs + rl ≤ seen + nres t ∨ (refLoop rs rl t seen ng as al).1 = ng + (t.length - nres t) := by
  intro t
  induction t with
  | nil => intro seen ng as al; right; simp [refLoop, nres]
  | cons c t ih =>
    intro seen ng as al
    have hle : nres t ≤ t.length := by unfold nres; exact List.length_filter_le _ _
    by_cases hc : c = GAP
    · subst hc
      have hn : nres (GAP :: t) = nres t := by simp [nres]
      simp only [refLoop, bne_self_eq_false, Bool.false_eq_true, if_false]
      split
      · rcases ih seen (ng + 1) (as + 1) al with h | h
        · left; rw [hn]; exact h
        · right; rw [h, hn]; simp; omega
      · split
        · left; rw [hn]; omega
        · rcases ih seen (ng + 1) as (al + 1) with h | h
          · left; rw [hn]; exact h
          · right; rw [h, hn]; simp; omega
    · have hb : (c != GAP) = true := by simpa using hc
      have hn : nres (c :: t) = nres t + 1 := by simp [nres, hb]
      simp only [refLoop, hb, if_true]
      split
      · rcases ih (seen + 1) ng (as + 1) al with h | h
        · left; rw [hn]; omega
        · right; rw [h, hn]; simp
      · split
        · left; rw [hn]; omega
        · rcases ih (seen + 1) ng as (al + 1) with h | h
          · left; rw [hn]; omega
          · right; rw [h, hn]; simp

theorem skipTo_spec : ∀ (k : Nat) (t : Seq), k < nres t →
    skipTo k t < t.length ∧ t.getD (skipTo k t) GAP ≠ GAP ∧ nres (t.take (skipTo k t)) = k := by
  intro k t
  induction t generalizing k with
  | nil => intro h; simp [nres] at h
  | cons c t ih =>
    intro h
    by_cases hc : c = GAP
    · subst hc
      have hn : nres (GAP :: t) = nres t := by simp [nres]
      rw [hn] at h
      obtain ⟨a, b, d⟩ := ih k h
      simp only [skipTo, if_true]
      have e : 1 + skipTo k t = skipTo k t + 1 := by omega
      rw [e]
      refine ⟨by simp; omega, by simpa using b, ?_⟩
      simp only [List.take_succ_cons]
      have : nres (GAP :: t.take (skipTo k t)) = nres (t.take (skipTo k t)) := by simp [nres]
      rw [this]; exact d
    · have hb : (c != GAP) = true := by simpa using hc
      have hn : nres (c :: t) = nres t + 1 := by simp [nres, hb]
      simp only [skipTo, hc, if_false]
      by_cases hk : k = 0
      · subst hk
        simp [hc, nres]
      · simp only [hk, if_false]
        rw [hn] at h
        obtain ⟨a, b, d⟩ := ih (k - 1) (by omega)
        have e : 1 + skipTo (k - 1) t = skipTo (k - 1) t + 1 := by omega
        rw [e]
        refine ⟨by simp; omega, by simpa using b, ?_⟩
        simp only [List.take_succ_cons]
        have : nres (c :: t.take (skipTo (k - 1) t)) = nres (t.take (skipTo (k - 1) t)) + 1 := by simp [nres, hb]
        rw [this, d]; omega

theorem spanOf_spec : ∀ (m : Nat) (t : Seq), 1 ≤ m → m ≤ nres t →
    1 ≤ spanOf m t ∧ spanOf m t ≤ t.length ∧ t.getD (spanOf m t - 1) GAP ≠ GAP ∧ nres (t.take (spanOf m t)) = m := by
  intro m t
  induction t generalizing m with
  | nil => intro h1 h2; simp [nres] at h2; omega
  | cons c t ih =>
    intro h1 h2
    by_cases hc : c = GAP
    · subst hc
      have hn : nres (GAP :: t) = nres t := by simp [nres]
      rw [hn] at h2
      obtain ⟨a, b, d, e⟩ := ih m h1 h2
      simp only [spanOf, if_true]
      have e1 : 1 + spanOf m t = spanOf m t + 1 := by omega
      rw [e1]
      refine ⟨by omega, by simp; omega, ?_, ?_⟩
      · have : spanOf m t + 1 - 1 = (spanOf m t - 1) + 1 := by omega
        rw [this]; simpa using d
      · simp only [List.take_succ_cons]
        have : nres (GAP :: t.take (spanOf m t)) = nres (t.take (spanOf m t)) := by simp [nres]
        rw [this]; exact e
    · have hb : (c != GAP) = true := by simpa using hc
      have hn : nres (c :: t) = nres t + 1 := by simp [nres, hb]
      simp only [spanOf, hc, if_false]
      by_cases hm : m ≤ 1
      · have : m = 1 := by omega
        subst this
        simp [hc, nres, hb]
      · simp only [hm, if_false]
        rw [hn] at h2
        obtain ⟨a, b, d, e⟩ := ih (m - 1) (by omega) (by omega)
        have e1 : 1 + spanOf (m - 1) t = spanOf (m - 1) t + 1 := by omega
        rw [e1]
        refine ⟨by omega, by simp; omega, ?_, ?_⟩
        · have : spanOf (m - 1) t + 1 - 1 = (spanOf (m - 1) t - 1) + 1 := by omega
          rw [this]; simpa using d
        · simp only [List.take_succ_cons]
          have : nres (c :: t.take (spanOf (m - 1) t)) = nres (t.take (spanOf (m - 1) t)) + 1 := by simp [nres, hb]
          rw [this, e]; omega

theorem nres_append (a b : Seq) : nres (a ++ b) = nres a + nres b := by simp [nres]

/-! ### monotonicity and uniqueness of residue positions -/

theorem nres_le_length (t : Seq) : nres t ≤ t.length := by
  unfold nres; exact List.length_filter_le _ _

theorem nres_take_le (t : Seq) (a : Nat) : nres (t.take a) ≤ nres t := by
  have := nres_append (t.take a) (t.drop a)
  rw [List.take_append_drop] at this
  omega

theorem nres_take_mono (t : Seq) {a b : Nat} (h : a ≤ b) : nres (t.take a) ≤ nres (t.take b) := by
  have : t.take a = (t.take b).take a := by
    rw [List.take_take]; congr 1; omega
  rw [this]; exact nres_take_le _ _

theorem nres_take_succ (t : Seq) (p : Nat) (hp : p < t.length) (hg : t.getD p GAP ≠ GAP) :
    nres (t.take (p + 1)) = nres (t.take p) + 1 := by
  rw [List.take_add_one, nres_append]
  have : t[p]? = some t[p] := List.getElem?_eq_getElem hp
  rw [List.getD_eq_getElem?_getD, this] at hg
  simp only [Option.getD_some] at hg
  have hb : (t[p] != GAP) = true := by simpa using hg
  simp [this, nres, hb]

/-- a position holding a residue is determined by the number of residues before it -/
theorem skipTo_unique (t : Seq) (k p : Nat) (hp : p < t.length) (hg : t.getD p GAP ≠ GAP)
    (hk : nres (t.take p) = k) : p = skipTo k t := by
  have hlt : k < nres t := by
    have := nres_take_succ t p hp hg
    have := nres_take_le t (p + 1)
    omega
  obtain ⟨q1, q2, q3⟩ := skipTo_spec k t hlt
  rcases Nat.lt_trichotomy p (skipTo k t) with h | h | h
  · have := nres_take_mono t (show p + 1 ≤ skipTo k t by omega)
    have := nres_take_succ t p hp hg
    omega
  · exact h
  · have := nres_take_mono t (show skipTo k t + 1 ≤ p by omega)
    have := nres_take_succ t (skipTo k t) q1 q2
    omega

theorem skipTo_strictMono (t : Seq) {k1 k2 : Nat} (h : k1 < k2) (h2 : k2 < nres t) :
    skipTo k1 t < skipTo k2 t := by
  obtain ⟨a1, a2, a3⟩ := skipTo_spec k1 t (by omega)
  obtain ⟨b1, b2, b3⟩ := skipTo_spec k2 t h2
  apply Classical.byContradiction
  intro hc
  have := nres_take_mono t (show skipTo k2 t ≤ skipTo k1 t by omega)
  omega

/-! ### the scan of `RefSites` -/

/-- the scan of `RefSites`: the positions of the residues whose ungapped index is wanted, in
increasing order -/
theorem refSitesLoop_spec (w : List Int) : ∀ (t : Seq) (pos seen : Nat),
    refSitesLoop w t pos seen =
      ((List.range (nres t)).filter fun k => w.contains (((seen + k : Nat)) : Int)).map
        fun k => (((pos + skipTo k t : Nat)) : Int) := by
  intro t
  induction t with
  | nil => intro pos seen; simp [refSitesLoop, nres]
  | cons c t ih =>
    intro pos seen
    by_cases hc : c = GAP
    · subst hc
      have hn : nres (GAP :: t) = nres t := by simp [nres]
      simp only [refSitesLoop, bne_self_eq_false, Bool.false_eq_true, if_false, hn, skipTo, if_true]
      rw [ih (pos + 1) seen]
      apply List.map_congr_left
      intro k _
      congr 1; omega
    · have hb : (c != GAP) = true := by simpa using hc
      have hn : nres (c :: t) = nres t + 1 := by simp [nres, hb]
      simp only [refSitesLoop, hb, if_true, hn]
      rw [ih (pos + 1) (seen + 1), List.range_succ_eq_map, List.filter_cons]
      simp only [Nat.add_zero, skipTo, hc, if_false]
      have e1 : (List.filter (fun k => w.contains (((seen + k : Nat)) : Int)) (List.map Nat.succ (List.range (nres t)))).map
            (fun k => (((pos + (if k = 0 then 0 else 1 + skipTo (k - 1) t) : Nat)) : Int)) =
          ((List.range (nres t)).filter fun k => w.contains (((seen + 1 + k : Nat)) : Int)).map
            fun k => (((pos + 1 + skipTo k t : Nat)) : Int) := by
        rw [List.filter_map, List.map_map]
        have : (fun k => w.contains (((seen + k : Nat)) : Int)) ∘ Nat.succ = fun k => w.contains (((seen + 1 + k : Nat)) : Int) := by
          funext k; simp only [Function.comp, Nat.succ_eq_add_one]; congr 2; omega
        rw [this]
        apply List.map_congr_left
        intro k _
        simp only [Function.comp, Nat.succ_eq_add_one, Nat.add_one_ne_zero, if_false, Nat.add_sub_cancel]
        congr 1; omega
      split <;> simp_all

/-! ### the gap counter and the error flag of `RefCoordinates` -/

/-- the gap counter never exceeds the number of gaps of the row -/
theorem refLoop_ngaps_le (rs rl : Nat) : ∀ (t : Seq) (seen ng as al : Nat),
    (refLoop rs rl t seen ng as al).1 ≤ ng + (t.length - nres t) := by
  intro t
  induction t with
  | nil => intro seen ng as al; simp [refLoop]
  | cons c t ih =>
    intro seen ng as al
    have hle : nres t ≤ t.length := nres_le_length t
    by_cases hc : c = GAP
    · subst hc
      have hn : nres (GAP :: t) = nres t := by simp [nres]
      simp only [refLoop, bne_self_eq_false, Bool.false_eq_true, if_false, hn, List.length_cons]
      split
      · have := ih seen (ng + 1) (as + 1) al; omega
      · split
        · simp; omega
        · have := ih seen (ng + 1) as (al + 1); omega
    · have hb : (c != GAP) = true := by simpa using hc
      have hn : nres (c :: t) = nres t + 1 := by simp [nres, hb]
      simp only [refLoop, hb, if_true, hn, List.length_cons]
      split
      · have := ih (seen + 1) ng (as + 1) al; omega
      · split
        · simp
        · have := ih (seen + 1) ng as (al + 1); omega

/-- the error flag of `RefCoordinates` is raised exactly when the request exceeds the residues -/
theorem refLoop_flag (rs rl : Nat) (t : Seq) :
    (rs + rl > t.length - (refLoop rs rl t 0 0 0 0).1) ↔ nres t < rs + rl := by
  have hle := nres_le_length t
  have h1 := refLoop_ngaps_le rs rl t 0 0 0 0
  rcases refLoop_ngaps rs rl t 0 0 0 0 with h | h
  · omega
  · omega

end Gv.Proofs.SitesRef
