import Gv.Model.Fmt.Nexus
import Gv.Proofs.Decimal
import Gv.Proofs.FastaRT
import Gv.Spec.Fmt
/-!
Nexus round trip, helper development (the property statement is in `Props/C02.lean`).
-/
namespace Gv.Proofs.NexusRT
open Gv Gv.Model Gv.Model.Fmt Gv.Model.Fmt.Nexus
open Gv.Model.Fmt.Phylip (Stop R parseInt64)
open Gv.Proofs.FastaRT (takeWhile_append_stop)

set_option maxRecDepth 100000

/-- a run of identifier bytes -/
def Run (l : Seq) : Prop := l ≠ [] ∧ ∀ b ∈ l, identChar b = true

theorem identChar_facts (c : Byte) (h : identChar c = true) :
    isWS c = false ∧ (c == NL) = false ∧ (c == CR) = false ∧ (c == 0) = false ∧
    (c == 91) = false ∧ (c == 93) = false ∧ (c == 59) = false ∧ (c == 61) = false := by
  simp only [identChar, Bool.and_eq_true, bne_iff_ne, ne_eq, Bool.not_eq_true'] at h
  obtain ⟨⟨⟨⟨⟨⟨⟨h1, h2⟩, h3⟩, h4⟩, h5⟩, h6⟩, h7⟩, h8⟩ := h
  refine ⟨h7, ?_, ?_, ?_, ?_, ?_, ?_, ?_⟩ <;> simp [*]

/-- scanning a run followed by a stop byte yields the classified run and leaves the stop byte -/
theorem scan_run (l : Seq) (h : Run l) (x : Byte) (hx : identChar x = false) (hx0 : x ≠ 0) (rest : Seq) :
    scan (l ++ x :: rest) = (classify l, x :: rest) := by
  obtain ⟨hne, hall⟩ := h
  cases l with
  | nil => exact absurd rfl hne
  | cons c cs =>
    obtain ⟨f1, f2, f3, f4, f5, f6, f7, f8⟩ := identChar_facts c (hall c (by simp))
    have hcs : ∀ b ∈ cs, identChar b = true := fun b hb => hall b (by simp [hb])
    obtain ⟨t1, t2⟩ := takeWhile_append_stop (p := identChar) cs x rest hcs hx
    have hx0' : (x == 0) = false := by simp [hx0]
    simp only [List.cons_append, scan, f1, f2, f3, f4, f5, f6, f7, f8, Bool.false_eq_true, if_false, identFrom,
      t1, t2, Phylip.afterRun, hx0']

/-- `scanIgnoreWhitespace` on a run (not a white-space token) -/
theorem sIW_run (l : Seq) (h : Run l) (x : Byte) (hx : identChar x = false) (hx0 : x ≠ 0) (rest : Seq) :
    sIW (l ++ x :: rest) = (classify l, x :: rest) := by
  unfold sIW
  rw [scan_run l h x hx hx0 rest]
  have : (classify l).kind ≠ .ws := by
    unfold classify
    split
    · simp
    · split
      · rename_i k hk
        intro e
        have hm := lookup_eq_some_mem hk
        simp only at e
        subst e
        simp [keywords] at hm
      · simp
  simp [this]

/-- one space, then a run -/
theorem sIW_sp_run (l : Seq) (h : Run l) (x : Byte) (hx : identChar x = false) (hx0 : x ≠ 0) (rest : Seq) :
    sIW (SP :: (l ++ x :: rest)) = (classify l, x :: rest) := by
  obtain ⟨hne, hall⟩ := h
  cases l with
  | nil => exact absurd rfl hne
  | cons c cs =>
    obtain ⟨f1, _, _, f4, _⟩ := identChar_facts c (hall c (by simp))
    have e1 : scan (SP :: (c :: cs ++ x :: rest)) = (⟨.ws, [SP]⟩, c :: cs ++ x :: rest) := by
      have w : isWS SP = true := by decide
      simp only [scan, w, if_true, List.cons_append, List.takeWhile_cons, f1, List.dropWhile_cons,
        Bool.false_eq_true, if_false, Phylip.afterRun, f4]
    unfold sIW
    rw [e1]
    simp only [beq_self_eq_true, if_true]
    exact scan_run (c :: cs) ⟨hne, hall⟩ x hx hx0 rest

/-- printed numbers are runs classified as NUMERIC -/
theorem natDec_run (n : Nat) : Run (natDec n) := by
  obtain ⟨_, hd, hne⟩ := Decimal.natDec_spec n
  refine ⟨hne, ?_⟩
  intro b hb
  have hdig := List.all_eq_true.mp hd b hb
  have key : ∀ b : Byte, Phylip.isDigit b = true → identChar b = true := by decide
  exact key b hdig

theorem classify_natDec (n : Nat) (h : n ≤ 9223372036854775807) : classify (natDec n) = ⟨.numeric, natDec n⟩ := by
  unfold classify
  simp [Decimal.parseInt64_natDec n h]

theorem classify_lit (l : Seq) : (classify l).lit = l := by
  unfold classify
  split
  · rfl
  · split <;> rfl

/-- a residue run is taken as residues by the MATRIX row loop -/
def SeqTok (f : Facts) (q : Seq) : Prop :=
  (classify q).kind = .ident ∨ (f.keywordRowsAreResidues = true ∧ isKeyword (classify q).kind = true)

theorem identChar_SP : identChar SP = false := by decide
theorem identChar_NL : identChar NL = false := by decide

theorem sIW_nl (rest : Seq) : sIW (NL :: rest) = (⟨.endofline, []⟩, rest) := by
  simp [sIW, scan, isWS, NL, SP, TAB]

theorem sIW_semi (rest : Seq) : sIW (59 :: rest) = (⟨.endofcommand, [59]⟩, rest) := by
  simp [sIW, scan, isWS, NL, CR, SP, TAB]

theorem sIW_eq (rest : Seq) : sIW (61 :: rest) = (⟨.equal, [61]⟩, rest) := by
  simp [sIW, scan, isWS, NL, CR, SP, TAB]

/-- the residues of one matrix row: ` <residues>\n` -/
theorem rowLoop_row (f : Facts) (k : Nat) (q : Seq) (hq : Run q) (ht : SeqTok f q) (rest : Seq) :
    rowLoop f (k + 2) (SP :: (q ++ NL :: rest)) [] = .ok (q, rest) := by
  rw [rowLoop]
  simp only [sIW_sp_run q hq NL identChar_NL (by decide) rest]
  have hc : ((classify q).kind == Kind.ident || f.keywordRowsAreResidues && isKeyword (classify q).kind) = true := by
    cases ht with
    | inl h => simp [h]
    | inr h => simp [h.1, h.2]
  simp only [hc, if_true, classify_lit, List.nil_append]
  rw [rowLoop]
  simp [sIW_nl, pure, Except.pure, isKeyword]

def rowLine (r : XRow) : Seq := r.1 ++ [SP] ++ r.2 ++ [NL]

/-- a row the MATRIX loop reads back as it was written -/
structure RowOk (f : Facts) (r : XRow) : Prop where
  name : Run r.1
  nameTok : (classify r.1).kind = .ident ∨ (classify r.1).kind = .numeric
  seq : Run r.2
  seqTok : SeqTok f r.2

theorem matrixLoop_row (f : Facts) (k : Nat) (r : XRow) (h : RowOk f r) (rest : Seq) (acc : List XRow) :
    matrixLoop f (k + 1) (rowLine r ++ rest) acc = matrixLoop f k rest (addseq acc r.1 r.2) := by
  rw [matrixLoop]
  have e : rowLine r ++ rest = r.1 ++ SP :: (r.2 ++ NL :: rest) := by simp [rowLine]
  rw [e, sIW_run r.1 h.name SP identChar_SP (by decide)]
  have hfuel : (SP :: (r.2 ++ NL :: rest)).length + 3 = ((r.2 ++ NL :: rest).length + 2) + 2 := by
    simp only [List.length_cons]
  cases h.nameTok with
  | inl hk =>
    simp only [hk, classify_lit]
    rw [hfuel, rowLoop_row f _ r.2 h.seq h.seqTok rest]
    simp [bind, Except.bind]
  | inr hk =>
    simp only [hk, classify_lit]
    rw [hfuel, rowLoop_row f _ r.2 h.seq h.seqTok rest]
    simp [bind, Except.bind]

theorem addseq_fresh (acc : List XRow) (n : Name) (q : Seq) (h : ∀ r ∈ acc, r.1 ≠ n) :
    addseq acc n q = acc ++ [(n, q)] := by
  unfold addseq
  have : acc.any (fun r => r.1 == n) = false := by
    simp only [List.any_eq_false, beq_iff_eq]
    exact h
  simp [this]

theorem matrixLoop_rows (f : Facts) : ∀ (rows : List XRow), (∀ r ∈ rows, RowOk f r) →
    Spec.Fmt.distinct (rows.map (·.1)) = true → ∀ (k : Nat) (rest : Seq) (acc : List XRow),
    (∀ r ∈ rows, ∀ a ∈ acc, a.1 ≠ r.1) →
    matrixLoop f (k + rows.length) (rows.flatMap rowLine ++ rest) acc = matrixLoop f k rest (acc ++ rows)
  | [], _, _, k, rest, acc, _ => by simp
  | r :: rs, hok, hd, k, rest, acc, hfr => by
    have e : k + (r :: rs).length = (k + rs.length) + 1 := by simp; omega
    simp only [List.flatMap_cons, List.append_assoc]
    rw [e, matrixLoop_row f _ r (hok r (by simp))]
    rw [addseq_fresh acc r.1 r.2 (fun a ha => hfr r (by simp) a ha)]
    simp only [Spec.Fmt.distinct, List.map_cons, Bool.and_eq_true, Bool.not_eq_true'] at hd
    have hnotin : ∀ q ∈ rs, q.1 ≠ r.1 := by
      intro q hq e
      have : (rs.map (·.1)).contains r.1 = true := by
        simp only [List.contains_iff_mem, List.mem_map]
        exact ⟨q, hq, e⟩
      rw [this] at hd
      exact absurd hd.1 (by simp)
    rw [matrixLoop_rows f rs (fun x hx => hok x (by simp [hx])) hd.2 k rest (acc ++ [(r.1, r.2)])]
    · simp
    · intro x hx a ha
      simp only [List.mem_append, List.mem_singleton] at ha
      cases ha with
      | inl ha => exact hfr x (by simp [hx]) a ha
      | inr ha => subst ha; exact fun e => hnotin x hx e.symm

/-- the whole MATRIX command: a line end, the rows, `;` -/
theorem matrixLoop_all (f : Facts) (rows : List XRow) (hok : ∀ r ∈ rows, RowOk f r)
    (hd : Spec.Fmt.distinct (rows.map (·.1)) = true) (k : Nat) (rest : Seq) :
    matrixLoop f (k + rows.length + 2) (NL :: (rows.flatMap rowLine ++ 59 :: rest)) [] = .ok (rows, rest) := by
  have e : k + rows.length + 2 = ((k + 1) + rows.length) + 1 := by omega
  rw [e, matrixLoop]
  simp only [sIW_nl]
  rw [matrixLoop_rows f rows hok hd (k + 1) (59 :: rest) [] (by intro _ _ a ha; cases ha)]
  rw [matrixLoop]
  simp [sIW_semi, pure, Except.pure]

/-- `= <number>` of a DIMENSIONS key, as the writer prints it -/
theorem dimValue_num (f : Facts) (n : Nat) (hn : n ≤ 9223372036854775807) (x : Byte) (hx : identChar x = false)
    (hx0 : x ≠ 0) (rest : Seq) :
    dimValue f (61 :: (natDec n ++ x :: rest)) = ((n : Int), false, false, x :: rest) := by
  unfold dimValue
  simp only [sIW_eq, sIW_run (natDec n) (natDec_run n) x hx hx0 rest, classify_natDec n hn,
    Decimal.parseInt64_natDec n hn]
  have : ¬ ((n : Int) < 0) := by omega
  simp [this]

def kwNtax : Seq := [110, 116, 97, 120]
def kwNchar : Seq := [110, 99, 104, 97, 114]

/-- `dimensions ntax=<n> nchar=<L>;` after the keyword -/
theorem dimensions_written (f : Facts) (k : Nat) (n L : Nat) (hn : n ≤ 9223372036854775807)
    (hL : L ≤ 9223372036854775807) (rest : Seq) (a b : Int) :
    dimensions f true (k + 3)
      (SP :: (kwNtax ++ 61 :: (natDec n ++ SP :: (kwNchar ++ 61 :: (natDec L ++ 59 :: rest))))) a b =
      .ok ((n : Int), (L : Int), rest) := by
  have r1 : Run kwNtax := ⟨by decide, by decide⟩
  have r2 : Run kwNchar := ⟨by decide, by decide⟩
  have c1 : classify kwNtax = ⟨.ntax, kwNtax⟩ := by decide
  have c2 : classify kwNchar = ⟨.nchar, kwNchar⟩ := by decide
  have e61 : identChar 61 = false := by decide
  have e59 : identChar 59 = false := by decide
  rw [dimensions]
  simp only [sIW_sp_run kwNtax r1 61 e61 (by decide), c1]
  simp only [dimValue_num f n hn SP identChar_SP (by decide)]
  simp only [reduceCtorEq, beq_self_eq_true, Bool.false_eq_true, if_false, if_true, beq_iff_eq]
  rw [dimensions]
  simp only [sIW_sp_run kwNchar r2 61 e61 (by decide), c2]
  simp only [dimValue_num f L hL 59 e59 (by decide)]
  simp only [reduceCtorEq, beq_self_eq_true, Bool.false_eq_true, if_false, if_true, beq_iff_eq, Bool.true_and]
  rw [dimensions]
  simp [sIW_semi, pure, Except.pure]

def kwDatatype : Seq := [100, 97, 116, 97, 116, 121, 112, 101]
def txtDna : Seq := [100, 110, 97]
def txtProtein : Seq := [112, 114, 111, 116, 101, 105, 110]

/-- ` datatype=<dt>;` after the keyword `format` -/
theorem formatLoop_written (k : Nat) (dt : Seq) (hdt : Run dt) (hc : classify dt = ⟨.ident, dt⟩) (rest : Seq) (d : Data) :
    formatLoop (k + 2) (SP :: (kwDatatype ++ 61 :: (dt ++ 59 :: rest))) d = .ok ({ d with datatype := dt }, rest) := by
  have r1 : Run kwDatatype := ⟨by decide, by decide⟩
  have c1 : classify kwDatatype = ⟨.datatype, kwDatatype⟩ := by decide
  have e61 : identChar 61 = false := by decide
  have e59 : identChar 59 = false := by decide
  rw [formatLoop]
  simp only [sIW_sp_run kwDatatype r1 61 e61 (by decide), c1, sIW_eq,
    sIW_run dt hdt 59 e59 (by decide) rest, hc]
  simp only [reduceCtorEq, beq_self_eq_true, Bool.false_eq_true, if_false, if_true, bne_self_eq_false]
  rw [formatLoop]
  simp [sIW_semi, pure, Except.pure]

def kwDimensions : Seq := [100, 105, 109, 101, 110, 115, 105, 111, 110, 115]
def kwFormat : Seq := [102, 111, 114, 109, 97, 116]
def kwMatrix : Seq := [109, 97, 116, 114, 105, 120]
def kwEnd : Seq := [101, 110, 100]
def kwBegin : Seq := [98, 101, 103, 105, 110]
def kwData : Seq := [100, 97, 116, 97]
def kwNexus : Seq := [35, 78, 69, 88, 85, 83]

theorem flatMap_rowLine_length (rows : List XRow) : 2 * rows.length ≤ (rows.flatMap rowLine).length := by
  induction rows with
  | nil => simp
  | cons r rs ih =>
    have : (rowLine r).length ≥ 2 := by simp [rowLine]; omega
    simp only [List.flatMap_cons, List.length_append, List.length_cons]; omega

/-- the text of the DATA block after `begin data;` as the writer prints it -/
def blockText (n L : Nat) (dt : Seq) (rows : List XRow) : Seq :=
  NL :: (kwDimensions ++ SP :: (kwNtax ++ 61 :: (natDec n ++ SP :: (kwNchar ++ 61 :: (natDec L ++ 59 :: NL ::
    (kwFormat ++ SP :: (kwDatatype ++ 61 :: (dt ++ 59 :: NL :: (kwMatrix ++ NL :: (rows.flatMap rowLine ++ 59 :: NL ::
      (kwEnd ++ 59 :: [NL])))))))))))

/-- `parseData` on the written block -/
theorem parseData_written (f : Facts) (k : Nat) (n L : Nat) (hn : n ≤ 9223372036854775807)
    (hL : L ≤ 9223372036854775807) (dt : Seq) (hdt : Run dt) (hc : classify dt = ⟨.ident, dt⟩)
    (rows : List XRow) (hok : ∀ r ∈ rows, RowOk f r) (hd : Spec.Fmt.distinct (rows.map (·.1)) = true) :
    parseData f (k + 8) (blockText n L dt rows) {} =
      .ok ({ rows := rows, nchar := L, ntax := n, datatype := dt }, [NL]) := by
  have rD : Run kwDimensions := ⟨by decide, by decide⟩
  have cD : classify kwDimensions = ⟨.dimensions, kwDimensions⟩ := by decide
  have rF : Run kwFormat := ⟨by decide, by decide⟩
  have cF : classify kwFormat = ⟨.format, kwFormat⟩ := by decide
  have rM : Run kwMatrix := ⟨by decide, by decide⟩
  have cM : classify kwMatrix = ⟨.matrix, kwMatrix⟩ := by decide
  have rE : Run kwEnd := ⟨by decide, by decide⟩
  have cE : classify kwEnd = ⟨.end_, kwEnd⟩ := by decide
  have e59 : identChar 59 = false := by decide
  unfold blockText
  -- 1: line end
  rw [parseData]; simp only [sIW_nl]
  -- 2: dimensions
  rw [parseData]
  simp only [sIW_run kwDimensions rD SP identChar_SP (by decide), cD]
  simp only [dimensions_written f _ n L hn hL, bind, Except.bind]
  -- 3: line end
  rw [parseData]; simp only [sIW_nl]
  -- 4: format
  rw [parseData]
  simp only [sIW_run kwFormat rF SP identChar_SP (by decide), cF]
  rw [show ∀ (X : Seq), (SP :: X).length + 3 = (X.length + 2) + 2 from fun X => by simp only [List.length_cons]]
  simp only [formatLoop_written _ dt hdt hc, bind, Except.bind]
  -- 5: line end
  rw [parseData]; simp only [sIW_nl]
  -- 6: matrix
  rw [parseData]
  simp only [sIW_run kwMatrix rM NL identChar_NL (by decide), cM]
  have hlen := flatMap_rowLine_length rows
  have hfuel : ∀ (rest : Seq), (NL :: (rows.flatMap rowLine ++ 59 :: rest)).length + 3 =
      ((rows.flatMap rowLine).length + rest.length + 3 - rows.length) + rows.length + 2 := by
    intro rest
    simp only [List.length_cons, List.length_append]
    omega
  rw [hfuel, matrixLoop_all f rows hok hd]
  simp only [bind, Except.bind]
  -- 7: line end
  rw [parseData]; simp only [sIW_nl]
  -- 8: end ;
  rw [parseData]
  simp only [sIW_run kwEnd rE 59 e59 (by decide), cE, sIW_semi]
  simp [pure, Except.pure]

theorem blockText_length (n L : Nat) (dt : Seq) (rows : List XRow) : 5 ≤ (blockText n L dt rows).length := by
  simp [blockText, kwDimensions]

/-- the whole file as the writer prints it, in cons / append form -/
def fileText (n L : Nat) (dt : Seq) (rows : List XRow) : Seq :=
  kwNexus ++ NL :: (kwBegin ++ SP :: (kwData ++ 59 :: blockText n L dt rows))

/-- the top-level loop on the written file (after `#NEXUS`) -/
theorem topLoop_written (f : Facts) (k : Nat) (n L : Nat) (hn : n ≤ 9223372036854775807)
    (hL : L ≤ 9223372036854775807) (dt : Seq) (hdt : Run dt) (hc : classify dt = ⟨.ident, dt⟩)
    (rows : List XRow) (hok : ∀ r ∈ rows, RowOk f r) (hd : Spec.Fmt.distinct (rows.map (·.1)) = true) :
    topLoop f (k + 4) (NL :: (kwBegin ++ SP :: (kwData ++ 59 :: blockText n L dt rows))) {} =
      .ok { data := some { rows := rows, nchar := L, ntax := n, datatype := dt } } := by
  have rB : Run kwBegin := ⟨by decide, by decide⟩
  have cB : classify kwBegin = ⟨.begin, kwBegin⟩ := by decide
  have rDa : Run kwData := ⟨by decide, by decide⟩
  have cDa : classify kwData = ⟨.data, kwData⟩ := by decide
  have e59 : identChar 59 = false := by decide
  rw [topLoop]; simp only [sIW_nl]
  simp only [reduceCtorEq, beq_self_eq_true, Bool.false_eq_true, if_false, if_true, beq_iff_eq]
  rw [topLoop]
  simp only [sIW_run kwBegin rB SP identChar_SP (by decide), cB]
  simp only [reduceCtorEq, beq_self_eq_true, Bool.false_eq_true, if_false, if_true, beq_iff_eq]
  unfold topStep
  simp only [beq_self_eq_true, if_true, sIW_sp_run kwData rDa 59 e59 (by decide), cDa, sIW_semi,
    bne_self_eq_false, Bool.false_eq_true, if_false]
  have hlen := blockText_length n L dt rows
  rw [show (blockText n L dt rows).length + 3 = ((blockText n L dt rows).length - 5) + 8 from by omega]
  simp only [parseData_written f _ n L hn hL dt hdt hc rows hok hd, bind, Except.bind]
  rw [topLoop]; simp only [sIW_nl]
  simp only [reduceCtorEq, beq_self_eq_true, Bool.false_eq_true, if_false, if_true, beq_iff_eq]
  rw [topLoop]
  simp [sIW, scan, pure, Except.pure]

/-! ### the end of `Parse` on the collected rows -/

theorem repl_self (a : Byte) (q : Seq) : repl a a q = q := by
  unfold repl
  induction q with
  | nil => rfl
  | cons c t ih =>
    simp only [List.map_cons, ih]
    by_cases h : c = a <;> simp [h]

theorem zipIdx_map (q : Seq) (g : Byte → Nat → Byte) (hg : ∀ c i, c ∈ q → g c i = c) :
    ∀ k : Nat, (q.zipIdx k).map (fun p => g p.1 p.2) = q := by
  induction q with
  | nil => intro k; rfl
  | cons c t ih =>
    intro k
    simp only [List.zipIdx_cons, List.map_cons, hg c k (by simp)]
    rw [ih (fun c' i hc' => hg c' i (by simp [hc']))]

/-- without `.` in the residues `ReplaceMatchChars` changes nothing -/
theorem replaceMatchChars_id (rows : List XRow) (h : ∀ r ∈ rows, ∀ c ∈ r.2, c ≠ POINT) :
    replaceMatchChars rows = rows := by
  cases rows with
  | nil => rfl
  | cons ref rest =>
    simp only [replaceMatchChars, List.cons.injEq, true_and]
    have : ∀ r ∈ rest, (r.1, (r.2.zipIdx).map fun x => match x with
        | (c, i) => if (ref.2.getD i POINT != POINT && c == POINT) = true then ref.2.getD i POINT else c) = r := by
      intro r hr
      have hz := zipIdx_map r.2 (fun c i => if (ref.2.getD i POINT != POINT && c == POINT) = true then ref.2.getD i POINT else c)
        (by
          intro c i hc
          have : (c == POINT) = false := by simp [h r (by simp [hr]) c hc]
          simp [this]) 0
      exact Prod.ext rfl hz
    calc rest.map _ = rest.map id := List.map_congr_left (fun r hr => this r hr)
      _ = rest := List.map_id rest

/-- the row loop of `Parse` on rows of one length with distinct names -/
theorem foldlM_addRow (f : Facts) (d : Data) (L : Nat) (hn : d.nchar = L) (hg : d.gap = GAP) (hm : d.missing = OTHER)
    (hmc : d.matchchar = POINT) : ∀ (rows : List XRow) (b : Bag),
    (∀ r ∈ rows, r.2 ≠ [] ∧ r.2.length = L) →
    (b.rows = [] ∧ b.length = -1 ∨ b.rows ≠ [] ∧ b.length = L) →
    (∀ r ∈ rows, ∀ q ∈ b.rows, q.1 ≠ r.1) →
    Spec.Fmt.distinct (rows.map (·.1)) = true →
    rows.foldlM (addRow f d) b = .ok { b with length := if rows = [] then b.length else L, rows := b.rows ++ rows }
  | [], b, _, _, _, _ => by simp [pure, Except.pure]
  | r :: rs, b, hlen, hb, hfr, hd => by
    have hr := hlen r (by simp)
    have hadd : addRow f d b r = .ok { b with length := (L : Int), rows := b.rows ++ [(r.1, r.2)] } := by
      unfold addRow
      have e1 : (f.rejectsEmptyRows && r.2.isEmpty) = false := by
        have : r.2.isEmpty = false := by
          cases hq : r.2 with
          | nil => exact absurd hq hr.1
          | cons _ _ => rfl
        simp [this]
      have e2 : (((r.2.length : Int) != d.nchar) && (d.nchar != -1)) = false := by
        simp [hn, hr.2]
      simp only [e1, e2, Bool.false_eq_true, if_false, hg, hm, hmc, repl_self]
      have := FastaRT.add_fresh b r.1 r.2 (fun q hq => hfr r (by simp) q hq)
        (by
          cases hb with
          | inl h => exact Or.inl h.2
          | inr h => right; rw [h.2, hr.2])
      rw [this]
      simp [pure, Except.pure, hr.2]
    simp only [List.foldlM_cons, bind, Except.bind, hadd]
    simp only [Spec.Fmt.distinct, List.map_cons, Bool.and_eq_true, Bool.not_eq_true'] at hd
    have hnotin : ∀ q ∈ rs, q.1 ≠ r.1 := by
      intro q hq e
      have : (rs.map (·.1)).contains r.1 = true := by
        simp only [List.contains_iff_mem, List.mem_map]
        exact ⟨q, hq, e⟩
      rw [this] at hd
      exact absurd hd.1 (by simp)
    rw [foldlM_addRow f d L hn hg hm hmc rs _ (fun x hx => hlen x (by simp [hx]))
      (Or.inr ⟨by simp, rfl⟩)
      (by
        intro x hx q hq
        simp only [List.mem_append, List.mem_singleton] at hq
        cases hq with
        | inl hq => exact hfr x (by simp [hx]) q hq
        | inr hq => subst hq; exact fun e => hnotin x hx e.symm)
      hd.2]
    simp only [List.append_assoc, List.cons_append, List.nil_append, reduceCtorEq, if_false]
    cases rs with
    | nil => simp
    | cons x xs => simp

/-- the end of `Parse` on what the top-level loop collected from a written file -/
theorem build_written (f : Facts) (o : POpts) (ho : normAlphabet o.alphabet = 2) (L : Nat) (hL1 : 1 ≤ L)
    (dt : Seq) (rows : List XRow) (hne : rows ≠ []) (hlen : ∀ r ∈ rows, r.2.length = L)
    (hd : Spec.Fmt.distinct (rows.map (·.1)) = true) (hdot : ∀ r ∈ rows, ∀ c ∈ r.2, c ≠ POINT)
    (alp : Nat) (halp : alphabetFromString dt = alp) (a : Aln)
    (hfin : Bag.finish { ignore := normIgnore o.ignore, length := (L : Int), rows := rows } alp = some a) :
    build f o { data := some { rows := rows, nchar := L, ntax := rows.length, datatype := dt } } = .ok a := by
  unfold build
  have hrows : ∀ r ∈ rows, r.2 ≠ [] ∧ r.2.length = L := by
    intro r hr
    refine ⟨?_, hlen r hr⟩
    intro e
    have := hlen r hr
    rw [e] at this
    simp at this
    omega
  have hfold := foldlM_addRow f { rows := rows, nchar := L, ntax := rows.length, datatype := dt } L rfl rfl rfl rfl
    rows { ignore := normIgnore o.ignore } hrows (Or.inl ⟨rfl, rfl⟩) (by intro _ _ q hq; cases hq) hd
  have hemp : rows.isEmpty = false := by
    cases rows with
    | nil => exact absurd rfl hne
    | cons _ _ => rfl
  simp only [bind, Except.bind, pure, Except.pure, hemp, Bool.false_eq_true, if_false]
  simp only [bne_self_eq_false, Bool.false_and, Bool.and_false, Bool.false_eq_true, if_false, hfold]
  simp only [hne, if_false, List.nil_append, replaceMatchChars_id rows hdot, ho, BOTH, beq_self_eq_true, if_true,
    halp, hfin]

/-- `parse` on the written file, given what the final alphabet step yields -/
theorem parse_written (f : Facts) (o : POpts) (ho : normAlphabet o.alphabet = 2) (n L : Nat) (hn : n = rows.length)
    (hnmax : n ≤ 9223372036854775807) (hLmax : L ≤ 9223372036854775807) (hL1 : 1 ≤ L)
    (dt : Seq) (hdt : Run dt) (hc : classify dt = ⟨.ident, dt⟩) (hne : rows ≠ [])
    (hok : ∀ r ∈ rows, RowOk f r) (hlen : ∀ r ∈ rows, r.2.length = L)
    (hd : Spec.Fmt.distinct (rows.map (·.1)) = true) (hdot : ∀ r ∈ rows, ∀ c ∈ r.2, c ≠ POINT)
    (alp : Nat) (halp : alphabetFromString dt = alp) (a : Aln)
    (hfin : Bag.finish { ignore := normIgnore o.ignore, length := (L : Int), rows := rows } alp = some a) :
    Nexus.parse f o (fileText n L dt rows) = .ok a := by
  have rN : Run kwNexus := ⟨by decide, by decide⟩
  have cN : classify kwNexus = ⟨.nexus, kwNexus⟩ := by decide
  unfold Nexus.parse parseR fileText
  simp only [sIW_run kwNexus rN NL identChar_NL (by decide), cN, bne_self_eq_false, Bool.false_eq_true, if_false]
  rw [show ∀ (X : Seq), (NL :: X).length + 3 = X.length + 4 from fun X => by simp only [List.length_cons]]
  subst hn
  simp only [topLoop_written f _ rows.length L hnmax hLmax dt hdt hc rows hok hd, bind, Except.bind]
  rw [build_written f o ho L hL1 dt rows hne hlen hd hdot alp halp a hfin]
  rfl

end Gv.Proofs.NexusRT
