import Gv.Proofs.BagRect
/-! Rectangularity (C01), continued: the remaining operations of the history language. -/
namespace Gv.Proofs.BagAbs
open Gv Gv.Model Gv.Proofs.BagInv

/-! ### in-place edits that keep every row's length -/

theorem rect_mapSeqs (f : Seq → Seq) (hf : ∀ s, (f s).length = s.length) {b : Bag} (h : Rect b) : Rect (mapSeqs f b) :=
  h.congr rfl rfl (by simp [mapSeqs, List.map_map, Function.comp_def, hf])

theorem rect_renameWith (f : String → String) {b : Bag} (h : Rect b) : Rect (renameWith f b) :=
  h.congr rfl rfl (by simp [renameWith, List.map_map, Function.comp_def])

theorem rect_appendIdentifier (id : String) (right : Bool) {b : Bag} (h : Rect b) : Rect (appendIdentifier id right b) := by
  unfold appendIdentifier; split
  · exact h
  · exact rect_renameWith _ h

theorem rect_sortRows {b : Bag} (h : Rect b) : Rect (sortRows b) :=
  h.perm rfl rfl (List.mergeSort_perm _ _)

theorem rect_permuteRows (perm : List Nat) {b : Bag} (h : Rect b) (hp : IsPerm perm b.rows.length) : Rect (permuteRows perm b) :=
  h.perm rfl rfl (permute_perm perm b.rows hp)

theorem trimAutoLoop_seqs (l : List Row) (nm : List (String × String)) (cur len : Nat) (acc : List Row) :
    (trimAutoLoop l nm cur len acc).1.map (·.seq) = acc.reverse.map (·.seq) ++ l.map (·.seq) := by
  induction l generalizing nm cur len acc with
  | nil => simp [trimAutoLoop]
  | cons r t ih =>
    simp only [trimAutoLoop]
    split <;> (rw [ih]; simp)

theorem trimNamesLoop_seqs (size : Int) (l : List Row) (nm : List (String × String)) (short : List String) (acc : List Row) :
    (trimNamesLoop size l nm short acc).1.map (·.seq) = acc.reverse.map (·.seq) ++ l.map (·.seq) := by
  induction l generalizing nm short acc with
  | nil => simp [trimNamesLoop]
  | cons r t ih =>
    simp only [trimNamesLoop]
    split
    · rw [ih]; simp
    · split
      · simp
      · rw [ih]; simp

theorem map_len_of_map_seq {l l' : List Row} (h : l'.map (·.seq) = l.map (·.seq)) :
    l'.map (·.seq.length) = l.map (·.seq.length) := by
  have := congrArg (List.map List.length) h
  simpa [List.map_map, Function.comp_def] using this

theorem rect_trimNamesAuto (cur : Nat) {b : Bag} (h : Rect b) : Rect (trimNamesAuto cur b).1 := by
  unfold trimNamesAuto
  simp only []
  have hs := trimAutoLoop_seqs b.rows [] cur (ceilLog10 (b.rows.length + 1)) []
  simp only [List.reverse_nil, List.map_nil, List.nil_append] at hs
  exact h.congr rfl rfl (map_len_of_map_seq hs)

theorem rect_ite {β : Type} {c : Prop} [Decidable c] {x y : Bag × β} (hx : Rect x.1) (hy : Rect y.1) :
    Rect (if c then x else y).1 := by
  split <;> assumption

theorem rect_trimNames (size : Int) {b : Bag} (h : Rect b) : Rect (trimNames size b).1 := by
  unfold trimNames
  simp only []
  apply rect_ite h
  · have hs := trimNamesLoop_seqs size b.rows [] [] []
    simp only [List.reverse_nil, List.map_nil, List.nil_append] at hs
    exact h.congr rfl rfl (map_len_of_map_seq hs)

theorem rect_setSequenceChar (i j : Int) (c : Byte) {b : Bag} (h : Rect b) : Rect (setSequenceChar i j c b).1 := by
  unfold setSequenceChar
  split
  · exact h
  · split
    · exact h
    · split
      · exact h
      · rename_i r hr _
        refine h.congr rfl rfl ?_
        simp only []
        rw [List.map_set]
        simp only [setAt, List.length_set]
        have hlt : i.toNat < (b.rows.map (·.seq.length)).length := by
          have := (List.getElem?_eq_some_iff.mp hr).1; simpa using this
        have hv : (b.rows.map (·.seq.length))[i.toNat] = r.seq.length := by
          have := (List.getElem?_eq_some_iff.mp hr).2; simp [this]
        rw [← hv]
        exact List.set_getElem_self hlt

/-! ### operations that rebuild through `align.AddSequenceChar` -/

theorem rect_removeCharacterSeqs (test : Nat → Nat → Bool) (c : Byte) (ic ig iN : Bool) (b : Bag)
    (r : Bag × Nat) (h : removeCharacterSeqs test c ic ig iN b = some r) : Rect r.1 := by
  unfold removeCharacterSeqs at h
  simp only [] at h
  split at h
  · simp at h
  · simp only [Option.some.injEq] at h
    subst h
    exact rect_addAllIgnore _ (rect_clear b)

theorem isAlign_addAllIgnore (l : List (String × Seq)) (b : Bag) : (addAllIgnore b l).isAlign = b.isAlign := by
  induction l generalizing b with
  | nil => rfl
  | cons p t ih =>
    obtain ⟨n, s⟩ := p
    simp only [addAllIgnore]
    rw [ih]; exact isAlign_addSeqAs _ b n s

theorem rect_clone (b : Bag) : Rect (clone b).1 := by
  unfold clone
  apply rect_addAllStop
  split
  · exact ⟨by simp [newAlign], by simp [newAlign]⟩
  · exact Rect.of_not_align rfl

theorem rect_sample (nb : Int) (perm : List Nat) (b s : Bag) (h : sample nb perm b = some s) : Rect s := by
  unfold sample at h
  split at h
  · simp at h
  · simp only [] at h
    split at h
    · unfold seqBagToAlignment at h
      split at h
      · simp at h
      · rename_i hany
        simp only [Option.some.injEq] at h; subst h
        simp only [List.any_eq_true, not_exists, not_and, bne_iff_ne, ne_eq, Decidable.not_not] at hany
        constructor
        · intro _ r hr; exact hany r hr
        · intro _ he; simp only [] at he ⊢; rw [he]; rfl
    · rename_i ha
      simp only [Option.some.injEq] at h; subst h
      apply Rect.of_not_align
      rw [isAlign_addAllIgnore]; rfl

theorem rect_replaceBag (o n : Seq) {b : Bag} (h : Rect b) (hok : (replaceBag o n b).2 = false) : Rect (replaceBag o n b).1 := by
  by_cases ha : b.isAlign = true
  · unfold replaceBag at hok ⊢
    simp only [ha, Bool.true_and, List.any_eq_false, bne_iff_ne, ne_eq, Decidable.not_not] at hok
    constructor
    · intro _ r hr; exact hok r hr
    · intro _ he
      simp only [mapSeqs, List.map_eq_nil_iff] at he ⊢
      exact h.empty_len ha he
  · exact Rect.of_not_align (by simpa [replaceBag, mapSeqs] using ha)

theorem rect_trimSequences (n : Int) (fs : Bool) {b : Bag} (h : Rect b) (r : Bag × Bool)
    (hr : trimSequences n fs b = some r) : Rect r.1 := by
  unfold trimSequences at hr
  split at hr
  · simp only [Option.some.injEq] at hr; subst hr; exact h
  · split at hr
    · simp only [Option.some.injEq] at hr; subst hr; exact h
    · split at hr
      · simp at hr
      · rename_i h1 h2 h3
        simp only [Option.some.injEq] at hr; subst hr
        by_cases ha : b.isAlign = true
        · simp only [decide_eq_true_eq, Int.not_lt, Int.not_le] at h1 h2
          constructor
          · intro _ r hr
            simp only [mapSeqs, List.mem_map] at hr
            obtain ⟨r0, hr0, rfl⟩ := hr
            have := h.rows_len ha r0 hr0
            simp only []
            split
            · simp only [List.length_drop]; omega
            · simp only [List.length_take]; omega
          · intro _ he
            simp only [mapSeqs, List.map_eq_nil_iff] at he
            have := h.empty_len ha he
            omega
        · exact Rect.of_not_align (by simpa [mapSeqs] using ha)

/-- `Concat` ends with "the length is the first row's; an error if some row differs": whenever it
reports success the result is rectangular, whatever the arguments were -/
theorem rect_concat (other : List (String × Seq)) (clen : Int) (ca : Nat) {b : Bag} (h : Rect b)
    (hok : (concat other clen ca b).2 = false) : Rect (concat other clen ca b).1 := by
  unfold concat at hok ⊢
  split
  · exact h
  · rename_i halpha
    simp only [halpha, if_false] at hok
    simp only [] at hok ⊢
    split
    · rename_i h1; simp [h1] at hok
    · rename_i h1
      simp only [h1] at hok
      split
      · rename_i h2; simp [h2] at hok
      · rename_i h2
        simp only [h2, Bool.false_eq_true, if_false, List.any_eq_false, bne_iff_ne, ne_eq, Decidable.not_not] at hok
        constructor
        · intro _ r hr; exact hok r hr
        · intro _ he; simp only [] at he ⊢; rw [he]

end Gv.Proofs.BagAbs
