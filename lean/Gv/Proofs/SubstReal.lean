import Gv.NumReal
import Gv.Spec.SubstModels
import Gv.Model.Pij
import Gv.Proofs.MatrixExp
import Mathlib.Tactic.Ring
import Mathlib.Tactic.FieldSimp
import Mathlib.Tactic.Linarith
/-!
Glue between the core-only definitions used by the oracle (row-major lists, `sumTo`, the textbook
rate matrix of `Spec.Subst`, the `SetLength` model `Model.Pij`) and Mathlib's `Finset` sums and
`Matrix`, over `ℝ`.
-/
namespace Gv.Proofs.SubstReal
open Gv Gv.Spec.Subst Matrix

/-- a row-major list as an `n × n` real matrix -/
def matOfList (n : ℕ) (l : List ℝ) : Matrix (Fin n) (Fin n) ℝ :=
  Matrix.of fun i j => l.getD (n * i.val + j.val) 0

/-- a list as a vector -/
def vecOfList (n : ℕ) (l : List ℝ) : Fin n → ℝ := fun i => l.getD i.val 0

/-- a function on `ℕ × ℕ` as a matrix -/
def matOfFn (n : ℕ) (f : ℕ → ℕ → ℝ) : Matrix (Fin n) (Fin n) ℝ := Matrix.of fun i j => f i.val j.val

@[simp] theorem matOfList_apply (n : ℕ) (l : List ℝ) (i j : Fin n) :
    matOfList n l i j = l.getD (n * i.val + j.val) 0 := rfl

@[simp] theorem matOfFn_apply (n : ℕ) (f : ℕ → ℕ → ℝ) (i j : Fin n) : matOfFn n f i j = f i.val j.val := rfl

theorem sumTo_succ (n : ℕ) (f : ℕ → ℝ) : sumTo (n + 1) f = sumTo n f + f n := by
  simp [sumTo, List.range_succ, List.foldl_append]

theorem sumTo_eq_sum_range (n : ℕ) (f : ℕ → ℝ) : sumTo n f = ∑ k ∈ Finset.range n, f k := by
  induction n with
  | zero => simp [sumTo]
  | succ n ih => rw [sumTo_succ, ih, Finset.sum_range_succ]

theorem sumTo_eq_sum_fin (n : ℕ) (f : ℕ → ℝ) : sumTo n f = ∑ k : Fin n, f k.val := by
  rw [sumTo_eq_sum_range, Finset.sum_range]

theorem sumTo_four (f : ℕ → ℝ) : sumTo 4 f = f 0 + f 1 + f 2 + f 3 := by
  simp [sumTo_eq_sum_range, Finset.sum_range_succ]

/-- base frequencies (A, C, G, T) as a function of the state index -/
def pi4 (a c g t : ℝ) : ℕ → ℝ := fun k => ([a, c, g, t] : List ℝ).getD k 0

theorem normalise_pi4 (a c g t : ℝ) (h : a + c + g + t = 1) (k : ℕ) :
    normalise 4 (pi4 a c g t) k = pi4 a c g t k := by
  simp [normalise, sumTo_four, pi4, h]

/-! ### the `SetLength` model -/

/-- the un-floored value computed by the `SetLength` model is the matrix product `R·diag(exp(λt))·L` -/
theorem assembled_eq_assembly (n : ℕ) (val : ℕ → ℝ) (left right : ℕ → ℕ → ℝ) (l : ℝ) (i j : Fin n) :
    Model.Pij.assembled n val left right l i.val j.val =
      MatrixExp.assembly (matOfFn n right) (matOfFn n left) (fun k : Fin n => val k.val) l i j := by
  rw [MatrixExp.assembly_apply, Model.Pij.assembled, sumTo_eq_sum_fin]
  simp

theorem dblMin_pos : (0 : ℝ) < Model.Pij.dblMin := by
  simp only [Model.Pij.dblMin, RealLike.real_pow, RealLike.real_one, RealLike.real_ofNat]
  positivity

/-- the stored entry is the assembled value raised to the positivity floor -/
theorem entry_eq_max (n : ℕ) (val : ℕ → ℝ) (left right : ℕ → ℕ → ℝ) (l : ℝ) (i j : ℕ) :
    Model.Pij.entry n val left right l i j =
      max (Model.Pij.assembled n val left right l i j) Model.Pij.dblMin := by
  simp only [Model.Pij.entry, RealLike.real_ltb]
  by_cases h : Model.Pij.assembled n val left right l i j < Model.Pij.dblMin
  · simp [h, max_eq_right h.le]
  · simp [h, max_eq_left (not_lt.mp h)]

/-- for a non-negative assembled value the floor moves the entry by at most `DBL_MIN` -/
theorem entry_floor_error (n : ℕ) (val : ℕ → ℝ) (left right : ℕ → ℕ → ℝ) (l : ℝ) (i j : ℕ)
    (h : 0 ≤ Model.Pij.assembled n val left right l i j) :
    0 ≤ Model.Pij.entry n val left right l i j - Model.Pij.assembled n val left right l i j ∧
    Model.Pij.entry n val left right l i j - Model.Pij.assembled n val left right l i j ≤ Model.Pij.dblMin := by
  rw [entry_eq_max]
  constructor
  · linarith [le_max_left (Model.Pij.assembled n val left right l i j) Model.Pij.dblMin]
  · rcases max_cases (Model.Pij.assembled n val left right l i j) Model.Pij.dblMin with ⟨h1, _⟩ | ⟨h1, _⟩
    · rw [h1]; linarith [dblMin_pos]
    · rw [h1]; linarith

/-! ### the textbook rate matrix of `Spec.Subst`, for any number of states -/

section textbook
variable (n : ℕ) (s : ℕ → ℕ → ℝ) (π : ℕ → ℝ)

theorem rowOut_eq (p : ℕ → ℝ) (i : ℕ) :
    rowOut n s p i = ∑ j : Fin n, if i = j.val then 0 else s i j.val * p j.val := by
  simp only [rowOut, sumTo_eq_sum_fin, RealLike.real_zero]

theorem meanRate_eq (p : ℕ → ℝ) : meanRate n s p = ∑ i : Fin n, p i.val * rowOut n s p i.val := by
  simp only [meanRate, sumTo_eq_sum_fin]

/-- the textbook matrix as a Mathlib matrix -/
noncomputable def specQ : Matrix (Fin n) (Fin n) ℝ := matOfFn n (textbookQ n s π)

theorem specQ_apply (i j : Fin n) :
    specQ n s π i j = (if i = j then -(rowOut n s (normalise n π) i.val)
      else s i.val j.val * normalise n π j.val) / meanRate n s (normalise n π) := by
  simp only [specQ, matOfFn_apply, textbookQ, Fin.val_inj]

/-- rows of the textbook rate matrix sum to zero -/
theorem specQ_rows_sum_zero (i : Fin n) : ∑ j, specQ n s π i j = 0 := by
  simp only [specQ_apply, ← Finset.sum_div]
  have hr := rowOut_eq n s (normalise n π) i.val
  generalize rowOut n s (normalise n π) i.val = r at hr ⊢
  have h : ∀ j : Fin n, (if i = j then -r else s i.val j.val * normalise n π j.val)
      = (if i = j then -r else 0) + (if i.val = j.val then 0 else s i.val j.val * normalise n π j.val) := by
    intro j; by_cases hij : i = j
    · subst hij; simp
    · have : i.val ≠ j.val := fun h => hij (Fin.ext h)
      simp [hij, this]
  rw [Finset.sum_congr rfl fun j _ => h j, Finset.sum_add_distrib, ← hr]
  simp

/-- detailed balance of the textbook rate matrix, for symmetric exchangeabilities -/
theorem specQ_reversible (hs : ∀ i j : Fin n, s i.val j.val = s j.val i.val) (i j : Fin n) :
    normalise n π i.val * specQ n s π i j = normalise n π j.val * specQ n s π j i := by
  by_cases h : i = j
  · subst h; rfl
  · simp only [specQ_apply, h, Ne.symm h, if_false, hs i j]
    ring

/-- one substitution is expected per unit time -/
theorem specQ_mean_rate_one (hmr : meanRate n s (normalise n π) ≠ 0) :
    -∑ i : Fin n, normalise n π i.val * specQ n s π i i = 1 := by
  simp only [specQ_apply, if_true]
  rw [← Finset.sum_neg_distrib]
  have : ∀ i : Fin n, -(normalise n π i.val * (-(rowOut n s (normalise n π) i.val) / meanRate n s (normalise n π)))
      = normalise n π i.val * rowOut n s (normalise n π) i.val / meanRate n s (normalise n π) := by
    intro i; ring
  rw [Finset.sum_congr rfl fun i _ => this i, ← Finset.sum_div, ← meanRate_eq, div_self hmr]

/-- off-diagonal rates are non-negative -/
theorem specQ_offdiag_nonneg (hs : ∀ i j : Fin n, 0 ≤ s i.val j.val) (hπ : ∀ i : Fin n, 0 ≤ normalise n π i.val)
    (hmr : 0 < meanRate n s (normalise n π)) (i j : Fin n) (h : i ≠ j) : 0 ≤ specQ n s π i j := by
  simp only [specQ_apply, h, if_false]
  exact div_nonneg (mul_nonneg (hs i j) (hπ j)) hmr.le

/-- detailed balance with respect to the unnormalised weights as well -/
theorem specQ_reversible' (hs : ∀ i j : Fin n, s i.val j.val = s j.val i.val) (i j : Fin n) :
    π i.val * specQ n s π i j = π j.val * specQ n s π j i := by
  have := specQ_reversible n s π hs i j
  simp only [normalise] at this
  by_cases h0 : sumTo n π = 0
  · by_cases h : i = j
    · subst h; rfl
    · simp only [specQ_apply, h, Ne.symm h, if_false, normalise, h0, div_zero, mul_zero, zero_div]
  · field_simp at this
    linarith [this]

end textbook

/-! ### all laws of `P(t)` for an eigen-system of a reversible rate matrix -/

open MatrixExp NormedSpace in
/-- If `L·R = 1` and `R·diag(d)·L = Q` for a rate matrix `Q` (rows sum to zero, non-negative off-diagonal
rates) that is reversible for positive weights `π`, then the assembled `P(t) = R·diag(exp(d t))·L` is the
matrix exponential `exp(t·Q)`, `P(0) = 1`, `P(s+t) = P(s)·P(t)`, rows sum to one, entries lie in `[0,1]` for
`t ≥ 0`, and detailed balance holds. -/
theorem eigen_assembly_laws {n : ℕ} {Q R L : Matrix (Fin n) (Fin n) ℝ} {d π : Fin n → ℝ}
    (hLR : L * R = 1) (hRDL : R * diagonal d * L = Q)
    (hrow : ∀ i, ∑ j, Q i j = 0) (hoff : ∀ i j, i ≠ j → 0 ≤ Q i j)
    (hπ : ∀ i, 0 < π i) (hrev : ∀ i j, π i * Q i j = π j * Q j i) :
    (∀ t, assembly R L d t = exp (t • Q)) ∧
    assembly R L d 0 = 1 ∧
    (∀ s t, assembly R L d (s + t) = assembly R L d s * assembly R L d t) ∧
    (∀ t i, ∑ j, assembly R L d t i j = 1) ∧
    (∀ t, 0 ≤ t → ∀ i j, 0 ≤ assembly R L d t i j ∧ assembly R L d t i j ≤ 1) ∧
    (∀ t i j, π i * assembly R L d t i j = π j * assembly R L d t j i) := by
  have he := fun t => eigen_assembly_eq_exp hLR hRDL t
  refine ⟨he, ?_, ?_, ?_, ?_, ?_⟩
  · rw [he, exp_zero_smul]
  · intro s t; rw [he, he, he, exp_semigroup]
  · intro t i; rw [he]; exact exp_rows_sum_one hrow t i
  · intro t ht i j; rw [he]; exact ⟨exp_nonneg hoff ht i j, exp_le_one hoff hrow ht i j⟩
  · intro t i j; rw [he]; exact exp_detailed_balance hπ hrev t i j

end Gv.Proofs.SubstReal
