import Gv.Proofs.PhaseAlignNT
/-!
Helper development for C16: `alignAgainstRefsNT` (`Gv.Model.PhaseAlign.phaseNT`) with SEVERAL references and a
verbatim occurrence on EITHER strand (`phaseNT_verbatim_multi`), generalising
`Gv.Proofs.PhaseAlignNT.phaseNT_verbatim` (one reference, forward strand).

* `pairs c orfs`: the (reference, strand flag) pairs in the order `ntSelect` tries them; `ntSelect_eq_fold`: the
  two nested loops are one fold of `ntStep` over that list;
* `alignATG_row2_has_residue`: the aligned row of the sequence that the `ALIGN_ALGO_ATG` aligner returns holds
  a residue of the sequence (so, for a sequence without gap character, the phaser's `for Seq2Ali()[i] == '-'`
  loop stops inside the slice);
* the three kinds of step: before the verbatim pair the running best stays strictly below the verbatim
  reference's self-score (`ntStep_before`), at the verbatim pair it becomes the occurrence (`ntStep_at`),
  afterwards it cannot be replaced (`ntStep_after`: a replacement needs a strictly greater score).
-/
namespace Gv.Proofs.PhaseAlignMulti
open Gv Gv.Model Gv.Model.SW Gv.Model.Phase Gv.Model.PhaseAlign Gv.Spec.SW Gv.Proofs.SWFill Gv.Proofs.SWTrace
  Gv.Proofs.PhaseAlignSpec Gv.Proofs.PhaseAlignCell Gv.Proofs.PhaseAlign Gv.Proofs.PhaseAlignNT Gv.Props.C09

/-- the strand `ntStep` aligns against: the sequence, or its reverse-complemented copy -/
def strand (seq : Seq) (v : Bool) : Seq := if v then revcompIgnoringError seq else seq

/-- the (reference, strand flag) pairs in the order `alignAgainstRefsNT` tries them: for every reference the
forward strand, then (with `reverse`) the reverse-complemented copy -/
def pairs (c : NTCfg) (orfs : List Seq) : List (Seq × Bool) :=
  orfs.flatMap fun r => if c.reverse then [(r, false), (r, true)] else [(r, false)]

/-- `ntSelect` as one loop over `pairs` -/
def ntFold (c : NTCfg) (seq : Seq) : List (Seq × Bool) → NTBest → NTStep
  | [], b => NTStep.go b
  | x :: rest, b =>
    match ntStep c seq x.1 b x.2 with
    | .go b' => ntFold c seq rest b'
    | .err => NTStep.err
    | .panic => NTStep.panic

theorem ntSelect_eq_fold (c : NTCfg) (seq : Seq) :
    ∀ (orfs : List Seq) (b : NTBest), ntSelect c seq orfs b = ntFold c seq (pairs c orfs) b := by
  intro orfs
  induction orfs with
  | nil => intro b; rfl
  | cons r rest ih =>
    intro b
    have hp : pairs c (r :: rest) =
        (if c.reverse then [(r, false), (r, true)] else [(r, false)]) ++ pairs c rest := by
      simp [pairs, List.flatMap_cons]
    rw [hp]
    simp only [ntSelect]
    cases hr : c.reverse with
    | false =>
      simp only [Bool.false_eq_true, if_false, List.cons_append, List.nil_append, ntFold]
      cases ntStep c seq r b false with
      | go b1 => exact ih b1
      | err => rfl
      | panic => rfl
    | true =>
      simp only [if_true, List.cons_append, List.nil_append, ntFold]
      cases ntStep c seq r b false with
      | go b1 =>
        simp only []
        cases ntStep c seq r b1 true with
        | go b2 => exact ih b2
        | err => rfl
        | panic => rfl
      | err => rfl
      | panic => rfl

/-! ### the aligned row of the sequence is never made of gap columns only -/

/-- the row of the second sequence built so far holds a residue other than the gap character -/
def Has (st : BT) : Prop := ∃ x ∈ st.r2, x ≠ GAP

theorem pushUp_has (s1 : Seq) : ∀ (k i : Nat) (st : BT), Has st → Has (BT.pushUp s1 k i st) := by
  intro k
  induction k with
  | zero => intro i st h; exact h
  | succ k ih =>
    intro i st h
    obtain ⟨x, hx, hn⟩ := h
    simp only [BT.pushUp]
    exact ih _ _ ⟨x, List.mem_cons_of_mem _ hx, hn⟩

theorem pushLeft_has (s2 : Seq) : ∀ (k j : Nat) (st : BT), Has st → Has (BT.pushLeft s2 k j st) := by
  intro k
  induction k with
  | zero => intro j st h; exact h
  | succ k ih =>
    intro j st h
    obtain ⟨x, hx, hn⟩ := h
    simp only [BT.pushLeft]
    exact ih _ _ ⟨x, List.mem_cons_of_mem _ hx, hn⟩

theorem pushLeft_pos (s2 : Seq) (k j : Nat) (st : BT) (hk : 1 ≤ k) (hj : s2.getD j 0 ≠ GAP) :
    Has (BT.pushLeft s2 k j st) := by
  cases k with
  | zero => omega
  | succ k =>
    simp only [BT.pushLeft]
    exact pushLeft_has s2 _ _ _ ⟨_, List.mem_cons_self, hj⟩

theorem getD_ne_gap (s : Seq) (hg : GAP ∉ s) (j : Nat) : s.getD j 0 ≠ GAP := by
  rw [List.getD_eq_getElem?_getD]
  cases h : s[j]? with
  | none => simp only [Option.getD_none]; decide
  | some x =>
    simp only [Option.getD_some]
    intro e
    exact hg (e ▸ List.mem_of_getElem? h)

/-- when the un-stopped trace-back returns, the row of the second sequence holds one of its residues: the
walk leaves the matrix through row `0` or column `0`, and an `UP` in row `0` is a panic -/
theorem btLoopATG_has (gopen gext : Int) (m : Nat → Nat → Int) (tr : Nat → Nat → Dir) (s1 s2 : Seq)
    (hs2 : ∀ j, s2.getD j 0 ≠ GAP) :
    ∀ (f pi pj : Nat) (st : BT), pi + pj ≤ f → (Has st ∨ (1 ≤ pi ∧ 1 ≤ pj)) →
      ∀ out, btLoopATG gopen gext m tr s1 s2 f pi pj st = some out → Has out.2.2 := by
  intro f
  induction f with
  | zero =>
    intro pi pj st hf hinv out ho
    simp only [btLoopATG, Option.some.injEq] at ho
    subst ho
    rcases hinv with h | h
    · exact h
    · omega
  | succ f ih =>
    intro pi pj st hf hinv out ho
    simp only [btLoopATG] at ho
    split at ho
    · rename_i hz
      simp only [Option.some.injEq] at ho
      subst ho
      rcases hinv with h | h
      · exact h
      · omega
    · rename_i hz
      cases htr : tr (pi - 1) (pj - 1) with
      | diag =>
        simp only [btStep, htr] at ho
        refine ih _ _ _ (by omega) (Or.inl ?_) out ho
        exact ⟨_, List.mem_cons_self, hs2 _⟩
      | up =>
        simp only [btStep, htr] at ho
        by_cases h0 : pi - 1 = 0
        · simp [h0] at ho
        · simp only [h0, if_false] at ho
          have hb := gapLen_bounds (fun r => m r (pj - 1)) (m (pi - 1) (pj - 1)) gopen gext (pi - 1) (pi - 1) 1
            (Nat.le_refl _) (by omega) (by omega)
          refine ih _ _ _ (by omega) ?_ out ho
          rcases hinv with h | h
          · exact Or.inl (pushUp_has s1 _ _ _ h)
          · exact Or.inr ⟨by omega, by omega⟩
      | left =>
        simp only [btStep, htr] at ho
        by_cases h0 : pj - 1 = 0
        · simp [h0] at ho
        · simp only [h0, if_false] at ho
          have hb := gapLen_bounds (fun c => m (pi - 1) c) (m (pi - 1) (pj - 1)) gopen gext (pj - 1) (pj - 1) 1
            (Nat.le_refl _) (by omega) (by omega)
          refine ih _ _ _ (by omega) (Or.inl ?_) out ho
          exact pushLeft_pos s2 _ _ _ hb.1 (hs2 _)

/-- **the aligned row of the sequence returned by `ALIGN_ALGO_ATG` is not made of gap characters only** when the
sequence holds no gap character -/
theorem alignATG_row2_has_residue (a : Aligner) (fixed : Bool) (s1 s2 : Seq) (hg : GAP ∉ s2) (r : AtgResult)
    (h : alignATG a fixed s1 s2 = AtgOutcome.ok r) : r.row2.all (· == GAP) = false := by
  simp only [alignATG] at h
  split at h
  · cases h
  · split at h
    · split at h
      · cases h
      · split at h
        · cases h
        · rename_i pi pj st hl
          have hs2 : ∀ j, s2.reverse.getD j 0 ≠ GAP :=
            getD_ne_gap _ (fun hm => hg (List.mem_reverse.mp hm))
          have := btLoopATG_has _ _ _ _ _ _ hs2 _ _ _ _ (by omega) (Or.inr ⟨by omega, by omega⟩) _ hl
          obtain ⟨x, hx, hn⟩ := this
          simp only [AtgOutcome.ok.injEq] at h
          subst h
          simp only []
          rw [Bool.eq_false_iff]
          intro hall
          rw [List.all_eq_true] at hall
          have := hall x (List.mem_reverse.mpr hx)
          simp only [beq_iff_eq] at this
          exact hn this
    · cases h

/-! ### a reference that occurs nowhere scores strictly below its self-score -/

/-- what the score of a returned alignment is: the first strictly greatest positive value of the last row -/
theorem alignATG_ok_score (a : Aligner) (fixed : Bool) (s1 s2 : Seq) (res : AtgResult)
    (h : alignATG a fixed s1 s2 = AtgOutcome.ok res) :
    ∃ i1 i2, seqToIndices a s1.reverse = some i1 ∧ seqToIndices a s2.reverse = some i2 ∧ s1 ≠ [] ∧ s2 ≠ [] ∧
      res.score = (lastRowBest (fill a fixed (s1.reverse.zip i1) (s2.reverse.zip i2)).m
        (s1.reverse.length - 1) s2.reverse.length).score := by
  simp only [alignATG] at h
  split at h
  · cases h
  · split at h
    · rename_i i1 i2 hi1 hi2
      split at h
      · cases h
      · rename_i hemp
        split at h
        · cases h
        · simp only [AtgOutcome.ok.injEq] at h
          subst h
          simp only [Bool.or_eq_true, List.isEmpty_iff, not_or] at hemp
          exact ⟨i1, i2, hi1, hi2, hemp.1, hemp.2, rfl⟩
    · cases h

/-- under a dominant scheme, **an alignment against a sequence that does not contain the reference verbatim scores
strictly less than the reference's self-score** -/
theorem alignATG_score_lt (a : Aligner) (orf tmp : Seq)
    (hgap : a.gapopen ≤ a.gapextend ∧ a.gapextend < 0) (hne : orf ≠ [])
    (hdom : Dom (schemeOf a) orf tmp) (hno : ∀ q, ¬ orf <+: tmp.drop q) (res : AtgResult)
    (h : alignATG a true orf tmp = AtgOutcome.ok res) : res.score < W (schemeOf a) orf := by
  have hm : 0 < orf.length := List.length_pos_iff.mpr hne
  obtain ⟨i1, i2, hi1, hi2, _, hte, hsc⟩ := alignATG_ok_score a true orf tmp res h
  have hn : 0 < tmp.length := List.length_pos_iff.mpr hte
  have hl1 : i1.length = orf.length := by rw [mapM_length _ _ _ hi1]; simp
  have hl2 : i2.length = tmp.length := by rw [mapM_length _ _ _ hi2]; simp
  generalize hx1 : orf.reverse.zip i1 = x1 at hsc
  generalize hx2 : tmp.reverse.zip i2 = x2 at hsc
  have hm1 : x1.map (·.1) = orf.reverse := by rw [← hx1]; exact List.map_fst_zip (by simp; omega)
  have hm2 : x2.map (·.1) = tmp.reverse := by rw [← hx2]; exact List.map_fst_zip (by simp; omega)
  have hx1l : x1.length = orf.length := by rw [← hx1]; simp [List.length_zip]; omega
  have hx2l : x2.length = tmp.length := by rw [← hx2]; simp [List.length_zip]; omega
  have hsub : ∀ c1 ∈ x1, ∀ c2 ∈ x2, matchScore a c1 c2 = (schemeOf a).sub c1.1 c2.1 := by
    rw [← hx1, ← hx2]; exact hsub_of_indices a _ _ i1 i2 hi1 hi2
  have hrow : ∀ j, j < tmp.length → (fill a true x1 x2).m (orf.length - 1) j ≤ W (schemeOf a) orf - 1 := by
    intro j hj
    rw [fill_m, if_pos ⟨by omega, by omega⟩]
    have hq1 : (Q x1 (orf.length - 1)).map (·.1) = orf := by
      rw [Q_map, hm1, Q_reverse _ _ (by omega)]
      have : orf.length - 1 - (orf.length - 1) = 0 := by omega
      rw [this, List.drop_zero]
    have hq2 : (Q x2 j).map (·.1) = tmp.drop (tmp.length - 1 - j) := by
      rw [Q_map, hm2, Q_reverse _ _ hj]
    have hd' : Dom (schemeOf a) ((Q x1 (orf.length - 1)).map (·.1)) ((Q x2 j).map (·.1)) := by
      rw [hq1, hq2]; exact hdom.mono (fun _ h => h) (fun _ h => List.mem_of_mem_drop h)
    have h1 := cell_val_le (schemeOf a) hgap.1 hgap.2 a rfl rfl (Q x1 (orf.length - 1)) (Q x2 j)
      (fun c1 h1 c2 h2 => hsub c1 (Q_subset h1) c2 (Q_subset h2)) hd'
    have h2 := cell_val_eq_iff (schemeOf a) hgap.1 hgap.2 a rfl rfl (Q x1 (orf.length - 1)) (Q x2 j)
      (fun c1 h1 c2 h2 => hsub c1 (Q_subset h1) c2 (Q_subset h2)) hd'
    rw [hq1] at h1 h2
    rw [hq2] at h2
    have hneq : (cellR a (Q x1 (orf.length - 1)) (Q x2 j)).val ≠ W (schemeOf a) orf :=
      fun e => hno _ (h2.mp e)
    omega
  have hW : 0 < W (schemeOf a) orf := W_pos _ orf hne (fun x hx => (hdom x hx).1)
  obtain ⟨b1, _, _⟩ := lastRowBest_le (fill a true x1 x2).m (orf.reverse.length - 1) tmp.reverse.length
    (W (schemeOf a) orf - 1) (by omega) (by simpa using hrow)
  rw [hsc]
  omega

/-! ### one step of the selection loop -/

theorem ntStep_unfold (c : NTCfg) (seq r : Seq) (b : NTBest) (v : Bool) :
    ntStep c seq r b v =
      match alignATG (c.aligner r (strand seq v)) c.fixed r (strand seq v) with
      | .err => NTStep.err
      | .panic => NTStep.panic
      | .ok res =>
        if res.score > b.score then
          if res.row2.all (· == GAP) then NTStep.panic
          else NTStep.go ⟨res.score, some ⟨v, (res.row2.takeWhile (· == GAP)).length, res.start2.toNat, res.end2.toNat⟩⟩
        else NTStep.go b := rfl

/-- under `Dom` every score the (repaired) aligner returns for the pair is at most the reference's self-score;
an empty reference is an alignment error -/
theorem alignATG_bound (c : NTCfg) (seq r : Seq) (v : Bool)
    (hgap : c.gapopen ≤ c.gapextend ∧ c.gapextend < 0)
    (hdom : Dom (schemeOf (c.aligner r (strand seq v))) r (strand seq v)) :
    alignATG (c.aligner r (strand seq v)) true r (strand seq v) = AtgOutcome.err ∨
    ∃ res, alignATG (c.aligner r (strand seq v)) true r (strand seq v) = AtgOutcome.ok res ∧
      res.score ≤ W (schemeOf (c.aligner r (strand seq v))) r := by
  by_cases hne : r = []
  · left; subst hne; simp [alignATG]
  · obtain ⟨g1, g2⟩ := aligner_gaps c r (strand seq v)
    exact alignATG_score_le _ r _ (by rw [g1, g2]; exact hgap) hne hdom

/-- what is asked of a pair tried BEFORE the verbatim one, whose reference has self-score `T`: its strand
holds no gap character, the scheme is dominant, and either its reference's self-score is smaller, or it is not
greater and its reference occurs nowhere on its strand -/
def Earlier (c : NTCfg) (seq : Seq) (T : Int) (x : Seq × Bool) : Prop :=
  Dom (schemeOf (c.aligner x.1 (strand seq x.2))) x.1 (strand seq x.2) ∧ GAP ∉ strand seq x.2 ∧
  (W (schemeOf (c.aligner x.1 (strand seq x.2))) x.1 < T ∨
    (W (schemeOf (c.aligner x.1 (strand seq x.2))) x.1 ≤ T ∧ ∀ q, ¬ x.1 <+: (strand seq x.2).drop q))

/-- what is asked of a pair tried AFTER it -/
def Later (c : NTCfg) (seq : Seq) (T : Int) (x : Seq × Bool) : Prop :=
  Dom (schemeOf (c.aligner x.1 (strand seq x.2))) x.1 (strand seq x.2) ∧
  W (schemeOf (c.aligner x.1 (strand seq x.2))) x.1 ≤ T

/-- the score of an `Earlier` pair is strictly below `T` -/
theorem alignATG_earlier (c : NTCfg) (seq : Seq) (T : Int) (x : Seq × Bool)
    (hgap : c.gapopen ≤ c.gapextend ∧ c.gapextend < 0) (hx : Earlier c seq T x) :
    alignATG (c.aligner x.1 (strand seq x.2)) true x.1 (strand seq x.2) = AtgOutcome.err ∨
    ∃ res, alignATG (c.aligner x.1 (strand seq x.2)) true x.1 (strand seq x.2) = AtgOutcome.ok res ∧
      res.score < T := by
  obtain ⟨hdom, _, hw⟩ := hx
  rcases alignATG_bound c seq x.1 x.2 hgap hdom with h | ⟨res, h, hs⟩
  · exact Or.inl h
  · refine Or.inr ⟨res, h, ?_⟩
    rcases hw with hw | ⟨hw, hno⟩
    · omega
    · by_cases hne : x.1 = []
      · rw [hne] at h; simp [alignATG] at h
      · obtain ⟨g1, g2⟩ := aligner_gaps c x.1 (strand seq x.2)
        have := alignATG_score_lt _ x.1 _ (by rw [g1, g2]; exact hgap) hne hdom hno res h
        omega

/-- a pair tried BEFORE the verbatim one: the running best stays strictly below the bound `T` -/
theorem ntStep_before (c : NTCfg) (seq : Seq) (x : Seq × Bool) (b : NTBest) (T : Int) (hfix : c.fixed = true)
    (hgap : c.gapopen ≤ c.gapextend ∧ c.gapextend < 0) (hx : Earlier c seq T x) (hb : b.score < T) :
    ntStep c seq x.1 b x.2 = NTStep.err ∨ ∃ b', ntStep c seq x.1 b x.2 = NTStep.go b' ∧ b'.score < T := by
  rw [ntStep_unfold, hfix]
  rcases alignATG_earlier c seq T x hgap hx with h | ⟨res, h, hs⟩
  · left; rw [h]
  · right
    rw [h]
    simp only []
    by_cases hgt : res.score > b.score
    · rw [if_pos hgt, alignATG_row2_has_residue _ _ _ _ hx.2.1 res h]
      simp only [Bool.false_eq_true, if_false]
      exact ⟨_, rfl, hs⟩
    · rw [if_neg hgt]
      exact ⟨b, rfl, hb⟩

/-- a pair tried AFTER the verbatim one: its score is not strictly greater, the running best is kept -/
theorem ntStep_after (c : NTCfg) (seq r : Seq) (v : Bool) (b : NTBest) (hfix : c.fixed = true)
    (hgap : c.gapopen ≤ c.gapextend ∧ c.gapextend < 0)
    (hdom : Dom (schemeOf (c.aligner r (strand seq v))) r (strand seq v))
    (hW : W (schemeOf (c.aligner r (strand seq v))) r ≤ b.score) :
    ntStep c seq r b v = NTStep.err ∨ ntStep c seq r b v = NTStep.go b := by
  rw [ntStep_unfold, hfix]
  rcases alignATG_bound c seq r v hgap hdom with h | ⟨res, h, hs⟩
  · left; rw [h]
  · right
    rw [h]
    simp only []
    rw [if_neg (by omega)]

/-- the verbatim pair: whatever running best lies strictly below the reference's self-score is replaced by
the occurrence -/
theorem ntStep_at (c : NTCfg) (seq r pre post : Seq) (v : Bool) (b : NTBest) (hfix : c.fixed = true)
    (hgap : c.gapopen ≤ c.gapextend ∧ c.gapextend < 0) (hne : r ≠ []) (hng : GAP ∉ r)
    (ht : strand seq v = pre ++ r ++ post)
    (hdom : Dom (schemeOf (c.aligner r (strand seq v))) r (strand seq v))
    (honce : ∀ q, r <+: (strand seq v).drop q → q = pre.length)
    (hb : b.score < W (schemeOf (c.aligner r (strand seq v))) r) :
    ntStep c seq r b v = NTStep.err ∨
    ntStep c seq r b v = NTStep.go
      ⟨W (schemeOf (c.aligner r (strand seq v))) r, some ⟨v, 0, pre.length, pre.length + r.length - 1⟩⟩ := by
  rw [ntStep_unfold, hfix]
  obtain ⟨g1, g2⟩ := aligner_gaps c r (strand seq v)
  rw [ht] at hdom honce g1 g2 hb ⊢
  have hA := alignATG_verbatim (c.aligner r (pre ++ r ++ post)) r pre post (by rw [g1, g2]; exact hgap)
    hne hdom honce
  have hall : r.all (· == GAP) = false := by
    cases r with
    | nil => exact absurd rfl hne
    | cons x t =>
      have : x ≠ GAP := fun e => hng (e ▸ List.mem_cons_self)
      simp [this]
  have htw : (r.takeWhile (· == GAP)).length = 0 := by
    cases r with
    | nil => rfl
    | cons x t =>
      have : x ≠ GAP := fun e => hng (e ▸ List.mem_cons_self)
      have hx : (x == GAP) = false := by simp [this]
      simp [List.takeWhile, hx]
  have e1 : ((pre.length : Int)).toNat = pre.length := by omega
  have e2 : ((pre.length : Int) + r.length - 1).toNat = pre.length + r.length - 1 := by omega
  rcases hA with hA | hA
  · left; rw [hA]
  · right
    rw [hA]
    simp only []
    rw [if_pos (by show W _ r > b.score; omega), hall]
    simp only [Bool.false_eq_true, if_false, htw, e1, e2]

/-! ### the loop -/

/-- the pairs before the verbatim one -/
theorem ntFold_before (c : NTCfg) (seq : Seq) (T : Int) (hfix : c.fixed = true)
    (hgap : c.gapopen ≤ c.gapextend ∧ c.gapextend < 0) (rest : List (Seq × Bool)) :
    ∀ (bef : List (Seq × Bool)) (b : NTBest), b.score < T → (∀ x ∈ bef, Earlier c seq T x) →
      ntFold c seq (bef ++ rest) b = NTStep.err ∨
      ∃ b', b'.score < T ∧ ntFold c seq (bef ++ rest) b = ntFold c seq rest b' := by
  intro bef
  induction bef with
  | nil => intro b hb _; exact Or.inr ⟨b, hb, rfl⟩
  | cons x bef ih =>
    intro b hb hall
    simp only [List.cons_append, ntFold]
    rcases ntStep_before c seq x b T hfix hgap (hall x List.mem_cons_self) hb with h | ⟨b', h, hb'⟩
    · left; rw [h]
    · rw [h]
      exact ih b' hb' (fun y hy => hall y (List.mem_cons_of_mem _ hy))

/-- the pairs after the verbatim one -/
theorem ntFold_after (c : NTCfg) (seq : Seq) (hfix : c.fixed = true)
    (hgap : c.gapopen ≤ c.gapextend ∧ c.gapextend < 0) (b : NTBest) :
    ∀ (aft : List (Seq × Bool)), (∀ x ∈ aft, Later c seq b.score x) →
      ntFold c seq aft b = NTStep.err ∨ ntFold c seq aft b = NTStep.go b := by
  intro aft
  induction aft with
  | nil => intro _; exact Or.inr rfl
  | cons x aft ih =>
    intro hall
    obtain ⟨hd, hw⟩ := hall x List.mem_cons_self
    simp only [ntFold]
    rcases ntStep_after c seq x.1 x.2 b hfix hgap hd hw with h | h
    · left; rw [h]
    · rw [h]
      exact ih (fun y hy => hall y (List.mem_cons_of_mem _ hy))

/-- the whole selection: the verbatim pair `(r, v)` between `bef` and `aft` -/
theorem ntFold_verbatim (c : NTCfg) (seq r pre post : Seq) (v : Bool) (bef aft : List (Seq × Bool))
    (hfix : c.fixed = true) (hgap : c.gapopen ≤ c.gapextend ∧ c.gapextend < 0) (hne : r ≠ []) (hng : GAP ∉ r)
    (ht : strand seq v = pre ++ r ++ post)
    (hdom : Dom (schemeOf (c.aligner r (strand seq v))) r (strand seq v))
    (honce : ∀ q, r <+: (strand seq v).drop q → q = pre.length)
    (hbef : ∀ x ∈ bef, Earlier c seq (W (schemeOf (c.aligner r (strand seq v))) r) x)
    (haft : ∀ x ∈ aft, Later c seq (W (schemeOf (c.aligner r (strand seq v))) r) x) :
    ntFold c seq (bef ++ (r, v) :: aft) {} = NTStep.err ∨
    ntFold c seq (bef ++ (r, v) :: aft) {} = NTStep.go
      ⟨W (schemeOf (c.aligner r (strand seq v))) r, some ⟨v, 0, pre.length, pre.length + r.length - 1⟩⟩ := by
  have hW : 0 < W (schemeOf (c.aligner r (strand seq v))) r :=
    W_pos _ r hne (fun x hx => (hdom x hx).1)
  rcases ntFold_before c seq _ hfix hgap ((r, v) :: aft) bef {} hW hbef with h | ⟨b', hb', h⟩
  · left; exact h
  · rw [h]
    simp only [ntFold]
    rcases ntStep_at c seq r pre post v b' hfix hgap hne hng ht hdom honce hb' with h1 | h1
    · left; rw [h1]
    · rw [h1]
      exact ntFold_after c seq hfix hgap _ aft haft

/-! ### what the selected hit is turned into -/

theorem finish_hit (c : NTCfg) (code : List (List Byte × Byte)) (seq r pre post : Seq) (v : Bool) (hne : r ≠ [])
    (ht : strand seq v = pre ++ r ++ post) :
    ∃ p, (let h : Hit := ⟨v, 0, pre.length, pre.length + r.length - 1⟩
          let tmp := strandOf seq h
          let bestend := if c.cutend then h.seqend + 1 else tmp.length
          if h.seqstart > bestend then NTOut.panic
          else NTOut.ok (assembleNT code tmp h c.cutend) h)
        = NTOut.ok p ⟨v, 0, pre.length, pre.length + r.length - 1⟩ ∧
      p.position = pre.length ∧ p.nt = (if c.cutend then r else r ++ post) ∧ p.codon = p.nt := by
  have hs : strandOf seq ⟨v, 0, pre.length, pre.length + r.length - 1⟩ = pre ++ r ++ post := by
    rw [← ht]; rfl
  obtain ⟨s1, s2⟩ := slice_occurrence pre r post hne
  have hlen : (pre ++ r ++ post).length = pre.length + r.length + post.length := by simp; omega
  simp only [hs]
  cases hc : c.cutend with
  | true =>
    simp only [if_true]
    rw [if_neg (by omega)]
    refine ⟨_, rfl, rfl, ?_, ?_⟩
    · simp only [assembleNT, if_true, s1]
    · simp only [assembleNT, if_true, Nat.zero_mod, Nat.sub_zero, Nat.mod_self, Nat.add_zero]
  | false =>
    simp only [Bool.false_eq_true, if_false]
    rw [if_neg (by rw [hlen]; omega)]
    refine ⟨_, rfl, rfl, ?_, ?_⟩
    · simp only [assembleNT, Bool.false_eq_true, if_false, s2]
    · simp only [assembleNT, Bool.false_eq_true, if_false, Nat.zero_mod, Nat.sub_zero, Nat.mod_self, Nat.add_zero]

/-! ### list bookkeeping: from an index to a decomposition -/

theorem split_at_index {α : Type} : ∀ (l : List α) (k : Nat) (x : α), l[k]? = some x →
    ∃ bef aft, l = bef ++ x :: aft ∧
      (∀ y ∈ bef, ∃ j, j < k ∧ l[j]? = some y) ∧ (∀ y ∈ aft, ∃ j, k < j ∧ l[j]? = some y) := by
  intro l
  induction l with
  | nil => intro k x h; simp at h
  | cons a t ih =>
    intro k x h
    cases k with
    | zero =>
      simp only [List.getElem?_cons_zero, Option.some.injEq] at h
      subst h
      refine ⟨[], t, rfl, fun y hy => (by cases hy), fun y hy => ?_⟩
      obtain ⟨j, hj⟩ := List.getElem?_of_mem hy
      exact ⟨j + 1, by omega, by simpa using hj⟩
    | succ k =>
      simp only [List.getElem?_cons_succ] at h
      obtain ⟨bef, aft, e, h1, h2⟩ := ih k x h
      refine ⟨a :: bef, aft, by rw [e]; rfl, fun y hy => ?_, fun y hy => ?_⟩
      · simp only [List.mem_cons] at hy
        rcases hy with rfl | hy
        · exact ⟨0, by omega, rfl⟩
        · obtain ⟨j, hj, hj'⟩ := h1 y hy
          exact ⟨j + 1, by omega, by simpa using hj'⟩
      · obtain ⟨j, hj, hj'⟩ := h2 y hy
        exact ⟨j + 1, by omega, by simpa using hj'⟩

/-- **`alignAgainstRefsNT` with several references and a verbatim occurrence on either strand.**
`pairs c orfs` lists the (reference, strand flag) pairs in the order they are tried.  The pair at index `k`,
`(r, v)`, satisfies the single-reference premise on its own strand `strand seq v` (`r` non-empty, without gap
character, `Dom`, `r` occurs at offset `p` and nowhere else); every other pair `(r', v')` at index `j` is
dominant on its strand; when `k < j` its self-score `W` is not greater; when `j < k` its self-score is strictly
smaller, or it is not greater and `r'` occurs nowhere on its strand (this covers the same reference tried on the
other strand first), and its strand holds no gap character (otherwise the phaser's `for Seq2Ali()[i] == '-'`
loop can run off an aligned row made of `-` residues: a panic).  Then, unless an alignment error is reported, the result
is the occurrence: position `p`, trimmed nucleotides `drop p` of that strand (`r` with cut-end), frame 0, hit on
the strand `v`. -/
theorem phaseNT_verbatim_multi (c : NTCfg) (code : List (List Byte × Byte)) (orfs : List Seq) (seq : Seq)
    (k : Nat) (r : Seq) (v : Bool) (p : Nat)
    (hfix : c.fixed = true) (hgap : c.gapopen ≤ c.gapextend ∧ c.gapextend < 0)
    (hk : (pairs c orfs)[k]? = some (r, v))
    (hne : r ≠ []) (hng : GAP ∉ r)
    (hdom : Dom (schemeOf (c.aligner r (strand seq v))) r (strand seq v))
    (hocc : r <+: (strand seq v).drop p)
    (honce : ∀ q, r <+: (strand seq v).drop q → q = p)
    (hothers : ∀ j r' v', (pairs c orfs)[j]? = some (r', v') → j ≠ k →
      Dom (schemeOf (c.aligner r' (strand seq v'))) r' (strand seq v') ∧
      (j < k → GAP ∉ strand seq v' ∧
        (W (schemeOf (c.aligner r' (strand seq v'))) r' < W (schemeOf (c.aligner r (strand seq v))) r ∨
          (W (schemeOf (c.aligner r' (strand seq v'))) r' ≤ W (schemeOf (c.aligner r (strand seq v))) r ∧
            ∀ q, ¬ r' <+: (strand seq v').drop q))) ∧
      (k < j → W (schemeOf (c.aligner r' (strand seq v'))) r' ≤ W (schemeOf (c.aligner r (strand seq v))) r)) :
    phaseNT c code orfs seq = NTOut.err ∨
    ∃ ph, phaseNT c code orfs seq = NTOut.ok ph ⟨v, 0, p, p + r.length - 1⟩ ∧
      ph.position = p ∧ ph.nt = (if c.cutend then r else (strand seq v).drop p) ∧ ph.codon = ph.nt := by
  -- the occurrence as a decomposition of the strand
  obtain ⟨post, hpost⟩ := hocc
  have hm : 0 < r.length := List.length_pos_iff.mpr hne
  have hpl : p + r.length ≤ (strand seq v).length := by
    have := congrArg List.length hpost
    simp only [List.length_append, List.length_drop] at this
    omega
  have ht : strand seq v = (strand seq v).take p ++ r ++ post := by
    rw [List.append_assoc, hpost, List.take_append_drop]
  have hprelen : ((strand seq v).take p).length = p := by
    rw [List.length_take]; omega
  -- the list of pairs around index `k`
  obtain ⟨bef, aft, hsplit, hb, ha⟩ := split_at_index _ _ _ hk
  have hbef : ∀ x ∈ bef, Earlier c seq (W (schemeOf (c.aligner r (strand seq v))) r) x := by
    intro x hx
    obtain ⟨j, hj, hj'⟩ := hb x hx
    obtain ⟨h1, h2, _⟩ := hothers j x.1 x.2 hj' (by omega)
    exact ⟨h1, (h2 hj).1, (h2 hj).2⟩
  have haft : ∀ x ∈ aft, Later c seq (W (schemeOf (c.aligner r (strand seq v))) r) x := by
    intro x hx
    obtain ⟨j, hj, hj'⟩ := ha x hx
    obtain ⟨h1, _, h3⟩ := hothers j x.1 x.2 hj' (by omega)
    exact ⟨h1, h3 hj⟩
  have hsel := ntFold_verbatim c seq r ((strand seq v).take p) post v bef aft hfix hgap hne hng ht hdom
    (by rw [hprelen]; exact honce) hbef haft
  rw [hprelen, ← hsplit, ← ntSelect_eq_fold] at hsel
  simp only [phaseNT]
  rcases hsel with h | h
  · left; rw [h]
  · right
    rw [h]
    obtain ⟨ph, e, h1, h2, h3⟩ := finish_hit c code seq r ((strand seq v).take p) post v hne ht
    rw [hprelen] at e h1
    refine ⟨ph, e, h1, ?_, h3⟩
    rw [h2, ← hpost]

end Gv.Proofs.PhaseAlignMulti
