import Gv.Proofs.BagRect2
/-! Rectangularity (C01), continued: `Translate`. -/
namespace Gv.Proofs.BagAbs
open Gv Gv.Model Gv.Proofs.BagInv

theorem ite_fst {P : Bag → Prop} {β : Type} {c : Prop} [Decidable c] {x y : Bag × β} (hx : P x.1) (hy : P y.1) :
    P (if c then x else y).1 := by
  split <;> assumption

theorem codonsFrom_length (code : List (List Byte × Byte)) : ∀ (n : Nat) (s : Seq), s.length ≤ n →
    (codonsFrom code s).length = s.length / 3
  | _, [], _ => by simp [codonsFrom]
  | _, [_], _ => by simp [codonsFrom]
  | _, [_, _], _ => by simp [codonsFrom]
  | 0, _ :: _ :: _ :: _, h => by simp at h
  | n + 1, a :: b :: c :: t, h => by
    have := codonsFrom_length code n t (by simp at h; omega)
    simp only [codonsFrom, List.length_cons, this]; omega

theorem bufferTranslate_length {code : List (List Byte × Byte)} {ph : Nat} {s p : Seq}
    (h : bufferTranslate code ph s = some p) : p.length = (s.length - ph) / 3 := by
  unfold bufferTranslate at h
  simp only [] at h
  split at h
  · simp at h
  · split at h
    · simp at h
    · simp only [Option.some.injEq] at h; subst h
      rw [codonsFrom_length code _ _ (Nat.le_refl _), List.length_drop]

theorem allLen_addSeqAs {T : Nat} (f : Bool) {b : Bag} (h : AllLen T b.rows) (n : String) (s : Seq) (hs : s.length = T) :
    AllLen T (addSeqAs f b n s).1.rows := by
  rcases addSeqAs_cases f b n s with e | e | e <;> rw [e]
  · exact h
  · exact h
  · intro r hr
    simp only [pushed, List.mem_append, List.mem_singleton] at hr
    rcases hr with hr | rfl
    · exact h r hr
    · exact hs

theorem allLen_translateLoop1 {T : Nat} (code) (phases : List Nat) (sfx : Bool) (r : Row) (l : List Nat) (b : Bag)
    (h : AllLen T b.rows) (hT : ∀ p ∈ l, (r.seq.length - p) / 3 = T) :
    AllLen T (translateLoop1 code phases sfx r l b).1.rows := by
  induction l generalizing b with
  | nil => exact h
  | cons ph rest ih =>
    simp only [translateLoop1]
    split
    · exact h
    · rename_i p hp
      have h1 := allLen_addSeqAs false h (if sfx then r.name ++ "_" ++ toString ph else r.name) p
        ((bufferTranslate_length hp).trans (hT ph (by simp)))
      exact ite_fst (P := fun x => AllLen T x.rows) h1 (ih _ h1 (fun q hq => hT q (List.mem_cons_of_mem _ hq)))

theorem allLen_translateRows {T : Nat} (code) (phases : List Nat) (sfx : Bool) (l : List Row) (b : Bag)
    (h : AllLen T b.rows) (hT : ∀ r ∈ l, ∀ p ∈ phases, (r.seq.length - p) / 3 = T) :
    AllLen T (translateRows code phases sfx l b).1.rows := by
  induction l generalizing b with
  | nil => exact h
  | cons r t ih =>
    simp only [translateRows]
    have h1 := allLen_translateLoop1 code phases sfx r phases b h (hT r (by simp))
    exact ite_fst (P := fun x => AllLen T x.rows) h1 (ih _ h1 (fun x hx => hT x (List.mem_cons_of_mem _ hx)))

theorem isAlign_translateLoop1 (code) (phases : List Nat) (sfx : Bool) (r : Row) (l : List Nat) (b : Bag) :
    (translateLoop1 code phases sfx r l b).1.isAlign = b.isAlign := by
  induction l generalizing b with
  | nil => rfl
  | cons ph rest ih =>
    simp only [translateLoop1]
    split
    · rfl
    · exact ite_fst (P := fun x => x.isAlign = b.isAlign) (isAlign_addSeqAs _ _ _ _)
        (by rw [ih]; exact isAlign_addSeqAs _ _ _ _)

theorem isAlign_translateRows (code) (phases : List Nat) (sfx : Bool) (l : List Row) (b : Bag) :
    (translateRows code phases sfx l b).1.isAlign = b.isAlign := by
  induction l generalizing b with
  | nil => rfl
  | cons r t ih =>
    simp only [translateRows]
    exact ite_fst (P := fun x => x.isAlign = b.isAlign) (isAlign_translateLoop1 _ _ _ _ _ _)
      (by rw [ih]; exact isAlign_translateLoop1 _ _ _ _ _ _)

theorem isAlign_fixLength (b : Bag) : (fixLength b).isAlign = b.isAlign := by
  unfold fixLength; split <;> rfl

theorem rect_fixLength_allLen {T : Nat} {b : Bag} (h : AllLen T b.rows) : Rect (fixLength b) := by
  by_cases ha : b.isAlign = true
  · apply rect_of_allLen (T := T)
    · simpa [fixLength, ha] using h
    · intro _; simp only [fixLength, ha, if_true]; cases b.rows <;> rfl
  · exact Rect.of_not_align (by rw [isAlign_fixLength]; simpa using ha)

theorem rect_fixLength {b : Bag} (h : Rect b) : Rect (fixLength b) := by
  by_cases ha : b.isAlign = true
  · cases hr : b.rows with
    | nil => exact rect_fixLength_allLen (T := 0) (by simp [AllLen, hr])
    | cons x t =>
      apply rect_fixLength_allLen (T := x.seq.length)
      intro r hr'
      have h1 := h.rows_len ha r hr'
      have h2 := h.rows_len ha x (by simp [hr])
      omega
  · exact Rect.of_not_align (by rw [isAlign_fixLength]; simpa using ha)

/-- the exact condition under which the frames requested from an alignment of `L` columns all have the
same number of codons: a single frame, or `L ≡ 2 (mod 3)` -/
def TranslateRectOK (b : Bag) (phase : Int) : Prop := phase ≠ -1 ∨ b.length % 3 = 2

theorem rect_translateBag (ph code : Int) {b : Bag} (h : Rect b) (hp : TranslateRectOK b ph) :
    Rect (translateBag ph code b).1 := by
  unfold translateBag
  split
  · exact rect_fixLength h
  · split
    · exact rect_fixLength h
    · rename_i code _ _
      simp only []
      by_cases ha : b.isAlign = true
      · -- every requested frame of every row has the same number of codons
        have hT : ∃ T, ∀ r ∈ b.rows, ∀ p ∈ (if ph == -1 then [0, 1, 2] else [ph.toNat]), (r.seq.length - p) / 3 = T := by
          by_cases e : ph = -1
          · subst e
            refine ⟨b.length.toNat / 3, ?_⟩
            intro r hr p hp'
            have hl := h.rows_len ha r hr
            have h3 : b.length % 3 = 2 := by
              rcases hp with hp | hp
              · exact absurd rfl hp
              · exact hp
            simp at hp'
            rcases hp' with rfl | rfl | rfl <;> omega
          · refine ⟨(b.length.toNat - ph.toNat) / 3, ?_⟩
            intro r hr p hp'
            have hl := h.rows_len ha r hr
            have : (ph == -1) = false := by simpa using e
            simp [this] at hp'
            subst hp'
            have : r.seq.length = b.length.toNat := by omega
            rw [this]
        obtain ⟨T, hT⟩ := hT
        have hall := allLen_translateRows code (if ph == -1 then [0, 1, 2] else [ph.toNat]) (ph == -1) b.rows (clearBase b)
          (by simp [AllLen, clearBase]) hT
        exact ite_fst (P := Rect) (rect_fixLength_allLen hall) (rect_fixLength_allLen (T := T) hall)
      · have hna : ∀ x : Bag × Bool, x.1.isAlign = b.isAlign → Rect (fixLength x.1) := by
          intro x hx
          exact Rect.of_not_align (by rw [isAlign_fixLength, hx]; simpa using ha)
        have e := isAlign_translateRows code (if ph == -1 then [0, 1, 2] else [ph.toNat]) (ph == -1) b.rows (clearBase b)
        exact ite_fst (P := Rect) (hna _ e)
          (Rect.of_not_align (by rw [isAlign_fixLength]; simp only []; rw [e]; simpa [clearBase] using ha))

end Gv.Proofs.BagAbs
