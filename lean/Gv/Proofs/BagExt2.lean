import Gv.Proofs.BagRect3
/-!
C01, `Unalign` (a NEW plain sequence set replaces the current object: the kind changes) and `RenameRegexp`
(in-place rename with externally computed names, then `rebuildIndex`): invariant, kind, rectangularity.
-/
namespace Gv.Proofs.BagAbs
open Gv Gv.Model Gv.Proofs.BagInv

/-! ### `RenameRegexp` -/

theorem renameList_ids : ∀ (rows : List Row) (names : List String),
    (renameList rows names).map (·.id) = rows.map (·.id)
  | [], _ => rfl
  | _ :: _, [] => rfl
  | r :: t, n :: ns => by simp [renameList, renameList_ids t ns]

theorem renameList_seqs : ∀ (rows : List Row) (names : List String),
    (renameList rows names).map (·.seq) = rows.map (·.seq)
  | [], _ => rfl
  | _ :: _, [] => rfl
  | r :: t, n :: ns => by simp [renameList, renameList_seqs t ns]

theorem renameList_length (rows : List Row) (names : List String) : (renameList rows names).length = rows.length := by
  simpa using congrArg List.length (renameList_ids rows names)

/-- whatever the new names are (collisions included) the invariant holds again: the index is rebuilt -/
theorem inv_renameRegexp (names : List String) (b : Bag) (h : Inv b) : Inv (renameRegexp names b).1 := by
  unfold renameRegexp
  simp only []
  apply inv_rebuild
  · rw [renameList_ids]; exact h.ids_nodup
  · intro r hr
    have : r.id ∈ (renameList b.rows names).map (·.id) := List.mem_map_of_mem (f := (·.id)) hr
    rw [renameList_ids] at this
    obtain ⟨r0, hr0, e⟩ := List.mem_map.mp this
    have := h.ids_lt r0 hr0
    omega

theorem rect_renameRegexp (names : List String) {b : Bag} (h : Rect b) : Rect (renameRegexp names b).1 :=
  h.congr rfl rfl (map_len_of_map_seq (renameList_seqs b.rows names))

theorem isAlign_renameRegexp (names : List String) (b : Bag) : (renameRegexp names b).1.isAlign = b.isAlign := rfl

/-! ### `Unalign` -/

theorem isAlign_unalign (b : Bag) : (unalign b).isAlign = false := by
  unfold unalign; rw [isAlign_addAllIgnore]; rfl

theorem inv_unalign (b : Bag) : Inv (unalign b) := inv_addAllIgnore _ _ (inv_newBag _)

/-- the result is a plain sequence set: nothing to be rectangular -/
theorem rect_unalign (b : Bag) : Rect (unalign b) := Rect.of_not_align (isAlign_unalign b)

end Gv.Proofs.BagAbs
