import Gv.Proofs.BagRect3
/-!
C01, `Unalign` (a NEW plain sequence set replaces the current object: the kind changes) and `RenameRegexp`
(in-place rename with externally computed names, then `rebuildIndex`): invariant, kind, rectangularity.
-/
namespace Gv.Proofs.BagAbs
open Gv Gv.Model Gv.Proofs.BagInv

/-! ### `RenameRegexp` -/

theorem renameList_ids : ∀ (rows : List Row) (names : List String),
    (renameList rows names).map (·.id) = rows.map (·.id)
  | [], _ => rfl
  | _ :: _, [] => rfl
  | r :: t, n :: ns => by simp [renameList, renameList_ids t ns]

theorem renameList_seqs : ∀ (rows : List Row) (names : List String),
    (renameList rows names).map (·.seq) = rows.map (·.seq)
  | [], _ => rfl
  | _ :: _, [] => rfl
  | r :: t, n :: ns => by simp [renameList, renameList_seqs t ns]

theorem renameList_length (rows : List Row) (names : List String) : (renameList rows names).length = rows.length := by
  simpa using congrArg List.length (renameList_ids rows names)

/-- whatever the new names are (collisions included) the invariant holds again: the index is rebuilt -/
theorem inv_renameRegexp (names : List String) (b : Bag) (h : Inv b) : Inv (renameRegexp names b).1 := by
  unfold renameRegexp
  simp only []
  apply inv_rebuild
  · rw [renameList_ids]; exact h.ids_nodup
  · intro r hr
    have : r.id ∈ (renameList b.rows names).map (·.id) := List.mem_map_of_mem (f := (·.id)) hr
    rw [renameList_ids] at this
    obtain ⟨r0, hr0, e⟩ := List.mem_map.mp this
    have := h.ids_lt r0 hr0
    omega

theorem rect_renameRegexp (names : List String) {b : Bag} (h : Rect b) : Rect (renameRegexp names b).1 :=
  h.congr rfl rfl (map_len_of_map_seq (renameList_seqs b.rows names))

theorem isAlign_renameRegexp (names : List String) (b : Bag) : (renameRegexp names b).1.isAlign = b.isAlign := rfl

/-! ### `Unalign` -/

theorem isAlign_unalign (b : Bag) : (unalign b).isAlign = false := by
  unfold unalign; rw [isAlign_addAllIgnore]; rfl

theorem inv_unalign (b : Bag) : Inv (unalign b) := inv_addAllIgnore _ _ (inv_newBag _)

/-- the result is a plain sequence set: nothing to be rectangular -/
theorem rect_unalign (b : Bag) : Rect (unalign b) := Rect.of_not_align (isAlign_unalign b)

/-! ### `SetAlphabet`: only the alphabet field can change -/

theorem setAlphabet_cases (a : Int) (b : Bag) :
    (setAlphabet a b).1 = b ∨ (setAlphabet a b).1 = { b with alphabet := NUCLEOTIDS } ∨
    (setAlphabet a b).1 = { b with alphabet := AMINOACIDS } := by
  unfold setAlphabet setAlphabetResult
  split
  · rename_i x hx
    split at hx
    · cases hx
    · split at hx
      · split at hx
        · simp only [Option.some.injEq] at hx; subst hx; exact Or.inr (Or.inl rfl)
        · cases hx
      · split at hx
        · split at hx
          · simp only [Option.some.injEq] at hx; subst hx; exact Or.inr (Or.inr rfl)
          · cases hx
        · cases hx
  · exact Or.inl rfl

theorem setAlphabet_fields (a : Int) (b : Bag) :
    (setAlphabet a b).1.rows = b.rows ∧ (setAlphabet a b).1.index = b.index ∧ (setAlphabet a b).1.next = b.next ∧
    (setAlphabet a b).1.isAlign = b.isAlign ∧ (setAlphabet a b).1.length = b.length ∧
    (setAlphabet a b).1.policy = b.policy := by
  rcases setAlphabet_cases a b with e | e | e <;> rw [e] <;> exact ⟨rfl, rfl, rfl, rfl, rfl, rfl⟩

theorem inv_setAlphabet (a : Int) (b : Bag) (h : Inv b) : Inv (setAlphabet a b).1 := by
  obtain ⟨f1, f2, f3, -⟩ := setAlphabet_fields a b
  exact h.congr f1 f2 f3

theorem rect_setAlphabet (a : Int) {b : Bag} (h : Rect b) : Rect (setAlphabet a b).1 := by
  obtain ⟨f1, -, -, f4, f5, -⟩ := setAlphabet_fields a b
  exact h.congr f4 f5 (by rw [f1])

end Gv.Proofs.BagAbs
