import Gv.Proofs.SitesLists
/-!
C04: `InverseCoordinates` / `InversePositions` against `SubAlign`: the returned windows and the
requested one tile `[0, L)`, expanding them gives the complement positions, and cutting a row at them
gives what precedes and what follows the requested window.
-/
namespace Gv.Proofs.SitesInverse
open Gv Gv.Model Gv.Spec.Sites Gv.Proofs.SitesLists

/-- closed form of `InverseCoordinates` (same statement as `C04.inverseCoordinates_spec`) -/
theorem inverseCoordinates_eval (L st ln : Int) (ss ls : List Int)
    (h : inverseCoordinates L st ln = .ok (ss, ls)) :
    0 ≤ st ∧ 0 ≤ ln ∧ st + ln ≤ L ∧
    ss = (if st > 0 then [0] else []) ++ (if st + ln < L then [st + ln] else []) ∧
    ls = (if st > 0 then [st] else []) ++ (if st + ln < L then [L - (st + ln)] else []) := by
  unfold inverseCoordinates at h
  split at h
  · cases h
  · split at h
    · cases h
    · split at h
      · cases h
      · rename_i h1 h2 h3
        simp only [Bool.or_eq_true, decide_eq_true_eq, not_or, Int.not_lt] at h1 h2 h3
        simp only [Out.ok.injEq, Prod.mk.injEq] at h
        refine ⟨by omega, by omega, by omega, ?_, ?_⟩
        · rw [← h.1]; by_cases a : st > 0 <;> by_cases b : st + ln < L <;> simp [a, b]
        · rw [← h.2]; by_cases a : st > 0 <;> by_cases b : st + ln < L <;> simp [a, b]

/-- **the windows returned by `InverseCoordinates` and the requested window tile `[0, L)`** -/
theorem inverse_windows_tile (L st ln : Int) (ss ls : List Int)
    (h : inverseCoordinates L st ln = .ok (ss, ls)) :
    ss.length = ls.length ∧
    (∀ w ∈ ss.zip ls, 0 ≤ w.1 ∧ 0 < w.2 ∧ w.1 + w.2 ≤ L) ∧
    (ss.zip ls).Pairwise (fun u v => u.1 + u.2 ≤ v.1) ∧
    (∀ i : Int, 0 ≤ i → i < L → ((st ≤ i ∧ i < st + ln) ↔ ¬ ∃ w ∈ ss.zip ls, w.1 ≤ i ∧ i < w.1 + w.2)) := by
  obtain ⟨h0, h1, h2, es, el⟩ := inverseCoordinates_eval L st ln ss ls h
  subst es el
  by_cases a : st > 0 <;> by_cases b : st + ln < L
  · rw [if_pos a, if_pos b, if_pos a, if_pos b]
    refine ⟨rfl, ?_, ?_, ?_⟩
    · intro w hw; simp at hw; rcases hw with rfl | rfl <;> simp <;> omega
    · simp; omega
    · intro i _ _; simp; omega
  · rw [if_pos a, if_neg b, if_pos a, if_neg b]
    refine ⟨rfl, ?_, ?_, ?_⟩
    · intro w hw; simp at hw; subst hw; simp; omega
    · simp
    · intro i _ _; simp; omega
  · rw [if_neg a, if_pos b, if_neg a, if_pos b]
    refine ⟨rfl, ?_, ?_, ?_⟩
    · intro w hw; simp at hw; subst hw; simp; omega
    · simp
    · intro i _ _; simp; omega
  · rw [if_neg a, if_neg b, if_neg a, if_neg b]
    refine ⟨rfl, ?_, ?_, ?_⟩
    · intro w hw; simp at hw
    · simp
    · intro i _ _; simp; omega

theorem window_nat (st ln : Int) (h0 : 0 ≤ st) :
    window st ln = (List.range' st.toNat ln.toNat).map fun (k : Nat) => (k : Int) := by
  have : window st ln = window (st.toNat : Int) (ln.toNat : Int) := by
    unfold window; simp only [Int.toNat_natCast]
    apply List.map_congr_left; intro k _; omega
  rw [this, window_eq_range']

/-- closed form of `InversePositions` on a window: what lies before it, then what lies after it -/
theorem inversePositions_window (L st ln : Int) (h0 : 0 ≤ st) (h1 : 0 ≤ ln) (h2 : st + ln ≤ L) :
    inversePositions L (window st ln) = .ok (window 0 st ++ window (st + ln) (L - (st + ln))) := by
  unfold inversePositions
  have c1 : ¬ ((window st ln).any (fun s => decide (s < 0) || decide (s ≥ L)) = true) := by
    simp only [List.any_eq_true, Bool.or_eq_true, decide_eq_true_eq, not_exists, not_and, not_or]
    intro s hs; rw [mem_window] at hs; omega
  rw [if_neg c1]
  congr 1
  rw [filter_range_outside L.toNat st.toNat ln.toNat (by omega)]
  · rw [List.map_append, window_nat 0 st (by omega), window_nat (st + ln) _ (by omega)]
    congr 1
    congr 2 <;> omega
  · intro k hk
    simp only [Bool.not_eq_true', List.contains_eq_mem, decide_eq_false_iff_not, mem_window]
    have : Int.ofNat k = (k : Int) := rfl
    rw [this]; omega

theorem window_empty (st ln : Int) (h : ln ≤ 0) : window st ln = [] := by
  unfold window
  have : ln.toNat = 0 := by omega
  simp [this]

/-- expanding the windows of `InverseCoordinates` (`evalh`: its closed form) gives prefix ++ suffix -/
theorem flatMap_windows (L st ln : Int) (h0 : 0 ≤ st) (h2 : st + ln ≤ L) :
    (((if st > 0 then [0] else []) ++ (if st + ln < L then [st + ln] else [])).zip
      ((if st > 0 then [st] else []) ++ (if st + ln < L then [L - (st + ln)] else []))).flatMap
        (fun (w : Int × Int) => window w.1 w.2) = window 0 st ++ window (st + ln) (L - (st + ln)) := by
  by_cases a : st > 0 <;> by_cases b : st + ln < L
  · rw [if_pos a, if_pos b, if_pos a, if_pos b]; simp
  · rw [if_pos a, if_neg b, if_pos a, if_neg b]; simp [window_empty (st + ln) (L - (st + ln)) (by omega)]
  · rw [if_neg a, if_pos b, if_neg a, if_pos b]; simp [window_empty 0 st (by omega)]
  · rw [if_neg a, if_neg b, if_neg a, if_neg b]
    simp [window_empty (st + ln) (L - (st + ln)) (by omega), window_empty 0 st (by omega)]

theorem seg_empty (s : Seq) (w : Int × Int) (h : w.2 ≤ 0) : seg s w = [] := by
  unfold seg
  have : w.2.toNat = 0 := by omega
  simp [this]

/-- cutting one row at the windows of `InverseCoordinates`: what precedes the requested window, and
what follows it -/
theorem segs_windows (s : Seq) (L st ln : Int) (h0 : 0 ≤ st) (h1 : 0 ≤ ln) (h2 : st + ln ≤ L)
    (hs : (s.length : Int) = L) :
    let wins := ((if st > 0 then [0] else []) ++ (if st + ln < L then [st + ln] else [])).zip
      ((if st > 0 then [st] else []) ++ (if st + ln < L then [L - (st + ln)] else []))
    (wins.filter (fun w => decide (w.1 < st))).flatMap (seg s) = s.take st.toNat ∧
    (wins.filter (fun w => decide (w.1 ≥ st + ln))).flatMap (seg s) = s.drop (st + ln).toNat := by
  have e1 : seg s (0, st) = s.take st.toNat := by simp [seg]
  have e2 : seg s (st + ln, L - (st + ln)) = s.drop (st + ln).toNat := by
    simp only [seg]
    apply List.take_of_length_le
    simp only [List.length_drop]; omega
  by_cases a : st > 0 <;> by_cases b : st + ln < L
  · rw [if_pos a, if_pos b, if_pos a, if_pos b]
    have c1 : ¬ (st + ln < st) := by omega
    have c2 : ¬ (0 ≥ st + ln) := by omega
    simp [a, c1, c2, e1, e2]
  · rw [if_pos a, if_neg b, if_pos a, if_neg b]
    have c2 : ¬ (0 ≥ st + ln) := by omega
    have : (st + ln).toNat ≥ s.length := by omega
    simp [a, c2, e1, List.drop_of_length_le this]
  · rw [if_neg a, if_pos b, if_neg a, if_pos b]
    have c1 : ¬ (st + ln < st) := by omega
    have : st.toNat = 0 := by omega
    simp [c1, e2, this]
  · rw [if_neg a, if_neg b, if_neg a, if_neg b]
    have : st.toNat = 0 := by omega
    have : (st + ln).toNat ≥ s.length := by omega
    simp [*, List.drop_of_length_le this]

end Gv.Proofs.SitesInverse
