import Gv.Proofs.StatsMutAA
import Gv.Props.C05
/-!
C14: the codon-wise mutation list of the model (`listMutationsVsRefAA`: the walk of the Go loop over the reference,
`refSegs`) equals the naive definition (`Spec.aaMutations`: reference codon after reference codon, addressed through
the list of the columns that hold a residue) on every input.
-/
namespace Gv.Proofs.StatsMutAAEq
open Gv Gv.Model Gv.Proofs.TranslateRef Gv.Proofs.StatsMutAA
set_option linter.unusedSimpArgs false
set_option linter.unusedVariables false

theorem GAP_eq : GAP = 45 := rfl

/-! ### the residue columns of a suffix -/

/-- the columns holding a residue, for the suffix that starts at column `off` -/
def resFrom : Nat → Seq → List Nat
  | _, [] => []
  | off, c :: t => if c != GAP then off :: resFrom (off + 1) t else resFrom (off + 1) t

theorem resFrom_succ (t : Seq) : ∀ off, resFrom (off + 1) t = (resFrom off t).map (· + 1) := by
  induction t with
  | nil => intro off; rfl
  | cons c t ih =>
    intro off
    simp only [resFrom]
    split
    · rw [ih (off + 1)]; rfl
    · rw [ih (off + 1)]

theorem resCols_eq (ref : Seq) : Spec.resCols ref = resFrom 0 ref := by
  induction ref with
  | nil => rfl
  | cons c t ih =>
    unfold Spec.resCols at ih ⊢
    rw [List.length_cons, List.range_succ_eq_map, List.filter_cons, List.filter_map]
    have hf : ((fun i => (c :: t).getD i 45 != 45) ∘ Nat.succ) = fun i => t.getD i 45 != 45 := by
      funext i; simp
    rw [hf, ih]
    simp only [resFrom, List.getD_cons_zero, GAP_eq]
    rw [resFrom_succ]
    by_cases hc : (c != 45) = true <;> simp [hc]

theorem resFrom_gaps (g : Nat) (r : Seq) : ∀ off, resFrom off (List.replicate g GAP ++ r) = resFrom (off + g) r := by
  induction g with
  | zero => intro off; simp
  | succ g ih =>
    intro off
    rw [List.replicate_succ, List.cons_append]
    simp only [resFrom, bne_self_eq_false, Bool.false_eq_true, if_false]
    rw [ih]; congr 1; omega

theorem resFrom_cons_ne (off : Nat) (x : Byte) (t : Seq) (hx : x ≠ GAP) :
    resFrom off (x :: t) = off :: resFrom (off + 1) t := by
  have : (x != GAP) = true := by simpa using hx
  simp [resFrom, this]

theorem resFrom_cons_inv (r : Seq) : ∀ (off a : Nat) (rest : List Nat), resFrom off r = a :: rest →
    ∃ g y t, y ≠ GAP ∧ r = List.replicate g GAP ++ y :: t ∧ a = off + g ∧ rest = resFrom (off + g + 1) t := by
  induction r with
  | nil => intro off a rest h; simp [resFrom] at h
  | cons c t ih =>
    intro off a rest h
    by_cases hc : c = GAP
    · subst hc
      simp only [resFrom, bne_self_eq_false, Bool.false_eq_true, if_false] at h
      obtain ⟨g, y, t', hy, ht, ha, hr⟩ := ih (off + 1) a rest h
      refine ⟨g + 1, y, t', hy, ?_, by omega, ?_⟩
      · rw [ht, List.replicate_succ, List.cons_append]
      · rw [hr]; congr 1; omega
    · rw [resFrom_cons_ne off c t hc] at h
      simp only [List.cons.injEq] at h
      exact ⟨0, c, t, hc, by simp, by omega, by rw [← h.2]⟩

/-- a sequence is a run of gaps followed by nothing or by something that starts with a residue -/
theorem gap_run (r : Seq) : ∃ g r', r = List.replicate g GAP ++ r' ∧ ∀ t, r' ≠ GAP :: t := by
  induction r with
  | nil => exact ⟨0, [], by simp, by simp⟩
  | cons c t ih =>
    by_cases hc : c = GAP
    · obtain ⟨g, r', h1, h2⟩ := ih
      exact ⟨g + 1, r', by rw [hc, h1, List.replicate_succ, List.cons_append], h2⟩
    · exact ⟨0, c :: t, by simp, by intro t' h; simp only [List.cons.injEq] at h; exact hc h.1⟩

theorem takeWhile_run (g : Nat) (r' : Seq) (h : ∀ t, r' ≠ GAP :: t) :
    ((List.replicate g GAP ++ r').takeWhile (· == 45)).length = g := by
  induction g with
  | zero =>
    match r', h with
    | [], _ => simp
    | c :: t, h =>
      have : c ≠ 45 := fun e => h t (by rw [e]; rfl)
      simp [this]
  | succ g ih =>
    rw [List.replicate_succ, List.cons_append, List.takeWhile_cons]
    have : (GAP == 45) = true := rfl
    simp only [this, if_true, List.length_cons, ih]

/-! ### one step of the walk, computed -/

theorem skipGaps_run (m g : Nat) (x : Byte) (t : Seq) (hx : x ≠ GAP) (hm : m ≤ t.length + 1) :
    skipGaps m (List.replicate g GAP ++ x :: t) = (g, x :: t) := by
  induction g with
  | zero => simpa using skipGaps_head_ne m x t hx
  | succ g ih =>
    rw [List.replicate_succ, List.cons_append]
    unfold skipGaps
    have : ((GAP :: (List.replicate g GAP ++ x :: t)).length ≥ m && GAP == GAP) = true := by
      simp; omega
    rw [if_pos this, ih]

theorem refSegs_gap3 (code : List (List Byte × Byte)) (fuel : Nat) (t : Seq) :
    refSegs code (fuel + 1) (GAP :: GAP :: GAP :: t) = ⟨0, 3, GAP⟩ :: refSegs code fuel t := by
  simp [refSegs]

theorem refSegs_codon (code : List (List Byte × Byte)) (fuel : Nat) (r : Seq) (k0 k1 k2 : Nat) (x y z : Byte)
    (rest rest2 t' : Seq) (hl : r.length ≥ 3) (hall : (r.take 3).all (· == GAP) = false)
    (h0 : skipGaps 3 r = (k0, x :: rest)) (hr : rest.length ≥ 2)
    (h1 : skipGaps 2 rest = (k1, y :: rest2)) (hr2 : rest2.length ≥ 1)
    (h2 : skipGaps 1 rest2 = (k2, z :: t')) :
    refSegs code (fuel + 1) r = ⟨k0, k1 + k2 + 3, translateCodon code x y z⟩ :: refSegs code fuel t' := by
  match r, hl with
  | a :: b :: c :: t, _ =>
    have hall' : (a == GAP && b == GAP && c == GAP) = false := by
      simpa [Bool.and_assoc] using hall
    rw [refSegs, hall']
    simp only [Bool.false_eq_true, if_false, h0]
    have : ¬ rest.length < 2 := by omega
    simp only [this, if_false, h1]
    have : ¬ rest2.length < 1 := by omega
    simp only [this, if_false, h2]

theorem refSegs_codon_run (code : List (List Byte × Byte)) (fuel g g1 g2 : Nat) (x y z : Byte) (t' : Seq)
    (hg : g < 3) (hx : x ≠ GAP) (hy : y ≠ GAP) (hz : z ≠ GAP) :
    refSegs code (fuel + 1)
      (List.replicate g GAP ++ x :: (List.replicate g1 GAP ++ y :: (List.replicate g2 GAP ++ z :: t'))) =
    ⟨g, g1 + g2 + 3, translateCodon code x y z⟩ :: refSegs code fuel t' := by
  have hxb : (x == GAP) = false := by simpa using hx
  apply refSegs_codon code fuel _ g g1 g2 x y z
    (List.replicate g1 GAP ++ y :: (List.replicate g2 GAP ++ z :: t')) (List.replicate g2 GAP ++ z :: t') t'
  · simp; omega
  · match g, hg with
    | 0, _ => simp [hxb]
    | 1, _ => simp [List.replicate, hxb]
    | 2, _ => simp [List.replicate, hxb]
  · exact skipGaps_run 3 g x _ hx (by simp; omega)
  · simp; omega
  · exact skipGaps_run 2 g1 y _ hy (by simp <;> omega)
  · simp <;> omega
  · exact skipGaps_run 1 g2 z _ hz (by simp <;> omega)

/-- fewer than three residues left and no three gaps in front: the walk stops -/
theorem refSegs_end (code : List (List Byte × Byte)) (fuel off : Nat) (r : Seq)
    (hn : (resFrom off r).length < 3) (hg : ∀ t, r ≠ GAP :: GAP :: GAP :: t) : refSegs code fuel r = [] := by
  match fuel with
  | 0 => simp [refSegs]
  | fuel + 1 =>
    rcases refSegs_step code fuel r with h | ⟨t, hr, _⟩ | ⟨g0, g1, g2, x, y, z, t', hx, hy, hz, hr, _⟩
    · exact h
    · exact absurd hr (hg t)
    · exfalso
      rw [hr, resFrom_gaps, resFrom_cons_ne _ _ _ hx, resFrom_gaps, resFrom_cons_ne _ _ _ hy, resFrom_gaps,
        resFrom_cons_ne _ _ _ hz] at hn
      simp only [List.length_cons] at hn
      omega

/-! ### one iteration of the loop body -/

theorem loop_gap3 (code : List (List Byte × Byte)) (segs : List RefSeg) (q t : Seq) (k : Int) :
    listMutAALoop code (⟨0, 3, GAP⟩ :: segs) q (GAP :: GAP :: GAP :: t) k =
      aaEntry code GAP true (k - 1) (q.take 3) ++ listMutAALoop code segs (q.drop 3) t k := by
  simp only [listMutAALoop, List.drop_zero]
  have hall : ((GAP :: GAP :: GAP :: t).take 3).all (· == GAP) = true := by simp
  rw [hall]
  simp only [if_true]
  have e1 : k - 1 + 1 = k := by omega
  rw [e1]
  rfl

theorem loop_codon (code : List (List Byte × Byte)) (segs : List RefSeg) (q : Seq) (k : Int) (aa : Byte)
    (g g1 g2 : Nat) (x y z : Byte) (t' : Seq) (hx : x ≠ GAP) :
    listMutAALoop code (⟨g, g1 + g2 + 3, aa⟩ :: segs) q
      (List.replicate g GAP ++ x :: (List.replicate g1 GAP ++ y :: (List.replicate g2 GAP ++ z :: t'))) k =
      aaEntry code aa false k ((q.drop g).take (g1 + g2 + 3)) ++
        listMutAALoop code segs ((q.drop g).drop (g1 + g2 + 3)) t' (k + 1) := by
  simp only [listMutAALoop]
  have hd0 : (List.replicate g GAP ++ x :: (List.replicate g1 GAP ++ y :: (List.replicate g2 GAP ++ z :: t'))).drop g =
      x :: (List.replicate g1 GAP ++ y :: (List.replicate g2 GAP ++ z :: t')) := List.drop_left' (by simp)
  rw [hd0]
  have hsplit : x :: (List.replicate g1 GAP ++ y :: (List.replicate g2 GAP ++ z :: t')) =
      (x :: (List.replicate g1 GAP ++ y :: (List.replicate g2 GAP ++ [z]))) ++ t' := by simp
  have hw : (x :: (List.replicate g1 GAP ++ y :: (List.replicate g2 GAP ++ z :: t'))).take (g1 + g2 + 3) =
      x :: (List.replicate g1 GAP ++ y :: (List.replicate g2 GAP ++ [z])) := by
    rw [hsplit]; exact List.take_left' (by simp; omega)
  have hdr : (x :: (List.replicate g1 GAP ++ y :: (List.replicate g2 GAP ++ z :: t'))).drop (g1 + g2 + 3) = t' := by
    rw [hsplit]; exact List.drop_left' (by simp; omega)
  rw [hw, hdr]
  have hxb : (x == GAP) = false := by simpa using hx
  have hnall : (x :: (List.replicate g1 GAP ++ y :: (List.replicate g2 GAP ++ [z]))).all (· == GAP) = false := by
    simp [hxb]
  rw [hnall]
  simp only [Bool.false_eq_true, if_false]

/-! ### what the body writes, in the words of the naive definition -/

/-- the translation used by the naive definition -/
abbrev tr : Byte → Byte → Byte → Byte := Spec.translateCodon Spec.ncbi1

theorem trc (a b c : Byte) : translateCodon Gen.standardcode a b c = tr a b c :=
  Props.C05.translateCodon_eq_spec 0 (by simp) a b c

set_option maxRecDepth 100000 in
private theorem ncbi1_no : ∀ e ∈ Spec.ncbi1, e ≠ 45 ∧ e ≠ 47 := by decide

private theorem expansions_no (X Y Z : List Byte) : ∀ e ∈ Spec.expansions Spec.ncbi1 X Y Z, e ≠ 45 ∧ e ≠ 47 := by
  intro e he
  simp only [Spec.expansions, List.mem_flatMap, List.mem_map] at he
  obtain ⟨x, _, y, _, z, _, rfl⟩ := he
  unfold Spec.ncbiAA
  rw [List.getD_eq_getElem?_getD]
  cases h : Spec.ncbi1[16 * Spec.baseIdx x + 4 * Spec.baseIdx y + Spec.baseIdx z]? with
  | none => decide
  | some v => exact ncbi1_no v (List.mem_of_getElem? h)

/-- a reference codon (no gap among its three residues) is never translated to `-` or `/` -/
theorem tr_no (a b c : Byte) (h : a ≠ 45) : tr a b c ≠ 45 ∧ tr a b c ≠ 47 := by
  unfold tr Spec.translateCodon
  rw [if_neg (fun hh => h hh.1)]
  split
  · rename_i X Y Z _ _ _
    split
    · decide
    · rename_i aa rest he
      split
      · exact expansions_no X Y Z aa (by rw [he]; simp)
      · decide
  · decide

theorem codonsFrom_eq_map : ∀ (n : Nat) (t : Seq), t.length = 3 * n →
    codonsFrom Gen.standardcode t =
      (List.range n).map fun k => tr (t.getD (3 * k) 0) (t.getD (3 * k + 1) 0) (t.getD (3 * k + 2) 0) := by
  intro n
  induction n with
  | zero => intro t h; have : t = [] := List.eq_nil_of_length_eq_zero (by omega); subst this; rfl
  | succ n ih =>
    intro t h
    match t, h with
    | a :: b :: c :: t', h =>
      have hl : t'.length = 3 * n := by simp at h; omega
      rw [codonsFrom, ih t' hl, List.range_succ_eq_map, List.map_cons, List.map_map, trc]
      congr 1

private theorem ne_single (l : List Byte) (a : Byte) (hl : l.length ≥ 1) :
    (l.length > 1 || l.any (· != a)) = true ↔ l ≠ [a] := by
  match l, hl with
  | [b], _ => simp
  | b :: c :: t, _ => simp

/-- the loop body and the naive rule agree on a window: an entry exactly when what the query shows is not the
reference amino acid alone -/
theorem aaEntry_eq (refaa : Byte) (ag : Bool) (pos : Int) (w : Seq)
    (h1 : ag = true → refaa = 45) (h2 : ag = false → refaa ≠ 45) (h3 : refaa ≠ 47) :
    aaEntry Gen.standardcode refaa ag pos w =
      if Spec.aaAlt tr w = [refaa] then [] else [(refaa, pos, Spec.aaAlt tr w)] := by
  unfold aaEntry Spec.aaAlt
  simp only []
  have hu : w.filter (· != GAP) = w.filter (· != 45) := rfl
  rw [hu]
  generalize w.filter (· != 45) = t
  by_cases h0 : t.length = 0
  · have : (t.length == 0) = true := by simp [h0]
    rw [if_pos this, if_pos h0]
    cases ag with
    | true => rw [h1 rfl]; simp
    | false =>
      have := h2 rfl
      have hne : ¬ ([45] : List Byte) = [refaa] := by
        intro h; simp only [List.cons.injEq, and_true] at h; exact this h.symm
      rw [if_neg hne]; simp [GAP_eq]
  · have : ¬ (t.length == 0) = true := by simpa using h0
    rw [if_neg this, if_neg h0]
    by_cases h3' : t.length % 3 = 0
    · have : ¬ (t.length % 3 != 0) = true := by simp [h3']
      have h3n : ¬ t.length % 3 ≠ 0 := by omega
      rw [if_neg this, if_neg h3n]
      have hlen : t.length = 3 * (t.length / 3) := by omega
      rw [codonsFrom_eq_map (t.length / 3) t hlen]
      generalize hcur : ((List.range (t.length / 3)).map fun k =>
        tr (t.getD (3 * k) 0) (t.getD (3 * k + 1) 0) (t.getD (3 * k + 2) 0)) = cur
      have hcl : cur.length ≥ 1 := by rw [← hcur]; simp; omega
      have hns := ne_single cur refaa hcl
      by_cases hc : cur = [refaa]
      · have : ¬ (cur.length > 1 || cur.any (· != refaa)) = true := by
          intro hh; exact hns.mp hh hc
        rw [if_neg this, if_pos hc]
      · rw [if_pos (hns.mpr hc), if_neg hc]
    · have : (t.length % 3 != 0) = true := by simpa using h3'
      rw [if_pos this, if_pos h3']
      have hne : ¬ ([47] : List Byte) = [refaa] := by
        intro h; simp only [List.cons.injEq, and_true] at h; exact h3 h.symm
      rw [if_neg hne]

/-! ### the run of reference gaps after a codon, three columns at a time -/

/-- what the naive definition lists for the `t`-th triple of gap columns of a run starting at column `e` -/
def insAt (s : Seq) (k : Int) (e t : Nat) : Option (Byte × Int × List Byte) :=
  let alt := Spec.aaAlt tr (Spec.window s (e + 3 * t) (e + 3 * t + 2))
  if alt = [45] then none else some ((45 : Byte), k - 1, alt)

theorem window3 (s : Seq) (i : Nat) : Spec.window s i (i + 2) = (s.drop i).take 3 := by
  unfold Spec.window; congr 1; omega

theorem insAt_succ (s : Seq) (k : Int) (e t : Nat) : insAt s k e (t + 1) = insAt s k (e + 3) t := by
  have : e + 3 * (t + 1) = e + 3 + 3 * t := by omega
  simp only [insAt, this]

theorem replicate3 (m : Nat) (r : Seq) :
    List.replicate (3 * (m + 1)) GAP ++ r = GAP :: GAP :: GAP :: (List.replicate (3 * m) GAP ++ r) := by
  have : 3 * (m + 1) = 3 * m + 1 + 1 + 1 := by omega
  rw [this]; simp [List.replicate_succ]

theorem gapTriples (s : Seq) (k : Int) : ∀ (m f off : Nat) (r' : Seq),
    listMutAALoop Gen.standardcode (refSegs Gen.standardcode (m + f) (List.replicate (3 * m) GAP ++ r'))
        (s.drop off) (List.replicate (3 * m) GAP ++ r') k =
      (List.range m).filterMap (insAt s k off) ++
        listMutAALoop Gen.standardcode (refSegs Gen.standardcode f r') (s.drop (off + 3 * m)) r' k := by
  intro m
  induction m with
  | zero => intro f off r'; simp
  | succ m ih =>
    intro f off r'
    have hf : m + 1 + f = (m + f) + 1 := by omega
    rw [replicate3, hf, refSegs_gap3, loop_gap3, List.drop_drop, ih f (off + 3) r']
    rw [aaEntry_eq GAP true (k - 1) _ (fun _ => rfl) (fun h => by simp at h) (by decide)]
    rw [List.range_succ_eq_map, List.filterMap_cons, List.filterMap_map]
    have hfun : (insAt s k off ∘ Nat.succ) = insAt s k (off + 3) := by
      funext t; exact insAt_succ s k off t
    rw [hfun]
    have h0 : insAt s k off 0 =
        if Spec.aaAlt tr ((s.drop off).take 3) = [45] then none else some ((45 : Byte), k - 1, Spec.aaAlt tr ((s.drop off).take 3)) := by
      simp only [insAt, Nat.mul_zero, Nat.add_zero, window3]
    rw [h0]
    have e3 : off + 3 + 3 * m = off + 3 * (m + 1) := by omega
    rw [e3]
    by_cases ha : Spec.aaAlt tr ((s.drop off).take 3) = [45]
    · have ha' : Spec.aaAlt tr ((s.drop off).take 3) = [GAP] := ha
      simp [ha, ha', GAP_eq]
    · have ha' : ¬ Spec.aaAlt tr ((s.drop off).take 3) = [GAP] := ha
      simp [ha, ha', GAP_eq]

/-! ### the whole walk -/

theorem getD_drop {α : Type} (l : List α) (n i : Nat) (d : α) : (l.drop n).getD i d = l.getD (n + i) d := by
  simp [List.getD_eq_getElem?_getD, List.getElem?_drop]

theorem getD_at (n : Nat) (x : Byte) (t : Seq) (d : Byte) : (List.replicate n GAP ++ x :: t).getD n d = x := by
  simp [List.getD_eq_getElem?_getD, List.getElem?_append_right]

theorem getD_after (n i : Nat) (x : Byte) (t : Seq) (d : Byte) :
    (List.replicate n GAP ++ x :: t).getD (n + 1 + i) d = t.getD i d := by
  have : n + 1 + i - n = i + 1 := by omega
  rw [List.getD_eq_getElem?_getD, List.getD_eq_getElem?_getD, List.getElem?_append_right (by simp; omega)]
  simp [this]

theorem loop_nil (code : List (List Byte × Byte)) (q r : Seq) (k : Int) : listMutAALoop code [] q r k = [] := by
  simp [listMutAALoop]

/-- the entries of the naive definition at codon `k`, with the start and the length of the gap run made explicit -/
theorem aaMutationsAt_eq (s ref : Seq) (k off run : Nat)
    (he : (if k = 0 then 0 else (Spec.resCols ref).getD (3 * k - 1) 0 + 1) = off)
    (hrun : ((ref.drop off).takeWhile (· == 45)).length = run) :
    Spec.aaMutationsAt tr s ref k = (List.range (run / 3)).filterMap (insAt s (k : Int) off) ++
      (if 3 * k + 2 < (Spec.resCols ref).length then
        (if Spec.aaAlt tr (Spec.window s ((Spec.resCols ref).getD (3 * k) 0) ((Spec.resCols ref).getD (3 * k + 2) 0)) =
            [tr (ref.getD ((Spec.resCols ref).getD (3 * k) 0) 0) (ref.getD ((Spec.resCols ref).getD (3 * k + 1) 0) 0)
              (ref.getD ((Spec.resCols ref).getD (3 * k + 2) 0) 0)] then []
         else [(tr (ref.getD ((Spec.resCols ref).getD (3 * k) 0) 0) (ref.getD ((Spec.resCols ref).getD (3 * k + 1) 0) 0)
              (ref.getD ((Spec.resCols ref).getD (3 * k + 2) 0) 0), (k : Int),
              Spec.aaAlt tr (Spec.window s ((Spec.resCols ref).getD (3 * k) 0) ((Spec.resCols ref).getD (3 * k + 2) 0)))])
      else []) := by
  unfold Spec.aaMutationsAt
  simp only [he, hrun]
  rfl

theorem main (s ref : Seq) : ∀ (fuel off k : Nat), (ref.drop off).length ≤ fuel →
    3 * k ≤ (Spec.resCols ref).length →
    (Spec.resCols ref).drop (3 * k) = resFrom off (ref.drop off) →
    (if k = 0 then 0 else (Spec.resCols ref).getD (3 * k - 1) 0 + 1) = off →
    listMutAALoop Gen.standardcode (refSegs Gen.standardcode fuel (ref.drop off)) (s.drop off) (ref.drop off) (k : Int) =
      (List.range' k ((Spec.resCols ref).length / 3 + 1 - k)).flatMap (Spec.aaMutationsAt tr s ref) := by
  intro fuel
  induction fuel using Nat.strongRecOn with
  | ind fuel ih =>
  intro off k hfuel hk hcols he
  have hdl : ((Spec.resCols ref).drop (3 * k)).length = (Spec.resCols ref).length - 3 * k := List.length_drop
  by_cases hlen : 3 ≤ (resFrom off (ref.drop off)).length
  · -- a further codon
    match hq : resFrom off (ref.drop off), hlen with
    | a :: b :: c :: rest, _ =>
      obtain ⟨run, x, t1, hx, hRx, ha, hrest1⟩ := resFrom_cons_inv (ref.drop off) off a (b :: c :: rest) hq
      obtain ⟨g1, y, t2, hy, ht1, hb, hrest2⟩ := resFrom_cons_inv t1 (off + run + 1) b (c :: rest) hrest1.symm
      obtain ⟨g2, z, t', hz, ht2, hc, hrest3⟩ := resFrom_cons_inv t2 (off + run + 1 + g1 + 1) c rest hrest2.symm
      subst ht1 ht2
      have hrun : ((ref.drop off).takeWhile (· == 45)).length = run := by
        rw [hRx]
        exact takeWhile_run run _ (by intro t h; simp only [List.cons.injEq] at h; exact hx h.1)
      have hg3 : run % 3 < 3 := Nat.mod_lt _ (by omega)
      have hshape : ref.drop off = List.replicate (3 * (run / 3)) GAP ++ (List.replicate (run % 3) GAP ++
          x :: (List.replicate g1 GAP ++ y :: (List.replicate g2 GAP ++ z :: t'))) := by
        rw [hRx, ← List.append_assoc, List.replicate_append_replicate]
        congr 2; omega
      have hlenR : (ref.drop off).length = run + g1 + g2 + 3 + t'.length := by
        rw [hRx]; simp; omega
      obtain ⟨f, hf⟩ : ∃ f, fuel = run / 3 + (f + 1) := ⟨fuel - run / 3 - 1, by omega⟩
      -- the state after the codon
      have ht' : ref.drop (off + (run + (g1 + g2 + 3))) = t' := by
        rw [← List.drop_drop, hRx]
        have : List.replicate run GAP ++ x :: (List.replicate g1 GAP ++ y :: (List.replicate g2 GAP ++ z :: t')) =
            (List.replicate run GAP ++ x :: (List.replicate g1 GAP ++ y :: (List.replicate g2 GAP ++ [z]))) ++ t' := by
          simp
        rw [this]
        exact List.drop_left' (by simp; omega)
      have hcols' : (Spec.resCols ref).drop (3 * (k + 1)) = resFrom (off + (run + (g1 + g2 + 3))) t' := by
        have : 3 * (k + 1) = 3 * k + 3 := by omega
        rw [this, ← List.drop_drop, hcols, hq]
        simp only [List.drop_succ_cons, List.drop_zero]
        rw [hrest3]; congr 1; omega
      have hi : (Spec.resCols ref).getD (3 * k) 0 = off + run := by
        have := getD_drop (Spec.resCols ref) (3 * k) 0 0
        rw [hcols, hq, List.getD_cons_zero, Nat.add_zero] at this
        omega
      have hj1 : (Spec.resCols ref).getD (3 * k + 1) 0 = off + (run + 1 + g1) := by
        have := getD_drop (Spec.resCols ref) (3 * k) 1 0
        rw [hcols, hq, List.getD_cons_succ, List.getD_cons_zero] at this
        omega
      have hj : (Spec.resCols ref).getD (3 * k + 2) 0 = off + (run + 1 + (g1 + 1 + g2)) := by
        have := getD_drop (Spec.resCols ref) (3 * k) 2 0
        rw [hcols, hq, List.getD_cons_succ, List.getD_cons_succ, List.getD_cons_zero] at this
        omega
      have hcl : 3 * k + 2 < (Spec.resCols ref).length := by
        rw [hcols, hq] at hdl; simp at hdl; omega
      have he' : (if k + 1 = 0 then 0 else (Spec.resCols ref).getD (3 * (k + 1) - 1) 0 + 1) =
          off + (run + (g1 + g2 + 3)) := by
        have : 3 * (k + 1) - 1 = 3 * k + 2 := by omega
        rw [if_neg (by omega), this, hj]; omega
      have hIH := ih f (by omega) (off + (run + (g1 + g2 + 3))) (k + 1)
        (by rw [ht']; omega) (by omega) (by rw [ht']; exact hcols') he'
      rw [ht'] at hIH
      -- the residues of the codon
      have hxr : ref.getD (off + run) 0 = x := by
        rw [← getD_drop, hRx]; exact getD_at run x _ 0
      have hyr : ref.getD (off + (run + 1 + g1)) 0 = y := by
        rw [← getD_drop, hRx, getD_after]; exact getD_at g1 y _ 0
      have hzr : ref.getD (off + (run + 1 + (g1 + 1 + g2))) 0 = z := by
        rw [← getD_drop, hRx, getD_after, getD_after]; exact getD_at g2 z _ 0
      have hwin : Spec.window s (off + run) (off + (run + 1 + (g1 + 1 + g2))) =
          ((s.drop (off + 3 * (run / 3))).drop (run % 3)).take (g1 + g2 + 3) := by
        unfold Spec.window
        rw [List.drop_drop]
        congr 2 <;> omega
      have hsd : ((s.drop (off + 3 * (run / 3))).drop (run % 3)).drop (g1 + g2 + 3) =
          s.drop (off + (run + (g1 + g2 + 3))) := by
        rw [List.drop_drop, List.drop_drop]; congr 1; omega
      have hx45 : x ≠ 45 := hx
      have hcast : ((k + 1 : Nat) : Int) = (k : Int) + 1 := by omega
      -- left-hand side
      rw [hshape, hf, gapTriples s k (run / 3) (f + 1) off _,
        refSegs_codon_run Gen.standardcode f (run % 3) g1 g2 x y z t' hg3 hx hy hz,
        loop_codon Gen.standardcode _ _ _ _ (run % 3) g1 g2 x y z t' hx, trc,
        aaEntry_eq (tr x y z) false (k : Int) _ (by simp) (fun _ => (tr_no x y z hx45).1) (tr_no x y z hx45).2,
        hsd, ← hcast, hIH]
      -- right-hand side
      have hn1 : (Spec.resCols ref).length / 3 + 1 - k = ((Spec.resCols ref).length / 3 + 1 - (k + 1)) + 1 := by omega
      rw [hn1, List.range'_succ, List.flatMap_cons, aaMutationsAt_eq s ref k off run he hrun, if_pos hcl,
        hi, hj1, hj, hxr, hyr, hzr, hwin, List.append_assoc]
  · -- fewer than three residues are left
    obtain ⟨run, r', hR, hr'⟩ := gap_run (ref.drop off)
    have hrun : ((ref.drop off).takeWhile (· == 45)).length = run := by
      rw [hR]; exact takeWhile_run run r' hr'
    have hshape : ref.drop off = List.replicate (3 * (run / 3)) GAP ++ (List.replicate (run % 3) GAP ++ r') := by
      rw [hR, ← List.append_assoc, List.replicate_append_replicate]
      congr 2; omega
    have hlenR : (ref.drop off).length = run + r'.length := by rw [hR]; simp
    obtain ⟨f, hf⟩ : ∃ f, fuel = run / 3 + f := ⟨fuel - run / 3, by omega⟩
    have hn : (resFrom (off + 3 * (run / 3)) (List.replicate (run % 3) GAP ++ r')).length < 3 := by
      rw [← resFrom_gaps, ← hshape]; omega
    have hg3 : run % 3 < 3 := Nat.mod_lt _ (by omega)
    have hg : ∀ t, List.replicate (run % 3) GAP ++ r' ≠ GAP :: GAP :: GAP :: t := by
      intro t
      generalize run % 3 = g at hg3
      match g, hg3 with
      | 0, _ => simpa using hr' (GAP :: GAP :: t)
      | 1, _ =>
        intro h
        simp only [List.replicate, List.cons_append, List.nil_append, List.cons.injEq, true_and] at h
        exact hr' _ h
      | 2, _ =>
        intro h
        simp only [List.replicate, List.cons_append, List.nil_append, List.cons.injEq, true_and] at h
        exact hr' _ h
    have hcl : ¬ 3 * k + 2 < (Spec.resCols ref).length := by
      rw [hcols] at hdl; omega
    have hn1 : (Spec.resCols ref).length / 3 + 1 - k = 1 := by
      rw [hcols] at hdl; omega
    rw [hshape, hf, gapTriples s k (run / 3) f off _, refSegs_end Gen.standardcode f _ _ hn hg, loop_nil, hn1]
    have hspec := aaMutationsAt_eq s ref k off run he hrun
    rw [if_neg hcl] at hspec
    simp [List.range', hspec]

end Gv.Proofs.StatsMutAAEq
