import Gv.Model.Fmt.Common
import Gv.Spec.Fmt
/-!
The container invariant the parsers rely on (shared by the C03 outcome theorems of every format):
`Bag.add` keeps the rows rectangular, the names pairwise distinct and the cached length exact,
under each of the three duplicate-name policies.
-/
namespace Gv.Proofs.FmtBagInv
open Gv Gv.Model Gv.Model.Fmt
open Gv.Spec.Fmt (distinct)

/-- rows rectangular with the cached length (−1 iff no row), names pairwise distinct -/
def Inv (b : Bag) : Prop :=
  (b.rows = [] → b.length = -1) ∧
  (∀ r ∈ b.rows, (r.2.length : Int) = b.length) ∧
  distinct (b.rows.map (·.1)) = true

theorem inv_empty (i : Nat) : Inv { ignore := i } := by
  refine ⟨fun _ => rfl, ?_, rfl⟩
  intro r hr; cases hr

theorem distinct_append_singleton : ∀ (l : List Name) (x : Name),
    distinct (l ++ [x]) = (distinct l && !l.contains x)
  | [], x => by simp [distinct]
  | a :: t, x => by
    simp only [List.cons_append, distinct, distinct_append_singleton t x]
    have : (t ++ [x]).contains a = (t.contains a || x == a) := by
      by_cases hxa : x = a
      · simp [List.contains_eq_mem, List.mem_append, hxa]
      · have e1 : (x == a) = false := beq_eq_false_iff_ne.mpr hxa
        have e2 : ¬ a = x := fun e => hxa e.symm
        simp [List.contains_eq_mem, List.mem_append, e1, e2]
    rw [this]
    have h2 : (a :: t).contains x = (x == a || t.contains x) := by
      by_cases hxa : x = a
      · simp [List.contains_eq_mem, hxa]
      · have e1 : (x == a) = false := beq_eq_false_iff_ne.mpr hxa
        simp [List.contains_eq_mem, e1, hxa]
    rw [h2]
    cases t.contains a <;> cases distinct t <;> cases t.contains x <;> cases (x == a) <;> simp

theorem not_hasName (b : Bag) (n : Name) (h : b.hasName n = false) :
    (b.rows.map (·.1)).contains n = false := by
  unfold Bag.hasName at h
  simp only [List.any_eq_false, beq_iff_eq] at h
  simp only [List.contains_eq_mem, List.mem_map, decide_eq_false_iff_not]
  rintro ⟨r, hr, e⟩
  exact h r hr e

theorem find_none_not_contains (b : Bag) (n : Name) (h : b.find n = none) :
    (b.rows.map (·.1)).contains n = false := by
  unfold Bag.find at h
  simp only [Option.map_eq_none_iff, List.find?_eq_none, beq_iff_eq] at h
  simp only [List.contains_eq_mem, List.mem_map, decide_eq_false_iff_not]
  rintro ⟨r, hr, e⟩
  exact h r hr e

theorem freshName_free (b : Bag) (name : Name) : ∀ (fuel idx : Nat) (nm : Name),
    freshName b name fuel idx = some nm → b.hasName nm = false
  | 0, _, _, h => by simp [freshName] at h
  | fuel + 1, idx, nm, h => by
    simp only [freshName] at h
    split at h
    · exact freshName_free b name fuel (idx + 1) nm h
    · rename_i hn
      simp at h; subst h; simpa using hn

/-- appending a row of the right length under a free name keeps the invariant -/
theorem inv_push (b : Bag) (hb : Inv b) (nm : Name) (s : Seq)
    (hfree : (b.rows.map (·.1)).contains nm = false)
    (hlen : ¬ (b.length != -1 && b.length != (s.length : Int)) = true) :
    Inv { b with length := s.length, rows := b.rows ++ [(nm, s)] } := by
  obtain ⟨h1, h2, h3⟩ := hb
  refine ⟨by simp, ?_, ?_⟩
  · intro r hr
    simp only [List.mem_append, List.mem_singleton] at hr
    cases hr with
    | inl hr =>
      have hl := h2 r hr
      have hne : b.rows ≠ [] := by intro e; rw [e] at hr; cases hr
      -- b.length is the common length, and it passed the check, so it equals s.length
      by_cases hm : b.length = -1
      · rw [hm] at hl; omega
      · have : b.length = (s.length : Int) := by
          simp only [bne_iff_ne, ne_eq, Bool.and_eq_true, not_and, Decidable.not_not] at hlen
          exact hlen hm
        simp only; rw [hl, this]
    | inr hr => subst hr; rfl
  · simp only [List.map_append, List.map_cons, List.map_nil]
    rw [distinct_append_singleton, h3, hfree]; rfl

theorem add_inv (b : Bag) (hb : Inv b) (name : Name) (s : Seq) (b' : Bag)
    (h : b.add name s = some b') : Inv b' := by
  unfold Bag.add at h
  split at h
  · -- the name exists
    split at h
    · simp at h; subst h; exact hb
    · split at h
      · simp at h; subst h; exact hb
      · split at h
        · simp at h
        · rename_i nm hfresh
          split at h
          · simp at h
          · rename_i hlen
            simp at h; subst h
            exact inv_push b hb nm s (not_hasName b nm (freshName_free b name _ _ nm hfresh)) hlen
  · rename_i hfind
    split at h
    · simp at h
    · rename_i hlen
      simp at h; subst h
      exact inv_push b hb name s (find_none_not_contains b name hfind) hlen

/-- a successful add of a non-empty sequence leaves a non-empty bag with positive length, provided
the bag was empty or already had positive length -/
def Pos (b : Bag) : Prop := b.rows ≠ [] → 1 ≤ b.length

theorem add_pos (b : Bag) (hp : Pos b) (name : Name) (s : Seq) (hs : s ≠ []) (b' : Bag)
    (h : b.add name s = some b') : Pos b' := by
  have hspos : (1 : Int) ≤ (s.length : Int) := by
    have : 0 < s.length := List.length_pos_iff.mpr hs
    omega
  unfold Bag.add at h
  split at h
  · split at h
    · simp at h; subst h; exact hp
    · split at h
      · simp at h; subst h; exact hp
      · split at h
        · simp at h
        · split at h
          · simp at h
          · simp at h; subst h; intro _; exact hspos
  · split at h
    · simp at h
    · simp at h; subst h; intro _; exact hspos

/-- a successful add leaves at least one row when the bag had one or the name is new -/
theorem add_rows_ne (b : Bag) (name : Name) (s : Seq) (b' : Bag) (h : b.add name s = some b') :
    b'.rows ≠ [] := by
  unfold Bag.add at h
  split at h
  · rename_i old hfind
    have hne : b.rows ≠ [] := by
      intro e
      simp [Bag.find, e] at hfind
    split at h
    · simp at h; subst h; exact hne
    · split at h
      · simp at h; subst h; exact hne
      · split at h
        · simp at h
        · split at h
          · simp at h
          · simp at h; subst h; simp
  · split at h
    · simp at h
    · simp at h; subst h; simp

/-- the alphabet step does not touch rows or length -/
theorem finish_rows (b : Bag) (alpha : Nat) (a : Aln) (h : b.finish alpha = some a) :
    a.rows = b.rows ∧ a.length = b.length := by
  unfold Bag.finish at h
  simp only at h
  split at h
  · simp at h; subst h; exact ⟨rfl, rfl⟩
  · split at h
    · simp at h
    · split at h
      · split at h
        · simp at h; subst h; exact ⟨rfl, rfl⟩
        · simp at h
      · split at h
        · split at h
          · simp at h; subst h; exact ⟨rfl, rfl⟩
          · simp at h
        · simp at h

/-- invariant + non-empty + positive length is exactly C03's `wellFormed` -/
theorem wellFormed_of_inv (b : Bag) (hb : Inv b) (hp : Pos b) (hne : b.rows ≠ []) :
    Spec.Fmt.wellFormed b.length b.rows = true := by
  obtain ⟨_, h2, h3⟩ := hb
  unfold Spec.Fmt.wellFormed
  have e1 : b.rows.isEmpty = false := by
    cases hr : b.rows with
    | nil => exact absurd hr hne
    | cons _ _ => rfl
  have e2 : decide (1 ≤ b.length) = true := by simpa using hp hne
  have e3 : (b.rows.all fun r => (r.2.length : Int) == b.length) = true := by
    simp only [List.all_eq_true, beq_iff_eq]
    exact h2
  simp [e1, e2, e3, h3]

end Gv.Proofs.FmtBagInv
