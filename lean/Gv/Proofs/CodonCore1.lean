import Gv.Proofs.CodonCore
/-! all 17³ representative codons for table vertebratemitocode, by kernel evaluation -/
namespace Gv.Proofs.CodonCore
open Gv Gv.Model
set_option maxRecDepth 100000

theorem finite_core1 : ∀ a ∈ reps, ∀ b ∈ reps, ∀ c ∈ reps,
    translateCodon Gen.vertebratemitocode a b c = Spec.translateCodon Spec.ncbi2 a b c := by
  decide +kernel

end Gv.Proofs.CodonCore
