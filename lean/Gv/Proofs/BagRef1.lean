import Gv.Proofs.BagAddRef
import Gv.Proofs.BagRect4
/-!
Refinement, operation by operation (C01), part 1: insertion, policies, renames, in-place residue
edits, sorting and shuffling.

`Refines b op`: whenever the reference model specifies the outcome of `op` on the observable content
of `b`, the Go-shaped model produces exactly that content and that status, and the strong invariant
holds again.
-/
namespace Gv.Proofs.BagAbs
open Gv Gv.Model Gv.Spec Gv.Proofs.BagInv

def Refines (b : Bag) (op : Op) : Prop :=
  ∀ s' st, Spec.stepOp (abs b) op = (some s', st) →
    abs (Model.stepOp b op).1 = s' ∧ (Model.stepOp b op).2 = st ∧ Good (Model.stepOp b op).1

/-- the direct form: the model's step is the given reference outcome -/
theorem refines_of {b : Bag} {op : Op} {s1 : Option SBag} {st1 : String}
    (hspec : Spec.stepOp (abs b) op = (s1, st1))
    (h : ∀ s', s1 = some s' → abs (Model.stepOp b op).1 = s' ∧ (Model.stepOp b op).2 = st1 ∧ Good (Model.stepOp b op).1) :
    Refines b op := by
  intro s' st e
  rw [hspec] at e
  simp only [Prod.mk.injEq] at e
  obtain ⟨e1, e2⟩ := e
  subst e2
  exact h s' e1

/-! ### `IdxFirst` only looks at the (id, name) pairs in row order and at the index -/

theorem find_id_keys (n : String) (rows : List Row) :
    (rows.find? (fun r => r.name == n)).map (·.id) = ((keys rows).find? (fun k => k.2 == n)).map (·.1) := by
  induction rows with
  | nil => rfl
  | cons r t ih =>
    simp only [keys, List.map_cons, List.find?_cons]
    by_cases h : (r.name == n) = true
    · simp [h]
    · have : (r.name == n) = false := by simpa using h
      simp only [this]
      exact ih

theorem IdxFirst.transfer {b b' : Bag} (h : IdxFirst b) (hk : keys b'.rows = keys b.rows) (hi : b'.index = b.index) :
    IdxFirst b' := by
  intro n
  rw [hi, h n, find_id_keys, find_id_keys, hk]

theorem AlphaOK.congr {b b' : Bag} (h : AlphaOK b) (ha : b'.isAlign = b.isAlign) (hal : b'.alphabet = b.alphabet) : AlphaOK b' := by
  intro h1; rw [hal]; exact h (ha ▸ h1)

/-- same (id, name) pairs in the same order, same index/counter/kind/alphabet/cached length, same row
lengths: `Good` transfers -/
theorem Good.transfer_seqs {b b' : Bag} (h : Good b) (hk : keys b'.rows = keys b.rows) (hi : b'.index = b.index)
    (hn : b'.next = b.next) (ha : b'.isAlign = b.isAlign) (hal : b'.alphabet = b.alphabet)
    (hr : Rect b') : Good b' :=
  ⟨h.inv.transfer (by rw [hk]) hi (by omega), h.first.transfer hk hi, hr, h.alpha.congr ha hal⟩

/-! ### settings -/

theorem ref_ignore {b : Bag} (h : Good b) (p : Int) : Refines b (.ignore p) := by
  refine refines_of rfl ?_
  intro s' e
  simp only [Option.some.injEq] at e; subst e
  exact ⟨rfl, rfl, h.transfer_seqs rfl rfl rfl rfl rfl (h.rect.congr rfl rfl rfl)⟩

theorem ref_autoAlpha {b : Bag} (h : Good b) : Refines b .autoAlpha := by
  refine refines_of rfl ?_
  intro s' e
  simp only [Option.some.injEq] at e; subst e
  refine ⟨?_, rfl, ⟨h.inv.congr rfl rfl rfl, h.first.transfer rfl rfl, h.rect.congr rfl rfl rfl, ?_⟩⟩
  · simp [Model.stepOp, abs, pairs, List.map_map, Function.comp_def]
  · intro _
    simp only [Model.stepOp, autoAlphabet]
    split
    · simp [NUCLEOTIDS, BOTH]
    · split <;> simp [AMINOACIDS, UNKNOWN, BOTH]

theorem ref_clear {b : Bag} (h : Good b) : Refines b .clear := by
  refine refines_of rfl ?_
  intro s' e
  simp only [Option.some.injEq] at e; subst e
  refine ⟨rfl, rfl, ⟨inv_clear b, ?_, rect_clear b, h.alpha.congr rfl rfl⟩⟩
  intro n; simp [Model.stepOp, clear, idxLookup]

/-! ### insertion -/

theorem ref_add {b : Bag} (h : Good b) (n : String) (q : Seq) : Refines b (.add n q) := by
  refine refines_of rfl ?_
  intro s' e
  simp only [Option.some.injEq] at e; subst e
  obtain ⟨g1, g2, g3, g4, g5⟩ := add_ref h (sim_abs b) n q
  refine ⟨(g1.eq_abs (by rw [g4, g5]; rfl)).symm, ?_, g3⟩
  simp only [Model.stepOp, g2]

theorem ref_append {b : Bag} (h : Good b) (rows : List (String × Seq)) : Refines b (.append rows) := by
  intro s' st e
  simp only [Spec.stepOp, Model.stepOp, abs_isAlign] at e ⊢
  by_cases ha : b.isAlign = true
  · simp only [ha, Bool.not_true, Bool.false_eq_true, if_false] at e ⊢
    have hsim0 : Sim (newAlign b.alphabet) { alphabet := (abs b).alphabet, isAlign := true } := ⟨rfl, rfl, rfl⟩
    obtain ⟨o1, o2, _, _, _⟩ := addAllStop_ref rows (good_newAlign b.alphabet) hsim0
    rw [← o2] at e
    split
    · rename_i ho
      rw [if_pos ho] at e
      simp only [Prod.mk.injEq, Option.some.injEq] at e
      exact ⟨e.1, e.2, h⟩
    · rename_i ho
      rw [if_neg ho] at e
      rw [o1.rows] at e
      obtain ⟨g1, g2, g3, g4, g5⟩ := addAllStop_ref (pairs (Model.addAllStop (newAlign b.alphabet) rows).1) h (sim_abs b)
      simp only [appendRows]
      rw [← g2] at e
      split at e
      · simp at e
      · rename_i hr
        simp only [Prod.mk.injEq, Option.some.injEq] at e
        refine ⟨?_, ?_, g3⟩
        · rw [← e.1]; exact (g1.eq_abs (by rw [g4, g5]; rfl)).symm
        · rw [← e.2]; simp [hr]
  · have ha' : b.isAlign = false := by simpa using ha
    simp only [ha', Bool.not_false, if_true, Prod.mk.injEq, Option.some.injEq] at e ⊢
    exact ⟨e.1, e.2, h⟩

end Gv.Proofs.BagAbs
