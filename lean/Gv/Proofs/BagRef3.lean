import Gv.Proofs.BagRef2
/-!
Refinement, operation by operation (C01), part 3: operations that rebuild the container through
`Clear()` + `AddSequence` (`FilterLength`, `RemoveCharacterSeqs`) or into a fresh object (`Clone`,
`Sample`).  With pairwise distinct names every re-insertion appends the row unchanged.
-/
namespace Gv.Proofs.BagAbs
open Gv Gv.Model Gv.Spec Gv.Proofs.BagInv

theorem good_of_gi {b : Bag} (h : GI b) (hr : Rect b) (ha : AlphaOK b) : Good b := ⟨h.inv, h.first, hr, ha⟩

theorem GI.congr {b b' : Bag} (h : GI b) (hr : b'.rows = b.rows) (hi : b'.index = b.index) (hn : b'.next = b.next) : GI b' :=
  ⟨h.inv.congr hr hi hn, h.first.transfer (by rw [hr]) hi⟩

theorem names_pairs_map (l : List Row) : (l.map fun r => (r.name, r.seq)).map Prod.fst = l.map (·.name) := by
  simp [List.map_map, Function.comp_def]

theorem nodup_names_of_abs {b : Bag} (h : (abs b).names.Nodup) : (b.rows.map (·.name)).Nodup := by
  rw [abs_names] at h; exact h

theorem gi_clearBase (b : Bag) : GI (clearBase b) := (gi_nil b).congr rfl rfl rfl

theorem ref_filter {b : Bag} (h : Good b) (mn mx : Int) : Refines b (.filter mn mx) := by
  intro s' st e
  simp only [Spec.stepOp] at e
  split at e
  · rename_i hnd
    simp only [Prod.mk.injEq, Option.some.injEq] at e
    obtain ⟨e1, e2⟩ := e
    subst e1 e2
    have hnd' := nodup_names_of_abs hnd
    -- the rows kept, as the model computes them
    let keep := b.rows.filter fun r => (mn < 0 || (r.seq.length : Int) ≥ mn) && (mx < 0 || (r.seq.length : Int) ≤ mx)
    have hfresh : FreshIn (clearBase b) (keep.map fun r => (r.name, r.seq)) := by
      apply freshIn_of_nil rfl
      rw [names_pairs_map]
      exact (List.filter_sublist.map _).nodup hnd'
    have hrun := addAllStopBase_fresh _ hfresh
    obtain ⟨k1, k2, k3, k4, k5⟩ := pushAll_spec false _ (gi_clearBase b) hfresh
    have hrect := rect_filterLength mn mx h.rect
    have hval : filterLength mn mx b =
        (resetLengthIfEmpty (pushAll false (clearBase b) (keep.map fun r => (r.name, r.seq))), false) := by
      unfold filterLength; simp only []; rw [hrun]
    rw [hval] at hrect
    simp only [Model.stepOp, hval]
    have hreset : ∀ x : Bag, (resetLengthIfEmpty x).rows = x.rows ∧ (resetLengthIfEmpty x).index = x.index ∧
        (resetLengthIfEmpty x).next = x.next ∧ (resetLengthIfEmpty x).policy = x.policy ∧
        (resetLengthIfEmpty x).alphabet = x.alphabet ∧ (resetLengthIfEmpty x).isAlign = x.isAlign := by
      intro x; unfold resetLengthIfEmpty; split <;> simp
    obtain ⟨r1, r2, r3, r4, r5, r6⟩ := hreset (pushAll false (clearBase b) (keep.map fun r => (r.name, r.seq)))
    refine ⟨?_, by simp, good_of_gi (k1.congr r1 r2 r3) hrect ?_⟩
    · simp only [abs, pairs, r1, r4, r5, r6, k3, k4, k5]
      have : List.map (fun r => (r.name, r.seq)) (pushAll false (clearBase b) (keep.map fun r => (r.name, r.seq))).rows =
          keep.map fun r => (r.name, r.seq) := by
        have := k2; simp only [pairs, clearBase, List.map_nil, List.nil_append] at this; exact this
      rw [this]
      simp only [clearBase, keep, List.filter_map, Function.comp_def]
    · exact h.alpha.congr (r6.trans k5) (r5.trans k4)
  · simp at e

/-! ### rebuilding into an empty container -/

theorem gi_of_empty {c : Bag} (hr : c.rows = []) (hi : c.index = []) : GI c := by
  refine ⟨⟨by simp [hr], by simp [hr], by simp [hi, idxLookup], by simp [hr]⟩, ?_⟩
  intro n; simp [hr, hi, idxLookup]

/-- all rows of a rectangular alignment pass the length test of an empty (or equally long) alignment -/
theorem lenOK_of_rect {b : Bag} (h : Rect b) (ha : b.isAlign = true) {c : Bag} (hc : c.length = -1 ∨ c.length = b.length)
    (l : List Row) (hl : ∀ r ∈ l, r ∈ b.rows) : LenOK true c (l.map fun r => (r.name, r.seq)) := by
  intro _
  refine ⟨b.length.toNat, ?_, ?_⟩
  · cases hr : b.rows with
    | nil =>
      have := h.empty_len ha hr
      rcases hc with hc | hc
      · exact Or.inl hc
      · exact Or.inl (hc.trans this)
    | cons x t =>
      have := h.rows_len ha x (by simp [hr])
      rcases hc with hc | hc
      · exact Or.inl hc
      · right; rw [hc]; omega
  · intro p hp
    obtain ⟨r, hr, rfl⟩ := List.mem_map.mp hp
    have := h.rows_len ha r (hl r hr)
    simp only; omega

/-- adding rows with pairwise distinct names to an empty container appends them unchanged -/
theorem rebuild_into (c0 : Bag) (hr : c0.rows = []) (hi : c0.index = []) (l : List (String × Seq))
    (hnd : (l.map Prod.fst).Nodup) (hlen : LenOK c0.isAlign c0 l) :
    ∃ b', Model.addAllStop c0 l = (b', false) ∧ Model.addAllIgnore c0 l = b' ∧ GI b' ∧ pairs b' = l ∧
      b'.policy = c0.policy ∧ b'.alphabet = c0.alphabet ∧ b'.isAlign = c0.isAlign := by
  have hfresh : FreshIn c0 l := freshIn_of_nil hi hnd
  obtain ⟨k1, k2, k3, k4, k5⟩ := pushAll_spec c0.isAlign l (gi_of_empty hr hi) hfresh
  refine ⟨_, addAllStop_fresh l hfresh hlen, addAllIgnore_fresh l hfresh hlen, k1, ?_, k3, k4, k5⟩
  rw [k2]; simp [pairs, hr]

theorem ref_clone {b : Bag} (h : Good b) : Refines b .clone := by
  intro s' st e
  simp only [Spec.stepOp] at e
  split at e
  · rename_i hnd
    simp only [Prod.mk.injEq, Option.some.injEq] at e
    obtain ⟨e1, e2⟩ := e
    subst e1 e2
    have hnd' := nodup_names_of_abs hnd
    have hrect := rect_clone b
    have hnd2 : ((pairs b).map Prod.fst).Nodup := by rw [pairs, names_pairs_map]; exact hnd'
    by_cases ha : b.isAlign = true
    · obtain ⟨b', hrun, -, k1, k2, k3, k4, k5⟩ := rebuild_into { newAlign b.alphabet with policy := b.policy } rfl rfl
        (pairs b) hnd2 (lenOK_of_rect h.rect ha (Or.inl rfl) b.rows (fun _ hr => hr))
      have hval : clone b = (b', false) := by
        unfold clone; simp only [ha, if_true]; exact hrun
      rw [hval] at hrect
      simp only [Model.stepOp, hval, Bool.false_eq_true, if_false]
      have halpha : (newAlign b.alphabet).alphabet = b.alphabet := by
        have := h.alpha ha
        simp only [newAlign]
        split
        · rename_i hb; exact absurd (by simpa using hb) this
        · rfl
      have k4' : b'.alphabet = b.alphabet := k4.trans halpha
      have k5' : b'.isAlign = b.isAlign := k5.trans ha.symm
      have k3' : b'.policy = b.policy := k3
      refine ⟨?_, trivial, good_of_gi k1 hrect (h.alpha.congr k5' k4')⟩
      simp only [abs, k2, k3', k4', k5']
    · have ha' : b.isAlign = false := by simpa using ha
      obtain ⟨b', hrun, -, k1, k2, k3, k4, k5⟩ := rebuild_into { newBag b.alphabet with policy := b.policy } rfl rfl
        (pairs b) hnd2 (by intro hh; cases hh)
      have hval : clone b = (b', false) := by
        unfold clone; simp only [ha', Bool.false_eq_true, if_false]; exact hrun
      rw [hval] at hrect
      simp only [Model.stepOp, hval, Bool.false_eq_true, if_false]
      have k4' : b'.alphabet = b.alphabet := k4
      have k5' : b'.isAlign = b.isAlign := k5.trans ha'.symm
      have k3' : b'.policy = b.policy := k3
      refine ⟨?_, trivial, good_of_gi k1 hrect (h.alpha.congr k5' k4')⟩
      simp only [abs, k2, k3', k4', k5']
  · simp at e

/-! ### `RemoveCharacterSeqs` / `RemoveGapSeqs` -/

/-- the removal test on one sequence -/
def removedS (alphabet : Nat) (c : Byte) (num den : Nat) (ic ig iN : Bool) (s : Seq) : Bool :=
  let all : Byte := if alphabet == AMINOACIDS then 88 else 78
  let allc := toLower all
  let nb := (s.filter fun x => x == c || (ic && toLower x == toLower c)).length
  let total := (s.filter fun x => !(ig && x == GAP) && !(iN && (x == all || x == allc))).length
  cutoffTest num den nb total

theorem spec_rmSeqs_eq (s : SBag) (c : Byte) (num den : Nat) (ic ig iN : Bool) :
    Spec.stepOp s (.rmSeqs c num den ic ig iN) =
      (if !s.isAlign then (some s, "na") else
       if !s.names.Nodup then (none, "ok[]") else
       (some { s with rows := s.rows.filter fun r => !removedS s.alphabet c num den ic ig iN r.2 },
        "ok[" ++ toString (s.rows.length - (s.rows.filter fun r => !removedS s.alphabet c num den ic ig iN r.2).length) ++ "]")) := rfl

theorem model_rmSeqs_eq (b : Bag) (c : Byte) (num den : Nat) (ic ig iN : Bool) :
    removeCharacterSeqs (cutoffTest num den) c ic ig iN b =
      (if b.rows.any (fun r => r.seq.length < b.length.toNat) then none else
       some (Model.addAllIgnore (clear b)
          ((b.rows.filter fun r => !removedS b.alphabet c num den ic ig iN (r.seq.take b.length.toNat)).map fun r => (r.name, r.seq)),
         b.rows.length - (b.rows.filter fun r => !removedS b.alphabet c num den ic ig iN (r.seq.take b.length.toNat)).length)) := rfl

theorem ref_rmSeqs {b : Bag} (h : Good b) (c : Byte) (num den : Nat) (ic ig iN : Bool) :
    Refines b (.rmSeqs c num den ic ig iN) := by
  intro s' st e
  rw [spec_rmSeqs_eq] at e
  simp only [Model.stepOp, abs_isAlign] at e ⊢
  by_cases ha : b.isAlign = true
  · simp only [ha, Bool.not_true, Bool.false_eq_true, if_false] at e ⊢
    split at e
    · simp at e
    · rename_i hnd
      have hnd' : (b.rows.map (·.name)).Nodup := by
        have : (abs b).names.Nodup := by simpa using hnd
        exact nodup_names_of_abs this
      simp only [Prod.mk.injEq, Option.some.injEq] at e
      obtain ⟨e1, e2⟩ := e
      subst e1 e2
      -- no row is shorter than the cached length; `take` is the identity
      have hshort : ¬ (b.rows.any fun r => decide (r.seq.length < b.length.toNat)) = true := by
        simp only [List.any_eq_true, decide_eq_true_eq, not_exists, not_and, Nat.not_lt]
        intro r hr
        have := h.rect.rows_len ha r hr
        omega
      have hfilt : (b.rows.filter fun r => !removedS b.alphabet c num den ic ig iN (r.seq.take b.length.toNat)) =
          b.rows.filter fun r => !removedS b.alphabet c num den ic ig iN r.seq := by
        apply List.filter_congr
        intro r hr
        have := h.rect.rows_len ha r hr
        rw [List.take_of_length_le (by omega)]
      have hval := model_rmSeqs_eq b c num den ic ig iN
      rw [if_neg hshort, hfilt] at hval
      have hk : ∀ r ∈ (b.rows.filter fun r => !removedS b.alphabet c num den ic ig iN r.seq), r ∈ b.rows :=
        fun r hr => (List.mem_filter.mp hr).1
      obtain ⟨b', -, hrun, k1, k2, k3, k4, k5⟩ := rebuild_into (clear b) rfl rfl
        ((b.rows.filter fun r => !removedS b.alphabet c num den ic ig iN r.seq).map fun r => (r.name, r.seq))
        (by rw [names_pairs_map]; exact (List.filter_sublist.map _).nodup hnd')
        (by
          have : (clear b).isAlign = true := ha
          rw [this]
          exact lenOK_of_rect h.rect ha (Or.inl (by simp [clear, ha])) _ hk)
      rw [hrun] at hval
      have hrect := rect_removeCharacterSeqs _ _ _ _ _ _ _ hval
      rw [hval]
      have k3' : b'.policy = b.policy := k3
      have k4' : b'.alphabet = b.alphabet := k4
      have k5' : b'.isAlign = b.isAlign := k5
      refine ⟨?_, ?_, good_of_gi k1 hrect (h.alpha.congr k5' k4')⟩
      · have k2' : List.map (fun r => (r.name, r.seq)) b'.rows = _ := k2
        simp only [abs, k2', k3', k4', k5', pairs, List.filter_map, Function.comp_def, ha]
      · simp [abs, pairs, List.filter_map, Function.comp_def]
  · have ha' : b.isAlign = false := by simpa using ha
    simp only [ha', Bool.not_false, if_true, Prod.mk.injEq, Option.some.injEq] at e ⊢
    exact ⟨e.1, e.2, h⟩

end Gv.Proofs.BagAbs
