import Gv.Proofs.PhaseAlign
/-!
Helper development for C16: what `alignAgainstRefsNT` (`Gv.Model.PhaseAlign.phaseNT`) returns for one reference
and the forward strand when the sequence holds the reference verbatim exactly once (`phaseNT_verbatim`), from
`alignATG_verbatim`.
-/
namespace Gv.Proofs.PhaseAlignNT
open Gv Gv.Model Gv.Model.SW Gv.Model.Phase Gv.Model.PhaseAlign Gv.Spec.SW Gv.Proofs.PhaseAlignSpec
  Gv.Proofs.PhaseAlign Gv.Props.C09

theorem aligner_gaps (c : NTCfg) (orf tmp : Seq) :
    (c.aligner orf tmp).gapopen = c.gapopen ∧ (c.aligner orf tmp).gapextend = c.gapextend := by
  unfold NTCfg.aligner configure
  cases c.scores <;> simp [Aligner.setScore, Aligner.setGapOpenScore, Aligner.setGapExtendScore]

theorem aligner_mm (c : NTCfg) (orf tmp : Seq) (mt mm : Int) (h : c.scores = some (mt, mm)) :
    (c.aligner orf tmp).submatrix = none ∧ (c.aligner orf tmp).matchS = mt ∧ (c.aligner orf tmp).mismatch = mm := by
  unfold NTCfg.aligner configure
  rw [h]; simp [Aligner.setScore, Aligner.setGapOpenScore, Aligner.setGapExtendScore]

/-- with `SetAlignScores(match, mismatch)`, `0 < match`, `mismatch < match`, the scheme is dominant on all inputs -/
theorem dom_of_scores (c : NTCfg) (orf tmp : Seq) (mt mm : Int) (h : c.scores = some (mt, mm))
    (hpos : 0 < mt) (hlt : mm < mt) (s t : Seq) : Dom (schemeOf (c.aligner orf tmp)) s t := by
  obtain ⟨h1, h2, h3⟩ := aligner_mm c orf tmp mt mm h
  rw [schemeOf_mm _ h1, h2, h3]
  exact dom_of_match_mismatch mt mm _ _ hpos hlt s t

/-- … and it does not depend on the strand being aligned -/
theorem scheme_of_scores_eq (c : NTCfg) (orf t1 t2 : Seq) (mt mm : Int) (h : c.scores = some (mt, mm)) :
    schemeOf (c.aligner orf t1) = schemeOf (c.aligner orf t2) := by
  obtain ⟨a1, a2, a3⟩ := aligner_mm c orf t1 mt mm h
  obtain ⟨b1, b2, b3⟩ := aligner_mm c orf t2 mt mm h
  obtain ⟨g1, g2⟩ := aligner_gaps c orf t1
  obtain ⟨g3, g4⟩ := aligner_gaps c orf t2
  rw [schemeOf_mm _ a1, schemeOf_mm _ b1, a2, a3, b2, b3, g1, g2, g3, g4]

theorem slice_occurrence (pre orf post : Seq) (hne : orf ≠ []) :
    Phase.slice (pre ++ orf ++ post) pre.length (pre.length + orf.length - 1 + 1) = orf ∧
    Phase.slice (pre ++ orf ++ post) pre.length (pre ++ orf ++ post).length = orf ++ post := by
  unfold Phase.slice
  rw [List.append_assoc, List.drop_left]
  constructor
  · have h : 0 < orf.length := List.length_pos_iff.mpr hne
    have : pre.length + orf.length - 1 + 1 - pre.length = orf.length := by omega
    rw [this, List.take_left]
  · apply List.take_of_length_le
    simp

/-- **`alignAgainstRefsNT` on a verbatim occurrence** (one reference, repaired aligner; forward strand, or both
strands when the scheme is dominant on the reverse-complemented copy too): unless an alignment error is
reported, the result is trimmed exactly at the occurrence — reported position `|pre|`, trimmed nucleotides
`orf ++ post` (`orf` with cut-end), frame 0, forward strand (a tie with the other strand keeps the forward hit). -/
theorem phaseNT_verbatim (c : NTCfg) (code : List (List Byte × Byte)) (orf pre post : Seq)
    (hfix : c.fixed = true)
    (hgap : c.gapopen ≤ c.gapextend ∧ c.gapextend < 0) (hne : orf ≠ []) (hng : GAP ∉ orf)
    (hdom : Dom (schemeOf (c.aligner orf (pre ++ orf ++ post))) orf (pre ++ orf ++ post))
    (honce : ∀ k, orf <+: (pre ++ orf ++ post).drop k → k = pre.length)
    (hrev : c.reverse = true →
      Dom (schemeOf (c.aligner orf (revcompIgnoringError (pre ++ orf ++ post)))) orf
          (revcompIgnoringError (pre ++ orf ++ post)) ∧
        W (schemeOf (c.aligner orf (revcompIgnoringError (pre ++ orf ++ post)))) orf
          ≤ W (schemeOf (c.aligner orf (pre ++ orf ++ post))) orf) :
    phaseNT c code [orf] (pre ++ orf ++ post) = NTOut.err ∨
    ∃ p, phaseNT c code [orf] (pre ++ orf ++ post)
        = NTOut.ok p ⟨false, 0, pre.length, pre.length + orf.length - 1⟩ ∧
      p.position = pre.length ∧ p.nt = (if c.cutend then orf else orf ++ post) ∧ p.codon = p.nt := by
  obtain ⟨g1, g2⟩ := aligner_gaps c orf (pre ++ orf ++ post)
  have hA := alignATG_verbatim (c.aligner orf (pre ++ orf ++ post)) orf pre post (by rw [g1, g2]; exact hgap)
    hne hdom honce
  have hW : 0 < W (schemeOf (c.aligner orf (pre ++ orf ++ post))) orf :=
    W_pos _ orf hne (fun x hx => (hdom x hx).1)
  have hm : 0 < orf.length := List.length_pos_iff.mpr hne
  -- the aligned row of the sequence is the reference: not all gaps, no leading gap
  have hall : orf.all (· == GAP) = false := by
    cases orf with
    | nil => exact absurd rfl hne
    | cons x t =>
      have : x ≠ GAP := fun e => hng (e ▸ List.mem_cons_self)
      simp [this]
  have htw : (orf.takeWhile (· == GAP)).length = 0 := by
    cases orf with
    | nil => rfl
    | cons x t =>
      have : x ≠ GAP := fun e => hng (e ▸ List.mem_cons_self)
      have hx : (x == GAP) = false := by simp [this]
      simp [List.takeWhile, hx]
  have e1 : ((pre.length : Int)).toNat = pre.length := by omega
  have e2 : ((pre.length : Int) + orf.length - 1).toNat = pre.length + orf.length - 1 := by omega
  -- the forward pass
  have hstep1 : ntStep c (pre ++ orf ++ post) orf {} false = NTStep.err ∨
      ntStep c (pre ++ orf ++ post) orf {} false = NTStep.go
        ⟨W (schemeOf (c.aligner orf (pre ++ orf ++ post))) orf,
         some ⟨false, 0, pre.length, pre.length + orf.length - 1⟩⟩ := by
    simp only [ntStep, hfix, Bool.false_eq_true, if_false]
    rcases hA with hA | hA
    · left; rw [hA]
    · right
      rw [hA]
      simp only []
      rw [if_pos (by show W _ orf > (0 : Int); exact hW), hall]
      simp only [Bool.false_eq_true, if_false, htw, e1, e2]
  -- the pass over the reverse-complemented copy cannot replace it
  have hstep2 : c.reverse = true → ∀ b, b.score = W (schemeOf (c.aligner orf (pre ++ orf ++ post))) orf →
      ntStep c (pre ++ orf ++ post) orf b true = NTStep.err ∨
      ntStep c (pre ++ orf ++ post) orf b true = NTStep.go b := by
    intro hr b hb
    obtain ⟨hd', hw'⟩ := hrev hr
    obtain ⟨g1', g2'⟩ := aligner_gaps c orf (revcompIgnoringError (pre ++ orf ++ post))
    have hB := alignATG_score_le (c.aligner orf (revcompIgnoringError (pre ++ orf ++ post))) orf
      (revcompIgnoringError (pre ++ orf ++ post)) (by rw [g1', g2']; exact hgap) hne hd'
    simp only [ntStep, hfix, if_true]
    rcases hB with hB | ⟨r, hB, hs⟩
    · left; rw [hB]
    · right
      rw [hB]
      simp only []
      rw [if_neg (by omega)]
  obtain ⟨s1, s2⟩ := slice_occurrence pre orf post hne
  have hlen : (pre ++ orf ++ post).length = pre.length + orf.length + post.length := by simp; omega
  -- what the selected hit is turned into
  have hfinal : ∀ b : NTBest, b.hit = some ⟨false, 0, pre.length, pre.length + orf.length - 1⟩ →
      ∃ p, (match b.hit with
        | none => NTOut.removed (noHit (pre ++ orf ++ post))
        | some h =>
          let tmp := strandOf (pre ++ orf ++ post) h
          let bestend := if c.cutend then h.seqend + 1 else tmp.length
          if h.seqstart > bestend then NTOut.panic
          else NTOut.ok (assembleNT code tmp h c.cutend) h)
        = NTOut.ok p ⟨false, 0, pre.length, pre.length + orf.length - 1⟩ ∧
      p.position = pre.length ∧ p.nt = (if c.cutend then orf else orf ++ post) ∧ p.codon = p.nt := by
    intro b hb
    rw [hb]
    simp only [strandOf, Bool.false_eq_true, if_false]
    cases hc : c.cutend with
    | true =>
      simp only [if_true]
      rw [if_neg (by simp <;> omega)]
      refine ⟨_, rfl, rfl, ?_, ?_⟩
      · simp only [assembleNT, if_true, s1]
      · simp only [assembleNT, if_true, Nat.zero_mod, Nat.sub_zero, Nat.mod_self, Nat.add_zero]
    | false =>
      simp only [Bool.false_eq_true, if_false]
      rw [if_neg (by simp <;> omega)]
      refine ⟨_, rfl, rfl, ?_, ?_⟩
      · simp only [assembleNT, Bool.false_eq_true, if_false, s2]
      · simp only [assembleNT, Bool.false_eq_true, if_false, Nat.zero_mod, Nat.sub_zero, Nat.mod_self, Nat.add_zero]
  generalize hb0 : (⟨W (schemeOf (c.aligner orf (pre ++ orf ++ post))) orf,
      some ⟨false, 0, pre.length, pre.length + orf.length - 1⟩⟩ : NTBest) = b0 at hstep1
  have hb0h : b0.hit = some ⟨false, 0, pre.length, pre.length + orf.length - 1⟩ := by rw [← hb0]
  have hb0s : b0.score = W (schemeOf (c.aligner orf (pre ++ orf ++ post))) orf := by rw [← hb0]
  simp only [phaseNT, ntSelect]
  rcases hstep1 with h1 | h1
  · left; rw [h1]
  · rw [h1]
    simp only []
    cases hr : c.reverse with
    | false =>
      right
      simp only [Bool.false_eq_true, if_false]
      exact hfinal b0 hb0h
    | true =>
      simp only [if_true]
      rcases hstep2 hr b0 hb0s with h2 | h2
      · left; rw [h2]
      · right
        rw [h2]
        exact hfinal b0 hb0h

/-! ### the default scoring of the phaser on A/C/G/T sequences: DNAfull is dominant there -/

set_option maxRecDepth 100000 in
def dnaEntry (x y : Byte) : Int :=
  (Gen.dnafull_subst_matrix.getD ((lookup (toUpper x) Gen.dna_to_matrix_pos).getD 0) []).getD
    ((lookup (toUpper y) Gen.dna_to_matrix_pos).getD 0) 0

theorem schemeOf_dnafull (a : Aligner) (hm : a.submatrix = some Gen.dnafull_subst_matrix)
    (hc : a.chartopos = some Gen.dna_to_matrix_pos) (x y : Byte) :
    (schemeOf a).sub x y = a.den * dnaEntry x y := by
  simp [schemeOf, matchScore, hm, idxOf, hc, dnaEntry]

set_option maxRecDepth 100000 in
theorem dnaEntry_acgt : ∀ x ∈ [65, 67, 71, 84], ∀ y ∈ ([65, 67, 71, 84] : List Byte),
    dnaEntry x x = 5 ∧ (x ≠ y → dnaEntry x y = -4) := by decide

theorem dom_dnafull (a : Aligner) (hden : 0 < a.den) (hm : a.submatrix = some Gen.dnafull_subst_matrix)
    (hc : a.chartopos = some Gen.dna_to_matrix_pos) (s t : Seq)
    (hs : ∀ x ∈ s, x ∈ ([65, 67, 71, 84] : List Byte)) (ht : ∀ y ∈ t, y ∈ ([65, 67, 71, 84] : List Byte)) :
    Dom (schemeOf a) s t := by
  intro x hx
  have hxx := (dnaEntry_acgt x (hs x hx) x (hs x hx)).1
  rw [schemeOf_dnafull a hm hc, hxx]
  refine ⟨by omega, fun y hy => ?_⟩
  rw [schemeOf_dnafull a hm hc]
  by_cases e : x = y
  · subst e; rw [hxx]; exact ⟨Int.le_refl _, fun _ => rfl⟩
  · rw [(dnaEntry_acgt x (hs x hx) y (ht y hy)).2 e]
    exact ⟨by omega, fun h => by omega⟩

set_option maxRecDepth 100000 in
theorem inMatrixAlphabet_acgt (s : Seq) (hs : ∀ x ∈ s, x ∈ ([65, 67, 71, 84] : List Byte)) :
    inMatrixAlphabet Gen.dna_to_matrix_pos s = true := by
  have key : ∀ x ∈ ([65, 67, 71, 84] : List Byte), (lookup (toUpper x) Gen.dna_to_matrix_pos).isSome = true := by decide
  simp only [inMatrixAlphabet, List.all_eq_true]
  exact fun x hx => key x (hs x hx)

theorem aligner_default_dna (c : NTCfg) (hsc : c.scores = none) (ha : c.alphaFixed = true) (orf tmp : Seq)
    (h1 : ∀ x ∈ orf, x ∈ ([65, 67, 71, 84] : List Byte)) (h2 : ∀ y ∈ tmp, y ∈ ([65, 67, 71, 84] : List Byte)) :
    (c.aligner orf tmp).submatrix = some Gen.dnafull_subst_matrix ∧
    (c.aligner orf tmp).chartopos = some Gen.dna_to_matrix_pos ∧ (c.aligner orf tmp).den = c.den := by
  unfold NTCfg.aligner configure newPwAligner
  rw [hsc, ha]
  simp [inMatrixAlphabet_acgt orf h1, inMatrixAlphabet_acgt tmp h2, Aligner.setGapOpenScore, Aligner.setGapExtendScore]

/-! ### the premise "occurs exactly once" in executable form -/

/-- if the executable search `occurrences` finds the single offset `p`, the reference is a prefix of no other
suffix of the sequence -/
theorem once_of_occurrences (orf seq : Seq) (p : Nat) (hne : orf ≠ []) (h : occurrences orf seq = [p]) :
    ∀ k, orf <+: seq.drop k → k = p := by
  intro k hk
  have hm : 0 < orf.length := List.length_pos_iff.mpr hne
  obtain ⟨r, hr⟩ := hk
  have hlen : orf.length + r.length = seq.length - k := by
    have := congrArg List.length hr; simpa using this
  have hkl : k + orf.length ≤ seq.length := by omega
  have hmem : k ∈ occurrences orf seq := by
    simp only [occurrences, List.mem_filter, List.mem_range, occursAt, Bool.and_eq_true, decide_eq_true_eq, beq_iff_eq]
    refine ⟨by omega, hkl, ?_⟩
    simp only [Phase.slice, Nat.add_sub_cancel_left, ← hr, List.take_left]
  rw [h] at hmem
  simpa using hmem

end Gv.Proofs.PhaseAlignNT
