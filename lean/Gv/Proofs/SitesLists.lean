import Gv.Spec.Sites
/-! Generic list lemmas used by the C04 proofs: splitting `List.range`, filtered ranges, windows. -/
namespace Gv.Proofs.SitesLists
open Gv Gv.Model Gv.Spec.Sites

/-- `[0,n)` is `[0,a)`, `[a,a+m)`, `[a+m,n)` -/
theorem range_split3 (n a m : Nat) (h : a + m ≤ n) :
    List.range n = List.range' 0 a ++ (List.range' a m ++ List.range' (a + m) (n - (a + m))) := by
  rw [List.range_eq_range']
  have e1 : List.range' a m ++ List.range' (a + m) (n - (a + m)) = List.range' a (n - a) := by
    have := List.range'_append_1 (s := a) (m := m) (n := n - (a + m))
    rw [this]; congr 1; omega
  rw [e1]
  have := List.range'_append_1 (s := 0) (m := a) (n := n - a)
  simp only [Nat.zero_add] at this
  rw [this]; congr 1; omega

/-- keeping the positions of `[0,n)` that lie inside `[a,a+m)` -/
theorem filter_range_inside (n a m : Nat) (h : a + m ≤ n) (p : Nat → Bool)
    (hp : ∀ k, k < n → (p k = true ↔ a ≤ k ∧ k < a + m)) :
    (List.range n).filter p = List.range' a m := by
  rw [range_split3 n a m h, List.filter_append, List.filter_append]
  have e1 : (List.range' 0 a).filter p = [] := by
    rw [List.filter_eq_nil_iff]; intro k hk
    simp only [List.mem_range'_1] at hk
    rw [hp k (by omega)]; omega
  have e2 : (List.range' a m).filter p = List.range' a m := by
    rw [List.filter_eq_self]; intro k hk
    simp only [List.mem_range'_1] at hk
    rw [hp k (by omega)]; omega
  have e3 : (List.range' (a + m) (n - (a + m))).filter p = [] := by
    rw [List.filter_eq_nil_iff]; intro k hk
    simp only [List.mem_range'_1] at hk
    rw [hp k (by omega)]; omega
  rw [e1, e2, e3]; simp

/-- keeping the positions of `[0,n)` that lie outside `[a,a+m)` -/
theorem filter_range_outside (n a m : Nat) (h : a + m ≤ n) (p : Nat → Bool)
    (hp : ∀ k, k < n → (p k = true ↔ ¬ (a ≤ k ∧ k < a + m))) :
    (List.range n).filter p = List.range' 0 a ++ List.range' (a + m) (n - (a + m)) := by
  rw [range_split3 n a m h, List.filter_append, List.filter_append]
  have e1 : (List.range' 0 a).filter p = List.range' 0 a := by
    rw [List.filter_eq_self]; intro k hk
    simp only [List.mem_range'_1] at hk
    rw [hp k (by omega)]; omega
  have e2 : (List.range' a m).filter p = [] := by
    rw [List.filter_eq_nil_iff]; intro k hk
    simp only [List.mem_range'_1] at hk
    rw [hp k (by omega)]; omega
  have e3 : (List.range' (a + m) (n - (a + m))).filter p = List.range' (a + m) (n - (a + m)) := by
    rw [List.filter_eq_self]; intro k hk
    simp only [List.mem_range'_1] at hk
    rw [hp k (by omega)]; omega
  rw [e1, e2, e3]; simp

theorem mem_window (st ln i : Int) : i ∈ window st ln ↔ st ≤ i ∧ i < st + ln := by
  unfold window
  simp only [List.mem_map, List.mem_range]
  constructor
  · rintro ⟨k, hk, rfl⟩; omega
  · rintro ⟨h1, h2⟩; exact ⟨(i - st).toNat, by omega, by omega⟩

theorem window_eq_range' (st ln : Nat) :
    window (st : Int) (ln : Int) = (List.range' st ln).map fun (k : Nat) => (k : Int) := by
  unfold window
  rw [List.range_eq_range', List.range'_eq_map_range (s := st)]
  simp [List.map_map, Function.comp_def, List.range_eq_range']

/-- the position with a given count of earlier selected positions, inside a filtered range -/
theorem filter_range_index (p : Nat → Bool) : ∀ (n j : Nat), j < n → p j = true →
    ((List.range n).filter p)[((List.range j).filter p).length]? = some j := by
  intro n
  induction n with
  | zero => intro j h; omega
  | succ n ih =>
    intro j hj hp
    rw [List.range_succ, List.filter_append]
    by_cases e : j = n
    · subst e
      rw [List.getElem?_append_right (Nat.le_refl _)]
      simp [hp]
    · have := ih j (by omega) hp
      have hlt := (List.getElem?_eq_some_iff.mp this).1
      rw [List.getElem?_append_left hlt]; exact this

/-- a list is the list of its entries -/
theorem map_getD_range {α} (l : List α) (d : α) : (List.range l.length).map (fun j => l.getD j d) = l := by
  apply List.ext_getElem
  · simp
  · intro i h1 h2
    simp [List.getD_eq_getElem?_getD, List.getElem?_eq_getElem h2]

end Gv.Proofs.SitesLists
