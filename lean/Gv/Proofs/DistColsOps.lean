import Gv.Proofs.DistColsLift
import Std.Data.String.ToInt
/-!
Helper development for property C08, first half — Part F: the concrete operations of the property
(column permutation by an index list, `Concat` with itself `k` times, multiplying the weights) and
what they do to the list of weighted columns.
-/
namespace Gv.Proofs.DistCols
open Gv Gv.Model.Dist

/-! ### generic list facts -/

theorem getD_map_lt {β γ : Type} (f : β → γ) (l : List β) (q : Nat) (d : γ) (d0 : β) (h : q < l.length) :
    (l.map f).getD q d = f (l.getD q d0) := by
  rw [List.getD_eq_getElem?_getD, List.getD_eq_getElem?_getD, List.getElem?_map, List.getElem?_eq_getElem h]
  rfl

theorem range_map_getD {β γ : Type} (f : β → γ) (l : List β) (d : β) :
    (List.range l.length).map (fun q => f (l.getD q d)) = l.map f := by
  induction l with
  | nil => rfl
  | cons a t ih =>
    rw [List.length_cons, List.range_succ_eq_map, List.map_cons, List.map_map, List.map_cons]
    congr 1

theorem getD_append_left {β : Type} (l₁ l₂ : List β) (q : Nat) (d : β) (h : q < l₁.length) :
    (l₁ ++ l₂).getD q d = l₁.getD q d := by
  rw [List.getD_eq_getElem?_getD, List.getD_eq_getElem?_getD, List.getElem?_append_left h]

theorem getD_append_right' {β : Type} (l₁ l₂ : List β) (j : Nat) (d : β) :
    (l₁ ++ l₂).getD (l₁.length + j) d = l₂.getD j d := by
  rw [List.getD_eq_getElem?_getD, List.getD_eq_getElem?_getD, List.getElem?_append_right (by omega)]
  congr 2
  omega

/-! ### column permutation -/

/-- the entries of `r` at the indices `p`, in that order -/
def pickCols {β : Type} (d : β) (p : List Nat) (r : List β) : List β := p.map (r.getD · d)

/-- `SelectSites`-like: every row is read at the indices `p` -/
def permuteCols (p : List Nat) (rows : List Seq) : List Seq := rows.map (pickCols 0 p)

def permuteWeights (p : List Nat) (ws : Option (List ℝ)) : Option (List ℝ) := ws.map (pickCols 1 p)

theorem alnLen_permuteCols (p : List Nat) (rows : List Seq) (hp : p.Perm (List.range (alnLen rows))) :
    alnLen (permuteCols p rows) = p.length := by
  cases rows with
  | nil =>
    have : p = [] := by simpa [alnLen] using hp
    subst this; rfl
  | cons r t => simp [alnLen, permuteCols, pickCols]

theorem colsOf_permuteCols (p : List Nat) (rows : List Seq) (ws : Option (List ℝ))
    (hp : p.Perm (List.range (alnLen rows))) :
    colsOf (permuteCols p rows) (permuteWeights p ws)
      = p.map fun pos => (rows.map (·.getD pos 0), weightAt ws pos) := by
  unfold colsOf
  rw [alnLen_permuteCols p rows hp, ← range_map_getD (fun pos => (rows.map (·.getD pos 0), weightAt ws pos)) p 0]
  apply List.map_congr_left
  intro q hq
  have hq' : q < p.length := List.mem_range.mp hq
  congr 1
  · unfold permuteCols
    rw [List.map_map]
    apply List.map_congr_left
    intro r _
    exact getD_map_lt _ p q 0 0 hq'
  · cases ws with
    | none => rfl
    | some v => exact getD_map_lt _ p q 1 0 hq'

theorem colsOf_permuteCols_perm (p : List Nat) (rows : List Seq) (ws : Option (List ℝ))
    (hp : p.Perm (List.range (alnLen rows))) :
    (colsOf (permuteCols p rows) (permuteWeights p ws)).Perm (colsOf rows ws) := by
  rw [colsOf_permuteCols p rows ws hp]
  exact hp.map _

theorem wf_permuteCols (p : List Nat) (rows : List Seq) (ws : Option (List ℝ))
    (hp : p.Perm (List.range (alnLen rows))) : WF (permuteCols p rows) (permuteWeights p ws) := by
  constructor
  · intro r hr
    rw [alnLen_permuteCols p rows hp]
    obtain ⟨r0, _, rfl⟩ := List.mem_map.mp hr
    simp [pickCols]
  · intro v hv
    rw [alnLen_permuteCols p rows hp]
    cases ws with
    | none => cases hv
    | some v0 =>
      simp only [permuteWeights, Option.map_some, Option.some.injEq] at hv
      subst hv
      simp [pickCols]

/-- permutation-equivalent column lists are `ColEquiv 1` -/
theorem colEquiv_of_perm {cols' cols : List Col} (h : cols'.Perm cols) : ColEquiv 1 cols' cols := by
  constructor
  · intro x
    exact (h.map Prod.fst).mem_iff
  · intro x
    rw [one_mul]
    exact colWeight_perm x h

/-! ### `Concat` and replication -/

/-- `al.Concat(al2)` on the rows in order -/
def concatRows (rows1 rows2 : List Seq) : List Seq := List.zipWith (· ++ ·) rows1 rows2

/-- the alignment concatenated with itself: `k` copies side by side -/
def replicateCols : Nat → List Seq → List Seq
  | 0, rows => rows.map fun _ => []
  | k + 1, rows => concatRows (replicateCols k rows) rows

theorem concat_getD_left (L1 q : Nat) (rows1 rows2 : List Seq) (hlen : rows1.length = rows2.length)
    (hr : ∀ r ∈ rows1, r.length = L1) (hq : q < L1) :
    (concatRows rows1 rows2).map (·.getD q 0) = rows1.map (·.getD q 0) := by
  unfold concatRows
  induction rows1 generalizing rows2 with
  | nil => simp
  | cons a t ih =>
    cases rows2 with
    | nil => simp at hlen
    | cons b t2 =>
      simp only [List.zipWith_cons_cons, List.map_cons]
      rw [ih t2 (by simpa using hlen) (fun r h => hr r (by simp [h]))]
      rw [getD_append_left a b q 0 (by rw [hr a (by simp)]; exact hq)]

theorem concat_getD_right (L1 j : Nat) (rows1 rows2 : List Seq) (hlen : rows1.length = rows2.length)
    (hr : ∀ r ∈ rows1, r.length = L1) :
    (concatRows rows1 rows2).map (·.getD (L1 + j) 0) = rows2.map (·.getD j 0) := by
  unfold concatRows
  induction rows1 generalizing rows2 with
  | nil =>
    cases rows2 with
    | nil => simp
    | cons b t2 => simp at hlen
  | cons a t ih =>
    cases rows2 with
    | nil => simp at hlen
    | cons b t2 =>
      simp only [List.zipWith_cons_cons, List.map_cons]
      rw [ih t2 (by simpa using hlen) (fun r h => hr r (by simp [h]))]
      have := getD_append_right' a b j 0
      rw [hr a (by simp)] at this
      rw [this]

theorem alnLen_concat (rows1 rows2 : List Seq) (hlen : rows1.length = rows2.length) :
    alnLen (concatRows rows1 rows2) = alnLen rows1 + alnLen rows2 := by
  unfold concatRows alnLen
  cases rows1 with
  | nil =>
    cases rows2 with
    | nil => rfl
    | cons b t2 => simp at hlen
  | cons a t =>
    cases rows2 with
    | nil => simp at hlen
    | cons b t2 => simp

/-- the columns of a concatenation (no weights) are the columns of the first alignment followed by
those of the second -/
theorem colsOf_concat (rows1 rows2 : List Seq) (hlen : rows1.length = rows2.length)
    (hr : ∀ r ∈ rows1, r.length = alnLen rows1) :
    colsOf (concatRows rows1 rows2) none = colsOf rows1 none ++ colsOf rows2 none := by
  unfold colsOf
  rw [alnLen_concat rows1 rows2 hlen, List.range_add, List.map_append, List.map_map]
  congr 1
  · apply List.map_congr_left
    intro q hq
    rw [concat_getD_left (alnLen rows1) q rows1 rows2 hlen hr (List.mem_range.mp hq)]
  · apply List.map_congr_left
    intro j _
    simp only [Function.comp]
    rw [concat_getD_right (alnLen rows1) j rows1 rows2 hlen hr]
    rfl

theorem length_replicateCols (k : Nat) (rows : List Seq) : (replicateCols k rows).length = rows.length := by
  induction k with
  | zero => simp [replicateCols]
  | succ k ih => simp [replicateCols, concatRows, ih]

theorem rect_concat (L1 L2 : Nat) (rows1 rows2 : List Seq) (h1 : ∀ r ∈ rows1, r.length = L1)
    (h2 : ∀ r ∈ rows2, r.length = L2) : ∀ r ∈ concatRows rows1 rows2, r.length = L1 + L2 := by
  unfold concatRows
  induction rows1 generalizing rows2 with
  | nil => simp
  | cons a t ih =>
    cases rows2 with
    | nil => simp
    | cons b t2 =>
      intro r hr
      simp only [List.zipWith_cons_cons, List.mem_cons] at hr
      rcases hr with rfl | hr
      · rw [List.length_append, h1 a (by simp), h2 b (by simp)]
      · exact ih t2 (fun r h => h1 r (by simp [h])) (fun r h => h2 r (by simp [h])) r hr

theorem rect_replicateCols (k : Nat) (rows : List Seq) (hr : ∀ r ∈ rows, r.length = alnLen rows) :
    ∀ r ∈ replicateCols k rows, r.length = k * alnLen rows := by
  induction k with
  | zero =>
    intro r h
    simp only [replicateCols, List.mem_map] at h
    obtain ⟨_, _, rfl⟩ := h
    simp
  | succ k ih =>
    intro r h
    have := rect_concat (k * alnLen rows) (alnLen rows) (replicateCols k rows) rows ih hr r h
    rw [this]; ring

theorem alnLen_replicateCols (k : Nat) (rows : List Seq) (hr : ∀ r ∈ rows, r.length = alnLen rows) :
    alnLen (replicateCols k rows) = k * alnLen rows := by
  cases hrows : rows with
  | nil =>
    subst hrows
    have : replicateCols k ([] : List Seq) = [] := by
      have := length_replicateCols k ([] : List Seq)
      simpa using this
    rw [this]; simp [alnLen]
  | cons a t =>
    have hl := length_replicateCols k rows
    cases hrep : replicateCols k rows with
    | nil => rw [hrep, hrows] at hl; simp at hl
    | cons b t2 =>
      have := rect_replicateCols k rows hr b (by rw [hrep]; simp)
      rw [← hrows, ← this]
      simp [alnLen, hrep]

theorem colsOf_replicateCols (k : Nat) (rows : List Seq) (hr : ∀ r ∈ rows, r.length = alnLen rows) :
    colsOf (replicateCols k rows) none = (List.replicate k (colsOf rows none)).flatten := by
  induction k with
  | zero =>
    have : alnLen (replicateCols 0 rows) = 0 := by rw [alnLen_replicateCols 0 rows hr]; simp
    simp [colsOf, this]
  | succ k ih =>
    rw [List.replicate_succ', List.flatten_append, ← ih]
    simp only [List.flatten_cons, List.flatten_nil, List.append_nil]
    show colsOf (concatRows (replicateCols k rows) rows) none = _
    apply colsOf_concat _ _ (length_replicateCols k rows)
    intro r h
    rw [alnLen_replicateCols k rows hr]
    exact rect_replicateCols k rows hr r h

theorem wf_replicateCols (k : Nat) (rows : List Seq) (hr : ∀ r ∈ rows, r.length = alnLen rows) :
    WF (replicateCols k rows) none := by
  constructor
  · intro r h
    rw [alnLen_replicateCols k rows hr]
    exact rect_replicateCols k rows hr r h
  · intro v hv; cases hv

theorem colWeight_flatten_replicate (x : List Byte) (k : Nat) (cols : List Col) :
    colWeight x (List.replicate k cols).flatten = (k : ℝ) * colWeight x cols := by
  induction k with
  | zero => simp [colWeight]
  | succ k ih =>
    rw [List.replicate_succ, List.flatten_cons, colWeight_append, ih]
    push_cast
    ring

theorem mem_flatten_replicate {β : Type} (x : β) (k : Nat) (hk : 0 < k) (l : List β) :
    x ∈ (List.replicate k l).flatten ↔ x ∈ l := by
  simp only [List.mem_flatten, List.mem_replicate]
  constructor
  · rintro ⟨l', ⟨_, rfl⟩, hx⟩; exact hx
  · intro hx; exact ⟨l, ⟨by omega, rfl⟩, hx⟩

/-- `k ≥ 1` copies side by side: every column content has `k` times its weight -/
theorem colEquiv_replicate (k : Nat) (hk : 0 < k) (rows : List Seq) (hr : ∀ r ∈ rows, r.length = alnLen rows) :
    ColEquiv (k : ℝ) (colsOf (replicateCols k rows) none) (colsOf rows none) := by
  rw [colsOf_replicateCols k rows hr]
  constructor
  · intro x
    simp only [List.mem_map]
    constructor
    · rintro ⟨c, hc, rfl⟩
      exact ⟨c, (mem_flatten_replicate c k hk _).mp hc, rfl⟩
    · rintro ⟨c, hc, rfl⟩
      exact ⟨c, (mem_flatten_replicate c k hk _).mpr hc, rfl⟩
  · intro x
    exact colWeight_flatten_replicate x k _

/-! ### weights -/

/-- every weight multiplied by `k` (no weight vector = unit weights) -/
noncomputable def scaleWeights (k : ℝ) (L : Nat) (ws : Option (List ℝ)) : Option (List ℝ) :=
  some ((List.range L).map fun q => k * weightAt ws q)

theorem scaleWeights_none (k : ℝ) (L : Nat) : scaleWeights k L none = some (List.replicate L k) := by
  unfold scaleWeights weightAt
  simp only [mul_one, Option.some.injEq]
  induction L with
  | zero => rfl
  | succ L ih => rw [List.range_succ_eq_map, List.map_cons, List.map_map, List.replicate_succ, ← ih]; rfl

theorem colsOf_scaleWeights (k : ℝ) (rows : List Seq) (ws : Option (List ℝ)) :
    colsOf rows (scaleWeights k (alnLen rows) ws) = (colsOf rows ws).map fun c => (c.1, k * c.2) := by
  unfold colsOf
  rw [List.map_map]
  apply List.map_congr_left
  intro q hq
  simp only [Function.comp, scaleWeights, weightAt]
  rw [getD_map_range _ _ _ _ (List.mem_range.mp hq)]

theorem colWeight_map_scale (x : List Byte) (k : ℝ) (cols : List Col) :
    colWeight x (cols.map fun c => (c.1, k * c.2)) = k * colWeight x cols := by
  induction cols with
  | nil => simp [colWeight]
  | cons c t ih =>
    rw [List.map_cons, colWeight_cons, colWeight_cons, ih]
    simp only
    split <;> ring

theorem colEquiv_scaleWeights (k : ℝ) (rows : List Seq) (ws : Option (List ℝ)) :
    ColEquiv k (colsOf rows (scaleWeights k (alnLen rows) ws)) (colsOf rows ws) := by
  rw [colsOf_scaleWeights]
  constructor
  · intro x
    simp [List.map_map, Function.comp_def]
  · intro x
    exact colWeight_map_scale x k _

theorem wf_scaleWeights (k : ℝ) (rows : List Seq) (ws : Option (List ℝ)) (hr : ∀ r ∈ rows, r.length = alnLen rows) :
    WF rows (scaleWeights k (alnLen rows) ws) := by
  constructor
  · exact hr
  · intro v hv
    simp only [scaleWeights, Option.some.injEq] at hv
    subst hv
    simp

/-- two presentations that both carry `k` times the weights of a third one are equivalent -/
theorem colEquiv_of_both {k : ℝ} {colsA colsB cols : List Col} (hA : ColEquiv k colsA cols)
    (hB : ColEquiv k colsB cols) : ColEquiv 1 colsA colsB := by
  constructor
  · intro x; exact (hA.1 x).trans (hB.1 x).symm
  · intro x; rw [one_mul, hA.2 x, hB.2 x]

theorem colEquiv_refl (cols : List Col) : ColEquiv 1 cols cols :=
  ⟨fun _ => Iff.rfl, fun _ => (one_mul _).symm⟩

/-- explicit unit weights give the same weighted columns as no weights -/
theorem colsOf_unit_weights (rows : List Seq) :
    colsOf rows (some (List.replicate (alnLen rows) (1 : ℝ))) = colsOf rows none := by
  unfold colsOf
  apply List.map_congr_left
  intro q hq
  have hq' : q < alnLen rows := List.mem_range.mp hq
  simp only [weightAt]
  congr 1
  rw [List.getD_eq_getElem?_getD]
  cases h : (List.replicate (alnLen rows) (1 : ℝ))[q]? with
  | none => rfl
  | some y =>
    have := List.mem_of_getElem? h
    simp only [List.mem_replicate] at this
    simp [this.2]

/-! ### which options select the internal-gap counter (read from the regenerated call data, tie T2) -/

theorem repr_beq (s : String) (a : Int) (gm : Int) (hs : s = a.repr) : (s == gm.repr) = decide (gm = a) := by
  subst hs
  by_cases h : gm = a
  · subst h; simp
  · have : ¬ a = gm := fun e => h e.symm
    simp [h, Int.repr_inj, this]

/-- in the working tree `countDiffsWithInternalGaps` is called exactly by `rawdist` and `pdist` with
`countgapmut = 1` (any other value, including out-of-range ones, falls to `countDiffs` or `countDiffsWithGaps`) -/
theorem usesInternalGaps_iff (m : DModel) (gm : Int) :
    usesInternalGaps m gm = true ↔ (m = .raw ∨ m = .pdist) ∧ gm = 1 := by
  have h1 := repr_beq "1" 1 gm rfl
  have h2 := repr_beq "2" 2 gm rfl
  cases hd : (("default" : String) == gm.repr) <;>
  cases m <;> simp [usesInternalGaps, callsOf, selectCall, Gen.rawdistCalls, Gen.rawdistSwitchOn, Gen.pdistCalls,
    Gen.pdistSwitchOn, Gen.jcCalls, Gen.jcSwitchOn, Gen.k2pCalls, Gen.k2pSwitchOn, Gen.f81Calls, Gen.f81SwitchOn,
    Gen.f84Calls, Gen.f84SwitchOn, Gen.tn93Calls, Gen.tn93SwitchOn, List.find?, h1, h2, hd]
  all_goals
    by_cases e2 : gm = 2
    · subst e2; simp
    · by_cases e1 : gm = 1 <;> simp [e1, e2]

end Gv.Proofs.DistCols
