import Gv.Model.ProtDist
import Mathlib.Data.List.Perm.Basic
import Mathlib.Tactic.SplitIfs
/-!
Lemmas about the counting and assembling parts of `Gv.Model.ProtDist`, valid for every numeric type
(no algebraic law of `+` is used): matrix assembly, the order in which pairs are processed, the pair-frequency
cells as a naive count, row swap = transposition, column permutation = permutation of the site list.
Used by `Props/C17.lean`.
-/
namespace Gv.Proofs.ProtDistCounts
open Gv Gv.Model.ProtDist

set_option maxRecDepth 100000

/-! ### characters -/

theorem isAmbigu_no_index : ∀ c : Byte, isAmbigu c = true → aaIndex c = none := by decide

theorem aaIndex_lt : ∀ c : Byte, ∀ k, aaIndex c = some k → k < ns := by
  intro c k h
  have key : ∀ c : Byte, (match aaIndex c with | some k => decide (k < ns) | none => true) = true := by decide
  have := key c
  rw [h] at this
  simpa using this

section
variable {α : Type} [RealLike α]

/-! ### matrix assembly -/

/-- entry `(i, j)` of a matrix given as a list of rows -/
def entry (M : List (List α)) (i j : Nat) : α := (M.getD i []).getD j 0

theorem symMatrix_entry (n : Nat) (u : Nat → Nat → α) {i j : Nat} (hi : i < n) (hj : j < n) :
    entry (symMatrix n u) i j = if i = j then 0 else if i < j then u i j else u j i := by
  simp [entry, symMatrix, List.getD_eq_getElem?_getD, List.getElem?_map, List.getElem?_range, hi, hj]

theorem symMatrix_symm (n : Nat) (u : Nat → Nat → α) {i j : Nat} (hi : i < n) (hj : j < n) :
    entry (symMatrix n u) i j = entry (symMatrix n u) j i := by
  rw [symMatrix_entry n u hi hj, symMatrix_entry n u hj hi]
  by_cases h : i = j
  · subst h; rfl
  · have h' : ¬ j = i := fun e => h e.symm
    simp only [h, h', if_false]
    by_cases hl : i < j
    · have : ¬ j < i := by omega
      simp [hl, this]
    · have : j < i := by omega
      simp [hl, this]

theorem symMatrix_diag (n : Nat) (u : Nat → Nat → α) {i : Nat} (hi : i < n) :
    entry (symMatrix n u) i i = 0 := by
  rw [symMatrix_entry n u hi hi]; simp

theorem symMatrix_upper (n : Nat) (u : Nat → Nat → α) {i j : Nat} (hij : i < j) (hj : j < n) :
    entry (symMatrix n u) i j = u i j := by
  rw [symMatrix_entry n u (by omega) hj]
  have : ¬ i = j := by omega
  simp [this, hij]

/-! ### the pairs in processing order -/

theorem mem_pairOrder {n i j : Nat} : (i, j) ∈ pairOrder n ↔ i < j ∧ j < n := by
  simp only [pairOrder, List.mem_flatMap, List.mem_range, List.mem_map, List.mem_filter, decide_eq_true_eq,
    Prod.mk.injEq]
  constructor
  · rintro ⟨a, ha, b, ⟨hb, hab⟩, rfl, rfl⟩
    exact ⟨hab, hb⟩
  · rintro ⟨hij, hj⟩
    exact ⟨i, by omega, j, ⟨hj, hij⟩, rfl, rfl⟩

theorem stored_of_collect {f : Nat × Nat → PairOut α} :
    ∀ {ps : List (Nat × Nat)} {r : List ((Nat × Nat) × α)}, collect f ps = .ok r →
      ∀ {i j : Nat}, (i, j) ∈ ps → f (i, j) = .ok (stored r i j) := by
  intro ps
  induction ps with
  | nil => intro r _ i j hm; simp at hm
  | cons p ps ih =>
    intro r h i j hm
    rw [collect] at h
    split at h
    · rename_i d hfp
      split at h
      · rename_i r' hr'
        have hr : r = (p, d) :: r' := by
          injection h with h; exact h.symm
        subst hr
        by_cases hp : p = (i, j)
        · subst hp
          simp [stored, hfp]
        · have hm' : (i, j) ∈ ps := by
            rcases List.mem_cons.mp hm with e | e
            · exact absurd e.symm hp
            · exact e
          have hne : (p == (i, j)) = false := by simpa using hp
          have : stored ((p, d) :: r') i j = stored r' i j := by
            simp [stored, List.find?_cons, hne]
          rw [this]
          exact ih hr' hm'
      · cases h
    · cases h
    · cases h

/-! ### the pair-frequency cells as a naive count -/

/-- the site adds its weight to cell `(i, j)` -/
def hits (i j : Nat) (s : PSite α) : Bool := s.sel && decide (fStates s = some (i, j))

theorem fWeight_of_states {s : PSite α} (h : (fStates s).isSome = true) : fWeight s = s.w := by
  unfold fStates at h
  unfold fWeight
  cases ha : aaIndex s.a with
  | none => simp [ha] at h
  | some x =>
    cases hb : aaIndex s.b with
    | none => simp [ha, hb] at h
    | some y =>
      have na : isAmbigu s.a = false := by
        cases hh : isAmbigu s.a with
        | false => rfl
        | true => rw [isAmbigu_no_index _ hh] at ha; cases ha
      have nb : isAmbigu s.b = false := by
        cases hh : isAmbigu s.b with
        | false => rfl
        | true => rw [isAmbigu_no_index _ hh] at hb; cases hb
      simp [na, nb]

/-- `Fs[i][j]` is the sum, in site order, of the *unmasked* weights of the selected sites whose two residues are
the amino acids `i` and `j`: ambiguous residues never reach a cell (they have no index), so the masking
`w = 0` is never what is added -/
theorem fCell_eq_naive (l : List (PSite α)) (i j : Nat) :
    fCell l i j = ((l.filter (hits i j)).map (·.w)).foldl (· + ·) 0 := by
  unfold fCell
  generalize (0 : α) = acc
  induction l generalizing acc with
  | nil => rfl
  | cons s l ih =>
    simp only [List.foldl_cons, List.filter_cons, fCellStep]
    by_cases hsel : s.sel = true
    · cases hst : fStates s with
      | none =>
        have : hits i j s = false := by simp [hits, hst]
        simp only [hsel, if_true, this]
        exact ih acc
      | some xy =>
        obtain ⟨x, y⟩ := xy
        by_cases hxy : x = i ∧ y = j
        · obtain ⟨rfl, rfl⟩ := hxy
          have hh : hits x y s = true := by simp [hits, hsel, hst]
          have hw : fWeight s = s.w := fWeight_of_states (by simp [hst])
          simp only [hsel, if_true, hh, and_self, List.map_cons, List.foldl_cons, hw]
          exact ih _
        · have hh : hits i j s = false := by
            simp only [hits, hsel, hst, Bool.true_and, decide_eq_false_iff_not, Option.some.injEq, Prod.mk.injEq]
            exact hxy
          simp only [hsel, if_true, hxy, if_false, hh]
          exact ih acc
    · have hsel' : s.sel = false := by simpa using hsel
      have hh : hits i j s = false := by simp [hits, hsel']
      simp only [hsel', Bool.false_eq_true, if_false, hh]
      exact ih acc

/-! ### swapping the two rows transposes the counts -/

def _root_.Gv.Model.ProtDist.PSite.swap (s : PSite α) : PSite α := ⟨s.b, s.a, s.sel, s.w⟩

theorem psites_swap (len : Nat) (s1 s2 : Seq) (sel : List Bool) (ws : List α) :
    psites len s2 s1 sel ws = (psites len s1 s2 sel ws).map PSite.swap := by
  simp [psites, List.map_map, Function.comp_def, PSite.swap]

theorem fStates_swap (s : PSite α) : fStates s.swap = (fStates s).map Prod.swap := by
  unfold fStates PSite.swap
  cases aaIndex s.a <;> cases aaIndex s.b <;> rfl

theorem fWeight_swap (s : PSite α) : fWeight s.swap = fWeight s := by
  unfold fWeight PSite.swap
  simp only [Bool.or_comm]

theorem fCellStep_swap (i j : Nat) (acc : α) (s : PSite α) : fCellStep i j acc s.swap = fCellStep j i acc s := by
  unfold fCellStep
  rw [fStates_swap, fWeight_swap]
  have : s.swap.sel = s.sel := rfl
  rw [this]
  cases fStates s with
  | none => rfl
  | some xy =>
    obtain ⟨x, y⟩ := xy
    simp only [Option.map_some, Prod.swap]
    by_cases h : x = j ∧ y = i
    · have h' : y = i ∧ x = j := ⟨h.2, h.1⟩
      simp [h, h']
    · have h' : ¬ (y = i ∧ x = j) := fun e => h ⟨e.2, e.1⟩
      simp [h, h']

theorem fCell_swap (l : List (PSite α)) (i j : Nat) : fCell (l.map PSite.swap) i j = fCell l j i := by
  unfold fCell
  generalize (0 : α) = acc
  induction l generalizing acc with
  | nil => rfl
  | cons s l ih =>
    simp only [List.map_cons, List.foldl_cons, fCellStep_swap]
    exact ih _

theorem fLenStep_swap (acc : α) (s : PSite α) : fLenStep acc s.swap = fLenStep acc s := by
  unfold fLenStep
  have : (s.swap.sel && (fStates s.swap).isSome) = (s.sel && (fStates s).isSome) := by
    rw [fStates_swap]; cases fStates s <;> rfl
  rw [this, fWeight_swap]

theorem fLen_swap (l : List (PSite α)) : fLen (l.map PSite.swap) = fLen l := by
  unfold fLen
  generalize (0 : α) = acc
  induction l generalizing acc with
  | nil => rfl
  | cons s l ih =>
    simp only [List.map_cons, List.foldl_cons, fLenStep_swap]
    exact ih _

theorem jcStep_swap (st : α × α) (s : PSite α) : jcStep st s.swap = jcStep st s := by
  unfold jcStep PSite.swap
  have h1 : (s.b != s.a) = (s.a != s.b) := by
    simp only [bne, BEq.comm]
  simp only [h1]
  have h2 : (s.sel && !isAmbigu s.b && !isAmbigu s.a) = (s.sel && !isAmbigu s.a && !isAmbigu s.b) := by
    cases s.sel <;> cases isAmbigu s.a <;> cases isAmbigu s.b <;> rfl
  rw [h2]

theorem jcCounts_swap (l : List (PSite α)) : jcCounts (l.map PSite.swap) = jcCounts l := by
  unfold jcCounts
  generalize ((0 : α), (0 : α)) = acc
  induction l generalizing acc with
  | nil => rfl
  | cons s l ih =>
    simp only [List.map_cons, List.foldl_cons, jcStep_swap]
    exact ih _

theorem seqsDiffer_swap (v : Variant) (l : List (PSite α)) : seqsDiffer v (l.map PSite.swap) = seqsDiffer v l := by
  unfold seqsDiffer
  rw [List.any_map]
  congr 1
  funext s
  have h1 : (s.b != s.a) = (s.a != s.b) := by simp only [bne, BEq.comm]
  simp only [Function.comp, PSite.swap, h1]
  cases (!v.diffHonoursSelection || s.sel) <;> cases isAmbigu s.a <;> cases isAmbigu s.b <;> simp

/-! ### permuting the columns permutes the site list -/

/-- the columns `σ` of a row / of a per-site vector, in that order -/
def permCols {β : Type} (σ : List Nat) (x : List β) (d : β) : List β := σ.map fun k => x.getD k d

theorem permCols_getD {β : Type} (σ : List Nat) (x : List β) (d : β) {l : Nat} (hl : l < σ.length) :
    (permCols σ x d).getD l d = x.getD (σ.getD l 0) d := by
  simp [permCols, List.getD_eq_getElem?_getD, List.getElem?_map, List.getElem?_eq_getElem hl]

/-- the site list of a pair in the column-permuted alignment is the site list of the original pair, read in the
order `σ` -/
theorem psites_permCols (σ : List Nat) (s1 s2 : Seq) (sel : List Bool) (ws : List α) :
    psites σ.length (permCols σ s1 0) (permCols σ s2 0) (permCols σ sel false) (permCols σ ws 0) =
      σ.map fun k => (⟨s1.getD k 0, s2.getD k 0, sel.getD k false, ws.getD k 0⟩ : PSite α) := by
  unfold psites
  apply List.ext_getElem
  · simp
  · intro l h1 h2
    have hl : l < σ.length := by simpa using h1
    simp only [List.getElem_map, List.getElem_range]
    rw [permCols_getD σ s1 0 hl, permCols_getD σ s2 0 hl, permCols_getD σ sel false hl, permCols_getD σ ws 0 hl]
    simp [List.getD_eq_getElem?_getD, List.getElem?_eq_getElem hl]

theorem psites_perm_of_cols {σ : List Nat} {len : Nat} (hσ : σ.Perm (List.range len)) (s1 s2 : Seq)
    (sel : List Bool) (ws : List α) :
    (psites len (permCols σ s1 0) (permCols σ s2 0) (permCols σ sel false) (permCols σ ws 0)).Perm
      (psites len s1 s2 sel ws) := by
  have hlen : σ.length = len := by simpa using hσ.length_eq
  subst hlen
  rw [psites_permCols]
  exact hσ.map _

/-- gap-site removal commutes with permuting the columns -/
theorem selectedSites_permCols {σ : List Nat} {rows : List Seq} (hσ : σ.Perm (List.range (alLength rows)))
    (hne : rows ≠ []) (rmGaps : Bool) :
    selectedSites (rows.map fun s => permCols σ s 0) rmGaps = permCols σ (selectedSites rows rmGaps) false := by
  have hlen : σ.length = alLength rows := by simpa using hσ.length_eq
  have hal : alLength (rows.map fun s => permCols σ s 0) = σ.length := by
    cases rows with
    | nil => exact absurd rfl hne
    | cons r rs => simp [alLength, permCols]
  unfold selectedSites
  rw [hal]
  apply List.ext_getElem
  · simp [permCols]
  · intro l h1 h2
    have hl : l < σ.length := by simpa using h1
    have hk : σ[l] < alLength rows := by
      have : σ[l] ∈ List.range (alLength rows) := hσ.subset (List.getElem_mem hl)
      simpa using this
    simp only [List.getElem_map, List.getElem_range, permCols, List.any_map, Function.comp_def]
    have e1 : ∀ s : Seq, (List.map (fun k => s.getD k 0) σ).getD l 0 = s.getD σ[l] 0 := by
      intro s
      simp [List.getD_eq_getElem?_getD, List.getElem?_map, List.getElem?_eq_getElem hl]
    simp only [e1]
    simp [List.getD_eq_getElem?_getD, List.getElem?_map, List.getElem?_range hk]

/-- gap-site removal does not depend on the order of the rows (rows of one alignment have one length) -/
theorem selectedSites_perm_rows {rows rows' : List Seq} (h : rows.Perm rows')
    (hal : alLength rows' = alLength rows) (rmGaps : Bool) :
    selectedSites rows' rmGaps = selectedSites rows rmGaps := by
  unfold selectedSites
  rw [hal]
  apply List.map_congr_left
  intro l _
  rw [h.any_eq]

end
end Gv.Proofs.ProtDistCounts
