import Gv.Model.Fmt.Utf8
/-!
Facts about the rune reader model (`Model/Fmt/Utf8.lean`) that justify running the byte-level lexers on `Utf8.norm`:
* `decodeRune_ascii`, `encodeRune_ascii`: an ASCII byte is its own rune of width 1 and is written back as itself;
* `decodeRune_big`: the rune read at a byte ≥ 0x80 is ≥ 0x80 - never NUL (the in-band end-of-input marker), never one of
  the ASCII constants the lexers compare with;
* `encodeRune_big`: such a rune is written back with bytes ≥ 0x80 only;
* `decodeRune_width`: every read consumes 1..4 bytes;
* `norm_of_ascii`: on ASCII input `norm` is the identity (the all-bytes models extend the ASCII models).
-/
namespace Gv.Proofs.Utf8Norm
open Gv Gv.Model Gv.Model.Fmt Gv.Model.Fmt.Utf8

theorem decodeRune_big (b : Byte) (r : List Byte) (hb : ¬ b < 0x80) : 128 ≤ (decodeRune (b :: r)).1 := by
  have hlt := b.toNat_lt
  unfold decodeRune
  simp only [inRange, runeError, UInt8.le_iff_toNat_le, UInt8.lt_iff_toNat_lt, beq_iff_eq, ← UInt8.toNat_inj,
    Bool.and_eq_true, decide_eq_true_eq] at hb ⊢
  repeat' split
  all_goals (try simp only [UInt8.toNat_ofNat, Nat.reducePow, Nat.reduceMod] at *)
  all_goals (try dsimp only)
  all_goals omega

theorem decodeRune_width (b : Byte) (r : List Byte) :
    1 ≤ (decodeRune (b :: r)).2 ∧ (decodeRune (b :: r)).2 ≤ 4 := by
  simp only [decodeRune]
  repeat' split
  all_goals simp

theorem encodeRune_big (r : Nat) (h : 128 ≤ r) : ∀ b ∈ encodeRune r, ¬ b < 0x80 := by
  unfold encodeRune
  simp only [UInt8.lt_iff_toNat_lt]
  repeat' split
  all_goals (try simp only [Bool.or_eq_true, Bool.and_eq_true, decide_eq_true_eq, not_or, not_and, Nat.not_lt] at *)
  all_goals simp only [List.forall_mem_cons, List.not_mem_nil, false_imp_iff, implies_true, and_true, UInt8.toNat_ofNat', UInt8.reduceToNat,
    Nat.reducePow]
  all_goals omega

theorem decodeRune_ascii (b : Byte) (r : List Byte) (h : b < 0x80) : decodeRune (b :: r) = (b.toNat, 1) := by
  simp [decodeRune, h]

theorem encodeRune_ascii (b : Byte) (h : b < 0x80) : encodeRune b.toNat = [b] := by
  have : b.toNat < 128 := by simpa [UInt8.lt_iff_toNat_lt] using h
  simp [encodeRune, this]

theorem norm_aux_ascii : ∀ (s : List Byte) (fuel : Nat), s.length ≤ fuel → allAscii s = true →
    (runesAux fuel s).flatMap encodeRune = s
  | [], fuel, _, _ => by cases fuel <;> simp [runesAux]
  | b :: bs, 0, h, _ => by simp at h
  | b :: bs, fuel + 1, h, ha => by
    have hb : b < 0x80 := by simp [allAscii] at ha; exact ha.1
    have hr : allAscii bs = true := by simp [allAscii] at ha ⊢; exact ha.2
    simp only [runesAux, decodeRune_ascii b bs hb, List.drop_succ_cons, List.drop_zero, List.flatMap_cons,
      encodeRune_ascii b hb]
    rw [norm_aux_ascii bs fuel (by simpa using h) hr]
    rfl

/-- on ASCII input the lexer holds the input itself -/
theorem norm_of_ascii (s : List Byte) (h : allAscii s = true) : norm s = s :=
  norm_aux_ascii s s.length (Nat.le_refl _) h

end Gv.Proofs.Utf8Norm
