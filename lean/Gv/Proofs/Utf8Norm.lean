import Gv.Model.Fmt.Utf8
/-!
Facts about the rune reader model (`Model/Fmt/Utf8.lean`) that justify running the byte-level lexers on `Utf8.norm`:
* `decodeRune_ascii`, `encodeRune_ascii`: an ASCII byte is its own rune of width 1 and is written back as itself;
* `decodeRune_big`: the rune read at a byte ≥ 0x80 is ≥ 0x80 - never NUL (the in-band end-of-input marker), never one of
  the ASCII constants the lexers compare with;
* `encodeRune_big`: such a rune is written back with bytes ≥ 0x80 only;
* `decodeRune_width`: every read consumes 1..4 bytes;
* `takeRunes_length`, `takeRunes_ascii`: reading `n` runes consumes at least `n` bytes; `n` ASCII bytes are `n` runes;
* `norm_of_ascii`: on ASCII input `norm` is the identity (the all-bytes models extend the ASCII models).
-/
namespace Gv.Proofs.Utf8Norm
open Gv Gv.Model Gv.Model.Fmt Gv.Model.Fmt.Utf8

theorem decodeRune_big (b : Byte) (r : List Byte) (hb : ¬ b < 0x80) : 128 ≤ (decodeRune (b :: r)).1 := by
  have hlt := b.toNat_lt
  unfold decodeRune
  simp only [inRange, runeError, UInt8.le_iff_toNat_le, UInt8.lt_iff_toNat_lt, beq_iff_eq, ← UInt8.toNat_inj,
    Bool.and_eq_true, decide_eq_true_eq] at hb ⊢
  repeat' split
  all_goals (try simp only [UInt8.toNat_ofNat, Nat.reducePow, Nat.reduceMod] at *)
  all_goals (try dsimp only)
  all_goals omega

theorem decodeRune_width (b : Byte) (r : List Byte) :
    1 ≤ (decodeRune (b :: r)).2 ∧ (decodeRune (b :: r)).2 ≤ 4 := by
  simp only [decodeRune]
  repeat' split
  all_goals simp

theorem encodeRune_big (r : Nat) (h : 128 ≤ r) : ∀ b ∈ encodeRune r, ¬ b < 0x80 := by
  unfold encodeRune
  simp only [UInt8.lt_iff_toNat_lt]
  repeat' split
  all_goals (try simp only [Bool.or_eq_true, Bool.and_eq_true, decide_eq_true_eq, not_or, not_and, Nat.not_lt] at *)
  all_goals simp only [List.forall_mem_cons, List.not_mem_nil, false_imp_iff, implies_true, and_true, UInt8.toNat_ofNat', UInt8.reduceToNat,
    Nat.reducePow]
  all_goals omega

theorem decodeRune_ascii (b : Byte) (r : List Byte) (h : b < 0x80) : decodeRune (b :: r) = (b.toNat, 1) := by
  simp [decodeRune, h]

theorem encodeRune_ascii (b : Byte) (h : b < 0x80) : encodeRune b.toNat = [b] := by
  have : b.toNat < 128 := by simpa [UInt8.lt_iff_toNat_lt] using h
  simp [encodeRune, this]

theorem norm_aux_ascii : ∀ (s : List Byte) (fuel : Nat), s.length ≤ fuel → allAscii s = true →
    (runesAux fuel s).flatMap encodeRune = s
  | [], fuel, _, _ => by cases fuel <;> simp [runesAux]
  | b :: bs, 0, h, _ => by simp at h
  | b :: bs, fuel + 1, h, ha => by
    have hb : b < 0x80 := by simp [allAscii] at ha; exact ha.1
    have hr : allAscii bs = true := by simp [allAscii] at ha ⊢; exact ha.2
    simp only [runesAux, decodeRune_ascii b bs hb, List.drop_succ_cons, List.drop_zero, List.flatMap_cons,
      encodeRune_ascii b hb]
    rw [norm_aux_ascii bs fuel (by simpa using h) hr]
    rfl

/-- on ASCII input the lexer holds the input itself -/
theorem norm_of_ascii (s : List Byte) (h : allAscii s = true) : norm s = s :=
  norm_aux_ascii s s.length (Nat.le_refl _) h

/-- every rune read consumes at least one byte -/
theorem takeRunesAux_length : ∀ (fuel n : Nat) (s acc : List Byte),
    (takeRunesAux fuel n s acc).2.1.length + (takeRunesAux fuel n s acc).2.2 ≤ s.length
  | 0, _, s, acc => by simp [takeRunesAux]
  | fuel + 1, 0, s, acc => by simp [takeRunesAux]
  | fuel + 1, n + 1, [], acc => by simp [takeRunesAux]
  | fuel + 1, n + 1, b :: bs, acc => by
    have ih := takeRunesAux_length fuel n ((b :: bs).drop (decodeRune (b :: bs)).2) (acc ++ encodeRune (decodeRune (b :: bs)).1)
    have hw := (decodeRune_width b bs).1
    simp only [takeRunesAux]
    simp only [List.length_drop, List.length_cons] at ih ⊢
    omega

theorem takeRunes_length (n : Nat) (s : List Byte) :
    (takeRunes n s).2.1.length + (takeRunes n s).2.2 ≤ s.length := takeRunesAux_length _ _ _ _

theorem takeRunesAux_ascii : ∀ (p : List Byte) (X acc : List Byte) (fuel : Nat), allAscii p = true → p.length ≤ fuel →
    takeRunesAux fuel p.length (p ++ X) acc = (acc ++ p, X, p.length)
  | [], X, acc, fuel, _, _ => by cases fuel <;> simp [takeRunesAux]
  | b :: p, X, acc, 0, _, h => by simp at h
  | b :: p, X, acc, fuel + 1, ha, h => by
    have hb : b < 0x80 := by simp [allAscii] at ha; exact ha.1
    have hr : allAscii p = true := by simp [allAscii] at ha ⊢; exact ha.2
    have ih := takeRunesAux_ascii p X (acc ++ [b]) fuel hr (by simpa using h)
    simp only [List.length_cons, List.cons_append, takeRunesAux, decodeRune_ascii b (p ++ X) hb, List.drop_succ_cons,
      List.drop_zero, encodeRune_ascii b hb, ih]
    simp

/-- ten ASCII bytes are ten runes -/
theorem takeRunes_ascii (p X : List Byte) (ha : allAscii p = true) :
    takeRunes p.length (p ++ X) = (p, X, p.length) := by
  have := takeRunesAux_ascii p X [] (p ++ X).length ha (by simp)
  simpa [takeRunes] using this

theorem runesAux_ascii : ∀ (s : List Byte) (fuel : Nat), allAscii s = true → ∀ r ∈ runesAux fuel s, r < 128
  | [], fuel, _ => by cases fuel <;> simp [runesAux]
  | b :: bs, 0, _ => by simp [runesAux]
  | b :: bs, fuel + 1, ha => by
    have hb : b < 0x80 := by simp [allAscii] at ha; exact ha.1
    have hr : allAscii bs = true := by simp [allAscii] at ha ⊢; exact ha.2
    have hb' : b.toNat < 128 := by simpa [UInt8.lt_iff_toNat_lt] using hb
    simp only [runesAux, decodeRune_ascii b bs hb, List.drop_succ_cons, List.drop_zero, List.mem_cons]
    intro r hr'
    cases hr' with
    | inl h => rw [h]; exact hb'
    | inr h => exact runesAux_ascii bs fuel hr r h

/-- an ASCII input holds none of the two runes whose upper case is an ASCII letter -/
theorem hasFoldRune_ascii (s : List Byte) (h : allAscii s = true) : hasFoldRune s = false := by
  unfold hasFoldRune runes
  rw [List.any_eq_false]
  intro r hr
  have := runesAux_ascii s s.length h r hr
  simp only [Bool.or_eq_true, beq_iff_eq, not_or]
  constructor <;> omega

/-! ### `strings.ToUpper` of an ASCII literal is the byte-wise upper case -/

/-- the byte-wise upper case the keyword tests of the ASCII models used (`Clustal.upper` = `Stockholm.upper` =
`Nexus.upper` unfold to it) -/
def upperByte (b : Byte) : Byte := if 97 ≤ b && b ≤ 122 then b - 32 else b

set_option maxRecDepth 100000 in
theorem upperRune_ascii : ∀ b : Byte, b < 0x80 → encodeRune (upperRune b.toNat) = [upperByte b] := by decide

theorem upperLit_aux_ascii : ∀ (s : List Byte) (fuel : Nat), s.length ≤ fuel → allAscii s = true →
    ((runesAux fuel s).map upperRune).flatMap encodeRune = s.map upperByte
  | [], fuel, _, _ => by cases fuel <;> simp [runesAux]
  | b :: bs, 0, h, _ => by simp at h
  | b :: bs, fuel + 1, h, ha => by
    have hb : b < 0x80 := by simp [allAscii] at ha; exact ha.1
    have hr : allAscii bs = true := by simp [allAscii] at ha ⊢; exact ha.2
    simp only [runesAux, decodeRune_ascii b bs hb, List.drop_succ_cons, List.drop_zero, List.map_cons, List.flatMap_cons,
      upperRune_ascii b hb]
    rw [upperLit_aux_ascii bs fuel (by simpa using h) hr]
    rfl

/-- on an ASCII literal `strings.ToUpper` is the byte-wise upper case of the ASCII models -/
theorem upperLit_ascii (s : List Byte) (h : allAscii s = true) : upperLit s = s.map upperByte :=
  upperLit_aux_ascii s s.length (Nat.le_refl _) h

theorem allAscii_of_forall (s : List Byte) (h : ∀ b ∈ s, b < 0x80) : allAscii s = true := by
  simpa [allAscii] using h

end Gv.Proofs.Utf8Norm
