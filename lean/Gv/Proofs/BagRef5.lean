import Gv.Proofs.BagRef4
/-!
Refinement (C01), part 5: `Deduplicate`.  The Go code keeps a map from the comparison key to the
index of its group and a slice of groups; the reference keeps one list of (key, name, sequence, group).
-/
namespace Gv.Proofs.BagAbs
open Gv Gv.Model Gv.Spec Gv.Proofs.BagInv

abbrev G := Seq × String × Seq × List String

def upd (key : Seq) (x : String) (g : G) : G :=
  if g.1 == key then (g.1, g.2.1, g.2.2.1, g.2.2.2 ++ [x]) else g

theorem map_upd_none (key : Seq) (x : String) (acc : List G) (h : ∀ g ∈ acc, (g.1 == key) = false) :
    acc.map (upd key x) = acc := by
  induction acc with
  | nil => rfl
  | cons a t ih =>
    simp only [List.map_cons, upd, h a (by simp), Bool.false_eq_true, if_false]
    rw [show t.map (upd key x) = t from ih (fun g hg => h g (List.mem_cons_of_mem _ hg))]

theorem zipIdx_map_ge (l : List (List String)) (k i : Nat) (x : String) (h : i < k) :
    (l.zipIdx k).map (fun (g, j) => if j == i then g ++ [x] else g) = l := by
  induction l generalizing k with
  | nil => rfl
  | cons a t ih =>
    simp only [List.zipIdx_cons, List.map_cons]
    have : (k == i) = false := by simp; omega
    simp only [this, Bool.false_eq_true, if_false]
    rw [ih (k + 1) (by omega)]

/-- the group the Go code appends to (index of the first entry of `seen` with that key) is the only
entry of the reference list with that key -/
theorem appendAt_upd (key : Seq) (x : String) (acc : List G) (k : Nat) (p : Seq × Nat)
    (hnd : (acc.map (·.1)).Nodup)
    (hf : ((acc.map (·.1)).zipIdx k).find? (fun q => q.1 == key) = some p) :
    ((acc.map (·.2.2.2)).zipIdx k).map (fun (g, j) => if j == p.2 then g ++ [x] else g) =
      (acc.map (upd key x)).map (·.2.2.2) ∧ k ≤ p.2 := by
  induction acc generalizing k with
  | nil => simp at hf
  | cons a t ih =>
    simp only [List.map_cons, List.zipIdx_cons, List.find?_cons] at hf
    simp only [List.map_cons, List.nodup_cons] at hnd
    by_cases ha : (a.1 == key) = true
    · simp only [ha] at hf
      simp only [Option.some.injEq] at hf
      subst hf
      refine ⟨?_, Nat.le_refl _⟩
      simp only [List.map_cons, List.zipIdx_cons, beq_self_eq_true, if_true]
      have htail : ∀ g ∈ t, (g.1 == key) = false := by
        intro g hg
        have hk : a.1 = key := by simpa using ha
        have : g.1 ≠ a.1 := fun e => hnd.1 (e ▸ List.mem_map_of_mem (f := (·.1)) hg)
        simpa [hk] using this
      rw [map_upd_none key x t htail, zipIdx_map_ge _ _ _ _ (Nat.lt_succ_self k)]
      simp [upd, ha]
    · have ha' : (a.1 == key) = false := by simpa using ha
      simp only [ha'] at hf
      obtain ⟨h1, h2⟩ := ih (k + 1) hnd.2 hf
      refine ⟨?_, by omega⟩
      simp only [List.map_cons, List.zipIdx_cons]
      have : (k == p.2) = false := by simp; omega
      simp only [this, Bool.false_eq_true, if_false, h1, upd, ha']

theorem find_zipIdx_none (key : Seq) (acc : List G) (k : Nat) :
    (((acc.map (·.1)).zipIdx k).find? (fun q => q.1 == key) = none) ↔ (acc.any (fun g => g.1 == key) = false) := by
  induction acc generalizing k with
  | nil => simp
  | cons a t ih =>
    simp only [List.map_cons, List.zipIdx_cons, List.find?_cons, List.any_cons]
    by_cases ha : (a.1 == key) = true
    · simp [ha]
    · have ha' : (a.1 == key) = false := by simpa using ha
      simp only [ha', Bool.false_or]
      exact ih (k + 1)

/-- simulation of the two loops -/
theorem dedup_sim (alpha : Nat) (g : Bool) (l : List Row) (b : Bag) (acc : List G)
    (hgi : GI b) (hfresh : FreshIn b (l.map fun r => (r.name, r.seq)))
    (hnd : (acc.map (·.1)).Nodup) (hp : pairs b = acc.map fun x => (x.2.1, x.2.2.1)) :
    let R := dedupLoop alpha g l b ((acc.map (·.1)).zipIdx) (acc.map (·.2.2.2))
    let A := dedupRows (dedupKey alpha g) (l.map fun r => (r.name, r.seq)) acc
    R.2.1 = false ∧ pairs R.1 = A.map (fun x => (x.2.1, x.2.2.1)) ∧ R.2.2 = A.map (·.2.2.2) ∧ GI R.1 ∧
    R.1.policy = b.policy ∧ R.1.alphabet = b.alphabet ∧ R.1.isAlign = b.isAlign := by
  induction l generalizing b acc with
  | nil => exact ⟨rfl, hp, rfl, hgi, rfl, rfl, rfl⟩
  | cons r t ih =>
    simp only [List.map_cons, dedupLoop, dedupRows]
    cases hf : ((acc.map (·.1)).zipIdx).find? (fun p => p.1 == dedupKey alpha g r.seq) with
    | none =>
      have hany := (find_zipIdx_none _ acc 0).mp hf
      simp only [hany, Bool.false_eq_true, if_false]
      have hn := hfresh.2 (r.name, r.seq) (by simp)
      have e := addSeqAs_fresh false b r.name r.seq hn (by simp)
      simp only [addSeqBase, e, Bool.false_eq_true, if_false]
      have hseen : (acc.map (·.1)).zipIdx ++ [(dedupKey alpha g r.seq, (acc.map (·.2.2.2)).length)] =
          ((acc ++ [(dedupKey alpha g r.seq, r.name, r.seq, [r.name])]).map (·.1)).zipIdx := by
        simp [List.zipIdx_append]
      have hgroups : acc.map (·.2.2.2) ++ [[r.name]] =
          (acc ++ [(dedupKey alpha g r.seq, r.name, r.seq, [r.name])]).map (·.2.2.2) := by simp
      rw [hseen, hgroups]
      have hnd' : ((acc ++ [(dedupKey alpha g r.seq, r.name, r.seq, [r.name])]).map (·.1)).Nodup := by
        simp only [List.map_append, List.map_cons, List.map_nil]
        apply List.nodup_append.mpr
        refine ⟨hnd, by simp, ?_⟩
        intro a ha c hc
        simp only [List.mem_singleton] at hc
        subst hc
        obtain ⟨g0, hg0, rfl⟩ := List.mem_map.mp ha
        have := List.any_eq_false.mp hany g0 hg0
        simpa using this
      obtain ⟨k1, k2, k3, k4, k5, k6, k7⟩ := ih (pushed false b r.name r.seq) _ (gi_pushed hgi _ _ hn) (freshIn_tail hfresh) hnd'
        (by rw [pairs_pushed, hp]; simp)
      exact ⟨k1, k2, k3, k4, k5, k6, k7⟩
    | some p =>
      have hany : acc.any (fun g0 => g0.1 == dedupKey alpha g r.seq) = true := by
        cases h : acc.any (fun g0 => g0.1 == dedupKey alpha g r.seq) with
        | true => rfl
        | false => rw [(find_zipIdx_none _ acc 0).mpr h] at hf; cases hf
      simp only [hany, if_true]
      obtain ⟨h1, _⟩ := appendAt_upd (dedupKey alpha g r.seq) r.name acc 0 p hnd hf
      have hgroups : appendAt (acc.map (·.2.2.2)) p.2 r.name = (acc.map (upd (dedupKey alpha g r.seq) r.name)).map (·.2.2.2) := h1
      have hkeys : (acc.map (upd (dedupKey alpha g r.seq) r.name)).map (·.1) = acc.map (·.1) := by
        simp only [List.map_map]
        apply List.map_congr_left
        intro a _
        simp only [Function.comp, upd]; split <;> rfl
      have hpairs : (acc.map (upd (dedupKey alpha g r.seq) r.name)).map (fun x => (x.2.1, x.2.2.1)) = acc.map fun x => (x.2.1, x.2.2.1) := by
        simp only [List.map_map]
        apply List.map_congr_left
        intro a _
        simp only [Function.comp, upd]; split <;> rfl
      rw [hgroups, ← hkeys]
      have hfresh' : FreshIn b (t.map fun r => (r.name, r.seq)) := by
        obtain ⟨f1, f2⟩ := hfresh
        simp only [List.map_cons, List.nodup_cons] at f1
        exact ⟨f1.2, fun q hq => f2 q (List.mem_cons_of_mem _ hq)⟩
      exact ih b (acc.map (upd (dedupKey alpha g r.seq) r.name)) hgi hfresh' (by rw [hkeys]; exact hnd) (by rw [hpairs]; exact hp)

theorem ref_dedup {b : Bag} (h : Good b) (g : Bool) : Refines b (.dedup g) := by
  intro s' st e
  simp only [Spec.stepOp] at e
  split at e
  · simp at e
  · rename_i hnd
    have hnd' : (b.rows.map (·.name)).Nodup := by
      have : (abs b).names.Nodup := by simpa using hnd
      exact nodup_names_of_abs this
    simp only [Prod.mk.injEq, Option.some.injEq] at e
    obtain ⟨e1, e2⟩ := e
    subst e1 e2
    have hfresh : FreshIn (clearBase b) (b.rows.map fun r => (r.name, r.seq)) :=
      freshIn_of_nil rfl (by rw [names_pairs_map]; exact hnd')
    obtain ⟨k1, k2, k3, k4, k5, k6, k7⟩ := dedup_sim b.alphabet g b.rows (clearBase b) [] (gi_clearBase b) hfresh
      (by simp) (by simp [pairs, clearBase])
    simp only [List.map_nil, List.zipIdx_nil] at k1 k2 k3 k4 k5 k6 k7
    have hrect := rect_deduplicate g h.rect
    simp only [Model.stepOp, deduplicate] at hrect ⊢
    refine ⟨?_, ?_, good_of_gi k4 hrect (h.alpha.congr k7 k6)⟩
    · have k2' : List.map (fun r => (r.name, r.seq)) (dedupLoop b.alphabet g b.rows (clearBase b) [] []).1.rows = _ := k2
      have k5' : (dedupLoop b.alphabet g b.rows (clearBase b) [] []).1.policy = b.policy := k5
      have k6' : (dedupLoop b.alphabet g b.rows (clearBase b) [] []).1.alphabet = b.alphabet := k6
      have k7' : (dedupLoop b.alphabet g b.rows (clearBase b) [] []).1.isAlign = b.isAlign := k7
      simp only [abs, pairs, k2', k5', k6', k7']
    · simp only [k1, k3, Bool.false_eq_true, if_false]
      simp [abs, pairs, List.map_map, Function.comp_def]

end Gv.Proofs.BagAbs
