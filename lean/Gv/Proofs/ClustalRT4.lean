import Gv.Proofs.ClustalRT3
import Gv.Proofs.Utf8Norm
/-!
Clustal round trip, helper development, part 4: the header line, the end of `Parse`, `Parse` on the writer's
output; rows over the property's residue alphabet are rows the parser reads back.
-/
namespace Gv.Proofs.ClustalRT
open Gv Gv.Model Gv.Model.Fmt Gv.Model.Fmt.Clustal
open Gv.Model.Fmt.Phylip (isWS identChar afterRun parseInt64 Stop R isDigit)
open Gv.Proofs.PhylipRT (Run Res identChar_facts isWS_SP identChar_SP identChar_NL take_all parseInt64_none)
open Gv.Proofs.FastaRT (addAll addAll_ok)

set_option maxRecDepth 100000

/-- the header word -/
def kw : Seq := [67, 76, 85, 83, 84, 65, 76]

/-- the header line after the header word and one blank: `W (goalign version <version>)` -/
def hdrText (version : Seq) : Seq :=
  [87, 32, 40, 103, 111, 97, 108, 105, 103, 110, 32, 118, 101, 114, 115, 105, 111, 110, 32] ++ version ++ [41]

theorem hdrText_noEol (version : Seq) (hv : ∀ b ∈ version, b ≠ 10 ∧ b ≠ 13 ∧ b ≠ 0) :
    NoEol (SP :: hdrText version) := by
  have key : ∀ b ∈ (SP :: [87, 32, 40, 103, 111, 97, 108, 105, 103, 110, 32, 118, 101, 114, 115, 105, 111, 110, 32] : Seq),
      (b == NL) = false ∧ (b == CR) = false ∧ (b == 0) = false := by decide
  intro b hb
  simp only [hdrText, List.mem_cons, List.mem_append, List.not_mem_nil, or_false] at hb
  rcases hb with h | (h | h) | h
  · exact key b (by rw [h]; simp)
  · exact key b (by simp only [List.mem_cons, List.not_mem_nil, or_false]; right; simpa using h)
  · obtain ⟨h1, h2, h3⟩ := hv b h
    simp [NL, CR, h1, h2, h3]
  · subst h; decide

theorem max_le_foldl : ∀ (rows : List XRow) (m : Nat),
    m ≤ rows.foldl (fun m r => max m r.1.length) m ∧
      ∀ r ∈ rows, r.1.length ≤ rows.foldl (fun m r => max m r.1.length) m
  | [], m => ⟨Nat.le_refl _, fun _ h => absurd h (by simp)⟩
  | x :: xs, m => by
    obtain ⟨h1, h2⟩ := max_le_foldl xs (max m x.1.length)
    simp only [List.foldl_cons]
    refine ⟨by omega, ?_⟩
    intro r hr
    simp only [List.mem_cons] at hr
    cases hr with
    | inl h => subst h; omega
    | inr h => exact h2 r h

/-- the writer's output in the form the stepping lemmas use -/
theorem write_eq (version : Seq) (alphabet : Nat) (r0 : XRow) (rs : List XRow) (L maxname : Nat)
    (h0 : r0.2.length = L) (hL : 1 ≤ L) (hm : maxname = (r0 :: rs).foldl (fun m r => max m r.1.length) 0) :
    write version alphabet (r0 :: rs) =
      kw ++ SP :: (hdrText version ++ NL :: NL ::
        (r0.1 ++ rowTail (maxname + 2 - r0.1.length) (cseg L W 0 r0) (min (0 + W) L) ++
          (rs.flatMap (rowText maxname L W 0) ++ (SP :: consT alphabet maxname L (r0 :: rs) 0 ++
            NL :: blocksW version alphabet maxname L (r0 :: rs) L (0 + W))))) := by
  have hmax : ∀ r ∈ r0 :: rs, r.1.length ≤ maxname := by
    rw [hm]; exact (max_le_foldl (r0 :: rs) 0).2
  have hstep := blocksW_step version alphabet maxname L (r0 :: rs) hmax L 0 (by omega)
  simp only [Nat.lt_irrefl, if_false, List.nil_append, List.flatMap_cons] at hstep
  unfold write
  simp only [h0, ← hm, hstep]
  simp [kw, hdrText, rowText, List.append_assoc, SP, NL]

/-- the two line ends after the header line, the first name pushed back -/
theorem scanWithEOL_nl2 (nm : Name) (hn : NameOk nm) (k : Nat) (sg : Seq) (e : Nat) (T : Seq) (l : Tok) :
    scanWithEOL ⟨NL :: NL :: (nm ++ rowTail k sg e ++ T), l, false⟩ =
      .ok (.eol, ⟨rowTail k sg e ++ T, classify nm, true⟩) := by
  obtain ⟨_, _, t3⟩ := nameOk_tok nm hn
  have t3' : (classify nm == Tok.eol) = false := by simpa using t3
  have hnm := name_scan nm hn.1 k sg e T .eol
  unfold scanWithEOL
  simp only [st_scan _ _ _ _ (scan_nl _), bind, Except.bind, bne_self_eq_false, Bool.false_eq_true, if_false,
    List.length_cons]
  rw [skipEols]
  simp only [st_scan _ _ _ _ (scan_nl _), bind, Except.bind, beq_self_eq_true, if_true]
  rw [skipEols]
  simp only [hnm, bind, Except.bind, pure, Except.pure, St.unscan, t3', Bool.false_eq_true, if_false]

theorem skipHeader_line_cons (R : Seq) (s0 : St) (hR : ∀ l, scanWithEOL ⟨NL :: R, l, false⟩ = .ok (.eol, s0))
    (fuel : Nat) (c : Byte) (v : Seq) (hv : NoEol (c :: v)) (hf : (c :: v).length + 2 ≤ fuel) (tok l : Tok)
    (h1 : (tok != .eol) = true) (h2 : (tok != .eof) = true) :
    skipHeader fuel tok ⟨c :: (v ++ NL :: R), l, false⟩ = .ok (.eol, s0) :=
  skipHeader_line R s0 hR fuel (c :: v) hv hf tok l h1 h2

/-- the end of `Parse` on rows of one length with distinct names -/
theorem build_written (o : POpts) (ho : normAlphabet o.alphabet = 2) (L : Nat) (rows : List XRow) (hne : rows ≠ [])
    (hlen : ∀ r ∈ rows, r.2.length = L) (hd : Spec.Fmt.distinct (rows.map (·.1)) = true) :
    build o rows = .ok ⟨autoAlphabet (rows.map (·.2)), L, rows⟩ := by
  have hadd : rows.foldlM (fun (b : Bag) r => b.add r.1 r.2) { ignore := normIgnore o.ignore } = _ :=
    addAll_ok L rows { ignore := normIgnore o.ignore } hlen (Or.inl ⟨rfl, rfl⟩)
      (by intro _ _ q hq; simp at hq) hd
  have hemp : rows.isEmpty = false := by
    cases rows with
    | nil => exact absurd rfl hne
    | cons _ _ => rfl
  unfold build
  simp only [hemp, Bool.false_eq_true, if_false, hadd]
  simp [Bag.finish, ho, BOTH, Bag.detect, autoAlphabet, hne, pure, Except.pure]

theorem kw_run : Run kw := ⟨by decide, by decide⟩
theorem kw_classify : classify kw = .clustal := by decide

/-- **`Parse` on the writer's output** -/
theorem parse_written (c : Bool) (version : Seq) (hv : ∀ b ∈ version, b ≠ 10 ∧ b ≠ 13 ∧ b ≠ 0)
    (alphabet : Nat) (o : POpts) (ho : normAlphabet o.alphabet = 2) (L : Nat) (hL : 1 ≤ L)
    (hLmax : L ≤ 9223372036854775807) (rows : List XRow) (hne : rows ≠ [])
    (hok : ∀ r ∈ rows, RowOk L W r) (hd : Spec.Fmt.distinct (rows.map (·.1)) = true) :
    Clustal.parse c o (write version alphabet rows) = .ok ⟨autoAlphabet (rows.map (·.2)), L, rows⟩ := by
  cases rows with
  | nil => exact absurd rfl hne
  | cons r0 rs =>
    have h0 := hok r0 (by simp)
    have hlen : ∀ r ∈ r0 :: rs, r.2.length = L := fun r hr => (hok r hr).len
    generalize hm : (r0 :: rs).foldl (fun m r => max m r.1.length) 0 = maxname
    have hmax : ∀ r ∈ r0 :: rs, r.1.length ≤ maxname := by
      rw [← hm]; exact (max_le_foldl (r0 :: rs) 0).2
    obtain ⟨ls', hloop, hrows⟩ := loop_written c version alphabet maxname L r0 rs hLmax hok hmax hL
    rw [write_eq version alphabet r0 rs L maxname h0.len hL hm.symm]
    have hs := scan_run kw kw_run SP identChar_SP (by decide) (hdrText version ++ NL :: NL ::
        (r0.1 ++ rowTail (maxname + 2 - r0.1.length) (cseg L W 0 r0) (min (0 + W) L) ++
          (rs.flatMap (rowText maxname L W 0) ++ (SP :: consT alphabet maxname L (r0 :: rs) 0 ++
            NL :: blocksW version alphabet maxname L (r0 :: rs) L (0 + W)))))
    rw [kw_classify] at hs
    have hsk := skipHeader_line_cons _ _ (fun l => scanWithEOL_nl2 r0.1 h0.name (maxname + 2 - r0.1.length)
        (cseg L W 0 r0) (min (0 + W) L)
        (rs.flatMap (rowText maxname L W 0) ++ (SP :: consT alphabet maxname L (r0 :: rs) 0 ++
            NL :: blocksW version alphabet maxname L (r0 :: rs) L (0 + W))) l)
      ((SP :: (hdrText version ++ NL :: NL ::
        (r0.1 ++ rowTail (maxname + 2 - r0.1.length) (cseg L W 0 r0) (min (0 + W) L) ++
          (rs.flatMap (rowText maxname L W 0) ++ (SP :: consT alphabet maxname L (r0 :: rs) 0 ++
            NL :: blocksW version alphabet maxname L (r0 :: rs) L (0 + W)))))).length + 3)
      SP (hdrText version) (hdrText_noEol version hv)
      (by simp only [List.length_cons, List.length_append]; omega) .clustal .clustal (by decide) (by decide)
    unfold Clustal.parse parseR
    simp only [st_scan _ _ _ _ hs, bind, Except.bind, bne_self_eq_false, Bool.false_eq_true, if_false, hsk, hloop,
      hrows, build_written o ho L (r0 :: rs) (by simp) hlen hd, toOutcome]

/-! ### rows over the property's alphabets -/

theorem segOk_of (sg : Seq) (hne : sg ≠ []) (hres : ∀ b ∈ sg, Res b) (hasc : ∀ b ∈ sg, b < 0x80)
    (hkw : (∀ b ∈ sg, upper b ≠ 76) ∨ (∀ b ∈ sg, upper b ≠ 85)) : SegOk sg := by
  refine ⟨⟨hne, fun b hb => ⟨(hres b hb).1, (hres b hb).2.1⟩⟩, ?_⟩
  have hp := parseInt64_none sg hne (fun b hb => ⟨(hres b hb).2.2.1, (hres b hb).2.2.2⟩)
  have hno : ∀ k : Seq, (76 : Byte) ∈ k → (85 : Byte) ∈ k → ¬ (sg.map upper = k) := by
    intro k h1 h2 e
    rw [← e] at h1 h2
    obtain ⟨b1, hb1, e1⟩ := List.mem_map.mp h1
    obtain ⟨b2, hb2, e2⟩ := List.mem_map.mp h2
    cases hkw with
    | inl h => exact h b1 hb1 e1
    | inr h => exact h b2 hb2 e2
  have k1 := hno [67, 76, 85, 83, 84, 65, 76] (by decide) (by decide)
  have k2 := hno [67, 76, 85, 83, 84, 65, 76, 87] (by decide) (by decide)
  have hu : Utf8.upperLit sg = sg.map upper :=
    Gv.Proofs.Utf8Norm.upperLit_ascii sg (Gv.Proofs.Utf8Norm.allAscii_of_forall sg hasc)
  simp [classify, hp, hu, k1, k2]

theorem rowOk_of (L : Nat) (r : XRow) (hname : NameOk r.1) (hlen : r.2.length = L) (hres : ∀ b ∈ r.2, Res b)
    (hasc : ∀ b ∈ r.2, b < 0x80)
    (hkw : (∀ b ∈ r.2, upper b ≠ 76) ∨ (∀ b ∈ r.2, upper b ≠ 85)) : RowOk L W r := by
  refine ⟨hname, ?_, hlen⟩
  intro cur hc
  have hsub : ∀ b ∈ cseg L W cur r, b ∈ r.2 := fun b hb => List.mem_of_mem_drop (List.mem_of_mem_take hb)
  apply segOk_of
  · intro e
    have := congrArg List.length e
    simp only [cseg, List.length_take, List.length_drop, List.length_nil, hlen] at this
    have := W_pos
    omega
  · exact fun b hb => hres b (hsub b hb)
  · exact fun b hb => hasc b (hsub b hb)
  · cases hkw with
    | inl h => exact Or.inl (fun b hb => h b (hsub b hb))
    | inr h => exact Or.inr (fun b hb => h b (hsub b hb))

end Gv.Proofs.ClustalRT
