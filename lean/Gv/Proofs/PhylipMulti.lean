import Gv.Proofs.PhylipNoHang
import Gv.Proofs.PhylipHeader
/-!
Phylip `ParseMultiple` (C03): the stream loop terminates.  Every `Parse` call that hands on an alignment strictly
decreases the measure `ν` (remaining bytes + 1 for a pushed-back token other than EOF) — its header line alone
consumes four tokens — so a fuel larger than the input length is never exhausted.
-/
namespace Gv.Proofs.PhylipMulti
open Gv Gv.Model Gv.Model.Fmt Gv.Model.Fmt.Phylip Gv.Proofs.PhylipNoHang Gv.Proofs.PhylipHeader

theorem blocks_mono (l : Int) : ∀ (fuel : Nat) (tok : Tok) (s : St) (rows : List XRow) (v : List XRow × St),
    blocks l fuel tok s rows = .ok v → ν v.2 ≤ ν s := by
  intro fuel
  induction fuel with
  | zero => intro tok s rows v h; simp [blocks] at h
  | succ k ih =>
    intro tok s rows v h
    unfold blocks at h
    split at h
    · simp only [bind, Except.bind, pure, Except.pure] at h
      split at h
      · simp at h
      · rename_i v1 hv1
        split at h
        · simp at h
        · rename_i v2 hv2
          have h1 := ((nextBlock_c rows s []).1 v1 hv1).1
          have h2 := (afterBlock_c l v1.1 v1.2).1 v2 hv2
          have h3 := ih _ _ _ _ h
          omega
    · simp [pure, Except.pure] at h; subst h; exact Nat.le_refl _

theorem body_mono (o : POpts) (n l : Int) (s s' : St) (a : Aln) (h : body o n l s = .ok (a, s')) : ν s' ≤ ν s + 1 := by
  unfold body at h
  simp only [bind, Except.bind, pure, Except.pure] at h
  split at h
  · simp at h
  · rename_i v1 hv1
    have h1 := (firstBlock_c o.strict _ _ s [] (by have := ν_le s; omega)).1 v1 hv1
    split at h
    · simp at h
    · rename_i v2 hv2
      have h2 := (afterBlock_c l v1.1 v1.2).1 v2 hv2
      split at h
      · simp at h
      · rename_i v3 hv3
        have h3 := blocks_mono l _ _ _ _ v3 hv3
        split at h
        · simp at h
        · simp only [Except.ok.injEq, Prod.mk.injEq] at h
          obtain ⟨_, rfl⟩ := h
          have hu : ν (if l == firstLen v1.1 then v2.2.unscan else v2.2) ≤ ν v2.2 + 1 := by
            split
            · exact ν_unscan_le _
            · omega
          omega

theorem header_dec (af : Bool) (s s' : St) (n l : Int) (h : header af s = .ok (.counts n l, s')) : ν s' + 3 ≤ ν s := by
  obtain ⟨l1, s1, s2, l2, s3, hsl, _, hs1, hs2, _, hs3⟩ := header_inv af s s' n l h
  have h0 := (skipLeading_c _ s (by have := ν_le s; omega)).1 _ hsl
  have h1 := (scan_ok s1 s2 _ hs1).2.2.1 (by simp)
  have h2 := (scan_ok s2 s3 _ hs2).2.2.1 (by simp)
  have h3 := (scan_ok s3 s' _ hs3).2.2.1 (by simp)
  simp only at h0
  omega

/-- a `Parse` call that returns an alignment consumes input -/
theorem parseOne_dec (af : Bool) (o : POpts) (s s' : St) (a : Aln) (h : parseOne af o s = .ok (.aln a, s')) :
    ν s' + 2 ≤ ν s := by
  unfold parseOne at h
  simp only [bind, Except.bind, pure, Except.pure] at h
  repeat' (split at h <;> try (simp at h))
  rename_i vh hhdr _ nb ls hfst _ va hbody
  obtain ⟨_, rfl⟩ := h
  have hh : header af s = .ok (.counts nb ls, vh.2) := by
    rw [hhdr]; cases vh; simp at hfst; simp [hfst]
  have h1 := header_dec af s vh.2 nb ls hh
  have hb : body o nb ls vh.2 = .ok (va.1, va.2) := by rw [hbody]
  have h2 := body_mono o nb ls vh.2 va.2 va.1 hb
  omega

/-- **the stream loop never runs out of fuel** when the fuel exceeds the measure of the state -/
theorem parseMulti_nh (af : Bool) (o : POpts) : ∀ (fuel : Nat) (s : St) (acc : List Aln), ν s < fuel →
    parseMulti af o fuel s acc ≠ .stop .hang := by
  intro fuel
  induction fuel with
  | zero => intro s acc h; omega
  | succ k ih =>
    intro s acc hf
    unfold parseMulti
    cases h : parseOne af o s with
    | error e =>
      cases e with
      | error => simp
      | hang => exact absurd h (parseOne_nh af o s)
      | exit => simp
      | panic => simp
    | ok v =>
      obtain ⟨r, s'⟩ := v
      cases r with
      | aln a =>
        simp only
        exact ih s' _ (by have := parseOne_dec af o s s' a h; omega)
      | eos => simp
      | slow => simp

/-- without the allocation from the header count: never a panic, never the machine-dependent band -/
theorem parseMulti_np (o : POpts) : ∀ (fuel : Nat) (s : St) (acc : List Aln),
    parseMulti false o fuel s acc ≠ .stop .panic ∧ parseMulti false o fuel s acc ≠ .slow := by
  intro fuel
  induction fuel with
  | zero => intro s acc; simp [parseMulti]
  | succ k ih =>
    intro s acc
    unfold parseMulti
    cases h : parseOne false o s with
    | error e =>
      cases e with
      | error => simp
      | hang => simp
      | exit => simp
      | panic => exact absurd h (Gv.Proofs.PhylipOutcome.parseOne_np o s)
    | ok v =>
      obtain ⟨r, s'⟩ := v
      cases r with
      | aln a => simp only; exact ih s' _
      | eos => simp
      | slow => exact absurd h (parseOne_not_slow o s s')

end Gv.Proofs.PhylipMulti
