import Gv.Proofs.DistColsIGRev
/-!
Helper development for property C08, first half — Part L: reversing the column order leaves
`DistMatrix` unchanged in *every* counting mode when the weights are non-negative (for the
internal-gap mode through `internalGaps_reverse`), hence reverse complement in every mode.
-/
namespace Gv.Proofs.DistCols
open Gv Gv.Model.Dist
set_option maxRecDepth 100000

/-- `Distance` reads the sites only through the counters -/
theorem distance_eq_of_counters (c : Cfg ℝ) (ws' : Option (List ℝ)) (ini ini' : Init ℝ) (s1 s2 s1' s2' : List Code)
    (hpi : ini'.pi = ini.pi)
    (h : ∀ f words, runCounter c.variant f words (sites s1' s2' ini'.sel ws')
      = runCounter c.variant f words (sites s1 s2 ini.sel c.weights)) :
    distance { c with weights := ws' } ini' s1' s2' = distance c ini s1 s2 := by
  obtain ⟨model, rmGaps, gapMode, rmAmb, gamma, alpha, ws, variant⟩ := c
  simp only at h
  cases model <;> simp only [distance, hpi, h]

theorem runCounter_reverse (v : Variant) (f : Bool) (words : List String) (l : List (Site ℝ))
    (hw : ∀ s ∈ l, 0 ≤ s.w) (hlow : Low l) (hsel : SelShape n1S n2S (actS v.internalHonoursSelection) l) :
    runCounter v f words l.reverse = runCounter v f words l := by
  have hp : l.reverse.Perm l := List.reverse_perm l
  unfold runCounter
  split
  · simp only [countMutations_eq, wsum_perm _ hp]
  · simp only [countDiffs, countDiffsGen_eq, wsum_perm _ hp]
  · simp only [countDiffsWithGaps, countDiffsGen_eq, wsum_perm _ hp]
  · simp only [internalGaps_reverse _ _ l hw hlow hsel]
  · rfl

/-- every row reversed -/
def reverseRows (rows : List Seq) : List Seq := rows.map List.reverse

theorem reverseRows_eq_permute (rows : List Seq) (h : ∀ r ∈ rows, r.length = alnLen rows) :
    reverseRows rows = permuteCols (List.range (alnLen rows)).reverse rows := by
  unfold reverseRows permuteCols
  apply List.map_congr_left
  intro r hr
  have := pickCols_reverse (0 : Byte) r
  rw [h r hr] at this
  exact this.symm

theorem notBad_isNuc : ∀ b : Byte, badForSelection b = false → isNuc (codeOf b) = true := by decide +kernel

theorem weightAt_nonneg (ws : Option (List ℝ)) (hpos : ∀ v, ws = some v → ∀ x ∈ v, 0 ≤ x) (pos : Nat) :
    0 ≤ weightAt ws pos := by
  cases ws with
  | none => simp [weightAt]
  | some v =>
    simp only [weightAt]
    rw [List.getD_eq_getElem?_getD]
    cases h : v[pos]? with
    | none => simp
    | some y => exact hpos v rfl y (List.mem_of_getElem? h)

theorem selShape_cols (hon rm : Bool) (i j : Nat) (cols : List Col)
    (hij : ∀ c ∈ cols, i < c.1.length ∧ j < c.1.length) :
    SelShape n1S n2S (actS hon) (cols.map (siteOfCol rm i j)) := by
  cases hon with
  | false =>
    left
    intro u _
    simp [actS, n1S, n2S]
  | true =>
    cases rm with
    | false =>
      left
      intro u hu
      obtain ⟨c, _, rfl⟩ := List.mem_map.mp hu
      simp [actS, n1S, n2S, siteOfCol, selCol]
    | true =>
      right
      intro u hu hact
      obtain ⟨c, hc, rfl⟩ := List.mem_map.mp hu
      simp only [actS, siteOfCol, selCol, Bool.true_and, Bool.not_true, Bool.false_or, Bool.and_eq_true,
        Bool.not_eq_true', List.any_eq_false] at hact
      obtain ⟨_, hsel⟩ := hact
      obtain ⟨hi, hj⟩ := hij c hc
      constructor
      · simp only [n1S, siteOfCol]
        apply notBad_isNuc
        rw [List.getD_eq_getElem?_getD, List.getElem?_eq_getElem hi]
        simpa using hsel _ (List.getElem_mem hi)
      · simp only [n2S, siteOfCol]
        apply notBad_isNuc
        rw [List.getD_eq_getElem?_getD, List.getElem?_eq_getElem hj]
        simpa using hsel _ (List.getElem_mem hj)

theorem colsOf_reverse (rows : List Seq) (ws : Option (List ℝ)) :
    colsOf (permuteCols (List.range (alnLen rows)).reverse rows) (permuteWeights (List.range (alnLen rows)).reverse ws)
      = (colsOf rows ws).reverse := by
  rw [colsOf_permuteCols _ rows ws (List.reverse_perm _), List.map_reverse]
  rfl

/-- **reversing the column order** (weights reversed with their columns, non-negative): same matrix in every
counting mode, the internal-gap one included -/
theorem distMatrix_reverseRows (c : Cfg ℝ) (rows : List Seq) (hwf : WF rows c.weights)
    (hpos : ∀ v, c.weights = some v → ∀ x ∈ v, 0 ≤ x) (a b cc d : Int) :
    distMatrix { c with weights := reverseWeights (alnLen rows) c.weights } (reverseRows rows) a b cc d
      = distMatrix c rows a b cc d := by
  rw [reverseRows_eq_permute rows hwf.rect, reverseWeights_eq_permute _ _ hwf.wlen]
  set p := (List.range (alnLen rows)).reverse with hp
  have hperm : p.Perm (List.range (alnLen rows)) := List.reverse_perm _
  have hwf' := wf_permuteCols p rows c.weights hperm
  have hn : (permuteCols p rows).length = rows.length := by simp [permuteCols]
  have heq : ColEquiv 1 (colsOf (permuteCols p rows) (permuteWeights p c.weights)) (colsOf rows c.weights) :=
    colEquiv_of_perm (colsOf_permuteCols_perm p rows c.weights hperm)
  apply distMatrix_congr c { c with weights := permuteWeights p c.weights } rows (permuteCols p rows) a b cc d rfl hn
  rw [initModel_eq, initModel_eq, allOk_of_colEquiv c.weights _ rows _ 1 hwf hwf' heq]
  by_cases hall : rows.all (fun r => r.all okByte) = true
  swap
  · simp only [hall, Bool.false_eq_true, if_false]
  simp only [hall, if_true]
  intro i j
  apply distance_eq_of_counters
  · show piOf { c with weights := permuteWeights p c.weights } (permuteCols p rows) (permuteWeights p c.weights)
      = piOf c rows c.weights
    unfold piOf
    simp only
    split
    · rw [probaNt_eq_cols, probaNt_eq_cols, tot_of_colWeight _ 1 _ _ heq.2, one_smul]
    · rfl
  · intro f words
    show runCounter c.variant f words (sites (((permuteCols p rows).map fun r => r.map codeOf).getD i [])
        (((permuteCols p rows).map fun r => r.map codeOf).getD j []) (selectedSites (permuteCols p rows) c.rmGaps)
        (permuteWeights p c.weights))
      = runCounter c.variant f words (sites ((rows.map fun r => r.map codeOf).getD i [])
          ((rows.map fun r => r.map codeOf).getD j []) (selectedSites rows c.rmGaps) c.weights)
    by_cases hij : i < rows.length ∧ j < rows.length
    · rw [sites_eq_cols _ _ hwf' c.rmGaps i j (hn ▸ hij.1) (hn ▸ hij.2),
        sites_eq_cols rows c.weights hwf c.rmGaps i j hij.1 hij.2, hp, colsOf_reverse, List.map_reverse]
      apply runCounter_reverse
      · intro s hs
        obtain ⟨cl, hcl, rfl⟩ := List.mem_map.mp hs
        obtain ⟨pos, _, rfl⟩ := List.mem_map.mp hcl
        exact weightAt_nonneg c.weights hpos pos
      · exact low_cols _ _ _ _
      · apply selShape_cols
        intro cl hcl
        obtain ⟨pos, _, rfl⟩ := List.mem_map.mp hcl
        simpa using hij
    · rw [sites_out_of_range _ _ _ i j (by simpa [permuteCols] using hij),
        sites_out_of_range _ _ _ i j (by simpa using hij)]

/-- **reverse complement, every counting mode** (non-negative weights) -/
theorem distMatrix_revcompRows_all (c : Cfg ℝ) (rows : List Seq) (hwf : WF rows c.weights)
    (hok : rows.all (fun r => r.all okByte) = true) (hpos : ∀ v, c.weights = some v → ∀ x ∈ v, 0 ≤ x)
    (a b cc d : Int) :
    distMatrix { c with weights := reverseWeights (alnLen rows) c.weights } (revcompRows rows) a b cc d
      = distMatrix c rows a b cc d := by
  have h1 : revcompRows rows = reverseRows (complementRows rows) := by
    simp [revcompRows, reverseRows, complementRows, List.map_map, Function.comp_def]
  rw [h1, ← alnLen_complementRows rows, distMatrix_reverseRows c (complementRows rows)
    (wf_complementRows rows c.weights hwf) hpos, distMatrix_complementRows c rows hwf hok]

end Gv.Proofs.DistCols
