import Gv.Proofs.Utf8Norm
import Gv.Spec.Fmt
/-!
The naive header scanners of `Spec/Fmt.lean` read the same thing off the raw input and off what the lexer holds
(`Utf8.norm`): `declaredPhylip (norm bs) = declaredPhylip bs`, `blankToNul (norm bs) = blankToNul bs`, for ALL byte strings.

`norm` leaves every ASCII byte where it is and replaces every maximal run that starts with a byte ≥ 0x80 by bytes ≥ 0x80;
the scanners read ASCII blanks, signs and digits and stop at the first other byte.  `Sim a b`: the same maximal ASCII
prefix, after which both strings end or both go on with a byte ≥ 0x80.
-/
namespace Gv.Proofs.Utf8Header
open Gv Gv.Model Gv.Model.Fmt Gv.Model.Fmt.Utf8 Gv.Proofs.Utf8Norm
open Gv.Spec.Fmt (isBlank isDigit decVal leadingInt declaredPhylip blankToNul)

inductive Sim : List Byte → List Byte → Prop
  | nil : Sim [] []
  | cons (c : Byte) {x y : List Byte} (h : c < 0x80) (t : Sim x y) : Sim (c :: x) (c :: y)
  | hi (c d : Byte) (x y : List Byte) (hc : ¬ c < 0x80) (hd : ¬ d < 0x80) : Sim (c :: x) (d :: y)

theorem encodeRune_ne_nil (r : Nat) : encodeRune r ≠ [] := by
  unfold encodeRune
  repeat' split
  all_goals simp

theorem sim_norm_aux : ∀ (s : List Byte) (fuel : Nat), s.length ≤ fuel →
    Sim ((runesAux fuel s).flatMap encodeRune) s
  | [], fuel, _ => by cases fuel <;> simp [runesAux] <;> exact Sim.nil
  | b :: bs, 0, h => by simp at h
  | b :: bs, fuel + 1, h => by
    by_cases hb : b < 0x80
    · simp only [runesAux, decodeRune_ascii b bs hb, List.drop_succ_cons, List.drop_zero, List.flatMap_cons,
        encodeRune_ascii b hb]
      exact Sim.cons b hb (sim_norm_aux bs fuel (by simpa using h))
    · have hr := decodeRune_big b bs hb
      have he := encodeRune_big _ hr
      simp only [runesAux, List.flatMap_cons]
      cases hE : encodeRune (decodeRune (b :: bs)).1 with
      | nil => exact absurd hE (encodeRune_ne_nil _)
      | cons e es =>
        have h1 : ¬ e < 0x80 := he e (by rw [hE]; simp)
        exact Sim.hi e b _ _ h1 hb

/-- what the lexer holds and the raw input have the same ASCII prefix up to the first byte ≥ 0x80 of either -/
theorem sim_norm (s : List Byte) : Sim (norm s) s := sim_norm_aux s s.length (Nat.le_refl _)

theorem sim_dropWhile (p : Byte → Bool) (hp : ∀ c : Byte, ¬ c < 0x80 → p c = false) :
    ∀ {a b : List Byte}, Sim a b → Sim (a.dropWhile p) (b.dropWhile p)
  | _, _, .nil => by simpa using Sim.nil
  | _, _, .cons c h t => by
    simp only [List.dropWhile_cons]
    split
    · exact sim_dropWhile p hp t
    · exact Sim.cons c h t
  | _, _, .hi c d x y hc hd => by
    simp only [List.dropWhile_cons, hp c hc, hp d hd, Bool.false_eq_true, if_false]
    exact Sim.hi c d x y hc hd

theorem sim_takeWhile (p : Byte → Bool) (hp : ∀ c : Byte, ¬ c < 0x80 → p c = false) :
    ∀ {a b : List Byte}, Sim a b → a.takeWhile p = b.takeWhile p
  | _, _, .nil => rfl
  | _, _, .cons c h t => by
    simp only [List.takeWhile_cons]
    rw [sim_takeWhile p hp t]
  | _, _, .hi c d x y hc hd => by
    simp only [List.takeWhile_cons, hp c hc, hp d hd, Bool.false_eq_true, if_false]

set_option maxRecDepth 100000 in
theorem isDigit_hi : ∀ c : Byte, ¬ c < 0x80 → isDigit c = false := by decide
set_option maxRecDepth 100000 in
theorem isBlank_hi : ∀ c : Byte, ¬ c < 0x80 → isBlank c = false := by decide
set_option maxRecDepth 100000 in
theorem isSpTab_hi : ∀ c : Byte, ¬ c < 0x80 → (c == 32 || c == 9) = false := by decide
set_option maxRecDepth 100000 in
theorem sign_hi : ∀ c : Byte, ¬ c < 0x80 → c ≠ 45 ∧ c ≠ 43 ∧ c ≠ 0 := by decide

/-- the unsigned part of `leadingInt` -/
def numAt (neg : Bool) (s : List Byte) : Option (Int × List Byte) :=
  let ds := s.takeWhile isDigit
  if ds.isEmpty then none
  else some ((if neg then -(decVal ds : Int) else (decVal ds : Int)), s.dropWhile isDigit)

theorem leadingInt_nil : leadingInt [] = numAt false [] := rfl

theorem leadingInt_cons (c : Byte) (t : List Byte) :
    leadingInt (c :: t) = if c = 45 then numAt true t else if c = 43 then numAt false t else numAt false (c :: t) := by
  by_cases h1 : c = 45
  · subst h1; rfl
  · by_cases h2 : c = 43
    · subst h2; rfl
    · rw [if_neg h1, if_neg h2]
      unfold leadingInt
      split
      · rename_i neg s' hm
        split at hm
        · rename_i t' he; simp only [List.cons.injEq] at he; exact absurd he.1 h1
        · rename_i t' he; simp only [List.cons.injEq] at he; exact absurd he.1 h2
        · simp only [Prod.mk.injEq] at hm
          obtain ⟨hn, hs⟩ := hm
          subst hn; subst hs
          rfl

def SimO : Option (Int × List Byte) → Option (Int × List Byte) → Prop
  | none, none => True
  | some (n, r), some (m, r') => n = m ∧ Sim r r'
  | _, _ => False

theorem sim_numAt (neg : Bool) {a b : List Byte} (h : Sim a b) : SimO (numAt neg a) (numAt neg b) := by
  unfold numAt
  have ht := sim_takeWhile isDigit isDigit_hi h
  have hd := sim_dropWhile isDigit isDigit_hi h
  simp only [ht]
  by_cases he : (b.takeWhile isDigit).isEmpty = true
  · simp only [he, if_true, SimO]
  · simp only [he, Bool.false_eq_true, if_false, SimO]
    exact ⟨trivial, hd⟩

theorem sim_leadingInt : ∀ {a b : List Byte}, Sim a b → SimO (leadingInt a) (leadingInt b)
  | _, _, .nil => by rw [leadingInt_nil]; exact sim_numAt false Sim.nil
  | _, _, .cons c h t => by
    rw [leadingInt_cons, leadingInt_cons]
    by_cases h1 : c = 45
    · rw [if_pos h1, if_pos h1]; exact sim_numAt true t
    · rw [if_neg h1, if_neg h1]
      by_cases h2 : c = 43
      · rw [if_pos h2, if_pos h2]; exact sim_numAt false t
      · rw [if_neg h2, if_neg h2]; exact sim_numAt false (Sim.cons c h t)
  | _, _, .hi c d x y hc hd => by
    rw [leadingInt_cons, leadingInt_cons, if_neg (sign_hi c hc).1, if_neg (sign_hi c hc).2.1,
      if_neg (sign_hi d hd).1, if_neg (sign_hi d hd).2.1]
    exact sim_numAt false (Sim.hi c d x y hc hd)

/-- the naive Phylip header scanner reads the same counts off two strings that agree up to their first byte ≥ 0x80 -/
theorem sim_declaredPhylip {a b : List Byte} (h : Sim a b) : declaredPhylip a = declaredPhylip b := by
  unfold declaredPhylip
  have h1 := sim_leadingInt (sim_dropWhile isBlank isBlank_hi h)
  cases ha : leadingInt (a.dropWhile isBlank) with
  | none =>
    cases hb : leadingInt (b.dropWhile isBlank) with
    | none => rfl
    | some q => rw [ha, hb] at h1; exact h1.elim
  | some p =>
    cases hb : leadingInt (b.dropWhile isBlank) with
    | none => rw [ha, hb] at h1; obtain ⟨n, r⟩ := p; exact h1.elim
    | some q =>
      obtain ⟨n, r⟩ := p
      obtain ⟨m, r'⟩ := q
      rw [ha, hb] at h1
      obtain ⟨hnm, hs⟩ := h1
      subst hnm
      simp only
      have h2 := sim_leadingInt (sim_dropWhile (fun b => b == 32 || b == 9) isSpTab_hi hs)
      cases hc : leadingInt (r.dropWhile fun b => b == 32 || b == 9) with
      | none =>
        cases hd : leadingInt (r'.dropWhile fun b => b == 32 || b == 9) with
        | none => rfl
        | some q => rw [hc, hd] at h2; exact h2.elim
      | some p =>
        cases hd : leadingInt (r'.dropWhile fun b => b == 32 || b == 9) with
        | none => rw [hc, hd] at h2; obtain ⟨l, u⟩ := p; exact h2.elim
        | some q =>
          obtain ⟨l, u⟩ := p
          obtain ⟨l', u'⟩ := q
          rw [hc, hd] at h2
          simp only [h2.1]

theorem blankToNul_cons (x : Byte) (t : List Byte) :
    blankToNul (x :: t) = if x != 0 then isBlank x && blankToNul t else true := by
  unfold blankToNul
  by_cases h : (x != 0) = true
  · simp [h]
  · have h' : (x != 0) = false := by simpa using h
    rw [List.takeWhile_cons]
    simp [h']

theorem sim_blankToNul : ∀ {a b : List Byte}, Sim a b → blankToNul a = blankToNul b
  | _, _, .nil => rfl
  | _, _, .cons c h t => by rw [blankToNul_cons, blankToNul_cons, sim_blankToNul t]
  | _, _, .hi c d x y hc hd => by
    have c0 : (c != 0) = true := by simpa using (sign_hi c hc).2.2
    have d0 : (d != 0) = true := by simpa using (sign_hi d hd).2.2
    rw [blankToNul_cons, blankToNul_cons, if_pos c0, if_pos d0, isBlank_hi c hc, isBlank_hi d hd]
    rfl

/-- **the header line as the lexer holds it = the header line of the raw input**, ALL byte strings -/
theorem declaredPhylip_norm (bs : List Byte) : declaredPhylip (norm bs) = declaredPhylip bs :=
  sim_declaredPhylip (sim_norm bs)

theorem blankToNul_norm (bs : List Byte) : blankToNul (norm bs) = blankToNul bs :=
  sim_blankToNul (sim_norm bs)

end Gv.Proofs.Utf8Header
