import Gv.Proofs.DistCols
/-!
Helper development for property C08, first half — Part C: an alignment seen as the list of its
weighted columns (`colsOf`), and what `InitModel` / the pair counters / `probaNt` of
`Model/Dist.lean` read from it.

`WF rows ws` is the precondition of `dna.DistMatrix`: the rows have one length (an `align.Alignment`
is rectangular by construction) and the weight vector, when given, has an entry for every column
(`weights[i]` panics otherwise).
-/
namespace Gv.Proofs.DistCols
open Gv Gv.Model.Dist

/-- `al.Length()`: the length of the first row -/
def alnLen (rows : List Seq) : Nat := (rows.headD []).length

/-- `w := 1.0; if weights != nil { w = weights[pos] }` -/
def weightAt (ws : Option (List ℝ)) (pos : Nat) : ℝ :=
  match ws with
  | none => 1
  | some v => v.getD pos 1

/-- a column: its residues (one per row, top to bottom) and its weight -/
abbrev Col := List Byte × ℝ

/-- the weighted columns of an alignment, left to right -/
def colsOf (rows : List Seq) (ws : Option (List ℝ)) : List Col :=
  (List.range (alnLen rows)).map fun pos => (rows.map (·.getD pos 0), weightAt ws pos)

/-- precondition of `DistMatrix`: rectangular alignment, a weight for every column -/
structure WF (rows : List Seq) (ws : Option (List ℝ)) : Prop where
  rect : ∀ r ∈ rows, r.length = alnLen rows
  wlen : ∀ v, ws = some v → alnLen rows ≤ v.length

/-- the IUPAC bit code of a residue (0 for a residue without code; `alignmentToCodes` fails on those) -/
def codeOf (b : Byte) : Code := (nt2IndexIUPAC b).getD 0
def okByte (b : Byte) : Bool := (nt2IndexIUPAC b).isSome
/-- `selectedSites` for one column -/
def selCol (rm : Bool) (x : List Byte) : Bool := !(rm && x.any badForSelection)
/-- what the pair counters see of a column for the rows `i`, `j` -/
def siteOfCol (rm : Bool) (i j : Nat) (c : Col) : Site ℝ :=
  ⟨codeOf (c.1.getD i 0), codeOf (c.1.getD j 0), selCol rm c.1, c.2⟩

theorem codeOf_zero : codeOf 0 = 0 := by decide

theorem colsOf_length (rows : List Seq) (ws : Option (List ℝ)) : (colsOf rows ws).length = alnLen rows := by
  simp [colsOf]

/-! ### `selectedSites` and `alignmentToCodes` -/

theorem selectedSites_eq_cols (rows : List Seq) (rm : Bool) (ws : Option (List ℝ)) :
    selectedSites rows rm = (colsOf rows ws).map fun c => selCol rm c.1 := by
  unfold selectedSites colsOf selCol alnLen
  simp only [List.map_map]
  apply List.map_congr_left
  intro l _
  simp [List.any_map, Function.comp_def]

theorem mapM_opt {β γ : Type} (f : β → Option γ) (d : γ) (l : List β) :
    l.mapM f = if l.all (fun x => (f x).isSome) then some (l.map fun x => (f x).getD d) else none := by
  induction l with
  | nil => simp
  | cons x t ih =>
    rw [List.mapM_cons, ih]
    cases hx : f x with
    | none => simp [hx]
    | some y =>
      by_cases ht : (t.all fun x => (f x).isSome) = true
      · simp [hx, ht]
      · simp [hx, ht]

theorem alignmentToCodes_eq (rows : List Seq) :
    alignmentToCodes rows =
      if rows.all (fun r => r.all okByte) then some (rows.map fun r => r.map codeOf) else none := by
  unfold alignmentToCodes
  rw [mapM_opt (fun s : Seq => s.mapM nt2IndexIUPAC) [] rows]
  have h1 : ∀ r : Seq, (r.mapM nt2IndexIUPAC).isSome = r.all okByte := by
    intro r
    rw [mapM_opt nt2IndexIUPAC 0 r]
    unfold okByte
    split <;> simp_all
  have h2 : ∀ r : Seq, r.all okByte = true → (r.mapM nt2IndexIUPAC).getD [] = r.map codeOf := by
    intro r hr
    rw [mapM_opt nt2IndexIUPAC 0 r]
    unfold okByte at hr
    simp only [hr, if_true, Option.getD_some]
    rfl
  simp only [h1]
  split
  · rename_i hall
    congr 1
    apply List.map_congr_left
    intro r hr
    exact h2 r (List.all_eq_true.mp hall r hr)
  · rfl

/-- under rectangularity "every residue has a code" is a statement about the columns -/
theorem allOk_iff_cols (rows : List Seq) (ws : Option (List ℝ)) (h : ∀ r ∈ rows, r.length = alnLen rows) :
    rows.all (fun r => r.all okByte) = (colsOf rows ws).all fun c => c.1.all okByte := by
  rw [Bool.eq_iff_iff]
  simp only [List.all_eq_true, colsOf, List.mem_map, List.mem_range]
  constructor
  · intro hall c hc b hb
    obtain ⟨pos, hpos, rfl⟩ := hc
    simp only [List.mem_map] at hb
    obtain ⟨r, hr, rfl⟩ := hb
    apply hall r hr
    rw [List.getD_eq_getElem?_getD, List.getElem?_eq_getElem (by rw [h r hr]; exact hpos)]
    simp
  · intro hall r hr b hb
    obtain ⟨pos, hpos, rfl⟩ := List.getElem_of_mem hb
    have hp : pos < alnLen rows := by rw [← h r hr]; exact hpos
    have := hall (rows.map (·.getD pos 0), weightAt ws pos) ⟨pos, hp, rfl⟩ (r.getD pos 0)
      (List.mem_map.mpr ⟨r, hr, rfl⟩)
    rw [List.getD_eq_getElem?_getD, List.getElem?_eq_getElem hpos] at this
    simpa using this

/-! ### the sites of a pair -/

theorem weightAt_cons (w : ℝ) (vs : List ℝ) (pos : Nat) :
    weightAt (some (w :: vs)) (pos + 1) = weightAt (some vs) pos := by
  simp [weightAt]

theorem sites_eq_range (L : Nat) (s1 s2 : List Code) (sel : List Bool) (ws : Option (List ℝ))
    (h1 : s1.length = L) (h2 : s2.length = L) (h3 : sel.length = L) (h4 : ∀ v, ws = some v → L ≤ v.length) :
    sites s1 s2 sel ws =
      (List.range L).map fun pos => ⟨s1.getD pos 0, s2.getD pos 0, sel.getD pos false, weightAt ws pos⟩ := by
  induction L generalizing s1 s2 sel ws with
  | zero =>
    cases s1 with
    | nil => simp [sites]
    | cons a t => simp at h1
  | succ L ih =>
    cases s1 with
    | nil => simp at h1
    | cons a t1 =>
    cases s2 with
    | nil => simp at h2
    | cons b t2 =>
    cases sel with
    | nil => simp at h3
    | cons s ts =>
    simp only [List.length_cons, Nat.add_right_cancel_iff] at h1 h2 h3
    rw [List.range_succ_eq_map, List.map_cons, List.map_map]
    cases ws with
    | none =>
      simp only [sites]
      rw [ih t1 t2 ts none h1 h2 h3 (by intro v hv; cases hv)]
      simp [weightAt, Function.comp_def]
    | some v =>
      cases v with
      | nil => have := h4 [] rfl; simp at this
      | cons w vs =>
        simp only [sites]
        rw [ih t1 t2 ts (some vs) h1 h2 h3 (by
          intro v hv
          cases hv
          have := h4 (w :: vs) rfl
          simpa using this)]
        simp [weightAt, Function.comp_def]

theorem getD_map_codeOf (r : Seq) (pos : Nat) : (r.map codeOf).getD pos 0 = codeOf (r.getD pos 0) := by
  rw [List.getD_eq_getElem?_getD, List.getD_eq_getElem?_getD, List.getElem?_map]
  cases r[pos]? with
  | none => simp [codeOf_zero]
  | some b => simp

theorem getD_map_range {β : Type} (f : Nat → β) (L pos : Nat) (d : β) (h : pos < L) :
    ((List.range L).map f).getD pos d = f pos := by
  rw [List.getD_eq_getElem?_getD, List.getElem?_map, List.getElem?_range h]
  rfl

/-- the sites of the pair `(i, j)` are the columns seen through `siteOfCol` -/
theorem sites_eq_cols (rows : List Seq) (ws : Option (List ℝ)) (hwf : WF rows ws) (rm : Bool) (i j : Nat)
    (hi : i < rows.length) (hj : j < rows.length) :
    sites ((rows.map fun r => r.map codeOf).getD i []) ((rows.map fun r => r.map codeOf).getD j [])
        (selectedSites rows rm) ws
      = (colsOf rows ws).map (siteOfCol rm i j) := by
  have gi : (rows.map fun r => r.map codeOf).getD i [] = (rows[i]).map codeOf := by
    rw [List.getD_eq_getElem?_getD, List.getElem?_map, List.getElem?_eq_getElem hi]; rfl
  have gj : (rows.map fun r => r.map codeOf).getD j [] = (rows[j]).map codeOf := by
    rw [List.getD_eq_getElem?_getD, List.getElem?_map, List.getElem?_eq_getElem hj]; rfl
  rw [gi, gj]
  rw [sites_eq_range (alnLen rows) _ _ _ ws
    (by rw [List.length_map]; exact hwf.rect _ (List.getElem_mem hi))
    (by rw [List.length_map]; exact hwf.rect _ (List.getElem_mem hj))
    (by simp [selectedSites, alnLen]) hwf.wlen]
  unfold colsOf
  rw [List.map_map]
  apply List.map_congr_left
  intro pos hpos
  have hpos' : pos < alnLen rows := List.mem_range.mp hpos
  have ci : (rows.map (·.getD pos 0)).getD i 0 = rows[i].getD pos 0 := by
    rw [List.getD_eq_getElem?_getD, List.getElem?_map, List.getElem?_eq_getElem hi]; rfl
  have cj : (rows.map (·.getD pos 0)).getD j 0 = rows[j].getD pos 0 := by
    rw [List.getD_eq_getElem?_getD, List.getElem?_map, List.getElem?_eq_getElem hj]; rfl
  have hs : (selectedSites rows rm).getD pos false = selCol rm (rows.map (·.getD pos 0)) := by
    unfold selectedSites
    rw [getD_map_range _ _ _ _ (by simpa [alnLen] using hpos')]
    simp [selCol, List.any_map, Function.comp_def]
  simp only [Function.comp, siteOfCol, getD_map_codeOf, ci, cj, hs]

/-- outside the matrix (`i` or `j` is not a row) a pair has no site -/
theorem sites_out_of_range (codes : List (List Code)) (sel : List Bool) (ws : Option (List ℝ)) (i j : Nat)
    (h : ¬ (i < codes.length ∧ j < codes.length)) :
    sites (codes.getD i []) (codes.getD j []) sel ws = [] := by
  by_cases hi : i < codes.length
  · have hj : ¬ j < codes.length := fun hj => h ⟨hi, hj⟩
    have : codes.getD j [] = [] := by
      rw [List.getD_eq_getElem?_getD, List.getElem?_eq_none (by omega)]; rfl
    rw [this]
    cases codes.getD i [] <;> simp [sites]
  · have : codes.getD i [] = [] := by
      rw [List.getD_eq_getElem?_getD, List.getElem?_eq_none (by omega)]; rfl
    rw [this]
    simp [sites]

/-- a weighted count over the sites of a pair is a weighted sum over the columns -/
theorem wsum_cols (ind : Code → Code → Bool → Bool) (rm : Bool) (i j : Nat) (cols : List Col) :
    wsum ind (cols.map (siteOfCol rm i j)) =
      tot (fun x : List Byte =>
        if ind (codeOf (x.getD i 0)) (codeOf (x.getD j 0)) (selCol rm x) then (1 : ℝ) else 0) cols := by
  unfold wsum tot
  rw [List.map_map]
  congr 1
  apply List.map_congr_left
  intro c _
  simp only [Function.comp, siteOfCol, smul_eq_mul]
  rw [mul_ite, mul_one, mul_zero]
  rfl

end Gv.Proofs.DistCols
