import Gv.Model.Stats
import Gv.Spec.Stats
/-!
C14, counting core: the sorted association list maintained by `Model.bump` is the naive count table
`Spec.tableOf` (for every key list, every counting function), hence `Model.countsBy = Spec.countTable`.
-/
namespace Gv.Proofs.StatsCount
open Gv Gv.Model
set_option linter.unusedSimpArgs false

/-- the table over an arbitrary key list -/
def tab (ks : List Byte) (g : Byte → Nat) : List (Byte × Nat) :=
  ks.filterMap fun k => if g k > 0 then some (k, g k) else none

theorem tab_cons (a : Byte) (t : List Byte) (g : Byte → Nat) :
    tab (a :: t) g = if g a > 0 then (a, g a) :: tab t g else tab t g := by
  unfold tab
  by_cases h : g a > 0 <;> simp [List.filterMap_cons, h]

theorem tab_congr (ks : List Byte) (g g' : Byte → Nat) (h : ∀ k ∈ ks, g k = g' k) : tab ks g = tab ks g' := by
  induction ks with
  | nil => rfl
  | cons a t ih =>
    rw [tab_cons, tab_cons, h a (by simp), ih (fun k hk => h k (by simp [hk]))]

theorem tab_keys_mem (ks : List Byte) (g : Byte → Nat) (p : Byte × Nat) (h : p ∈ tab ks g) : p.1 ∈ ks := by
  unfold tab at h
  rw [List.mem_filterMap] at h
  obtain ⟨k, hk, e⟩ := h
  split at e
  · simp only [Option.some.injEq] at e; subst e; exact hk
  · simp at e

/-- inserting a key smaller than every key present puts it in front -/
theorem bump_lt_all (k : Byte) (l : List (Byte × Nat)) (h : ∀ p ∈ l, k < p.1) : bump k l = (k, 1) :: l := by
  cases l with
  | nil => rfl
  | cons p t =>
    obtain ⟨a, n⟩ := p
    have hlt : k < a := h (a, n) (by simp)
    have hne : (k == a) = false := by
      simp only [beq_eq_false_iff_ne, ne_eq]
      intro e; subst e; exact absurd hlt (by simp [UInt8.lt_iff_toNat_lt])
    simp [bump, hne, hlt]

/-- the counting function with one more occurrence of `k` -/
def incr (g : Byte → Nat) (k : Byte) : Byte → Nat := fun x => if x == k then g x + 1 else g x

theorem bump_tab (ks : List Byte) (hs : ks.Pairwise (· < ·)) (g : Byte → Nat) (k : Byte) (hk : k ∈ ks) :
    bump k (tab ks g) = tab ks (incr g k) := by
  induction ks with
  | nil => simp at hk
  | cons a t ih =>
    have hs' := List.pairwise_cons.mp hs
    rw [tab_cons, tab_cons]
    by_cases hka : k = a
    · subst hka
      have hrest : tab t (incr g k) = tab t g := by
        apply tab_congr
        intro x hx
        have : k < x := hs'.1 x hx
        have hne : (x == k) = false := by
          simp only [beq_eq_false_iff_ne, ne_eq]
          intro e; subst e; exact absurd this (by simp [UInt8.lt_iff_toNat_lt])
        simp [incr, hne]
      have hinc : incr g k k = g k + 1 := by simp [incr]
      rw [hrest, hinc]
      by_cases hg : g k > 0
      · simp [hg, bump]
      · have hz : g k = 0 := by omega
        simp only [hg, if_false, hz, Nat.zero_add, Nat.lt_add_one, if_true]
        apply bump_lt_all
        intro p hp
        exact hs'.1 p.1 (tab_keys_mem t g p hp)
    · have hkt : k ∈ t := by
        rcases List.mem_cons.mp hk with h | h
        · exact absurd h hka
        · exact h
      have hak : a < k := hs'.1 k hkt
      have hinc : incr g k a = g a := by
        have : (a == k) = false := by
          simp only [beq_eq_false_iff_ne, ne_eq]; exact fun e => hka e.symm
        simp [incr, this]
      rw [hinc]
      have hne : (k == a) = false := by simp only [beq_eq_false_iff_ne, ne_eq]; exact hka
      have hnlt : ¬ k < a := by
        rw [UInt8.lt_iff_toNat_lt] at hak ⊢; omega
      by_cases hg : g a > 0
      · simp only [hg, if_true, bump, hne, Bool.false_eq_true, if_false, hnlt]
        rw [ih hs'.2 hkt]
      · simp only [hg, if_false]
        exact ih hs'.2 hkt

theorem allBytes_pairwise : Spec.allBytes.Pairwise (· < ·) := by
  unfold Spec.allBytes
  rw [List.pairwise_map]
  apply List.Pairwise.imp_of_mem (R := (· < ·))
  · intro a b ha hb hab
    rw [List.mem_range] at ha hb
    rw [UInt8.lt_iff_toNat_lt]
    simp only [UInt8.toNat_ofNat']
    omega
  · exact List.pairwise_lt_range

theorem mem_allBytes (k : Byte) : k ∈ Spec.allBytes := by
  unfold Spec.allBytes
  rw [List.mem_map]
  exact ⟨k.toNat, List.mem_range.mpr k.toNat_lt, by simp⟩

theorem allBytes_nodup : Spec.allBytes.Nodup := by
  have := allBytes_pairwise
  apply List.Pairwise.imp _ this
  intro a b hab e
  subst e
  exact absurd hab (by simp [UInt8.lt_iff_toNat_lt])

theorem tab_allBytes (g : Byte → Nat) : tab Spec.allBytes g = Spec.tableOf g := rfl

theorem occ_append_singleton (f : Byte → Byte) (cs : List Byte) (c : Byte) (k : Byte) :
    Spec.occ f (cs ++ [c]) k = incr (Spec.occ f cs) (f c) k := by
  unfold Spec.occ incr
  rw [List.countP_append]
  by_cases h : k = f c
  · subst h; simp
  · have h1 : (f c == k) = false := by simp only [beq_eq_false_iff_ne, ne_eq]; exact fun e => h e.symm
    have h2 : (k == f c) = false := by simp only [beq_eq_false_iff_ne, ne_eq]; exact h
    simp [h1, h2]

private theorem countsBy_aux (f : Byte → Byte) (cs done : List Byte) :
    cs.foldl (fun acc c => bump (f c) acc) (Spec.countTable f done) = Spec.countTable f (done ++ cs) := by
  induction cs generalizing done with
  | nil => simp
  | cons c t ih =>
    simp only [List.foldl_cons]
    have : bump (f c) (Spec.countTable f done) = Spec.countTable f (done ++ [c]) := by
      unfold Spec.countTable
      rw [← tab_allBytes, ← tab_allBytes, bump_tab _ allBytes_pairwise _ _ (mem_allBytes _)]
      apply tab_congr
      intro k _
      exact (occ_append_singleton f done c k).symm
    rw [this, ih]
    simp

/-- **the model's count list is the naive count table** -/
theorem countsBy_eq (f : Byte → Byte) (cs : List Byte) : countsBy f cs = Spec.countTable f cs := by
  have h0 : Spec.countTable f [] = [] := by
    unfold Spec.countTable Spec.tableOf
    simp [Spec.occ]
  have := countsBy_aux f cs []
  rw [h0] at this
  simpa [countsBy] using this

theorem upper_eq : Spec.upperCase = toUpper := by
  funext c; rfl

/-- the naive count table depends on the multiset of characters only -/
theorem countTable_perm (f : Byte → Byte) (cs cs' : List Byte) (h : cs.Perm cs') :
    Spec.countTable f cs = Spec.countTable f cs' := by
  unfold Spec.countTable Spec.tableOf
  have : ∀ k, Spec.occ f cs k = Spec.occ f cs' k := fun k => h.countP_eq _
  simp [this]

/-! ### reading the table -/

theorem find_tab (ks : List Byte) (hn : ks.Nodup) (g : Byte → Nat) (k : Byte) (hk : k ∈ ks) :
    (tab ks g).find? (fun p => p.1 == k) = if g k > 0 then some (k, g k) else none := by
  induction ks with
  | nil => simp at hk
  | cons a t ih =>
    have hn' := List.nodup_cons.mp hn
    rw [tab_cons]
    by_cases hka : k = a
    · subst hka
      by_cases hg : g k > 0
      · simp [hg]
      · simp only [hg, if_false]
        rw [List.find?_eq_none]
        intro p hp
        have := tab_keys_mem t g p hp
        simp only [beq_iff_eq]
        intro e; subst e; exact hn'.1 this
    · have hkt : k ∈ t := by
        rcases List.mem_cons.mp hk with h | h
        · exact absurd h hka
        · exact h
      by_cases hg : g a > 0
      · have : (a == k) = false := by simp only [beq_eq_false_iff_ne, ne_eq]; exact fun e => hka e.symm
        simp only [hg, if_true, List.find?_cons, this]
        exact ih hn'.2 hkt
      · simp only [hg, if_false]
        exact ih hn'.2 hkt

theorem find_countTable (f : Byte → Byte) (cs : List Byte) (k : Byte) :
    (Spec.countTable f cs).find? (fun p => p.1 == k) =
      if Spec.occ f cs k > 0 then some (k, Spec.occ f cs k) else none :=
  find_tab _ allBytes_nodup _ k (mem_allBytes k)

theorem tab_length (ks : List Byte) (g : Byte → Nat) : (tab ks g).length = (ks.filter fun k => g k > 0).length := by
  induction ks with
  | nil => rfl
  | cons a t ih =>
    rw [tab_cons]
    by_cases hg : g a > 0
    · simp [hg, ih]
    · simp [hg, ih]

theorem tab_keys (ks : List Byte) (g : Byte → Nat) : (tab ks g).map Prod.fst = ks.filter fun k => g k > 0 := by
  induction ks with
  | nil => rfl
  | cons a t ih =>
    rw [tab_cons]
    by_cases hg : g a > 0
    · simp [hg, ih]
    · simp [hg, ih]

end Gv.Proofs.StatsCount
