import Gv.Model.Pool
/-!
Invariant of the worker-pool transition system and the analysis of its terminal states.
Helper development for `Props/C08.lean` and `Props/C16.lean` (multiset facts are `List.count`
equalities closed by `omega`).
-/
namespace Gv.Proofs.PoolCore
open Gv.Model.Pool

set_option linter.unusedSectionVars false
variable {J V : Type} [DecidableEq J]

theorem count_filterMap_set {α K : Type} [DecidableEq K] (g : α → Option K) :
    ∀ (l : List α) (w : Nat) (old new : α) (y : K), l[w]? = some old →
    ((l.set w new).filterMap g).count y + (if g old = some y then 1 else 0) =
      (l.filterMap g).count y + (if g new = some y then 1 else 0)
  | [], w, old, new, y, h => by simp at h
  | a :: t, 0, old, new, y, h => by
    simp at h; subst h
    simp only [List.set_cons_zero, List.filterMap_cons]
    cases hg : g a <;> cases hn : g new <;> simp [List.count_cons] <;> omega
  | a :: t, w + 1, old, new, y, h => by
    have ih := count_filterMap_set g t w old new y (by simpa using h)
    simp only [List.set_cons_succ, List.filterMap_cons]
    cases hg : g a
    · simpa using ih
    · simp only [List.count_cons]; omega


theorem live_zero_all_exited : ∀ (ws : List (W J)), (ws.filterMap liveOf).count () = 0 →
    ∀ w, w < ws.length → ws[w]? = some W.exited
  | [], _, w, hw => by simp at hw
  | a :: t, h, w, hw => by
    cases a with
    | exited =>
      simp only [List.filterMap_cons, liveOf] at h
      cases w with
      | zero => rfl
      | succ w => simpa using live_zero_all_exited t h w (by simpa using hw)
    | idle => simp [liveOf] at h
    | holding j => simp [liveOf] at h
    | post j => simp [liveOf] at h

theorem filterMap_replicate_idle {K : Type} (g : W J → Option K) (hg : g W.idle = none) (n : Nat) :
    (List.replicate n (W.idle : W J)).filterMap g = [] := by
  induction n with
  | zero => rfl
  | succ k ih => simp [List.replicate_succ, hg, ih]

theorem live_replicate_idle (n : Nat) :
    ((List.replicate n (W.idle : W J)).filterMap liveOf).count () = n := by
  induction n with
  | zero => rfl
  | succ k ih => simp [List.replicate_succ, liveOf, ih]

/-- every job is in exactly one place -/
def pending (c : Cfg J V) : List J :=
  c.todo ++ c.chan ++ c.workers.filterMap holdingOf ++ c.store.map Prod.fst ++ c.failed ++ c.dropped

structure Inv (P : Params J V) (jobs : List J) (n : Nat) (c : Cfg J V) : Prop where
  conserve : ∀ x, (pending c).count x = jobs.count x
  accOk : ∀ x, (c.acc ++ c.workers.filterMap postOf).count x = (c.store.map Prod.fst).count x
  values : ∀ p ∈ c.store, p.2 = P.f p.1 ∧ P.fails p.1 = false
  failedOk : ∀ j ∈ c.failed, P.fails j = true
  closedTodo : c.closed = true → c.todo = []
  len : c.workers.length = n
  wgOk : c.wg = (c.workers.filterMap liveOf).count () + (if P.d.doneOnFail then 0 else c.failed.length)
  errOk : c.err.isSome = true → c.failed ≠ []
  errSticky : P.d.errSticky = true → c.failed ≠ [] → c.err.isSome = true
  exitedOk : ∀ w : Nat, c.workers[w]? = some W.exited → (c.closed = true ∧ c.chan = []) ∨ c.failed ≠ []
  waitedOk : c.waited = true → c.wg = 0
  resOk : c.resClosed ≤ 1 ∧ (c.resClosed = 1 → c.waited = true)
  droppedOk : c.dropped ≠ [] → c.failed ≠ []

theorem init_inv (P : Params J V) (jobs : List J) (n : Nat) : Inv P jobs n (init jobs n) := by
  refine ⟨?_, ?_, ?_, ?_, ?_, ?_, ?_, ?_, ?_, ?_, ?_, ?_, ?_⟩
  · intro x
    simp [pending, init, filterMap_replicate_idle holdingOf rfl]
  · intro x
    simp [init, filterMap_replicate_idle postOf rfl]
  · intro p hp; simp [init] at hp
  · intro j hj; simp [init] at hj
  · intro h; simp [init] at h
  · simp [init]
  · simp only [init, live_replicate_idle, List.length_nil]; split <;> rfl
  · intro h; simp [init] at h
  · intro _ h; simp [init] at h
  · intro w h; simp [init, List.getElem?_replicate] at h
  · intro h; simp [init] at h
  · simp [init]
  · intro h; simp [init] at h


theorem exited_of_set {ws : List (W J)} {w w' : Nat} {x : W J} (hx : x ≠ W.exited)
    (h : (ws.set w x)[w']? = some W.exited) : ws[w']? = some W.exited := by
  rw [List.getElem?_set] at h
  split at h
  · split at h
    · simp at h; exact absurd h hx
    · simp at h
  · exact h

theorem exited_of_set_exited {ws : List (W J)} {w w' : Nat}
    (h : (ws.set w W.exited)[w']? = some W.exited) : w = w' ∨ ws[w']? = some W.exited := by
  by_cases e : w = w'
  · exact Or.inl e
  · rw [List.getElem?_set] at h; simp [e] at h; exact Or.inr h

theorem step_inv (P : Params J V) (jobs : List J) (n : Nat) (hn : 0 < n) (c c' : Cfg J V) (l : Label)
    (h : Inv P jobs n c) (hs : step? P c l = some c') : Inv P jobs n c' := by
  obtain ⟨hc, ha, hv, hf, hct, hl, hw, he, hes, hx, hwt, hr, hd⟩ := h
  cases l with
  | produce =>
    simp only [step?] at hs
    split at hs
    · rename_i j t ht
      split at hs
      · simp only [Option.some.injEq] at hs; subst hs
        refine ⟨?_, ha, hv, hf, ?_, hl, hw, he, hes, ?_, hwt, hr, hd⟩
        · intro x
          have := hc x
          simp only [pending, ht, List.count_append, List.count_cons, List.count_nil] at this ⊢
          omega
        · intro hcl; have := hct hcl; rw [ht] at this; cases this
        · intro w' hw'
          cases hx w' hw' with
          | inl h1 => have := hct h1.1; rw [ht] at this; cases this
          | inr h2 => exact Or.inr h2
      · simp at hs
    · simp at hs
  | close =>
    simp only [step?] at hs
    split at hs
    · rename_i ht
      split at hs
      · simp at hs
      · rename_i hcl
        simp only [Option.some.injEq] at hs; subst hs
        refine ⟨hc, ha, hv, hf, fun _ => ht, hl, hw, he, hes, ?_, hwt, hr, hd⟩
        intro w' hw'
        cases hx w' hw' with
        | inl h1 => exact Or.inl ⟨rfl, h1.2⟩
        | inr h2 => exact Or.inr h2
    · simp at hs
  | recv w =>
    simp only [step?] at hs
    split at hs
    · rename_i j r hch hwk
      simp only [Option.some.injEq] at hs; subst hs
      refine ⟨?_, ?_, hv, hf, hct, ?_, ?_, he, hes, ?_, hwt, hr, hd⟩
      · intro x
        have := hc x
        have hs := count_filterMap_set holdingOf c.workers w W.idle (W.holding j) x hwk
        simp only [pending, hch, List.count_append, List.count_cons, holdingOf] at this hs ⊢
        by_cases e : j = x <;> simp [e] at this hs ⊢ <;> omega
      · intro x
        have := ha x
        have hs := count_filterMap_set postOf c.workers w W.idle (W.holding j) x hwk
        simp only [List.count_append, postOf] at this hs ⊢
        simp at hs
        omega
      · simp [hl]
      · have hs := count_filterMap_set liveOf c.workers w W.idle (W.holding j) () hwk
        simp only [liveOf] at hs
        simp at hs
        simp only []; omega
      · intro w' hw'
        have := exited_of_set (by simp) hw'
        cases hx w' this with
        | inl h1 => rw [hch] at h1; simp at h1
        | inr h2 => exact Or.inr h2
    · simp at hs
  | work w =>
    simp only [step?] at hs
    split at hs
    · rename_i j hwk
      split at hs
      · simp at hs
      · rename_i hfl
        simp only [Option.some.injEq] at hs; subst hs
        refine ⟨?_, ?_, ?_, hf, hct, ?_, ?_, ?_, ?_, ?_, hwt, hr, hd⟩
        · intro x
          have := hc x
          have hs := count_filterMap_set holdingOf c.workers w (W.holding j) (W.post j) x hwk
          simp only [pending, List.count_append, List.count_cons, List.map_cons,
            holdingOf] at this hs ⊢
          by_cases e : j = x <;> simp [e] at this hs ⊢ <;> omega
        · intro x
          have := ha x
          have hs := count_filterMap_set postOf c.workers w (W.holding j) (W.post j) x hwk
          simp only [List.count_append, List.count_cons, List.map_cons, postOf] at this hs ⊢
          by_cases e : j = x <;> simp [e] at this hs ⊢ <;> omega
        · intro p hp
          simp only [List.mem_cons] at hp
          cases hp with
          | inl e => subst e; exact ⟨rfl, by simpa using hfl⟩
          | inr e => exact hv p e
        · simp [hl]
        · have hs := count_filterMap_set liveOf c.workers w (W.holding j) (W.post j) () hwk
          simp only [liveOf] at hs
          simp at hs
          simp only []; omega
        · intro h
          apply he
          simp only [] at h
          split at h
          · exact h
          · simp at h
        · intro h1 h2
          simp only [h1, if_true]
          exact hes h1 h2
        · intro w' hw'
          exact hx w' (exited_of_set (by simp) hw')
    · simp at hs
  | lock w =>
    simp only [step?] at hs
    split at hs
    · rename_i j hwk
      simp only [Option.some.injEq] at hs; subst hs
      refine ⟨?_, ?_, hv, hf, hct, ?_, ?_, he, hes, ?_, hwt, hr, hd⟩
      · intro x
        have := hc x
        have hs := count_filterMap_set holdingOf c.workers w (W.post j) W.idle x hwk
        simp only [pending, List.count_append, holdingOf] at this hs ⊢
        simp at hs
        omega
      · intro x
        have := ha x
        have hs := count_filterMap_set postOf c.workers w (W.post j) W.idle x hwk
        simp only [List.count_append, List.count_cons, postOf] at this hs ⊢
        by_cases e : j = x <;> simp [e] at this hs ⊢ <;> omega
      · simp [hl]
      · have hs := count_filterMap_set liveOf c.workers w (W.post j) W.idle () hwk
        simp only [liveOf] at hs
        simp at hs
        simp only []; omega
      · intro w' hw'
        exact hx w' (exited_of_set (by simp) hw')
    · simp at hs
  | fail w =>
    simp only [step?] at hs
    split at hs
    · rename_i j hwk
      split at hs
      · rename_i hfl
        simp only [Option.some.injEq] at hs; subst hs
        have hlive := count_filterMap_set liveOf c.workers w (W.holding j) W.exited () hwk
        simp only [liveOf] at hlive
        simp at hlive
        refine ⟨?_, ?_, hv, ?_, hct, ?_, ?_, ?_, ?_, ?_, ?_, hr, ?_⟩
        · intro x
          have := hc x
          have hs := count_filterMap_set holdingOf c.workers w (W.holding j) W.exited x hwk
          simp only [pending, List.count_append, List.count_cons, holdingOf] at this hs ⊢
          by_cases e : j = x <;> simp [e] at this hs ⊢ <;> omega
        · intro x
          have := ha x
          have hs := count_filterMap_set postOf c.workers w (W.holding j) W.exited x hwk
          simp only [List.count_append, postOf] at this hs ⊢
          simp at hs
          omega
        · intro j' hj'
          simp only [List.mem_cons] at hj'
          cases hj' with
          | inl e => subst e; exact hfl
          | inr e => exact hf j' e
        · simp [hl]
        · simp only [List.length_cons]
          cases hdf : P.d.doneOnFail <;> simp [hdf] at hw ⊢ <;> omega
        · intro _; simp
        · intro _ _
          simp only []
          split
          · rename_i h; simp at h; exact h.2
          · rfl
        · intro w' hw'; exact Or.inr (by simp)
        · intro hwd
          have h0 := hwt hwd
          -- a worker is still holding a job, so the counter cannot be zero
          cases hdf : P.d.doneOnFail <;> simp [hdf] at hw ⊢ <;> omega
        · intro _; simp
      · simp at hs
    · simp at hs
  | exit w =>
    simp only [step?] at hs
    split at hs
    · rename_i hch hwk
      split at hs
      · rename_i hcl
        simp only [Option.some.injEq] at hs; subst hs
        have hlive := count_filterMap_set liveOf c.workers w W.idle W.exited () hwk
        simp only [liveOf] at hlive
        simp at hlive
        refine ⟨?_, ?_, hv, hf, hct, ?_, ?_, he, hes, ?_, ?_, hr, hd⟩
        · intro x
          have := hc x
          have hs := count_filterMap_set holdingOf c.workers w W.idle W.exited x hwk
          simp only [pending, List.count_append, holdingOf] at this hs ⊢
          simp at hs
          omega
        · intro x
          have := ha x
          have hs := count_filterMap_set postOf c.workers w W.idle W.exited x hwk
          simp only [List.count_append, postOf] at this hs ⊢
          simp at hs
          omega
        · simp [hl]
        · simp only []; omega
        · intro w' hw'
          cases exited_of_set_exited hw' with
          | inl e => exact Or.inl ⟨hcl, hch⟩
          | inr e => exact hx w' e
        · intro hwd; have := hwt hwd; simp only []; omega
      · simp at hs
    · simp at hs
  | abort w =>
    simp only [step?] at hs
    split at hs
    · rename_i j hwk
      split at hs
      · rename_i herr
        simp only [Option.some.injEq] at hs; subst hs
        have hlive := count_filterMap_set liveOf c.workers w (W.holding j) W.exited () hwk
        simp only [liveOf] at hlive
        simp at hlive
        refine ⟨?_, ?_, hv, hf, hct, ?_, ?_, he, hes, ?_, ?_, hr, fun _ => he herr⟩
        · intro x
          have := hc x
          have hs := count_filterMap_set holdingOf c.workers w (W.holding j) W.exited x hwk
          simp only [pending, List.count_append, List.count_cons, holdingOf] at this hs ⊢
          by_cases e : j = x <;> simp [e] at this hs ⊢ <;> omega
        · intro x
          have := ha x
          have hs := count_filterMap_set postOf c.workers w (W.holding j) W.exited x hwk
          simp only [List.count_append, postOf] at this hs ⊢
          simp at hs
          omega
        · simp [hl]
        · simp only []; omega
        · intro w' hw'
          cases exited_of_set_exited hw' with
          | inl e => exact Or.inr (he herr)
          | inr e => exact hx w' e
        · intro hwd; have := hwt hwd; simp only []; omega
      · simp at hs
    · simp at hs
  | wait =>
    simp only [step?] at hs
    split at hs
    · rename_i hcond
      simp only [Option.some.injEq] at hs; subst hs
      exact ⟨hc, ha, hv, hf, hct, hl, hw, he, hes, hx, fun _ => hcond.1, ⟨hr.1, fun _ => rfl⟩, hd⟩
    · simp at hs
  | closeRes =>
    simp only [step?] at hs
    split at hs
    · rename_i hcond
      simp only [Option.some.injEq] at hs; subst hs
      exact ⟨hc, ha, hv, hf, hct, hl, hw, he, hes, hx, hwt, ⟨Nat.le_refl 1, fun _ => hcond.1⟩, hd⟩
    · simp at hs
  | drain =>
    simp only [step?] at hs
    split at hs
    · rename_i j r hch
      split at hs
      · rename_i hwd
        simp only [Option.some.injEq] at hs; subst hs
        have h0 := hwt hwd
        have hlive : (c.workers.filterMap liveOf).count () = 0 := by omega
        have hex := live_zero_all_exited c.workers hlive 0 (by omega)
        have hfailed : c.failed ≠ [] := by
          cases hx 0 hex with
          | inl h1 => rw [hch] at h1; simp at h1
          | inr h2 => exact h2
        refine ⟨?_, ha, hv, hf, hct, hl, hw, he, hes, ?_, hwt, hr, fun _ => hfailed⟩
        · intro x
          have := hc x
          simp only [pending, hch, List.count_append, List.count_cons] at this ⊢
          omega
        · intro w' hw'; exact Or.inr hfailed
      · simp at hs
    · simp at hs

theorem reach_inv (P : Params J V) (jobs : List J) (n : Nat) (hn : 0 < n) (c : Cfg J V)
    (h : Reach P (init jobs n) c) : Inv P jobs n c := by
  induction h with
  | refl => exact init_inv P jobs n
  | step _ s ih => exact step_inv P jobs n hn _ _ _ ih s


/-! ### termination -/

theorem wSum_set : ∀ (ws : List (W J)) (w : Nat) (old new : W J), ws[w]? = some old →
    wSum (ws.set w new) + wWeight old = wSum ws + wWeight new
  | [], w, _, _, h => by simp at h
  | a :: t, 0, old, new, h => by
    simp at h; subst h
    simp only [List.set_cons_zero, wSum]; omega
  | a :: t, w + 1, old, new, h => by
    have ih := wSum_set t w old new (by simpa using h)
    simp only [List.set_cons_succ, wSum]; omega

theorem step_measure (P : Params J V) (c c' : Cfg J V) (l : Label) (hs : step? P c l = some c') :
    mu c' < mu c := by
  cases l with
  | produce =>
    simp only [step?] at hs
    split at hs
    · rename_i j t ht
      split at hs
      · simp only [Option.some.injEq] at hs; subst hs
        simp only [mu, ht, List.length_append, List.length_cons, List.length_nil]; omega
      · simp at hs
    · simp at hs
  | close =>
    simp only [step?] at hs
    split at hs
    · split at hs
      · simp at hs
      · rename_i hcl
        simp only [Option.some.injEq] at hs; subst hs
        simp only [mu]; simp [hcl]
    · simp at hs
  | recv w =>
    simp only [step?] at hs
    split at hs
    · rename_i j r hch hwk
      simp only [Option.some.injEq] at hs; subst hs
      have := wSum_set c.workers w W.idle (W.holding j) hwk
      simp only [mu, hch, List.length_cons, wWeight] at this ⊢; omega
    · simp at hs
  | work w =>
    simp only [step?] at hs
    split at hs
    · rename_i j hwk
      split at hs
      · simp at hs
      · simp only [Option.some.injEq] at hs; subst hs
        have := wSum_set c.workers w (W.holding j) (W.post j) hwk
        simp only [mu, wWeight] at this ⊢; omega
    · simp at hs
  | lock w =>
    simp only [step?] at hs
    split at hs
    · rename_i j hwk
      simp only [Option.some.injEq] at hs; subst hs
      have := wSum_set c.workers w (W.post j) W.idle hwk
      simp only [mu, wWeight] at this ⊢; omega
    · simp at hs
  | fail w =>
    simp only [step?] at hs
    split at hs
    · rename_i j hwk
      split at hs
      · simp only [Option.some.injEq] at hs; subst hs
        have := wSum_set c.workers w (W.holding j) W.exited hwk
        simp only [mu, wWeight] at this ⊢; omega
      · simp at hs
    · simp at hs
  | exit w =>
    simp only [step?] at hs
    split at hs
    · rename_i hch hwk
      split at hs
      · simp only [Option.some.injEq] at hs; subst hs
        have := wSum_set c.workers w W.idle W.exited hwk
        simp only [mu, wWeight] at this ⊢; omega
      · simp at hs
    · simp at hs
  | abort w =>
    simp only [step?] at hs
    split at hs
    · rename_i j hwk
      split at hs
      · simp only [Option.some.injEq] at hs; subst hs
        have := wSum_set c.workers w (W.holding j) W.exited hwk
        simp only [mu, wWeight] at this ⊢; omega
      · simp at hs
    · simp at hs
  | wait =>
    simp only [step?] at hs
    split at hs
    · rename_i hcond
      simp only [Option.some.injEq] at hs; subst hs
      simp only [mu]; simp [hcond.2]
    · simp at hs
  | closeRes =>
    simp only [step?] at hs
    split at hs
    · rename_i hcond
      simp only [Option.some.injEq] at hs; subst hs
      simp only [mu]; simp [hcond.2]
    · simp at hs
  | drain =>
    simp only [step?] at hs
    split at hs
    · rename_i j r hch
      split at hs
      · simp only [Option.some.injEq] at hs; subst hs
        simp only [mu, hch, List.length_cons]; omega
      · simp at hs
    · simp at hs

/-! ### terminal states -/

theorem all_exited_filterMap {K : Type} (g : W J → Option K) (hg : g W.exited = none) :
    ∀ (ws : List (W J)), (∀ w, w < ws.length → ws[w]? = some W.exited) → ws.filterMap g = []
  | [], _ => rfl
  | a :: t, h => by
    have h0 := h 0 (by simp)
    simp at h0; subst h0
    simp only [List.filterMap_cons, hg]
    exact all_exited_filterMap g hg t (fun w hw => by simpa using h (w + 1) (by simpa using hw))

/-- shape of every terminal state of a pool whose workers call `Done` on every path -/
theorem failed_sub_jobs (P : Params J V) (jobs : List J) (n : Nat) (c : Cfg J V) (inv : Inv P jobs n c) :
    ∀ j ∈ c.failed, j ∈ jobs ∧ P.fails j = true := by
  intro j hj
  refine ⟨?_, inv.failedOk j hj⟩
  have h := inv.conserve j
  have : 0 < c.failed.count j := List.count_pos_iff.mpr hj
  have : 0 < jobs.count j := by
    simp only [pending, List.count_append] at h; omega
  exact List.count_pos_iff.mp this

theorem no_failure_failed_nil (P : Params J V) (jobs : List J) (n : Nat) (c : Cfg J V) (inv : Inv P jobs n c)
    (hnf : ∀ j ∈ jobs, P.fails j = false) : c.failed = [] := by
  cases hfl : c.failed with
  | nil => rfl
  | cons j t =>
    have := failed_sub_jobs P jobs n c inv j (by simp [hfl])
    rw [hnf j this.1] at this; simp at this

theorem terminal_shape (P : Params J V) (jobs : List J)
    (hdone : P.d.doneOnFail = true ∨ ∀ j ∈ jobs, P.fails j = false) (hcap : 0 < P.cap)
    (n : Nat) (hn : 0 < n) (c : Cfg J V)
    (hr : Reach P (init jobs n) c) (ht : Terminal P c) :
    c.todo = [] ∧ c.chan = [] ∧ c.closed = true ∧ (∀ w, w < n → c.workers[w]? = some W.exited) ∧
    c.wg = 0 ∧ c.waited = true ∧ c.resClosed = 1 := by
  have inv := reach_inv P jobs n hn c hr
  have hfz : P.d.doneOnFail = true ∨ c.failed = [] := by
    cases hdone with
    | inl h => exact Or.inl h
    | inr h => exact Or.inr (no_failure_failed_nil P jobs n c inv h)
  obtain ⟨hc, ha, hv, hf, hct, hl, hw, he, hes, hx, hwt, hres, hd⟩ := inv
  have hex : ∀ w, w < n → c.workers[w]? = some W.exited := by
    intro w hwn
    have hlt : w < c.workers.length := by omega
    cases hwk : c.workers[w]? with
    | none => simp at hwk; omega
    | some x =>
      cases x with
      | exited => rfl
      | holding j =>
        exfalso
        cases hfl : P.fails j with
        | true => have := ht (.fail w); simp [step?, hwk, hfl] at this
        | false => have := ht (.work w); simp [step?, hwk, hfl] at this
      | post j => exfalso; have := ht (.lock w); simp [step?, hwk] at this
      | idle =>
        exfalso
        cases hch : c.chan with
        | cons j r => have := ht (.recv w); simp [step?, hwk, hch] at this
        | nil =>
          cases htd : c.todo with
          | cons j t => have := ht .produce; simp [step?, htd, hch, hcap] at this
          | nil =>
            cases hcl : c.closed with
            | false => have := ht .close; simp [step?, htd, hcl] at this
            | true => have := ht (.exit w); simp [step?, hwk, hch, hcl] at this
  have hlive : c.workers.filterMap liveOf = [] :=
    all_exited_filterMap liveOf rfl c.workers (fun w hw' => hex w (by omega))
  have hwg : c.wg = 0 := by
    cases hfz with
    | inl h => simp [hw, hlive, h]
    | inr h => simp [hw, hlive, h]
  have hwaited : c.waited = true := by
    cases hwd : c.waited with
    | true => rfl
    | false => have := ht .wait; simp [step?, hwg, hwd] at this
  have hrc : c.resClosed = 1 := by
    cases hrc : c.resClosed with
    | zero => have := ht .closeRes; simp [step?, hwaited, hrc] at this
    | succ k => have := hres.1; omega
  have hch : c.chan = [] := by
    cases hch : c.chan with
    | nil => rfl
    | cons j r => have := ht .drain; simp [step?, hch, hwaited] at this
  have htd : c.todo = [] := by
    cases htd : c.todo with
    | nil => rfl
    | cons j t => have := ht .produce; simp [step?, htd, hch, hcap] at this
  have hcl : c.closed = true := by
    cases hcl : c.closed with
    | true => rfl
    | false => have := ht .close; simp [step?, htd, hcl] at this
  exact ⟨htd, hch, hcl, hex, hwg, hwaited, hrc⟩

/-- at a terminal state every job is stored, failed or drained -/
theorem terminal_conserve (P : Params J V) (jobs : List J)
    (hdone : P.d.doneOnFail = true ∨ ∀ j ∈ jobs, P.fails j = false) (hcap : 0 < P.cap)
    (n : Nat) (hn : 0 < n) (c : Cfg J V)
    (hr : Reach P (init jobs n) c) (ht : Terminal P c) :
    (∀ x, (c.store.map Prod.fst ++ c.failed ++ c.dropped).count x = jobs.count x) ∧
    (∀ x, c.acc.count x = (c.store.map Prod.fst).count x) := by
  obtain ⟨htd, hch, _, hex, _, _, _⟩ := terminal_shape P jobs hdone hcap n hn c hr ht
  have inv := reach_inv P jobs n hn c hr
  have hl := inv.len
  have hhold : c.workers.filterMap holdingOf = [] :=
    all_exited_filterMap holdingOf rfl c.workers (fun w hw' => hex w (by omega))
  have hpost : c.workers.filterMap postOf = [] :=
    all_exited_filterMap postOf rfl c.workers (fun w hw' => hex w (by omega))
  constructor
  · intro x
    have := inv.conserve x
    simpa [pending, htd, hch, hhold] using this
  · intro x
    have := inv.accOk x
    simpa [hpost] using this


/-- no job fails: every maximal execution stores exactly the sequential result, whatever the schedule,
the worker count, the channel capacity and the error-path discipline -/
theorem terminal_complete (P : Params J V) (jobs : List J) (hnf : ∀ j ∈ jobs, P.fails j = false)
    (hcap : 0 < P.cap) (n : Nat) (hn : 0 < n) (c : Cfg J V)
    (hr : Reach P (init jobs n) c) (ht : Terminal P c) :
    (c.store.map Prod.fst).Perm jobs ∧ c.acc.Perm jobs ∧ (∀ p ∈ c.store, p.2 = P.f p.1) ∧
    c.err = none ∧ c.failed = [] ∧ c.dropped = [] := by
  have inv := reach_inv P jobs n hn c hr
  have hfl := no_failure_failed_nil P jobs n c inv hnf
  have hdr : c.dropped = [] := by
    cases hd : c.dropped with
    | nil => rfl
    | cons j t => exact absurd hfl (inv.droppedOk (by simp [hd]))
  obtain ⟨h1, h2⟩ := terminal_conserve P jobs (Or.inr hnf) hcap n hn c hr ht
  have hst : ∀ x, (c.store.map Prod.fst).count x = jobs.count x := by
    intro x; have := h1 x; simpa [hfl, hdr] using this
  refine ⟨List.perm_iff_count.mpr hst, List.perm_iff_count.mpr (fun x => by rw [h2 x, hst x]),
    fun p hp => (inv.values p hp).1, ?_, hfl, hdr⟩
  cases he : c.err with
  | none => rfl
  | some j => exact absurd hfl (inv.errOk (by simp [he]))

/-- the store is the image of its keys -/
theorem store_eq_map (f : J → V) : ∀ (st : List (J × V)), (∀ p ∈ st, p.2 = f p.1) →
    st = (st.map Prod.fst).map (fun j => (j, f j))
  | [], _ => rfl
  | (j, v) :: t, h => by
    have h0 := h (j, v) (by simp)
    simp only at h0
    subst h0
    simp only [List.map_cons]
    congr 1
    exact store_eq_map f t (fun p hp => h p (by simp [hp]))

theorem terminal_store_perm (P : Params J V) (jobs : List J) (hnf : ∀ j ∈ jobs, P.fails j = false)
    (hcap : 0 < P.cap) (n : Nat) (hn : 0 < n) (c : Cfg J V)
    (hr : Reach P (init jobs n) c) (ht : Terminal P c) : c.store.Perm (seqStore P.f jobs) := by
  obtain ⟨h1, _, h3, _⟩ := terminal_complete P jobs hnf hcap n hn c hr ht
  rw [store_eq_map P.f c.store h3]
  exact h1.map _

/-- sound discipline (`Done` on every path, sticky error slot): every maximal execution returns from
`Wait`, and the error slot is set exactly when some job's evaluation fails -/
theorem terminal_error (P : Params J V) (jobs : List J) (hd : P.d = Discipline.sound)
    (hcap : 0 < P.cap) (n : Nat) (hn : 0 < n) (c : Cfg J V)
    (hr : Reach P (init jobs n) c) (ht : Terminal P c) :
    c.waited = true ∧ (c.err.isSome = true ↔ ∃ j ∈ jobs, P.fails j = true) := by
  have hdone : P.d.doneOnFail = true := by rw [hd]; rfl
  have hst : P.d.errSticky = true := by rw [hd]; rfl
  have inv := reach_inv P jobs n hn c hr
  obtain ⟨_, _, _, _, _, hwaited, _⟩ := terminal_shape P jobs (Or.inl hdone) hcap n hn c hr ht
  obtain ⟨h1, _⟩ := terminal_conserve P jobs (Or.inl hdone) hcap n hn c hr ht
  refine ⟨hwaited, ?_, ?_⟩
  · intro he
    have hne := inv.errOk he
    cases hfl : c.failed with
    | nil => exact absurd hfl hne
    | cons j t =>
      have := failed_sub_jobs P jobs n c inv j (by simp [hfl])
      exact ⟨j, this.1, this.2⟩
  · intro ⟨j, hj, hfj⟩
    apply inv.errSticky hst
    intro hfl
    have hdr : c.dropped = [] := by
      cases hd' : c.dropped with
      | nil => rfl
      | cons j t => exact absurd hfl (inv.droppedOk (by simp [hd']))
    have hc := h1 j
    have hpos : 0 < jobs.count j := List.count_pos_iff.mpr hj
    have : 0 < (c.store.map Prod.fst).count j := by
      simp [hfl, hdr] at hc; omega
    have hm := List.count_pos_iff.mp this
    obtain ⟨p, hp, hpj⟩ := List.mem_map.mp hm
    have := (inv.values p hp).2
    rw [hpj, hfj] at this
    simp at this

/-- the result channel is closed at most once, only after every worker has returned, and nothing is
stored afterwards -/
theorem closed_after_workers (P : Params J V) (jobs : List J) (n : Nat) (hn : 0 < n) (c : Cfg J V)
    (hr : Reach P (init jobs n) c) :
    c.resClosed ≤ 1 ∧ (c.resClosed = 1 → ∀ w, w < n → c.workers[w]? = some W.exited) := by
  have inv := reach_inv P jobs n hn c hr
  refine ⟨inv.resOk.1, ?_⟩
  intro h w hw
  have h0 := inv.waitedOk (inv.resOk.2 h)
  have hlive : (c.workers.filterMap liveOf).count () = 0 := by
    have := inv.wgOk; omega
  exact live_zero_all_exited c.workers hlive w (by rw [inv.len]; exact hw)

theorem no_store_after_close (P : Params J V) (jobs : List J) (n : Nat) (hn : 0 < n) (c c' : Cfg J V)
    (l : Label) (hr : Reach P (init jobs n) c) (hcl : c.resClosed = 1) (hs : step? P c l = some c') :
    c'.store = c.store ∧ c'.resClosed = 1 := by
  have hex := (closed_after_workers P jobs n hn c hr).2 hcl
  have inv := reach_inv P jobs n hn c hr
  cases l with
  | work w =>
    simp only [step?] at hs
    split at hs
    · rename_i j hwk
      have hlt : w < n := by
        have : w < c.workers.length := by
          cases Nat.lt_or_ge w c.workers.length with
          | inl h => exact h
          | inr h => simp [List.getElem?_eq_none h] at hwk
        rw [inv.len] at this; exact this
      rw [hex w hlt] at hwk; simp at hwk
    · simp at hs
  | closeRes =>
    simp only [step?] at hs
    split at hs
    · rename_i hcond; omega
    · simp at hs
  | produce =>
    simp only [step?] at hs
    split at hs
    · split at hs
      · simp only [Option.some.injEq] at hs; subst hs; exact ⟨rfl, hcl⟩
      · simp at hs
    · simp at hs
  | close =>
    simp only [step?] at hs
    split at hs
    · split at hs
      · simp at hs
      · simp only [Option.some.injEq] at hs; subst hs; exact ⟨rfl, hcl⟩
    · simp at hs
  | recv w =>
    simp only [step?] at hs
    split at hs
    · simp only [Option.some.injEq] at hs; subst hs; exact ⟨rfl, hcl⟩
    · simp at hs
  | lock w =>
    simp only [step?] at hs
    split at hs
    · simp only [Option.some.injEq] at hs; subst hs; exact ⟨rfl, hcl⟩
    · simp at hs
  | fail w =>
    simp only [step?] at hs
    split at hs
    · split at hs
      · simp only [Option.some.injEq] at hs; subst hs; exact ⟨rfl, hcl⟩
      · simp at hs
    · simp at hs
  | exit w =>
    simp only [step?] at hs
    split at hs
    · split at hs
      · simp only [Option.some.injEq] at hs; subst hs; exact ⟨rfl, hcl⟩
      · simp at hs
    · simp at hs
  | abort w =>
    simp only [step?] at hs
    split at hs
    · split at hs
      · simp only [Option.some.injEq] at hs; subst hs; exact ⟨rfl, hcl⟩
      · simp at hs
    · simp at hs
  | wait =>
    simp only [step?] at hs
    split at hs
    · simp only [Option.some.injEq] at hs; subst hs; exact ⟨rfl, hcl⟩
    · simp at hs
  | drain =>
    simp only [step?] at hs
    split at hs
    · split at hs
      · simp only [Option.some.injEq] at hs; subst hs; exact ⟨rfl, hcl⟩
      · simp at hs
    · simp at hs

/-- schedules are bounded: after `k` steps the measure has dropped by at least `k` -/
inductive ReachIn (P : Params J V) (c0 : Cfg J V) : Nat → Cfg J V → Prop
  | refl : ReachIn P c0 0 c0
  | step {k c c' l} : ReachIn P c0 k c → step? P c l = some c' → ReachIn P c0 (k + 1) c'

theorem reachIn_measure (P : Params J V) (c0 c : Cfg J V) (k : Nat) (h : ReachIn P c0 k c) :
    k + mu c ≤ mu c0 := by
  induction h with
  | refl => simp
  | step _ hs ih => have := step_measure P _ _ _ hs; omega

theorem wSum_replicate_idle (n : Nat) : wSum (List.replicate n (W.idle : W J)) = n := by
  induction n with
  | zero => rfl
  | succ k ih => simp [List.replicate_succ, wSum, wWeight, ih]; omega

theorem mu_init (jobs : List J) (n : Nat) : mu (init jobs n : Cfg J V) = 4 * jobs.length + n + 3 := by
  simp [mu, init, wSum_replicate_idle]

/-- a state in which no label over the existing workers is enabled is terminal -/
theorem terminal_of_enabled_nil (P : Params J V) (c : Cfg J V) (h : enabled P c = []) : Terminal P c := by
  intro l
  cases hs : step? P c l with
  | none => rfl
  | some c' =>
    exfalso
    have hmem : l ∈ labels c.workers.length := by
      have inRange : ∀ w : Nat, (c.workers[w]?).isSome = true → w < c.workers.length := by
        intro w hw
        cases Nat.lt_or_ge w c.workers.length with
        | inl h => exact h
        | inr h => simp [List.getElem?_eq_none h] at hw
      have key : ∀ w : Nat, (c.workers[w]?).isSome = true →
          ∀ l', l' ∈ [Label.recv w, .work w, .lock w, .fail w, .exit w, .abort w] → l' ∈ labels c.workers.length := by
        intro w hw l' hl'
        simp only [labels, List.mem_append, List.mem_flatMap, List.mem_range]
        exact Or.inr ⟨w, inRange w hw, hl'⟩
      cases l with
      | produce => simp [labels]
      | close => simp [labels]
      | wait => simp [labels]
      | closeRes => simp [labels]
      | drain => simp [labels]
      | recv w =>
        refine key w ?_ _ (by simp)
        simp only [step?] at hs; split at hs <;> simp_all
      | work w =>
        refine key w ?_ _ (by simp)
        simp only [step?] at hs; split at hs <;> simp_all
      | lock w =>
        refine key w ?_ _ (by simp)
        simp only [step?] at hs; split at hs <;> simp_all
      | fail w =>
        refine key w ?_ _ (by simp)
        simp only [step?] at hs; split at hs <;> simp_all
      | exit w =>
        refine key w ?_ _ (by simp)
        simp only [step?] at hs; split at hs <;> simp_all
      | abort w =>
        refine key w ?_ _ (by simp)
        simp only [step?] at hs; split at hs <;> simp_all
    have : l ∈ enabled P c := by
      simp only [enabled, List.mem_filter]
      exact ⟨hmem, by simp [hs]⟩
    rw [h] at this
    simp at this


end Gv.Proofs.PoolCore
