import Gv.Proofs.WeightsTape
import Mathlib.Topology.Algebra.Order.Floor
import Mathlib.Algebra.BigOperators.Intervals
import Mathlib.Algebra.Order.BigOperators.Ring.Finset
/-!
Helper development for C20: the series loop of `IncompleteGamma` and the assembly of `DiscreteGamma`
over `ℝ`.
-/
namespace Gv.Proofs.IncGamma
open Gv Gv.Model Gv.Model.Weights Gv.Proofs.WeightsTape Finset

/-! ## `DiscreteGamma`: assembly of the categories -/

/-- telescoping: the categories after `prev` sum to `(1 - prev) · factor` -/
theorem categoriesOf_sum (F : ℝ) : ∀ (l : List ℝ) (prev : ℝ), (categoriesOf F prev l).sum = (1 - prev) * F
  | [], prev => by simp [categoriesOf]
  | f :: rest, prev => by
    simp only [categoriesOf, List.sum_cons, categoriesOf_sum F rest f]; ring

theorem categoriesOf_length (F : ℝ) : ∀ (l : List ℝ) (prev : ℝ), (categoriesOf F prev l).length = l.length + 1
  | [], _ => by simp [categoriesOf]
  | f :: rest, _ => by simp [categoriesOf, categoriesOf_length F rest f]

/-- non-negativity: a chain `prev ≤ f₁ ≤ … ≤ f_k ≤ 1` gives non-negative categories -/
theorem categoriesOf_nonneg {F : ℝ} (hF : 0 ≤ F) : ∀ (l : List ℝ) (prev : ℝ),
    List.IsChain (· ≤ ·) (prev :: l) → (∀ f ∈ prev :: l, f ≤ 1) → ∀ r ∈ categoriesOf F prev l, 0 ≤ r
  | [], prev, _, h1, r, hr => by
    simp only [categoriesOf, List.mem_singleton, RealLike.real_one] at hr
    subst hr
    have := h1 prev (by simp)
    exact mul_nonneg (by linarith) hF
  | f :: rest, prev, hc, h1, r, hr => by
    simp only [categoriesOf, List.mem_cons] at hr
    rcases hr with rfl | hr
    · have : prev ≤ f := by
        cases hc with
        | cons_cons h _ => exact h
      exact mul_nonneg (by linarith) hF
    · refine categoriesOf_nonneg hF rest f ?_ (fun g hg => h1 g (by simp [List.mem_cons] at hg ⊢; tauto)) r hr
      cases hc with
      | cons_cons _ h => exact h

theorem mapOpt_length {α β : Type} (f : α → Option β) : ∀ (l : List α) (r : List β), mapOpt f l = some r → r.length = l.length
  | [], r, h => by simp only [mapOpt, Option.some.injEq] at h; subst h; rfl
  | a :: l, r, h => by
    unfold mapOpt at h
    cases hfa : f a with
    | none => simp [hfa] at h
    | some b =>
      cases hl : mapOpt f l with
      | none => simp [hfa, hl] at h
      | some bs =>
        simp only [hfa, hl, Option.some.injEq] at h
        subst h
        simp [mapOpt_length f l bs hl]

theorem mapOpt_spec {α β : Type} (f : α → Option β) : ∀ (l : List α) (r : List β), mapOpt f l = some r →
    List.Forall₂ (fun a b => f a = some b) l r
  | [], r, h => by simp only [mapOpt, Option.some.injEq] at h; subst h; exact List.Forall₂.nil
  | a :: l, r, h => by
    unfold mapOpt at h
    cases hfa : f a with
    | none => simp [hfa] at h
    | some b =>
      cases hl : mapOpt f l with
      | none => simp [hfa, hl] at h
      | some bs =>
        simp only [hfa, hl, Option.some.injEq] at h
        subst h
        exact List.Forall₂.cons hfa (mapOpt_spec f l bs hl)

/-! ## `IncompleteGamma`: the series loop -/

/-- `k`-th term of the series `Σ_k x^k / ((p+1)…(p+k))` -/
noncomputable def seriesTerm (x p : ℝ) (k : ℕ) : ℝ := ∏ j ∈ range k, x / (p + ((j : ℝ) + 1))

/-- prefix of the series up to and including term `n` -/
noncomputable def seriesPrefix (x p : ℝ) (n : ℕ) : ℝ := ∑ k ∈ range (n + 1), seriesTerm x p k

theorem seriesTerm_zero (x p : ℝ) : seriesTerm x p 0 = 1 := by simp [seriesTerm]
theorem seriesTerm_succ (x p : ℝ) (k : ℕ) : seriesTerm x p (k + 1) = seriesTerm x p k * (x / (p + ((k : ℝ) + 1))) := by
  unfold seriesTerm; rw [prod_range_succ]
theorem seriesPrefix_zero (x p : ℝ) : seriesPrefix x p 0 = 1 := by simp [seriesPrefix, seriesTerm]
theorem seriesPrefix_succ (x p : ℝ) (n : ℕ) : seriesPrefix x p (n + 1) = seriesPrefix x p n + seriesTerm x p (n + 1) := by
  simp [seriesPrefix, sum_range_succ]

/-- the loop, started in the state reached after term `k`, returns the prefix up to the first later
term `≤ accurate` -/
theorem igSeries_spec (x p : ℝ) : ∀ (fuel k : ℕ) (g : ℝ),
    igSeries x fuel (p + k) (seriesTerm x p k) (seriesPrefix x p k) = some g →
    ∃ n, k < n ∧ g = seriesPrefix x p n ∧ seriesTerm x p n ≤ 1 / 100000000 ∧
      ∀ j, k < j → j < n → 1 / 100000000 < seriesTerm x p j := by
  intro fuel
  induction fuel with
  | zero => intro k g h; simp [igSeries] at h
  | succ f ih =>
    intro k g h
    unfold igSeries at h
    simp only [RealLike.real_ltb, accurate_real, RealLike.real_one] at h
    have e1 : p + (k : ℝ) + 1 = p + ((k + 1 : ℕ) : ℝ) := by push_cast; ring
    have e2 : seriesTerm x p k * (x / (p + (k : ℝ) + 1)) = seriesTerm x p (k + 1) := by
      rw [seriesTerm_succ]; congr 2; ring
    have e3 : seriesPrefix x p k + seriesTerm x p (k + 1) = seriesPrefix x p (k + 1) := (seriesPrefix_succ x p k).symm
    rw [e2, e3, e1] at h
    split at h
    · rename_i hlt
      simp only [decide_eq_true_eq] at hlt
      obtain ⟨n, hn, hg, hs, hj⟩ := ih (k + 1) g h
      refine ⟨n, by omega, hg, hs, ?_⟩
      intro j hj1 hj2
      rcases Nat.lt_or_ge (k + 1) j with h' | h'
      · exact hj j h' hj2
      · have : j = k + 1 := by omega
        subst this; exact hlt
    · rename_i hlt
      simp only [decide_eq_true_eq, not_lt] at hlt
      simp only [Option.some.injEq] at h
      exact ⟨k + 1, by omega, h.symm, hlt, by intro j h1 h2; omega⟩

/-- conversely: if term `n` is the first one after `k` that is `≤ accurate`, enough fuel returns the prefix -/
theorem igSeries_returns (x p : ℝ) : ∀ (d k n fuel : ℕ), n = k + 1 + d → d < fuel →
    seriesTerm x p n ≤ 1 / 100000000 → (∀ j, k < j → j < n → 1 / 100000000 < seriesTerm x p j) →
    igSeries x fuel (p + k) (seriesTerm x p k) (seriesPrefix x p k) = some (seriesPrefix x p n) := by
  intro d
  induction d with
  | zero =>
    intro k n fuel hn hf hs _
    obtain ⟨f, rfl⟩ : ∃ f, fuel = f + 1 := ⟨fuel - 1, by omega⟩
    unfold igSeries
    simp only [RealLike.real_ltb, accurate_real, RealLike.real_one]
    have e1 : p + (k : ℝ) + 1 = p + ((k + 1 : ℕ) : ℝ) := by push_cast; ring
    have e2 : seriesTerm x p k * (x / (p + (k : ℝ) + 1)) = seriesTerm x p (k + 1) := by
      rw [seriesTerm_succ]; congr 2; ring
    have e3 : seriesPrefix x p k + seriesTerm x p (k + 1) = seriesPrefix x p (k + 1) := (seriesPrefix_succ x p k).symm
    rw [e2, e3]
    have : n = k + 1 := by omega
    subst this
    rw [if_neg (by simpa using hs)]
  | succ d ih =>
    intro k n fuel hn hf hs hj
    obtain ⟨f, rfl⟩ : ∃ f, fuel = f + 1 := ⟨fuel - 1, by omega⟩
    unfold igSeries
    simp only [RealLike.real_ltb, accurate_real, RealLike.real_one]
    have e1 : p + (k : ℝ) + 1 = p + ((k + 1 : ℕ) : ℝ) := by push_cast; ring
    have e2 : seriesTerm x p k * (x / (p + (k : ℝ) + 1)) = seriesTerm x p (k + 1) := by
      rw [seriesTerm_succ]; congr 2; ring
    have e3 : seriesPrefix x p k + seriesTerm x p (k + 1) = seriesPrefix x p (k + 1) := (seriesPrefix_succ x p k).symm
    rw [e2, e3, e1]
    rw [if_pos (by simpa using hj (k + 1) (by omega) (by omega))]
    exact ih (k + 1) n f (by omega) (by omega) hs (fun j h1 h2 => hj j (by omega) h2)

/-- the terms are dominated by `x^k / k!` -/
theorem seriesTerm_le {x p : ℝ} (hx : 0 ≤ x) (hp : 0 < p) (k : ℕ) : seriesTerm x p k ≤ x ^ k / (k.factorial : ℝ) := by
  induction k with
  | zero => simp [seriesTerm]
  | succ k ih =>
    rw [seriesTerm_succ, pow_succ, Nat.factorial_succ]
    have hk : (0 : ℝ) < (k : ℝ) + 1 := by positivity
    have h0 : 0 ≤ seriesTerm x p k := by
      unfold seriesTerm
      exact prod_nonneg fun j _ => div_nonneg hx (by positivity)
    have h1 : x / (p + ((k : ℝ) + 1)) ≤ x / ((k : ℝ) + 1) :=
      div_le_div_of_nonneg_left hx hk (by linarith)
    calc seriesTerm x p k * (x / (p + ((k : ℝ) + 1)))
        ≤ (x ^ k / (k.factorial : ℝ)) * (x / ((k : ℝ) + 1)) :=
          mul_le_mul ih h1 (div_nonneg hx (by positivity)) (by positivity)
      _ = x ^ k * x / (((k + 1 : ℕ) * k.factorial : ℕ) : ℝ) := by
          push_cast; field_simp

/-- some term with index `≥ 1` is `≤ 1e-8` (Archimedean: `x^n/n! → 0`) -/
theorem exists_small_term {x p : ℝ} (hx : 0 ≤ x) (hp : 0 < p) : ∃ n, 1 ≤ n ∧ seriesTerm x p n ≤ 1 / 100000000 := by
  have h := FloorSemiring.tendsto_pow_div_factorial_atTop x
  have hev : ∀ᶠ n : ℕ in Filter.atTop, x ^ n / (n.factorial : ℝ) < 1 / 100000000 :=
    (tendsto_order.1 h).2 _ (by norm_num)
  obtain ⟨N, hN⟩ := Filter.eventually_atTop.1 hev
  exact ⟨N + 1, by omega, le_trans (seriesTerm_le hx hp (N + 1)) (hN (N + 1) (by omega)).le⟩

end Gv.Proofs.IncGamma
