import Gv.Model.ProtDist
import Gv.NumReal
import Mathlib.Tactic.Linarith
import Mathlib.Tactic.NormNum
import Mathlib.Tactic.SplitIfs
/-!
Loop invariant of the model of `dist_F_Brent` (`Gv.Model.ProtDist.brentLoop`) over the reals, for an
arbitrary objective `f : ℝ → ℝ` and either stop rule.  Used by `Props/C17.lean`.

Invariant: the current best abscissa `x` is one of the evaluated points, `fx = f x`, no evaluated point has a
smaller value, and every evaluated point is `≥ BL_MIN`.  Nothing about `a, b, d, e, v, w` is needed.
-/
namespace Gv.Proofs.Brent
open Gv Gv.Model.ProtDist Gv.Gen.ProtDist

theorem blMin_eq : (BL_MIN : ℝ) = 1 / 100000000 := by
  simp [BL_MIN]

theorem blMin_pos : (0 : ℝ) < (BL_MIN : ℝ) := by
  rw [blMin_eq]; norm_num

theorem raiseToMin_ge (u : ℝ) : (BL_MIN : ℝ) ≤ raiseToMin u := by
  unfold raiseToMin
  by_cases h : u < (BL_MIN : ℝ)
  · simp [h]
  · simp [h]; exact not_lt.mp h

theorem brentTrial_ge (tol : ℝ) (s : BState ℝ) : (BL_MIN : ℝ) ≤ (brentTrial tol s).2.2 := by
  unfold brentTrial
  exact raiseToMin_ge _

theorem abs_of_ge_blMin {u : ℝ} (h : (BL_MIN : ℝ) ≤ u) : RealLike.abs u = u := by
  have : 0 < u := lt_of_lt_of_le blMin_pos h
  simp [abs_of_pos this]

theorem brentUpdate_x (s : BState ℝ) (d e u fu : ℝ) :
    (brentUpdate s d e u fu).x = if fu ≤ s.fx then u else s.x := by
  unfold brentUpdate
  by_cases h : fu ≤ s.fx
  · simp [h]
  · simp only [RealLike.real_leb, h, decide_false, if_false, Bool.false_eq_true]
    split_ifs <;> rfl

theorem brentUpdate_fx (s : BState ℝ) (d e u fu : ℝ) :
    (brentUpdate s d e u fu).fx = if fu ≤ s.fx then fu else s.fx := by
  unfold brentUpdate
  by_cases h : fu ≤ s.fx
  · simp [h]
  · simp only [RealLike.real_leb, h, decide_false, if_false, Bool.false_eq_true]
    split_ifs <;> rfl

/-- the loop invariant -/
structure Inv (f : ℝ → ℝ) (s : BState ℝ) (evals : List ℝ) : Prop where
  x_mem : s.x ∈ evals
  fx_eq : s.fx = f s.x
  best : ∀ p ∈ evals, s.fx ≤ f p
  ge : ∀ p ∈ evals, (BL_MIN : ℝ) ≤ p

/-- what a returning run guarantees -/
structure Good (f : ℝ → ℝ) (r : BResult ℝ) : Prop where
  mem : r.param ∈ r.evals
  value_eq : r.value = f r.param
  best : ∀ p ∈ r.evals, f r.param ≤ f p
  ge : ∀ p ∈ r.evals, (BL_MIN : ℝ) ≤ p

theorem inv_update {f : ℝ → ℝ} {s : BState ℝ} {evals : List ℝ} (h : Inv f s evals) (d e u : ℝ)
    (hu : (BL_MIN : ℝ) ≤ u) : Inv f (brentUpdate s d e u (f u)) (u :: evals) := by
  constructor
  · rw [brentUpdate_x]
    by_cases hc : f u ≤ s.fx
    · simp [hc]
    · simp [hc, h.x_mem]
  · rw [brentUpdate_fx, brentUpdate_x]
    by_cases hc : f u ≤ s.fx
    · rw [if_pos hc, if_pos hc]
    · rw [if_neg hc, if_neg hc]; exact h.fx_eq
  · intro p hp
    rw [brentUpdate_fx]
    by_cases hc : f u ≤ s.fx
    · simp only [hc, if_true]
      rcases List.mem_cons.mp hp with rfl | hp
      · exact le_refl _
      · exact le_trans hc (h.best p hp)
    · simp only [hc, if_false]
      rcases List.mem_cons.mp hp with rfl | hp
      · exact le_of_lt (not_le.mp hc)
      · exact h.best p hp
  · intro p hp
    rcases List.mem_cons.mp hp with rfl | hp
    · exact hu
    · exact h.ge p hp

theorem brentLoop_good (f : ℝ → ℝ) (bracket : Bool) (tol : ℝ) (nmax : ℕ) :
    ∀ (fuel iter : ℕ) (s : BState ℝ) (param : ℝ) (evals : List ℝ), Inv f s evals →
      (brentLoop f bracket tol nmax fuel iter s param evals).status ≠ BStatus.tooMany →
      Good f (brentLoop f bracket tol nmax fuel iter s param evals) := by
  intro fuel
  induction fuel with
  | zero =>
    intro iter s param evals _ hst
    simp [brentLoop] at hst
  | succ fuel ih =>
    intro iter s param evals hinv hst
    have hu := brentTrial_ge tol s
    have habs := abs_of_ge_blMin hu
    rw [brentLoop] at hst ⊢
    by_cases hstop : brentStop bracket tol iter s = true
    · simp only [hstop, if_true]
      exact ⟨hinv.x_mem, rfl, fun p hp => by rw [← hinv.fx_eq]; exact hinv.best p hp, hinv.ge⟩
    · simp only [hstop, Bool.false_eq_true, if_false] at hst ⊢
      rw [habs] at hst ⊢
      by_cases hcap : (RealLike.leb (f (brentTrial tol s).2.2) s.fx && decide (iter > nmax)) = true
      · simp only [hcap, if_true]
        have hle : f (brentTrial tol s).2.2 ≤ s.fx := by
          have := (Bool.and_eq_true _ _).mp hcap
          simpa using this.1
        refine ⟨List.mem_cons_self, rfl, ?_, ?_⟩
        · intro p hp
          rcases List.mem_cons.mp hp with rfl | hp
          · exact le_refl _
          · exact le_trans hle (hinv.best p hp)
        · intro p hp
          rcases List.mem_cons.mp hp with rfl | hp
          · exact hu
          · exact hinv.ge p hp
      · simp only [hcap, Bool.false_eq_true, if_false] at hst ⊢
        exact ih _ _ _ _ (inv_update hinv _ _ _ hu) hst

theorem brentLoop_evals_length (f : ℝ → ℝ) (bracket : Bool) (tol : ℝ) (nmax : ℕ) :
    ∀ (fuel iter : ℕ) (s : BState ℝ) (param : ℝ) (evals : List ℝ),
      (brentLoop f bracket tol nmax fuel iter s param evals).evals.length ≤ evals.length + fuel := by
  intro fuel
  induction fuel with
  | zero => intro iter s param evals; simp [brentLoop]
  | succ fuel ih =>
    intro iter s param evals
    rw [brentLoop]
    by_cases hstop : brentStop bracket tol iter s = true
    · simp only [hstop, if_true]; omega
    · simp only [hstop, Bool.false_eq_true, if_false]
      by_cases hcap : (RealLike.leb (f (RealLike.abs (brentTrial tol s).2.2)) s.fx && decide (iter > nmax)) = true
      · simp only [hcap, if_true, List.length_cons]; omega
      · simp only [hcap, Bool.false_eq_true, if_false]
        have := ih (iter + 1) (brentUpdate s (brentTrial tol s).1 (brentTrial tol s).2.1 (brentTrial tol s).2.2
          (f (RealLike.abs (brentTrial tol s).2.2))) (RealLike.abs (brentTrial tol s).2.2)
          (RealLike.abs (brentTrial tol s).2.2 :: evals)
        simp only [List.length_cons] at this
        omega

/-- `dist_F_Brent` started at `bx ≥ BL_MIN` -/
theorem brent_good (f : ℝ → ℝ) (bracket : Bool) (ax bx cx tol : ℝ) (nmax : ℕ) (param0 : ℝ)
    (hbx : (BL_MIN : ℝ) ≤ bx) (hst : (brent f bracket ax bx cx tol nmax param0).status ≠ BStatus.tooMany) :
    Good f (brent f bracket ax bx cx tol nmax param0) := by
  unfold brent at hst ⊢
  have habs := abs_of_ge_blMin hbx
  simp only [habs] at hst ⊢
  apply brentLoop_good _ _ _ _ _ _ _ _ _ _ hst
  exact ⟨by simp, rfl, by simp, by simpa using hbx⟩

theorem brent_evals_length (f : ℝ → ℝ) (bracket : Bool) (ax bx cx tol : ℝ) (nmax : ℕ) (param0 : ℝ) :
    (brent f bracket ax bx cx tol nmax param0).evals.length ≤ BRENT_ITMAX + 1 := by
  dsimp only [brent]
  refine le_trans (brentLoop_evals_length f bracket tol nmax BRENT_ITMAX 1 _ _ _) ?_
  simp only [List.length_cons, List.length_nil]
  omega

theorem optDistF_start_ge (dist : ℝ) :
    (BL_MIN : ℝ) ≤ (if RealLike.ltb dist (BL_MIN : ℝ) then (BL_MIN : ℝ) else dist) := by
  by_cases h : dist < (BL_MIN : ℝ)
  · simp [h]
  · simp [h]; exact not_lt.mp h

theorem optDistF_good (f : ℝ → ℝ) (bracket : Bool) (dist : ℝ)
    (hst : (optDistF f bracket dist).status ≠ BStatus.tooMany) : Good f (optDistF f bracket dist) := by
  unfold optDistF at hst ⊢
  exact brent_good f bracket _ _ _ _ _ _ (optDistF_start_ge dist) hst

theorem optDistF_evals_length (f : ℝ → ℝ) (bracket : Bool) (dist : ℝ) :
    (optDistF f bracket dist).evals.length ≤ BRENT_ITMAX + 1 := by
  unfold optDistF
  exact brent_evals_length f bracket _ _ _ _ _ _

end Gv.Proofs.Brent
