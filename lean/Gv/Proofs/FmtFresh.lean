import Gv.Proofs.Decimal
import Gv.Proofs.FmtBagInv
/-!
The `_%04d` renaming loop of `AddSequenceChar` as the parser models use it (`Fmt.freshName`, fuel
`|rows| + 1`) never runs out of candidates: `%04d` is injective, so among `|rows| + 1` consecutive candidates
one is not a row name (pigeonhole).  Hence, under the policy IGNORE_NONE, `Bag.add` of a row of the right
length always appends exactly one row (used for the header-count consistency theorems of C03).
-/
namespace Gv.Proofs.FmtFresh
open Gv Gv.Model Gv.Model.Fmt Gv.Proofs.Decimal
open Gv.Model.Fmt.Phylip (decVal isDigit)

theorem decVal_append (a b : List Byte) : decVal (a ++ b) = decVal a * 10 ^ b.length + decVal b := by
  unfold decVal
  rw [List.foldl_append, foldl_dec]

theorem decVal_zeros (k : Nat) : decVal (List.replicate k 48) = 0 := by
  induction k with
  | zero => rfl
  | succ k ih => rw [List.replicate_succ, decVal_cons, ih]; simp

theorem natDec4_val (n : Nat) : decVal (natDec4 n) = n := by
  unfold natDec4
  simp only []
  rw [decVal_append, decVal_zeros, (natDec_spec n).1]
  simp

theorem natDec4_inj {a b : Nat} (h : natDec4 a = natDec4 b) : a = b := by
  rw [← natDec4_val a, ← natDec4_val b, h]

def cand (name : Name) (k : Nat) : Name := name ++ 95 :: natDec4 k

theorem cand_inj (name : Name) {a b : Nat} (h : cand name a = cand name b) : a = b := by
  apply natDec4_inj
  unfold cand at h
  have := List.append_cancel_left h
  simpa using this

/-- pigeonhole: among `|l| + 1` consecutive candidates one is not in `l` -/
theorem exists_free (l : List Name) (name : Name) (k : Nat) :
    ∃ k', k ≤ k' ∧ k' < k + (l.length + 1) ∧ cand name k' ∉ l := by
  apply Classical.byContradiction
  intro hno
  have hall : ∀ k', k ≤ k' → k' < k + (l.length + 1) → cand name k' ∈ l := by
    intro k' h1 h2
    apply Classical.byContradiction
    intro hn; exact hno ⟨k', h1, h2, hn⟩
  let cs := (List.range' k (l.length + 1)).map (cand name)
  have hnd : cs.Nodup :=
    List.Pairwise.map (cand name) (fun a b hab e => hab (cand_inj name e)) (List.nodup_range' (step := 1) (by omega))
  have hsub : cs ⊆ l := by
    intro c hc
    obtain ⟨k', hk, rfl⟩ := List.mem_map.mp hc
    have := List.mem_range'_1.mp hk
    exact hall k' this.1 this.2
  have := hnd.length_le_of_subset hsub
  simp [cs] at this
  omega

theorem hasName_iff (b : Bag) (n : Name) : b.hasName n = true ↔ n ∈ b.rows.map (·.1) := by
  unfold Bag.hasName
  simp only [List.any_eq_true, beq_iff_eq, List.mem_map]

/-- with a free candidate within reach the search succeeds -/
theorem freshName_isSome (b : Bag) (name : Name) : ∀ (fuel idx : Nat),
    (∃ k', idx ≤ k' ∧ k' < idx + fuel ∧ b.hasName (cand name k') = false) →
    (freshName b name fuel idx).isSome = true
  | 0, idx, ⟨k', h1, h2, _⟩ => by omega
  | fuel + 1, idx, ⟨k', h1, h2, h3⟩ => by
    simp only [freshName]
    by_cases ht : b.hasName (name ++ 95 :: natDec4 idx) = true
    · simp only [ht, if_true]
      apply freshName_isSome b name fuel (idx + 1)
      refine ⟨k', ?_, by omega, h3⟩
      by_cases e : k' = idx
      · subst e; unfold cand at h3; rw [ht] at h3; cases h3
      · omega
    · simp [ht]

/-- **the renaming loop of the parser models always finds a name** -/
theorem freshName_some (b : Bag) (name : Name) : (freshName b name (b.rows.length + 1) 1).isSome = true := by
  apply freshName_isSome
  obtain ⟨k', h1, h2, h3⟩ := exists_free (b.rows.map (·.1)) name 1
  refine ⟨k', h1, by simpa using h2, ?_⟩
  have := mt (hasName_iff b (cand name k')).mp h3
  simpa using this

/-- under IGNORE_NONE a row whose length fits is always appended (possibly renamed) -/
theorem add_none_policy (b : Bag) (hi : b.ignore = 0) (name : Name) (s : Seq)
    (hl : b.length = -1 ∨ b.length = s.length) :
    ∃ b', b.add name s = some b' ∧ b'.rows.length = b.rows.length + 1 ∧ b'.ignore = b.ignore ∧ b'.length = s.length := by
  have hlen : (b.length != -1 && b.length != (s.length : Int)) = false := by
    rcases hl with h | h <;> simp [h]
  unfold Bag.add
  cases hf : b.find name with
  | none => simp [hlen]
  | some old =>
    have h1 : (b.ignore == 1) = false := by simp [hi]
    have h2 : (b.ignore == 2) = false := by simp [hi]
    simp only [h1, h2, Bool.false_eq_true, if_false, Bool.false_and]
    have := freshName_some b name
    cases hn : freshName b name (b.rows.length + 1) 1 with
    | none => rw [hn] at this; cases this
    | some nm => simp [hlen]

/-- `Bag.add` adds at most one row and never changes the policy -/
theorem add_le (b : Bag) (name : Name) (s : Seq) (b' : Bag) (h : b.add name s = some b') :
    b'.rows.length ≤ b.rows.length + 1 ∧ b.rows.length ≤ b'.rows.length ∧ b'.ignore = b.ignore := by
  unfold Bag.add at h
  repeat' (split at h <;> try (simp at h))
  all_goals (first | (subst h; simp) | (obtain ⟨_, rfl⟩ := h; simp))

end Gv.Proofs.FmtFresh
