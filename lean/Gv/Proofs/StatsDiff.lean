import Gv.Model.Stats
import Gv.Spec.Stats
/-!
C14: `CountDifferences` — the list of all differences is the list of first occurrences, and the per-row
maps hold the naive counts.
-/
namespace Gv.Proofs.StatsDiff
open Gv Gv.Model
set_option linter.unusedSimpArgs false
set_option linter.unusedSectionVars false

variable {α : Type} [BEq α] [LawfulBEq α]

/-- the "append when new" fold used for `alldiffs` (Go: slice + `alldiffsmap`) -/
def dedupFold (acc : List α) (l : List α) : List α :=
  l.foldl (fun acc p => if acc.contains p then acc else acc ++ [p]) acc

theorem dedupFold_eq (acc l : List α) :
    dedupFold acc l = acc ++ (Spec.firstOccurrences l).filter fun x => !acc.contains x := by
  induction l generalizing acc with
  | nil => simp [dedupFold, Spec.firstOccurrences]
  | cons a t ih =>
    have hstep : dedupFold acc (a :: t) = dedupFold (if acc.contains a then acc else acc ++ [a]) t := rfl
    rw [hstep, ih]
    by_cases ha : acc.contains a = true
    · simp only [ha, if_true, Spec.firstOccurrences]
      congr 1
      rw [List.filter_cons]
      simp only [ha, Bool.not_true, Bool.false_eq_true, if_false, List.filter_filter]
      apply List.filter_congr
      intro x _
      by_cases hx : x = a
      · subst hx; simp [ha]; exact List.contains_iff_mem.mp ha
      · have : (x != a) = true := by simpa using hx
        simp [this]
    · have ha' : acc.contains a = false := by simpa using ha
      simp only [ha', Bool.false_eq_true, if_false, Spec.firstOccurrences, List.append_assoc, List.singleton_append]
      congr 1
      rw [List.filter_cons]
      simp only [ha', Bool.not_false, if_true, List.filter_filter]
      congr 1
      apply List.filter_congr
      intro x _
      by_cases hx : x = a
      · subst hx; simp
      · have h1 : (x != a) = true := by simpa using hx
        have h2 : (x == a) = false := by simpa using hx
        simp [h1, h2, List.contains_append]
        intro e; exact absurd e hx

theorem dedupFold_nil (l : List α) : dedupFold [] l = Spec.firstOccurrences l := by
  rw [dedupFold_eq]; simp

theorem firstOccurrences_subset (l : List α) : ∀ x ∈ Spec.firstOccurrences l, x ∈ l := by
  induction l with
  | nil => simp [Spec.firstOccurrences]
  | cons a t ih =>
    intro x hx
    simp only [Spec.firstOccurrences, List.mem_cons, List.mem_filter] at hx
    rcases hx with rfl | ⟨h, _⟩
    · simp
    · exact List.mem_cons_of_mem _ (ih x h)

theorem firstOccurrences_nodup (l : List α) : (Spec.firstOccurrences l).Nodup := by
  induction l with
  | nil => simp [Spec.firstOccurrences]
  | cons a t ih =>
    simp only [Spec.firstOccurrences, List.nodup_cons, List.mem_filter, bne_self_eq_false, Bool.false_eq_true,
      and_false, not_false_eq_true, true_and]
    exact List.Nodup.sublist List.filter_sublist ih

theorem mem_firstOccurrences (l : List α) (x : α) : x ∈ Spec.firstOccurrences l ↔ x ∈ l := by
  constructor
  · exact firstOccurrences_subset l x
  · induction l with
    | nil => simp
    | cons a t ih =>
      intro hx
      simp only [Spec.firstOccurrences, List.mem_cons, List.mem_filter]
      by_cases e : x = a
      · exact Or.inl e
      · right
        rcases List.mem_cons.mp hx with h | h
        · exact absurd h e
        · exact ⟨ih h, by simpa using e⟩

/-! ### the per-row tally (Go: `diffmap[key] = diffmap[key] + 1`) -/

def tallyStep (acc : List (α × Nat)) (p : α) : List (α × Nat) :=
  if acc.any (·.1 == p) then acc.map (fun q => if q.1 == p then (q.1, q.2 + 1) else q) else acc ++ [(p, 1)]

def tally (ds : List α) : List (α × Nat) := ds.foldl tallyStep []

def cnt (acc : List (α × Nat)) (q : α) : Nat := (lookup q acc).getD 0

theorem lookup_map_incr (acc : List (α × Nat)) (p q : α) :
    lookup q (acc.map fun e => if e.1 == p then (e.1, e.2 + 1) else e) =
      if q == p then (lookup q acc).map (· + 1) else lookup q acc := by
  induction acc with
  | nil => simp [lookup]
  | cons e t ih =>
    obtain ⟨k, v⟩ := e
    by_cases hk : (k == p) = true
    · have hkp : k = p := by simpa using hk
      subst hkp
      by_cases hq : (q == k) = true
      · simp [lookup, hq]
      · have hq' : (q == k) = false := by simpa using hq
        simp only [List.map_cons, BEq.rfl, if_true, lookup, hq', Bool.false_eq_true, if_false]
        rw [ih]; simp [hq']
    · have hk' : (k == p) = false := by simpa using hk
      simp only [List.map_cons, hk', Bool.false_eq_true, if_false, lookup]
      by_cases hq : (q == k) = true
      · have hqk : q = k := by simpa using hq
        subst hqk
        simp [hk']
      · have hq' : (q == k) = false := by simpa using hq
        simp only [hq', Bool.false_eq_true, if_false]
        exact ih

theorem lookup_append_single (acc : List (α × Nat)) (p q : α) (n : Nat) :
    lookup q (acc ++ [(p, n)]) = match lookup q acc with | some v => some v | none => if q == p then some n else none := by
  induction acc with
  | nil => simp [lookup]
  | cons e t ih =>
    obtain ⟨k, v⟩ := e
    by_cases hq : (q == k) = true
    · simp [lookup, hq]
    · have hq' : (q == k) = false := by simpa using hq
      simp only [List.cons_append, lookup, hq', Bool.false_eq_true, if_false]
      exact ih

theorem lookup_none_of_not_any (acc : List (α × Nat)) (p : α) (h : acc.any (·.1 == p) = false) : lookup p acc = none := by
  induction acc with
  | nil => rfl
  | cons e t ih =>
    obtain ⟨k, v⟩ := e
    simp only [List.any_cons, Bool.or_eq_false_iff] at h
    have hk : (p == k) = false := by
      have := h.1
      simp only [beq_eq_false_iff_ne, ne_eq] at this ⊢
      exact fun e => this e.symm
    simp only [lookup, hk, Bool.false_eq_true, if_false]
    exact ih h.2

theorem lookup_some_of_any (acc : List (α × Nat)) (p : α) (h : acc.any (·.1 == p) = true) : ∃ v, lookup p acc = some v := by
  induction acc with
  | nil => simp at h
  | cons e t ih =>
    obtain ⟨k, v⟩ := e
    by_cases hk : (p == k) = true
    · exact ⟨v, by simp [lookup, hk]⟩
    · have hk' : (p == k) = false := by simpa using hk
      have hk'' : (k == p) = false := by
        simp only [beq_eq_false_iff_ne, ne_eq] at hk' ⊢
        exact fun e => hk' e.symm
      simp only [List.any_cons, hk'', Bool.false_or] at h
      obtain ⟨w, hw⟩ := ih h
      exact ⟨w, by simp [lookup, hk', hw]⟩

theorem lookup_tallyStep (acc : List (α × Nat)) (p q : α) :
    lookup q (tallyStep acc p) = if q == p then some (cnt acc p + 1) else lookup q acc := by
  unfold tallyStep
  by_cases ha : acc.any (·.1 == p) = true
  · simp only [ha, if_true]
    rw [lookup_map_incr]
    by_cases hq : (q == p) = true
    · have : q = p := by simpa using hq
      subst this
      obtain ⟨v, hv⟩ := lookup_some_of_any acc q ha
      simp [cnt, hv]
    · simp [hq]
  · have ha' : acc.any (·.1 == p) = false := Bool.eq_false_iff.mpr ha
    simp only [ha', Bool.false_eq_true, if_false]
    rw [lookup_append_single]
    by_cases hq : (q == p) = true
    · have : q = p := by simpa using hq
      subst this
      simp [cnt, lookup_none_of_not_any acc q ha']
    · have hq' : (q == p) = false := by simpa using hq
      simp only [hq', Bool.false_eq_true, if_false]
      cases lookup q acc <;> rfl

theorem lookup_fold (ds : List α) (acc : List (α × Nat)) (q : α) :
    lookup q (ds.foldl tallyStep acc) = if ds.count q = 0 then lookup q acc else some (cnt acc q + ds.count q) := by
  induction ds generalizing acc with
  | nil => simp
  | cons d t ih =>
    simp only [List.foldl_cons]
    rw [ih, lookup_tallyStep]
    by_cases hq : (q == d) = true
    · have : q = d := by simpa using hq
      subst this
      have hc : cnt (tallyStep acc q) q = cnt acc q + 1 := by
        simp [cnt, lookup_tallyStep]
      by_cases h0 : t.count q = 0
      · simp [h0, hc]
      · simp [h0, hc]; omega
    · have hq' : (q == d) = false := by simpa using hq
      have hdq : (d == q) = false := by
        simp only [beq_eq_false_iff_ne, ne_eq] at hq' ⊢
        exact fun e => hq' e.symm
      have hc : cnt (tallyStep acc d) q = cnt acc q := by
        simp [cnt, lookup_tallyStep, hq']
      rw [List.count_cons]
      simp [hq', hdq, hc]

/-- **the tally holds the naive counts** -/
theorem lookup_tally (ds : List α) (q : α) :
    lookup q (tally ds) = if ds.count q > 0 then some (ds.count q) else none := by
  unfold tally
  rw [lookup_fold]
  by_cases h : ds.count q = 0
  · simp [h, lookup]
  · have : ds.count q > 0 := by omega
    simp [h, this, cnt, lookup]

theorem keys_tallyStep (acc : List (α × Nat)) (p : α) :
    (tallyStep acc p).map Prod.fst = if (acc.map Prod.fst).contains p then acc.map Prod.fst else acc.map Prod.fst ++ [p] := by
  unfold tallyStep
  have hany : acc.any (·.1 == p) = (acc.map Prod.fst).contains p := by
    induction acc with
    | nil => rfl
    | cons e t ih =>
      simp only [List.any_cons, List.map_cons, List.contains_cons, ih]
      congr 1
      rw [Bool.eq_iff_iff]
      simp only [beq_iff_eq]
      exact ⟨fun e => e.symm, fun e => e.symm⟩
  rw [hany]
  by_cases h : (acc.map Prod.fst).contains p = true
  · simp only [h, if_true, List.map_map]
    apply List.map_congr_left
    intro e _
    simp only [Function.comp]
    split <;> rfl
  · have h' : (acc.map Prod.fst).contains p = false := Bool.eq_false_iff.mpr h
    rw [h']
    simp

/-- the keys of the tally come in order of first occurrence (in particular they are distinct) -/
theorem keys_tally (ds : List α) : (tally ds).map Prod.fst = Spec.firstOccurrences ds := by
  rw [← dedupFold_nil]
  unfold tally dedupFold
  have : ∀ (acc : List (α × Nat)), (ds.foldl tallyStep acc).map Prod.fst =
      ds.foldl (fun acc p => if acc.contains p then acc else acc ++ [p]) (acc.map Prod.fst) := by
    induction ds with
    | nil => intro acc; rfl
    | cons d t ih =>
      intro acc
      simp only [List.foldl_cons]
      rw [ih, keys_tallyStep]
  simpa using this []

/-! ### CountDifferences -/

theorem countDifferences_all (f : String × Seq) (rest : List (String × Seq)) :
    (countDifferences1 f rest).1 = Spec.allDiffs (f :: rest) := by
  cases rest with
  | nil => simp [countDifferences1, Spec.allDiffs, Spec.firstOccurrences]
  | cons r t =>
    simp only [countDifferences1, Spec.allDiffs]
    have := dedupFold_nil (α := Byte × Byte) ((r :: t).flatMap fun x => Spec.diffsOf f.2 x.2)
    unfold dedupFold at this
    rw [← this, List.flatMap_def]
    rfl

theorem countDifferences_rows (f : String × Seq) (rest : List (String × Seq)) :
    (countDifferences1 f rest).2 = rest.map fun r => tally (Spec.diffsOf f.2 r.2) := by
  cases rest with
  | nil => rfl
  | cons r t =>
    show List.map _ (List.map _ _) = _
    rw [List.map_map]
    rfl

end Gv.Proofs.StatsDiff
