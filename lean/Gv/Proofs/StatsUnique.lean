import Gv.Proofs.StatsSites
/-!
C14: the counter loops of `NumGapsUniquePerSequence(nil)` and `NumMutationsUniquePerSequence(nil)` equal
the naive per-row recounts of `Gv.Spec.Stats`.
-/
namespace Gv.Proofs.StatsUnique
open Gv Gv.Model Gv.Proofs.StatsCount Gv.Proofs.StatsSites
set_option linter.unusedSimpArgs false

/-! ### counter slices -/

theorem length_incrAt (l : List Nat) (k : Nat) : (incrAt l k).length = l.length := by
  induction l generalizing k with
  | nil => rfl
  | cons x t ih => cases k <;> simp [incrAt, ih]

theorem getD_incrAt (l : List Nat) (k i : Nat) (hi : i < l.length) :
    (incrAt l k).getD i 0 = l.getD i 0 + if i = k then 1 else 0 := by
  induction l generalizing k i with
  | nil => simp at hi
  | cons x t ih =>
    cases k with
    | zero =>
      cases i with
      | zero => simp [incrAt]
      | succ i => simp [incrAt]
    | succ k =>
      cases i with
      | zero => simp [incrAt]
      | succ i =>
        simp only [incrAt, List.getD_cons_succ]
        rw [ih k i (by simpa using hi)]
        simp

/-- a fold that increments one counter per selected item is a per-counter recount -/
theorem fold_incr {α : Type} (P : α → Bool) (I : α → Nat) (items : List α) (init : List Nat) :
    items.foldl (fun acc x => if P x then incrAt acc (I x) else acc) init =
      (List.range init.length).map fun r => init.getD r 0 + (items.filter fun x => P x && I x == r).length := by
  induction items generalizing init with
  | nil =>
    simp only [List.foldl_nil, List.filter_nil, List.length_nil, Nat.add_zero]
    apply List.ext_getElem
    · simp
    · intro i h1 h2
      simp [List.getD_eq_getElem?_getD, List.getElem?_eq_getElem h1]
  | cons x t ih =>
    simp only [List.foldl_cons]
    rw [ih]
    by_cases hp : P x = true
    · simp only [hp, if_true, length_incrAt, Bool.true_and]
      apply List.map_congr_left
      intro r hr
      rw [List.mem_range] at hr
      rw [getD_incrAt _ _ _ hr]
      by_cases hr' : I x = r
      · subst hr'
        simp [List.filter_cons, hp, Nat.add_assoc, Nat.add_comm 1]
      · have : (I x == r) = false := by simpa using hr'
        have hr'' : ¬ r = I x := fun e => hr' e.symm
        simp [List.filter_cons, hp, this, hr'']
    · have hp' : P x = false := by simpa using hp
      simp [hp', List.filter_cons]

/-! ### position of the only occurrence -/

theorem idxOf_eq_iff_of_count_one (a : Byte) (col : List Byte) (h : col.count a = 1) (i : Nat) (hi : i < col.length) :
    col.idxOf a = i ↔ col.getD i 0 = a := by
  induction col generalizing i with
  | nil => simp at hi
  | cons x t ih =>
    by_cases hx : x = a
    · subst hx
      have hc : t.count x = 0 := by simpa using h
      have hnm : x ∉ t := List.count_eq_zero.mp hc
      cases i with
      | zero => simp
      | succ i =>
        simp only [List.idxOf_cons_self, List.getD_cons_succ]
        constructor
        · intro e; omega
        · intro e
          have hi' : i < t.length := by simpa using hi
          rw [List.getD_eq_getElem?_getD, List.getElem?_eq_getElem hi'] at e
          simp only [Option.getD_some] at e
          exact absurd (e ▸ List.getElem_mem hi') hnm
    · have hc : t.count a = 1 := by
        rw [List.count_cons] at h
        have : (x == a) = false := by simpa using hx
        simpa [this] using h
      have hne : (x == a) = false := by simpa using hx
      cases i with
      | zero =>
        simp only [List.getD_cons_zero]
        rw [List.idxOf_cons]
        simp [hne, hx]
      | succ i =>
        rw [List.idxOf_cons]
        simp only [hne, cond_false, List.getD_cons_succ]
        have := ih hc i (by simpa using hi)
        simp only [Nat.add_right_cancel_iff]
        exact this

/-! ### NumGapsUniquePerSequence -/

theorem gapScan_none (col : List Byte) (j nb idx : Nat) (h : col.count GAP = 0) :
    gapScan col j nb idx = (nb, idx) := by
  induction col generalizing j with
  | nil => rfl
  | cons r t ih =>
    have hr : (r == GAP) = false := by
      rw [List.count_cons] at h
      by_cases e : (r == GAP) = true
      · simp [e] at h
      · simpa using e
    have ht : t.count GAP = 0 := by
      rw [List.count_cons] at h; simpa [hr] using h
    simp [gapScan, hr, ih _ ht]

theorem gapScan_second (col : List Byte) (j idx : Nat) (h : col.count GAP > 0) :
    (gapScan col j 1 idx).1 = 2 := by
  induction col generalizing j with
  | nil => simp at h
  | cons r t ih =>
    by_cases hr : (r == GAP) = true
    · simp [gapScan, hr]
    · have hr' : (r == GAP) = false := by simpa using hr
      have ht : t.count GAP > 0 := by
        rw [List.count_cons] at h; simpa [hr'] using h
      simp [gapScan, hr', ih _ ht]

theorem gapScan_first (col : List Byte) (j idx : Nat) :
    (col.count GAP = 1 → gapScan col j 0 idx = (1, j + col.idxOf GAP)) ∧
    (col.count GAP ≥ 2 → (gapScan col j 0 idx).1 = 2) := by
  induction col generalizing j idx with
  | nil => simp
  | cons r t ih =>
    by_cases hr : (r == GAP) = true
    · have hre : r = GAP := by simpa using hr
      subst hre
      constructor
      · intro h
        have ht : t.count GAP = 0 := by simpa using h
        simp [gapScan, gapScan_none t _ _ _ ht]
      · intro h
        have ht : t.count GAP > 0 := by
          rw [List.count_cons_self] at h; omega
        simp [gapScan, gapScan_second t _ _ ht]
    · have hr' : (r == GAP) = false := by simpa using hr
      have hc : (r :: t).count GAP = t.count GAP := by
        rw [List.count_cons]; simp [hr']
      rw [hc]
      have hne : ¬ r = GAP := by simpa using hr'
      constructor
      · intro h
        simp only [gapScan, hr', Bool.false_eq_true, if_false]
        rw [(ih (j + 1) idx).1 h, List.idxOf_cons]
        simp [hr']
        omega
      · intro h
        simp only [gapScan, hr', Bool.false_eq_true, if_false]
        exact (ih (j + 1) idx).2 h

/-- what the scan of one column tells: exactly one gap, and where -/
theorem gapScan_spec (col : List Byte) (i : Nat) (hi : i < col.length) :
    ((gapScan col 0 0 0).1 == 1 && (gapScan col 0 0 0).2 == i) = (col.getD i 0 == 45 && col.count 45 == 1) := by
  have hG : GAP = 45 := rfl
  by_cases h1 : col.count GAP = 1
  · rw [(gapScan_first col 0 0).1 h1]
    have := idxOf_eq_iff_of_count_one GAP col h1 i hi
    rw [hG] at h1 this
    simp only [hG, Nat.zero_add, h1, BEq.rfl, Bool.true_and, Bool.and_true]
    rw [Bool.eq_iff_iff]
    simpa using this
  · by_cases h0 : col.count GAP = 0
    · rw [gapScan_none col 0 0 0 h0]
      rw [hG] at h0
      simp [h0]
    · have h2 : col.count GAP ≥ 2 := by omega
      rw [(gapScan_first col 0 0).2 h2]
      rw [hG] at h1
      simp [h1]

theorem length_column (rows : CRows) (j : Nat) : (columnAt rows j).length = rows.length := by
  simp [columnAt]

theorem numGapsUnique_eq (rows : CRows) (L : Int) :
    numGapsUnique rows L = Spec.numGapsUnique rows L.toNat := by
  unfold numGapsUnique Spec.numGapsUnique Spec.gapsUniqueOf
  have := fold_incr (fun i => (gapScan (columnAt rows i) 0 0 0).1 == 1) (fun i => (gapScan (columnAt rows i) 0 0 0).2)
    (List.range L.toNat) (rows.map fun _ => 0)
  simp only [] at this ⊢
  rw [this]
  simp only [List.length_map]
  apply List.map_congr_left
  intro r hr
  rw [List.mem_range] at hr
  have h0 : (rows.map fun _ => 0).getD r 0 = 0 := by
    simp [List.getD_eq_getElem?_getD, List.getElem?_map]
    cases rows[r]? <;> simp
  rw [h0, Nat.zero_add]
  congr 1
  apply List.filter_congr
  intro j _
  rw [← column_eq]
  exact gapScan_spec (columnAt rows j) r (by rw [length_column]; exact hr)

/-! ### NumMutationsUniquePerSequence -/

theorem lastRowOf_absent (c : Byte) (col : List Byte) (j idx : Nat) (h : c ∉ col) : lastRowOf c col j idx = idx := by
  induction col generalizing j with
  | nil => rfl
  | cons r t ih =>
    have hr : (r == c) = false := by
      simp only [beq_eq_false_iff_ne, ne_eq]; intro e; subst e; exact h (by simp)
    simp only [lastRowOf, hr, Bool.false_eq_true, if_false]
    exact ih _ (fun hm => h (List.mem_cons_of_mem _ hm))

theorem lastRowOf_once (c : Byte) (col : List Byte) (j idx : Nat) (h : col.count c = 1) :
    lastRowOf c col j idx = j + col.idxOf c := by
  induction col generalizing j idx with
  | nil => simp at h
  | cons r t ih =>
    by_cases hr : (r == c) = true
    · have hre : r = c := by simpa using hr
      subst hre
      have ht : t.count r = 0 := by simpa using h
      simp [lastRowOf, lastRowOf_absent r t _ _ (List.count_eq_zero.mp ht)]
    · have hr' : (r == c) = false := by simpa using hr
      have ht : t.count c = 1 := by
        rw [List.count_cons] at h; simpa [hr'] using h
      simp only [lastRowOf, hr', Bool.false_eq_true, if_false]
      rw [ih _ _ ht, List.idxOf_cons]
      simp [hr']
      omega

theorem foldl_nested {α β γ : Type} (f : γ → α × β → γ) (xs : List α) (ys : List β) (init : γ) :
    xs.foldl (fun acc x => ys.foldl (fun acc y => f acc (x, y)) acc) init =
      (xs.flatMap fun x => ys.map fun y => (x, y)).foldl f init := by
  induction xs generalizing init with
  | nil => rfl
  | cons x t ih =>
    simp only [List.foldl_cons, List.flatMap_cons, List.foldl_append, List.foldl_map]
    exact ih _

theorem filter_flatMap_length {α β : Type} (xs : List α) (ys : List β) (q : α × β → Bool) :
    ((xs.flatMap fun x => ys.map fun y => (x, y)).filter q).length =
      (xs.map fun x => (ys.filter fun y => q (x, y)).length).sum := by
  induction xs with
  | nil => rfl
  | cons x t ih =>
    simp only [List.flatMap_cons, List.filter_append, List.length_append, List.map_cons, List.sum_cons, ih]
    congr 1
    rw [List.filter_map, List.length_map]
    rfl

theorem sum_indicator (xs : List Nat) (p : Nat → Bool) :
    (xs.map fun x => if p x then 1 else 0).sum = (xs.filter p).length := by
  induction xs with
  | nil => rfl
  | cons x t ih =>
    by_cases h : p x = true
    · simp [h, ih, Nat.add_comm]
    · have h' : p x = false := by simpa using h
      simp [h', ih]

theorem filter_range_eq_nat (n m : Nat) : ((List.range n).filter fun c => c == m).length = if m < n then 1 else 0 := by
  induction n with
  | zero => simp
  | succ n ih =>
    rw [List.range_succ, List.filter_append, List.length_append, ih]
    by_cases h : n = m
    · subst h; simp
    · have : (n == m) = false := by simpa using h
      simp only [List.filter_cons, this, Bool.false_eq_true, if_false, List.filter_nil, List.length_nil, Nat.add_zero]
      by_cases h2 : m < n
      · have : m < n + 1 := by omega
        simp [h2, this]
      · have : ¬ m < n + 1 := by omega
        simp [h2, this]

/-- among the byte values `0 … n-1` (n ≤ 256), the ones equal to a given byte and satisfying `b` -/
theorem filter_range_eq (n : Nat) (hn : n ≤ 256) (k : Byte) (b : Bool) (hk : k.toNat < n) :
    ((List.range n).filter fun c => UInt8.ofNat c == k && b).length = if b then 1 else 0 := by
  cases b with
  | false => simp
  | true =>
    simp only [Bool.and_true, if_true]
    have : ((List.range n).filter fun c => UInt8.ofNat c == k) = (List.range n).filter fun c => c == k.toNat := by
      apply List.filter_congr
      intro c hc
      rw [List.mem_range] at hc
      rw [Bool.eq_iff_iff]
      simp only [beq_iff_eq]
      constructor
      · intro e
        subst e
        simp only [UInt8.toNat_ofNat']
        omega
      · intro e
        apply UInt8.toNat_inj.mp
        simp only [UInt8.toNat_ofNat']
        omega
    rw [this, filter_range_eq_nat]
    simp [hk]

/-- what the second inner loop does at one site for the counter of row `r` -/
theorem mutScan_spec (all : Byte) (col : List Byte) (r : Nat) (hr : r < col.length) (hlow : ∀ x ∈ col, x.toNat < 130) :
    ((List.range 130).filter fun c =>
      (col.count (UInt8.ofNat c) == 1 && UInt8.ofNat c != all && UInt8.ofNat c != GAP) &&
        lastRowOf (UInt8.ofNat c) col 0 0 == r).length =
    if (col.getD r 0 != all && col.getD r 0 != 45 && col.count (col.getD r 0) == 1) then 1 else 0 := by
  have hmem : col.getD r 0 ∈ col := by
    rw [List.getD_eq_getElem?_getD, List.getElem?_eq_getElem hr]
    exact List.getElem_mem hr
  rw [← filter_range_eq 130 (by omega) (col.getD r 0)
    (col.getD r 0 != all && col.getD r 0 != 45 && col.count (col.getD r 0) == 1) (hlow _ hmem)]
  congr 1
  apply List.filter_congr
  intro c _
  generalize UInt8.ofNat c = ch
  have hG : GAP = 45 := rfl
  have hiff : col.count ch = 1 → (col.idxOf ch = r ↔ col.getD r 0 = ch) :=
    fun h1 => idxOf_eq_iff_of_count_one ch col h1 r hr
  generalize col.getD r 0 = g at hiff
  by_cases h1 : col.count ch = 1
  · rw [lastRowOf_once ch col 0 0 h1]
    by_cases e : ch = g
    · have e' : col.idxOf ch = r := (hiff h1).mpr e.symm
      subst e
      simp [h1, e', hG]
    · have e' : ¬ col.idxOf ch = r := fun x => e ((hiff h1).mp x).symm
      have e1 : (ch == g) = false := by simpa using e
      simp [e', e1]
  · have hc : (col.count ch == 1) = false := by simpa using h1
    by_cases e : ch = g
    · subst e; simp [hc]
    · have e1 : (ch == g) = false := by simpa using e
      simp [hc, e1]

theorem numMutationsUnique_eq (rows : CRows) (L : Int) (alphabet : Nat) :
    numMutationsUnique rows L alphabet =
      if Spec.hasHighByte rows L.toNat then none else some (Spec.numMutationsUnique rows L.toNat alphabet) := by
  unfold numMutationsUnique
  have hw : (if alphabet == AMINOACIDS then (88 : Byte) else if alphabet == NUCLEOTIDS then 78 else 46) =
      Spec.wildcardOf alphabet := by
    unfold Spec.wildcardOf AMINOACIDS NUCLEOTIDS
    by_cases h0 : alphabet = 0
    · simp [h0]
    · by_cases h1 : alphabet = 1
      · simp [h1]
      · simp [h0, h1]
  simp only [hw]
  have hc : ((List.range L.toNat).any fun i => (columnAt rows i).any fun r => r ≥ 130) = Spec.hasHighByte rows L.toNat := rfl
  rw [hc]
  by_cases hh : Spec.hasHighByte rows L.toNat = true
  · simp [hh]
  · have hh' : Spec.hasHighByte rows L.toNat = false := by simpa using hh
    simp only [hh', Bool.false_eq_true, if_false, Option.some.injEq]
    have hlow : ∀ i ∈ List.range L.toNat, ∀ x ∈ columnAt rows i, x.toNat < 130 := by
      intro i hi x hx
      unfold Spec.hasHighByte at hh'
      rw [List.any_eq_false] at hh'
      have h2 : ((columnAt rows i).any fun r => decide (r ≥ 130)) = false := Bool.eq_false_iff.mpr (hh' i hi)
      rw [List.any_eq_false] at h2
      have := h2 x hx
      simp only [ge_iff_le, decide_eq_true_eq, UInt8.le_iff_toNat_le] at this
      have e : (130 : UInt8).toNat = 130 := rfl
      omega
    rw [foldl_nested (fun acc (x : Nat × Nat) =>
      if (columnAt rows x.1).count (UInt8.ofNat x.2) == 1 && UInt8.ofNat x.2 != Spec.wildcardOf alphabet && UInt8.ofNat x.2 != GAP
      then incrAt acc (lastRowOf (UInt8.ofNat x.2) (columnAt rows x.1) 0 0) else acc)]
    rw [fold_incr (fun (x : Nat × Nat) =>
      (columnAt rows x.1).count (UInt8.ofNat x.2) == 1 && UInt8.ofNat x.2 != Spec.wildcardOf alphabet && UInt8.ofNat x.2 != GAP)
      (fun x => lastRowOf (UInt8.ofNat x.2) (columnAt rows x.1) 0 0)]
    unfold Spec.numMutationsUnique Spec.mutationsUniqueOf
    simp only [List.length_map]
    apply List.map_congr_left
    intro r hr
    rw [List.mem_range] at hr
    have h0 : (rows.map fun _ => 0).getD r 0 = 0 := by
      simp [List.getD_eq_getElem?_getD, List.getElem?_map]
      cases rows[r]? <;> simp
    rw [h0, Nat.zero_add, filter_flatMap_length, ← sum_indicator]
    congr 1
    apply List.map_congr_left
    intro i hi
    rw [← column_eq]
    exact mutScan_spec (Spec.wildcardOf alphabet) (columnAt rows i) r (by rw [length_column]; exact hr) (hlow i hi)

end Gv.Proofs.StatsUnique
