import Gv.Proofs.BagRect3
import Gv.Props.C13
/-!
C01, operations whose row-level model lives in another property's model (`ReverseComplement` C06,
`ReplaceChar`, `RemoveGapSites` C12, `Compress` C13): writing sequences back into the rows keeps ids,
names and index; invariant, kind and rectangularity for each of them.
-/
namespace Gv.Proofs.BagAbs
open Gv Gv.Model Gv.Proofs.BagInv

/-! ### `withSeqs` -/

theorem withSeqs_length (rows : List Row) (ps : List (String × Seq)) (h : ps.length = rows.length) :
    (withSeqs rows ps).length = rows.length := by
  simp [withSeqs, h]

theorem keys_withSeqs : ∀ (rows : List Row) (ps : List (String × Seq)), ps.length = rows.length →
    keys (withSeqs rows ps) = keys rows
  | [], [], _ => rfl
  | [], _ :: _, h => by simp at h
  | _ :: _, [], h => by simp at h
  | r :: t, p :: ps, h => by
    have ih := keys_withSeqs t ps (by simpa using h)
    simp only [keys, withSeqs, List.zipWith_cons_cons, List.map_cons] at ih ⊢
    rw [ih]

/-- the sequences written are the sequences shown -/
theorem pairs_withSeqs : ∀ (rows : List Row) (ps : List (String × Seq)), ps.map Prod.fst = rows.map (·.name) →
    (withSeqs rows ps).map (fun r => (r.name, r.seq)) = ps
  | [], [], _ => rfl
  | [], _ :: _, h => by simp at h
  | _ :: _, [], h => by simp at h
  | r :: t, p :: ps, h => by
    simp only [List.map_cons, List.cons.injEq] at h
    have ih := pairs_withSeqs t ps h.2
    simp only [withSeqs, List.zipWith_cons_cons, List.map_cons] at ih ⊢
    rw [ih, ← h.1]

theorem seqs_withSeqs : ∀ (rows : List Row) (ps : List (String × Seq)), ps.length = rows.length →
    (withSeqs rows ps).map (·.seq) = ps.map Prod.snd
  | [], [], _ => rfl
  | [], _ :: _, h => by simp at h
  | _ :: _, [], h => by simp at h
  | r :: t, p :: ps, h => by
    have ih := seqs_withSeqs t ps (by simpa using h)
    simp only [withSeqs, List.zipWith_cons_cons, List.map_cons] at ih ⊢
    rw [ih]

theorem withSeqs_pairs (rows : List Row) : withSeqs rows (rows.map fun r => (r.name, r.seq)) = rows := by
  induction rows with
  | nil => rfl
  | cons r t ih =>
    simp only [withSeqs, List.map_cons, List.zipWith_cons_cons] at ih ⊢
    rw [ih]

theorem length_of_names {rows : List Row} {ps : List (String × Seq)} (h : ps.map Prod.fst = rows.map (·.name)) :
    ps.length = rows.length := by
  simpa using congrArg List.length h

theorem inv_withSeqs {b : Bag} (h : Inv b) (ps : List (String × Seq)) (hl : ps.length = b.rows.length) :
    Inv { b with rows := withSeqs b.rows ps } :=
  h.transfer (by simp only []; rw [keys_withSeqs _ _ hl]) rfl (Nat.le_refl _)

/-! ### `ReverseComplement` -/

theorem complementSeq_length (s : Seq) : (complementSeq s).1.length = s.length := by
  induction s with
  | nil => rfl
  | cons c t ih =>
    simp only [complementSeq]
    split
    · rfl
    · simp [ih]

theorem revcompSeq_length (s : Seq) : (revcompSeq s).1.length = s.length := by
  unfold revcompSeq
  simp only []
  split
  · exact complementSeq_length s
  · simp [complementSeq_length]

theorem revcompRows_names (l : List (String × Seq)) : (revcompRows l).1.map Prod.fst = l.map Prod.fst := by
  induction l with
  | nil => rfl
  | cons p t ih =>
    obtain ⟨n, s⟩ := p
    simp only [revcompRows]
    split
    · rfl
    · simp [ih]

theorem revcompRows_lens (l : List (String × Seq)) :
    (revcompRows l).1.map (·.2.length) = l.map (·.2.length) := by
  induction l with
  | nil => rfl
  | cons p t ih =>
    obtain ⟨n, s⟩ := p
    simp only [revcompRows]
    split
    · simp [revcompSeq_length]
    · simp [ih, revcompSeq_length]

theorem pairs_names (b : Bag) : (pairs b).map Prod.fst = b.rows.map (·.name) := by
  simp [pairs, List.map_map, Function.comp_def]

theorem revcomp_names (b : Bag) : (revcompRows (pairs b)).1.map Prod.fst = b.rows.map (·.name) := by
  rw [revcompRows_names, pairs_names]

theorem reverseComplement_keys (b : Bag) : keys (reverseComplement b).1.rows = keys b.rows := by
  unfold reverseComplement
  split
  · rfl
  · exact keys_withSeqs _ _ (length_of_names (revcomp_names b))

theorem reverseComplement_fields (b : Bag) :
    (reverseComplement b).1.index = b.index ∧ (reverseComplement b).1.next = b.next ∧
    (reverseComplement b).1.isAlign = b.isAlign ∧ (reverseComplement b).1.alphabet = b.alphabet ∧
    (reverseComplement b).1.length = b.length ∧ (reverseComplement b).1.policy = b.policy := by
  unfold reverseComplement
  split <;> exact ⟨rfl, rfl, rfl, rfl, rfl, rfl⟩

theorem inv_reverseComplement (b : Bag) (h : Inv b) : Inv (reverseComplement b).1 :=
  h.transfer (by rw [reverseComplement_keys]) (reverseComplement_fields b).1
    (by rw [(reverseComplement_fields b).2.1]; exact Nat.le_refl _)

theorem reverseComplement_lens (b : Bag) :
    (reverseComplement b).1.rows.map (·.seq.length) = b.rows.map (·.seq.length) := by
  unfold reverseComplement
  split
  · rfl
  · have hl := length_of_names (revcomp_names b)
    have := seqs_withSeqs b.rows (revcompRows (pairs b)).1 hl
    have e : (withSeqs b.rows (revcompRows (pairs b)).1).map (·.seq.length) =
        ((withSeqs b.rows (revcompRows (pairs b)).1).map (·.seq)).map List.length := by
      simp [List.map_map, Function.comp_def]
    simp only []
    rw [e, this]
    have := revcompRows_lens (pairs b)
    simp only [pairs, List.map_map, Function.comp_def] at this ⊢
    exact this

/-- reverse-complementing keeps every row's length, whether it succeeds or stops with an error -/
theorem rect_reverseComplement {b : Bag} (h : Rect b) : Rect (reverseComplement b).1 :=
  h.congr (reverseComplement_fields b).2.2.1 (reverseComplement_fields b).2.2.2.2.1 (reverseComplement_lens b)

/-! ### `ReplaceChar` -/

theorem keys_setInRow (i j : Nat) (c : Byte) (rows : List Row) : keys (setInRow i j c rows) = keys rows := by
  simp only [keys, setInRow, List.map_map]
  apply List.map_congr_left
  intro r _
  simp only [Function.comp]; split <;> rfl

theorem lens_setInRow (i j : Nat) (c : Byte) (rows : List Row) :
    (setInRow i j c rows).map (·.seq.length) = rows.map (·.seq.length) := by
  simp only [setInRow, List.map_map]
  apply List.map_congr_left
  intro r _
  simp only [Function.comp]; split <;> simp [setAt]

/-- the state after `ReplaceChar` is the old one, or the old one with one residue of one row overwritten -/
theorem replaceChar_cases {name : String} {site : Int} {c : Byte} {b : Bag} {r : Bag × Bool}
    (h : replaceChar name site c b = some r) :
    r.1 = b ∨ ∃ i, r.1 = { b with rows := setInRow i site.toNat c b.rows } := by
  unfold replaceChar at h
  split at h
  · simp only [Option.some.injEq] at h; subst h; exact Or.inl rfl
  · split at h
    · simp only [Option.some.injEq] at h; subst h; exact Or.inl rfl
    · split at h
      · simp only [Option.some.injEq] at h; subst h; exact Or.inl rfl
      · rename_i i _
        split at h
        · simp at h
        · simp only [Option.some.injEq] at h; subst h; exact Or.inr ⟨i, rfl⟩

theorem inv_replaceChar (name : String) (site : Int) (c : Byte) (b : Bag) (h : Inv b) (r : Bag × Bool)
    (hr : replaceChar name site c b = some r) : Inv r.1 := by
  rcases replaceChar_cases hr with e | ⟨i, e⟩ <;> rw [e]
  · exact h
  · exact h.transfer (by simp only []; rw [keys_setInRow]) rfl (Nat.le_refl _)

theorem rect_replaceChar (name : String) (site : Int) (c : Byte) {b : Bag} (h : Rect b) (r : Bag × Bool)
    (hr : replaceChar name site c b = some r) : Rect r.1 := by
  rcases replaceChar_cases hr with e | ⟨i, e⟩ <;> rw [e]
  · exact h
  · exact h.congr rfl rfl (lens_setInRow _ _ _ _)

theorem isAlign_replaceChar (name : String) (site : Int) (c : Byte) (b : Bag) (r : Bag × Bool)
    (hr : replaceChar name site c b = some r) : r.1.isAlign = b.isAlign := by
  rcases replaceChar_cases hr with e | ⟨i, e⟩ <;> rw [e]

/-! ### `RemoveGapSites` (through the C12 model) -/

theorem filter_not_length {α : Type} (g : α → Bool) (l : List α) :
    (l.filter fun i => !g i).length + (l.filter g).length = l.length := by
  induction l with
  | nil => rfl
  | cons a t ih =>
    cases hg : g a <;> simp [List.filter_cons, hg] <;> omega

theorem removeSites_names (rows : CRows) (L : Nat) (q : List Bool) (ends : Bool) :
    (removeSites rows L q ends).rows.map Prod.fst = rows.map Prod.fst := by
  unfold removeSites
  simp [List.map_map, Function.comp_def]

theorem removeCharacterSites_names (test : Nat → Nat → Bool) (rows : CRows) (L : Int) (alphabet : Nat)
    (cs : List Byte) (ends ic ig iN rev : Bool) :
    (removeCharacterSites test rows L alphabet cs ends ic ig iN rev).rows.map Prod.fst = rows.map Prod.fst := by
  unfold removeCharacterSites
  split
  · rfl
  · exact removeSites_names _ _ _ _

/-- after the removal pass every row has the reported number of columns -/
theorem removeSites_lens (rows : CRows) (hne : rows ≠ []) (L : Nat) (q : List Bool) (ends : Bool) :
    ∀ p ∈ (removeSites rows L q ends).rows, (p.2.length : Int) = (removeSites rows L q ends).length := by
  have he : rows.isEmpty = false := by cases rows <;> simp_all
  unfold removeSites
  simp only [he, Bool.false_eq_true, if_false]
  intro p hp
  obtain ⟨x, _, rfl⟩ := List.mem_map.mp hp
  simp only [List.length_map]
  have := filter_not_length (fun i => q.getD i false && (!ends || decide (i ≥ (trackLoop L q 0 0 L).2) || decide (i + 1 ≤ (trackLoop L q 0 0 L).1))) (List.range L)
  simp only [List.length_range] at this
  omega

theorem removeGapSites_fields {test : Nat → Nat → Bool} {ends : Bool} {b : Bag} {r : Bag × CleanResult}
    (h : removeGapSites test ends b = some r) :
    keys r.1.rows = keys b.rows ∧ r.1.index = b.index ∧ r.1.next = b.next ∧ r.1.isAlign = b.isAlign ∧
    r.1.alphabet = b.alphabet ∧ r.1.policy = b.policy := by
  unfold removeGapSites at h
  split at h
  · simp at h
  · simp only [Option.some.injEq] at h; subst h
    refine ⟨keys_withSeqs _ _ (length_of_names ?_), rfl, rfl, rfl, rfl, rfl⟩
    rw [removeCharacterSites_names, pairs_names]

theorem inv_removeGapSites (test : Nat → Nat → Bool) (ends : Bool) (b : Bag) (h : Inv b) (r : Bag × CleanResult)
    (hr : removeGapSites test ends b = some r) : Inv r.1 := by
  obtain ⟨k, i, n, _⟩ := removeGapSites_fields hr
  exact h.transfer (by rw [k]) i (by omega)

theorem rect_removeGapSites (test : Nat → Nat → Bool) (ends : Bool) {b : Bag} (h : Rect b) (r : Bag × CleanResult)
    (hr : removeGapSites test ends b = some r) : Rect r.1 := by
  unfold removeGapSites at hr
  split at hr
  · simp at hr
  · simp only [Option.some.injEq] at hr; subst hr
    have hnames := removeCharacterSites_names test (pairs b) b.length b.alphabet [GAP] ends false false false false
    have hl := length_of_names (hnames.trans (pairs_names b))
    constructor
    · intro ha x hx
      simp only [] at ha hx ⊢
      -- the row's sequence is one of the sequences of the C12 result
      have hseq : x.seq ∈ (removeCharacterSites test (pairs b) b.length b.alphabet [GAP] ends false false false false).rows.map Prod.snd := by
        rw [← seqs_withSeqs _ _ hl]; exact List.mem_map_of_mem (f := (·.seq)) hx
      obtain ⟨p, hp, e⟩ := List.mem_map.mp hseq
      rw [← e]
      have hne : b.rows ≠ [] := by
        intro e0
        have : (withSeqs b.rows (removeCharacterSites test (pairs b) b.length b.alphabet [GAP] ends false false false false).rows).length = 0 := by
          rw [withSeqs_length _ _ hl, e0]; rfl
        rw [List.length_eq_zero_iff] at this
        rw [this] at hx; simp at hx
      have hpne : pairs b ≠ [] := by simpa [pairs] using hne
      have hlen : 0 ≤ b.length := by
        cases hrows : b.rows with
        | nil => exact absurd hrows hne
        | cons y t =>
          have := h.rows_len ha y (by simp [hrows])
          omega
      unfold removeCharacterSites at hp ⊢
      rw [if_neg (by omega)] at hp ⊢
      exact removeSites_lens _ hpne _ _ _ p hp
    · intro ha he
      simp only [] at ha he ⊢
      have hb : b.rows = [] := by
        have := withSeqs_length b.rows _ hl
        rw [he] at this
        exact List.eq_nil_of_length_eq_zero this.symm
      have := h.empty_len ha hb
      unfold removeCharacterSites
      rw [if_pos (by omega)]
      exact this

/-! ### `Compress` (through the C13 model) -/

theorem compressBag_fields {b : Bag} {r : Bag × List Nat} (h : compressBag b = some r) :
    keys r.1.rows = keys b.rows ∧ r.1.index = b.index ∧ r.1.next = b.next ∧ r.1.isAlign = b.isAlign ∧
    r.1.alphabet = b.alphabet ∧ r.1.policy = b.policy := by
  unfold compressBag at h
  split at h
  · simp at h
  · simp only [Option.some.injEq] at h; subst h
    refine ⟨keys_withSeqs _ _ (length_of_names ?_), rfl, rfl, rfl, rfl, rfl⟩
    rw [(Gv.Props.C13.compress_spec (pairs b) b.length).1, pairs_names]

theorem inv_compressBag (b : Bag) (h : Inv b) (r : Bag × List Nat) (hr : compressBag b = some r) : Inv r.1 := by
  obtain ⟨k, i, n, _⟩ := compressBag_fields hr
  exact h.transfer (by rw [k]) i (by omega)

/-- compressing an alignment that has sequences leaves it rectangular: every row gets one residue per
pattern and the cached length is the number of patterns -/
theorem rect_compressBag {b : Bag} (hne : b.rows ≠ []) (r : Bag × List Nat) (hr : compressBag b = some r) :
    Rect r.1 := by
  unfold compressBag at hr
  split at hr
  · simp at hr
  · simp only [Option.some.injEq] at hr; subst hr
    have hspec := Gv.Props.C13.compress_spec (pairs b) b.length
    have hl := length_of_names (hspec.1.trans (pairs_names b))
    constructor
    · intro _ x hx
      simp only [] at hx ⊢
      have hseq : x.seq ∈ (compress (pairs b) b.length).1.map Prod.snd := by
        rw [← seqs_withSeqs _ _ hl]; exact List.mem_map_of_mem (f := (·.seq)) hx
      obtain ⟨p, hp, e⟩ := List.mem_map.mp hseq
      rw [← e]
      exact hspec.2.1 p hp
    · intro _ he
      simp only [] at he
      have := withSeqs_length b.rows _ hl
      rw [he] at this
      exact absurd (List.eq_nil_of_length_eq_zero this.symm) hne

end Gv.Proofs.BagAbs
