import Gv.Proofs.DistColsRows
/-!
Helper development for property C08, first half — Part K: the internal-gap counter is invariant under
*reversal* of the site list (leading gap runs become trailing ones), for non-negative weights, IUPAC
codes (≤ 15) and a selection vector as `selectedSites` produces it.

Abstract part: a left-to-right scan with "seen a nucleotide in row k" flags, an accumulator and the two
values `q k` = accumulator right after the last counted site where row `k` holds a nucleotide; the result
`min q1 q2` is a two-sided sum `S2` whose definition is symmetric under reversal.
-/
namespace Gv.Proofs.DistCols
open Gv Gv.Model.Dist

section abstract
variable {S : Type} (n1 n2 act : S → Bool) (val : S → ℝ)

/-- a site is counted once both rows have shown a nucleotide (at or before it) -/
def cntA (b1 b2 : Bool) (s : S) : Bool := act s && (b1 || n1 s) && (b2 || n2 s)

structure AB where
  b1 : Bool
  b2 : Bool
  acc : ℝ
  q1 : ℝ
  q2 : ℝ

noncomputable def abStep (st : AB) (s : S) : AB :=
  ⟨st.b1 || n1 s, st.b2 || n2 s,
   if cntA n1 n2 act st.b1 st.b2 s then st.acc + val s else st.acc,
   if cntA n1 n2 act st.b1 st.b2 s && n1 s then st.acc + val s else st.q1,
   if cntA n1 n2 act st.b1 st.b2 s && n2 s then st.acc + val s else st.q2⟩

/-- is there a counted site where `k` holds? -/
def anyC (k : S → Bool) : Bool → Bool → List S → Bool
  | _, _, [] => false
  | b1, b2, s :: t => (cntA n1 n2 act b1 b2 s && k s) || anyC k (b1 || n1 s) (b2 || n2 s) t

/-- sum of the counted sites up to the last counted site where `k` holds -/
noncomputable def hd (k : S → Bool) : Bool → Bool → List S → ℝ
  | _, _, [] => 0
  | b1, b2, s :: t =>
    (if cntA n1 n2 act b1 b2 s && (k s || anyC n1 n2 act k (b1 || n1 s) (b2 || n2 s) t) then val s else 0)
      + hd k (b1 || n1 s) (b2 || n2 s) t

noncomputable def hdBoth : Bool → Bool → List S → ℝ
  | _, _, [] => 0
  | b1, b2, s :: t =>
    (if cntA n1 n2 act b1 b2 s && (n1 s || anyC n1 n2 act n1 (b1 || n1 s) (b2 || n2 s) t)
        && (n2 s || anyC n1 n2 act n2 (b1 || n1 s) (b2 || n2 s) t) then val s else 0)
      + hdBoth (b1 || n1 s) (b2 || n2 s) t

/-- two-sided sum: `b k` = row `k` has a nucleotide before the list, `e k` = after it -/
noncomputable def S2 : Bool → Bool → Bool → Bool → List S → ℝ
  | _, _, _, _, [] => 0
  | b1, b2, e1, e2, s :: t =>
    (if act s && (b1 || n1 s) && (b2 || n2 s) && (e1 || n1 s || t.any n1) && (e2 || n2 s || t.any n2) then val s else 0)
      + S2 (b1 || n1 s) (b2 || n2 s) e1 e2 t

theorem acc_fold (l : List S) (st : AB) :
    (l.foldl (abStep n1 n2 act val) st).acc = st.acc + hd n1 n2 act val (fun _ => true) st.b1 st.b2 l := by
  induction l generalizing st with
  | nil => simp [hd]
  | cons s t ih =>
    rw [List.foldl_cons, ih]
    simp only [abStep, hd, Bool.true_or, Bool.and_true]
    split <;> ring

theorem hd_zero_of_not_any (k : S → Bool) (b1 b2 : Bool) (l : List S)
    (h : anyC n1 n2 act k b1 b2 l = false) : hd n1 n2 act val k b1 b2 l = 0 := by
  induction l generalizing b1 b2 with
  | nil => rfl
  | cons s t ih =>
    simp only [anyC, Bool.or_eq_false_iff] at h
    simp only [hd, ih _ _ h.2, add_zero, h.2, Bool.or_false]
    rw [h.1]; rfl

theorem q1_fold (l : List S) (st : AB) :
    (l.foldl (abStep n1 n2 act val) st).q1 =
      if anyC n1 n2 act n1 st.b1 st.b2 l then st.acc + hd n1 n2 act val n1 st.b1 st.b2 l else st.q1 := by
  induction l generalizing st with
  | nil => simp [anyC]
  | cons s t ih =>
    rw [List.foldl_cons, ih]
    simp only [abStep, anyC, hd]
    rcases Bool.eq_false_or_eq_true (anyC n1 n2 act n1 (st.b1 || n1 s) (st.b2 || n2 s) t) with hA | hA
    · simp only [hA, Bool.or_true, Bool.and_true, if_true]
      rcases Bool.eq_false_or_eq_true (cntA n1 n2 act st.b1 st.b2 s) with hc | hc <;> simp [hc] <;> ring
    · have h0 := hd_zero_of_not_any n1 n2 act val n1 _ _ t hA
      simp only [hA, h0, Bool.or_false, add_zero, Bool.false_eq_true, if_false]
      rcases Bool.eq_false_or_eq_true (cntA n1 n2 act st.b1 st.b2 s && n1 s) with hc | hc <;> simp [hc]

theorem q2_fold (l : List S) (st : AB) :
    (l.foldl (abStep n1 n2 act val) st).q2 =
      if anyC n1 n2 act n2 st.b1 st.b2 l then st.acc + hd n1 n2 act val n2 st.b1 st.b2 l else st.q2 := by
  induction l generalizing st with
  | nil => simp [anyC]
  | cons s t ih =>
    rw [List.foldl_cons, ih]
    simp only [abStep, anyC, hd]
    rcases Bool.eq_false_or_eq_true (anyC n1 n2 act n2 (st.b1 || n1 s) (st.b2 || n2 s) t) with hA | hA
    · simp only [hA, Bool.or_true, Bool.and_true, if_true]
      rcases Bool.eq_false_or_eq_true (cntA n1 n2 act st.b1 st.b2 s) with hc | hc <;> simp [hc] <;> ring
    · have h0 := hd_zero_of_not_any n1 n2 act val n2 _ _ t hA
      simp only [hA, h0, Bool.or_false, add_zero, Bool.false_eq_true, if_false]
      rcases Bool.eq_false_or_eq_true (cntA n1 n2 act st.b1 st.b2 s && n2 s) with hc | hc <;> simp [hc]

theorem hd_nonneg (k : S → Bool) (b1 b2 : Bool) (l : List S) (hv : ∀ s ∈ l, 0 ≤ val s) :
    0 ≤ hd n1 n2 act val k b1 b2 l := by
  induction l generalizing b1 b2 with
  | nil => simp [hd]
  | cons s t ih =>
    simp only [hd]
    have := ih (b1 || n1 s) (b2 || n2 s) (fun u hu => hv u (by simp [hu]))
    split <;> linarith [hv s (by simp)]

theorem hdBoth_zero_of_not_any1 (b1 b2 : Bool) (l : List S) (h : anyC n1 n2 act n1 b1 b2 l = false) :
    hdBoth n1 n2 act val b1 b2 l = 0 := by
  induction l generalizing b1 b2 with
  | nil => rfl
  | cons s t ih =>
    simp only [anyC, Bool.or_eq_false_iff] at h
    simp only [hdBoth, ih _ _ h.2, add_zero, h.2, Bool.or_false]
    have : (cntA n1 n2 act b1 b2 s && n1 s) = false := h.1
    cases hc : cntA n1 n2 act b1 b2 s <;> simp_all

theorem hdBoth_zero_of_not_any2 (b1 b2 : Bool) (l : List S) (h : anyC n1 n2 act n2 b1 b2 l = false) :
    hdBoth n1 n2 act val b1 b2 l = 0 := by
  induction l generalizing b1 b2 with
  | nil => rfl
  | cons s t ih =>
    simp only [anyC, Bool.or_eq_false_iff] at h
    simp only [hdBoth, ih _ _ h.2, add_zero, h.2, Bool.or_false]
    have : (cntA n1 n2 act b1 b2 s && n2 s) = false := h.1
    cases hc : cntA n1 n2 act b1 b2 s <;> simp_all

/-- nested prefixes of non-negative terms: the smaller of the two sums is the sum over the intersection -/
theorem min_hd (b1 b2 : Bool) (l : List S) (hv : ∀ s ∈ l, 0 ≤ val s) :
    min (hd n1 n2 act val n1 b1 b2 l) (hd n1 n2 act val n2 b1 b2 l) = hdBoth n1 n2 act val b1 b2 l := by
  induction l generalizing b1 b2 with
  | nil => simp [hd, hdBoth]
  | cons s t ih =>
    have hvt : ∀ u ∈ t, 0 ≤ val u := fun u hu => hv u (by simp [hu])
    have hvs : 0 ≤ val s := hv s (by simp)
    have ih' := ih (b1 || n1 s) (b2 || n2 s) hvt
    have p1 := hd_nonneg n1 n2 act val n1 (b1 || n1 s) (b2 || n2 s) t hvt
    have p2 := hd_nonneg n1 n2 act val n2 (b1 || n1 s) (b2 || n2 s) t hvt
    simp only [hd, hdBoth]
    cases hc : cntA n1 n2 act b1 b2 s
    · simp only [Bool.false_and, Bool.false_eq_true, if_false, zero_add]; exact ih'
    · simp only [Bool.true_and]
      cases h1 : (n1 s || anyC n1 n2 act n1 (b1 || n1 s) (b2 || n2 s) t) <;>
        cases h2 : (n2 s || anyC n1 n2 act n2 (b1 || n1 s) (b2 || n2 s) t)
      · simp only [Bool.false_eq_true, if_false, zero_add, Bool.and_self]; exact ih'
      · simp only [Bool.or_eq_false_iff] at h1
        have z := hd_zero_of_not_any n1 n2 act val n1 _ _ t h1.2
        have zb := hdBoth_zero_of_not_any1 n1 n2 act val _ _ t h1.2
        simp only [z, zb, Bool.false_eq_true, if_false, zero_add, Bool.false_and, if_true, add_zero]
        exact min_eq_left (by linarith)
      · simp only [Bool.or_eq_false_iff] at h2
        have z := hd_zero_of_not_any n1 n2 act val n2 _ _ t h2.2
        have zb := hdBoth_zero_of_not_any2 n1 n2 act val _ _ t h2.2
        simp only [z, zb, Bool.false_eq_true, if_false, zero_add, Bool.and_false, if_true, add_zero]
        exact min_eq_right (by linarith)
      · simp only [Bool.and_self, if_true]
        rw [min_add_add_left, ih']

/-- result of the scan from the initial state -/
theorem scan_result (l : List S) (hv : ∀ s ∈ l, 0 ≤ val s) :
    min (l.foldl (abStep n1 n2 act val) ⟨false, false, 0, 0, 0⟩).q1 (l.foldl (abStep n1 n2 act val) ⟨false, false, 0, 0, 0⟩).q2
      = hdBoth n1 n2 act val false false l := by
  rw [q1_fold, q2_fold, ← min_hd n1 n2 act val _ _ _ hv]
  simp only [zero_add]
  congr 1
  · cases hA : anyC n1 n2 act n1 false false l
    · simp [hd_zero_of_not_any n1 n2 act val n1 _ _ l hA]
    · simp
  · cases hA : anyC n1 n2 act n2 false false l
    · simp [hd_zero_of_not_any n1 n2 act val n2 _ _ l hA]
    · simp

omit n1 n2 act val in
theorem any_congr_mem {β : Type} (l : List β) (p q : β → Bool) (h : ∀ u ∈ l, p u = q u) : l.any p = l.any q := by
  induction l with
  | nil => rfl
  | cons a t ih =>
    simp only [List.any_cons, h a (by simp), ih (fun u hu => h u (by simp [hu]))]

theorem anyC_tt (k : S → Bool) (t : List S) :
    anyC n1 n2 act k true true t = t.any (fun u => act u && k u) := by
  induction t with
  | nil => rfl
  | cons u t ih => simp only [anyC, cntA, Bool.true_or, Bool.and_true, ih, List.any_cons]

/-- the shape of the selection: every site with a nucleotide is active, or every active site holds two nucleotides -/
def SelShape (l : List S) : Prop :=
  (∀ u ∈ l, act u = (n1 u || n2 u)) ∨ (∀ u ∈ l, act u = true → n1 u = true ∧ n2 u = true)

theorem hdBoth_eq_S2 (b1 b2 : Bool) (l : List S) (h : SelShape n1 n2 act l) :
    hdBoth n1 n2 act val b1 b2 l = S2 n1 n2 act val b1 b2 false false l := by
  induction l generalizing b1 b2 with
  | nil => rfl
  | cons s t ih =>
    have ht : SelShape n1 n2 act t := by
      rcases h with h | h
      · exact Or.inl fun u hu => h u (by simp [hu])
      · exact Or.inr fun u hu => h u (by simp [hu])
    simp only [hdBoth, S2, ih _ _ ht, Bool.false_or]
    congr 1
    rcases Bool.eq_false_or_eq_true (cntA n1 n2 act b1 b2 s) with hc | hc
    · have hc' := hc
      simp only [cntA, Bool.and_eq_true] at hc'
      obtain ⟨⟨ha, hb1⟩, hb2⟩ := hc'
      simp only [hc, hb1, hb2, anyC_tt, Bool.true_and]
      have hc2 : (act s && (b1 || n1 s) && (b2 || n2 s)) = true := hc
      rcases h with h | h
      · have e1 : t.any (fun u => act u && n1 u) = t.any n1 := by
          apply any_congr_mem
          intro u hu
          rw [h u (by simp [hu])]
          cases n1 u <;> simp
        have e2 : t.any (fun u => act u && n2 u) = t.any n2 := by
          apply any_congr_mem
          intro u hu
          rw [h u (by simp [hu])]
          cases n2 u <;> simp
        rw [e1, e2]
        simp only [ha, Bool.true_and, Bool.and_true]
      · obtain ⟨h1, h2⟩ := h s (by simp) ha
        simp only [h1, h2, ha, Bool.true_or, Bool.and_self, if_true]
    · have hc2 : (act s && (b1 || n1 s) && (b2 || n2 s)) = false := hc
      simp only [hc, hc2, Bool.false_and]

theorem S2_append (b1 b2 e1 e2 : Bool) (l : List S) (s : S) :
    S2 n1 n2 act val b1 b2 e1 e2 (l ++ [s]) =
      S2 n1 n2 act val b1 b2 (e1 || n1 s) (e2 || n2 s) l +
        (if act s && (b1 || l.any n1 || n1 s) && (b2 || l.any n2 || n2 s) && (e1 || n1 s) && (e2 || n2 s) then val s else 0) := by
  induction l generalizing b1 b2 with
  | nil => simp [S2]
  | cons u t ih =>
    simp only [List.cons_append, S2, ih, List.any_append, List.any_cons, List.any_nil, Bool.or_false]
    rw [add_assoc]
    congr 1
    · congr 1
      cases e1 <;> cases e2 <;> cases n1 s <;> cases n2 s <;> cases n1 u <;> cases n2 u <;> cases t.any n1 <;>
        cases t.any n2 <;> rfl
    · congr 2
      cases b1 <;> cases b2 <;> cases n1 u <;> cases n2 u <;> rfl

/-- the two-sided sum read from the other end -/
theorem S2_reverse (b1 b2 e1 e2 : Bool) (l : List S) :
    S2 n1 n2 act val b1 b2 e1 e2 l.reverse = S2 n1 n2 act val e1 e2 b1 b2 l := by
  induction l generalizing b1 b2 e1 e2 with
  | nil => rfl
  | cons s t ih =>
    rw [List.reverse_cons, S2_append, ih]
    simp only [S2, List.any_reverse]
    rw [add_comm]
    congr 2
    cases act s <;> cases b1 <;> cases b2 <;> cases e1 <;> cases e2 <;> cases n1 s <;> cases n2 s <;>
      cases t.any n1 <;> cases t.any n2 <;> rfl

/-- **the scan gives the same result on the reversed list** -/
theorem scan_reverse (l : List S) (hv : ∀ s ∈ l, 0 ≤ val s) (h : SelShape n1 n2 act l) :
    min (l.reverse.foldl (abStep n1 n2 act val) ⟨false, false, 0, 0, 0⟩).q1
        (l.reverse.foldl (abStep n1 n2 act val) ⟨false, false, 0, 0, 0⟩).q2
      = min (l.foldl (abStep n1 n2 act val) ⟨false, false, 0, 0, 0⟩).q1
          (l.foldl (abStep n1 n2 act val) ⟨false, false, 0, 0, 0⟩).q2 := by
  have h' : SelShape n1 n2 act l.reverse := by
    rcases h with h | h
    · exact Or.inl fun u hu => h u (List.mem_reverse.mp hu)
    · exact Or.inr fun u hu => h u (List.mem_reverse.mp hu)
  rw [scan_result n1 n2 act val _ (fun u hu => hv u (List.mem_reverse.mp hu)), scan_result n1 n2 act val _ hv,
    hdBoth_eq_S2 n1 n2 act val _ _ _ h',
    hdBoth_eq_S2 n1 n2 act val _ _ _ h, S2_reverse]

end abstract

/-! ### `countDiffsWithInternalGaps` is such a scan -/

def n1S (s : Site ℝ) : Bool := isNuc s.a
def n2S (s : Site ℝ) : Bool := isNuc s.b
def actS (h : Bool) (s : Site ℝ) : Bool := (isNuc s.a || isNuc s.b) && (!h || s.sel)
/-- what a counted site adds to `nbdiffs` -/
noncomputable def dnS (s : Site ℝ) : ℝ := if (s.a != s.b && ntIUPACDifference s.a s.b) then s.w else 0
/-- what a counted site adds to `total` -/
noncomputable def dtS (r : Bool) (s : Site ℝ) : ℝ :=
  if !(!(s.a != s.b && ntIUPACDifference s.a s.b) && r && (isAmbiguous s.a || isAmbiguous s.b)) then s.w else 0

theorem diffUpdate_eq (r : Bool) (nb tot : ℝ) (s : Site ℝ) :
    diffUpdate r nb tot s = (nb + dnS s, tot + dtS r s, dnS s) := by
  unfold diffUpdate dnS dtS ofBool
  real_like
  generalize (s.a != s.b) = ne
  generalize ntIUPACDifference s.a s.b = d
  generalize (isAmbiguous s.a || isAmbiguous s.b) = amb
  cases r <;> cases ne <;> cases d <;> cases amb <;> simp

private theorem zero_real' : (@OfNat.ofNat ℝ 0 (instOfNatOfRealLike 0)) = (0 : ℝ) := by
  real_like

theorem igStep_eq (h r : Bool) (st : IG ℝ) (s : Site ℝ) :
    igStep h r st s =
      if actS h s && !(st.first1 && !n1S s) && !(st.first2 && !n2S s) then
        ⟨st.nb + dnS s, st.tot + dtS r s, st.first1 && !n1S s, st.first2 && !n2S s,
          if n1S s then 0 else st.tmp1 + dnS s, if n2S s then 0 else st.tmp2 + dnS s⟩
      else ⟨st.nb, st.tot, st.first1 && !n1S s, st.first2 && !n2S s, st.tmp1, st.tmp2⟩ := by
  unfold igStep actS n1S n2S
  simp only [diffUpdate_eq]
  have hd0 : (s.a != s.b) = false → dnS s = 0 := by
    intro hne; simp [dnS, hne]
  have hb : ∀ a b c d : Bool, (a && (b && c) && d) = (a && d && b && c) := by decide
  rw [hb]
  rcases Bool.eq_false_or_eq_true (s.a != s.b) with hne | hne
  · simp only [hne, if_true, zero_real']
  · simp only [hne, Bool.false_eq_true, if_false, hd0 hne, add_zero, zero_real']

/-- half-gap sites (exactly one row holds a nucleotide) add the same weight to `nbdiffs` and `total` -/
def KSite (r : Bool) (s : Site ℝ) : Prop := (n1S s != n2S s) = true → dtS r s = dnS s

set_option maxRecDepth 100000 in
theorem halfgap_codes : ∀ a : Code, a ≤ 15 → ∀ b : Code, b ≤ 15 → (isNuc a != isNuc b) = true →
    (a != b) = true ∧ ntIUPACDifference a b = true := by decide +kernel

theorem kSite_of_low (r : Bool) (s : Site ℝ) (ha : s.a ≤ 15) (hb : s.b ≤ 15) : KSite r s := by
  intro hx
  obtain ⟨h1, h2⟩ := halfgap_codes s.a ha s.b hb hx
  simp [dtS, dnS, h1, h2]

/-- the state of `countDiffsWithInternalGaps` and the two abstract scans (for `nbdiffs`, for `total`) -/
structure Sim (st : IG ℝ) (A T : AB) : Prop where
  b1 : A.b1 = !st.first1
  b2 : A.b2 = !st.first2
  tb1 : T.b1 = !st.first1
  tb2 : T.b2 = !st.first2
  acc : A.acc = st.nb
  q1 : A.q1 = st.nb - st.tmp1
  q2 : A.q2 = st.nb - st.tmp2
  tacc : T.acc = st.tot
  tq1 : T.q1 = st.tot - st.tmp1
  tq2 : T.q2 = st.tot - st.tmp2

theorem sim_step (h r : Bool) (st : IG ℝ) (A T : AB) (s : Site ℝ) (hk : KSite r s) (hs : Sim st A T) :
    Sim (igStep h r st s) (abStep n1S n2S (actS h) dnS A s) (abStep n1S n2S (actS h) (dtS r) T s) := by
  obtain ⟨b1, b2, tb1, tb2, acc, q1, q2, tacc, tq1, tq2⟩ := hs
  rw [igStep_eq]
  unfold KSite at hk
  have hc : ∀ (x y : Bool), cntA n1S n2S (actS h) (!x) (!y) s = (actS h s && !(x && !n1S s) && !(y && !n2S s)) := by
    intro x y
    unfold cntA
    cases x <;> cases y <;> cases n1S s <;> cases n2S s <;> simp
  rcases Bool.eq_false_or_eq_true (actS h s && !(st.first1 && !n1S s) && !(st.first2 && !n2S s)) with hcnt | hcnt
  · rw [if_pos hcnt]
    constructor <;> simp only [abStep, b1, b2, tb1, tb2, hc, hcnt, acc, tacc, q1, q2, tq1, tq2, if_true, Bool.true_and]
    · cases st.first1 <;> cases n1S s <;> rfl
    · cases st.first2 <;> cases n2S s <;> rfl
    · cases st.first1 <;> cases n1S s <;> rfl
    · cases st.first2 <;> cases n2S s <;> rfl
    · rcases Bool.eq_false_or_eq_true (n1S s) with e | e <;> simp [e]
    · rcases Bool.eq_false_or_eq_true (n2S s) with e | e <;> simp [e]
    · rcases Bool.eq_false_or_eq_true (n1S s) with e | e
      · simp [e]
      · have hn2 : n2S s = true := by
          rcases Bool.eq_false_or_eq_true (n2S s) with e2 | e2
          · exact e2
          · exfalso
            simp [actS, n1S, n2S] at hcnt e e2
            simp [e, e2] at hcnt
        have := hk (by simp [e, hn2])
        simp only [e, Bool.false_eq_true, if_false, this]
        ring
    · rcases Bool.eq_false_or_eq_true (n2S s) with e | e
      · simp [e]
      · have hn1 : n1S s = true := by
          rcases Bool.eq_false_or_eq_true (n1S s) with e1 | e1
          · exact e1
          · exfalso
            simp [actS, n1S, n2S] at hcnt e e1
            simp [e, e1] at hcnt
        have := hk (by simp [e, hn1])
        simp only [e, Bool.false_eq_true, if_false, this]
        ring
  · rw [if_neg (by rw [hcnt]; exact Bool.false_ne_true)]
    constructor <;> simp only [abStep, b1, b2, tb1, tb2, hc, hcnt, acc, tacc, q1, q2, tq1, tq2, Bool.false_and,
      Bool.false_eq_true, if_false]
    · cases st.first1 <;> cases n1S s <;> rfl
    · cases st.first2 <;> cases n2S s <;> rfl
    · cases st.first1 <;> cases n1S s <;> rfl
    · cases st.first2 <;> cases n2S s <;> rfl

theorem sim_fold (h r : Bool) (l : List (Site ℝ)) (hk : ∀ s ∈ l, KSite r s) (st : IG ℝ) (A T : AB) (hs : Sim st A T) :
    Sim (l.foldl (igStep h r) st) (l.foldl (abStep n1S n2S (actS h) dnS) A)
      (l.foldl (abStep n1S n2S (actS h) (dtS r)) T) := by
  induction l generalizing st A T with
  | nil => exact hs
  | cons s t ih =>
    simp only [List.foldl_cons]
    exact ih (fun u hu => hk u (by simp [hu])) _ _ _ (sim_step h r st A T s (hk s (by simp)) hs)

theorem maxG_eq_max (x y : ℝ) : maxG x y = max x y := by
  unfold maxG
  real_like
  simp only [decide_eq_true_eq]
  split_ifs with h
  · exact (max_eq_left h.le).symm
  · exact (max_eq_right (not_lt.mp h)).symm

/-- the internal-gap counter as the minimum of the two scans -/
theorem internalGaps_as_scan (h r : Bool) (l : List (Site ℝ)) (hk : ∀ s ∈ l, KSite r s) :
    countDiffsWithInternalGaps h r l =
      (min (l.foldl (abStep n1S n2S (actS h) dnS) ⟨false, false, 0, 0, 0⟩).q1
           (l.foldl (abStep n1S n2S (actS h) dnS) ⟨false, false, 0, 0, 0⟩).q2,
       min (l.foldl (abStep n1S n2S (actS h) (dtS r)) ⟨false, false, 0, 0, 0⟩).q1
           (l.foldl (abStep n1S n2S (actS h) (dtS r)) ⟨false, false, 0, 0, 0⟩).q2) := by
  have hs := sim_fold h r l hk ⟨0, 0, true, true, 0, 0⟩ ⟨false, false, 0, 0, 0⟩ ⟨false, false, 0, 0, 0⟩
    ⟨rfl, rfl, rfl, rfl, rfl, by simp, by simp, rfl, by simp, by simp⟩
  unfold countDiffsWithInternalGaps
  simp only [zero_real']
  rw [hs.q1, hs.q2, hs.tq1, hs.tq2, maxG_eq_max, min_sub_sub_left, min_sub_sub_left]

/-- **reversal invariance of the internal-gap counter**: non-negative weights, IUPAC codes, and a
selection that is all-true / ignored, or only selects sites where both rows hold a nucleotide -/
theorem internalGaps_reverse (h r : Bool) (l : List (Site ℝ)) (hw : ∀ s ∈ l, 0 ≤ s.w) (hlow : Low l)
    (hsel : SelShape n1S n2S (actS h) l) :
    countDiffsWithInternalGaps h r l.reverse = countDiffsWithInternalGaps h r l := by
  have hk : ∀ s ∈ l, KSite r s := fun s hs => kSite_of_low r s (hlow s hs).1 (hlow s hs).2
  have hk' : ∀ s ∈ l.reverse, KSite r s := fun s hs => hk s (List.mem_reverse.mp hs)
  have hdn : ∀ s ∈ l, 0 ≤ dnS s := by
    intro s hs; unfold dnS; split
    · exact hw s hs
    · exact le_refl 0
  have hdt : ∀ s ∈ l, 0 ≤ dtS r s := by
    intro s hs; unfold dtS; split
    · exact hw s hs
    · exact le_refl 0
  rw [internalGaps_as_scan h r _ hk', internalGaps_as_scan h r _ hk,
    scan_reverse n1S n2S (actS h) dnS l hdn hsel, scan_reverse n1S n2S (actS h) (dtS r) l hdt hsel]

end Gv.Proofs.DistCols
