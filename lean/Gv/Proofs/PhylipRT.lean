import Gv.Model.Fmt.Phylip
import Gv.Proofs.Decimal
import Gv.Proofs.FastaRT
import Gv.Proofs.Utf8Norm
import Gv.Spec.Fmt
/-!
Phylip round trip, helper development, part 1: lexing the writer's lines (the property statement is in
`Props/C02.lean`, the block structure in `Proofs/PhylipRT2.lean`).

* `scan_run`, `scan_ws`, `scan_nl`: what the lexer makes of an identifier run, a run of spaces, a newline;
* `chunksOf_spec`: the groups of `block` residues of a line are non-empty and concatenate to the line;
* `seqLine_chunks` / `seqLine_ws`: the token loop of one sequence line reads back the residues of the line,
  whatever the number of groups;
* `first_relaxed`, `first_strict`, `next_row`: one written row of the first block (relaxed / strict name
  column) and of a following block, as the parser reads it.
-/
namespace Gv.Proofs.PhylipRT
open Gv Gv.Model Gv.Model.Fmt Gv.Model.Fmt.Phylip
open Gv.Proofs.FastaRT (takeWhile_append_stop)

set_option maxRecDepth 100000

/-! ### the lexer on the pieces of a written line -/

/-- a non-empty run of identifier bytes (no blank, no line end, no NUL) -/
def Run (l : Seq) : Prop := l ≠ [] ∧ ∀ b ∈ l, identChar b = true ∧ isWS b = false

theorem identChar_facts (c : Byte) (h : identChar c = true) :
    (c == NL) = false ∧ (c == CR) = false ∧ (c == 0) = false ∧ c ≠ 0 := by
  simp only [identChar, Bool.and_eq_true, bne_iff_ne, ne_eq] at h
  obtain ⟨⟨⟨h1, h2⟩, h3⟩, h4⟩ := h
  refine ⟨?_, ?_, ?_, h4⟩ <;> simp [*]

/-- the lexer on a run followed by a byte that ends it -/
theorem scan_run (l : Seq) (h : Run l) (x : Byte) (hx : identChar x = false) (hx0 : x ≠ 0) (rest : Seq) :
    scan (l ++ x :: rest) = some ((if (parseInt64 l).isSome then Tok.num l else Tok.ident l), x :: rest) := by
  obtain ⟨hne, hall⟩ := h
  cases l with
  | nil => exact absurd rfl hne
  | cons c cs =>
    obtain ⟨f1, f2, f3, _⟩ := identChar_facts c (hall c (by simp)).1
    have fw : isWS c = false := (hall c (by simp)).2
    have hcs : ∀ b ∈ cs, identChar b = true := fun b hb => (hall b (by simp [hb])).1
    obtain ⟨t1, t2⟩ := takeWhile_append_stop (p := identChar) cs x rest hcs hx
    have hx0' : (x == 0) = false := by simp [hx0]
    simp only [List.cons_append, scan, fw, f1, f2, f3, Bool.false_eq_true, if_false, t1, t2, afterRun, hx0']

theorem isWS_SP : isWS SP = true := by decide

/-- one or more spaces followed by a byte that is not a blank -/
theorem scan_ws (k : Nat) (c : Byte) (hc : isWS c = false) (hc0 : c ≠ 0) (rest : Seq) :
    scan (List.replicate (k + 1) SP ++ c :: rest) = some (Tok.ws, c :: rest) := by
  have hrep : ∀ b ∈ List.replicate k SP, isWS b = true := by
    intro b hb
    rw [(List.mem_replicate.mp hb).2]; exact isWS_SP
  obtain ⟨_, t2⟩ := takeWhile_append_stop (p := isWS) (List.replicate k SP) c rest hrep hc
  have hc0' : (c == 0) = false := by simp [hc0]
  simp only [List.replicate_succ, List.cons_append, scan, isWS_SP, if_true, t2, afterRun, hc0',
    Bool.false_eq_true, if_false]

theorem scan_nl (rest : Seq) : scan (NL :: rest) = some (Tok.eol, rest) := by
  simp [scan, isWS, NL, SP, TAB]

theorem scan_nil : scan [] = some (Tok.eof, []) := rfl

theorem identChar_SP : identChar SP = false := by decide
theorem identChar_NL : identChar NL = false := by decide

/-! ### the parser's `scan` on explicit states -/

theorem st_scan (inp : Seq) (l t : Tok) (r : Seq) (h : scan inp = some (t, r)) :
    St.scan ⟨inp, l, false⟩ = .ok (t, ⟨r, t, false⟩) := by
  simp [St.scan, h]

theorem st_scan_pushed (inp : Seq) (l : Tok) : St.scan ⟨inp, l, true⟩ = .ok (l, ⟨inp, l, false⟩) := by
  simp [St.scan]

/-! ### groups of residues -/

theorem chunksOf_spec (w : Nat) (hw : 0 < w) : ∀ (fuel : Nat) (s : Seq), s.length ≤ fuel →
    (chunksOf w fuel s).flatten = s ∧ (∀ c ∈ chunksOf w fuel s, c ≠ [] ∧ ∀ b ∈ c, b ∈ s) ∧
    (s ≠ [] → chunksOf w fuel s ≠ []) := by
  intro fuel
  induction fuel with
  | zero =>
    intro s h
    have : s = [] := List.length_eq_zero_iff.mp (by omega)
    subst this
    simp [chunksOf]
  | succ n ih =>
    intro s h
    by_cases hs : s = []
    · subst hs; simp [chunksOf]
    · have hw0 : (w == 0) = false := by simp; omega
      have hse : s.isEmpty = false := by
        cases s with
        | nil => exact absurd rfl hs
        | cons _ _ => rfl
      have hpos : 0 < s.length := List.length_pos_iff.mpr hs
      have hl : (s.drop w).length ≤ n := by simp [List.length_drop]; omega
      obtain ⟨i1, i2, _⟩ := ih (s.drop w) hl
      simp only [chunksOf, hw0, hse, Bool.or_false, Bool.false_eq_true, if_false]
      refine ⟨?_, ?_, by simp⟩
      · rw [List.flatten_cons, i1, List.take_append_drop]
      · intro c hc
        simp only [List.mem_cons] at hc
        cases hc with
        | inl h1 =>
          subst h1
          refine ⟨?_, fun b hb => List.mem_of_mem_take hb⟩
          intro e
          have h1 := @List.length_take _ w s
          rw [e] at h1; simp only [List.length_nil] at h1; omega
        | inr h2 =>
          obtain ⟨a, b⟩ := i2 c h2
          exact ⟨a, fun x hx => List.mem_of_mem_drop (b x hx)⟩

/-- the text after the first group of a line -/
def tailText (cs : List Seq) : Seq := cs.flatMap (fun c => SP :: c)

theorem joinSp_cons : ∀ (cs : List Seq) (c : Seq), joinSp (c :: cs) = c ++ tailText cs
  | [], c => by simp [joinSp, tailText]
  | d :: ds, c => by
    have := joinSp_cons ds d
    simp only [joinSp, tailText, List.flatMap_cons, List.cons_append] at this ⊢
    rw [this]

theorem tailText_length : ∀ (cs : List Seq), (∀ c ∈ cs, c ≠ []) → 2 * cs.length ≤ (tailText cs).length
  | [], _ => by simp [tailText]
  | c :: cs, h => by
    have ih := tailText_length cs (fun x hx => h x (by simp [hx]))
    have : 0 < c.length := List.length_pos_iff.mpr (h c (by simp))
    simp only [tailText, List.flatMap_cons, List.length_append, List.length_cons] at ih ⊢
    omega

/-- what follows a group: a space or the line end -/
theorem tail_head (cs : List Seq) (rest : Seq) :
    ∃ x r, tailText cs ++ NL :: rest = x :: r ∧ identChar x = false ∧ x ≠ 0 := by
  cases cs with
  | nil => exact ⟨NL, rest, by simp [tailText], identChar_NL, by decide⟩
  | cons c cs => exact ⟨SP, _, by simp [tailText]; rfl, identChar_SP, by decide⟩

/-- a group of residues: a run that the lexer does not take for a number -/
def Chunk (c : Seq) : Prop := Run c ∧ parseInt64 c = none

theorem scan_chunk (c : Seq) (h : Chunk c) (x : Byte) (hx : identChar x = false) (hx0 : x ≠ 0) (rest : Seq) :
    scan (c ++ x :: rest) = some (Tok.ident c, x :: rest) := by
  rw [scan_run c h.1 x hx hx0 rest, h.2]; rfl

/-- the token loop of a sequence line, entered with the first group as current token -/
theorem seqLine_chunks : ∀ (cs : List Seq), (∀ c ∈ cs, Chunk c) → ∀ (c : Seq) (fuel : Nat) (rest : Seq) (l : Tok)
    (acc : Seq), 2 * cs.length + 2 ≤ fuel →
    seqLine fuel (.ident c) ⟨tailText cs ++ NL :: rest, l, false⟩ acc =
      .ok (acc ++ c ++ cs.flatten, ⟨rest, .eol, false⟩)
  | [], _, c, fuel, rest, l, acc, hf => by
    obtain ⟨f, rfl⟩ : ∃ f, fuel = f + 2 := ⟨fuel - 2, by omega⟩
    simp only [tailText, List.flatMap_nil, List.nil_append]
    rw [seqLine]
    simp only [st_scan _ _ _ _ (scan_nl rest), bind, Except.bind]
    rw [seqLine]
    simp [pure, Except.pure]
  | d :: ds, h, c, fuel, rest, l, acc, hf => by
    obtain ⟨f, rfl⟩ : ∃ f, fuel = f + 2 := ⟨fuel - 2, by omega⟩
    have hd := h d (by simp)
    obtain ⟨d0, d', rfl⟩ : ∃ d0 d', d = d0 :: d' := by
      cases d with
      | nil => exact absurd rfl hd.1.1
      | cons a b => exact ⟨a, b, rfl⟩
    have hd0 := hd.1.2 d0 (by simp)
    obtain ⟨x, r, hxr, hx, hx0⟩ := tail_head ds rest
    have e1 : tailText ((d0 :: d') :: ds) ++ NL :: rest =
        List.replicate (0 + 1) SP ++ d0 :: (d' ++ (tailText ds ++ NL :: rest)) := by
      simp [tailText]
    have e2 : d0 :: (d' ++ (tailText ds ++ NL :: rest)) = (d0 :: d') ++ x :: r := by
      rw [hxr]; simp
    rw [seqLine]
    simp only [e1, st_scan _ _ _ _ (scan_ws 0 d0 hd0.2 (identChar_facts d0 hd0.1).2.2.2 _), bind, Except.bind]
    rw [seqLine]
    simp only [e2, st_scan _ _ _ _ (scan_chunk (d0 :: d') hd x hx hx0 r), bind, Except.bind]
    rw [← hxr]
    rw [seqLine_chunks ds (fun y hy => h y (by simp [hy])) (d0 :: d') f rest _ (acc ++ c) (by
      simp only [List.length_cons] at hf; omega)]
    simp [List.append_assoc]

/-- the same loop entered on the blanks before the first group -/
theorem seqLine_ws (cs : List Seq) (hcs : ∀ c ∈ cs, Chunk c) (c : Seq) (hc : Chunk c) (fuel : Nat) (rest : Seq)
    (l : Tok) (acc : Seq) (hf : 2 * cs.length + 3 ≤ fuel) :
    seqLine fuel .ws ⟨c ++ (tailText cs ++ NL :: rest), l, false⟩ acc =
      .ok (acc ++ c ++ cs.flatten, ⟨rest, .eol, false⟩) := by
  obtain ⟨f, rfl⟩ : ∃ f, fuel = f + 1 := ⟨fuel - 1, by omega⟩
  obtain ⟨x, r, hxr, hx, hx0⟩ := tail_head cs rest
  rw [seqLine]
  simp only [hxr, st_scan _ _ _ _ (scan_chunk c hc x hx hx0 r), bind, Except.bind]
  rw [← hxr]
  exact seqLine_chunks cs hcs c f rest _ acc (by omega)

/-! ### residues -/

/-- a residue byte as the Phylip lexer sees it: an identifier byte, not a blank, not part of a number -/
def Res (b : Byte) : Prop := identChar b = true ∧ isWS b = false ∧ isDigit b = false ∧ b ≠ 43

theorem parseInt64_none (q : Seq) (hne : q ≠ []) (h : ∀ b ∈ q, isDigit b = false ∧ b ≠ 43) :
    parseInt64 q = none := by
  unfold parseInt64
  cases q with
  | nil => exact absurd rfl hne
  | cons c t =>
    have hc := h c (by simp)
    by_cases c45 : c = 45
    · subst c45
      cases t with
      | nil => simp
      | cons d u =>
        have hd := (h d (by simp)).1
        simp [hd]
    · have c43 : c ≠ 43 := hc.2
      split
      rename_i neg ds hm
      split at hm
      · rename_i t' he; simp at he; exact absurd he.1 c45
      · rename_i t' he; simp at he; exact absurd he.1 c43
      · simp only [Prod.mk.injEq] at hm
        obtain ⟨hn, hd⟩ := hm
        subst hn; subst hd
        simp [hc.1]

theorem chunk_of_res (c : Seq) (hne : c ≠ []) (h : ∀ b ∈ c, Res b) : Chunk c :=
  ⟨⟨hne, fun b hb => ⟨(h b hb).1, (h b hb).2.1⟩⟩,
   parseInt64_none c hne (fun b hb => ⟨(h b hb).2.2.1, (h b hb).2.2.2⟩)⟩

/-- the groups of `block` residues of a non-empty segment -/
theorem groups (block : Nat) (hb : 0 < block) (sg : Seq) (hne : sg ≠ []) (h : ∀ b ∈ sg, Res b) :
    ∃ c0 c' cs, chunksOf block (sg.length + 1) sg = (c0 :: c') :: cs ∧ Chunk (c0 :: c') ∧ (∀ d ∈ cs, Chunk d) ∧
      (c0 :: c') ++ cs.flatten = sg := by
  obtain ⟨h1, h2, h3⟩ := chunksOf_spec block hb (sg.length + 1) sg (by omega)
  cases hch : chunksOf block (sg.length + 1) sg with
  | nil => exact absurd hch (h3 hne)
  | cons c cs =>
    rw [hch] at h1 h2
    have hc := h2 c (by simp)
    cases c with
    | nil => exact absurd rfl hc.1
    | cons c0 c' =>
      refine ⟨c0, c', cs, rfl, chunk_of_res _ hc.1 (fun b hb => h b (hc.2 b hb)), ?_, by simpa using h1⟩
      intro d hd
      have := h2 d (by simp [hd])
      exact chunk_of_res d this.1 (fun b hb => h b (this.2 b hb))

/-- the residues of one written line (after the name column): groups joined by one space, line end -/
def lineText (block : Nat) (sg : Seq) : Seq := joinSp (chunksOf block (sg.length + 1) sg) ++ [NL]

/-! ### one written row, as the parser reads it -/

theorem fuel_ok (c : Seq) (cs : List Seq) (hcs : ∀ d ∈ cs, Chunk d) (T : Seq) (k : Nat) :
    2 * cs.length + k ≤ (c ++ (tailText cs ++ NL :: T)).length + k := by
  have := tailText_length cs (fun d hd => (hcs d hd).1.1)
  simp only [List.length_append, List.length_cons]
  omega

/-- relaxed name column: `name`, two spaces, the residues -/
theorem first_relaxed (block : Nat) (hb : 0 < block) (nm : Name) (hn : Run nm) (sg : Seq) (hne : sg ≠ [])
    (hres : ∀ b ∈ sg, Res b) (T : Seq) (l : Tok) (fuel n : Nat) (acc : List XRow) :
    firstBlock false (fuel + 1) (n + 1) ⟨nm ++ [SP, SP] ++ lineText block sg ++ T, l, false⟩ acc =
      firstBlock false fuel n ⟨T, .eol, false⟩ (acc ++ [(nm, sg)]) := by
  obtain ⟨c0, c', cs, hch, hc, hcs, hfl⟩ := groups block hb sg hne hres
  have hc0 := hc.1.2 c0 (by simp)
  have e0 : nm ++ [SP, SP] ++ lineText block sg ++ T =
      nm ++ SP :: (SP :: c0 :: (c' ++ (tailText cs ++ NL :: T))) := by
    simp [lineText, hch, joinSp_cons, List.append_assoc]
  have hs := scan_run nm hn SP identChar_SP (by decide) (SP :: c0 :: (c' ++ (tailText cs ++ NL :: T)))
  have hw := scan_ws 1 c0 hc0.2 (identChar_facts c0 hc0.1).2.2.2 (c' ++ (tailText cs ++ NL :: T))
  simp only [List.replicate_succ, List.replicate_zero, List.cons_append, List.nil_append] at hw
  have hsl := fun (l : Tok) => seqLine_ws cs hcs (c0 :: c') hc
    ((c0 :: c' ++ (tailText cs ++ NL :: T)).length + 3) T l [] (fuel_ok (c0 :: c') cs hcs T 3)
  rw [e0, firstBlock]
  cases hp : (parseInt64 nm).isSome
  all_goals (
    simp only [hp, Bool.false_eq_true, if_false, if_true] at hs
    simp only [Bool.false_eq_true, if_false, bind, Except.bind, pure, Except.pure, st_scan _ _ _ _ hs,
      st_scan _ _ _ _ hw]
    rw [← List.cons_append, hsl]
    simp only [List.nil_append, hfl])

theorem pad10_eq (nm : Name) (h : nm.length ≤ 10) : pad10 nm = nm ++ List.replicate (10 - nm.length) SP := by
  simp [pad10, List.take_of_length_le h]

theorem readName10_pad (nm : Name) (hlen : nm.length ≤ 10) (hnm : ∀ b ∈ nm, b ≠ SP ∧ b ≠ 0) (hasc : allAscii nm = true)
    (X : Seq) (l : Tok)
    (p : Bool) : readName10 ⟨pad10 nm ++ X, l, p⟩ = .ok (nm, ⟨X, l, p⟩) := by
  have hl : (pad10 nm).length = 10 := by rw [pad10_eq nm hlen]; simp; omega
  have hpa : allAscii (pad10 nm) = true := by
    rw [pad10_eq nm hlen]
    simp only [allAscii, List.all_append, Bool.and_eq_true, List.all_eq_true, List.mem_replicate] at hasc ⊢
    exact ⟨hasc, fun b hb => by rw [hb.2]; decide⟩
  have htk : Utf8.takeRunes 10 (pad10 nm ++ X) = (pad10 nm, X, 10) := by
    have := Gv.Proofs.Utf8Norm.takeRunes_ascii (pad10 nm) X hpa
    rwa [hl] at this
  have hlast : ¬ ((pad10 nm).getLast? = some 0) := by
    intro e
    have hm := List.mem_of_getLast? e
    rw [pad10_eq nm hlen] at hm
    simp only [List.mem_append, List.mem_replicate] at hm
    cases hm with
    | inl h => exact (hnm 0 h).2 rfl
    | inr h => exact absurd h.2 (by decide)
  have hf : (pad10 nm).filter (· != SP) = nm := by
    rw [pad10_eq nm hlen, List.filter_append]
    have h1 : nm.filter (· != SP) = nm := List.filter_eq_self.mpr (fun b hb => by simp [(hnm b hb).1])
    have h2 : (List.replicate (10 - nm.length) SP).filter (· != SP) = [] := by
      apply List.filter_eq_nil_iff.mpr
      intro b hb
      simp [(List.mem_replicate.mp hb).2]
    rw [h1, h2, List.append_nil]
  unfold readName10
  have hlast' : ((pad10 nm).getLast? == some 0) = false := by simpa using hlast
  simp only [htk, Nat.lt_irrefl, if_false, hlast', hf, pure, Except.pure, Bool.false_eq_true]

/-- strict name column: the name padded to 10 columns, the residues -/
theorem first_strict (block : Nat) (hb : 0 < block) (nm : Name) (hlen : nm.length ≤ 10)
    (hnm : ∀ b ∈ nm, b ≠ SP ∧ b ≠ 0) (hasc : allAscii nm = true) (sg : Seq) (hne : sg ≠ []) (hres : ∀ b ∈ sg, Res b) (T : Seq) (l : Tok)
    (fuel n : Nat) (acc : List XRow) :
    firstBlock true (fuel + 1) (n + 1) ⟨pad10 nm ++ lineText block sg ++ T, l, false⟩ acc =
      firstBlock true fuel n ⟨T, .eol, false⟩ (acc ++ [(nm, sg)]) := by
  obtain ⟨c0, c', cs, hch, hc, hcs, hfl⟩ := groups block hb sg hne hres
  obtain ⟨x, r, hxr, hx, hx0⟩ := tail_head cs T
  have e0 : pad10 nm ++ lineText block sg ++ T = pad10 nm ++ ((c0 :: c') ++ x :: r) := by
    rw [← hxr]; simp [lineText, hch, joinSp_cons, List.append_assoc]
  have hs := scan_chunk (c0 :: c') hc x hx hx0 r
  have hsl := fun (l : Tok) => seqLine_chunks cs hcs (c0 :: c') ((tailText cs ++ NL :: T).length + 3) T l []
    (by have := tailText_length cs (fun d hd => (hcs d hd).1.1); simp only [List.length_append, List.length_cons]; omega)
  rw [e0, firstBlock]
  simp only [if_true, readName10_pad nm hlen hnm hasc, bind, Except.bind, pure, Except.pure, st_scan _ _ _ _ hs]
  rw [← hxr, hsl]
  simp only [List.nil_append, hfl]

/-- a row of a following block: the blanks before it have just been read (or are pushed back) -/
theorem next_row (block : Nat) (hb : 0 < block) (sg : Seq) (hne : sg ≠ []) (hres : ∀ b ∈ sg, Res b) (T : Seq)
    (s : St) (hs : s.scan = .ok (.ws, ⟨lineText block sg ++ T, .ws, false⟩)) (nm : Name) (q : Seq)
    (more acc : List XRow) :
    nextBlock ((nm, q) :: more) s acc = nextBlock more ⟨T, .eol, false⟩ (acc ++ [(nm, q ++ sg)]) := by
  obtain ⟨c0, c', cs, hch, hc, hcs, hfl⟩ := groups block hb sg hne hres
  obtain ⟨x, r, hxr, hx, hx0⟩ := tail_head cs T
  have e0 : lineText block sg ++ T = (c0 :: c') ++ x :: r := by
    rw [← hxr]; simp [lineText, hch, joinSp_cons, List.append_assoc]
  have hsc := scan_chunk (c0 :: c') hc x hx hx0 r
  have hsl := fun (l : Tok) => seqLine_chunks cs hcs (c0 :: c') ((tailText cs ++ NL :: T).length + 3) T l q
    (by have := tailText_length cs (fun d hd => (hcs d hd).1.1); simp only [List.length_append, List.length_cons]; omega)
  rw [e0] at hs
  rw [nextBlock]
  simp only [hs, bind, Except.bind, pure, Except.pure, beq_self_eq_true, if_true, st_scan _ _ _ _ hsc]
  rw [← hxr, hsl]
  simp only [List.append_assoc, hfl]

/-- the blanks before a row of a following block -/
theorem at_ws_pre (k : Nat) (block : Nat) (hb : 0 < block) (sg : Seq) (hne : sg ≠ []) (hres : ∀ b ∈ sg, Res b)
    (T : Seq) (l : Tok) :
    St.scan ⟨List.replicate (k + 1) SP ++ lineText block sg ++ T, l, false⟩ =
      .ok (.ws, ⟨lineText block sg ++ T, .ws, false⟩) := by
  obtain ⟨c0, c', cs, hch, hc, _, _⟩ := groups block hb sg hne hres
  have hc0 := hc.1.2 c0 (by simp)
  have e0 : lineText block sg ++ T = c0 :: (c' ++ (tailText cs ++ NL :: T)) := by
    simp [lineText, hch, joinSp_cons, List.append_assoc]
  rw [List.append_assoc, e0]
  exact st_scan _ _ _ _ (scan_ws k c0 hc0.2 (identChar_facts c0 hc0.1).2.2.2 _)

end Gv.Proofs.PhylipRT
