import Gv.Spec.Mask
/-!
C15: the loop model of `MaskOccurences` (`Model.maskOccLoop`: per-column occurrence table keyed by row
index, replacement carried from column to column) computes, cell by cell, `Spec.maskOccCell`.  Core-only.
-/
namespace Gv.Proofs.MaskOcc
open Gv Gv.Model Gv.Spec

/-! ### the occurrence table of one column -/

/-- the table of (row index, value) of the rows satisfying `q` -/
def table {α β : Type} (q : α → Bool) (g : α → β) (l : List α) (n : Nat) : List (Nat × β) :=
  (l.zipIdx n).filterMap fun x => if q x.1 then some (x.2, g x.1) else none

theorem table_cons {α β : Type} (q : α → Bool) (g : α → β) (a : α) (t : List α) (n : Nat) :
    table q g (a :: t) n = if q a then (n, g a) :: table q g t (n + 1) else table q g t (n + 1) := by
  simp only [table, List.zipIdx_cons, List.filterMap_cons]
  cases q a <;> simp

theorem table_values {α β : Type} (q : α → Bool) (g : α → β) (l : List α) (n : Nat) :
    (table q g l n).map Prod.snd = (l.filter q).map g := by
  induction l generalizing n with
  | nil => rfl
  | cons a t ih =>
    rw [table_cons, List.filter_cons]
    split <;> simp [ih]

theorem table_index_ge {α β : Type} (q : α → Bool) (g : α → β) (l : List α) (n : Nat) :
    ∀ p ∈ table q g l n, n ≤ p.1 := by
  intro p hp
  obtain ⟨y, hy, e⟩ := List.mem_filterMap.mp hp
  have := List.mem_zipIdx hy
  split at e
  · simp only [Option.some.injEq] at e
    subst e
    exact this.1
  · cases e

theorem table_any {α β : Type} (q : α → Bool) (g : α → β) (l : List α) (n j : Nat) (r : α)
    (h : l[j - n]? = some r) (hn : n ≤ j) : (table q g l n).any (fun p => p.1 == j) = q r := by
  induction l generalizing n with
  | nil => simp at h
  | cons a t ih =>
    rw [table_cons]
    by_cases e : j = n
    · subst e
      simp only [Nat.sub_self, List.getElem?_cons_zero, Option.some.injEq] at h
      subst h
      have hrest : (table q g t (j + 1)).any (fun p => p.1 == j) = false := by
        rw [List.any_eq_false]
        intro p hp
        have := table_index_ge q g t (j + 1) p hp
        simp; omega
      cases hq : q a <;> simp [hrest]
    · have h' : t[j - (n + 1)]? = some r := by
        have : j - n = (j - (n + 1)) + 1 := by omega
        rw [this, List.getElem?_cons_succ] at h
        exact h
      have hne : (n == j) = false := by simp; omega
      have := ih (n + 1) h' (by omega)
      cases hq : q a <;> simp [hne, this]

theorem occCounted_eq_table (rows : CRows) (refseq : String) (refs : Seq) (i : Nat) :
    occCounted rows refseq refs i = table (occCounts refseq refs i) (fun x => x.2.getD i 0) rows 0 := rfl

theorem occCounted_chars (rows : CRows) (refseq : String) (refs : Seq) (i : Nat) :
    (occCounted rows refseq refs i).map Prod.snd = occChars rows refseq refs i := by
  rw [occCounted_eq_table, table_values]; rfl

theorem occCounted_any (rows : CRows) (refseq : String) (refs : Seq) (i j : Nat) (r : String × Seq)
    (h : rows[j]? = some r) :
    (occCounted rows refseq refs i).any (fun p => p.1 == j) = occCounts refseq refs i r := by
  rw [occCounted_eq_table]
  exact table_any _ _ rows 0 j r (by simpa using h) (Nat.zero_le _)

/-- a counted residue occurs at least once among the counted residues of its column -/
theorem count_pos_of_counted (rows : CRows) (refseq : String) (refs : Seq) (i : Nat) (r : String × Seq)
    (hr : r ∈ rows) (hc : occCounts refseq refs i r = true) :
    0 < (occChars rows refseq refs i).count (r.2.getD i 0) := by
  apply List.count_pos_iff.mpr
  unfold occChars
  exact List.mem_map.mpr ⟨r, List.mem_filter.mpr ⟨hr, hc⟩, rfl⟩

/-! ### one column -/

/-- the replacement leaving column `i` when `repIn` enters it -/
theorem maskOccColumn_rep (rows : CRows) (refseq : String) (refs : Seq) (maxOcc : Int) (isMaj : Bool) (repIn : Byte) (i : Nat) :
    (maskOccColumn rows refseq refs maxOcc isMaj repIn i).2 =
      if isMaj then majorityChar (occChars rows refseq refs i) repIn else repIn := by
  simp only [maskOccColumn, occCounted_chars]

theorem cell_eq (cnt : Bool) (c rep : Byte) (n : Nat) (maxOcc : Int) (hpos : cnt = true → 0 < n) :
    (if (cnt && decide ((n : Int) ≤ maxOcc) && decide (n > 0) && c != rep && c != GAP) = true then rep else c) =
      (if (cnt && c != GAP && decide ((n : Int) ≤ maxOcc)) = true then rep else c) := by
  cases cnt with
  | false => simp
  | true =>
    have hp := hpos rfl
    by_cases hr : c = rep
    · simp [hr]
    · by_cases hg : c = GAP
      · simp [hg]
      · by_cases hm : (n : Int) ≤ maxOcc
        · simp [hr, hg, hm, hp]
        · simp [hm]

/-- the new column: every selected residue becomes the replacement, every other one is kept -/
theorem maskOccColumn_col (rows : CRows) (refseq : String) (refs : Seq) (maxOcc : Int) (isMaj : Bool) (repIn : Byte) (i : Nat) :
    (maskOccColumn rows refseq refs maxOcc isMaj repIn i).1 =
      rows.map fun r => if occSelected rows refseq refs maxOcc i r
        then (maskOccColumn rows refseq refs maxOcc isMaj repIn i).2 else r.2.getD i 0 := by
  rw [maskOccColumn_rep]
  simp only [maskOccColumn, occCounted_chars]
  apply List.ext_getElem (by simp)
  intro j h1 h2
  simp only [List.length_map, List.length_zipIdx] at h1
  simp only [List.getElem_map, List.getElem_zipIdx, Nat.zero_add]
  rw [occCounted_any rows refseq refs i j rows[j] (List.getElem?_eq_getElem h1)]
  unfold occSelected
  exact cell_eq _ _ _ _ _ (fun hc => count_pos_of_counted rows refseq refs i rows[j] (List.getElem_mem h1) hc)

/-! ### the loop over the columns -/

theorem occRepAt_not_maj (rows : CRows) (refseq : String) (refs : Seq) (mr : MaskRep) (rep0 : Byte) (h : (mr == .maj) = false) :
    ∀ i, occRepAt rows refseq refs mr rep0 i = rep0 := by
  intro i; cases i <;> simp [occRepAt, h]

/-- the replacement that enters column `s` -/
def repBefore (rows : CRows) (refseq : String) (refs : Seq) (mr : MaskRep) (rep0 : Byte) : Nat → Byte
  | 0 => rep0
  | s + 1 => occRepAt rows refseq refs mr rep0 s

theorem column_rep_eq (rows : CRows) (refseq : String) (refs : Seq) (maxOcc : Int) (mr : MaskRep) (rep0 : Byte) (s : Nat) :
    (maskOccColumn rows refseq refs maxOcc (mr == .maj) (repBefore rows refseq refs mr rep0 s) s).2 =
      occRepAt rows refseq refs mr rep0 s := by
  rw [maskOccColumn_rep]
  cases s with
  | zero => simp [repBefore, occRepAt]
  | succ s =>
    cases hm : (mr == MaskRep.maj)
    · simp [repBefore, occRepAt_not_maj rows refseq refs mr rep0 hm]
    · simp [repBefore, occRepAt, hm]

theorem maskOccLoop_closed (rows : CRows) (refseq : String) (refs : Seq) (maxOcc : Int) (mr : MaskRep) (rep0 : Byte)
    (n s : Nat) :
    maskOccLoop rows refseq refs maxOcc (mr == .maj) (List.range' s n) (repBefore rows refseq refs mr rep0 s) =
      (List.range' s n).map fun i => rows.map fun r => maskOccCell rows refseq refs maxOcc mr rep0 i r := by
  induction n generalizing s with
  | zero => rfl
  | succ n ih =>
    simp only [List.range'_succ, maskOccLoop, List.map_cons]
    rw [maskOccColumn_col, column_rep_eq]
    congr 1
    exact ih (s + 1)

/-- **closed form of the model of `MaskOccurences`**: names kept, and residue `i` of every row is
`Spec.maskOccCell` of that row -/
theorem maskOccurences_closed (rows : CRows) (L : Int) (alphabet : Nat) (refseq : String) (maxOcc : Int) (mr : MaskRep)
    (out : CRows) (h : maskOccurences rows L alphabet refseq maxOcc mr = some out) :
    ∃ rep0 refs, repChar alphabet mr = some rep0 ∧
      (if refseq != "" then (rows.find? fun r => r.1 == refseq).map Prod.snd else some []) = some refs ∧
      out = rows.map fun r => (r.1, (List.range L.toNat).map fun i => maskOccCell rows refseq refs maxOcc mr rep0 i r) := by
  unfold maskOccurences maskOccWithRef at h
  split at h
  · cases h
  · rename_i rep0 hrep
    simp only [] at h
    split at h
    · cases h
    · rename_i refs href
      simp only [Option.some.injEq] at h
      refine ⟨rep0, refs, hrep, href, ?_⟩
      rw [← h, List.range_eq_range']
      have := maskOccLoop_closed rows refseq refs maxOcc mr rep0 L.toNat 0
      simp only [repBefore] at this
      rw [this]
      apply List.ext_getElem (by simp)
      intro j h1 h2
      simp only [List.length_map, List.length_zipIdx] at h1
      simp only [List.getElem_map, List.getElem_zipIdx, Nat.zero_add, List.map_map, Function.comp_def]
      congr 1
      apply List.map_congr_left
      intro i _
      simp [List.getD_eq_getElem?_getD, h1]

end Gv.Proofs.MaskOcc
