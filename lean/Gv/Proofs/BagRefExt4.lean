import Gv.Proofs.BagRefExt
import Gv.Proofs.BagExt4
/-!
Refinement (C01), part 14: the general `RemoveCharacterSites` and `RemoveMajorityCharacterSites` — the C12 model
functions written back in place are the reference's statement (`Spec.cleanByQual` on the qualification lists
`Spec.charQual` / `Spec.majQual`) on rectangular rows.
-/
namespace Gv.Proofs.BagAbs
open Gv Gv.Model Gv.Spec Gv.Proofs.BagInv

/-- **the removal pass of the C12 model on non-empty rows of `L` columns = the reference's `cleanByQual`**, for
every qualification list -/
theorem removeSites_eq_cleanByQual (rows : CRows) (hne : rows ≠ []) (L : Nat) (q : List Bool) (hql : q.length = L)
    (hlen : ∀ p ∈ rows, p.2.length = L) (ends : Bool) :
    (removeSites rows L q ends).rows = (cleanByQual rows L q ends).1 ∧
    (let r := removeSites rows L q ends
     sitesStatus r.first r.last r.kept r.removed) = (cleanByQual rows L q ends).2 := by
  have he : rows.isEmpty = false := by cases rows <;> simp_all
  have hsuf := suffixRun_le q
  unfold cleanByQual
  subst hql
  have hp : (q.takeWhile id).length = Gv.Props.C12.prefixRun q := rfl
  have hs : (q.reverse.takeWhile id).length = Gv.Props.C12.suffixRun q := rfl
  rw [hs] at hsuf
  simp only [hp, hs]
  unfold removeSites
  rw [Gv.Props.C12.trackers_spec]
  simp only [he, Bool.false_eq_true, if_false]
  generalize Gv.Props.C12.prefixRun q = lead
  generalize Gv.Props.C12.suffixRun q = trail at hsuf
  have hpt : ∀ i, (q.getD i false && (!ends || decide (i ≥ q.length - trail) || decide (i + 1 ≤ lead))) =
      (q.getD i false && (!ends || decide (i < lead) || decide (i ≥ q.length - trail))) := by
    intro i
    have e : decide (i + 1 ≤ lead) = decide (i < lead) := by simp [Nat.lt_iff_add_one_le]
    rw [e]
    cases q.getD i false <;> cases ends <;> cases decide (i < lead) <;>
      cases decide (i ≥ q.length - trail) <;> rfl
  have hkept : (List.range q.length).filter (fun i => !(q.getD i false && (!ends || decide (i ≥ q.length - trail) || decide (i + 1 ≤ lead)))) =
      (List.range q.length).filter (fun i => !(q.getD i false && (!ends || decide (i < lead) || decide (i ≥ q.length - trail)))) := by
    apply List.filter_congr
    intro i _
    rw [hpt i]
  have hrem : (List.range q.length).filter (fun i => (q.getD i false && (!ends || decide (i ≥ q.length - trail) || decide (i + 1 ≤ lead)))) =
      (List.range q.length).filter (fun i => (q.getD i false && (!ends || decide (i < lead) || decide (i ≥ q.length - trail)))) := by
    apply List.filter_congr
    intro i _
    rw [hpt i]
  have hlast : q.length - (q.length - trail) = trail := by omega
  rw [hkept, hrem, hlast]
  refine ⟨?_, rfl⟩
  apply List.map_congr_left
  intro p hp
  congr 1
  apply map_getD_eq_filterMap
  intro k hk
  rw [hlen p hp]
  exact List.mem_range.mp (List.mem_filter.mp hk).1

/-! ### the write-back of any C12 cleaning function on a rectangular alignment -/

def csRes (f : CRows → Int → Nat → CleanResult) (b : Bag) : CleanResult := f (pairs b) b.length b.alphabet
def csState (f : CRows → Int → Nat → CleanResult) (b : Bag) : Bag :=
  { b with rows := withSeqs b.rows (csRes f b).rows, length := (csRes f b).length }

theorem cleanSitesBag_rect_eq {b : Bag} (h : Rect b) (ha : b.isAlign = true) (f : CRows → Int → Nat → CleanResult) :
    cleanSitesBag f b = some (csState f b, csRes f b) := by
  have hshort : ¬ (b.rows.any fun r => decide (r.seq.length < b.length.toNat)) = true := by
    simp only [List.any_eq_true, decide_eq_true_eq, not_exists, not_and, Nat.not_lt]
    intro r hr
    have := h.rows_len ha r hr
    omega
  unfold cleanSitesBag; rw [if_neg hshort]; rfl

theorem csRes_empty {f : CRows → Int → Nat → CleanResult} (hf : IsCleanFn f) {b : Bag} (h : Rect b)
    (ha : b.isAlign = true) (hrows : b.rows = []) : csRes f b = unchanged [] (-1) := by
  have hlen : b.length = -1 := h.empty_len ha hrows
  unfold csRes
  rw [hf.neg _ _ _ (by omega), hlen]
  simp [pairs, hrows]

theorem csState_good {f : CRows → Int → Nat → CleanResult} (hf : IsCleanFn f) {b : Bag} (h : Good b)
    (ha : b.isAlign = true) : Good (csState f b) := by
  have hv := cleanSitesBag_rect_eq h.rect ha f
  obtain ⟨k, i, n, a, al, _⟩ := cleanSitesBag_fields hf hv
  exact h.transfer_seqs k i n a al (rect_cleanSitesBag hf h.rect _ hv)

theorem csState_abs {f : CRows → Int → Nat → CleanResult} (hf : IsCleanFn f) (b : Bag) :
    abs (csState f b) = { abs b with rows := (csRes f b).rows } := by
  have hnames : (csRes f b).rows.map Prod.fst = b.rows.map (·.name) :=
    (hf.names (pairs b) b.length b.alphabet).trans (pairs_names b)
  have := pairs_withSeqs b.rows _ hnames
  simp only [abs, pairs, csState]
  rw [this]

/-- the closing step shared by both operations: given that on a non-empty alignment the C12 result is the reference's
rows and status, the step refines the reference -/
theorem cleanSites_refines {b : Bag} (h : Good b) (ha : b.isAlign = true) {f : CRows → Int → Nat → CleanResult}
    (hf : IsCleanFn f) (specRows : List (String × Seq)) (specSt : String)
    (hne : b.rows ≠ [] → (csRes f b).rows = specRows ∧
      sitesStatus (csRes f b).first (csRes f b).last (csRes f b).kept (csRes f b).removed = specSt)
    (s' : SBag) (st : String)
    (e : (if (abs b).rows = [] then (some (abs b), sitesStatus 0 0 [] [])
          else (some { rows := specRows, policy := (abs b).policy, alphabet := (abs b).alphabet, isAlign := true }, specSt)) =
          (some s', st)) :
    abs (csState f b) = s' ∧
    sitesStatus (csRes f b).first (csRes f b).last (csRes f b).kept (csRes f b).removed = st ∧ Good (csState f b) := by
  refine ⟨?_, ?_, csState_good hf h ha⟩
  · rw [csState_abs hf]
    by_cases hrows : b.rows = []
    · have hp : (abs b).rows = [] := by simp [pairs, hrows]
      rw [if_pos hp] at e
      simp only [Prod.mk.injEq, Option.some.injEq] at e
      rw [← e.1, csRes_empty hf h.rect ha hrows]
      simp [unchanged, abs, pairs, hrows]
    · have hp : ¬ (abs b).rows = [] := by simpa [pairs] using hrows
      rw [if_neg hp] at e
      simp only [Prod.mk.injEq, Option.some.injEq] at e
      rw [← e.1, (hne hrows).1]
      simp [abs, ha]
  · by_cases hrows : b.rows = []
    · have hp : (abs b).rows = [] := by simp [pairs, hrows]
      rw [if_pos hp] at e
      simp only [Prod.mk.injEq] at e
      rw [← e.2, csRes_empty hf h.rect ha hrows]
      rfl
    · have hp : ¬ (abs b).rows = [] := by simpa [pairs] using hrows
      rw [if_neg hp] at e
      simp only [Prod.mk.injEq] at e
      rw [← e.2, (hne hrows).2]

/-- what a rectangular non-empty alignment gives: a non-negative cached length, every plain row of that length -/
theorem rect_rows_facts {b : Bag} (h : Rect b) (ha : b.isAlign = true) (hrows : b.rows ≠ []) :
    pairs b ≠ [] ∧ ((b.length.toNat : Nat) : Int) = b.length ∧ ∀ p ∈ pairs b, p.2.length = b.length.toNat := by
  have hpne : pairs b ≠ [] := by simpa [pairs] using hrows
  have hnn : 0 ≤ b.length := by
    cases hr : b.rows with
    | nil => exact absurd hr hrows
    | cons y t =>
      have := h.rows_len ha y (by simp [hr])
      omega
  refine ⟨hpne, Int.toNat_of_nonneg hnn, ?_⟩
  intro p hp
  obtain ⟨r, hr, rfl⟩ := List.mem_map.mp hp
  have := h.rows_len ha r hr
  simp only []
  omega

/-- on rows that all have more than `j` columns the model's column (`getD`) is the reference's (`[j]?`) -/
theorem columnAt_eq_siteColumn (rows : CRows) (j : Nat) (h : ∀ p ∈ rows, j < p.2.length) :
    columnAt rows j = siteColumn rows j := by
  induction rows with
  | nil => rfl
  | cons p t ih =>
    have hp := h p (by simp)
    have ih' := ih (fun p hp => h p (List.mem_cons_of_mem _ hp))
    simp only [columnAt, siteColumn, List.map_cons, List.filterMap_cons, List.getD_eq_getElem?_getD] at ih' ⊢
    rw [List.getElem?_eq_getElem hp]
    simp only [Option.getD_some]
    rw [ih']

/-! ### `RemoveCharacterSites` -/

theorem spec_rmCharSites_eq (s : SBag) (cs : List Byte) (num den : Nat) (ends ic ig iN rev : Bool) :
    Spec.stepOp s (.rmCharSites cs num den ends ic ig iN rev) =
      if !s.isAlign then (some s, "na") else
      if s.rows = [] then (some s, sitesStatus 0 0 [] []) else
      (some { s with rows := (cleanByQual s.rows s.length.toNat
                (charQual cs num den ic ig iN rev s.alphabet s.rows s.length.toNat) ends).1 },
       (cleanByQual s.rows s.length.toNat (charQual cs num den ic ig iN rev s.alphabet s.rows s.length.toNat) ends).2) := rfl

/-- the counts of the model are the reference's: selected residues, residues that count -/
theorem siteCounts_eq_spec (col cs : List Byte) (alphabet : Nat) (ic ig iN rev : Bool) :
    siteCounts col cs alphabet ic ig iN rev =
      ((col.filter fun x => (cs.any fun v => v == x || (ic && toLower v == toLower x)) != rev).length,
       (col.filter fun x => !(ig && x == GAP) &&
          !(iN && (x == (if alphabet == AMINOACIDS then (88 : Byte) else 78) ||
                   x == toLower (if alphabet == AMINOACIDS then (88 : Byte) else 78)))).length) := by
  simp only [siteCounts, wildcard, containsRune, Bool.not_or]

/-- the qualification list of the model = the reference's `charQual`, on rows that all have `L` columns -/
theorem charQual_eq (cs : List Byte) (num den : Nat) (ic ig iN rev : Bool) (alphabet : Nat) (rows : CRows) (L : Nat)
    (hlen : ∀ p ∈ rows, p.2.length = L) :
    ((List.range L).map fun j =>
      cutoffTest num den (siteCounts (columnAt rows j) cs alphabet ic ig iN rev).1
        (siteCounts (columnAt rows j) cs alphabet ic ig iN rev).2) =
    charQual cs num den ic ig iN rev alphabet rows L := by
  unfold charQual
  apply List.map_congr_left
  intro j hj
  have hj' : j < L := List.mem_range.mp hj
  rw [columnAt_eq_siteColumn rows j (fun p hp => by rw [hlen p hp]; exact hj'), siteCounts_eq_spec]

theorem ref_rmCharSites {b : Bag} (h : Good b) (cs : List Byte) (num den : Nat) (ends ic ig iN rev : Bool) :
    Refines b (.rmCharSites cs num den ends ic ig iN rev) := by
  intro s' st e
  rw [spec_rmCharSites_eq] at e
  simp only [Model.stepOp, abs_isAlign] at e ⊢
  by_cases ha : b.isAlign = true
  · simp only [ha, Bool.not_true, Bool.false_eq_true, if_false] at e ⊢
    have hf := isCleanFn_char (cutoffTest num den) cs ends ic ig iN rev
    have hv : removeCharSitesBag (cutoffTest num den) cs ends ic ig iN rev b = some (csState _ b, csRes _ b) :=
      cleanSitesBag_rect_eq h.rect ha _
    simp only [hv]
    rw [h.rect.abs_length ha] at e
    refine cleanSites_refines h ha hf _ _ ?_ s' st e
    intro hrows
    obtain ⟨hpne, hL, hlen⟩ := rect_rows_facts h.rect ha hrows
    have key := removeSites_eq_cleanByQual (pairs b) hpne b.length.toNat
      (charQual cs num den ic ig iN rev b.alphabet (pairs b) b.length.toNat) (by simp [charQual]) hlen ends
    have e1 := Gv.Props.C12.removeCharacterSites_unfold (cutoffTest num den) (pairs b) b.length.toNat b.alphabet cs
      ends ic ig iN rev
    rw [hL, charQual_eq cs num den ic ig iN rev b.alphabet (pairs b) b.length.toNat hlen] at e1
    simp only [csRes]
    rw [e1]
    exact key
  · have ha' : b.isAlign = false := by simpa using ha
    simp only [ha', Bool.not_false, if_true, Prod.mk.injEq, Option.some.injEq] at e ⊢
    exact ⟨e.1, e.2, h⟩

/-! ### `RemoveMajorityCharacterSites` -/

theorem spec_rmMajSites_eq (s : SBag) (num den : Nat) (ends ig iN : Bool) :
    Spec.stepOp s (.rmMajSites num den ends ig iN) =
      if !s.isAlign then (some s, "na") else
      if s.rows = [] then (some s, sitesStatus 0 0 [] []) else
      if den == 0 || num > den then (none, "ok") else
      (some { s with rows := (cleanByQual s.rows s.length.toNat (majQual num den ig iN s.alphabet s.rows s.length.toNat) ends).1 },
       (cleanByQual s.rows s.length.toNat (majQual num den ig iN s.alphabet s.rows s.length.toNat) ends).2) := rfl

theorem majQual_eq (num den : Nat) (ig iN : Bool) (alphabet : Nat) (rows : CRows) (L : Nat)
    (hlen : ∀ p ∈ rows, p.2.length = L) :
    ((List.range L).map fun j =>
      cutoffTestRaw num den (maxCharSite alphabet ig iN (columnAt rows j)).2.1
        (maxCharSite alphabet ig iN (columnAt rows j)).2.2) =
    majQual num den ig iN alphabet rows L := by
  unfold majQual
  apply List.map_congr_left
  intro j hj
  have hj' : j < L := List.mem_range.mp hj
  rw [columnAt_eq_siteColumn rows j (fun p hp => by rw [hlen p hp]; exact hj')]

theorem ref_rmMajSites {b : Bag} (h : Good b) (num den : Nat) (ends ig iN : Bool) :
    Refines b (.rmMajSites num den ends ig iN) := by
  intro s' st e
  rw [spec_rmMajSites_eq] at e
  simp only [Model.stepOp, abs_isAlign] at e ⊢
  by_cases ha : b.isAlign = true
  · simp only [ha, Bool.not_true, Bool.false_eq_true, if_false] at e ⊢
    have hf := isCleanFn_maj (cutoffTestRaw num den) ends ig iN
    have hv : removeMajoritySitesBag (cutoffTestRaw num den) ends ig iN b = some (csState _ b, csRes _ b) :=
      cleanSitesBag_rect_eq h.rect ha _
    simp only [hv]
    rw [h.rect.abs_length ha] at e
    by_cases hrange : (den == 0 || decide (num > den)) = true
    · -- outside [0, 1]: the reference specifies the step only on an alignment without sequences
      by_cases hrows : b.rows = []
      · have hp : (abs b).rows = [] := by simp [pairs, hrows]
        rw [if_pos hp] at e
        exact cleanSites_refines h ha hf [] "" (fun hne => absurd hrows hne) s' st (by rw [if_pos hp]; exact e)
      · have hp : ¬ (abs b).rows = [] := by simpa [pairs] using hrows
        rw [if_neg hp, if_pos hrange] at e
        simp at e
    · rw [if_neg hrange] at e
      refine cleanSites_refines h ha hf _ _ ?_ s' st e
      intro hrows
      obtain ⟨hpne, hL, hlen⟩ := rect_rows_facts h.rect ha hrows
      have key := removeSites_eq_cleanByQual (pairs b) hpne b.length.toNat
        (majQual num den ig iN b.alphabet (pairs b) b.length.toNat) (by simp [majQual]) hlen ends
      have e1 := Gv.Props.C12.removeMajoritySites_unfold (cutoffTestRaw num den) (pairs b) b.length.toNat b.alphabet
        ends ig iN
      rw [hL, majQual_eq num den ig iN b.alphabet (pairs b) b.length.toNat hlen] at e1
      simp only [csRes]
      rw [e1]
      exact key
  · have ha' : b.isAlign = false := by simpa using ha
    simp only [ha', Bool.not_false, if_true, Prod.mk.injEq, Option.some.injEq] at e ⊢
    exact ⟨e.1, e.2, h⟩

/-! ### `Replace` with a regular expression -/

theorem ref_replaceRe {b : Bag} (h : Good b) (ok : Bool) (seqs : List Seq) : Refines b (.replaceRe ok seqs) := by
  intro s' st e
  cases ok with
  | false =>
    simp only [Spec.stepOp, Model.stepOp, Bool.not_false, if_true, Prod.mk.injEq, Option.some.injEq] at e ⊢
    exact ⟨e.1, e.2, h⟩
  | true =>
    have hrows : (abs b).rows.zipIdx.map (fun (x : (String × Seq) × Nat) => (x.1.1, seqs.getD x.2 x.1.2)) =
        regexSeqs (pairs b) seqs := rfl
    have hflag : (replaceRegexBag seqs b).2 =
        ((abs b).isAlign && (regexSeqs (pairs b) seqs).any (fun r => (r.2.length : Int) != (abs b).length)) := by
      have hp := pairs_replaceRegexBag seqs b
      by_cases ha : b.isAlign = true
      · simp only [abs_isAlign, ha, Bool.true_and, h.rect.abs_length ha]
        rw [← hp]
        simp [replaceRegexBag, ha, pairs, List.any_map, Function.comp_def]
      · have : b.isAlign = false := by simpa using ha
        simp [replaceRegexBag, this]
    simp only [Spec.stepOp, Bool.not_true, Bool.false_eq_true, if_false] at e
    rw [hrows, ← hflag] at e
    split at e
    · simp at e
    · rename_i hok
      simp only [Prod.mk.injEq, Option.some.injEq] at e
      obtain ⟨e1, e2⟩ := e
      subst e1 e2
      have hok' : (replaceRegexBag seqs b).2 = false := by simpa using hok
      obtain ⟨k, i, n, a, al, _, _⟩ := replaceRegexBag_fields seqs b
      refine ⟨?_, by simp [Model.stepOp, hok'], ?_⟩
      · simp only [Model.stepOp, Bool.not_true, Bool.false_eq_true, if_false]
        have hp := pairs_replaceRegexBag seqs b
        simp only [abs, hp]
        rfl
      · simp only [Model.stepOp, Bool.not_true, Bool.false_eq_true, if_false]
        exact h.transfer_seqs k i n a al (rect_replaceRegexBag seqs h.rect hok')

end Gv.Proofs.BagAbs
