import Gv.Model.Translate
/-!
C05: `CodonAlign` — length, ungapped rows, and "translates back" (parametric in the code table: the only
table fact used is that the codon `---` is translated to `-`).
-/
namespace Gv.Proofs.TranslateAlign
open Gv Gv.Model
set_option linter.unusedSimpArgs false

/-! ### which sequences `bufferTranslate` accepts -/

def aaOK (c : Byte) : Bool := Gen.alpha_seq_both.contains (toUpper c) || Gen.alpha_seq_aa.contains (toUpper c)
def ntOK (c : Byte) : Bool := Gen.alpha_seq_both.contains (toUpper c) || Gen.alpha_seq_nt.contains (toUpper c)

theorem alpha_fold (s : Seq) (a n : Bool) :
    s.foldl (alphaStep Gen.alpha_seq_both Gen.alpha_seq_nt Gen.alpha_seq_aa) (a, n) = (a && s.all aaOK, n && s.all ntOK) := by
  induction s generalizing a n with
  | nil => simp
  | cons c t ih =>
    simp only [List.foldl_cons, alphaStep, List.all_cons]
    rw [ih]
    simp only [aaOK, ntOK, Bool.and_assoc]

/-- the alphabet test of `bufferTranslate` passes exactly when every character may be a nucleotide -/
theorem ntLike_iff (s : Seq) :
    (detectAlphabetSeq s = NUCLEOTIDS ∨ detectAlphabetSeq s = BOTH) ↔ s.all ntOK = true := by
  unfold detectAlphabetSeq
  rw [alpha_fold]
  simp only [Bool.true_and, alphaOfFlags, NUCLEOTIDS, BOTH, AMINOACIDS, UNKNOWN]
  cases s.all aaOK <;> cases s.all ntOK <;> simp

theorem bufferTranslate_eq (code : List (List Byte × Byte)) (f : Nat) (s : Seq) :
    bufferTranslate code f s = if s.all ntOK = true ∧ 3 + f ≤ s.length then some (codonsFrom code (s.drop f)) else none := by
  unfold bufferTranslate
  have h := ntLike_iff s
  by_cases hn : s.all ntOK = true
  · have := h.mpr hn
    by_cases hl : s.length < 3 + f
    · have hl' : ¬ (3 + f ≤ s.length) := by omega
      rcases this with e | e <;> simp [e, hl, hl', NUCLEOTIDS, BOTH]
    · have hl' : 3 + f ≤ s.length := by omega
      rcases this with e | e <;> simp [e, hl, hl', hn, NUCLEOTIDS, BOTH]
  · have h1 : ¬ detectAlphabetSeq s = NUCLEOTIDS := fun e => hn (h.mp (Or.inl e))
    have h2 : ¬ detectAlphabetSeq s = BOTH := fun e => hn (h.mp (Or.inr e))
    simp [h1, h2, hn]

theorem gap_ntOK : ntOK GAP = true := by decide

/-! ### the threading loop -/

theorem codonThread_length (p nt b r : Seq) (h : codonThread p nt = some (b, r)) : b.length = 3 * p.length := by
  induction p generalizing nt b with
  | nil => simp [codonThread] at h; simp [h.1]
  | cons a t ih =>
    unfold codonThread at h
    by_cases ha : (a == GAP) = true
    · simp only [ha, if_true, Option.map_eq_some_iff] at h
      obtain ⟨⟨b', r'⟩, h1, h2⟩ := h
      simp only [Prod.mk.injEq] at h2
      obtain ⟨hb, hr⟩ := h2
      subst hr; subst hb
      simp [ih nt b' h1]; omega
    · simp only [ha, Bool.false_eq_true, if_false] at h
      match nt, h with
      | x :: y :: z :: nt', h =>
        simp only [Option.map_eq_some_iff] at h
        obtain ⟨⟨b', r'⟩, h1, h2⟩ := h
        simp only [Prod.mk.injEq] at h2
        obtain ⟨hb, hr⟩ := h2
        subst hr; subst hb
        simp [ih nt' b' h1]; omega

/-- the buffer is the consumed nucleotides with `---` inserted; what was not consumed remains -/
theorem codonThread_uses (p nt b r : Seq) (h : codonThread p nt = some (b, r)) :
    ∃ used, nt = used ++ r ∧ ungap b = ungap used := by
  induction p generalizing nt b with
  | nil =>
    simp [codonThread] at h
    exact ⟨[], by simp [h.2], by simp [h.1, ungap]⟩
  | cons a t ih =>
    unfold codonThread at h
    by_cases ha : (a == GAP) = true
    · simp only [ha, if_true, Option.map_eq_some_iff] at h
      obtain ⟨⟨b', r'⟩, h1, h2⟩ := h
      simp only [Prod.mk.injEq] at h2
      obtain ⟨hb, hr⟩ := h2
      subst hr; subst hb
      obtain ⟨used, hu1, hu2⟩ := ih nt b' h1
      refine ⟨used, hu1, ?_⟩
      rw [← hu2]
      simp [ungap, GAP]
    · simp only [ha, Bool.false_eq_true, if_false] at h
      match nt, h with
      | x :: y :: z :: nt', h =>
        simp only [Option.map_eq_some_iff] at h
        obtain ⟨⟨b', r'⟩, h1, h2⟩ := h
        simp only [Prod.mk.injEq] at h2
        obtain ⟨hb, hr⟩ := h2
        subst hr; subst hb
        obtain ⟨used, hu1, hu2⟩ := ih nt' b' h1
        refine ⟨x :: y :: z :: used, by rw [hu1]; simp, ?_⟩
        unfold ungap at hu2 ⊢
        simp only [List.filter_cons, hu2]

theorem ungap_of_no_gap (s : Seq) (h : ∀ x ∈ s, x ≠ GAP) : ungap s = s := by
  unfold ungap
  rw [List.filter_eq_self]
  intro x hx
  simpa using h x hx

theorem codonsFrom_nil_iff (code : List (List Byte × Byte)) (s : Seq) : codonsFrom code s = [] ↔ s.length < 3 := by
  match s with
  | [] => simp [codonsFrom]
  | [_] => simp [codonsFrom]
  | [_, _] => simp [codonsFrom]
  | a :: b :: c :: t => simp [codonsFrom]

/-- **threading the nucleotides onto a gapped copy of their own translation succeeds, leaves at most two
nucleotides, and the result translates back to the gapped protein row** -/
theorem codonThread_back (code : List (List Byte × Byte)) (hgap : translateCodon code GAP GAP GAP = GAP)
    (p nt : Seq) (hp : ungap p = codonsFrom code nt) :
    ∃ b r, codonThread p nt = some (b, r) ∧ r.length ≤ 2 ∧ codonsFrom code b = p := by
  induction p generalizing nt with
  | nil =>
    have : nt.length < 3 := (codonsFrom_nil_iff code nt).mp (by simpa [ungap] using hp.symm)
    exact ⟨[], nt, rfl, by omega, by simp [codonsFrom]⟩
  | cons a t ih =>
    by_cases ha : (a == GAP) = true
    · have hae : a = GAP := by simpa using ha
      have hp' : ungap t = codonsFrom code nt := by
        unfold ungap at hp ⊢
        rw [List.filter_cons] at hp
        simpa [hae] using hp
      obtain ⟨b, r, h1, h2, h3⟩ := ih nt hp'
      refine ⟨GAP :: GAP :: GAP :: b, r, ?_, h2, ?_⟩
      · simp [codonThread, ha, h1]
      · simp [codonsFrom, hgap, h3, hae]
    · have hne : (a != GAP) = true := by simpa using ha
      have hp' : a :: ungap t = codonsFrom code nt := by
        unfold ungap at hp ⊢
        rw [List.filter_cons] at hp
        simpa [hne] using hp
      match nt, hp' with
      | [], hp' => simp [codonsFrom] at hp'
      | [_], hp' => simp [codonsFrom] at hp'
      | [_, _], hp' => simp [codonsFrom] at hp'
      | x :: y :: z :: nt', hp' =>
        simp only [codonsFrom, List.cons.injEq] at hp'
        obtain ⟨b, r, h1, h2, h3⟩ := ih nt' hp'.2
        refine ⟨x :: y :: z :: b, r, ?_, h2, ?_⟩
        · simp [codonThread, ha, h1]
        · simp [codonsFrom, h3, hp'.1]

theorem codonThread_chars (p nt b r : Seq) (h : codonThread p nt = some (b, r)) :
    ∀ c ∈ b, c = GAP ∨ c ∈ nt := by
  induction p generalizing nt b with
  | nil => simp [codonThread] at h; simp [h.1]
  | cons a t ih =>
    unfold codonThread at h
    by_cases ha : (a == GAP) = true
    · simp only [ha, if_true, Option.map_eq_some_iff] at h
      obtain ⟨⟨b', r'⟩, h1, h2⟩ := h
      simp only [Prod.mk.injEq] at h2
      obtain ⟨hb, hr⟩ := h2
      subst hr; subst hb
      intro c hc
      simp only [List.mem_cons] at hc
      rcases hc with e | e | e | e
      · exact Or.inl e
      · exact Or.inl e
      · exact Or.inl e
      · exact ih nt b' h1 c e
    · simp only [ha, Bool.false_eq_true, if_false] at h
      match nt, h with
      | x :: y :: z :: nt', h =>
        simp only [Option.map_eq_some_iff] at h
        obtain ⟨⟨b', r'⟩, h1, h2⟩ := h
        simp only [Prod.mk.injEq] at h2
        obtain ⟨hb, hr⟩ := h2
        subst hr; subst hb
        intro c hc
        simp only [List.mem_cons] at hc ⊢
        rcases hc with e | e | e | e
        · exact Or.inr (Or.inl e)
        · exact Or.inr (Or.inr (Or.inl e))
        · exact Or.inr (Or.inr (Or.inr (Or.inl e)))
        · rcases ih nt' b' h1 c e with e' | e'
          · exact Or.inl e'
          · exact Or.inr (Or.inr (Or.inr (Or.inr e')))

/-- the loop succeeds exactly when there are three nucleotides per residue, and leaves the others -/
theorem codonThread_some (p nt : Seq) (h : 3 * (ungap p).length ≤ nt.length) :
    ∃ b, codonThread p nt = some (b, nt.drop (3 * (ungap p).length)) := by
  induction p generalizing nt with
  | nil => exact ⟨[], by simp [codonThread, ungap]⟩
  | cons a t ih =>
    by_cases ha : (a == GAP) = true
    · have hae : a = GAP := by simpa using ha
      have hu : ungap (a :: t) = ungap t := by
        unfold ungap; rw [List.filter_cons]; simp [hae]
      rw [hu] at h ⊢
      obtain ⟨b, hb⟩ := ih nt h
      exact ⟨GAP :: GAP :: GAP :: b, by simp [codonThread, ha, hb]⟩
    · have hne : (a != GAP) = true := by simpa using ha
      have hu : ungap (a :: t) = a :: ungap t := by
        unfold ungap; rw [List.filter_cons]; simp [hne]
      rw [hu] at h ⊢
      simp only [List.length_cons] at h ⊢
      match nt, h with
      | [], h => simp at h
      | [_], h => simp at h; omega
      | [_, _], h => simp at h; omega
      | x :: y :: z :: nt', h =>
        obtain ⟨b, hb⟩ := ih nt' (by simp at h; omega)
        refine ⟨x :: y :: z :: b, ?_⟩
        have e : 3 * ((ungap t).length + 1) = 3 * (ungap t).length + 1 + 1 + 1 := by omega
        simp [codonThread, ha, hb, e]

theorem codonThread_none (p nt : Seq) (h : nt.length < 3 * (ungap p).length) : codonThread p nt = none := by
  induction p generalizing nt with
  | nil => simp [ungap] at h
  | cons a t ih =>
    by_cases ha : (a == GAP) = true
    · have hae : a = GAP := by simpa using ha
      have hu : ungap (a :: t) = ungap t := by
        unfold ungap; rw [List.filter_cons]; simp [hae]
      rw [hu] at h
      simp [codonThread, ha, ih nt h]
    · have hne : (a != GAP) = true := by simpa using ha
      have hu : ungap (a :: t) = a :: ungap t := by
        unfold ungap; rw [List.filter_cons]; simp [hne]
      rw [hu] at h
      simp only [List.length_cons] at h
      match nt, h with
      | [], _ => simp [codonThread, ha]
      | [_], _ => simp [codonThread, ha]
      | [_, _], _ => simp [codonThread, ha]
      | x :: y :: z :: nt', h =>
        simp [codonThread, ha, ih nt' (by simp at h; omega)]

end Gv.Proofs.TranslateAlign
