import Gv.Proofs.DedupRows
import Gv.Proofs.BagInv
/-!
C13: the Go-mirroring loop `Model.dedupLoop` (container with name index re-filled through
`AddSequence`, `seqs` map from compare-string to group number, `identical` slice of slices) computes
the reference `Spec.dedupRows` whenever the names of the container are pairwise distinct.  Core-only.
-/
namespace Gv.Proofs.Dedup
open Gv Gv.Model Gv.Spec Gv.Proofs.BagInv

/-- the `seqs` map that belongs to an accumulator: key ↦ position -/
def seenOf (acc : List Grp) (n : Nat) : List (Seq × Nat) := (acc.zipIdx n).map fun gi => (gi.1.1, gi.2)

theorem seenOf_cons (g : Grp) (t : List Grp) (n : Nat) : seenOf (g :: t) n = (g.1, n) :: seenOf t (n + 1) := by
  simp [seenOf, List.zipIdx_cons]

theorem seenOf_upd (k : Seq) (x : String) (acc : List Grp) (n : Nat) : seenOf (acc.map (upd k x)) n = seenOf acc n := by
  induction acc generalizing n with
  | nil => rfl
  | cons g t ih =>
    rw [List.map_cons, seenOf_cons, seenOf_cons, ih]
    congr 2
    unfold upd; split <;> rfl

theorem seenOf_snoc (acc : List Grp) (e : Grp) (n : Nat) : seenOf (acc ++ [e]) n = seenOf acc n ++ [(e.1, n + acc.length)] := by
  simp [seenOf, List.zipIdx_append]

theorem seenOf_find_none (k : Seq) (acc : List Grp) (n : Nat) :
    (seenOf acc n).find? (fun p => p.1 == k) = none ↔ acc.any (fun g => g.1 == k) = false := by
  induction acc generalizing n with
  | nil => simp [seenOf]
  | cons g t ih =>
    rw [seenOf_cons, List.find?_cons]
    by_cases h : (g.1 == k) = true
    · simp [h]
    · have h' : (g.1 == k) = false := by simpa using h
      simp only [h', List.any_cons, Bool.false_or]
      exact ih (n + 1)

theorem seenOf_find_ge (k : Seq) (acc : List Grp) (n : Nat) (p : Seq × Nat)
    (h : (seenOf acc n).find? (fun p => p.1 == k) = some p) : n ≤ p.2 := by
  have hm := List.mem_of_find?_eq_some h
  obtain ⟨gi, hgi, e⟩ := List.mem_map.mp hm
  have := List.mem_zipIdx hgi
  subst e
  exact this.1

/-- rows whose keys differ from `k` and whose positions lie beyond `m` are untouched on both sides -/
theorem appendAt_aux_ne (k : Seq) (x : String) (m : Nat) (t : List Grp) (n : Nat) (hm : m < n) (h : ∀ g ∈ t, g.1 ≠ k) :
    ((t.map grpOf).zipIdx n).map (fun gk => if gk.2 == m then gk.1 ++ [x] else gk.1) = (t.map (upd k x)).map grpOf := by
  induction t generalizing n with
  | nil => rfl
  | cons g t ih =>
    have hg : (g.1 == k) = false := by simpa using h g (by simp)
    have hn : (n == m) = false := by simp; omega
    simp only [List.map_cons, List.zipIdx_cons, hn, upd, hg]
    rw [ih (n + 1) (by omega) (fun g' hg' => h g' (List.mem_cons_of_mem _ hg'))]
    rfl

theorem appendAt_aux (k : Seq) (x : String) (acc : List Grp) (n : Nat) (p : Seq × Nat)
    (hn : (acc.map Prod.fst).Nodup) (h : (seenOf acc n).find? (fun p => p.1 == k) = some p) :
    ((acc.map grpOf).zipIdx n).map (fun gk => if gk.2 == p.2 then gk.1 ++ [x] else gk.1) = (acc.map (upd k x)).map grpOf := by
  induction acc generalizing n with
  | nil => simp [seenOf] at h
  | cons g t ih =>
    simp only [List.map_cons, List.nodup_cons] at hn
    rw [seenOf_cons, List.find?_cons] at h
    by_cases hg : (g.1 == k) = true
    · simp only [hg] at h
      simp only [Option.some.injEq] at h
      subst h
      have hne : ∀ g' ∈ t, g'.1 ≠ k := by
        intro g' hg' e
        have : g.1 = k := by simpa using hg
        exact hn.1 (List.mem_map.mpr ⟨g', hg', by rw [e, this]⟩)
      simp only [List.map_cons, List.zipIdx_cons, beq_self_eq_true, if_true, upd, hg]
      rw [appendAt_aux_ne k x n t (n + 1) (by omega) hne]
      rfl
    · have hg' : (g.1 == k) = false := by simpa using hg
      simp only [hg'] at h
      have hge := seenOf_find_ge k t (n + 1) p h
      have hnp : (n == p.2) = false := by simp; omega
      simp only [List.map_cons, List.zipIdx_cons, hnp, upd, hg']
      rw [ih (n + 1) hn.2 h]
      rfl

theorem appendAt_seen (k : Seq) (x : String) (acc : List Grp) (p : Seq × Nat)
    (hn : (acc.map Prod.fst).Nodup) (h : (seenOf acc 0).find? (fun p => p.1 == k) = some p) :
    appendAt (acc.map grpOf) p.2 x = (acc.map (upd k x)).map grpOf := by
  rw [← appendAt_aux k x acc 0 p hn h]
  rfl

theorem addSeqBase_fresh (b : Bag) (n : String) (s : Seq) (h : idxLookup n b.index = none) :
    addSeqBase b n s = (pushed false b n s, false) := by
  simp [addSeqBase, addSeqAs, pushed, h, Model.freshName]

/-- the frame of the container that `Deduplicate` never touches -/
def SameSettings (b b' : Bag) : Prop :=
  b'.policy = b.policy ∧ b'.alphabet = b.alphabet ∧ b'.isAlign = b.isAlign ∧ b'.length = b.length

theorem dedupLoop_eq_dedupRows (alpha : Nat) (g : Bool) (rest : List Row) (b : Bag) (acc : List Grp)
    (seen : List (Seq × Nat)) (groups : List (List String))
    (hinv : Inv b) (hp : pairs b = acc.map rowOf) (hs : seen = seenOf acc 0) (hg : groups = acc.map grpOf)
    (hk : (acc.map Prod.fst).Nodup)
    (hn : (acc.map (fun e => e.2.1) ++ rest.map (·.name)).Nodup) :
    (dedupLoop alpha g rest b seen groups).2.1 = false ∧
    pairs (dedupLoop alpha g rest b seen groups).1 =
      (dedupRows (dedupKey alpha g) (rest.map fun r => (r.name, r.seq)) acc).map rowOf ∧
    (dedupLoop alpha g rest b seen groups).2.2 =
      (dedupRows (dedupKey alpha g) (rest.map fun r => (r.name, r.seq)) acc).map grpOf ∧
    SameSettings b (dedupLoop alpha g rest b seen groups).1 := by
  induction rest generalizing b acc seen groups with
  | nil => exact ⟨rfl, by simpa [dedupLoop, dedupRows] using hp, by simpa [dedupLoop, dedupRows] using hg, rfl, rfl, rfl, rfl⟩
  | cons r t ih =>
    simp only [dedupLoop, List.map_cons]
    rw [dedupRows_cons]
    subst hs hg
    cases hf : (seenOf acc 0).find? (fun p => p.1 == dedupKey alpha g r.seq) with
    | none =>
      have ha := (seenOf_find_none _ acc 0).mp hf
      have hfresh : idxLookup r.name b.index = none := by
        cases hl : idxLookup r.name b.index with
        | none => rfl
        | some i =>
          exfalso
          obtain ⟨r', hr', _, e2⟩ := hinv.idx_sound _ _ hl
          have hm : (r'.name, r'.seq) ∈ pairs b := List.mem_map.mpr ⟨r', hr', rfl⟩
          rw [hp] at hm
          obtain ⟨e, he, ee⟩ := List.mem_map.mp hm
          have hmem : r.name ∈ acc.map (fun e => e.2.1) := by
            refine List.mem_map.mpr ⟨e, he, ?_⟩
            have := congrArg Prod.fst ee
            simp only [rowOf] at this
            rw [this, e2]
          exact (List.nodup_append.mp hn).2.2 _ hmem _ (by simp) rfl
      simp only [addSeqBase_fresh b r.name r.seq hfresh, ha]
      simp only [Bool.false_eq_true, if_false]
      have := ih (pushed false b r.name r.seq) (acc ++ [(dedupKey alpha g r.seq, r.name, r.seq, [r.name])])
        (seenOf acc 0 ++ [(dedupKey alpha g r.seq, (acc.map grpOf).length)]) (acc.map grpOf ++ [[r.name]])
        (inv_pushed false b hinv _ _)
        (by simp only [pairs, pushed, List.map_append, List.map_cons, List.map_nil]
            have : b.rows.map (fun r => (r.name, r.seq)) = acc.map rowOf := hp
            rw [this]; rfl)
        (by rw [seenOf_snoc]; simp)
        (by simp [grpOf])
        (nodup_keys_snoc acc _ _ rfl hk (by simp [ha]))
        (by simpa using hn)
      obtain ⟨a1, a2, a3, a4⟩ := this
      exact ⟨a1, a2, a3, a4⟩
    | some p =>
      have ha : acc.any (fun g' => g'.1 == dedupKey alpha g r.seq) = true := by
        cases hb : acc.any (fun g' => g'.1 == dedupKey alpha g r.seq) with
        | true => rfl
        | false => rw [(seenOf_find_none _ acc 0).mpr hb] at hf; cases hf
      simp only [ha, if_true]
      have := ih b (acc.map (upd (dedupKey alpha g r.seq) r.name)) (seenOf acc 0) (appendAt (acc.map grpOf) p.2 r.name)
        hinv (by rw [map_upd_rows]; exact hp) (by rw [seenOf_upd])
        (appendAt_seen _ _ acc p hk hf) (by rw [map_upd_keys]; exact hk)
        (by
          have e : (acc.map (upd (dedupKey alpha g r.seq) r.name)).map (fun e => e.2.1) = acc.map (fun e => e.2.1) := by
            rw [List.map_map]; apply List.map_congr_left; intro g' _; simp only [Function.comp, upd]; split <;> rfl
          rw [e]
          have := hn
          simp only [List.map_cons] at this
          exact (List.nodup_append.mpr ⟨(List.nodup_append.mp this).1, ((List.nodup_append.mp this).2.1).of_cons,
            fun a ha b hb => (List.nodup_append.mp this).2.2 a ha b (List.mem_cons_of_mem _ hb)⟩))
      exact this

/-! ### without any assumption on the names (policies NONE and IGNORE_SEQUENCE)

When names repeat, re-adding may rename a row, but under these two policies it never drops one: the kept
*sequences* and the groups are still those of the reference. -/

theorem getByName_mem (b : Bag) (n : String) (r : Row) (h : getByName b n = some r) : r ∈ b.rows := by
  unfold getByName at h
  cases hl : idxLookup n b.index with
  | none => rw [hl] at h; simp at h
  | some i => rw [hl] at h; exact (deref_some (by simpa using h)).1

theorem addSeqBase_pushes (b : Bag) (n : String) (s : Seq) (hpol : b.policy ≠ IGNORE_NAME)
    (hnot : ∀ r ∈ b.rows, r.seq ≠ s) : ∃ nm, addSeqBase b n s = (pushed false b nm s, false) := by
  have hsame : sameSeqOpt (getByName b n) s = false := by
    cases hgn : getByName b n with
    | none => rfl
    | some r =>
      have := hnot r (getByName_mem b n r hgn)
      simp [sameSeqOpt, this]
  have hp : (b.policy == IGNORE_NAME) = false := by simpa using hpol
  exact ⟨Model.freshName b.index n, by simp [addSeqBase, addSeqAs, pushed, hsame, hp]⟩

theorem dedupLoop_seqs (alpha : Nat) (g : Bool) (rest : List Row) (b : Bag) (acc : List Grp)
    (seen : List (Seq × Nat)) (groups : List (List String))
    (hpol : b.policy ≠ IGNORE_NAME)
    (hp : (pairs b).map Prod.snd = acc.map (fun e => e.2.2.1))
    (hkey : ∀ e ∈ acc, e.1 = dedupKey alpha g e.2.2.1)
    (hs : seen = seenOf acc 0) (hg : groups = acc.map grpOf) (hk : (acc.map Prod.fst).Nodup) :
    (dedupLoop alpha g rest b seen groups).2.1 = false ∧
    (pairs (dedupLoop alpha g rest b seen groups).1).map Prod.snd =
      (dedupRows (dedupKey alpha g) (rest.map fun r => (r.name, r.seq)) acc).map (fun e => e.2.2.1) ∧
    (dedupLoop alpha g rest b seen groups).2.2 =
      (dedupRows (dedupKey alpha g) (rest.map fun r => (r.name, r.seq)) acc).map grpOf ∧
    SameSettings b (dedupLoop alpha g rest b seen groups).1 := by
  induction rest generalizing b acc seen groups with
  | nil => exact ⟨rfl, by simpa [dedupLoop, dedupRows] using hp, by simpa [dedupLoop, dedupRows] using hg, rfl, rfl, rfl, rfl⟩
  | cons r t ih =>
    simp only [dedupLoop, List.map_cons]
    rw [dedupRows_cons]
    subst hs hg
    cases hf : (seenOf acc 0).find? (fun p => p.1 == dedupKey alpha g r.seq) with
    | none =>
      have ha := (seenOf_find_none _ acc 0).mp hf
      have hnot : ∀ r' ∈ b.rows, r'.seq ≠ r.seq := by
        intro r' hr' e
        have hm : r'.seq ∈ (pairs b).map Prod.snd := by
          simp only [pairs, List.map_map, List.mem_map, Function.comp]
          exact ⟨r', hr', rfl⟩
        rw [hp] at hm
        obtain ⟨e0, he0, ee⟩ := List.mem_map.mp hm
        have hk0 := hkey e0 he0
        have : acc.any (fun g' => g'.1 == dedupKey alpha g r.seq) = true := by
          simp only [List.any_eq_true, beq_iff_eq]
          exact ⟨e0, he0, by rw [hk0, ee, e]⟩
        rw [ha] at this
        cases this
      obtain ⟨nm, hadd⟩ := addSeqBase_pushes b r.name r.seq hpol hnot
      simp only [hadd, ha, Bool.false_eq_true, if_false]
      have := ih (pushed false b nm r.seq) (acc ++ [(dedupKey alpha g r.seq, r.name, r.seq, [r.name])])
        (seenOf acc 0 ++ [(dedupKey alpha g r.seq, (acc.map grpOf).length)]) (acc.map grpOf ++ [[r.name]])
        (by simpa [pushed] using hpol)
        (by simp only [pairs, pushed, List.map_append, List.map_cons, List.map_nil]
            have : (b.rows.map (fun r => (r.name, r.seq))).map Prod.snd = acc.map (fun e => e.2.2.1) := hp
            rw [this])
        (by intro e he
            rcases List.mem_append.mp he with he | he
            · exact hkey e he
            · simp only [List.mem_singleton] at he; subst he; rfl)
        (by rw [seenOf_snoc]; simp)
        (by simp [grpOf])
        (nodup_keys_snoc acc _ _ rfl hk (by simp [ha]))
      obtain ⟨a1, a2, a3, a4⟩ := this
      exact ⟨a1, a2, a3, a4⟩
    | some p =>
      have ha : acc.any (fun g' => g'.1 == dedupKey alpha g r.seq) = true := by
        cases hb : acc.any (fun g' => g'.1 == dedupKey alpha g r.seq) with
        | true => rfl
        | false => rw [(seenOf_find_none _ acc 0).mpr hb] at hf; cases hf
      simp only [ha, if_true]
      have hseqs : (acc.map (upd (dedupKey alpha g r.seq) r.name)).map (fun e => e.2.2.1) = acc.map (fun e => e.2.2.1) := by
        rw [List.map_map]; apply List.map_congr_left; intro g' _; simp only [Function.comp, upd]; split <;> rfl
      have := ih b (acc.map (upd (dedupKey alpha g r.seq) r.name)) (seenOf acc 0) (appendAt (acc.map grpOf) p.2 r.name)
        hpol (by rw [hseqs]; exact hp)
        (by intro e he
            obtain ⟨e0, he0, ee⟩ := List.mem_map.mp he
            subst ee
            have := hkey e0 he0
            unfold upd; split <;> exact this)
        (by rw [seenOf_upd])
        (appendAt_seen _ _ acc p hk hf) (by rw [map_upd_keys]; exact hk)
      exact this

end Gv.Proofs.Dedup
