import Gv.Model.SW
import Gv.Spec.SW
import Gv.Proofs.SWSpec
import Gv.Proofs.SWFill
/-!
Helper development for C09: the columns returned by `backTrack_SW` are worth at least the value of
the cell the trace-back starts from, for any score / trace matrices that are *locally consistent*
(`Cert`): a `DIAG` cell holds its diagonal neighbour plus the substitution score, an `UP` / `LEFT`
cell holds some cell above / to the left plus the price of the gap in between, values are
non-negative.  `fill_cert` shows the repaired `fillMatrix_SW` produces such matrices.
-/
namespace Gv.Proofs.SWTrace
open Gv Gv.Model.SW Gv.Spec.SW

/-- local consistency of a score matrix `m` with a trace matrix `tr` on the cells `< l1 × l2` -/
structure Cert (S : Scheme) (s1 s2 : Seq) (m : Nat → Nat → Int) (tr : Nat → Nat → Dir) : Prop where
  nonneg : ∀ i j, 0 ≤ m i j
  diag : ∀ i j, i < s1.length → j < s2.length → tr i j = Dir.diag → 0 < m i j →
    m i j = (if 0 < i ∧ 0 < j then m (i - 1) (j - 1) else 0) + S.sub (s1.getD i 0) (s2.getD j 0)
  up : ∀ i j, i < s1.length → j < s2.length → tr i j = Dir.up → 0 < m i j →
    ∃ k, 1 ≤ k ∧ k ≤ i ∧ m (i - k) j + S.gapopen + ((k : Int) - 1) * S.gapext = m i j
  left : ∀ i j, i < s1.length → j < s2.length → tr i j = Dir.left → 0 < m i j →
    ∃ k, 1 ≤ k ∧ k ≤ j ∧ m i (j - k) + S.gapopen + ((k : Int) - 1) * S.gapext = m i j

/-- if some gap length explains the cell, the `for { ngaps++ … }` loop stops at one that does -/
theorem gapLen_spec (val : Nat → Int) (target gopen gext : Int) (i : Nat)
    (hex : ∃ k, 1 ≤ k ∧ k ≤ i ∧ val (i - k) + gopen + ((k : Int) - 1) * gext = target) :
    ∀ (f k : Nat), 1 ≤ k → k ≤ i → i ≤ f + k →
      (∀ k', 1 ≤ k' → k' < k → val (i - k') + gopen + ((k' : Int) - 1) * gext ≠ target) →
      let g := gapLen val target gopen gext i f k
      1 ≤ g ∧ g ≤ i ∧ val (i - g) + gopen + ((g : Int) - 1) * gext = target := by
  intro f
  induction f with
  | zero =>
    intro k hk hki hf hmin
    simp only [gapLen]
    obtain ⟨k0, h1, h2, h3⟩ := hex
    have : k = i := by omega
    subst this
    refine ⟨hk, Nat.le_refl _, ?_⟩
    by_cases e : k0 = k
    · subst e; exact h3
    · exact absurd h3 (hmin k0 h1 (by omega))
  | succ f ih =>
    intro k hk hki hf hmin
    simp only [gapLen]
    split
    · rename_i hc
      simp only [Bool.or_eq_true, beq_iff_eq] at hc
      rcases hc with hc | hc
      · exact ⟨hk, hki, hc⟩
      · have : k = i := by omega
        subst this
        obtain ⟨k0, h1, h2, h3⟩ := hex
        refine ⟨hk, Nat.le_refl _, ?_⟩
        by_cases e : k0 = k
        · subst e; exact h3
        · exact absurd h3 (hmin k0 h1 (by omega))
    · rename_i hc
      simp only [Bool.or_eq_true, beq_iff_eq, not_or] at hc
      refine ih (k + 1) (by omega) (by omega) (by omega) ?_
      intro k' h1 h2
      by_cases e : k' = k
      · subst e; exact hc.1
      · exact hmin k' h1 (by omega)

/-! ### columns carried by the rows under construction -/

theorem colsOfRows_pair {c1 c2 : Byte} (h1 : c1 ≠ GAP) (h2 : c2 ≠ GAP) {r1 r2 : Seq} {C : List Col}
    (h : colsOfRows r1 r2 = some C) : colsOfRows (c1 :: r1) (c2 :: r2) = some (Col.pair c1 c2 :: C) := by
  simp [colsOfRows, h, h1, h2]

theorem colsOfRows_gap2 {c1 : Byte} (h1 : c1 ≠ GAP) {r1 r2 : Seq} {C : List Col}
    (h : colsOfRows r1 r2 = some C) : colsOfRows (c1 :: r1) (GAP :: r2) = some (Col.gap2 c1 :: C) := by
  simp [colsOfRows, h, h1]

theorem colsOfRows_gap1 {c2 : Byte} (h2 : c2 ≠ GAP) {r1 r2 : Seq} {C : List Col}
    (h : colsOfRows r1 r2 = some C) : colsOfRows (GAP :: r1) (c2 :: r2) = some (Col.gap1 c2 :: C) := by
  simp [colsOfRows, h, h2]

theorem scoreFrom_append (S : Scheme) (prev : St) (L G : List Col) :
    scoreFrom S prev (L ++ G) = scoreFrom S prev L + scoreFrom S (lastKind prev L) G := by
  induction L generalizing prev with
  | nil => simp [scoreFrom, lastKind]
  | cons c t ih => simp only [List.cons_append, scoreFrom, lastKind, ih]; omega

theorem colScore_of_kind (S : Scheme) (prev kind : St) (hk : kind = .x ∨ kind = .y) (c : Col)
    (hc : c.kind = kind) : colScore S prev c = gapCost S prev kind := by
  cases c <;> rcases hk with h | h <;> simp_all [Col.kind, colScore]

/-- a block of gap columns of one kind costs one opening (or extension) plus extensions -/
theorem scoreFrom_gaps (S : Scheme) (kind : St) (hk : kind = .x ∨ kind = .y) :
    ∀ (G : List Col) (prev : St), G ≠ [] → (∀ c ∈ G, c.kind = kind) →
      scoreFrom S prev G = gapCost S prev kind + ((G.length : Int) - 1) * S.gapext := by
  intro G
  induction G with
  | nil => intro _ h; exact absurd rfl h
  | cons c t ih =>
    intro prev _ hG
    have hc : c.kind = kind := hG c (by simp)
    simp only [scoreFrom, colScore_of_kind S prev kind hk c hc, hc]
    cases t with
    | nil => simp [scoreFrom]
    | cons d t' =>
      rw [ih kind (by simp) (fun x hx => hG x (by simp [hx]))]
      have : gapCost S kind kind = S.gapext := by simp [gapCost]
      rw [this]
      simp only [List.length_cons]
      have e : ((t'.length + 1 + 1 : Nat) : Int) - 1 = 1 + (((t'.length + 1 : Nat) : Int) - 1) := by omega
      rw [e, Int.add_mul, Int.one_mul]

/-- appending a block of `k ≥ 1` gap columns of one kind adds at least `gapopen + (k-1)·gapextend`
(`gapopen ≤ gapextend`) -/
theorem score_append_gaps (S : Scheme) (hle : S.gapopen ≤ S.gapext) (L G : List Col) (kind : St)
    (hk : kind = .x ∨ kind = .y) (hG : ∀ c ∈ G, c.kind = kind) (hne : G ≠ []) :
    score S L + S.gapopen + ((G.length : Int) - 1) * S.gapext ≤ score S (L ++ G) := by
  show _ ≤ scoreFrom S .m (L ++ G)
  rw [scoreFrom_append, scoreFrom_gaps S kind hk G _ hne hG]
  have : S.gapopen ≤ gapCost S (lastKind .m L) kind := by unfold gapCost; split <;> omega
  show scoreFrom S .m L + _ + _ ≤ _
  omega

private theorem getD_ne_gap {s : Seq} (hs : GAP ∉ s) {i : Nat} (h : i < s.length) : s.getD i 0 ≠ GAP := by
  intro e
  apply hs
  rw [← e]
  simp [List.getD_eq_getElem?_getD, List.getElem?_eq_getElem h]

/-- the columns pushed by `k` steps up: `k` gap columns over residues of `s1` -/
theorem pushUp_cols {s1 : Seq} (h1 : GAP ∉ s1) : ∀ (k i : Nat) (st : BT) (C : List Col),
    i < s1.length → colsOfRows st.r1 st.r2 = some C →
    ∃ G, colsOfRows (BT.pushUp s1 k i st).r1 (BT.pushUp s1 k i st).r2 = some (G ++ C) ∧
      G.length = k ∧ ∀ c ∈ G, c.kind = St.x := by
  intro k
  induction k with
  | zero => intro i st C _ h; exact ⟨[], by simpa [BT.pushUp] using h, rfl, by simp⟩
  | succ k ih =>
    intro i st C hi h
    simp only [BT.pushUp]
    have hc := colsOfRows_gap2 (getD_ne_gap h1 hi) h
    obtain ⟨G, hG, hl, hk⟩ := ih (i - 1)
      { st with r1 := s1.getD i 0 :: st.r1, r2 := GAP :: st.r2, len := st.len + 1, ng := st.ng + 1 }
      (Col.gap2 (s1.getD i 0) :: C) (by omega) hc
    refine ⟨G ++ [Col.gap2 (s1.getD i 0)], by simpa using hG, by simp [hl], ?_⟩
    intro c hc'
    rcases List.mem_append.mp hc' with h | h
    · exact hk c h
    · simp at h; subst h; rfl

theorem pushLeft_cols {s2 : Seq} (h2 : GAP ∉ s2) : ∀ (k j : Nat) (st : BT) (C : List Col),
    j < s2.length → colsOfRows st.r1 st.r2 = some C →
    ∃ G, colsOfRows (BT.pushLeft s2 k j st).r1 (BT.pushLeft s2 k j st).r2 = some (G ++ C) ∧
      G.length = k ∧ ∀ c ∈ G, c.kind = St.y := by
  intro k
  induction k with
  | zero => intro j st C _ h; exact ⟨[], by simpa [BT.pushLeft] using h, rfl, by simp⟩
  | succ k ih =>
    intro j st C hj h
    simp only [BT.pushLeft]
    have hc := colsOfRows_gap1 (getD_ne_gap h2 hj) h
    obtain ⟨G, hG, hl, hk⟩ := ih (j - 1)
      { st with r1 := GAP :: st.r1, r2 := s2.getD j 0 :: st.r2, len := st.len + 1, ng := st.ng + 1 }
      (Col.gap1 (s2.getD j 0) :: C) (by omega) hc
    refine ⟨G ++ [Col.gap1 (s2.getD j 0)], by simpa using hG, by simp [hl], ?_⟩
    intro c hc'
    rcases List.mem_append.mp hc' with h | h
    · exact hk c h
    · simp at h; subst h; rfl

theorem btLoop_done (fixed : Bool) (gopen gext : Int) (m : Nat → Nat → Int) (tr : Nat → Nat → Dir)
    (s1 s2 : Seq) (f pi pj : Nat) (st : BT) (h : pi = 0 ∨ pj = 0) :
    btLoop fixed gopen gext m tr s1 s2 f pi pj st = some (pi, pj, st) := by
  cases f <;> simp [btLoop, h]

/-- **the columns returned by the (repaired) trace-back are worth at least the start cell** -/
theorem btLoop_score (S : Scheme) (hle : S.gapopen ≤ S.gapext) (hneg : S.gapext < 0)
    {s1 s2 : Seq} {m : Nat → Nat → Int} {tr : Nat → Nat → Dir} (cert : Cert S s1 s2 m tr)
    (h1 : GAP ∉ s1) (h2 : GAP ∉ s2) :
    ∀ (f pi pj : Nat) (st : BT) (C : List Col), pi ≤ s1.length → pj ≤ s2.length → 0 < pi → 0 < pj →
      0 < m (pi - 1) (pj - 1) → pi + pj ≤ f → colsOfRows st.r1 st.r2 = some C →
      ∀ {pi' pj' : Nat} {st' : BT},
        btLoop true S.gapopen S.gapext m tr s1 s2 f pi pj st = some (pi', pj', st') →
        ∃ L, colsOfRows st'.r1 st'.r2 = some (L ++ C) ∧ m (pi - 1) (pj - 1) ≤ score S L := by
  intro f
  induction f with
  | zero => intro pi pj st C _ _ hi hj _ hf; omega
  | succ f ih =>
    intro pi pj st C hl1 hl2 hi hj hpos hf hC pi' pj' st' hloop
    simp only [btLoop] at hloop
    rw [if_neg (by omega)] at hloop
    have hi1 : pi - 1 < s1.length := by omega
    have hj1 : pj - 1 < s2.length := by omega
    cases htr : tr (pi - 1) (pj - 1) with
    | diag =>
      simp only [btStep, htr] at hloop
      have hd := cert.diag _ _ hi1 hj1 htr hpos
      have hcols := colsOfRows_pair (getD_ne_gap h1 hi1) (getD_ne_gap h2 hj1) hC
      have hone : score S [Col.pair (s1.getD (pi - 1) 0) (s2.getD (pj - 1) 0)] =
          S.sub (s1.getD (pi - 1) 0) (s2.getD (pj - 1) 0) := by simp [score, scoreFrom, colScore]
      split at hloop
      · -- stop: next cell is non-positive
        rename_i hstop
        simp only [btStop, if_true, Bool.and_eq_true, decide_eq_true_eq] at hstop
        simp only [Option.some.injEq, Prod.mk.injEq] at hloop
        obtain ⟨rfl, rfl, rfl⟩ := hloop
        refine ⟨[Col.pair (s1.getD (pi - 1) 0) (s2.getD (pj - 1) 0)], by simpa [BT.pushDiag] using hcols, ?_⟩
        rw [hone, hd, if_pos ⟨by omega, by omega⟩]
        have := cert.nonneg (pi - 1 - 1) (pj - 1 - 1)
        omega
      · rename_i hstop
        simp only [btStop, if_true, Bool.and_eq_true, decide_eq_true_eq, not_and, Int.not_le] at hstop
        by_cases hz : pi - 1 = 0 ∨ pj - 1 = 0
        · rw [btLoop_done _ _ _ _ _ _ _ _ _ _ _ hz] at hloop
          simp only [Option.some.injEq, Prod.mk.injEq] at hloop
          obtain ⟨rfl, rfl, rfl⟩ := hloop
          refine ⟨[Col.pair (s1.getD (pi - 1) 0) (s2.getD (pj - 1) 0)], by simpa [BT.pushDiag] using hcols, ?_⟩
          rw [hone, hd, if_neg (by omega)]
          omega
        · have hp := hstop ⟨by omega, by omega⟩
          obtain ⟨L, hL, hs⟩ := ih (pi - 1) (pj - 1) _ _ (by omega) (by omega) (by omega) (by omega) hp
            (by omega) (by simpa [BT.pushDiag] using hcols) hloop
          refine ⟨L ++ [Col.pair (s1.getD (pi - 1) 0) (s2.getD (pj - 1) 0)], by simpa using hL, ?_⟩
          show _ ≤ scoreFrom S .m (L ++ [_])
          rw [scoreFrom_append_singleton, hd, if_pos ⟨by omega, by omega⟩]
          show _ ≤ score S L + S.sub _ _
          omega
    | up =>
      simp only [btStep, htr] at hloop
      by_cases hne : pi - 1 = 0
      · simp [hne] at hloop
      · simp only [hne, if_false] at hloop
        obtain hex := cert.up _ _ hi1 hj1 htr hpos
        have hg := gapLen_spec (fun r => m r (pj - 1)) (m (pi - 1) (pj - 1)) S.gapopen S.gapext (pi - 1) hex
          (pi - 1) 1 (Nat.le_refl _) (by omega) (by omega) (by intro k' a b; omega)
        simp only [] at hg hloop
        generalize gapLen (fun r => m r (pj - 1)) (m (pi - 1) (pj - 1)) S.gapopen S.gapext (pi - 1) (pi - 1) 1 = k
          at hg hloop
        obtain ⟨hk1, hk2, hke⟩ := hg
        have hneg' : ((k : Int) - 1) * S.gapext ≤ 0 :=
          Int.mul_nonpos_of_nonneg_of_nonpos (by omega) (by omega)
        have hp : 0 < m (pi - 1 - k) (pj - 1) := by omega
        obtain ⟨G, hG, hGl, hGk⟩ := pushUp_cols h1 k (pi - 1) st C hi1 hC
        have e1 : pi - k - 1 = pi - 1 - k := by omega
        split at hloop
        · rename_i hstop
          simp only [btStop, if_true, Bool.and_eq_true, decide_eq_true_eq] at hstop
          rw [e1] at hstop
          omega
        · obtain ⟨L, hL, hs⟩ := ih (pi - k) pj _ _ (by omega) hl2 (by omega) hj (by rw [e1]; exact hp)
            (by omega) hG hloop
          refine ⟨L ++ G, by simpa using hL, ?_⟩
          have hgs := score_append_gaps S hle L G .x (Or.inl rfl) hGk (by intro e; rw [e] at hGl; simp at hGl; omega)
          rw [hGl] at hgs
          rw [e1] at hs
          omega
    | left =>
      simp only [btStep, htr] at hloop
      by_cases hne : pj - 1 = 0
      · simp [hne] at hloop
      · simp only [hne, if_false] at hloop
        obtain hex := cert.left _ _ hi1 hj1 htr hpos
        have hg := gapLen_spec (fun c => m (pi - 1) c) (m (pi - 1) (pj - 1)) S.gapopen S.gapext (pj - 1) hex
          (pj - 1) 1 (Nat.le_refl _) (by omega) (by omega) (by intro k' a b; omega)
        simp only [] at hg hloop
        generalize gapLen (fun c => m (pi - 1) c) (m (pi - 1) (pj - 1)) S.gapopen S.gapext (pj - 1) (pj - 1) 1 = k
          at hg hloop
        obtain ⟨hk1, hk2, hke⟩ := hg
        have hneg' : ((k : Int) - 1) * S.gapext ≤ 0 :=
          Int.mul_nonpos_of_nonneg_of_nonpos (by omega) (by omega)
        have hp : 0 < m (pi - 1) (pj - 1 - k) := by omega
        obtain ⟨G, hG, hGl, hGk⟩ := pushLeft_cols h2 k (pj - 1) st C hj1 hC
        have e1 : pj - k - 1 = pj - 1 - k := by omega
        split at hloop
        · rename_i hstop
          simp only [btStop, if_true, Bool.and_eq_true, decide_eq_true_eq] at hstop
          rw [e1] at hstop
          omega
        · obtain ⟨L, hL, hs⟩ := ih pi (pj - k) _ _ hl1 (by omega) hi (by omega) (by rw [e1]; exact hp)
            (by omega) hG hloop
          refine ⟨L ++ G, by simpa using hL, ?_⟩
          have hgs := score_append_gaps S hle L G .y (Or.inr rfl) hGk (by intro e; rw [e] at hGl; simp at hGl; omega)
          rw [hGl] at hgs
          rw [e1] at hs
          omega

/-! ### the repaired fill is locally consistent -/

open Gv.Proofs.SWFill

theorem prefixesFrom_getElem? {α} : ∀ (l acc : List α) (i : Nat),
    (prefixesFrom acc l)[i]? = if i < l.length then some ((l.take (i + 1)).reverse ++ acc) else none := by
  intro l
  induction l with
  | nil => intro acc i; simp [prefixesFrom]
  | cons b t ih =>
    intro acc i
    cases i with
    | zero => simp [prefixesFrom]
    | succ i =>
      simp only [prefixesFrom, List.getElem?_cons_succ, ih, List.length_cons, Nat.add_lt_add_iff_right]
      split <;> simp

/-- reversed prefix ending at index `i` -/
def Q {α} (x : List α) (i : Nat) : List α := (x.take (i + 1)).reverse

theorem Q_length {α} {x : List α} {i : Nat} (h : i < x.length) : (Q x i).length = i + 1 := by
  simp only [Q, List.length_reverse, List.length_take]; omega

theorem Q_ne_nil {α} {x : List α} {i : Nat} (h : i < x.length) : Q x i ≠ [] := by
  intro e
  have := Q_length h
  rw [e] at this
  simp at this

theorem getD_map_prefixes {α β} (g : List α → β) (l : List α) (i : Nat) (d : β) :
    ((prefixesFrom [] l).map g).getD i d = if i < l.length then g (Q l i) else d := by
  simp only [List.getD_eq_getElem?_getD, List.getElem?_map, prefixesFrom_getElem?, List.append_nil, Q]
  split <;> simp

theorem Q_drop {α} {x : List α} {i k : Nat} (hi : i < x.length) (hk : k ≤ i) : (Q x i).drop k = Q x (i - k) := by
  simp only [Q, List.drop_reverse, List.length_take, List.take_take]
  congr 2
  omega

theorem Q_zero_tail {α} {x : List α} (h : 0 < x.length) : ∃ c, Q x 0 = [c] := by
  cases x with
  | nil => simp at h
  | cons c t => exact ⟨c, by simp [Q]⟩

theorem Q_head {α} [Inhabited α] {x : List α} {i : Nat} (hi : i < x.length) (d : α) :
    ∃ r, Q x i = x.getD i d :: r ∧ (0 < i → r = Q x (i - 1)) ∧ (i = 0 → r = []) := by
  have hq : Q x i = (x.take i ++ [x.getD i d]).reverse := by
    simp only [Q]
    congr 1
    rw [List.take_add_one]
    simp [List.getD_eq_getElem?_getD, List.getElem?_eq_getElem hi]
  refine ⟨(x.take i).reverse, by simp [hq], ?_, ?_⟩
  · intro h; simp only [Q]; congr 2; omega
  · intro h; subst h; simp

/-- the matrices of the repaired fill, cell by cell -/
theorem fill_m (a : Aligner) (x1 x2 : List CI) (i j : Nat) :
    (fill a true x1 x2).m i j =
      if i < x1.length ∧ j < x2.length then (cellR a (Q x1 i) (Q x2 j)).val else 0 := by
  rw [fill_eq]
  unfold Filled.m
  dsimp only
  rw [getD_map_prefixes]
  by_cases h1 : i < x1.length
  · rw [if_pos h1, getD_map_prefixes]
    by_cases h2 : j < x2.length
    · rw [if_pos h2, if_pos ⟨h1, h2⟩]
    · rw [if_neg h2, if_neg (fun h => h2 h.2)]; rfl
  · rw [if_neg h1, if_neg (fun h => h1 h.1)]; rfl

theorem fill_t (a : Aligner) (x1 x2 : List CI) (i j : Nat) (h1 : i < x1.length) (h2 : j < x2.length) :
    (fill a true x1 x2).t i j = (cellR a (Q x1 i) (Q x2 j)).tr := by
  rw [fill_eq]
  unfold Filled.t
  dsimp only
  rw [getD_map_prefixes, if_pos h1, getD_map_prefixes, if_pos h2]

/-- how the direction stored by `cellStep` relates to the stored score -/
theorem cellStep_tr (go ge mt d : Int) (upv leftv : Option Int) (maxa bx : NInf) :
    ((cellStep go ge mt d upv leftv maxa bx).tr = Dir.diag →
        (cellStep go ge mt d upv leftv maxa bx).mscore = d + mt) ∧
    ((cellStep go ge mt d upv leftv maxa bx).tr = Dir.up →
        (cellStep go ge mt d upv leftv maxa bx).maxa = some (cellStep go ge mt d upv leftv maxa bx).mscore) ∧
    ((cellStep go ge mt d upv leftv maxa bx).tr = Dir.left →
        (cellStep go ge mt d upv leftv maxa bx).bx = some (cellStep go ge mt d upv leftv maxa bx).mscore) := by
  simp only [cellStep]
  generalize maxa.step ge upv go = A
  generalize bx.step ge leftv go = B
  cases A <;> cases B <;>
    simp only [NInf.gt, Option.getD, decide_eq_true_eq, Bool.false_eq_true, if_false] <;>
    (repeat' split) <;> simp_all

section chains
variable (S : Scheme) (hle : S.gapopen ≤ S.gapext) (hneg : S.gapext < 0)
include hle hneg

/-- entering in state `x` = some number of further gap columns, then as from state `m` -/
theorem brute_x_chain : ∀ (r : Seq) (b : Byte) (t : Seq), r ≠ [] →
    ∃ k, 1 ≤ k ∧ k ≤ r.length ∧
      bruteFrom S r (b :: t) .x = ((k : Int) - 1) * S.gapext + bruteFrom S (r.drop (k - 1)) (b :: t) .m := by
  intro r
  induction r with
  | nil => intro _ _ h; exact absurd rfl h
  | cons a s ih =>
    intro b t _
    cases s with
    | nil => exact ⟨1, Nat.le_refl _, by simp, by simp [brute_single_left S hle hneg]⟩
    | cons a' s' =>
      rw [brute_x_step S hle]
      by_cases hc : S.gapext + bruteFrom S (a' :: s') (b :: t) .x ≤ bruteFrom S (a :: a' :: s') (b :: t) .m
      · exact ⟨1, Nat.le_refl _, by simp, by simp; omega⟩
      · obtain ⟨k, hk1, hk2, hk⟩ := ih b t (by simp)
        refine ⟨k + 1, by omega, by simp at hk2 ⊢; omega, ?_⟩
        have e : ((k + 1 : Nat) : Int) - 1 = 1 + ((k : Int) - 1) := by omega
        have ed : (a :: a' :: s').drop (k + 1 - 1) = (a' :: s').drop (k - 1) := by
          cases k with
          | zero => omega
          | succ n => simp
        rw [e, Int.add_mul, Int.one_mul, ed, hk]
        omega

theorem brute_y_chain (a : Byte) (s : Seq) : ∀ (t : Seq), t ≠ [] →
    ∃ k, 1 ≤ k ∧ k ≤ t.length ∧
      bruteFrom S (a :: s) t .y = ((k : Int) - 1) * S.gapext + bruteFrom S (a :: s) (t.drop (k - 1)) .m := by
  intro t
  induction t with
  | nil => intro h; exact absurd rfl h
  | cons b t ih =>
    intro _
    cases t with
    | nil => exact ⟨1, Nat.le_refl _, by simp, by simp [brute_single_right S hle hneg]⟩
    | cons b' t' =>
      rw [brute_y_step S hle]
      by_cases hc : S.gapext + bruteFrom S (a :: s) (b' :: t') .y ≤ bruteFrom S (a :: s) (b :: b' :: t') .m
      · exact ⟨1, Nat.le_refl _, by simp, by simp; omega⟩
      · obtain ⟨k, hk1, hk2, hk⟩ := ih (by simp)
        refine ⟨k + 1, by omega, by simp at hk2 ⊢; omega, ?_⟩
        have e : ((k + 1 : Nat) : Int) - 1 = 1 + ((k : Int) - 1) := by omega
        have ed : (b :: b' :: t').drop (k + 1 - 1) = (b' :: t').drop (k - 1) := by
          cases k with
          | zero => omega
          | succ n => simp
        rw [e, Int.add_mul, Int.one_mul, ed, hk]
        omega

end chains

theorem cellR_nil_left (a : Aligner) (p : List CI) : cellR a [] p = outside := rfl

theorem getD_map_fst (x : List CI) (i : Nat) (h : i < x.length) (d : CI) :
    (x.map (·.1)).getD i 0 = (x.getD i d).1 := by
  simp [List.getD_eq_getElem?_getD, List.getElem?_map, List.getElem?_eq_getElem h]

theorem getD_mem' (x : List CI) (i : Nat) (h : i < x.length) (d : CI) : x.getD i d ∈ x := by
  simp [List.getD_eq_getElem?_getD, List.getElem?_eq_getElem h]

theorem Q_subset {α} {x : List α} {i : Nat} {c : α} (h : c ∈ Q x i) : c ∈ x :=
  List.mem_of_mem_take (List.mem_reverse.mp h)

/-- **the matrices of the repaired `fillMatrix_SW` are locally consistent** -/
theorem fill_cert (a : Aligner) (S : Scheme) (hgo : S.gapopen = a.gapopen) (hge : S.gapext = a.gapextend)
    (hle : S.gapopen ≤ S.gapext) (hneg : S.gapext < 0) (x1 x2 : List CI)
    (hsub : ∀ c1 ∈ x1, ∀ c2 ∈ x2, matchScore a c1 c2 = S.sub c1.1 c2.1) :
    Cert S (x1.map (·.1)) (x2.map (·.1)) (fill a true x1 x2).m (fill a true x1 x2).t := by
  have hsubQ : ∀ i j, ∀ c1 ∈ Q x1 i, ∀ c2 ∈ Q x2 j, matchScore a c1 c2 = S.sub c1.1 c2.1 :=
    fun i j c1 h1 c2 h2 => hsub c1 (Q_subset h1) c2 (Q_subset h2)
  have hval : ∀ i j, i < x1.length → j < x2.length →
      (fill a true x1 x2).m i j = bruteFrom S ((Q x1 i).map (·.1)) ((Q x2 j).map (·.1)) .m := by
    intro i j h1 h2
    rw [fill_m, if_pos ⟨h1, h2⟩]
    exact (cellR_brute S hle hneg a hgo hge _ _ (hsubQ i j)).1
  -- shape of the cell (i, j)
  have hshape : ∀ i j, i < x1.length → j < x2.length →
      ∃ r1 r2, Q x1 i = x1.getD i default :: r1 ∧ Q x2 j = x2.getD j default :: r2 ∧
        (0 < i → r1 = Q x1 (i - 1)) ∧ (i = 0 → r1 = []) ∧ (0 < j → r2 = Q x2 (j - 1)) ∧ (j = 0 → r2 = []) := by
    intro i j h1 h2
    obtain ⟨r1, e1, a1, b1⟩ := Q_head h1 (default : CI)
    obtain ⟨r2, e2, a2, b2⟩ := Q_head h2 (default : CI)
    exact ⟨r1, r2, e1, e2, a1, b1, a2, b2⟩
  constructor
  · intro i j
    rw [fill_m]
    split
    · rw [cellR_val_mscore]; omega
    · exact Int.le_refl _
  · -- DIAG
    intro i j h1 h2 htr hpos
    simp only [List.length_map] at h1 h2
    obtain ⟨r1, r2, e1, e2, a1, b1, a2, b2⟩ := hshape i j h1 h2
    rw [fill_t _ _ _ _ _ h1 h2, e1, e2, cellR_cons_cons] at htr
    have hm := fill_m a x1 x2 i j
    rw [if_pos ⟨h1, h2⟩, e1, e2] at hm
    rw [hm] at hpos ⊢
    have hvm := cellR_val_mscore a (x1.getD i default :: r1) (x2.getD j default :: r2)
    rw [hvm] at hpos ⊢
    rw [cellR_cons_cons] at hpos ⊢
    rw [(cellStep_tr _ _ _ _ _ _ _ _).1 htr] at hpos ⊢
    rw [getD_map_fst x1 i h1 default, getD_map_fst x2 j h2 default,
      ← hsub _ (getD_mem' x1 i h1 default) _ (getD_mem' x2 j h2 default)]
    have hd : (cellR a r1 r2).val = if 0 < i ∧ 0 < j then (fill a true x1 x2).m (i - 1) (j - 1) else 0 := by
      split
      · rename_i h
        rw [fill_m, if_pos ⟨by omega, by omega⟩, a1 h.1, a2 h.2]
      · rename_i h
        by_cases hi : i = 0
        · rw [b1 hi]; rfl
        · have hj : j = 0 := by omega
          rw [b2 hj, cellR_nil_right]; rfl
    rw [← hd]
    omega
  · -- UP
    intro i j h1 h2 htr hpos
    simp only [List.length_map] at h1 h2
    obtain ⟨r1, r2, e1, e2, a1, b1, a2, b2⟩ := hshape i j h1 h2
    rw [fill_t _ _ _ _ _ h1 h2, e1, e2, cellR_cons_cons] at htr
    have hm := fill_m a x1 x2 i j
    rw [if_pos ⟨h1, h2⟩, e1, e2] at hm
    have hvm := cellR_val_mscore a (x1.getD i default :: r1) (x2.getD j default :: r2)
    have hF := (cellR_brute S hle hneg a hgo hge _ _ (hsubQ i j)).2.1
    rw [e1, e2] at hF
    have hup := (cellStep_tr _ _ _ _ _ _ _ _).2.1 htr
    rw [← cellR_cons_cons] at hup
    rw [hup] at hF
    -- the row above exists
    cases r1 with
    | nil => simp [Fspec] at hF
    | cons c r =>
      have hi0 : 0 < i := by
        rcases Nat.eq_zero_or_pos i with h | h
        · have := b1 h; simp at this
        · exact h
      simp only [Fspec, List.map_cons, Option.some.injEq] at hF
      obtain ⟨k, hk1, hk2, hk⟩ := brute_x_chain S hle hneg ((c :: r).map (·.1)) (x2.getD j default).1 (r2.map (·.1))
        (by simp)
      have hlen : (c :: r).length = i := by
        have := Q_length (x := x1) (i := i - 1) (by omega)
        rw [← a1 hi0] at this; omega
      refine ⟨k, hk1, by simp only [List.length_map] at hk2; omega, ?_⟩
      have hcell : (fill a true x1 x2).m (i - k) j =
          bruteFrom S (((c :: r).map (·.1)).drop (k - 1)) ((x2.getD j default).1 :: r2.map (·.1)) .m := by
        simp only [List.length_map] at hk2
        rw [hval (i - k) j (by omega) h2, e2, ← Q_drop h1 (by omega : k ≤ i), e1]
        have : (x1.getD i default :: c :: r).drop k = (c :: r).drop (k - 1) := by
          cases k with
          | zero => omega
          | succ n => simp
        rw [this, List.map_drop, List.map_cons]
        rfl
      simp only [List.map_cons] at hk hcell
      rw [hcell, hm, hvm]
      have hposm : 0 < (cellR a (x1.getD i default :: c :: r) (x2.getD j default :: r2)).mscore := by
        rw [hm, hvm] at hpos; omega
      rw [← hgo, ← hge] at *
      omega
  · -- LEFT
    intro i j h1 h2 htr hpos
    simp only [List.length_map] at h1 h2
    obtain ⟨r1, r2, e1, e2, a1, b1, a2, b2⟩ := hshape i j h1 h2
    rw [fill_t _ _ _ _ _ h1 h2, e1, e2, cellR_cons_cons] at htr
    have hm := fill_m a x1 x2 i j
    rw [if_pos ⟨h1, h2⟩, e1, e2] at hm
    have hvm := cellR_val_mscore a (x1.getD i default :: r1) (x2.getD j default :: r2)
    have hE := (cellR_brute S hle hneg a hgo hge _ _ (hsubQ i j)).2.2
    rw [e1, e2] at hE
    have hleft := (cellStep_tr _ _ _ _ _ _ _ _).2.2 htr
    rw [← cellR_cons_cons] at hleft
    rw [hleft] at hE
    cases r2 with
    | nil => simp [Espec] at hE
    | cons c r =>
      have hj0 : 0 < j := by
        rcases Nat.eq_zero_or_pos j with h | h
        · have := b2 h; simp at this
        · exact h
      simp only [Espec, List.map_cons, Option.some.injEq] at hE
      obtain ⟨k, hk1, hk2, hk⟩ := brute_y_chain S hle hneg (x1.getD i default).1 (r1.map (·.1)) ((c :: r).map (·.1))
        (by simp)
      have hlen : (c :: r).length = j := by
        have := Q_length (x := x2) (i := j - 1) (by omega)
        rw [← a2 hj0] at this; omega
      refine ⟨k, hk1, by simp only [List.length_map] at hk2; omega, ?_⟩
      have hcell : (fill a true x1 x2).m i (j - k) =
          bruteFrom S ((x1.getD i default).1 :: r1.map (·.1)) (((c :: r).map (·.1)).drop (k - 1)) .m := by
        simp only [List.length_map] at hk2
        rw [hval i (j - k) h1 (by omega), e1, ← Q_drop h2 (by omega : k ≤ j), e2]
        have : (x2.getD j default :: c :: r).drop k = (c :: r).drop (k - 1) := by
          cases k with
          | zero => omega
          | succ n => simp
        rw [this, List.map_drop, List.map_cons]
      simp only [List.map_cons] at hk hcell
      rw [hcell, hm, hvm]
      have hposm : 0 < (cellR a (x1.getD i default :: r1) (x2.getD j default :: c :: r)).mscore := by
        rw [hm, hvm] at hpos; omega
      rw [← hgo, ← hge] at *
      omega

/-! ### the trace-back of the repaired fill never indexes out of range -/

/-- the loop returns (no Go panic) when no cell of row 0 says `UP` and no cell of column 0 `LEFT` -/
theorem btLoop_total (fixed : Bool) (gopen gext : Int) (m : Nat → Nat → Int) (tr : Nat → Nat → Dir)
    (s1 s2 : Seq) (l1 l2 : Nat) (hup : ∀ j, j < l2 → tr 0 j ≠ Dir.up) (hleft : ∀ i, i < l1 → tr i 0 ≠ Dir.left) :
    ∀ (f pi pj : Nat) (st : BT), pi ≤ l1 → pj ≤ l2 →
      (btLoop fixed gopen gext m tr s1 s2 f pi pj st).isSome := by
  intro f
  induction f with
  | zero => intro pi pj st _ _; rfl
  | succ f ih =>
    intro pi pj st h1 h2
    simp only [btLoop]
    split
    · rfl
    · rename_i hz
      cases htr : tr (pi - 1) (pj - 1) with
      | diag =>
        simp only [btStep, htr]
        split
        · rfl
        · exact ih _ _ _ (by omega) (by omega)
      | up =>
        simp only [btStep, htr]
        by_cases h0 : pi - 1 = 0
        · exact absurd (h0 ▸ htr) (hup (pj - 1) (by omega))
        · simp only [h0, if_false]
          split
          · rfl
          · exact ih _ _ _ (by omega) h2
      | left =>
        simp only [btStep, htr]
        by_cases h0 : pj - 1 = 0
        · exact absurd (h0 ▸ htr) (hleft (pi - 1) (by omega))
        · simp only [h0, if_false]
          split
          · rfl
          · exact ih _ _ _ h1 (by omega)

theorem fill_no_up_row0 (a : Aligner) (x1 x2 : List CI) (h1 : 0 < x1.length) (j : Nat) (h2 : j < x2.length) :
    (fill a true x1 x2).t 0 j ≠ Dir.up := by
  rw [fill_t a x1 x2 0 j h1 h2]
  obtain ⟨c, hc⟩ := Q_zero_tail h1
  obtain ⟨r2, e2, _, _⟩ := Q_head h2 (default : CI)
  rw [hc, e2, cellR_cons_cons]
  intro htr
  have := (cellStep_tr _ _ _ _ _ _ _ _).2.1 htr
  rw [(cellStep_spec _ _ _ _ _ _ _ _).1] at this
  simp [cellR, outside, NInf.step, NInf.add] at this

theorem fill_no_left_col0 (a : Aligner) (x1 x2 : List CI) (h2 : 0 < x2.length) (i : Nat) (h1 : i < x1.length) :
    (fill a true x1 x2).t i 0 ≠ Dir.left := by
  rw [fill_t a x1 x2 i 0 h1 h2]
  obtain ⟨c, hc⟩ := Q_zero_tail h2
  obtain ⟨r1, e1, _, _⟩ := Q_head h1 (default : CI)
  rw [hc, e1, cellR_cons_cons]
  intro htr
  have := (cellStep_tr _ _ _ _ _ _ _ _).2.2 htr
  rw [(cellStep_spec _ _ _ _ _ _ _ _).2.1] at this
  simp [cellR_nil_right, outside, NInf.step, NInf.add] at this

/-! ### the reported end cell holds the reported score -/

theorem bestFold_at (i : Nat) : ∀ (l : List Int) (j : Nat) (best : Best),
    bestFold i j best l = best ∨
      ((bestFold i j best l).i = i ∧ j ≤ (bestFold i j best l).j ∧
        l[(bestFold i j best l).j - j]? = some (bestFold i j best l).score) := by
  intro l
  induction l with
  | nil => intro j best; left; rfl
  | cons ms t ih =>
    intro j best
    simp only [bestFold]
    rcases ih (j + 1) (if ms > best.score then { score := ms, i := i, j := j } else best) with h | h
    · rw [h]
      split
      · right; exact ⟨rfl, Nat.le_refl _, by simp⟩
      · left; rfl
    · right
      obtain ⟨h1, h2, h3⟩ := h
      refine ⟨h1, by omega, ?_⟩
      have : (bestFold i (j + 1) (if ms > best.score then { score := ms, i := i, j := j } else best) t).j - j
          = ((bestFold i (j + 1) (if ms > best.score then { score := ms, i := i, j := j } else best) t).j - (j + 1)) + 1 := by
        omega
      rw [this, List.getElem?_cons_succ]
      exact h3

theorem bestRowsFold_at : ∀ (rows : List (List Int)) (i : Nat) (best : Best),
    bestRowsFold i best rows = best ∨
      (i ≤ (bestRowsFold i best rows).i ∧
        ∃ row, rows[(bestRowsFold i best rows).i - i]? = some row ∧
          row[(bestRowsFold i best rows).j]? = some (bestRowsFold i best rows).score) := by
  intro rows
  induction rows with
  | nil => intro i best; left; rfl
  | cons row t ih =>
    intro i best
    simp only [bestRowsFold]
    rcases ih (i + 1) (bestFold i 0 best row) with h | h
    · rw [h]
      rcases bestFold_at i row 0 best with h' | h'
      · left; exact h'
      · right
        obtain ⟨h1, _, h3⟩ := h'
        exact ⟨by omega, row, by rw [h1]; simp, by simpa using h3⟩
    · right
      obtain ⟨h1, r, h2, h3⟩ := h
      refine ⟨by omega, r, ?_, h3⟩
      have : (bestRowsFold (i + 1) (bestFold i 0 best row) t).i - i
          = ((bestRowsFold (i + 1) (bestFold i 0 best row) t).i - (i + 1)) + 1 := by omega
      rw [this, List.getElem?_cons_succ]
      exact h2

/-- when the repaired fill reports a positive score, the reported end cell lies in the matrix and
holds exactly that score -/
theorem fill_best_cell (a : Aligner) (x1 x2 : List CI) (hpos : 0 < (fill a true x1 x2).best.score) :
    (fill a true x1 x2).best.i < x1.length ∧ (fill a true x1 x2).best.j < x2.length ∧
    (fill a true x1 x2).m (fill a true x1 x2).best.i (fill a true x1 x2).best.j = (fill a true x1 x2).best.score := by
  have hm := fun i j => fill_m a x1 x2 i j
  rw [fill_eq] at hpos ⊢
  simp only [] at hpos ⊢
  rcases bestRowsFold_at ((prefixesFrom [] x1).map fun q => (prefixesFrom [] x2).map fun p => (cellR a q p).mscore)
    0 ⟨0, 0, 0⟩ with h | h
  · rw [h] at hpos; simp at hpos
  · obtain ⟨_, row, h2, h3⟩ := h
    generalize bestRowsFold 0 ⟨0, 0, 0⟩
      ((prefixesFrom [] x1).map fun q => (prefixesFrom [] x2).map fun p => (cellR a q p).mscore) = b at *
    simp only [Nat.sub_zero, List.getElem?_map, prefixesFrom_getElem?, List.append_nil] at h2
    by_cases hi : b.i < x1.length
    · simp only [hi, if_true, Option.map_some, Option.some.injEq] at h2
      subst h2
      simp only [List.getElem?_map, prefixesFrom_getElem?, List.append_nil] at h3
      by_cases hj : b.j < x2.length
      · simp only [hj, if_true, Option.map_some, Option.some.injEq] at h3
        refine ⟨hi, hj, ?_⟩
        have := hm b.i b.j
        rw [fill_eq] at this
        refine Eq.trans this ?_
        rw [if_pos ⟨hi, hj⟩, cellR_val_mscore]
        simp only [Q]
        omega
      · simp [hj] at h3
    · simp [hi] at h2

end Gv.Proofs.SWTrace
