import Gv.Proofs.BagInv
import Gv.Model.Clean
/-!
C12, per-sequence variant: `RemoveCharacterSeqs` (`Gv/Model/Bag.lean`) on a well-formed alignment keeps
exactly the rows that do not meet the cutoff, in order and untouched.
-/
namespace Gv.Proofs.CleanSeqs
open Gv Gv.Model Gv.Proofs.BagInv

/-- adding a row whose name is new and whose length fits: it is pushed unchanged at the end -/
theorem addSeq_fresh (b : Bag) (hinv : Inv b) (hal : b.isAlign = true) (n : String) (s : Seq)
    (hn : n ∉ b.rows.map (·.name)) (hl : b.length = -1 ∨ b.length = (s.length : Int)) :
    addSeq b n s = (pushed true b n s, false) := by
  have hlk : idxLookup n b.index = none := by
    cases h : idxLookup n b.index with
    | none => rfl
    | some i =>
      obtain ⟨r, hr, _, e⟩ := hinv.idx_sound n i h
      exact absurd (List.mem_map.mpr ⟨r, hr, e⟩) hn
  unfold addSeq addSeqAs pushed
  simp only [hlk, Option.isSome_none, Bool.false_and, Bool.false_eq_true, if_false, freshName, hal]
  have : ¬ ((true && b.length != -1 && b.length != (s.length : Int)) = true) := by
    rcases hl with e | e <;> simp [e]
  rw [if_neg this]

theorem addAllIgnore_fresh : ∀ (l : List (String × Seq)) (b : Bag) (n : Int), Inv b → b.isAlign = true →
    (l.map Prod.fst).Nodup → (∀ p ∈ l, p.1 ∉ b.rows.map (·.name)) → (∀ p ∈ l, (p.2.length : Int) = n) →
    (b.length = -1 ∨ b.length = n) →
    pairs (addAllIgnore b l) = pairs b ++ l ∧
    (addAllIgnore b l).length = (if l = [] then b.length else n) ∧
    (addAllIgnore b l).alphabet = b.alphabet ∧ (addAllIgnore b l).policy = b.policy ∧
    (addAllIgnore b l).isAlign = b.isAlign := by
  intro l
  induction l with
  | nil => intro b n _ _ _ _ _ _; simp [addAllIgnore]
  | cons p t ih =>
    intro b n hinv hal hnd hfresh hlen hbl
    obtain ⟨nm, s⟩ := p
    simp only [List.map_cons, List.nodup_cons] at hnd
    have hs : (s.length : Int) = n := hlen (nm, s) (by simp)
    have e := addSeq_fresh b hinv hal nm s (hfresh (nm, s) (by simp)) (by rw [hs]; exact hbl)
    simp only [addAllIgnore, e]
    have hinv' := inv_pushed true b hinv nm s
    have := ih (pushed true b nm s) n hinv' (by simpa [pushed] using hal) hnd.2
      (by
        intro q hq
        simp only [pushed, List.map_append, List.map_cons, List.map_nil, List.mem_append, List.mem_singleton, not_or]
        refine ⟨hfresh q (by simp [hq]), ?_⟩
        intro e
        exact hnd.1 (by rw [← e]; exact List.mem_map_of_mem hq))
      (fun q hq => hlen q (by simp [hq]))
      (by right; simp [pushed, hs])
    obtain ⟨a1, a2, a3, a4, a5⟩ := this
    refine ⟨?_, ?_, ?_, ?_, ?_⟩
    · rw [a1]; simp [pairs, pushed]
    · rw [a2]; simp only [reduceCtorEq, if_false]
      split
      · simp [pushed, hs]
      · rfl
    · rw [a3]; rfl
    · rw [a4]; rfl
    · rw [a5]; rfl

/-- a well-formed alignment (the C01 invariant): an alignment object whose rows are uniquely named
and all have the cached length -/
structure AlignWF (b : Bag) : Prop where
  isAlign : b.isAlign = true
  names_nodup : (b.rows.map (·.name)).Nodup
  rect : ∀ r ∈ b.rows, (r.seq.length : Int) = b.length

/-- the counts `RemoveCharacterSeqs` computes on one sequence: the per-site counts of `siteCounts`
(C12, site variant) with the sequence in the role of the column, the single character `c` and no
inverted selection -/
def seqCounts (s : Seq) (c : Byte) (alphabet : Nat) (ic ig iN : Bool) : Nat × Nat :=
  siteCounts s [c] alphabet ic ig iN false

/-- whether a sequence meets the cutoff -/
def meets (test : Nat → Nat → Bool) (c : Byte) (alphabet : Nat) (ic ig iN : Bool) (s : Seq) : Bool :=
  test (seqCounts s c alphabet ic ig iN).1 (seqCounts s c alphabet ic ig iN).2

theorem seqCounts_eq (s : Seq) (c : Byte) (alphabet : Nat) (ic ig iN : Bool) :
    seqCounts s c alphabet ic ig iN =
      ((s.filter fun x => x == c || (ic && toLower x == toLower c)).length,
       (s.filter fun x => !(ig && x == GAP) &&
          !(iN && (x == (if alphabet == AMINOACIDS then (88 : Byte) else 78) ||
                   x == toLower (if alphabet == AMINOACIDS then (88 : Byte) else 78)))).length) := by
  unfold seqCounts siteCounts wildcard
  simp only [Prod.mk.injEq]
  constructor
  · congr 1
    apply List.filter_congr
    intro x _
    simp only [containsRune, List.any_cons, List.any_nil, Bool.or_false]
    have e1 : (c == x) = (x == c) := BEq.comm
    have e2 : (toLower c == toLower x) = (toLower x == toLower c) := BEq.comm
    rw [e1, e2]; simp
  · congr 1
    apply List.filter_congr
    intro x _
    simp [Bool.not_or]

theorem length_filter_add {α} (l : List α) (p : α → Bool) :
    (l.filter p).length + (l.filter fun x => !p x).length = l.length := by
  induction l with
  | nil => rfl
  | cons a t ih => cases h : p a <;> simp [h] <;> omega

theorem removeCharacterSeqs_eval (test : Nat → Nat → Bool) (c : Byte) (ic ig iN : Bool) (b : Bag) (hw : AlignWF b) :
    ∃ b', removeCharacterSeqs test c ic ig iN b =
        some (b', ((pairs b).filter fun p => meets test c b.alphabet ic ig iN p.2).length) ∧
      pairs b' = (pairs b).filter (fun p => !meets test c b.alphabet ic ig iN p.2) ∧
      b'.length = (if (pairs b).filter (fun p => !meets test c b.alphabet ic ig iN p.2) = [] then -1 else b.length) ∧
      b'.alphabet = b.alphabet ∧ b'.policy = b.policy ∧ b'.isAlign = true ∧ Inv b' := by
  have hlen : ∀ r ∈ b.rows, r.seq.length = b.length.toNat := by
    intro r hr; have := hw.rect r hr; omega
  have hany : ¬ (b.rows.any (fun r => decide (r.seq.length < b.length.toNat)) = true) := by
    simp only [List.any_eq_true, decide_eq_true_eq, not_exists, not_and]
    intro r hr; have := hlen r hr; omega
  -- the removal test of the model is `meets`
  have hrem : ∀ r ∈ b.rows,
      test ((r.seq.take b.length.toNat).filter fun x => x == c || (ic && toLower x == toLower c)).length
        ((r.seq.take b.length.toNat).filter fun x => !(ig && x == GAP) &&
          !(iN && (x == (if b.alphabet == AMINOACIDS then (88 : Byte) else 78) ||
                   x == toLower (if b.alphabet == AMINOACIDS then (88 : Byte) else 78)))).length
      = meets test c b.alphabet ic ig iN r.seq := by
    intro r hr
    have : r.seq.take b.length.toNat = r.seq := List.take_of_length_le (by rw [hlen r hr]; exact Nat.le_refl _)
    rw [this]
    unfold meets
    rw [seqCounts_eq]
  let keep := b.rows.filter fun r => !meets test c b.alphabet ic ig iN r.seq
  have hkeep : (b.rows.filter fun r =>
      !(test ((r.seq.take b.length.toNat).filter fun x => x == c || (ic && toLower x == toLower c)).length
        ((r.seq.take b.length.toNat).filter fun x => !(ig && x == GAP) &&
          !(iN && (x == (if b.alphabet == AMINOACIDS then (88 : Byte) else 78) ||
                   x == toLower (if b.alphabet == AMINOACIDS then (88 : Byte) else 78)))).length)) = keep := by
    apply List.filter_congr
    intro r hr; rw [hrem r hr]
  have hpk : keep.map (fun r => (r.name, r.seq)) = (pairs b).filter (fun p => !meets test c b.alphabet ic ig iN p.2) := by
    simp only [keep, pairs, List.filter_map]; rfl
  have hsub : keep.Sublist b.rows := List.filter_sublist
  have hnd : ((keep.map fun r => (r.name, r.seq)).map Prod.fst).Nodup := by
    rw [List.map_map]
    exact (hw.names_nodup).sublist (hsub.map _)
  have hclr : (clear b).length = -1 := by simp [clear, hw.isAlign]
  have key := addAllIgnore_fresh (keep.map fun r => (r.name, r.seq)) (clear b) b.length (inv_clear b)
    (by simp [clear, hw.isAlign]) hnd (by intro p _; simp [clear])
    (by
      intro p hp
      obtain ⟨r, hr, e⟩ := List.mem_map.mp hp
      rw [← e]; exact hw.rect r (hsub.subset hr))
    (Or.inl hclr)
  obtain ⟨a1, a2, a3, a4, a5⟩ := key
  refine ⟨addAllIgnore (clear b) (keep.map fun r => (r.name, r.seq)), ?_, ?_, ?_, ?_, ?_, ?_, ?_⟩
  · unfold removeCharacterSeqs
    simp only []
    rw [if_neg hany, hkeep]
    congr 2
    have h1 : (b.rows.filter fun r => meets test c b.alphabet ic ig iN r.seq).length + keep.length = b.rows.length :=
      length_filter_add b.rows (fun r => meets test c b.alphabet ic ig iN r.seq)
    have h2 : ((pairs b).filter fun p => meets test c b.alphabet ic ig iN p.2).length =
        (b.rows.filter fun r => meets test c b.alphabet ic ig iN r.seq).length := by
      simp only [pairs, List.filter_map, List.length_map]; rfl
    show b.rows.length - keep.length = _
    omega
  · rw [a1, hpk]; simp [pairs, clear]
  · rw [a2, hclr, hpk]
  · rw [a3]; rfl
  · rw [a4]; rfl
  · rw [a5]; simp [clear, hw.isAlign]
  · exact inv_addAllIgnore _ _ (inv_clear b)

end Gv.Proofs.CleanSeqs
