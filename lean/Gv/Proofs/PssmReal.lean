import Gv.NumReal
import Gv.Model.Pssm
import Gv.Spec.Stats
import Gv.Proofs.StatsCount
import Mathlib.Algebra.BigOperators.Group.List.Basic
/-!
C14, `Pssm` over `ℝ`: the cell-level facts (helper development for `Gv.Props.C14Pssm`).
Imports Mathlib: never imported by the oracle.
-/
namespace Gv.Proofs.PssmReal
open Gv Gv.Model

/-- number of rows of a column whose upper-cased character is `c` -/
abbrev occ (col : List Byte) (c : Byte) : ℕ := Spec.occ Spec.upperCase col c

theorem count_fold (col : List Byte) (c : Byte) (x : ℝ) :
    col.foldl (fun (x : ℝ) s => if toUpper s == c then x + 1 else x) x = x + (occ col c : ℝ) := by
  induction col generalizing x with
  | nil => simp [occ, Spec.occ]
  | cons s t ih =>
    simp only [List.foldl_cons, ih]
    simp only [occ, Spec.occ, Proofs.StatsCount.upper_eq]
    by_cases h : (toUpper s == c) = true
    · simp [h, List.countP_cons]; ring
    · have h' : (toUpper s == c) = false := by simpa using h
      simp [h', List.countP_cons]

/-- stage 2: the run of `+= 1.0` is the naive count -/
theorem pssmCount_eq (col : List Byte) (c : Byte) : (pssmCount col c : ℝ) = (occ col c : ℝ) := by
  unfold pssmCount
  have := count_fold col c 0
  simp only [RealLike.real_one, RealLike.real_zero] at this ⊢
  rw [this]; simp

/-- the pseudo-count that is added to a cell: `pseudocount` when it is `> 0`, else nothing -/
noncomputable def added (ψ : ℝ) : ℝ := if 0 < ψ then ψ else 0

theorem pssmPseudo_eq (ψ x : ℝ) : pssmPseudo ψ x = x + added ψ := by
  unfold pssmPseudo added
  simp only [RealLike.real_ltb, RealLike.real_zero]
  by_cases h : (0 : ℝ) < ψ <;> simp [h]

theorem pssmCell_eq (nf : Byte → ℝ) (ψ : ℝ) (col : List Byte) (c : Byte) :
    pssmCell nf ψ col c = ((occ col c : ℝ) + added ψ) * nf c := by
  unfold pssmCell
  rw [pssmPseudo_eq, pssmCount_eq]

theorem ofCount_eq (n : ℕ) : (ofCount n : ℝ) = (n : ℝ) := rfl

theorem pssmFreqFactor_eq (n k : ℕ) (ψ : ℝ) : pssmFreqFactor n k ψ = 1 / ((n : ℝ) + (k : ℝ) * ψ) := by
  unfold pssmFreqFactor
  simp only [ofCount_eq, RealLike.real_one]

theorem foldl_add_eq_sum {β : Type} (g : β → ℝ) (l : List β) (x : ℝ) :
    l.foldl (fun e k => e + g k) x = x + (l.map g).sum := by
  induction l generalizing x with
  | nil => simp
  | cons a t ih => simp only [List.foldl_cons, ih, List.map_cons, List.sum_cons]; ring

theorem pssmEntropy_eq (nf : Byte → ℝ) (ψ : ℝ) (alpha col : List Byte) :
    pssmEntropy nf ψ alpha col =
      (alpha.map fun k => -(((occ col k : ℝ) + added ψ) * nf k) * Real.log (((occ col k : ℝ) + added ψ) * nf k) / Real.log 2).sum := by
  unfold pssmEntropy
  simp only [RealLike.real_zero, RealLike.real_log, RealLike.real_ofNat, pssmCell_eq]
  rw [foldl_add_eq_sum (fun k => -(((occ col k : ℝ) + added ψ) * nf k) * Real.log (((occ col k : ℝ) + added ψ) * nf k) / Real.log 2)]
  simp

theorem pssmDataTotal_eq (rows : CRows) (alpha : List Byte) :
    (pssmDataTotal rows alpha : ℝ) = ((alpha.map fun c => statOf rows c).sum : ℕ) := by
  unfold pssmDataTotal
  simp only [RealLike.real_zero, ofCount_eq]
  rw [foldl_add_eq_sum (fun c => ((statOf rows c : ℕ) : ℝ))]
  simp only [zero_add]
  induction alpha with
  | nil => simp
  | cons a t ih => simp [ih]

theorem lookup_eq_find (c : Byte) (l : List (Byte × ℕ)) :
    lookup c l = (l.find? fun p => p.1 == c).map Prod.snd := by
  induction l with
  | nil => rfl
  | cons a t ih =>
    obtain ⟨k, v⟩ := a
    by_cases h : c = k
    · subst h; simp [lookup]
    · have h1 : (c == k) = false := by simpa using h
      have h2 : (k == c) = false := by simpa using fun e : k = c => h e.symm
      simp [lookup, h1, h2, ih]

/-- `stats[c]` of `CharStats()` is the number of residues of the alignment whose upper-case form is `c` -/
theorem statOf_eq (rows : CRows) (c : Byte) : statOf rows c = Spec.occ Spec.upperCase (rows.flatMap Prod.snd) c := by
  unfold statOf charStats
  rw [Proofs.StatsCount.countsBy_eq, ← Proofs.StatsCount.upper_eq]
  rw [lookup_eq_find, Proofs.StatsCount.find_countTable]
  by_cases h : Spec.occ Spec.upperCase (rows.flatMap Prod.snd) c > 0
  · simp [h]
  · simp only [h, if_false, Option.map_none, Option.getD_none]; omega

theorem stat_isSome (rows : CRows) (c : Byte) :
    (lookup c (charStats rows)).isSome = decide (0 < Spec.occ Spec.upperCase (rows.flatMap Prod.snd) c) := by
  unfold charStats
  rw [Proofs.StatsCount.countsBy_eq, ← Proofs.StatsCount.upper_eq, lookup_eq_find, Proofs.StatsCount.find_countTable]
  by_cases h : Spec.occ Spec.upperCase (rows.flatMap Prod.snd) c > 0
  · simp [h]
  · simp [h]

end Gv.Proofs.PssmReal
