import Gv.Proofs.TranslateRef
import Gv.Model.Stats
import Gv.Spec.Stats
/-!
C14: the codon-wise mutation list (`listMutationsComparedToReferenceSequenceAA`).  The walk over the reference
(`refSegs`) yields, step by step, either three reference gaps or a window that starts and ends with a residue and
holds exactly three of them; every entry of the list comes from such a window, at the position given by the number
of reference residues to its left.
-/
namespace Gv.Proofs.StatsMutAA
open Gv Gv.Model Gv.Proofs.TranslateRef
set_option linter.unusedSimpArgs false
set_option linter.unusedVariables false

/-- one step of the walk over the reference: nothing more, three gaps, or `g0` skipped gaps and a codon window -/
theorem refSegs_step (code : List (List Byte × Byte)) (fuel : Nat) (r : Seq) :
    refSegs code (fuel + 1) r = [] ∨
    (∃ t, r = GAP :: GAP :: GAP :: t ∧ refSegs code (fuel + 1) r = ⟨0, 3, GAP⟩ :: refSegs code fuel t) ∨
    (∃ g0 g1 g2 x y z t', x ≠ GAP ∧ y ≠ GAP ∧ z ≠ GAP ∧
      r = List.replicate g0 GAP ++ x :: (List.replicate g1 GAP ++ y :: (List.replicate g2 GAP ++ z :: t')) ∧
      refSegs code (fuel + 1) r = ⟨g0, g1 + g2 + 3, translateCodon code x y z⟩ :: refSegs code fuel t') := by
  match r with
  | [] => left; simp [refSegs]
  | [_] => left; simp [refSegs]
  | [_, _] => left; simp [refSegs]
  | a :: b :: c :: t =>
    generalize hR : refSegs code fuel = R
    unfold refSegs
    split
    · rename_i hall
      simp only [Bool.and_eq_true, beq_iff_eq] at hall
      obtain ⟨⟨h1, h2⟩, h3⟩ := hall
      subst h1; subst h2; subst h3
      right; left
      exact ⟨t, rfl, by rw [hR]⟩
    · simp only []
      have s0 := skipGaps_spec 3 (a :: b :: c :: t)
      generalize skipGaps 3 (a :: b :: c :: t) = r0 at s0 ⊢
      obtain ⟨k0, q0⟩ := r0
      simp only at s0 ⊢
      match q0, s0 with
      | [], _ => left; rfl
      | x :: rest, s0 =>
        simp only []
        split
        · left; rfl
        · rename_i hrest
          have hx : x ≠ GAP := s0.2 x rest rfl (by simp; omega)
          have s1 := skipGaps_spec 2 rest
          generalize skipGaps 2 rest = r1 at s1 ⊢
          obtain ⟨k1, q1⟩ := r1
          simp only at s1 ⊢
          match q1, s1 with
          | [], _ => left; rfl
          | y :: rest2, s1 =>
            simp only []
            split
            · left; rfl
            · rename_i hrest2
              have hy : y ≠ GAP := s1.2 y rest2 rfl (by simp; omega)
              have s2 := skipGaps_spec 1 rest2
              generalize skipGaps 1 rest2 = r2 at s2 ⊢
              obtain ⟨k2, q2⟩ := r2
              simp only at s2 ⊢
              match q2, s2 with
              | [], _ => left; rfl
              | z :: t', s2 =>
                simp only []
                have hz : z ≠ GAP := s2.2 z t' rfl (by simp)
                right; right
                refine ⟨k0, k1, k2, x, y, z, t', hx, hy, hz, ?_, by rw [hR]⟩
                rw [s0.1]
                congr 2
                rw [s1.1]
                congr 2
                exact s2.1

/-- where an entry comes from: the columns `off … off + len − 1`; the reference holds `3 k` residues to the left
of them; the window of the reference is a codon (first and last column a residue, three residues in all: the entry
is what the loop body writes for its amino acid at position `k`) or three gaps (position `k − 1`) -/
def Justified (code : List (List Byte × Byte)) (s ref : Seq) (e : Byte × Int × List Byte) : Prop :=
  ∃ off len k : Nat,
    (ungap (ref.take off)).length = 3 * k ∧
    ((∃ g1 g2 x y z, x ≠ GAP ∧ y ≠ GAP ∧ z ≠ GAP ∧ len = g1 + g2 + 3 ∧
        (ref.drop off).take len = x :: (List.replicate g1 GAP ++ y :: (List.replicate g2 GAP ++ [z])) ∧
        e ∈ aaEntry code (translateCodon code x y z) false (k : Int) ((s.drop off).take len)) ∨
     (len = 3 ∧ (ref.drop off).take len = [GAP, GAP, GAP] ∧
        e ∈ aaEntry code GAP true ((k : Int) - 1) ((s.drop off).take len)))

theorem ungap_length_append (a b : Seq) : (ungap (a ++ b)).length = (ungap a).length + (ungap b).length := by
  rw [ungap_append, List.length_append]

theorem loop_justified (code : List (List Byte × Byte)) (s ref : Seq) :
    ∀ (fuel off k : Nat), (ungap (ref.take off)).length = 3 * k →
      ∀ e ∈ listMutAALoop code (refSegs code fuel (ref.drop off)) (s.drop off) (ref.drop off) (k : Int),
        Justified code s ref e := by
  intro fuel
  induction fuel with
  | zero => intro off k _ e he; simp [refSegs, listMutAALoop] at he
  | succ fuel ih =>
    intro off k hk e he
    rcases refSegs_step code fuel (ref.drop off) with h | ⟨t, hr, hs⟩ | ⟨g0, g1, g2, x, y, z, t', hx, hy, hz, hr, hs⟩
    · rw [h] at he; simp [listMutAALoop] at he
    · rw [hs] at he
      simp only [listMutAALoop, List.drop_zero] at he
      have hall : ((ref.drop off).take 3).all (· == GAP) = true := by rw [hr]; simp
      rw [hall] at he
      simp only [if_true] at he
      rcases List.mem_append.mp he with h1 | h2
      · refine ⟨off, 3, k, hk, Or.inr ⟨rfl, ?_, h1⟩⟩
        rw [hr]; simp
      · have hd : (ref.drop off).drop 3 = ref.drop (off + 3) := by rw [List.drop_drop]
        have hd' : (s.drop off).drop 3 = s.drop (off + 3) := by rw [List.drop_drop]
        have ht : t = ref.drop (off + 3) := by rw [← hd, hr]; rfl
        rw [hd, hd', ← ht, ht] at h2
        have e1 : (k : Int) - 1 + 1 = (k : Int) := by omega
        rw [e1] at h2
        apply ih (off + 3) k ?_ e h2
        rw [List.take_add, ungap_length_append, hk]
        have : List.take 3 (List.drop off ref) = [GAP, GAP, GAP] := by rw [hr]; simp
        rw [this]
        simp [ungap]
    · rw [hs] at he
      simp only [listMutAALoop] at he
      have hd0 : (ref.drop off).drop g0 = x :: (List.replicate g1 GAP ++ y :: (List.replicate g2 GAP ++ z :: t')) := by
        rw [hr]; exact List.drop_left' (by simp)
      have hw : ((ref.drop off).drop g0).take (g1 + g2 + 3) =
          x :: (List.replicate g1 GAP ++ y :: (List.replicate g2 GAP ++ [z])) := by
        rw [hd0]
        have : x :: (List.replicate g1 GAP ++ y :: (List.replicate g2 GAP ++ z :: t')) =
            (x :: (List.replicate g1 GAP ++ y :: (List.replicate g2 GAP ++ [z]))) ++ t' := by simp
        rw [this]
        exact List.take_left' (by simp; omega)
      have hnall : (((ref.drop off).drop g0).take (g1 + g2 + 3)).all (· == GAP) = false := by
        rw [hw]
        have : (x == GAP) = false := by simpa using hx
        simp [this]
      rw [hnall] at he
      simp only [Bool.false_eq_true, if_false] at he
      have hdd : (ref.drop off).drop g0 = ref.drop (off + g0) := by rw [List.drop_drop]
      have hdd' : (s.drop off).drop g0 = s.drop (off + g0) := by rw [List.drop_drop]
      have hpre : (ungap (ref.take (off + g0))).length = 3 * k := by
        rw [List.take_add, ungap_length_append, hk]
        have : List.take g0 (List.drop off ref) = List.replicate g0 GAP := by
          rw [hr]; exact List.take_left' (by simp)
        rw [this, ungap_replicate]; rfl
      rcases List.mem_append.mp he with h1 | h2
      · refine ⟨off + g0, g1 + g2 + 3, k, hpre, Or.inl ⟨g1, g2, x, y, z, hx, hy, hz, rfl, ?_, ?_⟩⟩
        · rw [← hdd]; exact hw
        · rw [← hdd']; exact h1
      · have hd : ((ref.drop off).drop g0).drop (g1 + g2 + 3) = ref.drop (off + g0 + (g1 + g2 + 3)) := by
          rw [List.drop_drop, List.drop_drop]; congr 1; omega
        have hd' : ((s.drop off).drop g0).drop (g1 + g2 + 3) = s.drop (off + g0 + (g1 + g2 + 3)) := by
          rw [List.drop_drop, List.drop_drop]; congr 1; omega
        have ht : t' = ref.drop (off + g0 + (g1 + g2 + 3)) := by
          rw [← hd, hd0]
          have : x :: (List.replicate g1 GAP ++ y :: (List.replicate g2 GAP ++ z :: t')) =
              (x :: (List.replicate g1 GAP ++ y :: (List.replicate g2 GAP ++ [z]))) ++ t' := by simp
          rw [this]
          exact (List.drop_left' (by simp; omega)).symm
        rw [hd, hd', ht] at h2
        have e1 : (k : Int) + 1 = ((k + 1 : Nat) : Int) := by omega
        rw [e1] at h2
        apply ih (off + g0 + (g1 + g2 + 3)) (k + 1) ?_ e h2
        rw [List.take_add, ungap_length_append, hpre, ← hdd, hw]
        rw [ungap_cons_ne x _ hx, ungap_replicate_append, ungap_cons_ne y _ hy, ungap_replicate_append,
          ungap_cons_ne z _ hz]
        simp [ungap]
        omega

/-- what the loop body writes: the reference amino acid, the position, and an alternative that is `-` (only gaps
in front of a reference codon), `/` (a number of residues that is not a multiple of 3) or the translation of the
query residues three by three, which is not the reference amino acid alone -/
theorem aaEntry_mem (code : List (List Byte × Byte)) (refaa : Byte) (ag : Bool) (pos : Int) (q : Seq)
    (e : Byte × Int × List Byte) (he : e ∈ aaEntry code refaa ag pos q) :
    e.1 = refaa ∧ e.2.1 = pos ∧
    ((e.2.2 = [GAP] ∧ ungap q = [] ∧ ag = false) ∨
     (e.2.2 = [47] ∧ (ungap q).length % 3 ≠ 0) ∨
     (e.2.2 = codonsFrom code (ungap q) ∧ ungap q ≠ [] ∧ (ungap q).length % 3 = 0 ∧ e.2.2 ≠ [refaa])) := by
  unfold aaEntry at he
  simp only [] at he
  have hu : q.filter (· != GAP) = ungap q := rfl
  rw [hu] at he
  split at he
  · rename_i h0
    have h0' : ungap q = [] := List.eq_nil_of_length_eq_zero (by simpa using h0)
    split at he
    · simp at he
    · rename_i hag
      simp only [List.mem_singleton] at he
      subst he
      exact ⟨rfl, rfl, Or.inl ⟨rfl, h0', by simpa using hag⟩⟩
  · rename_i h0
    split at he
    · rename_i h3
      simp only [List.mem_singleton] at he
      subst he
      exact ⟨rfl, rfl, Or.inr (Or.inl ⟨rfl, by simpa using h3⟩)⟩
    · rename_i h3
      split at he
      · rename_i hd
        simp only [List.mem_singleton] at he
        subst he
        refine ⟨rfl, rfl, Or.inr (Or.inr ⟨rfl, ?_, by simpa using h3, ?_⟩)⟩
        · intro hn; rw [hn] at h0; simp at h0
        · intro heq
          simp only at heq
          rw [heq] at hd
          simp at hd
      · simp at he

end Gv.Proofs.StatsMutAA
