import Gv.Proofs.SitesLists
/-!
C04: `Transpose` applied twice, the well-formedness of the partition table under `AddRange`, and the
re-interleaving of the blocks produced by `Split`.
-/
namespace Gv.Proofs.SitesSplit
open Gv Gv.Model Gv.Spec.Sites Gv.Proofs.SitesLists

theorem rect_length {rows : SRows} {L : Int} (hr : Rect rows L) {r : String × Seq} (h : r ∈ rows) :
    (r.2.length : Int) = L := by
  rcases hr with ⟨e, _⟩ | ⟨_, _, hl⟩
  · subst e; simp at h
  · exact hl r h

/-! ### Transpose -/

theorem transpose_length (rows : SRows) (L : Int) : (transpose rows L).length = L.toNat := by
  simp [transpose]

theorem lenOf_transpose (rows : SRows) (L : Int) :
    lenOf (transpose rows L) = if 0 < L then (rows.length : Int) else -1 := by
  unfold transpose
  by_cases h : 0 < L
  · have : L.toNat = (L.toNat - 1) + 1 := by omega
    rw [this, List.range_succ_eq_map]
    simp [lenOf, h]
  · have : L.toNat = 0 := by omega
    simp [this, lenOf, h]

/-- every row of the transposed alignment is one column, named by its index -/
theorem transpose_row (rows : SRows) (L : Int) (j : Nat) (hj : j < L.toNat) :
    (transpose rows L)[j]? = some (toString j, rows.map fun r => r.2.getD j 0) := by
  simp [transpose, hj]

theorem transpose_rect (rows : SRows) (L : Int) (hL : 0 < L) :
    Rect (transpose rows L) (rows.length : Int) := by
  right
  refine ⟨?_, by omega, ?_⟩
  · intro e
    have := transpose_length rows L
    rw [e] at this; simp at this; omega
  · intro r hr
    simp only [transpose, List.mem_map, List.mem_range] at hr
    obtain ⟨j, _, rfl⟩ := hr
    simp

/-- transposing twice, closed form -/
theorem transpose_transpose_eq (rows : SRows) (L : Int) (hr : Rect rows L) (hL : 0 < L) :
    transpose (transpose rows L) (lenOf (transpose rows L)) =
      (List.range rows.length).map fun i => (toString i, (rows.getD i ("", [])).2) := by
  rw [lenOf_transpose, if_pos hL]
  unfold transpose
  simp only [Int.toNat_natCast]
  apply List.map_congr_left
  intro i hi
  simp only [List.mem_range] at hi
  congr 1
  rw [List.map_map]
  have hlen : (rows.getD i ("", [])).2.length = L.toNat := by
    have hm : rows.getD i ("", []) ∈ rows := by
      rw [List.getD_eq_getElem?_getD, List.getElem?_eq_getElem hi]; simp
    have := rect_length hr hm
    omega
  rw [← hlen]
  conv => rhs; rw [← map_getD_range (rows.getD i ("", [])).2 0]
  apply List.map_congr_left
  intro j _
  simp only [Function.comp]
  rw [List.getD_eq_getElem?_getD, List.getElem?_map, List.getD_eq_getElem?_getD (l := rows), List.getElem?_eq_getElem hi]
  simp

theorem transpose_transpose_empty (rows : SRows) (L : Int) (hL : L ≤ 0) :
    transpose (transpose rows L) (lenOf (transpose rows L)) = [] := by
  rw [lenOf_transpose, if_neg (by omega)]
  simp [transpose]

/-! ### AddRange keeps the table well formed -/

theorem addRangeLoop_inv (idx stop modulo : Int) (n : Int) (hidx : 0 ≤ idx ∧ idx < n) :
    ∀ (fuel : Nat) (i : Int) (parts : List Int), (∀ p ∈ parts, p = -1 ∨ (0 ≤ p ∧ p < n)) →
      (addRangeLoop idx stop modulo fuel i parts).1.length = parts.length ∧
      ∀ p ∈ (addRangeLoop idx stop modulo fuel i parts).1, p = -1 ∨ (0 ≤ p ∧ p < n) := by
  intro fuel
  induction fuel with
  | zero => intro i parts h; simp [addRangeLoop]; exact h
  | succ f ih =>
    intro i parts h
    have hset : ∀ p ∈ parts.set i.toNat idx, p = -1 ∨ (0 ≤ p ∧ p < n) := by
      intro p hp
      rcases List.mem_or_eq_of_mem_set hp with hp | hp
      · exact h p hp
      · subst hp; exact Or.inr hidx
    simp only [addRangeLoop]
    split
    · exact ⟨rfl, h⟩
    · split
      · exact ⟨rfl, h⟩
      · split
        · exact ⟨rfl, h⟩
        · split
          · exact ⟨by simp, hset⟩
          · have := ih (i + modulo) (parts.set i.toNat idx) hset
            exact ⟨by rw [this.1]; simp, this.2⟩

theorem newPartSet_inv (L : Int) : PartInv (newPartSet L) := by
  refine ⟨by simp [newPartSet], ?_⟩
  intro p hp
  simp only [newPartSet, List.mem_replicate] at hp
  exact Or.inl hp.2

theorem addRange_inv (ps : PartSet) (h : PartInv ps) (name : String) (start stop modulo : Int) :
    PartInv (addRange ps name start stop modulo).1 := by
  unfold addRange
  split
  · exact h
  · split
    · exact h
    · split
      · exact h
      · split
        · exact h
        · cases hfi : ps.names.findIdx? (· == name) with
          | some i =>
            simp only []
            have hi : i < ps.names.length := by
              have := List.findIdx?_eq_some_iff_findIdx_eq.mp hfi
              exact this.1
            have := addRangeLoop_inv (i : Int) stop modulo (ps.names.length : Int) ⟨by omega, by omega⟩
              (ps.parts.length + 1) start ps.parts h.2
            exact ⟨by simp only []; rw [this.1]; exact h.1, this.2⟩
          | none =>
            simp only []
            have h2 : ∀ p ∈ ps.parts, p = -1 ∨ (0 ≤ p ∧ p < ((ps.names ++ [name]).length : Int)) := by
              intro p hp
              rcases h.2 p hp with e | e
              · exact Or.inl e
              · right; simp; omega
            have := addRangeLoop_inv (ps.names.length : Int) stop modulo ((ps.names ++ [name]).length : Int)
              ⟨by omega, by simp; omega⟩ (ps.parts.length + 1) start ps.parts h2
            exact ⟨by simp only []; rw [this.1]; exact h.1, this.2⟩

/-! ### Split -/

/-- the sites of partition `pi`, in increasing order -/
def colsOf (parts : List Int) (pi : Nat) : List Nat :=
  (List.range parts.length).filter fun (pos : Nat) => parts.getD pos (-1) == Int.ofNat pi

theorem split_eval (rows : SRows) (L : Int) (ps : PartSet) (blocks : List SRows)
    (h : split rows L ps = .ok blocks) :
    1 < ps.names.length ∧ ps.length = L ∧
    blocks = (List.range ps.names.length).map fun (pi : Nat) =>
      if (colsOf ps.parts pi).isEmpty then [] else rows.map fun r => (r.1, (colsOf ps.parts pi).map fun j => r.2.getD j 0) := by
  unfold split at h
  split at h
  · cases h
  · split at h
    · cases h
    · rename_i h1 h2
      simp only [Out.ok.injEq] at h
      refine ⟨by omega, by simpa using h2, ?_⟩
      rw [← h]; rfl

/-- the row of sequence `ri` inside block `pi` is the selection of that partition's sites -/
theorem block_row (rows : SRows) (parts : List Int) (n pi ri : Nat) (hpi : pi < n) (hri : ri < rows.length) :
    (((List.range n).map fun (pi : Nat) =>
        if (colsOf parts pi).isEmpty then ([] : SRows) else rows.map fun r => (r.1, (colsOf parts pi).map fun j => r.2.getD j 0)).map
      (fun b => (b.getD ri ("", [])).2)).getD pi [] = (colsOf parts pi).map fun j => (rows[ri]).2.getD j 0 := by
  rw [List.getD_eq_getElem?_getD, List.map_map, List.getElem?_map, List.getElem?_range hpi]
  simp only [Option.map_some, Option.getD_some, Function.comp]
  by_cases he : (colsOf parts pi).isEmpty
  · have : colsOf parts pi = [] := by simpa using he
    simp [this]
  · simp only [he, Bool.false_eq_true, if_false]
    rw [List.getD_eq_getElem?_getD, List.getElem?_map, List.getElem?_eq_getElem hri]
    simp

/-- **re-interleaving one row**: with a total, well-formed partition table the blocks give the row back -/
theorem reinterleave_row (rows : SRows) (parts : List Int) (n ri : Nat) (hri : ri < rows.length)
    (hlen : (rows[ri]).2.length = parts.length)
    (htot : ∀ p ∈ parts, 0 ≤ p ∧ p < (n : Int)) :
    reinterleaveSeq parts (((List.range n).map fun (pi : Nat) =>
        if (colsOf parts pi).isEmpty then ([] : SRows) else rows.map fun r => (r.1, (colsOf parts pi).map fun j => r.2.getD j 0)).map
      (fun b => (b.getD ri ("", [])).2)) = (rows[ri]).2 := by
  unfold reinterleaveSeq
  conv => rhs; rw [← map_getD_range (rows[ri]).2 0, hlen]
  apply List.map_congr_left
  intro j hj
  simp only [List.mem_range] at hj
  have hp : parts.getD j (-1) = parts[j] := by
    rw [List.getD_eq_getElem?_getD, List.getElem?_eq_getElem hj]; rfl
  have hb := htot parts[j] (List.getElem_mem hj)
  rw [hp]
  rw [block_row rows parts n parts[j].toNat ri (by omega) hri]
  have hof : Int.ofNat parts[j].toNat = parts[j] := by simp; omega
  have key := filter_range_index (fun (pos : Nat) => parts.getD pos (-1) == Int.ofNat parts[j].toNat)
    parts.length j hj (by rw [hp, hof]; exact beq_self_eq_true _)
  have hr : rank parts j = ((List.range j).filter fun (pos : Nat) => parts.getD pos (-1) == Int.ofNat parts[j].toNat).length := by
    unfold rank; rw [hp, hof]
  rw [List.getD_eq_getElem?_getD, List.getElem?_map, hr]
  unfold colsOf
  rw [key]; rfl

theorem split_reinterleave (rows : SRows) (L : Int) (ps : PartSet) (blocks : List SRows)
    (hr : Rect rows L) (hinv : PartInv ps) (htot : ∀ p ∈ ps.parts, p ≠ -1)
    (h : split rows L ps = .ok blocks) :
    blocks.length = ps.names.length ∧
    (∀ b ∈ blocks, b = [] ∨ b.map Prod.fst = rows.map Prod.fst) ∧
    (∀ (ri : Nat) (hri : ri < rows.length),
      reinterleaveSeq ps.parts (blocks.map fun b => (b.getD ri ("", [])).2) = (rows[ri]).2) := by
  obtain ⟨_, hlen, hb⟩ := split_eval rows L ps blocks h
  subst hb
  refine ⟨by simp, ?_, ?_⟩
  · intro b hb
    simp only [List.mem_map, List.mem_range] at hb
    obtain ⟨pi, _, rfl⟩ := hb
    split
    · exact Or.inl rfl
    · right; simp [List.map_map, Function.comp_def]
  · intro ri hri
    apply reinterleave_row rows ps.parts ps.names.length ri hri
    · have := rect_length hr (List.getElem_mem hri)
      have := hinv.1
      omega
    · intro p hp
      rcases hinv.2 p hp with e | e
      · exact absurd e (htot p hp)
      · exact e

/-- whole-alignment form: rebuilding every row from the blocks gives the alignment back -/
theorem split_reinterleave_all (rows : SRows) (L : Int) (ps : PartSet) (blocks : List SRows)
    (hr : Rect rows L) (hinv : PartInv ps) (htot : ∀ p ∈ ps.parts, p ≠ -1)
    (h : split rows L ps = .ok blocks) :
    ((List.range rows.length).map fun ri =>
      ((rows.getD ri ("", [])).1, reinterleaveSeq ps.parts (blocks.map fun b => (b.getD ri ("", [])).2))) = rows := by
  obtain ⟨_, _, h3⟩ := split_reinterleave rows L ps blocks hr hinv htot h
  apply List.ext_getElem
  · simp
  · intro i h1 h2
    simp only [List.getElem_map, List.getElem_range]
    rw [h3 i h2, List.getD_eq_getElem?_getD, List.getElem?_eq_getElem h2]
    rfl

end Gv.Proofs.SitesSplit
