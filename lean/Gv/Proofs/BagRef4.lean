import Gv.Proofs.BagRef3
/-! Refinement, operation by operation (C01), part 4: `Sample`, `TrimNames`, `TrimNamesAuto`. -/
namespace Gv.Proofs.BagAbs
open Gv Gv.Model Gv.Spec Gv.Proofs.BagInv

/-! ### `Sample` -/

theorem nodup_filterMap_getElem {α β : Type} (f : α → β) (xs : List α) (hx : (xs.map f).Nodup) (idxs : List Nat)
    (hi : idxs.Nodup) : ((idxs.filterMap fun i => xs[i]?).map f).Nodup := by
  induction idxs with
  | nil => simp
  | cons i t ih =>
    simp only [List.nodup_cons] at hi
    simp only [List.filterMap_cons]
    cases hxi : xs[i]? with
    | none => exact ih hi.2
    | some x =>
      simp only [List.map_cons, List.nodup_cons]
      refine ⟨?_, ih hi.2⟩
      intro hmem
      obtain ⟨y, hy, hfy⟩ := List.mem_map.mp hmem
      obtain ⟨j, hj, hxj⟩ := List.mem_filterMap.mp hy
      obtain ⟨hil, hiv⟩ := List.getElem?_eq_some_iff.mp hxi
      obtain ⟨hjl, hjv⟩ := List.getElem?_eq_some_iff.mp hxj
      have h1 : (xs.map f)[i]'(by simpa using hil) = (xs.map f)[j]'(by simpa using hjl) := by
        simp [hiv, hjv, hfy]
      have := (List.getElem_inj hx).mp h1
      exact hi.1 (this ▸ hj)

theorem ref_sample {b : Bag} (h : Good b) (nb : Int) (perm : List Nat) (hp : IsPerm perm b.rows.length) :
    Refines b (.sample nb perm) := by
  intro s' st e
  simp only [Spec.stepOp, abs_rows, pairs, List.length_map] at e
  simp only [Model.stepOp]
  by_cases c1 : (decide ((b.rows.length : Int) < nb) || decide (nb < 1)) = true
  · have hv : sample nb perm b = none := by unfold sample; rw [if_pos c1]
    rw [if_pos c1] at e
    simp only [Prod.mk.injEq, Option.some.injEq] at e
    rw [hv]
    exact ⟨e.1, e.2, h⟩
  · rw [if_neg c1] at e
    split at e
    · simp at e
    · rename_i hnd
      have hnd' : (b.rows.map (·.name)).Nodup := by
        have : (abs b).names.Nodup := by simpa using hnd
        exact nodup_names_of_abs this
      simp only [Prod.mk.injEq, Option.some.injEq] at e
      obtain ⟨e1, e2⟩ := e
      subst e1 e2
      have hpn : (perm.take nb.toNat).Nodup := by
        have : perm.Nodup := hp.nodup_iff.mpr List.nodup_range
        exact (List.take_sublist _ _).nodup this
      have hnames := nodup_filterMap_getElem (·.name) b.rows hnd' (perm.take nb.toNat) hpn
      obtain ⟨s, -, hrun, k1, k2, k3, k4, k5⟩ := rebuild_into (newBag b.alphabet) rfl rfl
        (((perm.take nb.toNat).filterMap fun i => b.rows[i]?).map fun r => (r.name, r.seq))
        (by rw [names_pairs_map]; exact hnames) (by intro hh; cases hh)
      have k2' : s.rows.map (fun r => (r.name, r.seq)) =
          ((perm.take nb.toNat).filterMap fun i => b.rows[i]?).map fun r => (r.name, r.seq) := k2
      have hrows : ((perm.take nb.toNat).filterMap fun i => (b.rows.map fun r => (r.name, r.seq))[i]?) =
          ((perm.take nb.toNat).filterMap fun i => b.rows[i]?).map fun r => (r.name, r.seq) := by
        rw [List.map_filterMap]
        congr 1
        funext i
        simp [List.getElem?_map]
      by_cases ha : b.isAlign = true
      · -- every chosen row has the alignment's length: `seqBagToAlignment` succeeds
        have hlens : ∀ r ∈ s.rows, (r.seq.length : Int) = b.length := by
          intro r hr
          have : (r.name, r.seq) ∈ s.rows.map (fun r => (r.name, r.seq)) := List.mem_map_of_mem hr
          rw [k2'] at this
          obtain ⟨r0, hr0, e0⟩ := List.mem_map.mp this
          obtain ⟨j, _, hj⟩ := List.mem_filterMap.mp hr0
          have hmem : r0 ∈ b.rows := List.mem_of_getElem? hj
          have := h.rect.rows_len ha r0 hmem
          simp only [Prod.mk.injEq] at e0
          rw [← e0.2]; exact this
        have hfirst : ∀ r ∈ s.rows, (r.seq.length : Int) = firstLen s.rows := by
          intro r hr
          cases hs : s.rows with
          | nil => rw [hs] at hr; cases hr
          | cons x t =>
            simp only [firstLen]
            rw [hlens r hr, hlens x (by simp [hs])]
        have hto : seqBagToAlignment s =
            some { s with alphabet := (newAlign s.alphabet).alphabet, isAlign := true, length := firstLen s.rows } := by
          unfold seqBagToAlignment
          rw [if_neg]
          simp only [List.any_eq_true, bne_iff_ne, ne_eq, not_exists, not_and, Decidable.not_not]
          exact hfirst
        have hv : sample nb perm b =
            some { s with alphabet := (newAlign s.alphabet).alphabet, isAlign := true, length := firstLen s.rows } := by
          unfold sample; rw [if_neg c1]; simp only [ha, if_true]; rw [hrun]; exact hto
        have hrect := rect_sample nb perm b _ hv
        rw [hv]
        refine ⟨?_, rfl, good_of_gi (k1.congr rfl rfl rfl) hrect ?_⟩
        · have k3' : s.policy = 0 := k3
          have k4' : s.alphabet = b.alphabet := k4
          simp only [abs, pairs, k2', k3', k4', hrows, ha, Bool.true_and, newAlign]
        · intro _
          simp only [newAlign]
          split <;> simp_all [BOTH, NUCLEOTIDS]
      · have ha' : b.isAlign = false := by simpa using ha
        have hv : sample nb perm b = some s := by
          unfold sample; rw [if_neg c1]; simp only [ha', Bool.false_eq_true, if_false]; rw [hrun]
        have hrect := rect_sample nb perm b _ hv
        rw [hv]
        have k5' : s.isAlign = false := k5
        refine ⟨?_, rfl, good_of_gi k1 hrect (by intro hh; rw [k5'] at hh; cases hh)⟩
        have k3' : s.policy = 0 := k3
        have k4' : s.alphabet = b.alphabet := k4
        simp only [abs, pairs, k2', k3', k4', k5', hrows, ha', Bool.false_and, Bool.false_eq_true, if_false]

/-! ### `TrimNames` / `TrimNamesAuto`: the loops never look at the row ids -/

def pr (r : Row) : String × Seq := (r.name, r.seq)

theorem pr_eq {r1 r2 : Row} (h : pr r1 = pr r2) : r1.name = r2.name ∧ r1.seq = r2.seq := by
  simpa [pr] using h

theorem trimAutoLoop_pairs (l1 l2 : List Row) (nm : List (String × String)) (cur len : Nat) (acc1 acc2 : List Row)
    (hl : l1.map pr = l2.map pr) (ha : acc1.map pr = acc2.map pr) :
    (trimAutoLoop l1 nm cur len acc1).1.map pr = (trimAutoLoop l2 nm cur len acc2).1.map pr ∧
    (trimAutoLoop l1 nm cur len acc1).2 = (trimAutoLoop l2 nm cur len acc2).2 := by
  induction l1 generalizing l2 nm cur len acc1 acc2 with
  | nil =>
    cases l2 with
    | nil => simp [trimAutoLoop, ha]
    | cons _ _ => simp at hl
  | cons r1 t1 ih =>
    cases l2 with
    | nil => simp at hl
    | cons r2 t2 =>
      simp only [List.map_cons, List.cons.injEq] at hl
      obtain ⟨hn, hs⟩ := pr_eq hl.1
      simp only [trimAutoLoop, hn]
      split
      · apply ih _ _ _ _ _ _ hl.2
        simp [pr, ha, hs]
      · apply ih _ _ _ _ _ _ hl.2
        simp [pr, ha, hs]

theorem trimNamesLoop_pairs (size : Int) (l1 l2 : List Row) (nm : List (String × String)) (short : List String)
    (acc1 acc2 : List Row) (hl : l1.map pr = l2.map pr) (ha : acc1.map pr = acc2.map pr) :
    (trimNamesLoop size l1 nm short acc1).1.map pr = (trimNamesLoop size l2 nm short acc2).1.map pr ∧
    (trimNamesLoop size l1 nm short acc1).2 = (trimNamesLoop size l2 nm short acc2).2 := by
  induction l1 generalizing l2 nm short acc1 acc2 with
  | nil =>
    cases l2 with
    | nil => simp [trimNamesLoop, ha]
    | cons _ _ => simp at hl
  | cons r1 t1 ih =>
    cases l2 with
    | nil => simp at hl
    | cons r2 t2 =>
      have hl' := hl
      simp only [List.map_cons, List.cons.injEq] at hl
      obtain ⟨hn, hs⟩ := pr_eq hl.1
      simp only [trimNamesLoop, hn]
      split
      · apply ih _ _ _ _ _ hl.2
        simp [pr, ha, hs]
      · split
        · simp only [List.map_append, List.map_reverse, ha, hl', and_true]
        · apply ih _ _ _ _ _ hl.2
          simp [pr, ha, hs]

theorem zipIdx_rows_pairs (l : List (String × Seq)) (k : Nat) :
    ((l.zipIdx k).map fun (r, i) => (⟨i, r.1, r.2⟩ : Row)).map pr = l := by
  induction l generalizing k with
  | nil => rfl
  | cons x t ih => simp only [List.zipIdx_cons, List.map_cons, ih]; rfl

theorem ref_trimAuto {b : Bag} (h : Good b) (cur : Nat) : Refines b (.trimAuto cur) := by
  intro s' st e
  have hpairs : ((((abs b).rows.zipIdx).map fun (r, i) => (⟨i, r.1, r.2⟩ : Row))).map pr = b.rows.map pr := by
    rw [zipIdx_rows_pairs]; rfl
  have hlen : (((abs b).rows.zipIdx).map fun (r, i) => (⟨i, r.1, r.2⟩ : Row)).length = b.rows.length := by
    simp [pairs]
  obtain ⟨g1, g2⟩ := trimAutoLoop_pairs _ _ [] cur (ceilLog10 (b.rows.length + 1)) [] [] hpairs rfl
  simp only [Spec.stepOp, Prod.mk.injEq, Option.some.injEq] at e
  rw [hlen] at e
  obtain ⟨e1, e2⟩ := e
  subst e1 e2
  simp only [Model.stepOp, trimNamesAuto]
  refine ⟨?_, ?_, ⟨inv_trimNamesAuto cur b h.inv, idxFirst_rebuild _ _, rect_trimNamesAuto cur h.rect, h.alpha.congr rfl rfl⟩⟩
  · simp only [abs]
    congr 1
    exact g1.symm
  · rw [g2]

/-- `math.Pow10(size-2) < float64(n)` -/
def TooSmall (size : Int) (n : Nat) : Prop := if size - 2 < 0 then n ≥ 1 else 10 ^ (size - 2).toNat < n

theorem trimNames_small {size : Int} {b : Bag} (hc : TooSmall size b.rows.length) : trimNames size b = (b, true) := by
  unfold trimNames; simp only []; exact if_pos hc

theorem trimNames_large {size : Int} {b : Bag} (hc : ¬ TooSmall size b.rows.length) :
    trimNames size b = ({ b with rows := (trimNamesLoop size b.rows [] [] []).1,
                                 index := rebuildIndex (trimNamesLoop size b.rows [] [] []).1 },
                        (trimNamesLoop size b.rows [] [] []).2) := by
  unfold trimNames; simp only []; exact if_neg hc

theorem ref_trimNames {b : Bag} (h : Good b) (size : Int) : Refines b (.trimNames size) := by
  intro s' st e
  have hpairs : ((((abs b).rows.zipIdx).map fun (r, i) => (⟨i, r.1, r.2⟩ : Row))).map pr = b.rows.map pr := by
    rw [zipIdx_rows_pairs]; rfl
  have hlen : (((abs b).rows.zipIdx).map fun (r, i) => (⟨i, r.1, r.2⟩ : Row)).length = b.rows.length := by
    simp [pairs]
  obtain ⟨g1, g2⟩ := trimNamesLoop_pairs size _ _ [] [] [] [] hpairs rfl
  simp only [Spec.stepOp] at e
  rw [hlen] at e
  simp only [Model.stepOp]
  by_cases hc : TooSmall size b.rows.length
  · rw [trimNames_small hc]
    have e' : (some (abs b), "err") = (some s', st) := by
      have := if_pos (c := TooSmall size b.rows.length) hc ▸ e
      exact this
    simp only [Prod.mk.injEq, Option.some.injEq] at e'
    exact ⟨e'.1, by simpa using e'.2, h⟩
  · have hgood : Good (trimNames size b).1 := by
      have hi := inv_trimNames size b h.inv
      have hr := rect_trimNames size h.rect
      rw [trimNames_large hc] at hi hr ⊢
      exact ⟨hi, idxFirst_rebuild _ _, hr, h.alpha.congr rfl rfl⟩
    rw [trimNames_large hc] at hgood ⊢
    have e' := (if_neg (c := TooSmall size b.rows.length) hc ▸ e)
    rw [g2] at e'
    split at e'
    · simp at e'
    · rename_i hr
      simp only [Prod.mk.injEq, Option.some.injEq] at e'
      refine ⟨?_, ?_, hgood⟩
      · rw [← e'.1]
        simp only [abs]
        congr 1
        exact g1.symm
      · rw [← e'.2]; simp [hr]

end Gv.Proofs.BagAbs
