import Gv.Model.Seq
import Gv.Spec.Genetic
/-! Finite core of C05: all representative codons × 3 codes by kernel evaluation (kept in its own
module so that it is rebuilt only when the regenerated tables or the model change). -/
namespace Gv.Proofs.CodonCore
open Gv Gv.Model
set_option maxRecDepth 100000

/-- the table selected by each genetic-code constant -/
def tbl (code : Nat) : List (List Byte × Byte) :=
  if code = 0 then Gen.standardcode else if code = 1 then Gen.vertebratemitocode else Gen.invertebratemitocode

/-- canonical representative of a byte for codon translation: its folded form when that is an
IUPAC key of the Go table, else 0 -/
def rep (a : Byte) : Byte := if (lookup (fixNt a) Gen.IupacCode).isSome then fixNt a else 0

/-- the 17 representatives -/
def reps : List Byte := 0 :: Gen.IupacCode.map Prod.fst

theorem rep_mem : ∀ a : Byte, rep a ∈ reps := by decide
theorem rep_lookup : ∀ a : Byte,
    lookup (fixNt (rep a)) Gen.IupacCode = lookup (fixNt a) Gen.IupacCode := by decide
theorem rep_spec : ∀ a : Byte,
    Spec.iupacSet (rep a) = Spec.iupacSet a ∧ (rep a = 45 ↔ a = 45) := by decide

end Gv.Proofs.CodonCore
