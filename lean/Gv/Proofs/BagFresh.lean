import Gv.Proofs.BagAbs
/-!
The `_%04d` renaming loop of `AddSequenceChar` (C01): the model searches among the *index keys* with
fuel `|index| + 1`, the reference among the *row names* with fuel `|names| + 1`.  Both return the first
free candidate: the candidates are pairwise distinct (`fmt04` is injective), so by the pigeonhole
principle a free one exists within either fuel, and the fuel is irrelevant.
-/
namespace Gv.Proofs.BagFresh
open Gv Gv.Model Gv.Proofs.BagInv Gv.Proofs.BagAbs

theorem fmt04_val (n : Nat) : Nat.ofDigitChars 10 (fmt04 n).toList 0 = n := by
  unfold fmt04
  simp only [String.toList_append, String.toList_ofList, Nat.ofDigitChars_append,
    Nat.ofDigitChars_replicate_zero, Nat.mul_zero]
  show Nat.ofDigitChars 10 (Nat.repr n).toList 0 = n
  rw [Nat.toList_repr, Nat.ofDigitChars_ten_toDigits]

theorem fmt04_inj {a b : Nat} (h : fmt04 a = fmt04 b) : a = b := by
  rw [← fmt04_val a, ← fmt04_val b, h]

def cand (name : String) (k : Nat) : String := name ++ "_" ++ fmt04 k

theorem cand_inj (name : String) {a b : Nat} (h : cand name a = cand name b) : a = b := by
  apply fmt04_inj
  have := congrArg String.toList h
  simp only [cand, String.toList_append] at this
  have := List.append_cancel_left this
  exact String.toList_inj.mp this

/-- the search loop, generic in the "is taken" test -/
def search (taken : String → Bool) (name : String) : Nat → Nat → String
  | 0, k => cand name k
  | fuel + 1, k => if taken (cand name k) then search taken name fuel (k + 1) else cand name k

theorem model_freshSuffix (idx : List (String × Nat)) (name : String) (f k : Nat) :
    Model.freshSuffix idx name f k = search (fun c => (idxLookup c idx).isSome) name f k := by
  induction f generalizing k with
  | zero => rfl
  | succ f ih => simp only [Model.freshSuffix, search, cand, ih]; rfl

theorem spec_freshSuffix (names : List String) (name : String) (f k : Nat) :
    Spec.freshSuffix names name f k = search (fun c => names.contains c) name f k := by
  induction f generalizing k with
  | zero => rfl
  | succ f ih => simp only [Spec.freshSuffix, search, cand, ih]; rfl

/-- with a free candidate within reach, more fuel changes nothing -/
theorem search_fuel (taken : String → Bool) (name : String) (f1 f2 k : Nat) (hle : f1 ≤ f2)
    (hw : ∃ k', k ≤ k' ∧ k' < k + f1 ∧ taken (cand name k') = false) :
    search taken name f1 k = search taken name f2 k := by
  induction f1 generalizing k f2 with
  | zero => obtain ⟨k', h1, h2, _⟩ := hw; omega
  | succ f1 ih =>
    obtain ⟨k', h1, h2, h3⟩ := hw
    cases f2 with
    | zero => omega
    | succ f2 =>
      simp only [search]
      by_cases ht : taken (cand name k) = true
      · simp only [ht, if_true]
        apply ih _ _ (by omega)
        refine ⟨k', ?_, by omega, h3⟩
        by_cases e : k' = k
        · subst e; rw [ht] at h3; cases h3
        · omega
      · simp [ht]

/-- … and the result is free -/
theorem search_free (taken : String → Bool) (name : String) (f k : Nat)
    (hw : ∃ k', k ≤ k' ∧ k' < k + f ∧ taken (cand name k') = false) :
    taken (search taken name f k) = false := by
  induction f generalizing k with
  | zero => obtain ⟨k', h1, h2, _⟩ := hw; omega
  | succ f ih =>
    obtain ⟨k', h1, h2, h3⟩ := hw
    simp only [search]
    by_cases ht : taken (cand name k) = true
    · simp only [ht, if_true]
      apply ih
      refine ⟨k', ?_, by omega, h3⟩
      by_cases e : k' = k
      · subst e; rw [ht] at h3; cases h3
      · omega
    · simp only [ht]
      simpa using ht

/-- pigeonhole: among `|l| + 1` consecutive candidates one is not in `l` -/
theorem exists_free (l : List String) (name : String) (k : Nat) :
    ∃ k', k ≤ k' ∧ k' < k + (l.length + 1) ∧ cand name k' ∉ l := by
  apply Classical.byContradiction
  intro hno
  have hall : ∀ k', k ≤ k' → k' < k + (l.length + 1) → cand name k' ∈ l := by
    intro k' h1 h2
    apply Classical.byContradiction
    intro hn; exact hno ⟨k', h1, h2, hn⟩
  let cs := (List.range' k (l.length + 1)).map (cand name)
  have hnd : cs.Nodup :=
    List.Pairwise.map (cand name) (fun a b hab e => hab (cand_inj name e)) (List.nodup_range' (step := 1) (by omega))
  have hsub : cs ⊆ l := by
    intro c hc
    obtain ⟨k', hk, rfl⟩ := List.mem_map.mp hc
    have := List.mem_range'_1.mp hk
    exact hall k' this.1 this.2
  have := hnd.length_le_of_subset hsub
  simp [cs] at this
  omega

theorem idxLookup_isSome_iff (c : String) (idx : List (String × Nat)) :
    (idxLookup c idx).isSome = true ↔ c ∈ idx.map Prod.fst := by
  induction idx with
  | nil => simp [idxLookup]
  | cons p t ih =>
    obtain ⟨k, v⟩ := p
    by_cases h : c = k
    · subst h; simp [idxLookup]
    · have h' : (c == k) = false := by simpa using h
      simp [idxLookup, h', ih, h]

/-- the model's renaming loop never runs out of fuel: its result is not an index key -/
theorem freshName_free (idx : List (String × Nat)) (name : String) :
    idxLookup (Model.freshName idx name) idx = none := by
  unfold Model.freshName
  split
  · rw [model_freshSuffix]
    have hw : ∃ k', 1 ≤ k' ∧ k' < 1 + (idx.length + 1) ∧
        (fun c => (idxLookup c idx).isSome) (cand name k') = false := by
      obtain ⟨k', h1, h2, h3⟩ := exists_free (idx.map Prod.fst) name 1
      refine ⟨k', h1, by simpa using h2, ?_⟩
      have := mt (idxLookup_isSome_iff (cand name k') idx).mp h3
      simpa using this
    have := search_free (fun c => (idxLookup c idx).isSome) name (idx.length + 1) 1 hw
    simpa using this
  · rename_i h; simpa using h

/-- **the model's fresh name (index keys, fuel `|index|+1`) is the reference's (row names, fuel
`|names|+1`)** whenever index keys and row names are the same set -/
theorem freshName_eq (idx : List (String × Nat)) (names : List String)
    (hx : ∀ c, (idxLookup c idx).isSome = names.contains c) (name : String) :
    Model.freshName idx name = Spec.freshName names name := by
  unfold Model.freshName Spec.freshName
  rw [hx name]
  split
  · rw [model_freshSuffix, spec_freshSuffix]
    have hfun : (fun c => (idxLookup c idx).isSome) = (fun c => names.contains c) := funext hx
    rw [hfun]
    have hw1 : ∃ k', 1 ≤ k' ∧ k' < 1 + (idx.length + 1) ∧ (fun c => names.contains c) (cand name k') = false := by
      obtain ⟨k', h1, h2, h3⟩ := exists_free (idx.map Prod.fst) name 1
      refine ⟨k', h1, by simpa using h2, ?_⟩
      have := mt (idxLookup_isSome_iff (cand name k') idx).mp h3
      rw [hx] at this
      simpa using this
    have hw2 : ∃ k', 1 ≤ k' ∧ k' < 1 + (names.length + 1) ∧ (fun c => names.contains c) (cand name k') = false := by
      obtain ⟨k', h1, h2, h3⟩ := exists_free names name 1
      exact ⟨k', h1, h2, by simpa using h3⟩
    rcases Nat.le_total (idx.length + 1) (names.length + 1) with hle | hle
    · exact search_fuel _ name _ _ 1 hle hw1
    · exact (search_fuel _ name _ _ 1 hle hw2).symm
  · rfl

end Gv.Proofs.BagFresh
