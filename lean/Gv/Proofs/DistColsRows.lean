import Gv.Proofs.DistColsRev
/-!
Helper development for property C08, first half — Part J: permuting the rows permutes the matrix.

Over the reals `Distance` is symmetric in its two rows (all counters, the internal-gap one included);
the assembly of `DistMatrix` in half-matrix mode writes, for every unordered pair, the pair's distance
or the substitute `2·max`, and the maximum over the accepted entries only depends on the *set* of
pair distances.
-/
namespace Gv.Proofs.DistCols
open Gv Gv.Model.Dist Gv.Proofs.Dist

theorem ig_symm_of_max_comm {α : Type} [RealLike α] (hmax : ∀ x y : α, maxG x y = maxG y x)
    (honour rmAmb : Bool) (s1 s2 : List Code) (sel : List Bool) (ws : Option (List α)) :
    countDiffsWithInternalGaps honour rmAmb (sites s2 s1 sel ws)
      = countDiffsWithInternalGaps honour rmAmb (sites s1 s2 sel ws) := by
  rw [sites_swap]
  unfold countDiffsWithInternalGaps
  have h0 : (⟨0, 0, true, true, 0, 0⟩ : IG α) = swapIG ⟨0, 0, true, true, 0, 0⟩ := rfl
  rw [h0, ig_foldl_swap]
  simp only [swapIG, hmax ((List.foldl (igStep honour rmAmb) ⟨0, 0, true, true, 0, 0⟩ (sites s1 s2 sel ws)).tmp2)]

theorem maxG_comm (x y : ℝ) : maxG x y = maxG y x := by
  unfold maxG
  real_like
  simp only [decide_eq_true_eq]
  split_ifs with h1 h2 h2
  · exact absurd h1 (not_lt.mpr h2.le)
  · rfl
  · rfl
  · linarith

theorem runCounter_swap (v : Variant) (f : Bool) (words : List String) (s1 s2 : List Code) (sel : List Bool)
    (ws : Option (List ℝ)) :
    runCounter v f words (sites s2 s1 sel ws) = runCounter v f words (sites s1 s2 sel ws) := by
  have hm : countMutations (sites s2 s1 sel ws) = countMutations (sites s1 s2 sel ws) := by
    rw [sites_swap]; exact foldl_map_swap _ mutStep_swap _ _
  have hd : ∀ g r, countDiffsGen g r (sites s2 s1 sel ws) = countDiffsGen g r (sites s1 s2 sel ws) := by
    intro g r; rw [sites_swap]; exact foldl_map_swap _ (diffStep_swap g r) _ _
  have hi : ∀ h r, countDiffsWithInternalGaps h r (sites s2 s1 sel ws)
      = countDiffsWithInternalGaps h r (sites s1 s2 sel ws) := by
    intro h r
    exact ig_symm_of_max_comm maxG_comm h r s1 s2 sel ws
  unfold runCounter
  split
  · simp only [hm]
  · simp only [countDiffs, hd]
  · simp only [countDiffsWithGaps, hd]
  · simp only [hi]
  · rfl

/-- over the reals the distance of a pair does not depend on the order of its two rows -/
theorem distance_symm (c : Cfg ℝ) (ini : Init ℝ) (s1 s2 : List Code) :
    distance c ini s2 s1 = distance c ini s1 s2 := by
  obtain ⟨model, rmGaps, gapMode, rmAmb, gamma, alpha, ws, variant⟩ := c
  cases model <;> simp only [distance, runCounter_swap]

/-! ### the running maximum only depends on the set of values -/

theorem foldMax_spec (vals : List ℝ) (mx0 : ℝ) :
    let r := vals.foldl (fun mx d => if isUncomputable d then mx else if RealLike.ltb mx d then d else mx) mx0
    mx0 ≤ r ∧ (∀ x ∈ vals, isUncomputable x = false → x ≤ r) ∧ (r = mx0 ∨ (r ∈ vals ∧ isUncomputable r = false)) := by
  induction vals generalizing mx0 with
  | nil => simp
  | cons d t ih =>
    simp only [List.foldl_cons]
    by_cases hu : isUncomputable d = true
    · simp only [hu, if_true]
      obtain ⟨h1, h2, h3⟩ := ih mx0
      refine ⟨h1, ?_, ?_⟩
      · intro x hx hax
        rcases List.mem_cons.mp hx with rfl | hx
        · rw [hu] at hax; cases hax
        · exact h2 x hx hax
      · rcases h3 with h3 | ⟨h3, h4⟩
        · exact Or.inl h3
        · exact Or.inr ⟨List.mem_cons_of_mem _ h3, h4⟩
    · have hu' : isUncomputable d = false := by simpa using hu
      simp only [hu', Bool.false_eq_true, if_false]
      by_cases hlt : mx0 < d
      · have : RealLike.ltb mx0 d = true := by real_like; simpa using hlt
        simp only [this, if_true]
        obtain ⟨h1, h2, h3⟩ := ih d
        refine ⟨le_trans hlt.le h1, ?_, ?_⟩
        · intro x hx hax
          rcases List.mem_cons.mp hx with rfl | hx
          · exact h1
          · exact h2 x hx hax
        · rcases h3 with h3 | ⟨h3, h4⟩
          · exact Or.inr ⟨by rw [h3]; simp, by rw [h3]; exact hu'⟩
          · exact Or.inr ⟨List.mem_cons_of_mem _ h3, h4⟩
      · have : RealLike.ltb mx0 d = false := by real_like; simpa using hlt
        simp only [this, Bool.false_eq_true, if_false]
        obtain ⟨h1, h2, h3⟩ := ih mx0
        refine ⟨h1, ?_, ?_⟩
        · intro x hx hax
          rcases List.mem_cons.mp hx with rfl | hx
          · exact le_trans (not_lt.mp hlt) h1
          · exact h2 x hx hax
        · rcases h3 with h3 | ⟨h3, h4⟩
          · exact Or.inl h3
          · exact Or.inr ⟨List.mem_cons_of_mem _ h3, h4⟩

private theorem zero_real : (@OfNat.ofNat ℝ 0 (instOfNatOfRealLike 0)) = (0 : ℝ) := by
  real_like

theorem maxAccepted_spec (vals : List ℝ) :
    0 ≤ maxAccepted vals ∧ (∀ x ∈ vals, isUncomputable x = false → x ≤ maxAccepted vals) ∧
    (maxAccepted vals = 0 ∨ (maxAccepted vals ∈ vals ∧ isUncomputable (maxAccepted vals) = false)) := by
  have := foldMax_spec vals 0
  unfold maxAccepted
  rw [zero_real]
  exact this

/-- two lists with the same set of values have the same accepted maximum -/
theorem maxAccepted_congr_set (l₁ l₂ : List ℝ) (h : ∀ x, x ∈ l₁ ↔ x ∈ l₂) : maxAccepted l₁ = maxAccepted l₂ := by
  obtain ⟨a1, b1, c1⟩ := maxAccepted_spec l₁
  obtain ⟨a2, b2, c2⟩ := maxAccepted_spec l₂
  apply le_antisymm
  · rcases c1 with c1 | ⟨c1, d1⟩
    · rw [c1]; exact a2
    · exact b2 _ ((h _).mp c1) d1
  · rcases c2 with c2 | ⟨c2, d2⟩
    · rw [c2]; exact a1
    · exact b1 _ ((h _).mpr c2) d2

theorem substitute_congr_set (v : Variant) (e₁ e₂ : List ((Nat × Nat) × ℝ))
    (h : ∀ x, x ∈ e₁.map (·.2) ↔ x ∈ e₂.map (·.2)) : substitute v e₁ = substitute v e₂ := by
  unfold substitute
  rw [maxAccepted_congr_set _ _ h]

/-- a cell all of whose entries carry the value `d` -/
theorem cell_const (v : Variant) (entries : List ((Nat × Nat) × ℝ)) (i j : Nat) (d : ℝ)
    (hne : ∃ e ∈ entries, samePair e.1 i j = true) (hall : ∀ e ∈ entries, samePair e.1 i j = true → e.2 = d) :
    cell v entries i j = if isUncomputable d then substitute v entries else d := by
  unfold cell
  obtain ⟨e0, he0, hs0⟩ := hne
  have hmem0 : e0 ∈ entries.filter fun e => samePair e.1 i j := List.mem_filter.mpr ⟨he0, hs0⟩
  have hvals : ∀ e ∈ entries.filter (fun e => samePair e.1 i j), e.2 = d := by
    intro e he
    obtain ⟨h1, h2⟩ := List.mem_filter.mp he
    exact hall e h1 h2
  have hany : (entries.filter fun e => samePair e.1 i j).any (fun e => isUncomputable e.2) = isUncomputable d := by
    rw [Bool.eq_iff_iff, List.any_eq_true]
    constructor
    · rintro ⟨e, he, hu⟩; rw [← hvals e he]; exact hu
    · intro hu; exact ⟨e0, hmem0, by rw [hvals e0 hmem0]; exact hu⟩
  simp only [hany]
  split
  · rfl
  · cases hl : (entries.filter fun e => samePair e.1 i j).getLast? with
    | none =>
      rw [List.getLast?_eq_none_iff] at hl
      rw [hl] at hmem0
      exact absurd hmem0 (by simp)
    | some e => exact hvals e (List.mem_of_getLast? hl)

/-! ### half-matrix assembly as a function of the pair distances -/

def halfPairs (n : Nat) : List (Nat × Nat) :=
  (List.range n).flatMap fun i => ((List.range n).filter (· > i)).map fun j => (i, j)

theorem pairList_half (n : Nat) : pairList n (-1) (-1) (-1) (-1) = some (halfPairs n) := by
  unfold pairList halfPairs
  simp

theorem mem_halfPairs (n : Nat) (p : Nat × Nat) : p ∈ halfPairs n ↔ p.1 < p.2 ∧ p.2 < n := by
  unfold halfPairs
  simp only [List.mem_flatMap, List.mem_range, List.mem_map, List.mem_filter, gt_iff_lt, decide_eq_true_eq]
  constructor
  · rintro ⟨i, _, j, ⟨hj, hij⟩, rfl⟩; exact ⟨hij, hj⟩
  · rintro ⟨h1, h2⟩; exact ⟨p.1, by omega, p.2, ⟨h2, h1⟩, rfl⟩

/-- the cells of `DistMatrix` (half-matrix mode) from the pair distances `D` -/
noncomputable def assemble (v : Variant) (n : Nat) (D : Nat → Nat → Option ℝ) : Option (List (List ℝ)) :=
  if (halfPairs n).all (fun p => (D p.1 p.2).isSome) then
    some ((List.range n).map fun i => (List.range n).map fun j =>
      cell v ((halfPairs n).map fun p => (p, (D p.1 p.2).getD 0)) i j)
  else none

theorem distMatrix_eq_assemble (c : Cfg ℝ) (rows : List Seq) (ini : Init ℝ) (hi : initModel c rows = some ini) :
    distMatrix c rows (-1) (-1) (-1) (-1) =
      assemble c.variant rows.length fun a b => distance c ini (ini.codes.getD a []) (ini.codes.getD b []) := by
  unfold distMatrix assemble
  rw [hi]
  simp only [Option.bind_some, bind, pure, pairList_half]
  rw [mapM_opt _ ((0, 0), (0 : ℝ))]
  have h1 : ∀ p : Nat × Nat, ((distance c ini (ini.codes.getD p.1 []) (ini.codes.getD p.2 [])).bind
      fun d => some (p, d)).isSome = (distance c ini (ini.codes.getD p.1 []) (ini.codes.getD p.2 [])).isSome := by
    intro p; cases distance c ini (ini.codes.getD p.1 []) (ini.codes.getD p.2 []) <;> rfl
  simp only [h1]
  split
  · rename_i hall
    simp only [Option.bind_some, Option.some.injEq]
    have : (halfPairs rows.length).map (fun p => ((distance c ini (ini.codes.getD p.1 []) (ini.codes.getD p.2 [])).bind
        fun d => some (p, d)).getD ((0, 0), (0 : ℝ))) =
        (halfPairs rows.length).map fun p => (p, (distance c ini (ini.codes.getD p.1 []) (ini.codes.getD p.2 [])).getD 0) := by
      apply List.map_congr_left
      intro p hp
      have := List.all_eq_true.mp hall p hp
      cases hd : distance c ini (ini.codes.getD p.1 []) (ini.codes.getD p.2 []) with
      | none => rw [hd] at this; cases this
      | some d => rfl
    rw [this]
  · rfl

/-- `assemble` only reads `D` on the pairs `i < j < n` -/
theorem assemble_congr (v : Variant) (n : Nat) (D D' : Nat → Nat → Option ℝ)
    (h : ∀ i j, i < j → j < n → D' i j = D i j) : assemble v n D' = assemble v n D := by
  unfold assemble
  have h1 : (halfPairs n).all (fun p => (D' p.1 p.2).isSome) = (halfPairs n).all (fun p => (D p.1 p.2).isSome) := by
    rw [Bool.eq_iff_iff, List.all_eq_true, List.all_eq_true]
    constructor
    · intro hh p hp
      obtain ⟨a, b⟩ := (mem_halfPairs n p).mp hp
      rw [← h p.1 p.2 a b]; exact hh p hp
    · intro hh p hp
      obtain ⟨a, b⟩ := (mem_halfPairs n p).mp hp
      rw [h p.1 p.2 a b]; exact hh p hp
  have h2 : (halfPairs n).map (fun p => (p, (D' p.1 p.2).getD 0)) = (halfPairs n).map (fun p => (p, (D p.1 p.2).getD 0)) := by
    apply List.map_congr_left
    intro p hp
    obtain ⟨a, b⟩ := (mem_halfPairs n p).mp hp
    rw [h p.1 p.2 a b]
  rw [h1, h2]

/-! ### permutations of `0 .. n-1` given as lists -/

theorem perm_lt (q : List Nat) (n : Nat) (hq : q.Perm (List.range n)) (i : Nat) (hi : i < n) : q.getD i 0 < n := by
  have hl : q.length = n := by rw [hq.length_eq, List.length_range]
  rw [List.getD_eq_getElem?_getD, List.getElem?_eq_getElem (by omega)]
  exact List.mem_range.mp (hq.mem_iff.mp (List.getElem_mem _))

theorem perm_inj (q : List Nat) (n : Nat) (hq : q.Perm (List.range n)) (i j : Nat) (hi : i < n) (hj : j < n)
    (h : q.getD i 0 = q.getD j 0) : i = j := by
  have hl : q.length = n := by rw [hq.length_eq, List.length_range]
  have hnd : q.Nodup := hq.nodup_iff.mpr List.nodup_range
  rw [List.getD_eq_getElem?_getD, List.getD_eq_getElem?_getD, List.getElem?_eq_getElem (by omega),
    List.getElem?_eq_getElem (by omega)] at h
  exact (hnd.getElem_inj_iff).mp (by simpa using h)

theorem perm_surj (q : List Nat) (n : Nat) (hq : q.Perm (List.range n)) (a : Nat) (ha : a < n) :
    ∃ i, i < n ∧ q.getD i 0 = a := by
  have hl : q.length = n := by rw [hq.length_eq, List.length_range]
  have : a ∈ q := hq.mem_iff.mpr (List.mem_range.mpr ha)
  obtain ⟨i, hi, rfl⟩ := List.getElem_of_mem this
  refine ⟨i, by omega, ?_⟩
  rw [List.getD_eq_getElem?_getD, List.getElem?_eq_getElem hi]
  rfl

theorem getD_table (n : Nat) (f : Nat → Nat → ℝ) (i j : Nat) (hi : i < n) (hj : j < n) :
    (((List.range n).map fun i => (List.range n).map fun j => f i j).getD i []).getD j 0 = f i j := by
  rw [getD_map_range _ _ _ _ hi, getD_map_range _ _ _ _ hj]

/-- **the assembled matrix follows a permutation of the rows**, for symmetric pair distances -/
theorem assemble_perm (v : Variant) (n : Nat) (D : Nat → Nat → Option ℝ) (q : List Nat)
    (hq : q.Perm (List.range n)) (hsymm : ∀ a b, D a b = D b a) (m : List (List ℝ)) (h : assemble v n D = some m) :
    ∃ m', assemble v n (fun i j => D (q.getD i 0) (q.getD j 0)) = some m' ∧
      ∀ i j, i < n → j < n → (m'.getD i []).getD j 0 = (m.getD (q.getD i 0) []).getD (q.getD j 0) 0 := by
  unfold assemble at h ⊢
  by_cases hall : (halfPairs n).all (fun p => (D p.1 p.2).isSome) = true
  swap
  · rw [if_neg hall] at h; cases h
  rw [if_pos hall] at h
  simp only [Option.some.injEq] at h
  subst h
  have hsome : ∀ a b, a < n → b < n → a ≠ b → (D a b).isSome = true := by
    intro a b ha hb hab
    rcases Nat.lt_or_gt_of_ne hab with hlt | hgt
    · exact List.all_eq_true.mp hall (a, b) ((mem_halfPairs n (a, b)).mpr ⟨hlt, hb⟩)
    · rw [hsymm]; exact List.all_eq_true.mp hall (b, a) ((mem_halfPairs n (b, a)).mpr ⟨hgt, ha⟩)
  have hall' : (halfPairs n).all (fun p => (D (q.getD p.1 0) (q.getD p.2 0)).isSome) = true := by
    rw [List.all_eq_true]
    intro p hp
    obtain ⟨h1, h2⟩ := (mem_halfPairs n p).mp hp
    exact hsome _ _ (perm_lt q n hq _ (by omega)) (perm_lt q n hq _ h2)
      (fun e => by have := perm_inj q n hq _ _ (by omega) h2 e; omega)
  rw [if_pos hall']
  refine ⟨_, rfl, ?_⟩
  intro i j hi hj
  rw [getD_table n _ i j hi hj, getD_table n _ _ _ (perm_lt q n hq i hi) (perm_lt q n hq j hj)]
  set Dv : Nat → Nat → ℝ := fun a b => (D a b).getD 0 with hDv
  have hDvs : ∀ a b, Dv a b = Dv b a := fun a b => by simp only [hDv, hsymm a b]
  set E := (halfPairs n).map fun p => (p, (D p.1 p.2).getD 0) with hE
  set E' := (halfPairs n).map fun p => (p, (D (q.getD p.1 0) (q.getD p.2 0)).getD 0) with hE'
  by_cases hij : i = j
  · subst hij
    have hoff : ∀ l : List ((Nat × Nat) × ℝ), (∀ e ∈ l, e.1 ∈ halfPairs n) → ∀ e ∈ l, e.1.1 ≠ e.1.2 := by
      intro l hl e he
      have := (mem_halfPairs n e.1).mp (hl e he)
      omega
    rw [cell_diag v E' i (hoff E' (by intro e he; obtain ⟨p, hp, rfl⟩ := List.mem_map.mp he; exact hp)),
      cell_diag v E _ (hoff E (by intro e he; obtain ⟨p, hp, rfl⟩ := List.mem_map.mp he; exact hp))]
  · have hqij : q.getD i 0 ≠ q.getD j 0 := fun e => hij (perm_inj q n hq i j hi hj e)
    have hqi := perm_lt q n hq i hi
    have hqj := perm_lt q n hq j hj
    have hsame : ∀ (p : Nat × Nat) (a b : Nat), samePair p a b = true → (p = (a, b) ∨ p = (b, a)) := by
      intro p a b hs
      simp only [samePair, Bool.or_eq_true, Bool.and_eq_true, beq_iff_eq] at hs
      rcases hs with ⟨h1, h2⟩ | ⟨h1, h2⟩
      · left; exact Prod.ext h1 h2
      · right; exact Prod.ext h1 h2
    have hex : ∀ a b, a < n → b < n → a ≠ b → ∃ p ∈ halfPairs n, samePair p a b = true := by
      intro a b ha hb hab
      rcases Nat.lt_or_gt_of_ne hab with hlt | hgt
      · exact ⟨(a, b), (mem_halfPairs n _).mpr ⟨hlt, hb⟩, by simp [samePair]⟩
      · exact ⟨(b, a), (mem_halfPairs n _).mpr ⟨hgt, ha⟩, by simp [samePair]⟩
    have c1 : cell v E' i j = if isUncomputable (Dv (q.getD i 0) (q.getD j 0)) then substitute v E' else Dv (q.getD i 0) (q.getD j 0) := by
      apply cell_const
      · obtain ⟨p, hp, hs⟩ := hex i j hi hj hij
        exact ⟨(p, _), List.mem_map.mpr ⟨p, hp, rfl⟩, hs⟩
      · intro e he hs
        obtain ⟨p, _, rfl⟩ := List.mem_map.mp he
        rcases hsame p i j hs with rfl | rfl
        · rfl
        · exact hDvs _ _
    have c2 : cell v E (q.getD i 0) (q.getD j 0) = if isUncomputable (Dv (q.getD i 0) (q.getD j 0)) then substitute v E else Dv (q.getD i 0) (q.getD j 0) := by
      apply cell_const
      · obtain ⟨p, hp, hs⟩ := hex _ _ hqi hqj hqij
        exact ⟨(p, _), List.mem_map.mpr ⟨p, hp, rfl⟩, hs⟩
      · intro e he hs
        obtain ⟨p, _, rfl⟩ := List.mem_map.mp he
        rcases hsame p _ _ hs with rfl | rfl
        · rfl
        · exact hDvs _ _
    have hsub : substitute v E' = substitute v E := by
      apply substitute_congr_set
      intro x
      simp only [hE, hE', List.map_map, List.mem_map, Function.comp]
      constructor
      · rintro ⟨p, hp, rfl⟩
        obtain ⟨h1, h2⟩ := (mem_halfPairs n p).mp hp
        have ha := perm_lt q n hq p.1 (by omega)
        have hb := perm_lt q n hq p.2 h2
        have hab : q.getD p.1 0 ≠ q.getD p.2 0 := fun e => by
          have := perm_inj q n hq _ _ (by omega) h2 e; omega
        rcases Nat.lt_or_gt_of_ne hab with hlt | hgt
        · exact ⟨(q.getD p.1 0, q.getD p.2 0), (mem_halfPairs n _).mpr ⟨hlt, hb⟩, rfl⟩
        · exact ⟨(q.getD p.2 0, q.getD p.1 0), (mem_halfPairs n _).mpr ⟨hgt, ha⟩, hDvs _ _⟩
      · rintro ⟨p, hp, rfl⟩
        obtain ⟨h1, h2⟩ := (mem_halfPairs n p).mp hp
        obtain ⟨i1, hi1, e1⟩ := perm_surj q n hq p.1 (by omega)
        obtain ⟨i2, hi2, e2⟩ := perm_surj q n hq p.2 h2
        have hne : i1 ≠ i2 := fun e => by subst e; omega
        rcases Nat.lt_or_gt_of_ne hne with hlt | hgt
        · exact ⟨(i1, i2), (mem_halfPairs n _).mpr ⟨hlt, hi2⟩, by simp only [e1, e2]⟩
        · refine ⟨(i2, i1), (mem_halfPairs n _).mpr ⟨hgt, hi1⟩, ?_⟩
          simp only [e1, e2]
          exact hDvs _ _
    rw [c1, c2, hsub]

/-! ### permuting the rows of an alignment -/

/-- the rows at the indices `q`, in that order -/
def permuteRows (q : List Nat) (rows : List Seq) : List Seq := q.map (rows.getD · [])

theorem permuteRows_perm (q : List Nat) (rows : List Seq) (hq : q.Perm (List.range rows.length)) :
    (permuteRows q rows).Perm rows := by
  have h1 := hq.map (rows.getD · [])
  have h2 := range_map_getD (fun x : Seq => x) rows []
  simp only [List.map_id'] at h2
  rw [h2] at h1
  exact h1

theorem alnLen_permuteRows (q : List Nat) (rows : List Seq) (hq : q.Perm (List.range rows.length))
    (hrect : ∀ r ∈ rows, r.length = alnLen rows) : alnLen (permuteRows q rows) = alnLen rows := by
  have hp := permuteRows_perm q rows hq
  cases hr : permuteRows q rows with
  | nil =>
    rw [hr] at hp
    have : rows = [] := by simpa using hp.symm
    rw [this]
  | cons a t =>
    have : a ∈ rows := hp.mem_iff.mp (by rw [hr]; simp)
    simp only [alnLen, List.headD_cons]
    exact hrect a this

theorem selectedSites_permuteRows (q : List Nat) (rows : List Seq) (rm : Bool)
    (hq : q.Perm (List.range rows.length)) (hrect : ∀ r ∈ rows, r.length = alnLen rows) :
    selectedSites (permuteRows q rows) rm = selectedSites rows rm := by
  have hl := alnLen_permuteRows q rows hq hrect
  unfold selectedSites
  unfold alnLen at hl
  rw [hl]
  apply List.map_congr_left
  intro l _
  rw [(permuteRows_perm q rows hq).any_eq]

theorem colF_perm (ov rm : Bool) {x x' : List Byte} (h : x'.Perm x) : colF ov rm x' = colF ov rm x := by
  unfold colF selCol
  rw [h.any_eq, (h.map _).sum_eq]

theorem piOf_permuteRows (c : Cfg ℝ) (q : List Nat) (rows : List Seq) (ws : Option (List ℝ))
    (hq : q.Perm (List.range rows.length)) (hrect : ∀ r ∈ rows, r.length = alnLen rows) :
    piOf c (permuteRows q rows) ws = piOf c rows ws := by
  unfold piOf
  split
  · rw [probaNt_eq_cols, probaNt_eq_cols]
    congr 1
    unfold tot colsOf
    rw [alnLen_permuteRows q rows hq hrect, List.map_map, List.map_map]
    congr 1
    apply List.map_congr_left
    intro pos _
    simp only [Function.comp]
    rw [colF_perm _ _ ((permuteRows_perm q rows hq).map _)]
  · rfl

theorem codes_getD (rows : List Seq) (k : Nat) :
    (rows.map fun r => r.map codeOf).getD k [] = (rows.getD k []).map codeOf := by
  rw [List.getD_eq_getElem?_getD, List.getD_eq_getElem?_getD, List.getElem?_map]
  cases rows[k]? <;> rfl

theorem codes_permuteRows (q : List Nat) (rows : List Seq) (i : Nat) (hi : i < q.length) :
    ((permuteRows q rows).map fun r => r.map codeOf).getD i []
      = (rows.map fun r => r.map codeOf).getD (q.getD i 0) [] := by
  rw [codes_getD, codes_getD]
  unfold permuteRows
  rw [getD_map_lt _ q i [] 0 hi]

theorem distance_ini_irrelevant (c : Cfg ℝ) (ini ini' : Init ℝ) (s1 s2 : List Code) (hs : ini'.sel = ini.sel)
    (hp : ini'.pi = ini.pi) : distance c ini' s1 s2 = distance c ini s1 s2 := by
  have := distance_eq_of_sites c c.weights ini ini' s1 s2 s1 s2 hp (by rw [hs])
  exact this

/-- **permuting the rows permutes the matrix** (half-matrix mode; every model and counting mode, the
internal-gap one included; unchanged and repaired variants) -/
theorem distMatrix_permuteRows (c : Cfg ℝ) (rows : List Seq) (q : List Nat) (hq : q.Perm (List.range rows.length))
    (hrect : ∀ r ∈ rows, r.length = alnLen rows) (m : List (List ℝ))
    (h : distMatrix c rows (-1) (-1) (-1) (-1) = some m) :
    ∃ m', distMatrix c (permuteRows q rows) (-1) (-1) (-1) (-1) = some m' ∧
      ∀ i j, i < rows.length → j < rows.length →
        (m'.getD i []).getD j 0 = (m.getD (q.getD i 0) []).getD (q.getD j 0) 0 := by
  have hlen : q.length = rows.length := by rw [hq.length_eq, List.length_range]
  have hok : rows.all (fun r => r.all okByte) = true := by
    by_contra hno
    have : initModel c rows = none := by rw [initModel_eq, if_neg hno]
    unfold distMatrix at h
    rw [this] at h
    cases h
  have hok' : (permuteRows q rows).all (fun r => r.all okByte) = true := by
    rw [(permuteRows_perm q rows hq).all_eq]; exact hok
  have hi : initModel c rows = some (initOf c rows) := by rw [initModel_eq, if_pos hok]; rfl
  have hi' : initModel c (permuteRows q rows) = some (initOf c (permuteRows q rows)) := by
    rw [initModel_eq, if_pos hok']; rfl
  rw [distMatrix_eq_assemble c rows _ hi] at h
  rw [distMatrix_eq_assemble c _ _ hi']
  have hn' : (permuteRows q rows).length = rows.length := by simp [permuteRows, hlen]
  rw [hn']
  rw [assemble_congr c.variant rows.length
    (fun a b => distance c (initOf c rows) ((initOf c rows).codes.getD (q.getD a 0) [])
      ((initOf c rows).codes.getD (q.getD b 0) [])) _ (by
      intro i j hij hj
      show distance c (initOf c (permuteRows q rows)) (((permuteRows q rows).map fun r => r.map codeOf).getD i [])
          (((permuteRows q rows).map fun r => r.map codeOf).getD j []) = _
      rw [codes_permuteRows q rows i (by omega), codes_permuteRows q rows j (by omega)]
      exact distance_ini_irrelevant c _ _ _ _ (selectedSites_permuteRows q rows c.rmGaps hq hrect)
        (piOf_permuteRows c q rows c.weights hq hrect))]
  exact assemble_perm c.variant rows.length
    (fun a b => distance c (initOf c rows) ((initOf c rows).codes.getD a []) ((initOf c rows).codes.getD b []))
    q hq (fun a b => distance_symm c (initOf c rows) _ _) m h

end Gv.Proofs.DistCols
