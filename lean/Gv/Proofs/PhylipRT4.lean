import Gv.Proofs.PhylipRT3
/-!
Phylip round trip, helper development, part 4: a stream of several alignments (`ParseMultiple`).
-/
namespace Gv.Proofs.PhylipRT
open Gv Gv.Model Gv.Model.Fmt Gv.Model.Fmt.Phylip

set_option maxRecDepth 100000

/-- the alignment object the parser returns for written rows -/
def alnOf (rows : List XRow) : Aln :=
  ⟨autoAlphabet (rows.map (·.2)), ((match rows with | r :: _ => r.2.length | [] => 0 : Nat) : Int), rows⟩

/-- an alignment that one `Parse` call reads back -/
structure Good (af strict : Bool) (rows : List XRow) : Prop where
  ne : rows ≠ []
  count : rows.length ≤ 9223372036854775807
  alloc : af = false ∨ rows.length < 134217728
  names : Spec.Fmt.distinct (rows.map (·.1)) = true
  rowsOk : ∃ L, 1 ≤ L ∧ L ≤ 9223372036854775807 ∧ ∀ r ∈ rows, RowOk strict L r

/-- the writer's output starts with the three blanks and the first digit of the header line -/
theorem write_head (strict oneline noblock : Bool) (rows : List XRow) :
    ∃ d R, write strict oneline noblock rows = SP :: SP :: SP :: d :: R ∧ isWS d = false ∧ d ≠ 0 := by
  obtain ⟨d, ds, hd, hdw, hd0⟩ := natDec_head rows.length
  exact ⟨d, _, by simp [write, hd, SP]; rfl, hdw, hd0⟩

theorem tail_stream (strict oneline noblock : Bool) (as : List (List XRow)) :
    Tail (as.flatMap (write strict oneline noblock)) := by
  cases as with
  | nil => exact Or.inl rfl
  | cons a rest =>
    obtain ⟨d, R, h, hdw, hd0⟩ := write_head strict oneline noblock a
    exact Or.inr ⟨d, R ++ rest.flatMap (write strict oneline noblock), by simp [h], hdw, hd0⟩

/-- **`ParseMultiple` on a stream of written alignments** -/
theorem multi_written (af strict oneline noblock : Bool) (o : POpts) (hs : o.strict = strict)
    (ho : normAlphabet o.alphabet = 2) : ∀ (as : List (List XRow)), (∀ a ∈ as, Good af strict a) →
    ∀ (fuel : Nat) (s : St) (acc : List Aln), as.length + 1 ≤ fuel →
    At (as.flatMap (write strict oneline noblock)) s →
    parseMulti af o fuel s acc = .done (acc ++ as.map alnOf) true
  | [], _, fuel, s, acc, hf, hat => by
    obtain ⟨f, rfl⟩ : ∃ f, fuel = f + 1 := ⟨fuel - 1, by simp at hf; omega⟩
    obtain ⟨s', hh⟩ := header_at_nil af s hat
    rw [parseMulti]
    simp [parseOne, hh, bind, Except.bind, pure, Except.pure]
  | a :: rest, h, fuel, s, acc, hf, hat => by
    obtain ⟨f, rfl⟩ : ∃ f, fuel = f + 1 := ⟨fuel - 1, by simp at hf; omega⟩
    have ha := h a (by simp)
    obtain ⟨L, hL1, hLmax, hok⟩ := ha.rowsOk
    have hlen : ∀ r ∈ a, r.2.length = L := fun r hr => (hok r hr).len
    have hline : 0 < (if oneline then L else Gen.c_PHYLIP_LINE.toNat) := by
      split
      · exact hL1
      · decide
    have hblock : 0 < (if noblock then (if oneline then L else Gen.c_PHYLIP_LINE.toNat)
        else Gen.c_PHYLIP_BLOCK.toNat) := by
      split
      · exact hline
      · decide
    simp only [List.flatMap_cons] at hat
    rw [write_eq strict oneline noblock a L ha.ne hlen] at hat
    obtain ⟨s', hp, hat'⟩ := parseOne_written af strict o hs ho _ _ L hline hblock hL1 hLmax a ha.ne ha.count
      ha.alloc hok ha.names _ (tail_stream strict oneline noblock rest) s hat
    have ih := multi_written af strict oneline noblock o hs ho rest (fun x hx => h x (by simp [hx])) f s'
      (acc ++ [⟨autoAlphabet (a.map (·.2)), L, a⟩]) (by simp only [List.length_cons] at hf; omega) hat'
    rw [parseMulti]
    simp only [hp, ih]
    have e : alnOf a = ⟨autoAlphabet (a.map (·.2)), L, a⟩ := by
      cases a with
      | nil => exact absurd rfl ha.ne
      | cons r rs => simp [alnOf, hlen r (by simp)]
    simp [e]

end Gv.Proofs.PhylipRT
