import Gv.Model.Fmt.Clustal
import Gv.Proofs.ClustalOutcome
/-!
Clustal parser: every sequence token is non-empty, hence a success has at least one column
(helper development for `Props/C03.lean`).
-/
namespace Gv.Proofs.ClustalPos
open Gv Gv.Model Gv.Model.Fmt Gv.Model.Fmt.Clustal Gv.Proofs.FmtBagInv
open Gv.Model.Fmt.Phylip (Stop R)

/-- the token in the push-back buffer, if an identifier, is not empty -/
def Tokok (s : St) : Prop := ∀ l, s.last = .ident l → l ≠ []

theorem lex_ident (inp : Seq) (l r : Seq) (h : Clustal.scan inp = some (.ident l, r)) : l ≠ [] := by
  unfold Clustal.scan at h
  split at h
  · simp at h
  · simp only at h
    repeat' (split at h)
    all_goals (simp only [Option.some.injEq, Prod.mk.injEq, reduceCtorEq] at h)
    all_goals (try (obtain ⟨h1, _⟩ := h))
    all_goals (try (simp only [Tok.ident.injEq] at h1; subst h1; simp))
    all_goals (try (simp at h1))

theorem scan_tokok (s : St) (v : Tok × St) (hs : Tokok s) (h : s.scan = .ok v) :
    Tokok v.2 ∧ (∀ l, v.1 = .ident l → l ≠ []) := by
  unfold St.scan at h
  split at h
  · simp only [Except.ok.injEq] at h
    subst h
    exact ⟨hs, hs⟩
  · split at h
    · simp at h
    · rename_i t r hl
      simp only [Except.ok.injEq] at h
      subst h
      have : ∀ l, t = .ident l → l ≠ [] := fun l e => lex_ident _ l r (by rw [hl, e])
      exact ⟨this, this⟩

@[grind →] theorem scan_tokok1 (s : St) (v : Tok × St) (hs : Tokok s) (h : s.scan = .ok v) : Tokok v.2 :=
  (scan_tokok s v hs h).1

@[grind →] theorem scan_tokok2 (s : St) (v : Tok × St) (l : Seq) (hs : Tokok s) (h : s.scan = .ok v)
    (e : v.1 = .ident l) : l ≠ [] :=
  (scan_tokok s v hs h).2 l e

@[grind =] theorem tokok_unscan (s : St) : Tokok s.unscan = Tokok s := rfl

theorem skipEols_tokok : ∀ (fuel : Nat) (s s' : St), Tokok s → skipEols fuel s = .ok s' → Tokok s' := by
  intro fuel
  induction fuel with
  | zero => intro s s' _ h; simp [skipEols] at h
  | succ k ih =>
    intro s s' hs h
    unfold skipEols at h
    simp only [bind, Except.bind, pure, Except.pure] at h
    repeat' (split at h <;> try (simp at h))
    · exact ih _ _ (by grind) h
    · subst h; grind

@[grind →] theorem scanWithEOL_tokok (s : St) (v : Tok × St) (hs : Tokok s) (h : scanWithEOL s = .ok v) : Tokok v.2 := by
  unfold scanWithEOL at h
  simp only [bind, Except.bind, pure, Except.pure] at h
  repeat' (split at h <;> try (simp at h))
  all_goals (subst h)
  all_goals first
    | (rename_i v1 hv1 _ _ v2 hv2
       have hk : Tokok v2 := skipEols_tokok _ _ _ (scan_tokok1 _ _ hs hv1) hv2
       exact hk)
    | grind

theorem skipHeader_tokok : ∀ (fuel : Nat) (t : Tok) (s : St) (v : Tok × St), Tokok s →
    skipHeader fuel t s = .ok v → Tokok v.2 := by
  intro fuel
  induction fuel with
  | zero => intro t s v _ h; simp [skipHeader] at h
  | succ k ih =>
    intro t s v hs h
    unfold skipHeader at h
    simp only [bind, Except.bind, pure, Except.pure] at h
    repeat' (split at h <;> try (simp at h))
    · exact ih _ _ _ (by grind) h
    · subst h; exact hs

theorem skipLine_tokok : ∀ (fuel : Nat) (t : Tok) (s : St) (v : Tok × St), Tokok s →
    skipLine fuel t s = .ok v → Tokok v.2 := by
  intro fuel
  induction fuel with
  | zero => intro t s v _ h; simp [skipLine] at h
  | succ k ih =>
    intro t s v hs h
    unfold skipLine at h
    simp only [bind, Except.bind, pure, Except.pure] at h
    repeat' (split at h <;> try (simp at h))
    · exact ih _ _ _ (by grind) h
    · subst h; exact hs

@[grind →] theorem skipLine_tokok' (fuel : Nat) (t : Tok) (s : St) (v : Tok × St) (hs : Tokok s)
    (h : skipLine fuel t s = .ok v) : Tokok v.2 := skipLine_tokok fuel t s v hs h

@[grind →] theorem blockEnd_tokok (t : Tok) (s : St) (ls : LS) (r : Tok × St × LS) (hs : Tokok s)
    (h : blockEnd t s ls = .ok (some r)) : Tokok r.2.1 ∧ r.2.2.rows = ls.rows := by
  unfold blockEnd at h
  simp only [bind, Except.bind, pure, Except.pure] at h
  repeat' (split at h <;> try (simp at h))
  subst h
  refine ⟨by grind, rfl⟩

@[grind →] theorem row_tokok (t : Tok) (s : St) (r : Name × Seq × Tok × St) (hs : Tokok s) (h : row t s = .ok r) :
    Tokok r.2.2.2 ∧ r.2.1 ≠ [] := by
  unfold row at h
  simp only [bind, Except.bind, pure, Except.pure] at h
  repeat' (split at h <;> try (simp at h))
  all_goals (subst h; grind)

/-- all collected sequences are non-empty -/
def RowsOk (ls : LS) : Prop := ∀ r ∈ ls.rows, r.2 ≠ []

theorem place_ok (c : Bool) (ls ls' : LS) (n : Name) (q : Seq) (hq : q ≠ []) (hr : RowsOk ls)
    (h : place c ls n q = .ok ls') : RowsOk ls' := by
  unfold place at h
  split at h
  · simp [pure, Except.pure] at h
    subst h
    intro r hr'
    simp only [List.mem_append, List.mem_singleton] at hr'
    cases hr' with
    | inl e => exact hr r e
    | inr e => subst e; exact hq
  · split at h
    · split at h <;> simp at h
    · split at h
      · simp at h
      · simp [pure, Except.pure] at h
        subst h
        intro r hr'
        simp only [setRow, List.mem_mapIdx] at hr'
        obtain ⟨i, hi, rfl⟩ := hr'
        split
        · simp only
          intro e
          have := List.append_eq_nil_iff.mp e
          exact hq this.2
        · exact hr _ (List.getElem_mem hi)

theorem loop_ok (c : Bool) : ∀ (fuel : Nat) (t : Tok) (s : St) (ls ls' : LS), Tokok s → RowsOk ls →
    loop c fuel t s ls = .ok ls' → RowsOk ls' := by
  intro fuel
  induction fuel with
  | zero => intro t s ls ls' _ _ h; simp [loop] at h
  | succ k ih =>
    intro t s ls ls' hs hr h
    unfold loop at h
    simp only [bind, Except.bind, pure, Except.pure] at h
    repeat' (split at h <;> try (simp at h))
    all_goals first
      | (subst h; exact hr)
      | (rename_i hpl
         refine ih _ _ _ _ ?_ ?_ h
         · grind
         · refine place_ok c _ _ _ _ ?_ ?_ hpl
           · grind
           · intro r hr'
             have : RowsOk ls := hr
             grind [RowsOk])

theorem foldlM_pos : ∀ (rows : List XRow) (b b' : Bag), Pos b → (∀ r ∈ rows, r.2 ≠ []) →
    rows.foldlM (fun (b : Bag) r => b.add r.1 r.2) b = some b' → Pos b'
  | [], b, b', hb, _, h => by simp at h; subst h; exact hb
  | r :: rs, b, b', hb, hr, h => by
    simp only [List.foldlM_cons, Option.bind_eq_bind] at h
    cases ha : b.add r.1 r.2 with
    | none => simp [ha] at h
    | some b1 =>
      simp only [ha, Option.bind_some] at h
      exact foldlM_pos rs b1 b' (add_pos b hb _ _ (hr r (by simp)) b1 ha) (fun x hx => hr x (by simp [hx])) h

theorem build_pos (o : POpts) (rows : List XRow) (a : Aln) (hr : ∀ r ∈ rows, r.2 ≠ [])
    (h : build o rows = .ok a) : 1 ≤ a.length := by
  have hw := Gv.Proofs.ClustalOutcome.build_ok o rows a h
  unfold build at h
  split at h
  · simp at h
  · split at h
    · simp at h
    · rename_i bag hfold
      split at h
      · simp at h
      · rename_i a' hf
        simp [pure, Except.pure] at h; subst h
        have hp := foldlM_pos rows _ bag (fun hh => absurd rfl hh) hr hfold
        obtain ⟨hrr, hl⟩ := finish_rows bag _ a' hf
        rw [hl]
        exact hp (by rw [← hrr]; exact hw.1)

/-- a successful Clustal parse has at least one column -/
theorem parse_pos (c : Bool) (o : POpts) (bs : Seq) (a : Aln) (h : Clustal.parse c o bs = .ok a) : 1 ≤ a.length := by
  unfold Clustal.parse at h
  cases hp : parseR c o bs with
  | error e => rw [hp] at h; cases e <;> simp [toOutcome] at h
  | ok a' =>
    rw [hp] at h
    simp [toOutcome] at h; subst h
    unfold parseR at hp
    simp only [bind, Except.bind, pure, Except.pure] at hp
    repeat' (split at hp <;> try (simp at hp))
    have t0 : Tokok ({ inp := bs } : St) := by intro l e; simp at e
    have t1 := scan_tokok1 _ _ t0 (by assumption)
    have t2 := skipHeader_tokok _ _ _ _ t1 (by assumption)
    have hr := loop_ok c _ _ _ ({} : LS) _ t2 (by intro r hr; cases hr) (by assumption)
    exact build_pos o _ _ hr hp

end Gv.Proofs.ClustalPos
