import Gv.Proofs.StatsCount
/-!
C14, per-site measures: the early-exit loops of `NbVariableSites` and `InformativeSites` and the allele
counter of `AvgAllelesPerSite` equal their naive definitions (`Gv.Spec.Stats`).
-/
namespace Gv.Proofs.StatsSites
open Gv Gv.Model Gv.Proofs.StatsCount
set_option linter.unusedSimpArgs false

theorem column_eq (rows : CRows) (j : Nat) : columnAt rows j = Spec.column rows j := rfl

theorem plain_eq (s : Byte) : (s != GAP && s != POINT && s != OTHER) = Spec.plain s := rfl

/-! ### NbVariableSites -/

/-- with one character `x` already in `charmap`, the loop answers whether a different plain character follows -/
theorem variableLoop_one (x : Byte) (t : List Byte) :
    variableLoop t [x] = (t.filter Spec.plain).any (· != x) := by
  induction t with
  | nil => rfl
  | cons s t ih =>
    unfold variableLoop
    rw [plain_eq]
    by_cases hp : Spec.plain s = true
    · by_cases hs : s = x
      · subst hs
        simp [hp, ih]
      · have : ([x].contains s) = false := by simp [hs]
        simp [hp, this, hs]
    · have hp' : Spec.plain s = false := by simpa using hp
      simp [hp', ih]

/-- two different elements -/
def twoDistinct (l : List Byte) : Bool := l.any fun a => l.any fun b => a != b

theorem twoDistinct_cons (x : Byte) (l : List Byte) : twoDistinct (x :: l) = l.any (· != x) := by
  rw [Bool.eq_iff_iff]
  simp only [twoDistinct, List.any_eq_true, bne_iff_ne, ne_eq, List.mem_cons]
  constructor
  · rintro ⟨a, ha, b, hb, hab⟩
    rcases ha with rfl | ha
    · rcases hb with rfl | hb
      · exact absurd rfl hab
      · exact ⟨b, hb, fun e => hab e.symm⟩
    · rcases hb with rfl | hb
      · exact ⟨a, ha, hab⟩
      · by_cases hax : a = x
        · subst hax; exact ⟨b, hb, fun e => hab e.symm⟩
        · exact ⟨a, ha, hax⟩
  · rintro ⟨a, ha, hax⟩
    exact ⟨a, Or.inr ha, x, Or.inl rfl, hax⟩

theorem variableLoop_eq (col : List Byte) : variableLoop col [] = Spec.isVariable col := by
  show _ = twoDistinct (col.filter Spec.plain)
  induction col with
  | nil => rfl
  | cons s t ih =>
    unfold variableLoop
    rw [plain_eq]
    by_cases hp : Spec.plain s = true
    · simp only [hp, if_true, List.contains_nil, Bool.false_eq_true, if_false, List.nil_append,
        List.length_singleton, Nat.lt_irrefl]
      rw [variableLoop_one, List.filter_cons_of_pos hp, twoDistinct_cons]
    · have hp' : Spec.plain s = false := by simpa using hp
      simp only [hp', Bool.false_eq_true, if_false, List.length_nil, Nat.not_lt_zero, List.filter_cons_of_neg,
        not_false_eq_true]
      exact ih

theorem nbVariableSites_eq (rows : CRows) (L : Int) :
    nbVariableSites rows L = Spec.nbVariableSites rows L.toNat := by
  unfold nbVariableSites Spec.nbVariableSites
  simp only [variableLoop_eq, column_eq]

/-! ### AvgAllelesPerSite -/

theorem occ_id_pos (cs : List Byte) (k : Byte) : Spec.occ id cs k > 0 ↔ k ∈ cs := by
  unfold Spec.occ
  simp only [id, gt_iff_lt, List.countP_pos_iff, beq_iff_eq]
  constructor
  · rintro ⟨a, ha, rfl⟩; exact ha
  · intro h; exact ⟨k, h, rfl⟩

theorem countsBy_id_length (cs : List Byte) : (countsBy id cs).length = Spec.nbDistinct cs := by
  rw [countsBy_eq]
  unfold Spec.countTable Spec.nbDistinct
  rw [← tab_allBytes, tab_length]
  congr 1
  apply List.filter_congr
  intro k _
  have := occ_id_pos cs k
  by_cases h : k ∈ cs
  · have h' := this.mpr h
    simp [h, h']
  · have h' : ¬ Spec.occ id cs k > 0 := fun x => h (this.mp x)
    simp [h, h']

theorem filter_isEmpty (p : Byte → Bool) (l : List Byte) : (l.filter p).isEmpty = !(l.any p) := by
  induction l with
  | nil => rfl
  | cons a t ih =>
    by_cases h : p a = true
    · simp [h]
    · have h' : p a = false := by simpa using h
      simp [h', ih]

private theorem alleles_fold (rows : CRows) (sites : List Nat) (a b : Nat) :
    sites.foldl (fun acc j =>
      let col := (columnAt rows j).filter fun s => s != GAP && s != POINT && s != OTHER
      (acc.1 + (countsBy id col).length, if col.isEmpty then acc.2 else acc.2 + 1)) (a, b) =
    (a + (sites.map fun j => Spec.nbDistinct ((Spec.column rows j).filter Spec.plain)).sum,
     b + (sites.filter fun j => (Spec.column rows j).any Spec.plain).length) := by
  induction sites generalizing a b with
  | nil => simp
  | cons j t ih =>
    simp only [List.foldl_cons]
    rw [ih]
    have e1 : ((columnAt rows j).filter fun s => s != GAP && s != POINT && s != OTHER) =
        (Spec.column rows j).filter Spec.plain := rfl
    rw [e1, countsBy_id_length, filter_isEmpty]
    by_cases h : (Spec.column rows j).any Spec.plain = true
    · simp [h, List.filter_cons_of_pos, Nat.add_assoc, Nat.add_comm 1]
    · have h' : (Spec.column rows j).any Spec.plain = false := by simpa using h
      simp [h', Nat.add_assoc]

theorem avgAllelesCounts_eq (rows : CRows) (L : Int) :
    avgAllelesCounts rows L = Spec.allelesCounts rows L.toNat := by
  unfold avgAllelesCounts Spec.allelesCounts
  rw [alleles_fold]
  simp

/-! ### InformativeSites -/

/-- number of keys counted at least twice -/
def nbTwice (ks : List Byte) (g : Byte → Nat) : Nat := (ks.filter fun k => g k ≥ 2).length

theorem nbTwice_incr (ks : List Byte) (hn : ks.Nodup) (g : Byte → Nat) (u : Byte) (hu : u ∈ ks) :
    nbTwice ks (incr g u) = nbTwice ks g + (if g u + 1 == 2 then 1 else 0) := by
  induction ks with
  | nil => simp at hu
  | cons a t ih =>
    have hn' := List.nodup_cons.mp hn
    unfold nbTwice at ih ⊢
    by_cases hau : a = u
    · subst hau
      have hrest : (t.filter fun k => incr g a k ≥ 2) = t.filter fun k => g k ≥ 2 := by
        apply List.filter_congr
        intro k hk
        have : (k == a) = false := by
          simp only [beq_eq_false_iff_ne, ne_eq]; intro e; subst e; exact hn'.1 hk
        simp [incr, this]
      have hinc : incr g a a = g a + 1 := by simp [incr]
      simp only [List.filter_cons, hrest, hinc]
      by_cases h2 : g a ≥ 2
      · have h3 : g a + 1 ≥ 2 := by omega
        have h4 : (g a + 1 == 2) = false := by simp; omega
        simp [h2, h3, h4]
      · by_cases h1 : g a = 1
        · simp [h1]
        · have h3 : ¬ g a + 1 ≥ 2 := by omega
          have h4 : (g a + 1 == 2) = false := by simp; omega
          simp [h2, h3, h4]
    · have hut : u ∈ t := by
        rcases List.mem_cons.mp hu with h | h
        · exact absurd h.symm hau
        · exact h
      have hinc : incr g u a = g a := by
        have : (a == u) = false := by simp only [beq_eq_false_iff_ne, ne_eq]; exact hau
        simp [incr, this]
      have := ih hn'.2 hut
      simp only [List.filter_cons, hinc]
      by_cases h2 : g a ≥ 2
      · simp only [h2, decide_true, if_true, List.length_cons, this]; omega
      · simp only [h2, decide_false, Bool.false_eq_true, if_false, this]

theorem nbTwice_mono (ks : List Byte) (g g' : Byte → Nat) (h : ∀ k, g k ≤ g' k) : nbTwice ks g ≤ nbTwice ks g' := by
  unfold nbTwice
  rw [← List.countP_eq_length_filter, ← List.countP_eq_length_filter]
  apply List.countP_mono_left
  intro k _ hk
  simp only [ge_iff_le, decide_eq_true_eq] at hk ⊢
  exact Nat.le_trans hk (h k)

/-- the naive count of upper-cased characters occurring at least twice among `cs` -/
def twice (cs : List Byte) : Nat := nbTwice Spec.allBytes (Spec.occ Spec.upperCase cs)

theorem twice_append_mono (cs ds : List Byte) : twice cs ≤ twice (cs ++ ds) := by
  apply nbTwice_mono
  intro k
  unfold Spec.occ
  rw [List.countP_append]
  omega

/-- invariant of the loop: `counts` is the table of the kept characters seen so far (`done`), `nbinf` the
number of characters counted at least twice, still below two -/
theorem informativeLoop_inv (all : Byte) (col done : List Byte) (hlt : twice done < 2) :
    informativeLoop all col (Spec.countTable Spec.upperCase done) (twice done) =
      decide (twice (done ++ col.filter fun s => s != 45 && s != 46 && s != all) ≥ 2) := by
  induction col generalizing done with
  | nil =>
    simp only [informativeLoop, List.filter_nil, List.append_nil]
    simp; omega
  | cons s t ih =>
    unfold informativeLoop
    have hk : (s != GAP && s != POINT && s != all) = (s != 45 && s != 46 && s != all) := rfl
    rw [hk]
    by_cases hkeep : (s != 45 && s != 46 && s != all) = true
    · simp only [hkeep, if_true, List.filter_cons_of_pos]
      have hb : bump (toUpper s) (Spec.countTable Spec.upperCase done) = Spec.countTable Spec.upperCase (done ++ [s]) := by
        unfold Spec.countTable
        rw [← tab_allBytes, ← tab_allBytes, bump_tab _ allBytes_pairwise _ _ (mem_allBytes _)]
        apply tab_congr
        intro k _
        rw [occ_append_singleton]; rfl
      rw [hb, find_countTable]
      have hocc : Spec.occ Spec.upperCase (done ++ [s]) (toUpper s) = Spec.occ Spec.upperCase done (Spec.upperCase s) + 1 := by
        rw [occ_append_singleton]; simp [incr, upper_eq]
      have hpos : Spec.occ Spec.upperCase (done ++ [s]) (toUpper s) > 0 := by omega
      simp only [hpos, if_true, Option.map_some, Option.getD_some]
      have htw : twice (done ++ [s]) = twice done + (if Spec.occ Spec.upperCase done (Spec.upperCase s) + 1 == 2 then 1 else 0) := by
        unfold twice
        rw [← nbTwice_incr _ allBytes_nodup _ _ (mem_allBytes _)]
        unfold nbTwice
        congr 1
        apply List.filter_congr
        intro k _
        rw [occ_append_singleton]
      rw [hocc]
      have hnb : (if (Spec.occ Spec.upperCase done (Spec.upperCase s) + 1 == 2) = true then twice done + 1 else twice done) =
          twice (done ++ [s]) := by
        rw [htw]; split <;> simp
      rw [hnb]
      by_cases hge : twice (done ++ [s]) ≥ 2
      · have hmono := twice_append_mono (done ++ [s]) (t.filter fun s => s != 45 && s != 46 && s != all)
        have : twice (done ++ s :: t.filter fun s => s != 45 && s != 46 && s != all) ≥ 2 := by
          have e : done ++ s :: (t.filter fun s => s != 45 && s != 46 && s != all) =
              (done ++ [s]) ++ t.filter fun s => s != 45 && s != 46 && s != all := by simp
          rw [e]; omega
        simp [hge, this]
      · have hlt' : twice (done ++ [s]) < 2 := by omega
        simp only [hge, if_false]
        rw [ih (done ++ [s]) hlt']
        simp
    · have hkeep' : (s != 45 && s != 46 && s != all) = false := by simpa using hkeep
      simp only [hkeep', Bool.false_eq_true, if_false]
      rw [List.filter_cons_of_neg (by simp [hkeep'])]
      exact ih done hlt

theorem twice_nil : twice [] = 0 := by
  unfold twice nbTwice
  simp [Spec.occ]

theorem countTable_nil (f : Byte → Byte) : Spec.countTable f [] = [] := by
  unfold Spec.countTable Spec.tableOf
  simp [Spec.occ]

theorem informativeLoop_eq (all : Byte) (col : List Byte) :
    informativeLoop all col [] 0 = Spec.isInformative all col := by
  have := informativeLoop_inv all col [] (by rw [twice_nil]; omega)
  rw [twice_nil, countTable_nil] at this
  rw [this]
  simp [Spec.isInformative, twice, nbTwice]

theorem informativeSites_eq (rows : CRows) (L : Int) (alphabet : Nat) :
    informativeSites rows L alphabet = Spec.informativeSites rows L.toNat alphabet := by
  unfold informativeSites Spec.informativeSites
  have hw : (if alphabet == AMINOACIDS then (88 : Byte) else if alphabet == NUCLEOTIDS then 78 else 46) =
      Spec.wildcardOf alphabet := by
    unfold Spec.wildcardOf AMINOACIDS NUCLEOTIDS
    by_cases h0 : alphabet = 0
    · simp [h0]
    · by_cases h1 : alphabet = 1
      · simp [h1]
      · simp [h0, h1]
  simp only [hw, informativeLoop_eq, column_eq]

end Gv.Proofs.StatsSites
