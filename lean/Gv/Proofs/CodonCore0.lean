import Gv.Proofs.CodonCore
/-! all 17³ representative codons for table standardcode, by kernel evaluation -/
namespace Gv.Proofs.CodonCore
open Gv Gv.Model
set_option maxRecDepth 100000

theorem finite_core0 : ∀ a ∈ reps, ∀ b ∈ reps, ∀ c ∈ reps,
    translateCodon Gen.standardcode a b c = Spec.translateCodon Spec.ncbi1 a b c := by
  decide +kernel

end Gv.Proofs.CodonCore
