import Gv.NumRealD
import Gv.Model.Dist
import Gv.Proofs.DistLemmas
import Mathlib.Algebra.BigOperators.Group.Finset.Basic
import Mathlib.Algebra.BigOperators.Group.List.Basic
import Mathlib.Algebra.Module.Basic
/-!
Helper development for property C08, first half (Mathlib, weights in `ℝ`, sums exact).

Part A: every result of `countMutations`, `countDiffs`, `countDiffsWithGaps` of `Model/Dist.lean`
is a *weighted count* `wsum ind l = Σ_{s ∈ l, ind s} s.w` for an indicator `ind` that only looks at
the two codes and the selection flag of the site.

Part B: weighted multisets.  `tot F cols = Σ_{(x, w) ∈ cols} w • F x` depends on `cols` only through
`colWeight x cols` (the total weight of the columns whose content is `x`).

The property theorems are in `Props/C08Cols.lean`.
-/
namespace Gv.Proofs.DistCols
open Gv Gv.Model.Dist

/-! ## Part A — the counters are weighted counts -/

/-- weight of the sites picked by `ind` -/
noncomputable def wsum (ind : Code → Code → Bool → Bool) (l : List (Site ℝ)) : ℝ :=
  (l.map fun s => if ind s.a s.b s.sel then s.w else 0).sum

@[simp] theorem wsum_nil (ind : Code → Code → Bool → Bool) : wsum ind [] = 0 := rfl

theorem wsum_cons (ind : Code → Code → Bool → Bool) (s : Site ℝ) (l : List (Site ℝ)) :
    wsum ind (s :: l) = (if ind s.a s.b s.sel then s.w else 0) + wsum ind l := by
  simp [wsum]

theorem wsum_append (ind : Code → Code → Bool → Bool) (l₁ l₂ : List (Site ℝ)) :
    wsum ind (l₁ ++ l₂) = wsum ind l₁ + wsum ind l₂ := by
  simp [wsum]

theorem wsum_perm (ind : Code → Code → Bool → Bool) {l₁ l₂ : List (Site ℝ)} (h : l₁.Perm l₂) :
    wsum ind l₁ = wsum ind l₂ :=
  (h.map _).sum_eq

/-- the sites counted in `total` by `countMutations` -/
def iTot (a b : Code) (sel : Bool) : Bool := isNuc a && isNuc b && sel
def iTv (a b : Code) (sel : Bool) : Bool := iTot a b sel && a != b && isTransversion a b
def iTs (a b : Code) (sel : Bool) : Bool := iTot a b sel && a != b && !isTransversion a b && isTransition a b
def iAG (a b : Code) (sel : Bool) : Bool := iTot a b sel && a != b && isAG a b
def iCT (a b : Code) (sel : Bool) : Bool := iTot a b sel && a != b && !isAG a b && isCT a b

/-- the guard of `countDiffs` (`g = false`) / `countDiffsWithGaps` (`g = true`) -/
def dCond (g : Bool) (a b : Code) (sel : Bool) : Bool :=
  (if g then (isNuc a || isNuc b) else (isNuc a && isNuc b)) && sel
/-- the sites counted as a difference -/
def iNb (g : Bool) (a b : Code) (sel : Bool) : Bool := dCond g a b sel && a != b && ntIUPACDifference a b
/-- the sites that stay in `total` (not cancelled by `removeAmbiguous`) -/
def iDT (g r : Bool) (a b : Code) (sel : Bool) : Bool :=
  dCond g a b sel && !(!(a != b && ntIUPACDifference a b) && r && (isAmbiguous a || isAmbiguous b))

theorem foldl_add {β γ : Type} (T : β → ℝ) (f : β → γ → β) (g : γ → ℝ)
    (h : ∀ st x, T (f st x) = T st + g x) (l : List γ) (st : β) :
    T (l.foldl f st) = T st + (l.map g).sum := by
  induction l generalizing st with
  | nil => simp
  | cons x t ih => simp only [List.foldl, ih, h, List.map, List.sum_cons]; ring

theorem mutStep_eq (st : Mut ℝ) (s : Site ℝ) : mutStep st s =
    ⟨st.transitions + (if iTs s.a s.b s.sel then s.w else 0), st.transversions + (if iTv s.a s.b s.sel then s.w else 0),
     st.ag + (if iAG s.a s.b s.sel then s.w else 0), st.ct + (if iCT s.a s.b s.sel then s.w else 0),
     st.total + (if iTot s.a s.b s.sel then s.w else 0)⟩ := by
  unfold mutStep iTs iTv iAG iCT iTot
  generalize (isNuc s.a && isNuc s.b && s.sel) = c
  generalize (s.a != s.b) = ne
  generalize isTransversion s.a s.b = tv
  generalize isTransition s.a s.b = ts
  generalize isAG s.a s.b = ag
  generalize isCT s.a s.b = ct
  cases c <;> cases ne <;> cases tv <;> cases ts <;> cases ag <;> cases ct <;> simp

private theorem zero_real : (@OfNat.ofNat ℝ 0 (instOfNatOfRealLike 0)) = (0 : ℝ) := by
  real_like

/-- `countMutations` over the reals: five weighted counts -/
theorem countMutations_eq (l : List (Site ℝ)) :
    countMutations l = ⟨wsum iTs l, wsum iTv l, wsum iAG l, wsum iCT l, wsum iTot l⟩ := by
  unfold countMutations
  simp only [zero_real]
  have h1 := foldl_add Mut.transitions mutStep (fun s => if iTs s.a s.b s.sel then s.w else 0)
    (fun st s => by rw [mutStep_eq]) l ⟨0, 0, 0, 0, 0⟩
  have h2 := foldl_add Mut.transversions mutStep (fun s => if iTv s.a s.b s.sel then s.w else 0)
    (fun st s => by rw [mutStep_eq]) l ⟨0, 0, 0, 0, 0⟩
  have h3 := foldl_add Mut.ag mutStep (fun s => if iAG s.a s.b s.sel then s.w else 0)
    (fun st s => by rw [mutStep_eq]) l ⟨0, 0, 0, 0, 0⟩
  have h4 := foldl_add Mut.ct mutStep (fun s => if iCT s.a s.b s.sel then s.w else 0)
    (fun st s => by rw [mutStep_eq]) l ⟨0, 0, 0, 0, 0⟩
  have h5 := foldl_add Mut.total mutStep (fun s => if iTot s.a s.b s.sel then s.w else 0)
    (fun st s => by rw [mutStep_eq]) l ⟨0, 0, 0, 0, 0⟩
  simp only [zero_add] at h1 h2 h3 h4 h5
  cases hl : List.foldl mutStep ⟨0, 0, 0, 0, 0⟩ l with
  | mk a b c d e =>
    rw [hl] at h1 h2 h3 h4 h5
    simp only at h1 h2 h3 h4 h5
    simp only [wsum, h1, h2, h3, h4, h5]

theorem diffStep_eq (g r : Bool) (st : ℝ × ℝ) (s : Site ℝ) : diffStep g r st s =
    (st.1 + (if iNb g s.a s.b s.sel then s.w else 0), st.2 + (if iDT g r s.a s.b s.sel then s.w else 0)) := by
  unfold diffStep diffUpdate iNb iDT dCond ofBool
  real_like
  generalize isNuc s.a = n1
  generalize isNuc s.b = n2
  generalize (s.a != s.b) = ne
  generalize ntIUPACDifference s.a s.b = d
  generalize (isAmbiguous s.a || isAmbiguous s.b) = amb
  cases g <;> cases r <;> cases n1 <;> cases n2 <;> cases s.sel <;> cases ne <;> cases d <;> cases amb <;> simp

/-- `countDiffs` (`g = false`) and `countDiffsWithGaps` (`g = true`) over the reals: two weighted counts -/
theorem countDiffsGen_eq (g r : Bool) (l : List (Site ℝ)) :
    countDiffsGen g r l = (wsum (iNb g) l, wsum (iDT g r) l) := by
  unfold countDiffsGen
  simp only [zero_real]
  have h1 := foldl_add Prod.fst (diffStep g r) (fun s => if iNb g s.a s.b s.sel then s.w else 0)
    (fun st s => by rw [diffStep_eq]) l (0, 0)
  have h2 := foldl_add Prod.snd (diffStep g r) (fun s => if iDT g r s.a s.b s.sel then s.w else 0)
    (fun st s => by rw [diffStep_eq]) l (0, 0)
  simp only [zero_add] at h1 h2
  exact Prod.ext h1 h2

/-! ## Part B — weighted multisets -/

section multiset
variable {X : Type} [DecidableEq X] {M : Type} [AddCommGroup M] [Module ℝ M]

/-- `Σ w • F x` over the weighted columns -/
def tot (F : X → M) (cols : List (X × ℝ)) : M := (cols.map fun c => c.2 • F c.1).sum

/-- total weight of the columns whose content is `x` -/
def colWeight (x : X) (cols : List (X × ℝ)) : ℝ := ((cols.filter fun c => c.1 = x).map Prod.snd).sum

theorem colWeight_cons (x : X) (c : X × ℝ) (t : List (X × ℝ)) :
    colWeight x (c :: t) = (if c.1 = x then c.2 else 0) + colWeight x t := by
  unfold colWeight
  by_cases h : c.1 = x <;> simp [h]

theorem colWeight_append (x : X) (l₁ l₂ : List (X × ℝ)) :
    colWeight x (l₁ ++ l₂) = colWeight x l₁ + colWeight x l₂ := by
  simp [colWeight]

theorem colWeight_perm (x : X) {l₁ l₂ : List (X × ℝ)} (h : l₁.Perm l₂) : colWeight x l₁ = colWeight x l₂ :=
  ((h.filter _).map _).sum_eq

theorem tot_eq_finset (F : X → M) (cols : List (X × ℝ)) (S : Finset X) (hS : ∀ c ∈ cols, c.1 ∈ S) :
    tot F cols = ∑ x ∈ S, colWeight x cols • F x := by
  induction cols with
  | nil => simp [tot, colWeight]
  | cons c t ih =>
    have hc : c.1 ∈ S := hS c (by simp)
    have ht : ∀ c ∈ t, c.1 ∈ S := fun c' h => hS c' (by simp [h])
    have : tot F (c :: t) = c.2 • F c.1 + tot F t := by simp [tot]
    rw [this, ih ht]
    simp only [colWeight_cons, add_smul, Finset.sum_add_distrib, ite_smul, zero_smul]
    rw [Finset.sum_ite_eq]
    simp [hc]

/-- **a weighted sum over columns depends only on the weight of each column content**, up to the
common factor `k` -/
theorem tot_of_colWeight (F : X → M) (k : ℝ) (cols' cols : List (X × ℝ))
    (h : ∀ x, colWeight x cols' = k * colWeight x cols) : tot F cols' = k • tot F cols := by
  let S : Finset X := (cols'.map Prod.fst ++ cols.map Prod.fst).toFinset
  have h1 : ∀ c ∈ cols', c.1 ∈ S := fun c hc => by
    simp only [S, List.mem_toFinset, List.mem_append, List.mem_map]
    exact Or.inl ⟨c, hc, rfl⟩
  have h2 : ∀ c ∈ cols, c.1 ∈ S := fun c hc => by
    simp only [S, List.mem_toFinset, List.mem_append, List.mem_map]
    exact Or.inr ⟨c, hc, rfl⟩
  rw [tot_eq_finset F cols' S h1, tot_eq_finset F cols S h2, Finset.smul_sum]
  apply Finset.sum_congr rfl
  intro x _
  rw [h x, mul_smul]

end multiset

end Gv.Proofs.DistCols
