import Gv.Proofs.DistColsComp
/-!
Helper development for property C08, first half — Part I: reverse complement of the whole alignment at
the level of `DistMatrix`: complementing every residue (any counting mode), then reversing the
column order (a column permutation: not for the internal-gap mode).
-/
namespace Gv.Proofs.DistCols
open Gv Gv.Model.Dist
set_option maxRecDepth 100000

/-- every row complemented, order kept -/
def complementRows (rows : List Seq) : List Seq := rows.map (·.map compByte)

/-- `ReverseComplement` of every row (the residues all have a complement) -/
def revcompRows (rows : List Seq) : List Seq := rows.map fun r => (r.map compByte).reverse

/-- the weights follow their columns -/
def reverseWeights (L : Nat) (ws : Option (List ℝ)) : Option (List ℝ) := ws.map fun v => (v.take L).reverse

def compCol (c : Col) : Col := (c.1.map compByte, c.2)

def swapV (v : V) : V := (v.2.2.2.1, v.2.2.1, v.2.1, v.1, v.2.2.2.2)

theorem swapV_add (u v : V) : swapV (u + v) = swapV u + swapV v := rfl
theorem swapV_smul (k : ℝ) (v : V) : swapV (k • v) = k • swapV v := rfl
theorem swapV_zero : swapV 0 = 0 := rfl

theorem normV_swapV (v : V) : normV (swapV v) = swapFreq (normV v) := rfl

theorem codeOf_le : ∀ b : Byte, codeOf b ≤ 15 := by decide +kernel

/-- the bases of the complemented code are the complements of the bases: counts per index mirrored -/
theorem cell_comp_nat : ∀ c : Code,
    idCount 0 (possibleNt (compCode c)) = idCount 3 (possibleNt c) ∧
    idCount 1 (possibleNt (compCode c)) = idCount 2 (possibleNt c) ∧
    idCount 2 (possibleNt (compCode c)) = idCount 1 (possibleNt c) ∧
    idCount 3 (possibleNt (compCode c)) = idCount 0 (possibleNt c) ∧
    (possibleNt (compCode c)).length = (possibleNt c).length := by decide +kernel

theorem cellV_comp (ov : Bool) (c : Code) : cellV ov (compCode c) = swapV (cellV ov c) := by
  obtain ⟨h0, h1, h2, h3, hl⟩ := cell_comp_nat c
  unfold cellV
  rw [(compCode_facts c).1, h0, h1, h2, h3, hl]
  split <;> rfl

theorem compByte_code (b : Byte) (h : okByte b = true ∨ b = 0) : codeOf (compByte b) = compCode (codeOf b) := by
  rcases h with h | rfl
  · exact (compByte_facts b h).1
  · decide

theorem getD_map_compByte (x : List Byte) (i : Nat) : (x.map compByte).getD i 0 = compByte (x.getD i 0) := by
  rw [List.getD_eq_getElem?_getD, List.getD_eq_getElem?_getD, List.getElem?_map]
  cases x[i]? with
  | none => simp [compByte_zero]
  | some b => simp

theorem getD_ok (x : List Byte) (hx : x.all okByte = true) (i : Nat) : okByte (x.getD i 0) = true ∨ x.getD i 0 = 0 := by
  rw [List.getD_eq_getElem?_getD]
  cases h : x[i]? with
  | none => right; rfl
  | some b => left; exact List.all_eq_true.mp hx b (List.mem_of_getElem? h)

theorem selCol_comp (rm : Bool) (x : List Byte) (hx : x.all okByte = true) : selCol rm (x.map compByte) = selCol rm x := by
  unfold selCol
  have : (x.map compByte).any badForSelection = x.any badForSelection := by
    rw [List.any_map]
    clear rm
    induction x with
    | nil => rfl
    | cons b t ih =>
      simp only [List.all_cons, Bool.and_eq_true] at hx
      simp only [List.any_cons, Function.comp, (compByte_facts b hx.1).2.2.1, ih hx.2]
  rw [this]

theorem colF_comp (ov rm : Bool) (x : List Byte) (hx : x.all okByte = true) :
    colF ov rm (x.map compByte) = swapV (colF ov rm x) := by
  unfold colF
  rw [selCol_comp rm x hx]
  split
  · rw [List.map_map]
    clear * - hx
    induction x with
    | nil => rfl
    | cons b t ih =>
      simp only [List.all_cons, Bool.and_eq_true] at hx
      simp only [List.map_cons, List.sum_cons, swapV_add, Function.comp]
      rw [ih hx.2, (compByte_facts b hx.1).1, cellV_comp]
  · rfl

theorem tot_compCol (ov rm : Bool) (cols : List Col) (h : ∀ c ∈ cols, c.1.all okByte = true) :
    tot (colF ov rm) (cols.map compCol) = swapV (tot (colF ov rm) cols) := by
  unfold tot
  induction cols with
  | nil => rfl
  | cons c t ih =>
    simp only [List.map_cons, List.sum_cons, swapV_add, swapV_smul, compCol]
    rw [colF_comp ov rm c.1 (h c (by simp))]
    congr 1
    exact ih (fun c' hc' => h c' (by simp [hc']))

theorem alnLen_complementRows (rows : List Seq) : alnLen (complementRows rows) = alnLen rows := by
  unfold alnLen complementRows
  cases rows <;> simp

theorem colsOf_complementRows (rows : List Seq) (ws : Option (List ℝ)) :
    colsOf (complementRows rows) ws = (colsOf rows ws).map compCol := by
  unfold colsOf
  rw [alnLen_complementRows, List.map_map]
  apply List.map_congr_left
  intro pos _
  simp only [Function.comp, compCol, complementRows, List.map_map]
  congr 1
  apply List.map_congr_left
  intro r _
  exact getD_map_compByte r pos

theorem wf_complementRows (rows : List Seq) (ws : Option (List ℝ)) (h : WF rows ws) : WF (complementRows rows) ws := by
  constructor
  · intro r hr
    rw [alnLen_complementRows]
    obtain ⟨r0, hr0, rfl⟩ := List.mem_map.mp hr
    rw [List.length_map]
    exact h.rect r0 hr0
  · rw [alnLen_complementRows]; exact h.wlen

theorem allOk_complementRows (rows : List Seq) (h : rows.all (fun r => r.all okByte) = true) :
    (complementRows rows).all (fun r => r.all okByte) = true := by
  simp only [complementRows, List.all_map, List.all_eq_true, Function.comp] at h ⊢
  intro r hr b hb
  exact (compByte_facts b (h r hr b hb)).2.1

theorem siteOfCol_comp (rm : Bool) (i j : Nat) (c : Col) (hc : c.1.all okByte = true) :
    siteOfCol rm i j (compCol c) = compSite (siteOfCol rm i j c) := by
  simp only [siteOfCol, compCol, compSite, getD_map_compByte, selCol_comp rm c.1 hc,
    compByte_code _ (getD_ok c.1 hc i), compByte_code _ (getD_ok c.1 hc j)]

theorem low_cols (rm : Bool) (i j : Nat) (cols : List Col) : Low (cols.map (siteOfCol rm i j)) := by
  intro s hs
  obtain ⟨c, _, rfl⟩ := List.mem_map.mp hs
  exact ⟨codeOf_le _, codeOf_le _⟩

/-- **complementing every residue leaves the matrix unchanged**: every model, every counting mode
(internal gaps included), any ranges; the residues must all have an IUPAC code (otherwise `DistMatrix` fails) -/
theorem distMatrix_complementRows (c : Cfg ℝ) (rows : List Seq) (hwf : WF rows c.weights)
    (hok : rows.all (fun r => r.all okByte) = true) (a b cc d : Int) :
    distMatrix c (complementRows rows) a b cc d = distMatrix c rows a b cc d := by
  apply distMatrix_congr c c rows (complementRows rows) a b cc d rfl (by simp [complementRows])
  rw [initModel_eq, initModel_eq, hok, allOk_complementRows rows hok]
  simp only [if_true]
  intro i j
  have hcols : ∀ cl ∈ colsOf rows c.weights, cl.1.all okByte = true := by
    have := (allOk_iff_cols rows c.weights hwf.rect).symm.trans hok
    exact fun cl hcl => List.all_eq_true.mp this cl hcl
  apply distance_comp
  · show piOf c (complementRows rows) c.weights = swapFreq (piOf c rows c.weights)
    unfold piOf
    split
    · show probaNt _ ((complementRows rows).map fun r => r.map codeOf) _ _ = _
      rw [probaNt_eq_cols, probaNt_eq_cols, colsOf_complementRows, tot_compCol _ _ _ hcols, normV_swapV]
    · rfl
  · show Low (sites ((rows.map fun r => r.map codeOf).getD i []) ((rows.map fun r => r.map codeOf).getD j [])
      (selectedSites rows c.rmGaps) c.weights)
    by_cases hij : i < rows.length ∧ j < rows.length
    · rw [sites_eq_cols rows c.weights hwf c.rmGaps i j hij.1 hij.2]
      exact low_cols _ _ _ _
    · rw [sites_out_of_range _ _ _ i j (by simpa using hij)]
      intro s hs; cases hs
  · show sites (((complementRows rows).map fun r => r.map codeOf).getD i [])
        (((complementRows rows).map fun r => r.map codeOf).getD j []) (selectedSites (complementRows rows) c.rmGaps) c.weights
      = (sites ((rows.map fun r => r.map codeOf).getD i []) ((rows.map fun r => r.map codeOf).getD j [])
          (selectedSites rows c.rmGaps) c.weights).map compSite
    by_cases hij : i < rows.length ∧ j < rows.length
    · have hn : (complementRows rows).length = rows.length := by simp [complementRows]
      rw [sites_eq_cols _ c.weights (wf_complementRows rows c.weights hwf) c.rmGaps i j (hn ▸ hij.1) (hn ▸ hij.2),
        sites_eq_cols rows c.weights hwf c.rmGaps i j hij.1 hij.2, colsOf_complementRows, List.map_map, List.map_map]
      apply List.map_congr_left
      intro cl hcl
      exact siteOfCol_comp c.rmGaps i j cl (hcols cl hcl)
    · rw [sites_out_of_range _ _ _ i j (by simpa [complementRows] using hij),
        sites_out_of_range _ _ _ i j (by simpa using hij)]
      rfl

/-! ### reversing the columns -/

theorem pickCols_reverse {β : Type} (d : β) (r : List β) : pickCols d (List.range r.length).reverse r = r.reverse := by
  unfold pickCols
  rw [List.map_reverse]
  congr 1
  have := range_map_getD (fun x : β => x) r d
  simpa using this

theorem pickCols_reverse_take (L : Nat) (v : List ℝ) (h : L ≤ v.length) :
    pickCols 1 (List.range L).reverse v = (v.take L).reverse := by
  have hl : (v.take L).length = L := by simp [h]
  have := pickCols_reverse (1 : ℝ) (v.take L)
  rw [hl] at this
  rw [← this]
  unfold pickCols
  apply List.map_congr_left
  intro q hq
  have hq' : q < L := by simpa using hq
  rw [List.getD_eq_getElem?_getD, List.getD_eq_getElem?_getD, List.getElem?_take_of_lt hq']

theorem revcompRows_eq_permute (rows : List Seq) (h : ∀ r ∈ rows, r.length = alnLen rows) :
    revcompRows rows = permuteCols (List.range (alnLen rows)).reverse (complementRows rows) := by
  unfold revcompRows permuteCols complementRows
  rw [List.map_map]
  apply List.map_congr_left
  intro r hr
  have := pickCols_reverse (0 : Byte) (r.map compByte)
  rw [List.length_map, h r hr] at this
  exact this.symm

theorem reverseWeights_eq_permute (L : Nat) (ws : Option (List ℝ)) (h : ∀ v, ws = some v → L ≤ v.length) :
    reverseWeights L ws = permuteWeights (List.range L).reverse ws := by
  cases ws with
  | none => rfl
  | some v =>
    simp only [reverseWeights, permuteWeights, Option.map_some, Option.some.injEq]
    exact (pickCols_reverse_take L v (h v rfl)).symm

/-- **reverse complement of the whole alignment** (weights reversed with their columns): same matrix.
Every model; counting modes 0 and 2 (the reversal is a column permutation). -/
theorem distMatrix_revcompRows (c : Cfg ℝ) (rows : List Seq) (hwf : WF rows c.weights)
    (hok : rows.all (fun r => r.all okByte) = true) (hint : usesInternalGaps c.model c.gapMode = false)
    (a b cc d : Int) :
    distMatrix { c with weights := reverseWeights (alnLen rows) c.weights } (revcompRows rows) a b cc d
      = distMatrix c rows a b cc d := by
  rw [revcompRows_eq_permute rows hwf.rect, reverseWeights_eq_permute _ _ hwf.wlen,
    ← distMatrix_complementRows c rows hwf hok]
  have hp : (List.range (alnLen rows)).reverse.Perm (List.range (alnLen (complementRows rows))) := by
    rw [alnLen_complementRows]; exact List.reverse_perm _
  have hwf' := wf_complementRows rows c.weights hwf
  exact distMatrix_of_colEquiv c _ (complementRows rows) _ 1 one_ne_zero hwf'
    (wf_permuteCols _ _ c.weights hp) (by simp [permuteCols]) hint (fun _ => rfl)
    (colEquiv_of_perm (colsOf_permuteCols_perm _ _ c.weights hp)) _ _ _ _

/-- tie to the model of `ReverseComplement` (property C06): when the row's complement succeeds, the
result is the reversed list of the complemented residues -/
theorem complementSeq_ok (s r : Seq) (h : Gv.Model.complementSeq s = (r, false)) : r = s.map compByte := by
  induction s generalizing r with
  | nil => simp [Gv.Model.complementSeq] at h; subst h; rfl
  | cons b t ih =>
    unfold Gv.Model.complementSeq at h
    cases hb : Gv.Model.complementByte b with
    | none => simp [hb] at h
    | some d =>
      simp only [hb] at h
      cases hr : Gv.Model.complementSeq t with
      | mk rt e =>
        rw [hr] at h
        simp only [Prod.mk.injEq] at h
        obtain ⟨h1, h2⟩ := h
        subst h2
        rw [← h1, ih rt hr]
        simp [compByte, hb]

theorem revcompSeq_ok (s r : Seq) (h : Gv.Model.revcompSeq s = (r, false)) : r = (s.map compByte).reverse := by
  unfold Gv.Model.revcompSeq at h
  cases hc : Gv.Model.complementSeq s with
  | mk rc e =>
    rw [hc] at h
    cases e with
    | true => simp at h
    | false =>
      simp only [Bool.false_eq_true, if_false, Prod.mk.injEq, and_true] at h
      rw [← h, complementSeq_ok s rc hc]

end Gv.Proofs.DistCols
