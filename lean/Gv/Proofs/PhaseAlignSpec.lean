import Gv.Spec.SW
import Gv.Proofs.SWSpec
import Gv.Proofs.SWFill
/-!
Helper development for C16 (specification side): under a *diagonally dominant* scoring scheme the best
score of an alignment anchored at the heads of `s` and `t` is at most the self-score `W s` of `s`, with
equality exactly when `s` is a prefix of `t`.

`Dom S s t`: every residue `a` of `s` scores positively against itself, and against every residue `b` of `t`
at most as much, with equality only for `b = a`.  Match/mismatch scoring with `mismatch < match`,
`0 < match` is dominant for all sequences (`dom_of_match_mismatch`).
-/
namespace Gv.Proofs.PhaseAlignSpec
open Gv Gv.Spec.SW Gv.Proofs.SWFill

/-- diagonal dominance of the substitution scores on the residues of `s` (rows) against those of `t` -/
def Dom (S : Scheme) (s t : Seq) : Prop :=
  ∀ a ∈ s, 0 < S.sub a a ∧ ∀ b ∈ t, S.sub a b ≤ S.sub a a ∧ (S.sub a b = S.sub a a → b = a)

/-- self-score of a sequence -/
def W (S : Scheme) : Seq → Int
  | [] => 0
  | a :: s => S.sub a a + W S s

/-- columns that are not a pair of equal residues -/
def defects : List Col → Nat
  | [] => 0
  | .pair a b :: t => (if a = b then 0 else 1) + defects t
  | .gap2 _ :: t => 1 + defects t
  | .gap1 _ :: t => 1 + defects t

theorem W_append (S : Scheme) (p r : Seq) : W S (p ++ r) = W S p + W S r := by
  induction p with
  | nil => simp [W]
  | cons a p ih => simp only [List.cons_append, W, ih]; omega

theorem W_nonneg (S : Scheme) (s : Seq) (h : ∀ a ∈ s, 0 < S.sub a a) : 0 ≤ W S s := by
  induction s with
  | nil => simp [W]
  | cons a s ih =>
    have := (h a (by simp))
    have := ih (fun b hb => h b (by simp [hb]))
    simp only [W]; omega

theorem W_pos (S : Scheme) (s : Seq) (hne : s ≠ []) (h : ∀ a ∈ s, 0 < S.sub a a) : 0 < W S s := by
  cases s with
  | nil => exact absurd rfl hne
  | cons a s =>
    have := h a (by simp)
    have := W_nonneg S s (fun b hb => h b (by simp [hb]))
    simp only [W]; omega

theorem W_prefix_le (S : Scheme) {p s : Seq} (hp : p <+: s) (h : ∀ a ∈ s, 0 < S.sub a a) : W S p ≤ W S s := by
  obtain ⟨r, rfl⟩ := hp
  rw [W_append]
  have := W_nonneg S r (fun b hb => h b (by simp [hb]))
  omega

theorem W_prefix_eq (S : Scheme) {p s : Seq} (hp : p <+: s) (h : ∀ a ∈ s, 0 < S.sub a a)
    (he : W S s ≤ W S p) : p = s := by
  obtain ⟨r, rfl⟩ := hp
  rw [W_append] at he
  cases r with
  | nil => simp
  | cons c r =>
    have := W_pos S (c :: r) (by simp) (fun b hb => h b (by simp [hb]))
    omega

theorem Dom.mono {S : Scheme} {s t s' t' : Seq} (h : Dom S s t) (hs : ∀ a ∈ s', a ∈ s) (ht : ∀ b ∈ t', b ∈ t) :
    Dom S s' t' :=
  fun a ha => ⟨(h a (hs a ha)).1, fun b hb => (h a (hs a ha)).2 b (ht b hb)⟩

theorem dom_of_match_mismatch (mt mm go ge : Int) (hpos : 0 < mt) (hlt : mm < mt) (s t : Seq) :
    Dom ⟨fun a b => if a != b then mm else mt, go, ge⟩ s t := by
  intro a _
  refine ⟨by simp [hpos], fun b _ => ?_⟩
  by_cases h : a = b
  · subst h; simp
  · have : (a != b) = true := by simp [h]
    simp only [this, if_true, bne_self_eq_false, Bool.false_eq_true, if_false]
    exact ⟨by omega, fun e => by omega⟩

section
variable (S : Scheme) (hle : S.gapopen ≤ S.gapext) (hneg : S.gapext < 0)
include hle hneg

/-- every column list costs its defects: `score + defects ≤ W (residues of the first sequence)` -/
theorem score_add_defects_le : ∀ (cols : List Col) (prev : St) (s t : Seq),
    (∀ a ∈ proj1 cols, a ∈ s) → (∀ b ∈ proj2 cols, b ∈ t) → Dom S s t →
    scoreFrom S prev cols + defects cols ≤ W S (proj1 cols) := by
  intro cols
  induction cols with
  | nil => intro _ _ _ _ _ _; simp [scoreFrom, defects, proj1, W]
  | cons c rest ih =>
    intro prev s t h1 h2 hd
    cases c with
    | pair a b =>
      simp only [proj1, proj2, List.mem_cons, forall_eq_or_imp] at h1 h2
      have := ih (Col.pair a b).kind s t h1.2 h2.2 hd
      obtain ⟨_, hb⟩ := hd a h1.1
      obtain ⟨hle', heq⟩ := hb b h2.1
      simp only [scoreFrom, colScore, defects, proj1, W]
      by_cases e : a = b
      · subst e; simp only [if_true]; omega
      · have : S.sub a b ≠ S.sub a a := fun h => e (heq h).symm
        simp only [e, if_false]; omega
    | gap2 a =>
      simp only [proj1, proj2, List.mem_cons, forall_eq_or_imp] at h1 h2
      have := ih (Col.gap2 a).kind s t h1.2 h2 hd
      have := (hd a h1.1).1
      have := gapCost_neg S hle hneg prev .x
      simp only [scoreFrom, colScore, defects, proj1, W]
      omega
    | gap1 b =>
      simp only [proj1, proj2, List.mem_cons, forall_eq_or_imp] at h1 h2
      have := ih (Col.gap1 b).kind s t h1 h2.2 hd
      have := gapCost_neg S hle hneg prev .y
      simp only [scoreFrom, colScore, defects, proj1]
      omega

omit hle hneg in
theorem proj_of_no_defects : ∀ (cols : List Col), defects cols = 0 → proj2 cols = proj1 cols := by
  intro cols
  induction cols with
  | nil => intro _; rfl
  | cons c rest ih =>
    intro h
    cases c with
    | pair a b =>
      simp only [defects] at h
      by_cases e : a = b
      · subst e; simp only [if_true, Nat.zero_add] at h; simp [proj1, proj2, ih h]
      · simp [e] at h
    | gap2 a => simp only [defects] at h; omega
    | gap1 b => simp only [defects] at h; omega

/-- **upper bound**: no alignment anchored at the heads of `s`, `t` beats the self-score of `s` -/
theorem brute_le_W (s t : Seq) (prev : St) (hd : Dom S s t) : bruteFrom S s t prev ≤ W S s := by
  obtain ⟨cols, ⟨hp1, hp2⟩, hsc⟩ := brute_attained S s t prev
  have h := score_add_defects_le S hle hneg cols prev s t (fun a ha => hp1.subset ha) (fun b hb => hp2.subset hb) hd
  have := W_prefix_le S hp1 (fun a ha => (hd a ha).1)
  omega

omit hle hneg in
/-- the diagonal of a prefix occurrence -/
theorem diag_score (s : Seq) (prev : St) : scoreFrom S prev (s.map fun c => Col.pair c c) = W S s ∧
    proj1 (s.map fun c => Col.pair c c) = s ∧ proj2 (s.map fun c => Col.pair c c) = s := by
  induction s generalizing prev with
  | nil => simp [scoreFrom, W, proj1, proj2]
  | cons a s ih =>
    obtain ⟨h1, h2, h3⟩ := ih (Col.pair a a).kind
    simp [scoreFrom, colScore, W, proj1, proj2, h1, h2, h3]

/-- **equality case**: the bound is attained (entering in state `m`) exactly when `s` is a prefix of `t` -/
theorem brute_eq_W_iff (s t : Seq) (hd : Dom S s t) : bruteFrom S s t .m = W S s ↔ s <+: t := by
  constructor
  · intro he
    obtain ⟨cols, ⟨hp1, hp2⟩, hsc⟩ := brute_attained S s t .m
    have h := score_add_defects_le S hle hneg cols .m s t (fun a ha => hp1.subset ha) (fun b hb => hp2.subset hb) hd
    have hw := W_prefix_le S hp1 (fun a ha => (hd a ha).1)
    have hdz : defects cols = 0 := by omega
    have hps : proj1 cols = s := W_prefix_eq S hp1 (fun a ha => (hd a ha).1) (by omega)
    rw [proj_of_no_defects cols hdz, hps] at hp2
    exact hp2
  · intro hp
    obtain ⟨h1, h2, h3⟩ := diag_score S s .m
    have hup := brute_upper S (s.map fun c => Col.pair c c) s t .m
      ⟨by rw [h2]; exact List.prefix_refl _, by rw [h3]; exact hp⟩
    have := brute_le_W S hle hneg s t .m hd
    omega

end
end Gv.Proofs.PhaseAlignSpec
