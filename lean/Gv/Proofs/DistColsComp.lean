import Gv.Proofs.DistColsIG
import Gv.Model.Seq
/-!
Helper development for property C08, first half — Part H: complementing every residue.

On IUPAC bit codes the complement reverses the four low bits (A ↔ T, C ↔ G).  It preserves "is a
nucleotide", "is ambiguous", equality, IUPAC compatibility, transitions and transversions, and
exchanges A↔G with C↔T; the base frequencies are exchanged accordingly (πA ↔ πT, πC ↔ πG).  The
estimators regenerated from the source are symmetric under that exchange (`tn93_swap`, `f84Init_swap`,
`f81Init_swap`), K2P / F84 drop the A↔G / C↔T counts.  The *order* of the columns is not touched here,
so the internal-gap counter is covered as well.
-/
namespace Gv.Proofs.DistCols
open Gv Gv.Model.Dist
set_option maxRecDepth 100000

/-- complement on IUPAC bit codes: A(1) ↔ T(8), C(2) ↔ G(4), i.e. the four low bits reversed -/
def compCode (c : Code) : Code :=
  ((c &&& 1) <<< 3) ||| ((c &&& 2) <<< 1) ||| ((c &&& 4) >>> 1) ||| ((c &&& 8) >>> 3) ||| (c &&& 0xF0)

theorem compCode_facts : ∀ a : Code, isNuc (compCode a) = isNuc a ∧ isAmbiguous (compCode a) = isAmbiguous a ∧
    compCode (compCode a) = a ∧ (a ≤ 15 → compCode a ≤ 15) := by decide +kernel

/-- the complement maps transitions to transitions, transversions to transversions, compatible codes to
compatible codes, and A↔G to C↔T (all pairs of the 16 IUPAC codes) -/
theorem compCode_pair : ∀ a : Code, a ≤ 15 → ∀ b : Code, b ≤ 15 →
    ntIUPACDifference (compCode a) (compCode b) = ntIUPACDifference a b ∧
    isTransversion (compCode a) (compCode b) = isTransversion a b ∧
    isTransition (compCode a) (compCode b) = isTransition a b ∧
    isAG (compCode a) (compCode b) = isCT a b ∧ isCT (compCode a) (compCode b) = isAG a b ∧
    (compCode a != compCode b) = (a != b) ∧ (isAG a b && isCT a b) = false := by decide +kernel

/-- complement of a residue (`Complement` of align/sequence.go); residues without complement are kept -/
def compByte (b : Byte) : Byte := (Gv.Model.complementByte b).getD b

/-- residue level (table `complement_nuc_mapping` and `iupacToInt`, both regenerated): for every residue
that has an IUPAC code, the code of the complement is the complement of the code -/
theorem compByte_facts : ∀ b : Byte, okByte b = true →
    codeOf (compByte b) = compCode (codeOf b) ∧ okByte (compByte b) = true ∧
    badForSelection (compByte b) = badForSelection b ∧ codeOf b ≤ 15 := by decide +kernel

theorem compByte_zero : compByte 0 = 0 := by decide

/-! ### sites -/

def compSite (s : Site ℝ) : Site ℝ := ⟨compCode s.a, compCode s.b, s.sel, s.w⟩

/-- the codes of the sites are IUPAC codes (≤ 15: what `alignmentToCodes` produces) -/
def Low (l : List (Site ℝ)) : Prop := ∀ s ∈ l, s.a ≤ 15 ∧ s.b ≤ 15

theorem wsum_comp (ind ind' : Code → Code → Bool → Bool) (l : List (Site ℝ)) (hl : Low l)
    (h : ∀ a : Code, a ≤ 15 → ∀ b : Code, b ≤ 15 → ∀ s, ind (compCode a) (compCode b) s = ind' a b s) :
    wsum ind (l.map compSite) = wsum ind' l := by
  unfold wsum
  rw [List.map_map]
  congr 1
  apply List.map_congr_left
  intro s hs
  simp only [Function.comp, compSite, h s.a (hl s hs).1 s.b (hl s hs).2]

theorem iTot_comp (a : Code) (_ : a ≤ 15) (b : Code) (_ : b ≤ 15) (s : Bool) :
    iTot (compCode a) (compCode b) s = iTot a b s := by
  simp only [iTot, (compCode_facts a).1, (compCode_facts b).1]

theorem iTv_comp (a : Code) (ha : a ≤ 15) (b : Code) (hb : b ≤ 15) (s : Bool) :
    iTv (compCode a) (compCode b) s = iTv a b s := by
  obtain ⟨_, h2, _, _, _, h6, _⟩ := compCode_pair a ha b hb
  simp only [iTv, iTot_comp a ha b hb, h2, h6]

theorem iTs_comp (a : Code) (ha : a ≤ 15) (b : Code) (hb : b ≤ 15) (s : Bool) :
    iTs (compCode a) (compCode b) s = iTs a b s := by
  obtain ⟨_, h2, h3, _, _, h6, _⟩ := compCode_pair a ha b hb
  simp only [iTs, iTot_comp a ha b hb, h2, h3, h6]

theorem iAG_comp (a : Code) (ha : a ≤ 15) (b : Code) (hb : b ≤ 15) (s : Bool) :
    iAG (compCode a) (compCode b) s = iCT a b s := by
  obtain ⟨_, _, _, h4, _, h6, h7⟩ := compCode_pair a ha b hb
  simp only [iAG, iCT, iTot_comp a ha b hb, h4, h6]
  revert h7
  cases isAG a b <;> cases isCT a b <;> simp

theorem iCT_comp (a : Code) (ha : a ≤ 15) (b : Code) (hb : b ≤ 15) (s : Bool) :
    iCT (compCode a) (compCode b) s = iAG a b s := by
  obtain ⟨_, _, _, h4, h5, h6, h7⟩ := compCode_pair a ha b hb
  simp only [iAG, iCT, iTot_comp a ha b hb, h4, h5, h6]
  revert h7
  cases isAG a b <;> cases isCT a b <;> simp

theorem dCond_comp (g : Bool) (a b : Code) (s : Bool) : dCond g (compCode a) (compCode b) s = dCond g a b s := by
  simp only [dCond, (compCode_facts a).1, (compCode_facts b).1]

theorem iNb_comp (g : Bool) (a : Code) (ha : a ≤ 15) (b : Code) (hb : b ≤ 15) (s : Bool) :
    iNb g (compCode a) (compCode b) s = iNb g a b s := by
  obtain ⟨h1, _, _, _, _, h6, _⟩ := compCode_pair a ha b hb
  simp only [iNb, dCond_comp, h1, h6]

theorem iDT_comp (g r : Bool) (a : Code) (ha : a ≤ 15) (b : Code) (hb : b ≤ 15) (s : Bool) :
    iDT g r (compCode a) (compCode b) s = iDT g r a b s := by
  obtain ⟨h1, _, _, _, _, h6, _⟩ := compCode_pair a ha b hb
  simp only [iDT, dCond_comp, h1, h6, (compCode_facts a).2.1, (compCode_facts b).2.1]

/-- `countMutations` on the complemented rows: the same counts with A↔G and C↔T exchanged -/
theorem countMutations_comp (l : List (Site ℝ)) (hl : Low l) :
    countMutations (l.map compSite) =
      ⟨(countMutations l).transitions, (countMutations l).transversions, (countMutations l).ct,
       (countMutations l).ag, (countMutations l).total⟩ := by
  rw [countMutations_eq, countMutations_eq, wsum_comp iTs iTs l hl iTs_comp, wsum_comp iTv iTv l hl iTv_comp,
    wsum_comp iAG iCT l hl iAG_comp, wsum_comp iCT iAG l hl iCT_comp, wsum_comp iTot iTot l hl iTot_comp]

theorem countDiffsGen_comp (g r : Bool) (l : List (Site ℝ)) (hl : Low l) :
    countDiffsGen g r (l.map compSite) = countDiffsGen g r l := by
  rw [countDiffsGen_eq, countDiffsGen_eq, wsum_comp _ _ l hl (iNb_comp g), wsum_comp _ _ l hl (iDT_comp g r)]

theorem igStep_comp (h r : Bool) (st : IG ℝ) (s : Site ℝ) (ha : s.a ≤ 15) (hb : s.b ≤ 15) :
    igStep h r st (compSite s) = igStep h r st s := by
  obtain ⟨h1, _, _, _, _, h6, _⟩ := compCode_pair s.a ha s.b hb
  simp only [igStep, diffUpdate, compSite, h1, h6, (compCode_facts s.a).1, (compCode_facts s.b).1,
    (compCode_facts s.a).2.1, (compCode_facts s.b).2.1]

/-- the internal-gap counter too: the order of the sites is kept -/
theorem internalGaps_comp (h r : Bool) (l : List (Site ℝ)) (hl : Low l) :
    countDiffsWithInternalGaps h r (l.map compSite) = countDiffsWithInternalGaps h r l := by
  unfold countDiffsWithInternalGaps
  have : ∀ st : IG ℝ, (l.map compSite).foldl (igStep h r) st = l.foldl (igStep h r) st := by
    induction l with
    | nil => intro st; rfl
    | cons s t ih =>
      intro st
      simp only [List.map_cons, List.foldl_cons]
      rw [igStep_comp h r st s (hl s (by simp)).1 (hl s (by simp)).2]
      exact ih (fun s' hs' => hl s' (by simp [hs'])) _
  rw [this]

/-! ### the estimators under the exchange πA ↔ πT, πC ↔ πG, A↔G ↔ C↔T -/

theorem comb (a c X Y : ℝ) :
    2 * (a + c) * (c / (a + c) * X + (1 - c / (a + c)) * Y)
      = 2 * (a + c) * (a / (a + c) * Y + (1 - a / (a + c)) * X) := by
  by_cases h : a + c = 0
  · simp [h]
  · field_simp
    ring

theorem clamp_eq {x y : ℝ} (h : x = y) :
    (if decide (0 < x) = true then x else 0) = (if decide (0 < y) = true then y else 0) := by
  rw [h]

set_option linter.unusedSimpArgs false in
set_option linter.unusedTactic false in
set_option linter.unreachableTactic false in
/-- TN93 as written in the source is symmetric under the strand exchange -/
theorem tn93_swap (g : Bool) (a πA πC πG πT p q p1 p2 t : ℝ) :
    Gen.tn93Distance g a πT πG πC πA p q p2 p1 t = Gen.tn93Distance g a πA πC πG πT p q p1 p2 t := by
  unfold Gen.tn93Distance
  real_like
  have c1 : πT + πC = πC + πT := add_comm _ _
  have c2 : πG + πA = πA + πG := add_comm _ _
  have c3 : πT * πC = πC * πT := mul_comm _ _
  have c4 : πG * πA = πA * πG := mul_comm _ _
  simp only [c1, c2, c3, c4]
  have c5 : 2 * (πA + πG) * (πC + πT) = 2 * (πC + πT) * (πA + πG) := by ring
  have c6 : πC * πT + πA * πG = πA * πG + πC * πT := add_comm _ _
  simp only [c5, c6]
  have hg : ∀ x y z : Bool, (!(x && y && z)) = (!(x && z && y)) := by decide
  rw [hg]
  cases g <;> simp only [Bool.false_eq_true, if_false, if_true]
  all_goals
    split
    · rfl
    · first
        | apply clamp_eq
        | skip
      rw [comb]

theorem f84Init_swap (πA πC πG πT : ℝ) : Gen.f84Init πT πG πC πA = Gen.f84Init πA πC πG πT := by
  unfold Gen.f84Init
  real_like
  refine Prod.ext ?_ (Prod.ext ?_ ?_) <;> simp only <;> ring

theorem f81Init_swap (πA πC πG πT : ℝ) : Gen.f81Init πT πG πC πA = Gen.f81Init πA πC πG πT := by
  unfold Gen.f81Init
  real_like
  ring

/-! ### `Distance` of every model -/

def swap34 : List ℝ → List ℝ
  | [a, b, c, d, e] => [a, b, d, c, e]
  | l => l

theorem runCounter_comp (v : Variant) (f : Bool) (words : List String) (l : List (Site ℝ)) (hl : Low l) :
    runCounter v f words (l.map compSite) =
      if words.head? == some "countMutations" then (runCounter v f words l).map swap34 else runCounter v f words l := by
  unfold runCounter
  split
  · simp only [countMutations_comp l hl, List.head?_cons, beq_self_eq_true, if_true, Option.map_some, swap34]
  · simp only [countDiffs, countDiffsGen_comp _ _ l hl]
    rfl
  · simp only [countDiffsWithGaps, countDiffsGen_comp _ _ l hl]
    rfl
  · simp only [internalGaps_comp _ _ l hl]
    rfl
  · split <;> rfl

def swapFreq (p : Freq ℝ) : Freq ℝ := ⟨p.pt, p.pg, p.pc, p.pa⟩

set_option hygiene false in
local macro "dist_comp_case" calls:term "," sw:term "," lhs:term "," flag:term : tactic => `(tactic| (
  cases hsel : selectCall $calls $sw gapMode with
  | none => simp only [distance, hsel]; rfl
  | some words =>
    simp only [distance, hsel, h, Option.bind_eq_bind, Option.bind_some, bind, pure]
    rw [runCounter_comp variant $flag words _ hl]
    cases hr : runCounter variant $flag words (sites s1 s2 ini.sel ws) with
    | none => split <;> rfl
    | some res =>
      split
      · rcases res with _ | ⟨a, _ | ⟨b, _ | ⟨c, _ | ⟨d, _ | ⟨e, _ | ⟨f, t⟩⟩⟩⟩⟩⟩ <;>
          simp [swap34, pick, $lhs:term, hpi, swapFreq, f81Init_swap, f84Init_swap, tn93_swap]
      · simp [hpi, swapFreq, f81Init_swap, f84Init_swap]))

set_option linter.unusedSimpArgs false in
set_option linter.unusedVariables false in
/-- **a pair's distance is unchanged when both rows are complemented** (codes complemented site by site,
base frequencies exchanged): every model, every counting mode -/
theorem distance_comp (c : Cfg ℝ) (ini ini' : Init ℝ) (s1 s2 s1' s2' : List Code)
    (hpi : ini'.pi = swapFreq ini.pi) (hl : Low (sites s1 s2 ini.sel c.weights))
    (h : sites s1' s2' ini'.sel c.weights = (sites s1 s2 ini.sel c.weights).map compSite) :
    distance c ini' s1' s2' = distance c ini s1 s2 := by
  obtain ⟨model, rmGaps, gapMode, rmAmb, gamma, alpha, ws, variant⟩ := c
  simp only at hl h
  cases model
  · dist_comp_case Gen.rawdistCalls, Gen.rawdistSwitchOn, Gen.rawdistCounterResults, false
  · dist_comp_case Gen.pdistCalls, Gen.pdistSwitchOn, Gen.pdistCounterResults, rmAmb
  · dist_comp_case Gen.jcCalls, Gen.jcSwitchOn, Gen.jcCounterResults, false
  · dist_comp_case Gen.k2pCalls, Gen.k2pSwitchOn, Gen.k2pCounterResults, false
  · dist_comp_case Gen.f81Calls, Gen.f81SwitchOn, Gen.f81CounterResults, false
  · dist_comp_case Gen.f84Calls, Gen.f84SwitchOn, Gen.f84CounterResults, false
  · have hsel : selectCall Gen.tn93Calls Gen.tn93SwitchOn gapMode
        = some ["countMutations", "seq1", "seq2", "m.selectedSites", "weights"] := by
      simp [selectCall, Gen.tn93Calls, Gen.tn93SwitchOn]
    simp only [distance, hsel, h, Option.bind_eq_bind, Option.bind_some, bind, pure, runCounter,
      countMutations_comp _ hl]
    simp [pick, Gen.tn93CounterResults, hpi, swapFreq, tn93_swap]
end Gv.Proofs.DistCols
