import Gv.Proofs.BagRef9
/-! Refinement (C01), part 10: `Concat`. -/
namespace Gv.Proofs.BagAbs
open Gv Gv.Model Gv.Spec Gv.Proofs.BagInv Gv.Proofs.BagFresh

/-- the reference's result rows of `a.Concat(c)` -/
def specConcatRows (b c : SBag) : List (String × Seq) :=
  let clen := if c.rows = [] then 0 else c.length.toNat
  let alen := if b.rows = [] then 0 else b.length.toNat
  (b.rows.map fun r =>
      match firstNamed r.1 c.rows with
      | some q => (r.1, r.2 ++ q.2)
      | none => (r.1, r.2 ++ List.replicate clen GAP)) ++
  ((c.rows.filter fun q => (firstNamed q.1 b.rows).isNone).map fun q => (q.1, List.replicate alen GAP ++ q.2))

theorem spec_concat_eq (s : SBag) (rows : List (String × Seq)) :
    Spec.stepOp s (.concat rows) =
      (if !s.isAlign then (some s, "na") else
       if (Spec.addAllStop { alphabet := s.alphabet, isAlign := true } rows).2 then (some s, "na") else
       if !s.names.Nodup then (none, "ok") else
       (some { s with rows := specConcatRows s (Spec.addAllStop { alphabet := s.alphabet, isAlign := true } rows).1 }, "ok")) := rfl

theorem present_eq (other : List (String × Seq)) (n : String) : present other n = (firstNamed n other).isSome := by
  unfold present
  induction other with
  | nil => rfl
  | cons p t ih =>
    simp only [List.find?_cons, firstNamed]
    by_cases h : (p.1 == n) = true
    · simp [h]
    · have : (p.1 == n) = false := by simpa using h
      simp only [this, Bool.false_eq_true, if_false]; exact ih

/-- the two loops, on plain lists, give the reference rows -/
theorem closedP_eq_spec (alen : Nat) (g : Seq) (other ps : List (String × Seq)) :
    closedP alen other (ps.map fun p => if !present other p.1 then (p.1, p.2 ++ g) else p) =
      (ps.map fun r => match firstNamed r.1 other with
        | some q => (r.1, r.2 ++ q.2)
        | none => (r.1, r.2 ++ g)) ++
      ((other.filter fun q => (firstNamed q.1 ps).isNone).map fun q => (q.1, List.replicate alen GAP ++ q.2)) := by
  unfold closedP
  congr 1
  · simp only [List.map_map]
    apply List.map_congr_left
    intro p _
    simp only [Function.comp, present_eq]
    cases hq : firstNamed p.1 other with
    | none => simp [hq]
    | some q => simp [hq]
  · congr 1
    apply List.filter_congr
    intro q _
    apply firstNamed_isNone_congr
    simp only [List.map_map]
    apply List.map_congr_left
    intro p _
    simp only [Function.comp]; split <;> rfl

/-- rows after the first loop, as pairs -/
theorem pairs_step1 (other : List (String × Seq)) (g : Seq) (rows : List Row) (hn : (rows.map (·.name)).Nodup) :
    (step1Rows other g rows rows).map (fun r => (r.name, r.seq)) =
      (rows.map fun r => (r.name, r.seq)).map fun p => if !present other p.1 then (p.1, p.2 ++ g) else p := by
  rw [step1Rows_char other g rows rows hn]
  simp only [List.map_map]
  apply List.map_congr_left
  intro x hx
  have : rows.any (fun r => x.name == r.name) = true := List.any_eq_true.mpr ⟨x, hx, by simp⟩
  simp only [Function.comp, this, Bool.true_and]
  split <;> rfl

theorem keys_step1 (other : List (String × Seq)) (g : Seq) (rows : List Row) (hn : (rows.map (·.name)).Nodup) :
    keys (step1Rows other g rows rows) = keys rows := by
  rw [step1Rows_char other g rows rows hn]
  simp only [keys, List.map_map]
  apply List.map_congr_left
  intro x _
  simp only [Function.comp]; split <;> rfl

theorem length_nat_of_rect {b : Bag} (h : Rect b) (ha : b.isAlign = true) :
    (b.length = -1 ∨ b.length = (b.length.toNat : Int)) ∧ ∀ r ∈ b.rows, r.seq.length = b.length.toNat := by
  constructor
  · cases hr : b.rows with
    | nil => exact Or.inl (h.empty_len ha hr)
    | cons x t =>
      have := h.rows_len ha x (by simp [hr])
      right; omega
  · intro r hr
    have := h.rows_len ha r hr
    omega

theorem firstNamed_mem {n : String} {ps : List (String × Seq)} {q : String × Seq} (h : firstNamed n ps = some q) : q ∈ ps := by
  induction ps with
  | nil => simp [firstNamed] at h
  | cons p t ih =>
    simp only [firstNamed] at h
    split at h
    · simp only [Option.some.injEq] at h; subst h; simp
    · exact List.mem_cons_of_mem _ (ih h)

/-- every row of the reference result has `|a| + |c|` columns -/
theorem specConcat_lengths {b c : Bag} (hb : Rect b) (hc : Rect c) (ha : b.isAlign = true) (hca : c.isAlign = true) :
    ∀ p ∈ specConcatRows (abs b) (abs c), p.2.length = b.length.toNat + c.length.toNat := by
  obtain ⟨_, hbl⟩ := length_nat_of_rect hb ha
  obtain ⟨_, hcl⟩ := length_nat_of_rect hc hca
  have hclen : (if (abs c).rows = [] then 0 else (abs c).length.toNat) = c.length.toNat := by
    rw [hc.abs_length hca]
    split
    · rename_i he
      have : c.rows = [] := by simpa [pairs] using he
      rw [hc.empty_len hca this]; rfl
    · rfl
  have halen : (if (abs b).rows = [] then 0 else (abs b).length.toNat) = b.length.toNat := by
    rw [hb.abs_length ha]
    split
    · rename_i he
      have : b.rows = [] := by simpa [pairs] using he
      rw [hb.empty_len ha this]; rfl
    · rfl
  intro p hp
  unfold specConcatRows at hp
  simp only [hclen, halen, List.mem_append, List.mem_map, List.mem_filter] at hp
  rcases hp with ⟨r, hr, rfl⟩ | ⟨q, ⟨hq, _⟩, rfl⟩
  · obtain ⟨r0, hr0, rfl⟩ := List.mem_map.mp hr
    have h1 := hbl r0 hr0
    cases hf : firstNamed r0.name (abs c).rows with
    | none => simp [h1]
    | some q =>
      obtain ⟨q0, hq0, rfl⟩ := List.mem_map.mp (firstNamed_mem hf)
      have h2 := hcl q0 hq0
      simp [h1, h2]
  · obtain ⟨q0, hq0, rfl⟩ := List.mem_map.mp hq
    have h2 := hcl q0 hq0
    simp [h2]

theorem concat_value {b c : Bag} (hb : Good b) (hc : Good c) (hbn : (b.rows.map (·.name)).Nodup)
    (hcn : (c.rows.map (·.name)).Nodup) (ha : b.isAlign = true) (hca : c.isAlign = true)
    (halpha : c.alphabet = b.alphabet) :
    ∃ x, concat (pairs c) c.length c.alphabet b = (x, false) ∧ Good x ∧
      pairs x = specConcatRows (abs b) (abs c) ∧ x.policy = b.policy ∧ x.alphabet = b.alphabet ∧ x.isAlign = b.isAlign := by
  obtain ⟨hblen, hbl⟩ := length_nat_of_rect hb.rect ha
  have hnib : NI b := ⟨hb.inv, hbn⟩
  -- first loop
  have h1 := step1_fold (pairs c) (List.replicate c.length.toNat GAP) b.rows b hnib
    (fun r hr => List.mem_map_of_mem (f := (·.name)) hr)
  have hkeys := keys_step1 (pairs c) (List.replicate c.length.toNat GAP) b.rows hbn
  have hni1 : NI { b with rows := step1Rows (pairs c) (List.replicate c.length.toNat GAP) b.rows b.rows } := by
    refine ⟨hb.inv.transfer (by simp only []; rw [hkeys]) rfl (Nat.le_refl _), ?_⟩
    have := congrArg (List.map Prod.snd) hkeys
    simp only [keys, List.map_map, Function.comp_def] at this
    simp only []; rw [this]; exact hbn
  have hL2 : L2 b.length.toNat { b with rows := step1Rows (pairs c) (List.replicate c.length.toNat GAP) b.rows b.rows } :=
    ⟨hni1, ha, hblen⟩
  -- second loop
  have hcn' : ((pairs c).map Prod.fst).Nodup := by rw [pairs, names_pairs_map]; exact hcn
  obtain ⟨x2, e2, hx2, p2, pol2, al2⟩ := loop2_ok b.length.toNat (pairs c) hL2
  rw [foldl_stepP _ _ _ hcn'] at p2
  have hp1 : pairs { b with rows := step1Rows (pairs c) (List.replicate c.length.toNat GAP) b.rows b.rows } =
      (pairs b).map fun p => if !present (pairs c) p.1 then (p.1, p.2 ++ List.replicate c.length.toNat GAP) else p :=
    pairs_step1 (pairs c) _ b.rows hbn
  rw [hp1, closedP_eq_spec] at p2
  -- the reference rows
  have hclen : (if (abs c).rows = [] then 0 else (abs c).length.toNat) = c.length.toNat := by
    rw [hc.rect.abs_length hca]
    split
    · rename_i he
      have : c.rows = [] := by simpa [pairs] using he
      rw [hc.rect.empty_len hca this]; rfl
    · rfl
  have halen : (if (abs b).rows = [] then 0 else (abs b).length.toNat) = b.length.toNat := by
    rw [hb.rect.abs_length ha]
    split
    · rename_i he
      have : b.rows = [] := by simpa [pairs] using he
      rw [hb.rect.empty_len ha this]; rfl
    · rfl
  have hspec : pairs x2 = specConcatRows (abs b) (abs c) := by
    rw [p2]; unfold specConcatRows; simp only [hclen, halen]; rfl
  -- every row has the same length: the final scan reports no error
  have hlens : ∀ r ∈ x2.rows, r.seq.length = b.length.toNat + c.length.toNat := by
    intro r hr
    have : (r.name, r.seq) ∈ pairs x2 := List.mem_map_of_mem (f := fun r => (r.name, r.seq)) hr
    rw [hspec] at this
    exact specConcat_lengths hb.rect hc.rect ha hca _ this
  have hbad : (x2.rows.any fun r => (r.seq.length : Int) != (match x2.rows with | r :: _ => (r.seq.length : Int) | [] => -1)) = false := by
    apply List.any_eq_false.mpr
    intro r hr
    cases hrows : x2.rows with
    | nil => rw [hrows] at hr; cases hr
    | cons y t =>
      have h1 := hlens r hr
      have h2 := hlens y (by simp [hrows])
      simp [h1, h2]
  have halpha' : ¬ (b.alphabet != c.alphabet) = true := by simp [halpha]
  refine ⟨{ x2 with length := match x2.rows with | r :: _ => (r.seq.length : Int) | [] => -1 }, ?_, ?_, hspec, pol2, al2, hx2.align.trans ha.symm⟩
  · unfold concat
    rw [if_neg halpha']
    simp only [h1, Bool.false_eq_true, if_false, e2]
    refine Prod.ext rfl ?_
    exact hbad
  · refine good_of_gi (hx2.ni.gi.congr rfl rfl rfl) ?_ (hb.alpha.congr (hx2.align.trans ha.symm) al2)
    exact rect_of_allLen (b := { x2 with length := match x2.rows with | r :: _ => (r.seq.length : Int) | [] => -1 })
      (T := b.length.toNat + c.length.toNat) hlens (fun _ => rfl)

theorem specConcatRows_congr (s : SBag) {c c' : SBag} (h : c.rows = c'.rows) : specConcatRows s c = specConcatRows s c' := by
  unfold specConcatRows SBag.length; rw [h]

theorem ref_concat {b : Bag} (h : Good b) (rows : List (String × Seq)) : Refines b (.concat rows) := by
  intro s' st e
  rw [spec_concat_eq] at e
  simp only [Model.stepOp]
  by_cases ha : b.isAlign = true
  · have c0 : ¬ (!(abs b).isAlign) = true := by simp [ha]
    rw [if_neg c0] at e
    have c0' : ¬ (!b.isAlign) = true := by simp [ha]
    rw [if_neg c0']
    have hsim0 : Sim (newAlign b.alphabet) { alphabet := (abs b).alphabet, isAlign := true } := ⟨rfl, rfl, rfl⟩
    obtain ⟨o1, o2, o3, _, o5⟩ := addAllStop_ref rows (good_newAlign b.alphabet) hsim0
    have oni : NI (Model.addAllStop (newAlign b.alphabet) rows).1 := ni_addAllStop rows (ni_newAlign b.alphabet)
    have oal : (Model.addAllStop (newAlign b.alphabet) rows).1.isAlign = true := by rw [isAlign_addAllStop]; rfl
    generalize Model.addAllStop (newAlign b.alphabet) rows = mo at *
    generalize Spec.addAllStop { alphabet := (abs b).alphabet, isAlign := true } rows = so at *
    by_cases hflag : mo.2 = true
    · rw [if_pos hflag]
      rw [if_pos (o2 ▸ hflag)] at e
      simp only [Prod.mk.injEq, Option.some.injEq] at e
      exact ⟨e.1, e.2, h⟩
    · rw [if_neg hflag]
      rw [if_neg (o2 ▸ hflag)] at e
      by_cases hnd : (!decide (abs b).names.Nodup) = true
      · rw [if_pos hnd] at e; simp at e
      · rw [if_neg hnd] at e
        simp only [Prod.mk.injEq, Option.some.injEq] at e
        obtain ⟨e1, e2⟩ := e
        subst e1 e2
        have hnd' : (b.rows.map (·.name)).Nodup := by
          have : (abs b).names.Nodup := by simpa using hnd
          exact nodup_names_of_abs this
        have halpha : mo.1.alphabet = b.alphabet := by
          rw [o5]
          have := h.alpha ha
          simp only [newAlign]
          split
          · rename_i hb; exact absurd (by simpa using hb) this
          · rfl
        obtain ⟨x, hv, hg, hp, hpol, hal, hia⟩ := concat_value h o3 hnd' oni.nodup ha oal halpha
        rw [hv]
        refine ⟨?_, by simp, hg⟩
        have hrows : so.1.rows = (abs mo.1).rows := o1.rows
        rw [specConcatRows_congr (abs b) hrows, ← hp]
        simp only [abs, hpol, hal, hia]
  · have ha' : b.isAlign = false := by simpa using ha
    have c0 : (!(abs b).isAlign) = true := by simp [ha']
    rw [if_pos c0] at e
    have c0' : (!b.isAlign) = true := by simp [ha']
    rw [if_pos c0']
    simp only [Prod.mk.injEq, Option.some.injEq] at e
    exact ⟨e.1, e.2, h⟩

end Gv.Proofs.BagAbs
