import Gv.Model.Fmt.Clustal
/-!
Clustal parser: the fuel of every loop of the model is sufficient — the parser never reports `hang`
(helper development for `Props/C03.lean`).

Measure `ν s` = remaining bytes + 1 if a token other than EOF is pushed back.  Every token other than EOF
that is handed out strictly decreases `ν`; `unscan` gives back at most what the last scan took.
-/
namespace Gv.Proofs.ClustalNoHang
open Gv Gv.Model Gv.Model.Fmt Gv.Model.Fmt.Clustal
open Gv.Model.Fmt.Phylip (Stop R)

theorem length_dropWhile_le {α} (p : α → Bool) : ∀ l : List α, (l.dropWhile p).length ≤ l.length
  | [] => by simp
  | x :: xs => by
    simp only [List.dropWhile]
    split
    · exact Nat.le_succ_of_le (length_dropWhile_le p xs)
    · simp

theorem afterRun_le (l : Seq) : (Phylip.afterRun l).length ≤ l.length := by
  unfold Phylip.afterRun; split
  · split <;> simp
  · simp

/-- the lexer consumes at least one byte of a non-empty input -/
theorem lex_shorter (c : Byte) (cs : Seq) (t : Tok) (r : Seq) (h : Clustal.scan (c :: cs) = some (t, r)) :
    r.length < (c :: cs).length := by
  have h1 := Nat.le_trans (afterRun_le (cs.dropWhile Phylip.isWS)) (length_dropWhile_le Phylip.isWS cs)
  have h2 := Nat.le_trans (afterRun_le (cs.dropWhile Phylip.identChar)) (length_dropWhile_le Phylip.identChar cs)
  unfold Clustal.scan at h
  simp only at h
  repeat' (split at h)
  all_goals (try (simp only [Option.some.injEq, Prod.mk.injEq, reduceCtorEq] at h))
  all_goals (try (obtain ⟨_, rfl⟩ := h))
  all_goals (try (simp only [List.length_cons]))
  all_goals (try omega)
  all_goals (
    rename_i he
    simp only [List.cons.injEq] at he
    omega)

def ν (s : St) : Nat := s.inp.length + (if s.pushed && s.last != .eof then 1 else 0)

theorem ν_le (s : St) : ν s ≤ s.inp.length + 1 := by unfold ν; split <;> omega

/-- contract of `St.scan` -/
theorem scan_ok (s s' : St) (t : Tok) (h : s.scan = .ok (t, s')) :
    s'.last = t ∧ s'.pushed = false ∧ (t ≠ .eof → ν s' < ν s) ∧ ν s' ≤ ν s := by
  unfold St.scan at h
  split at h
  · rename_i hp
    simp only [Except.ok.injEq, Prod.mk.injEq] at h
    obtain ⟨rfl, rfl⟩ := h
    simp only [ν, hp, Bool.true_and, Bool.false_and, Bool.false_eq_true, if_false, Nat.add_zero]
    refine ⟨trivial, trivial, ?_, ?_⟩
    · intro hne; simp [hne]
    · split <;> omega
  · rename_i hp
    have hp' : s.pushed = false := by simpa using hp
    split at h
    · simp at h
    · rename_i t' r hs
      simp only [Except.ok.injEq, Prod.mk.injEq] at h
      obtain ⟨rfl, rfl⟩ := h
      simp only [ν, hp', Bool.false_and, Bool.false_eq_true, if_false, Nat.add_zero]
      refine ⟨trivial, trivial, ?_, ?_⟩
      · intro hne
        cases hi : s.inp with
        | nil => rw [hi] at hs; simp [Clustal.scan] at hs; exact absurd hs.1.symm hne
        | cons c cs => rw [hi] at hs; exact lex_shorter c cs _ r hs
      · cases hi : s.inp with
        | nil => rw [hi] at hs; simp [Clustal.scan] at hs; simp [hs.2]
        | cons c cs => rw [hi] at hs; exact Nat.le_of_lt (lex_shorter c cs _ r hs)

theorem scan_nh (s : St) : s.scan ≠ .error .hang := by
  unfold St.scan
  split
  · simp
  · split <;> simp

/-- what `unscan` gives back after a scan -/
theorem unscan_c (s : St) (hp : s.pushed = false) :
    ν s.unscan = s.inp.length + (if s.last != .eof then 1 else 0) := by
  simp [ν, St.unscan]

/-- `skipEols`: does not hang when fuel exceeds the measure; the result, with its last token pushed back,
is not above the start -/
theorem skipEols_c : ∀ (fuel : Nat) (s : St), ν s < fuel →
    (∀ s2, skipEols fuel s = .ok s2 → s2.pushed = false ∧ ν s2.unscan ≤ ν s) ∧ skipEols fuel s ≠ .error .hang := by
  intro fuel
  induction fuel with
  | zero => intro s h; omega
  | succ k ih =>
    intro s h
    have hnh := scan_nh s
    constructor
    · intro s2 h2
      unfold skipEols at h2
      simp only [bind, Except.bind, pure, Except.pure] at h2
      split at h2
      · simp at h2
      · rename_i v hv
        obtain ⟨t, s'⟩ := v
        obtain ⟨hl, hp, hst, hle⟩ := scan_ok s s' t hv
        simp only at h2
        split at h2
        · rename_i heol
          have ht : t = .eol := by simpa using heol
          have := (ih s' (by have := hst (by rw [ht]; simp); omega)).1 s2 h2
          exact ⟨this.1, by have := hst (by rw [ht]; simp); omega⟩
        · simp only [Except.ok.injEq] at h2
          subst h2
          refine ⟨hp, ?_⟩
          rw [unscan_c s' hp, hl]
          by_cases he : t = .eof
          · subst he; simp; have : ν s' = s'.inp.length := by simp [ν, hp]
            omega
          · have hlt := hst he
            have : ν s' = s'.inp.length := by simp [ν, hp]
            simp [he]; omega
    · intro h2
      unfold skipEols at h2
      simp only [bind, Except.bind, pure, Except.pure] at h2
      split at h2
      · rename_i e he
        simp only [Except.error.injEq] at h2
        subst h2
        exact hnh he
      · rename_i v hv
        obtain ⟨t, s'⟩ := v
        obtain ⟨hl, hp, hst, hle⟩ := scan_ok s s' t hv
        simp only at h2
        split at h2
        · rename_i heol
          have ht : t = .eol := by simpa using heol
          exact (ih s' (by have := hst (by rw [ht]; simp); omega)).2 h2
        · simp at h2

/-- contract of `scanWithEOL`: the same as `scan` -/
theorem scanWithEOL_c (s : St) :
    (∀ t s', scanWithEOL s = .ok (t, s') → (t ≠ .eof → ν s' < ν s) ∧ ν s' ≤ ν s) ∧
    scanWithEOL s ≠ .error .hang := by
  have hnh := scan_nh s
  constructor
  · intro t s' h
    unfold scanWithEOL at h
    simp only [bind, Except.bind, pure, Except.pure] at h
    split at h
    · simp at h
    · rename_i v hv
      obtain ⟨t1, s1⟩ := v
      obtain ⟨hl, hp, hst, hle⟩ := scan_ok s s1 t1 hv
      simp only at h
      split at h
      · simp only [Except.ok.injEq, Prod.mk.injEq] at h
        obtain ⟨rfl, rfl⟩ := h
        exact ⟨hst, hle⟩
      · rename_i hne
        have ht : t1 = .eol := by simpa using hne
        have hlt := hst (by rw [ht]; simp)
        split at h
        · simp at h
        · rename_i s2 hs2
          simp only [Except.ok.injEq, Prod.mk.injEq] at h
          obtain ⟨rfl, rfl⟩ := h
          have := (skipEols_c (s1.inp.length + 2) s1 (by have := ν_le s1; omega)).1 s2 hs2
          exact ⟨fun _ => by omega, by omega⟩
  · intro h
    unfold scanWithEOL at h
    simp only [bind, Except.bind, pure, Except.pure] at h
    split at h
    · rename_i e he
      simp only [Except.error.injEq] at h
      subst h
      exact hnh he
    · rename_i v hv
      obtain ⟨t1, s1⟩ := v
      simp only at h
      split at h
      · simp at h
      · split at h
        · rename_i e he
          simp only [Except.error.injEq] at h
          subst h
          exact (skipEols_c (s1.inp.length + 2) s1 (by have := ν_le s1; omega)).2 he
        · simp at h

/-- a loop that keeps calling a scanner with the `scan` contract while the token is neither ENDOFLINE nor EOF -/
theorem skipHeader_c : ∀ (fuel : Nat) (tok : Tok) (s : St), ν s + 1 < fuel →
    (∀ t s', skipHeader fuel tok s = .ok (t, s') → ν s' ≤ ν s) ∧ skipHeader fuel tok s ≠ .error .hang := by
  intro fuel
  induction fuel with
  | zero => intro tok s h; omega
  | succ k ih =>
    intro tok s h
    constructor
    · intro t s' h2
      unfold skipHeader at h2
      split at h2
      · rename_i hc
        simp only [bind, Except.bind] at h2
        split at h2
        · simp at h2
        · rename_i v hv
          obtain ⟨t1, s1⟩ := v
          simp only at h2
          have hc1 := (scanWithEOL_c s).1 t1 s1 hv
          by_cases he : t1 = .eof
          · subst he
            unfold skipHeader at h2
            cases k with
            | zero => simp at h2
            | succ k' =>
              simp [pure, Except.pure] at h2
              obtain ⟨_, rfl⟩ := h2
              exact hc1.2
          · have := (ih t1 s1 (by have := hc1.1 he; omega)).1 t s' h2
            have := hc1.2
            omega
      · simp [pure, Except.pure] at h2
        obtain ⟨_, rfl⟩ := h2
        exact Nat.le_refl _
    · intro h2
      unfold skipHeader at h2
      split at h2
      · simp only [bind, Except.bind] at h2
        split at h2
        · rename_i e he
          simp only [Except.error.injEq] at h2
          subst h2
          exact (scanWithEOL_c s).2 he
        · rename_i v hv
          obtain ⟨t1, s1⟩ := v
          simp only at h2
          have hc1 := (scanWithEOL_c s).1 t1 s1 hv
          by_cases he : t1 = .eof
          · subst he
            unfold skipHeader at h2
            cases k with
            | zero => omega
            | succ k' => simp [pure, Except.pure] at h2
          · exact (ih t1 s1 (by have := hc1.1 he; omega)).2 h2
      · simp [pure, Except.pure] at h2

theorem skipLine_c : ∀ (fuel : Nat) (tok : Tok) (s : St), ν s + 1 < fuel →
    (∀ t s', skipLine fuel tok s = .ok (t, s') → ν s' ≤ ν s) ∧ skipLine fuel tok s ≠ .error .hang := by
  intro fuel
  induction fuel with
  | zero => intro tok s h; omega
  | succ k ih =>
    intro tok s h
    constructor
    · intro t s' h2
      unfold skipLine at h2
      split at h2
      · simp only [bind, Except.bind] at h2
        split at h2
        · simp at h2
        · rename_i v hv
          obtain ⟨t1, s1⟩ := v
          simp only at h2
          obtain ⟨_, _, hst, hle⟩ := scan_ok s s1 t1 hv
          by_cases he : t1 = .eof
          · subst he
            unfold skipLine at h2
            cases k with
            | zero => simp at h2
            | succ k' =>
              simp [pure, Except.pure] at h2
              obtain ⟨_, rfl⟩ := h2
              exact hle
          · have := (ih t1 s1 (by have := hst he; omega)).1 t s' h2
            omega
      · simp [pure, Except.pure] at h2
        obtain ⟨_, rfl⟩ := h2
        exact Nat.le_refl _
    · intro h2
      unfold skipLine at h2
      split at h2
      · simp only [bind, Except.bind] at h2
        split at h2
        · rename_i e he
          simp only [Except.error.injEq] at h2
          subst h2
          exact scan_nh s he
        · rename_i v hv
          obtain ⟨t1, s1⟩ := v
          simp only at h2
          obtain ⟨_, _, hst, hle⟩ := scan_ok s s1 t1 hv
          by_cases he : t1 = .eof
          · subst he
            unfold skipLine at h2
            cases k with
            | zero => omega
            | succ k' => simp [pure, Except.pure] at h2
          · exact (ih t1 s1 (by have := hst he; omega)).2 h2
      · simp [pure, Except.pure] at h2

theorem bind_ok {α β} {x : R α} {g : α → R β} {b : β} (h : (x >>= g) = .ok b) : ∃ a, x = .ok a ∧ g a = .ok b := by
  cases x with
  | ok a => exact ⟨a, rfl, h⟩
  | error e => simp [bind, Except.bind] at h

theorem bind_hang {α β} {x : R α} {g : α → R β} (h : (x >>= g) = .error .hang) :
    x = .error .hang ∨ ∃ a, x = .ok a ∧ g a = .error .hang := by
  cases x with
  | ok a => exact Or.inr ⟨a, rfl, h⟩
  | error e => simp only [bind, Except.bind, Except.error.injEq] at h; subst h; exact Or.inl rfl

theorem blockEnd_c (tok : Tok) (s : St) (ls : LS) :
    (∀ t s' ls', blockEnd tok s ls = .ok (some (t, s', ls')) → ν s' ≤ ν s) ∧ blockEnd tok s ls ≠ .error .hang := by
  have hf : ν s + 1 < s.inp.length + 3 := by have := ν_le s; omega
  constructor
  · intro t s' ls' h
    unfold blockEnd at h
    simp only [bind, Except.bind, pure, Except.pure] at h
    repeat' (split at h <;> try (simp at h))
    rename_i v1 hv1 _ _ v2 hv2 _ _ _ v3 hv3 _
    obtain ⟨_, rfl, _⟩ := h
    have h1 := (skipLine_c _ _ _ hf).1 v1.1 v1.2 hv1
    have h2 := ((scanWithEOL_c v1.2).1 v2.1 v2.2 hv2).2
    have h3 := (scan_ok v2.2 v3.2 v3.1 hv3).2.2.2
    omega
  · intro h
    unfold blockEnd at h
    simp only [bind, Except.bind, pure, Except.pure] at h
    have a1 := (skipLine_c (s.inp.length + 3) tok s hf).2
    have a2 := fun x => (scanWithEOL_c x).2
    have a3 := scan_nh
    repeat' (split at h <;> try (simp at h))
    all_goals simp_all

/-- no hang; on success the state (`proj` of the result) has measure at most `n` -/
def ProgS {α} (n : Nat) (proj : α → St) : R α → Prop
  | .ok a => ν (proj a) ≤ n
  | .error e => e ≠ .hang

theorem progS_bind {α β} {n m : Nat} {p : α → St} {q : β → St} (x : R α) (g : α → R β)
    (hx : ProgS m p x) (hg : ∀ a, ν (p a) ≤ m → ProgS n q (g a)) : ProgS n q (x >>= g) := by
  cases x with
  | ok a => exact hg a hx
  | error e => exact hx

theorem progS_scan (s : St) : ProgS (ν s) (fun r => r.2) s.scan := by
  cases h : s.scan with
  | ok v => exact (scan_ok s v.2 v.1 h).2.2.2
  | error e => intro he; subst he; exact scan_nh s h

theorem progS_bind_mono {α} {n m : Nat} {p : α → St} (x : R α) (h : ProgS m p x) (hmn : m ≤ n) : ProgS n p x := by
  cases x with
  | ok a => exact Nat.le_trans h hmn
  | error e => exact h

theorem progS_error {α} {n : Nat} {p : α → St} : ProgS n p (.error .error : R α) := by simp [ProgS]

@[grind →] theorem scan_mono (a : St) (v : Tok × St) (h : a.scan = .ok v) : ν v.2 ≤ ν a :=
  (scan_ok a v.2 v.1 h).2.2.2

theorem row_c (tok : Tok) (s : St) :
    (∀ n q t s', row tok s = .ok (n, q, t, s') → ν s' ≤ ν s) ∧ row tok s ≠ .error .hang := by
  constructor
  · intro n q t s' h
    unfold row at h
    simp only [bind, Except.bind, pure, Except.pure] at h
    repeat' (split at h <;> try (simp at h))
    all_goals (
      obtain ⟨_, _, _, rfl⟩ := h
      grind)
  · intro h
    unfold row at h
    simp only [bind, Except.bind, pure, Except.pure] at h
    have a3 := scan_nh
    repeat' (split at h <;> try (simp at h))
    all_goals simp_all

@[grind →] theorem scan_strict (a : St) (v : Tok × St) (h : a.scan = .ok v) (hne : v.1 ≠ .eof) : ν v.2 < ν a :=
  (scan_ok a v.2 v.1 h).2.2.1 hne

@[grind →] theorem blockEnd_mono (tok : Tok) (s : St) (ls : LS) (r : Tok × St × LS)
    (h : blockEnd tok s ls = .ok (some r)) : ν r.2.1 ≤ ν s :=
  (blockEnd_c tok s ls).1 r.1 r.2.1 r.2.2 h

@[grind →] theorem row_mono (tok : Tok) (s : St) (r : Name × Seq × Tok × St) (h : row tok s = .ok r) :
    ν r.2.2.2 ≤ ν s :=
  (row_c tok s).1 r.1 r.2.1 r.2.2.1 r.2.2.2 h

@[grind →] theorem row_tok (tok : Tok) (s : St) (r : Name × Seq × Tok × St) (h : row tok s = .ok r) : tok ≠ .eof := by
  intro e
  subst e
  simp [row, bind, Except.bind] at h

theorem place_nh (c : Bool) (ls : LS) (n : Name) (q : Seq) : place c ls n q ≠ .error .hang := by
  intro h
  unfold place at h
  repeat' (split at h <;> try (simp [pure, Except.pure] at h))

theorem loop_nh (c : Bool) : ∀ (fuel : Nat) (tok : Tok) (s : St) (ls : LS), ν s + 1 < fuel →
    loop c fuel tok s ls ≠ .error .hang := by
  intro fuel
  induction fuel with
  | zero => intro tok s ls h; omega
  | succ k ih =>
    intro tok s ls hfuel h
    unfold loop at h
    simp only [bind, Except.bind, pure, Except.pure] at h
    have a1 := scan_nh
    have a2 := fun t s ls => (blockEnd_c t s ls).2
    have a3 := fun t s => (row_c t s).2
    have a4 := place_nh c
    repeat' (split at h <;> try (simp at h))
    all_goals first
      | exact ih _ _ _ (by grind) h
      | simp_all

@[grind →] theorem skipHeader_mono (fuel : Nat) (tok : Tok) (s : St) (v : Tok × St) (hf : ν s + 1 < fuel)
    (h : skipHeader fuel tok s = .ok v) : ν v.2 ≤ ν s :=
  (skipHeader_c fuel tok s hf).1 v.1 v.2 h

theorem build_nh (o : POpts) (rows : List XRow) : build o rows ≠ .error .hang := by
  intro h
  unfold build at h
  repeat' (split at h <;> try (simp [pure, Except.pure] at h))

theorem skipHeader_nh' (tok : Tok) (s : St) : skipHeader (s.inp.length + 3) tok s ≠ .error .hang :=
  (skipHeader_c _ _ _ (by have := ν_le s; omega)).2

theorem loop_nh' (c : Bool) (tok : Tok) (s : St) (ls : LS) : loop c (s.inp.length + 3) tok s ls ≠ .error .hang :=
  loop_nh c _ _ _ _ (by have := ν_le s; omega)

/-- **no hang**: the Clustal parser (with or without the row-index repair) never reports `hang` -/
theorem parse_nh (c : Bool) (o : POpts) (bs : Seq) : Clustal.parse c o bs ≠ .hang := by
  intro h
  unfold Clustal.parse at h
  cases hp : parseR c o bs with
  | ok a => rw [hp] at h; simp [toOutcome] at h
  | error e =>
    rw [hp] at h
    cases e <;> simp [toOutcome] at h
    unfold parseR at hp
    simp only [bind, Except.bind, pure, Except.pure] at hp
    have a1 := scan_nh
    have a2 := skipHeader_nh'
    have a3 := loop_nh' c
    have a4 := build_nh o
    repeat' (split at hp <;> try (simp at hp))
    all_goals simp_all

end Gv.Proofs.ClustalNoHang
