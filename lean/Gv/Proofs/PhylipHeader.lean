import Gv.Proofs.PhylipOutcome
import Gv.Proofs.FmtFresh
/-!
Phylip parser (C03): a successful parse agrees with the counts of its header line, and the end-of-stream
marker is only returned for an input that is blank up to its end (helper development for `Props/C03.lean`).

* part A — the alignment handed back has the length the header line declared and as many rows as it declared
  (exactly under IGNORE_NONE, at most under the two policies that drop duplicate rows);
* part B — the numbers the parser read from the header line are the numbers an independent naive scanner
  (`Spec.Fmt.declaredPhylip`: first two decimal numbers of the file) reads off the raw bytes;
* part C — `(nil, nil)` only for an input that holds nothing but blanks up to its first NUL (NUL is the lexers'
  in-band end-of-input marker).
-/
namespace Gv.Proofs.PhylipHeader
open Gv Gv.Model Gv.Model.Fmt Gv.Model.Fmt.Phylip Gv.Proofs.FmtBagInv Gv.Proofs.PhylipOutcome Gv.Proofs.FmtFresh

/-! ## part A: counts as the parser read them -/

/-- bag state while the rows (all of length `l`) are added: empty with length −1, or non-empty with length `l` -/
def Fill (l : Int) (b : Bag) : Prop := (b.rows = [] ∧ b.length = -1) ∨ (b.rows ≠ [] ∧ b.length = l)

theorem addKeep_fill (l : Int) (b : Bag) (hb : Fill l b) (r : XRow) (hr : (r.2.length : Int) = l) :
    Fill l (addKeep b r) ∧ (addKeep b r).rows ≠ [] ∧ (addKeep b r).ignore = b.ignore ∧
    (addKeep b r).rows.length ≤ b.rows.length + 1 ∧ b.rows.length ≤ (addKeep b r).rows.length ∧
    (b.ignore = 0 → (addKeep b r).rows.length = b.rows.length + 1) := by
  have hfit : b.length = -1 ∨ b.length = (r.2.length : Int) := by
    rcases hb with ⟨_, h⟩ | ⟨_, h⟩
    · exact Or.inl h
    · exact Or.inr (by rw [h, hr])
  cases h : b.add r.1 r.2 with
  | none =>
    have e : addKeep b r = b := by unfold addKeep; rw [h]
    rw [e]
    have hne : b.rows ≠ [] := by
      intro he
      have hfind : b.find r.1 = none := by simp [Bag.find, he]
      have hl : b.length = -1 := by
        rcases hb with ⟨_, h'⟩ | ⟨h', _⟩
        · exact h'
        · exact absurd he h'
      simp [Bag.add, hfind, hl] at h
    refine ⟨?_, hne, rfl, by omega, by omega, ?_⟩
    · rcases hb with ⟨h', _⟩ | h'
      · exact absurd h' hne
      · exact Or.inr h'
    · intro hi
      obtain ⟨b', hb', _⟩ := add_none_policy b hi r.1 r.2 hfit
      rw [hb'] at h; cases h
  | some b' =>
    have e : addKeep b r = b' := by unfold addKeep; rw [h]
    rw [e]
    have hle := add_le b r.1 r.2 b' h
    have hne : b'.rows ≠ [] := add_rows_ne b _ _ b' h
    refine ⟨?_, hne, hle.2.2, hle.1, hle.2.1, ?_⟩
    · refine Or.inr ⟨hne, ?_⟩
      -- either unchanged (then it was non-empty with length l) or appended with length |r.2| = l
      unfold Bag.add at h
      repeat' (split at h <;> try (simp at h))
      all_goals first
        | (subst h
           rcases hb with ⟨he, _⟩ | ⟨_, hl⟩
           · exact absurd he hne
           · exact hl)
        | (obtain ⟨_, rfl⟩ := h; exact hr)
    · intro hi
      obtain ⟨b'', hb'', hcount, _⟩ := add_none_policy b hi r.1 r.2 hfit
      rw [hb''] at h
      cases h
      exact hcount

theorem foldl_fill (l : Int) : ∀ (rows : List XRow) (b : Bag), Fill l b → (∀ r ∈ rows, (r.2.length : Int) = l) →
    Fill l (rows.foldl addKeep b) ∧ (rows.foldl addKeep b).ignore = b.ignore ∧
    (rows.foldl addKeep b).rows.length ≤ b.rows.length + rows.length ∧
    (b.ignore = 0 → (rows.foldl addKeep b).rows.length = b.rows.length + rows.length) ∧
    (rows ≠ [] → (rows.foldl addKeep b).rows ≠ [])
  | [], b, hb, _ => ⟨hb, rfl, by simp, fun _ => by simp, fun h => absurd rfl h⟩
  | r :: rs, b, hb, h => by
    simp only [List.foldl_cons]
    obtain ⟨h1, h2, h3, h4, h5, h6⟩ := addKeep_fill l b hb r (h r (by simp))
    obtain ⟨g1, g2, g3, g4, g5⟩ := foldl_fill l rs (addKeep b r) h1 (fun x hx => h x (by simp [hx]))
    refine ⟨g1, by rw [g2, h3], by simp only [List.length_cons]; omega, ?_, ?_⟩
    · intro hi
      rw [g4 (by rw [h3]; exact hi), h6 hi]
      simp only [List.length_cons]; omega
    · intro _
      cases rs with
      | nil => simpa using h2
      | cons x xs => exact g5 (by simp)

/-- the final stage: the alignment has the declared length and (at most / exactly) as many rows as were read -/
theorem build_counts (o : POpts) (lenseq : Int) (rows : List XRow) (a : Aln) (hne : rows ≠ [])
    (h : build o lenseq rows = .ok a) :
    a.length = lenseq ∧ a.rows.length ≤ rows.length ∧ (normIgnore o.ignore = 0 → a.rows.length = rows.length) := by
  unfold build at h
  split at h
  · simp at h
  · rename_i hall
    have hall' : ∀ r ∈ rows, (r.2.length : Int) = lenseq := by simpa using hall
    simp only at h
    split at h
    · simp at h
    · rename_i a' hf
      simp [pure, Except.pure] at h; subst h
      change (List.foldl addKeep { ignore := normIgnore o.ignore } rows).finish _ = some a' at hf
      obtain ⟨g1, g2, g3, g4, g5⟩ := foldl_fill lenseq rows { ignore := normIgnore o.ignore } (Or.inl ⟨rfl, rfl⟩) hall'
      obtain ⟨hr, hlen⟩ := finish_rows _ _ a' hf
      rw [hr, hlen]
      refine ⟨?_, by simpa using g3, fun hi => by simpa using g4 hi⟩
      rcases g1 with ⟨he, _⟩ | ⟨_, hl⟩
      · exact absurd he (g5 hne)
      · exact hl

theorem body_counts (o : POpts) (n l : Int) (s s' : St) (a : Aln) (hn : 1 ≤ n)
    (h : body o n l s = .ok (a, s')) :
    a.length = l ∧ (a.rows.length : Int) ≤ n ∧ (normIgnore o.ignore = 0 → (a.rows.length : Int) = n) := by
  unfold body at h
  simp only [bind, Except.bind, pure, Except.pure] at h
  repeat' (split at h <;> try (simp at h))
  all_goals (
    obtain ⟨rfl, _⟩ := h
    have h1 := firstBlock_length _ _ _ _ _ _ _ (by assumption)
    have h2 := blocks_length _ _ _ _ _ _ _ (by assumption)
    simp only [List.length_nil, Nat.zero_add] at h1
    have hbuild := ‹build o l _ = Except.ok _›
    have hb := build_counts o l _ _ (by
      intro e
      rw [e] at h2
      simp at h2
      omega) hbuild
    refine ⟨hb.1, by omega, fun hi => by have := hb.2.2 hi; omega⟩)

/-- **a successful single parse agrees with the header line as the parser read it** -/
theorem parseOne_counts (af : Bool) (o : POpts) (s s' : St) (a : Aln)
    (h : parseOne af o s = .ok (.aln a, s')) :
    ∃ n l sh, header af s = .ok (.counts n l, sh) ∧
      a.length = l ∧ (a.rows.length : Int) ≤ n ∧ (normIgnore o.ignore = 0 → (a.rows.length : Int) = n) := by
  unfold parseOne at h
  simp only [bind, Except.bind, pure, Except.pure] at h
  repeat' (split at h <;> try (simp at h))
  rename_i vh hhdr _ nb ls hfst _ va hbody
  obtain ⟨rfl, _⟩ := h
  have hh : header af s = .ok (.counts nb ls, vh.2) := by
    rw [hhdr]; cases vh; simp at hfst; simp [hfst]
  obtain ⟨h1, _⟩ := header_counts _ _ _ _ _ hh
  have hb : body o nb ls vh.2 = .ok (va.1, va.2) := by rw [hbody]
  exact ⟨nb, ls, vh.2, hh, body_counts o _ _ _ _ _ h1 hb⟩

/-! ## a property carried along the token stream over leading blanks (push-back buffer included)

`R r`: what is known about the raw input `r` still to be read; `P t r`: what is known once token `t` has been read
and `r` remains.  One raw `scan` turns `R` into `P`; after a blank token `P` gives `R` back. -/

section Carried
variable (P : Tok → Seq → Prop) (R : Seq → Prop)

def Pre (s : St) : Prop := if s.pushed then P s.last s.inp else R s.inp
def Post (t : Tok) (s : St) : Prop := s.pushed = false ∧ s.last = t ∧ P t s.inp

variable (hraw : ∀ r t r', R r → Phylip.scan r = some (t, r') → P t r')
variable (hws : ∀ r, P .ws r → R r) (heol : ∀ r, P .eol r → R r)

include hraw in
theorem scan_post (s s' : St) (t : Tok) (hp : Pre P R s) (h : s.scan = .ok (t, s')) : Post P t s' := by
  unfold St.scan at h
  by_cases hpu : s.pushed = true
  · simp only [hpu, if_true, Except.ok.injEq, Prod.mk.injEq] at h
    obtain ⟨rfl, rfl⟩ := h
    unfold Pre at hp
    rw [if_pos hpu] at hp
    exact ⟨rfl, rfl, hp⟩
  · have hpu' : s.pushed = false := by simpa using hpu
    simp only [hpu', Bool.false_eq_true, if_false] at h
    unfold Pre at hp
    rw [if_neg hpu] at hp
    cases hs : Phylip.scan s.inp with
    | none => rw [hs] at h; cases h
    | some v =>
      obtain ⟨t', r'⟩ := v
      rw [hs] at h
      simp only [Except.ok.injEq, Prod.mk.injEq] at h
      obtain ⟨rfl, rfl⟩ := h
      exact ⟨rfl, rfl, hraw _ _ _ hp hs⟩

theorem post_unscan (t : Tok) (s : St) (h : Post P t s) : Pre P R s.unscan := by
  obtain ⟨_, hl, hp⟩ := h
  unfold Pre St.unscan
  simp only [if_true]
  rw [hl]; exact hp

include hws heol in
theorem post_pre (t : Tok) (s : St) (h : Post P t s) (ht : t = .ws ∨ t = .eol) : Pre P R s := by
  obtain ⟨hpu, _, hp⟩ := h
  unfold Pre
  rw [hpu]
  simp only [Bool.false_eq_true, if_false]
  rcases ht with rfl | rfl
  · exact hws _ hp
  · exact heol _ hp

include hraw hws heol in
theorem skipEols_post : ∀ (fuel : Nat) (s s' : St), Pre P R s → skipEols fuel s = .ok s' → ∃ t, Post P t s'
  | 0, _, _, _, h => by simp [skipEols] at h
  | fuel + 1, s, s', hp, h => by
    unfold skipEols at h
    simp only [bind, Except.bind, pure, Except.pure] at h
    cases hs : s.scan with
    | error e => rw [hs] at h; cases h
    | ok v =>
      obtain ⟨t, s1⟩ := v
      rw [hs] at h
      have hpost := scan_post P R hraw s s1 t hp hs
      simp only at h
      by_cases ht : (t == Tok.eol) = true
      · rw [if_pos ht] at h
        have : t = .eol := by simpa using ht
        exact skipEols_post fuel s1 s' (post_pre P R hws heol t s1 hpost (Or.inr this)) h
      · rw [if_neg ht] at h
        simp only [Except.ok.injEq] at h
        subst h
        exact ⟨t, hpost⟩

include hraw hws heol in
/-- `scanWithEOL`: a token other than ENDOFLINE has just been read; after ENDOFLINE the state (with the token after
the line ends pushed back) carries the property on -/
theorem scanWithEOL_post (s s' : St) (t : Tok) (hp : Pre P R s) (h : scanWithEOL s = .ok (t, s')) :
    (t ≠ .eol → Post P t s') ∧ (t = .eol → Pre P R s') := by
  unfold scanWithEOL at h
  simp only [bind, Except.bind, pure, Except.pure] at h
  cases hs : s.scan with
  | error e => rw [hs] at h; cases h
  | ok v =>
    obtain ⟨t1, s1⟩ := v
    rw [hs] at h
    have hpost := scan_post P R hraw s s1 t1 hp hs
    simp only at h
    by_cases ht : (t1 != Tok.eol) = true
    · rw [if_pos ht] at h
      simp only [Except.ok.injEq, Prod.mk.injEq] at h
      obtain ⟨rfl, rfl⟩ := h
      have hne : t1 ≠ .eol := by simpa using ht
      exact ⟨fun _ => hpost, fun e => absurd e hne⟩
    · rw [if_neg ht] at h
      have he : t1 = .eol := by simpa using ht
      cases h2 : skipEols (s1.inp.length + 2) s1 with
      | error e => rw [h2] at h; cases h
      | ok s2 =>
        rw [h2] at h
        simp only [Except.ok.injEq, Prod.mk.injEq] at h
        obtain ⟨rfl, rfl⟩ := h
        obtain ⟨t2, hp2⟩ := skipEols_post P R hraw hws heol _ s1 s2 (post_pre P R hws heol t1 s1 hpost (Or.inr he)) h2
        exact ⟨fun hne => absurd rfl hne, fun _ => post_unscan P R t2 s2 hp2⟩

include hraw hws heol in
/-- the token that ends the leading blanks has just been read (it is not in the push-back buffer) -/
theorem skipLeading_post : ∀ (fuel : Nat) (s s' : St) (t : Tok), Pre P R s → skipLeading fuel s = .ok (t, s') →
    Post P t s'
  | 0, _, _, _, _, h => by simp [skipLeading] at h
  | fuel + 1, s, s', t, hp, h => by
    unfold skipLeading at h
    simp only [bind, Except.bind, pure, Except.pure] at h
    cases hs : scanWithEOL s with
    | error e => rw [hs] at h; cases h
    | ok v =>
      obtain ⟨t1, s1⟩ := v
      rw [hs] at h
      obtain ⟨ha, hb⟩ := scanWithEOL_post P R hraw hws heol s s1 t1 hp hs
      simp only at h
      by_cases ht : (t1 == Tok.ws || t1 == Tok.eol) = true
      · rw [if_pos ht] at h
        have hpre : Pre P R s1 := by
          by_cases he : t1 = .eol
          · exact hb he
          · have hw : t1 = .ws := by
              simp only [Bool.or_eq_true, beq_iff_eq] at ht
              rcases ht with h' | h'
              · exact h'
              · exact absurd h' he
            exact post_pre P R hws heol t1 s1 (ha he) (Or.inl hw)
        exact skipLeading_post fuel s1 s' t hpre h
      · rw [if_neg ht] at h
        simp only [Except.ok.injEq, Prod.mk.injEq] at h
        obtain ⟨rfl, rfl⟩ := h
        have hne : t1 ≠ .eol := by
          intro e; subst e; simp at ht
        exact ha hne

end Carried

/-- what a successful header line went through -/
theorem header_inv (af : Bool) (s s' : St) (n l : Int) (h : header af s = .ok (.counts n l, s')) :
    ∃ l1 s1 s2 l2 s3, skipLeading (s.inp.length + 3) s = .ok (.num l1, s1) ∧ parseInt64 l1 = some n ∧
      s1.scan = .ok (.ws, s2) ∧ s2.scan = .ok (.num l2, s3) ∧ parseInt64 l2 = some l ∧ s3.scan = .ok (.eol, s') := by
  unfold header at h
  simp only [bind, Except.bind, pure, Except.pure] at h
  repeat' (split at h <;> try (simp at h))
  rename_i _ v5 hsl _ _ l1 ht1 _ n1 hp1 _ _ _ _ _ v3 hs1 hw _ v2 hs2 _ l2 ht2 _ n2 hp2 _ _ v hs3 he
  obtain ⟨⟨rfl, rfl⟩, rfl⟩ := h
  obtain ⟨t5, s5⟩ := v5
  obtain ⟨t3, s3⟩ := v3
  obtain ⟨t2, s2⟩ := v2
  obtain ⟨t0, s0⟩ := v
  simp only at ht1 hw ht2 hs1 hs2 he hs3
  subst ht1 hw ht2 he
  exact ⟨l1, s5, s3, l2, s2, hsl, hp1, hs1, hs2, hp2, hs3⟩

theorem header_eos_inv (af : Bool) (s s' : St) (h : header af s = .ok (.eos, s')) :
    ∃ s1, skipLeading (s.inp.length + 3) s = .ok (.eof, s1) := by
  unfold header at h
  simp only [bind, Except.bind, pure, Except.pure] at h
  repeat' (split at h <;> try (simp at h))
  rename_i _ v5 hsl he
  obtain ⟨t5, s5⟩ := v5
  simp only at he
  subst he
  exact ⟨s5, hsl⟩

/-! ## part C: the end-of-stream marker only for an input that is blank up to its end -/

open Gv.Spec.Fmt (blankToNul isBlank)

theorem blankToNul_cons (x : Byte) (t : Seq) :
    blankToNul (x :: t) = if x != 0 then isBlank x && blankToNul t else true := by
  unfold blankToNul
  by_cases h : (x != 0) = true
  · simp [List.takeWhile_cons, h]
  · have h' : (x != 0) = false := by simpa using h
    rw [List.takeWhile_cons]
    simp [h']

theorem isWS_blank (x : Byte) (h : Phylip.isWS x = true) : (x != 0) = true ∧ isBlank x = true := by
  unfold Phylip.isWS SP TAB at h
  unfold isBlank
  simp only [Bool.or_eq_true, beq_iff_eq] at h
  rcases h with rfl | rfl <;> decide

theorem blank_of_afterRun : ∀ (cs : Seq), blankToNul (afterRun (cs.dropWhile Phylip.isWS)) = true → blankToNul cs = true
  | [], _ => rfl
  | x :: t, h => by
    by_cases hx : Phylip.isWS x = true
    · rw [List.dropWhile_cons_of_pos hx] at h
      have := blank_of_afterRun t h
      obtain ⟨h1, h2⟩ := isWS_blank x hx
      rw [blankToNul_cons, if_pos h1, h2, this]; rfl
    · rw [List.dropWhile_cons_of_neg hx] at h
      unfold afterRun at h
      by_cases h0 : (x == 0) = true
      · have : x = 0 := by simpa using h0
        subst this
        rw [blankToNul_cons]; rfl
      · simp only [h0] at h
        exact h

/-- the carried property of part C (`B`: the whole input is blank up to its first NUL) -/
def PC (B : Prop) (t : Tok) (r : Seq) : Prop :=
  match t with
  | .eof => B
  | .ws | .eol => blankToNul r = true → B
  | _ => True
def RC (B : Prop) (r : Seq) : Prop := blankToNul r = true → B

theorem rawC (B : Prop) (r : Seq) (t : Tok) (r' : Seq) (hr : RC B r) (h : Phylip.scan r = some (t, r')) : PC B t r' := by
  unfold Phylip.scan at h
  split at h
  · simp only [Option.some.injEq, Prod.mk.injEq] at h
    obtain ⟨rfl, _⟩ := h
    exact hr rfl
  · rename_i c cs
    by_cases h1 : Phylip.isWS c = true
    · simp only [h1, if_true, Option.some.injEq, Prod.mk.injEq] at h
      obtain ⟨rfl, rfl⟩ := h
      intro hb
      apply hr
      obtain ⟨g1, g2⟩ := isWS_blank c h1
      rw [blankToNul_cons, if_pos g1, g2, blank_of_afterRun cs hb]; rfl
    · simp only [h1, Bool.false_eq_true, if_false] at h
      by_cases h2 : (c == NL) = true
      · simp only [h2, if_true, Option.some.injEq, Prod.mk.injEq] at h
        obtain ⟨rfl, rfl⟩ := h
        have : c = 10 := by simpa [NL] using h2
        subst this
        intro hb
        apply hr
        rw [blankToNul_cons, hb]; rfl
      · simp only [h2, Bool.false_eq_true, if_false] at h
        by_cases h3 : (c == CR) = true
        · simp only [h3, if_true] at h
          have : c = 13 := by simpa [CR] using h3
          subst this
          split at h
          · rename_i r0
            simp only [Option.some.injEq, Prod.mk.injEq] at h
            obtain ⟨rfl, rfl⟩ := h
            intro hb
            apply hr
            rw [blankToNul_cons, blankToNul_cons, hb]; rfl
          · cases h
        · simp only [h3, Bool.false_eq_true, if_false] at h
          by_cases h4 : (c == 0) = true
          · simp only [h4, if_true, Option.some.injEq, Prod.mk.injEq] at h
            obtain ⟨rfl, _⟩ := h
            have : c = 0 := by simpa using h4
            subst this
            apply hr
            rw [blankToNul_cons]; rfl
          · simp only [h4, Bool.false_eq_true, if_false, Option.some.injEq, Prod.mk.injEq] at h
            obtain ⟨rfl, _⟩ := h
            split <;> trivial

/-- **end-of-stream marker ⇒ the input is blank up to its first NUL** (the in-band end-of-input marker) -/
theorem parseOne_eos_blank (af : Bool) (o : POpts) (bs : Seq) (s' : St)
    (h : parseOne af o { inp := bs } = .ok (.eos, s')) : blankToNul bs = true := by
  have hh : ∃ sh, header af { inp := bs } = .ok (.eos, sh) := by
    unfold parseOne at h
    simp only [bind, Except.bind, pure, Except.pure] at h
    cases hd : header af { inp := bs } with
    | error e => rw [hd] at h; cases h
    | ok v =>
      obtain ⟨hv, sh⟩ := v
      rw [hd] at h
      cases hv with
      | eos => exact ⟨sh, rfl⟩
      | slow => simp at h
      | counts n l =>
        simp only at h
        cases hb : body o n l sh with
        | error e => rw [hb] at h; cases h
        | ok w => rw [hb] at h; simp at h
  obtain ⟨sh, hh⟩ := hh
  obtain ⟨s1, hsl⟩ := header_eos_inv af _ sh hh
  have hpost := skipLeading_post (PC (blankToNul bs = true)) (RC (blankToNul bs = true))
    (rawC _) (fun _ h => h) (fun _ h => h) _ _ s1 .eof (by
      unfold Pre RC
      simp) hsl
  exact hpost.2.2

/-! ## part B: the numbers of the header line are the numbers a naive scanner reads off the raw bytes -/

open Gv.Spec.Fmt (declaredPhylip leadingInt)

theorem isDigit_eq (b : Byte) : Spec.Fmt.isDigit b = Phylip.isDigit b := rfl
theorem decVal_eq (l : Seq) : Spec.Fmt.decVal l = Phylip.decVal l := rfl

theorem digits_split : ∀ (t x : Seq), t.all Phylip.isDigit = true → (∀ b, x.head? = some b → Phylip.isDigit b = false) →
    (t ++ x).takeWhile Spec.Fmt.isDigit = t ∧ (t ++ x).dropWhile Spec.Fmt.isDigit = x
  | [], x, _, hx => by
    cases x with
    | nil => simp
    | cons b y =>
      have := hx b rfl
      have h' : Spec.Fmt.isDigit b = false := by rw [isDigit_eq]; exact this
      simp [List.takeWhile_cons, List.dropWhile_cons, h']
  | d :: t, x, ht, hx => by
    simp only [List.all_cons, Bool.and_eq_true] at ht
    have hd : Spec.Fmt.isDigit d = true := by rw [isDigit_eq]; exact ht.1
    obtain ⟨h1, h2⟩ := digits_split t x ht.2 hx
    simp [List.takeWhile_cons, List.dropWhile_cons, hd, h1, h2]

/-- the shape of a string `strconv.ParseInt` accepts: optional sign, digits, value -/
theorem parseInt64_shape (l : Seq) (n : Int) (h : parseInt64 l = some n) :
    ∃ (neg : Bool) (ds : Seq),
      ((l = 45 :: ds ∧ neg = true) ∨ (l = 43 :: ds ∧ neg = false) ∨
        (l = ds ∧ neg = false ∧ ds.head? ≠ some 45 ∧ ds.head? ≠ some 43)) ∧
      ds ≠ [] ∧ ds.all Phylip.isDigit = true ∧ n = (if neg then -(Phylip.decVal ds : Int) else (Phylip.decVal ds : Int)) := by
  unfold parseInt64 at h
  split at h
  rename_i neg ds hm
  have hds : ds ≠ [] ∧ ds.all Phylip.isDigit = true ∧
      n = (if neg then -(Phylip.decVal ds : Int) else (Phylip.decVal ds : Int)) := by
    by_cases hc : (ds.isEmpty || !ds.all Phylip.isDigit) = true
    · rw [if_pos hc] at h; cases h
    · rw [if_neg hc] at h
      simp only [Bool.or_eq_true, Bool.not_eq_true', not_or, Bool.not_eq_false] at hc
      refine ⟨by intro e; rw [e] at hc; simp at hc, by simpa using hc.2, ?_⟩
      cases neg with
      | true =>
        simp only [if_true] at h ⊢
        split at h
        · simp only [Option.some.injEq] at h; exact h.symm
        · cases h
      | false =>
        simp only [Bool.false_eq_true, if_false] at h ⊢
        split at h
        · simp only [Option.some.injEq] at h; exact h.symm
        · cases h
  refine ⟨neg, ds, ?_, hds⟩
  split at hm
  · rename_i t
    simp only [Prod.mk.injEq] at hm
    obtain ⟨rfl, rfl⟩ := hm
    exact Or.inl ⟨rfl, rfl⟩
  · rename_i t
    simp only [Prod.mk.injEq] at hm
    obtain ⟨rfl, rfl⟩ := hm
    exact Or.inr (Or.inl ⟨rfl, rfl⟩)
  · rename_i h1 h2
    simp only [Prod.mk.injEq] at hm
    obtain ⟨rfl, rfl⟩ := hm
    refine Or.inr (Or.inr ⟨rfl, rfl, ?_, ?_⟩)
    · intro e
      cases l with
      | nil => simp at e
      | cons c t => simp at e; subst e; exact h1 t rfl
    · intro e
      cases l with
      | nil => simp at e
      | cons c t => simp at e; subst e; exact h2 t rfl

/-- a NUMERIC token followed by a byte that is not a digit: the naive scanner reads the same number -/
theorem leadingInt_num (l x : Seq) (n : Int) (h : parseInt64 l = some n)
    (hx : ∀ b, x.head? = some b → Phylip.isDigit b = false) : leadingInt (l ++ x) = some (n, x) := by
  obtain ⟨neg, ds, hshape, hne, hall, hn⟩ := parseInt64_shape l n h
  obtain ⟨h1, h2⟩ := digits_split ds x hall hx
  have hemp : ds.isEmpty = false := by
    cases ds with
    | nil => exact absurd rfl hne
    | cons _ _ => rfl
  rcases hshape with ⟨rfl, rfl⟩ | ⟨rfl, rfl⟩ | ⟨rfl, rfl, n45, n43⟩
  · unfold leadingInt
    simp only [List.cons_append, h1, h2, hemp, Bool.false_eq_true, if_false, if_true, decVal_eq]
    rw [hn]; rfl
  · unfold leadingInt
    simp only [List.cons_append, h1, h2, hemp, Bool.false_eq_true, if_false, decVal_eq]
    rw [hn]; rfl
  · cases l with
    | nil => exact absurd rfl hne
    | cons c t =>
      have c45 : c ≠ 45 := by intro e; subst e; exact n45 rfl
      have c43 : c ≠ 43 := by intro e; subst e; exact n43 rfl
      unfold leadingInt
      split
      rename_i neg' s' hm
      split at hm
      · rename_i t' he; simp at he; exact absurd he.1 c45
      · rename_i t' he; simp at he; exact absurd he.1 c43
      · simp only [Prod.mk.injEq] at hm
        obtain ⟨rfl, rfl⟩ := hm
        simp only [h1, h2, hemp, Bool.false_eq_true, if_false, decVal_eq]
        rw [hn]; rfl

/-! ### inverting one raw `scan` -/

theorem scan_ws_inv (r r' : Seq) (h : Phylip.scan r = some (.ws, r')) :
    ∃ c cs, r = c :: cs ∧ Phylip.isWS c = true ∧ r' = afterRun (cs.dropWhile Phylip.isWS) := by
  unfold Phylip.scan at h
  split at h
  · simp at h
  · rename_i c cs
    by_cases h1 : Phylip.isWS c = true
    · simp only [h1, if_true, Option.some.injEq, Prod.mk.injEq, true_and] at h
      exact ⟨c, cs, rfl, h1, h.symm⟩
    · simp only [h1, Bool.false_eq_true, if_false] at h
      repeat' (split at h <;> try (simp at h))

theorem scan_eol_inv (r r' : Seq) (h : Phylip.scan r = some (.eol, r')) : r = 10 :: r' ∨ r = 13 :: 10 :: r' := by
  unfold Phylip.scan at h
  split at h
  · simp at h
  · rename_i c cs
    by_cases h1 : Phylip.isWS c = true
    · simp [h1] at h
    · simp only [h1, Bool.false_eq_true, if_false] at h
      by_cases h2 : (c == NL) = true
      · simp only [h2, if_true, Option.some.injEq, Prod.mk.injEq, true_and] at h
        have : c = 10 := by simpa [NL] using h2
        subst this; subst h
        exact Or.inl rfl
      · simp only [h2, Bool.false_eq_true, if_false] at h
        by_cases h3 : (c == CR) = true
        · simp only [h3, if_true] at h
          have : c = 13 := by simpa [CR] using h3
          subst this
          split at h
          · simp only [Option.some.injEq, Prod.mk.injEq, true_and] at h
            subst h
            exact Or.inr rfl
          · cases h
        · simp only [h3, Bool.false_eq_true, if_false] at h
          repeat' (split at h <;> try (simp at h))

theorem scan_num_inv (r r' l : Seq) (h : Phylip.scan r = some (.num l, r')) :
    ∃ c cs, r = c :: cs ∧ Phylip.isWS c = false ∧ c ≠ 10 ∧ c ≠ 13 ∧ c ≠ 0 ∧
      l = c :: cs.takeWhile identChar ∧ r' = afterRun (cs.dropWhile identChar) ∧ (parseInt64 l).isSome = true := by
  unfold Phylip.scan at h
  split at h
  · simp at h
  · rename_i c cs
    by_cases h1 : Phylip.isWS c = true
    · simp [h1] at h
    · simp only [h1, Bool.false_eq_true, if_false] at h
      by_cases h2 : (c == NL) = true
      · simp [h2] at h
      · simp only [h2, Bool.false_eq_true, if_false] at h
        by_cases h3 : (c == CR) = true
        · simp only [h3, if_true] at h
          split at h <;> simp at h
        · simp only [h3, Bool.false_eq_true, if_false] at h
          by_cases h4 : (c == 0) = true
          · simp [h4] at h
          · simp only [h4, Bool.false_eq_true, if_false, Option.some.injEq, Prod.mk.injEq] at h
            obtain ⟨ht, hr⟩ := h
            by_cases hp : (parseInt64 (c :: cs.takeWhile identChar)).isSome = true
            · simp only [hp, if_true, Tok.num.injEq] at ht
              refine ⟨c, cs, rfl, by simpa using h1, ?_, ?_, by simpa using h4, ht.symm, hr.symm, by rw [← ht]; exact hp⟩
              · simpa [NL] using h2
              · simpa [CR] using h3
            · simp [hp] at ht

/-! ### the naive scanner along the tokens -/

/-- the second number of the header line, read naively after the first one -/
def second (n : Int) (x : Seq) : Option (Int × Int) :=
  match leadingInt (x.dropWhile fun b => b == 32 || b == 9) with
  | none => none
  | some (l, _) => some (n, l)

theorem declared_eq (s : Seq) :
    declaredPhylip s = match leadingInt (s.dropWhile Spec.Fmt.isBlank) with
      | none => none
      | some (n, r) => second n r := by
  unfold declaredPhylip second
  rfl

theorem leadingInt_nul (y : Seq) : leadingInt (0 :: y) = none := by
  unfold leadingInt
  simp [Spec.Fmt.isDigit]

theorem declared_blank (c : Byte) (cs : Seq) (h : Spec.Fmt.isBlank c = true) :
    declaredPhylip (c :: cs) = declaredPhylip cs := by
  rw [declared_eq, declared_eq, List.dropWhile_cons_of_pos h]

theorem declared_nul (y : Seq) : declaredPhylip (0 :: y) = none := by
  rw [declared_eq]
  have : Spec.Fmt.isBlank 0 = false := by decide
  rw [List.dropWhile_cons_of_neg (by simp [this]), leadingInt_nul]

theorem declared_dropWS : ∀ cs : Seq, declaredPhylip (cs.dropWhile Phylip.isWS) = declaredPhylip cs
  | [] => rfl
  | x :: t => by
    by_cases hx : Phylip.isWS x = true
    · rw [List.dropWhile_cons_of_pos hx, declared_dropWS t, declared_blank x t (isWS_blank x hx).2]
    · rw [List.dropWhile_cons_of_neg hx]

theorem spTab_eq : (fun b : Byte => b == 32 || b == 9) = Phylip.isWS := rfl

theorem second_nul (n : Int) (y : Seq) : second n (0 :: y) = none := by
  unfold second
  rw [List.dropWhile_cons_of_neg (by decide), leadingInt_nul]

theorem dropWhile_idem (p : Byte → Bool) : ∀ cs : Seq, (cs.dropWhile p).dropWhile p = cs.dropWhile p
  | [] => rfl
  | x :: t => by
    by_cases hx : p x = true
    · rw [List.dropWhile_cons_of_pos hx]; exact dropWhile_idem p t
    · rw [List.dropWhile_cons_of_neg hx, List.dropWhile_cons_of_neg hx]

theorem second_ws (n : Int) (c : Byte) (cs : Seq) (h : Phylip.isWS c = true) :
    second n (c :: cs) = second n (cs.dropWhile Phylip.isWS) := by
  unfold second
  rw [spTab_eq, List.dropWhile_cons_of_pos h, dropWhile_idem]

theorem identChar_false_not_digit (b : Byte) (h : identChar b = false) : Phylip.isDigit b = false := by
  unfold identChar at h
  simp only [Bool.and_eq_false_imp, bne_iff_ne, ne_eq, Bool.and_eq_true, not_and, Decidable.not_not] at h
  unfold NL SP CR at h
  by_cases h1 : b = 10
  · subst h1; decide
  · by_cases h2 : b = 32
    · subst h2; decide
    · by_cases h3 : b = 13
      · subst h3; decide
      · have := h ⟨⟨h1, h2⟩, h3⟩
        simp at this
        subst this; decide

theorem head_dropWhile_identChar (cs : Seq) : ∀ b, (cs.dropWhile identChar).head? = some b → Phylip.isDigit b = false := by
  intro b hb
  apply identChar_false_not_digit
  have := List.head?_dropWhile_not identChar cs
  rw [hb] at this
  simpa using this

/-- a NUMERIC token at the start of the remaining input: the naive scanner reads it as its first number -/
theorem declared_num (c : Byte) (cs : Seq) (n : Int) (hws : Phylip.isWS c = false) (h10 : c ≠ 10) (h13 : c ≠ 13)
    (hp : parseInt64 (c :: cs.takeWhile identChar) = some n) :
    declaredPhylip (c :: cs) = second n (cs.dropWhile identChar) := by
  have hb : Spec.Fmt.isBlank c = false := by
    unfold Spec.Fmt.isBlank
    unfold Phylip.isWS SP TAB at hws
    simp only [Bool.or_eq_false_iff, beq_eq_false_iff_ne, ne_eq] at hws ⊢
    exact ⟨⟨hws, h10⟩, h13⟩
  rw [declared_eq, List.dropWhile_cons_of_neg (by simp [hb])]
  have hsplit : c :: cs = (c :: cs.takeWhile identChar) ++ cs.dropWhile identChar := by
    simp [List.takeWhile_append_dropWhile]
  rw [hsplit, leadingInt_num _ _ n hp (head_dropWhile_identChar cs)]

/-- … and as its second number after the blanks that follow the first -/
theorem second_num (m : Int) (c : Byte) (cs : Seq) (n : Int) (hws : Phylip.isWS c = false)
    (hp : parseInt64 (c :: cs.takeWhile identChar) = some n) :
    second m (c :: cs) = some (m, n) := by
  unfold second
  rw [spTab_eq, List.dropWhile_cons_of_neg (by simp [hws])]
  have hsplit : c :: cs = (c :: cs.takeWhile identChar) ++ cs.dropWhile identChar := by
    simp [List.takeWhile_append_dropWhile]
  rw [hsplit, leadingInt_num _ _ n hp (head_dropWhile_identChar cs)]

/-- the carried property of part B (`D`: what the naive scanner reads off the whole input) -/
def RB (D : Option (Int × Int)) (r : Seq) : Prop := D = none ∨ D = declaredPhylip r
def PB (D : Option (Int × Int)) (t : Tok) (r : Seq) : Prop :=
  match t with
  | .ws | .eol => RB D r
  | .num l => ∀ n, parseInt64 l = some n → (D = none ∨ D = second n r)
  | _ => True

theorem rawB (D : Option (Int × Int)) (r : Seq) (t : Tok) (r' : Seq) (hr : RB D r) (h : Phylip.scan r = some (t, r')) :
    PB D t r' := by
  cases t with
  | ident l => trivial
  | eof => trivial
  | ws =>
    obtain ⟨c, cs, rfl, hc, rfl⟩ := scan_ws_inv r r' h
    show RB D _
    have e : declaredPhylip (c :: cs) = declaredPhylip (cs.dropWhile Phylip.isWS) := by
      rw [declared_blank c cs (isWS_blank c hc).2, declared_dropWS]
    rcases hr with hr | hr
    · exact Or.inl hr
    · rw [e] at hr
      cases hd : cs.dropWhile Phylip.isWS with
      | nil => rw [hd] at hr; exact Or.inr hr
      | cons x y =>
        rw [hd] at hr
        unfold afterRun
        by_cases hx : (x == 0) = true
        · have : x = 0 := by simpa using hx
          subst this
          rw [declared_nul] at hr
          exact Or.inl hr
        · simp only [hx]
          exact Or.inr hr
  | eol =>
    show RB D _
    rcases hr with hr | hr
    · exact Or.inl hr
    · rcases scan_eol_inv r r' h with rfl | rfl
      · rw [declared_blank 10 r' (by decide)] at hr
        exact Or.inr hr
      · rw [declared_blank 13 _ (by decide), declared_blank 10 r' (by decide)] at hr
        exact Or.inr hr
  | num l =>
    obtain ⟨c, cs, rfl, hws, h10, h13, _, rfl, rfl, _⟩ := scan_num_inv r r' l h
    intro n hp
    rcases hr with hr | hr
    · exact Or.inl hr
    · rw [declared_num c cs n hws h10 h13 hp] at hr
      cases hd : cs.dropWhile identChar with
      | nil => rw [hd] at hr; exact Or.inr hr
      | cons x y =>
        rw [hd] at hr
        unfold afterRun
        by_cases hx : (x == 0) = true
        · have : x = 0 := by simpa using hx
          subst this
          rw [second_nul] at hr
          exact Or.inl hr
        · simp only [hx]
          exact Or.inr hr

theorem scan_unpushed (s s' : St) (t : Tok) (hp : s.pushed = false) (h : s.scan = .ok (t, s')) :
    Phylip.scan s.inp = some (t, s'.inp) ∧ s'.pushed = false := by
  unfold St.scan at h
  simp only [hp, Bool.false_eq_true, if_false] at h
  cases hs : Phylip.scan s.inp with
  | none => rw [hs] at h; cases h
  | some v =>
    obtain ⟨t', r'⟩ := v
    rw [hs] at h
    simp only [Except.ok.injEq, Prod.mk.injEq] at h
    obtain ⟨rfl, rfl⟩ := h
    exact ⟨rfl, rfl⟩

/-- **the counts of a successful header line are the counts the naive scanner reads off the raw bytes** (whenever
it finds two numbers there) -/
theorem header_declared (af : Bool) (bs : Seq) (s' : St) (n l : Int)
    (h : header af { inp := bs } = .ok (.counts n l, s')) :
    declaredPhylip bs = none ∨ declaredPhylip bs = some (n, l) := by
  obtain ⟨l1, s1, s2, l2, s3, hsl, hp1, hs1, hs2, hp2, _⟩ := header_inv af _ s' n l h
  have hpost := skipLeading_post (PB (declaredPhylip bs)) (RB (declaredPhylip bs))
    (rawB _) (fun _ h => h) (fun _ h => h) _ _ s1 (.num l1) (by
      unfold Pre RB
      simp) hsl
  obtain ⟨hpu, _, hP⟩ := hpost
  rcases hP n hp1 with hD | hD
  · exact Or.inl hD
  · obtain ⟨hsc1, hpu2⟩ := scan_unpushed s1 s2 .ws hpu hs1
    obtain ⟨c, cs, he, hc, hr2⟩ := scan_ws_inv _ _ hsc1
    rw [he, second_ws n c cs hc] at hD
    obtain ⟨hsc2, _⟩ := scan_unpushed s2 s3 (.num l2) hpu2 hs2
    rw [hr2] at hsc2
    cases hd : cs.dropWhile Phylip.isWS with
    | nil => rw [hd] at hsc2; simp [afterRun, Phylip.scan] at hsc2
    | cons x y =>
      rw [hd] at hsc2 hD
      by_cases hx : (x == 0) = true
      · have : x = 0 := by simpa using hx
        subst this
        rw [second_nul] at hD
        exact Or.inl hD
      · have hafter : afterRun (x :: y) = x :: y := by simp [afterRun, hx]
        rw [hafter] at hsc2
        obtain ⟨c2, cs2, he2, hws2, _, _, _, hl2, _, _⟩ := scan_num_inv _ _ _ hsc2
        rw [he2] at hD
        rw [hl2] at hp2
        rw [second_num n c2 cs2 l hws2 hp2] at hD
        exact Or.inr hD

/-- **a successful parse of a whole input agrees with the header counts the naive scanner declares** -/
theorem parseOne_declared (af : Bool) (o : POpts) (bs : Seq) (s' : St) (a : Aln)
    (h : parseOne af o { inp := bs } = .ok (.aln a, s')) :
    match declaredPhylip bs with
    | some (dn, dl) =>
      Spec.Fmt.rowsOk (normIgnore o.ignore != 0) (a.rows.length : Int) dn = true ∧ a.length = dl
    | none => True := by
  obtain ⟨n, l, sh, hh, h1, h2, h3⟩ := parseOne_counts af o _ s' a h
  rcases header_declared af bs sh n l hh with hD | hD
  · rw [hD]; trivial
  · rw [hD]
    refine ⟨?_, h1⟩
    unfold Spec.Fmt.rowsOk
    by_cases hi : normIgnore o.ignore = 0
    · simp [hi, h3 hi]
    · have : (normIgnore o.ignore != 0) = true := by simpa using hi
      simp [this, h2]

end Gv.Proofs.PhylipHeader
