import Gv.Proofs.PhylipRT
import Gv.Proofs.PhylipOutcome
/-!
Phylip round trip, helper development, part 2: blocks, header, the end of `Parse`.

Everything is proved for an arbitrary line width `line > 0` and group width `block > 0` (Go: 60 / 10, the
alignment length with `oneline`, the line width with `noblock`), for the strict and the relaxed name column.
-/
namespace Gv.Proofs.PhylipRT
open Gv Gv.Model Gv.Model.Fmt Gv.Model.Fmt.Phylip
open Gv.Proofs.FastaRT (addAll addAll_ok)

set_option maxRecDepth 100000

/-- a row the Phylip parser reads back as it was written -/
structure RowOk (strict : Bool) (L : Nat) (r : XRow) : Prop where
  name : Run r.1
  short : strict = true → r.1.length ≤ 10
  ascii : allAscii r.1 = true      -- the strict name field is ten RUNES (`Read(10)`): ten bytes for an ASCII name
  res : ∀ b ∈ r.2, Res b
  len : r.2.length = L

/-- blanks before the residues of a row in a block without names -/
def preLen (strict : Bool) : Nat := if strict then 9 else 2

/-- residues of `r` in the block starting at column `cur` -/
def seg (line cur : Nat) (r : XRow) : Seq := (r.2.drop cur).take line

theorem rowLine_first_relaxed (line block : Nat) (r : XRow) :
    rowLine false true line block 0 r = r.1 ++ [SP, SP] ++ lineText block (r.2.take line) := by
  simp [rowLine, lineText]

theorem rowLine_first_strict (line block : Nat) (r : XRow) :
    rowLine true true line block 0 r = pad10 r.1 ++ lineText block (r.2.take line) := by
  simp [rowLine, lineText]

theorem rowLine_next (strict : Bool) (line block cur : Nat) (r : XRow) (h : cur < r.2.length) :
    rowLine strict false line block cur r =
      List.replicate (preLen strict + 1) SP ++ lineText block (seg line cur r) := by
  cases strict <;> simp [rowLine, lineText, seg, preLen, h, List.replicate]

theorem seg_ne (line cur : Nat) (hl : 0 < line) (r : XRow) (h : cur < r.2.length) : seg line cur r ≠ [] := by
  intro e
  have := congrArg List.length e
  simp only [seg, List.length_take, List.length_drop, List.length_nil] at this
  omega

theorem seg_res (line cur : Nat) (r : XRow) (h : ∀ b ∈ r.2, Res b) : ∀ b ∈ seg line cur r, Res b :=
  fun b hb => h b (List.mem_of_mem_drop (List.mem_of_mem_take hb))

theorem run_name (nm : Name) (h : Run nm) : ∀ b ∈ nm, b ≠ SP ∧ b ≠ 0 := by
  intro b hb
  have := (h.2 b hb).1
  simp only [identChar, Bool.and_eq_true, bne_iff_ne, ne_eq] at this
  exact ⟨this.1.1.2, this.2⟩

section Blocks
variable (strict : Bool) (line block L : Nat) (hl : 0 < line) (hb : 0 < block) (hL : 1 ≤ L)
include hl hb hL

/-- the first block: every row with its name column -/
theorem first_rows : ∀ (rs : List XRow), (∀ r ∈ rs, RowOk strict L r) → ∀ (T : Seq) (fuel : Nat) (acc : List XRow),
    rs.length ≤ fuel →
    firstBlock strict fuel rs.length ⟨rs.flatMap (rowLine strict true line block 0) ++ T, .eol, false⟩ acc =
      .ok (acc ++ rs.map (fun r => (r.1, r.2.take line)), ⟨T, .eol, false⟩)
  | [], _, T, fuel, acc, _ => by
    cases fuel <;> simp [firstBlock, pure, Except.pure]
  | r :: rs, h, T, fuel, acc, hf => by
    obtain ⟨f, rfl⟩ : ∃ f, fuel = f + 1 := ⟨fuel - 1, by simp only [List.length_cons] at hf; omega⟩
    have hr := h r (by simp)
    have hne : r.2.take line ≠ [] := by
      have := seg_ne line 0 hl r (by rw [hr.len]; omega)
      simpa [seg] using this
    have hres : ∀ b ∈ r.2.take line, Res b := fun b hb' => hr.res b (List.mem_of_mem_take hb')
    have ih := first_rows rs (fun x hx => h x (by simp [hx])) T f (acc ++ [(r.1, r.2.take line)])
      (by simp only [List.length_cons] at hf; omega)
    simp only [List.flatMap_cons, List.length_cons, List.map_cons]
    rw [List.append_assoc]
    cases strict with
    | false =>
      rw [rowLine_first_relaxed,
        first_relaxed block hb r.1 hr.name _ hne hres _ .eol f rs.length acc, ih]
      simp
    | true =>
      rw [rowLine_first_strict,
        first_strict block hb r.1 (hr.short rfl) (run_name r.1 hr.name) hr.ascii _ hne hres _ .eol f rs.length acc, ih]
      simp

omit hL in
/-- the rows of a following block (each after its blanks) -/
theorem next_rows_inner (cur : Nat) (hc : cur < L) : ∀ (rs : List XRow), (∀ r ∈ rs, RowOk strict L r) →
    ∀ (T : Seq) (acc : List XRow),
    nextBlock (rs.map (fun r => (r.1, r.2.take cur)))
        ⟨rs.flatMap (rowLine strict false line block cur) ++ T, .eol, false⟩ acc =
      .ok (acc ++ rs.map (fun r => (r.1, r.2.take (cur + line))), ⟨T, .eol, false⟩)
  | [], _, T, acc => by simp [nextBlock, pure, Except.pure]
  | r :: rs, h, T, acc => by
    have hr := h r (by simp)
    have hcr : cur < r.2.length := by rw [hr.len]; exact hc
    have hne := seg_ne line cur hl r hcr
    have hres := seg_res line cur r hr.res
    have ih := next_rows_inner cur hc rs (fun x hx => h x (by simp [hx])) T
      (acc ++ [(r.1, r.2.take cur ++ seg line cur r)])
    simp only [List.flatMap_cons, List.map_cons]
    rw [List.append_assoc, rowLine_next strict line block cur r hcr]
    rw [next_row block hb _ hne hres _ _ (at_ws_pre (preLen strict) block hb _ hne hres _ .eol), ih]
    simp [seg, List.take_add]

omit hL in
/-- a following block whose first blanks have been read -/
theorem next_rows (cur : Nat) (hc : cur < L) (r0 : XRow) (rs : List XRow) (h : ∀ r ∈ r0 :: rs, RowOk strict L r)
    (T : Seq) (s : St)
    (hs : s.scan = .ok (.ws, ⟨lineText block (seg line cur r0) ++
      (rs.flatMap (rowLine strict false line block cur) ++ T), .ws, false⟩)) :
    nextBlock ((r0 :: rs).map (fun r => (r.1, r.2.take cur))) s [] =
      .ok ((r0 :: rs).map (fun r => (r.1, r.2.take (cur + line))), ⟨T, .eol, false⟩) := by
  have hr := h r0 (by simp)
  have hcr : cur < r0.2.length := by rw [hr.len]; exact hc
  simp only [List.map_cons]
  rw [next_row block hb _ (seg_ne line cur hl r0 hcr) (seg_res line cur r0 hr.res) _ s hs,
    next_rows_inner strict line block L hl hb cur hc rs (fun x hx => h x (by simp [hx]))]
  simp [seg, List.take_add]

omit hl hb hL in
/-- the end of the file after a block -/
theorem afterBlock_eof (lenseq : Int) (rows : List XRow) (h : lenseq = firstLen rows) (l : Tok) :
    afterBlock lenseq rows ⟨[], l, false⟩ = .ok (.eof, ⟨[], .eof, false⟩) := by
  unfold afterBlock scanWithEOL
  simp only [st_scan _ _ _ _ scan_nil, bind, Except.bind, pure, Except.pure]
  simp [h]

omit hl hL in
/-- an empty line and the blanks of the next block after a block -/
theorem afterBlock_more (lenseq : Int) (rows : List XRow) (k : Nat) (sg : Seq) (hne : sg ≠ [])
    (hres : ∀ b ∈ sg, Res b) (T : Seq) (l : Tok) :
    afterBlock lenseq rows ⟨NL :: (List.replicate (k + 1) SP ++ lineText block sg ++ T), l, false⟩ =
      .ok (.ws, ⟨lineText block sg ++ T, .ws, true⟩) := by
  have hw := at_ws_pre k block hb sg hne hres T .eol
  unfold afterBlock scanWithEOL
  simp only [st_scan _ _ _ _ (scan_nl _), bind, Except.bind, pure, Except.pure]
  rw [skipEols]
  simp only [hw, bind, Except.bind, pure, Except.pure, St.unscan]
  simp [St.scan]

/-! ### the writer's blocks -/

omit hl hb hL in
theorem blocksW_done (rows : List XRow) (fw cur : Nat) (h : L ≤ cur) :
    blocksW strict line block L rows fw cur = [] := by
  cases fw with
  | zero => rfl
  | succ f => simp [blocksW]; omega

omit hl hb in
theorem blocksW_first (rows : List XRow) (fw : Nat) :
    blocksW strict line block L rows (fw + 1) 0 =
      rows.flatMap (rowLine strict true line block 0) ++ blocksW strict line block L rows fw line := by
  have : 0 < L := hL
  simp [blocksW, this]

omit hl hb hL in
theorem blocksW_step (r0 : XRow) (rs : List XRow) (h0 : r0.2.length = L) (fw cur : Nat) (hc : 0 < cur)
    (hcl : cur < L) :
    blocksW strict line block L (r0 :: rs) (fw + 1) cur =
      NL :: (List.replicate (preLen strict + 1) SP ++ lineText block (seg line cur r0) ++
        (rs.flatMap (rowLine strict false line block cur) ++
          blocksW strict line block L (r0 :: rs) fw (cur + line))) := by
  have e : (cur == 0) = false := by simp; omega
  rw [blocksW]
  simp only [hcl, if_true, hc, e, List.flatMap_cons]
  rw [rowLine_next strict line block cur r0 (by rw [h0]; exact hcl)]
  simp [List.append_assoc]

/-- what may follow an alignment in a stream: nothing, or the three blanks of the next header line -/
def Tail (T : Seq) : Prop := T = [] ∨ ∃ d R, T = SP :: SP :: SP :: d :: R ∧ isWS d = false ∧ d ≠ 0

/-- token and state that `afterBlock` returns after the last block, in front of `T` -/
def endSt (T : Seq) : Tok × St :=
  match T with
  | [] => (.eof, ⟨[], .eof, false⟩)
  | _ => (.ws, ⟨T.drop 3, .ws, false⟩)

omit hl hb hL in
/-- after the last block: the end of the file, or the blanks before the next header -/
theorem afterBlock_tail (lenseq : Int) (rows : List XRow) (h : lenseq = firstLen rows) (T : Seq) (hT : Tail T)
    (l : Tok) : afterBlock lenseq rows ⟨T, l, false⟩ = .ok (endSt T) := by
  cases hT with
  | inl h0 => subst h0; exact afterBlock_eof lenseq rows h l
  | inr h1 =>
    obtain ⟨d, R, rfl, hd, hd0⟩ := h1
    have hs : scan (SP :: SP :: SP :: d :: R) = some (Tok.ws, d :: R) := by
      have := scan_ws 2 d hd hd0 R
      simpa [List.replicate] using this
    unfold afterBlock scanWithEOL
    simp only [st_scan _ _ _ _ hs, bind, Except.bind, pure, Except.pure]
    simp [h, endSt]

omit hl hb hL in
/-- the block loop stops once the declared length is reached -/
theorem blocks_stop (lenseq : Int) (rows : List XRow) (h : lenseq = firstLen rows) (fp : Nat) (t : Tok) (s : St) :
    blocks lenseq (fp + 1) t s rows = .ok (rows, s) := by
  rw [blocks]
  simp [h, pure, Except.pure]

/-- the text inside the block at column `cur`, after the blanks of its first row, up to the end of the
alignment, followed by `T` -/
def inBlock (r0 : XRow) (rs : List XRow) (fw cur : Nat) (T : Seq) : Seq :=
  lineText block (seg line cur r0) ++ (rs.flatMap (rowLine strict false line block cur) ++
    (blocksW strict line block L (r0 :: rs) fw (cur + line) ++ T))

omit hl hb hL in
theorem take_all (rows : List XRow) (hlen : ∀ r ∈ rows, r.2.length = L) (c : Nat) (h : L ≤ c) :
    rows.map (fun r => (r.1, r.2.take c)) = rows := by
  have : ∀ r ∈ rows, (fun (r : XRow) => (r.1, r.2.take c)) r = id r := by
    intro r hr
    simp only [id]
    rw [List.take_of_length_le (by rw [hlen r hr]; exact h)]
  rw [List.map_congr_left this, List.map_id]

omit hL in
/-- **the block loop**: from inside any following block to the end of the alignment -/
theorem blocks_loop (r0 : XRow) (rs : List XRow) (hok : ∀ r ∈ r0 :: rs, RowOk strict L r) (T : Seq) (hT : Tail T) :
    ∀ (fp cur fw : Nat), 0 < cur → cur < L → L ≤ cur + fw + 1 →
    (inBlock strict line block L r0 rs fw cur T).length + 2 ≤ fp →
    blocks (L : Int) fp .ws ⟨inBlock strict line block L r0 rs fw cur T, .ws, true⟩
        ((r0 :: rs).map (fun r => (r.1, r.2.take cur))) = .ok (r0 :: rs, (endSt T).2) := by
  intro fp
  induction fp with
  | zero => intro cur fw _ _ _ h; omega
  | succ fp ih =>
    intro cur fw hc hcl hfw hfp
    have h0 := hok r0 (by simp)
    have hlen : ∀ r ∈ r0 :: rs, r.2.length = L := fun r hr => (hok r hr).len
    have hfl : ∀ c : Nat, firstLen ((r0 :: rs).map (fun r => (r.1, r.2.take c))) = ((min c L : Nat) : Int) := by
      intro c; simp [firstLen, List.length_take, h0.len]
    have hcond : ((L : Int) != firstLen ((r0 :: rs).map (fun r => (r.1, r.2.take cur)))) = true := by
      rw [hfl]; simp; omega
    rw [blocks]
    simp only [hcond, Bool.and_true, reduceCtorEq, bne_iff_ne, ne_eq, not_false_eq_true, if_true]
    have hnb := next_rows strict line block L hl hb cur hcl r0 rs hok
      (blocksW strict line block L (r0 :: rs) fw (cur + line) ++ T)
      ⟨inBlock strict line block L r0 rs fw cur T, .ws, true⟩ (st_scan_pushed _ _)
    simp only [bind, Except.bind, hnb]
    by_cases hend : L ≤ cur + line
    · rw [blocksW_done strict line block L _ fw (cur + line) hend, List.nil_append]
      rw [afterBlock_tail _ _ (by rw [hfl, Nat.min_eq_right hend]) T hT]
      simp only []
      have : 1 ≤ fp := by
        have : 1 ≤ (inBlock strict line block L r0 rs fw cur T).length := by
          simp only [inBlock, lineText, List.length_append, List.length_cons, List.length_nil]
          omega
        omega
      obtain ⟨f, rfl⟩ : ∃ f, fp = f + 1 := ⟨fp - 1, by omega⟩
      rw [blocks_stop _ _ (by rw [hfl, Nat.min_eq_right hend]), take_all L _ hlen (cur + line) hend]
    · have hlt : cur + line < L := by omega
      obtain ⟨fw', rfl⟩ : ∃ f, fw = f + 1 := ⟨fw - 1, by omega⟩
      have e2 : blocksW strict line block L (r0 :: rs) (fw' + 1) (cur + line) ++ T =
          NL :: (List.replicate (preLen strict + 1) SP ++ lineText block (seg line (cur + line) r0) ++
            (rs.flatMap (rowLine strict false line block (cur + line)) ++
              (blocksW strict line block L (r0 :: rs) fw' (cur + line + line) ++ T))) := by
        rw [blocksW_step strict line block L r0 rs h0.len fw' (cur + line) (by omega) hlt]
        simp [List.append_assoc]
      rw [e2]
      rw [afterBlock_more block hb _ _ (preLen strict) _ (seg_ne line _ hl r0 (by rw [h0.len]; exact hlt))
        (seg_res line _ r0 h0.res)]
      simp only []
      apply ih (cur + line) fw' (by omega) hlt (by omega)
      have e : inBlock strict line block L r0 rs (fw' + 1) cur T =
          lineText block (seg line cur r0) ++ (rs.flatMap (rowLine strict false line block cur) ++
            NL :: (List.replicate (preLen strict + 1) SP ++ inBlock strict line block L r0 rs fw' (cur + line) T)) := by
        unfold inBlock
        rw [e2]
        simp [List.append_assoc]
      rw [e] at hfp
      simp only [List.length_append, List.length_cons, List.length_replicate] at hfp
      omega

end Blocks

/-! ### the header line -/

theorem digit_facts : ∀ b : Byte, isDigit b = true → identChar b = true ∧ isWS b = false ∧ b ≠ 0 := by decide

theorem natDec_run (n : Nat) : Run (natDec n) := by
  obtain ⟨_, hd, hne⟩ := Decimal.natDec_spec n
  exact ⟨hne, fun b hb => ⟨(digit_facts b (List.all_eq_true.mp hd b hb)).1, (digit_facts b (List.all_eq_true.mp hd b hb)).2.1⟩⟩

theorem natDec_head (n : Nat) : ∃ d ds, natDec n = d :: ds ∧ isWS d = false ∧ d ≠ 0 := by
  obtain ⟨_, hd, hne⟩ := Decimal.natDec_spec n
  cases h : natDec n with
  | nil => exact absurd h hne
  | cons d ds =>
    rw [h] at hd
    have := digit_facts d (by simp at hd; exact hd.1)
    exact ⟨d, ds, rfl, this.2.1, this.2.2⟩

theorem scan_num (n : Nat) (hn : n ≤ 9223372036854775807) (x : Byte) (hx : identChar x = false) (hx0 : x ≠ 0)
    (rest : Seq) : scan (natDec n ++ x :: rest) = some (Tok.num (natDec n), x :: rest) := by
  rw [scan_run _ (natDec_run n) x hx hx0 rest, Decimal.parseInt64_natDec n hn]; rfl

theorem scanWithEOL_of (s s1 : St) (t : Tok) (h : s.scan = .ok (t, s1)) (ht : (t != .eol) = true) :
    scanWithEOL s = .ok (t, s1) := by
  unfold scanWithEOL
  simp [h, bind, Except.bind, ht, pure, Except.pure]

/-- three blanks, a number: what the loop over leading blanks returns -/
theorem skipLeading_written (n : Nat) (hn : n ≤ 9223372036854775807) (x : Byte) (hx : identChar x = false)
    (hx0 : x ≠ 0) (R : Seq) (fuel : Nat) (l : Tok) :
    skipLeading (fuel + 2) ⟨SP :: SP :: SP :: (natDec n ++ x :: R), l, false⟩ =
      .ok (.num (natDec n), ⟨x :: R, .num (natDec n), false⟩) := by
  obtain ⟨d, ds, hd, hdw, hd0⟩ := natDec_head n
  have h1 : scan (SP :: SP :: SP :: (natDec n ++ x :: R)) = some (Tok.ws, natDec n ++ x :: R) := by
    have := scan_ws 2 d hdw hd0 (ds ++ x :: R)
    simpa [hd, List.replicate] using this
  rw [skipLeading, scanWithEOL_of _ _ _ (st_scan _ l _ _ h1) (by decide)]
  simp only [bind, Except.bind, beq_self_eq_true, Bool.true_or, if_true]
  rw [skipLeading, scanWithEOL_of _ _ _ (st_scan _ _ _ _ (scan_num n hn x hx hx0 R)) (by simp)]
  simp [bind, Except.bind, pure, Except.pure]

theorem alloc_fine (af : Bool) (n : Nat) (h : af = false ∨ n < 134217728) : alloc af (n : Int) = .fine := by
  unfold alloc
  cases h with
  | inl h => simp [h]
  | inr h =>
    have h1 : ¬ ((n : Int) > 17592186044416) := by omega
    have h2 : ¬ ((n : Int) ≥ 134217728) := by omega
    simp [h1, h2]

theorem header_written (af : Bool) (n L : Nat) (hn1 : 1 ≤ n) (hn : n ≤ 9223372036854775807) (hL1 : 1 ≤ L)
    (hL : L ≤ 9223372036854775807) (halloc : af = false ∨ n < 134217728) (B : Seq) (l : Tok) :
    header af ⟨SP :: SP :: SP :: (natDec n ++ SP :: SP :: SP :: (natDec L ++ NL :: B)), l, false⟩ =
      .ok (.counts n L, ⟨B, .eol, false⟩) := by
  obtain ⟨d, ds, hd, hdw, hd0⟩ := natDec_head L
  have h1 : scan (SP :: SP :: SP :: (natDec L ++ NL :: B)) = some (Tok.ws, natDec L ++ NL :: B) := by
    have := scan_ws 2 d hdw hd0 (ds ++ NL :: B)
    simpa [hd, List.replicate] using this
  have h2 := scan_num L hL NL identChar_NL (by decide) B
  have hn0 : ¬ ((n : Int) = 0) := by omega
  have hnn : ¬ ((n : Int) < 0) := by omega
  have hL0 : ¬ ((L : Int) = 0) := by omega
  unfold header
  simp only [List.length_cons]
  rw [skipLeading_written n hn SP identChar_SP (by decide)]
  simp only [bind, Except.bind, pure, Except.pure, reduceCtorEq, beq_iff_eq, if_false,
    Decimal.parseInt64_natDec n hn, Decimal.parseInt64_natDec L hL, hn0, hnn, hL0, alloc_fine af n halloc,
    st_scan _ _ _ _ h1, st_scan _ _ _ _ h2, st_scan _ _ _ _ (scan_nl B), bne_self_eq_false, Bool.false_eq_true]

/-! ### the end of `Parse` -/

open Gv.Proofs.PhylipOutcome (addKeep) in
theorem foldl_of_addAll : ∀ (rows : List XRow) (b b' : Bag), addAll b rows = some b' → rows.foldl addKeep b = b'
  | [], b, b', h => by simpa [addAll] using h
  | r :: rs, b, b', h => by
    simp only [addAll, List.foldlM_cons] at h
    cases hadd : b.add r.1 r.2 with
    | none => rw [hadd] at h; simp at h
    | some b1 =>
      rw [hadd] at h
      simp only [List.foldl_cons, addKeep, hadd]
      exact foldl_of_addAll rs b1 b' (by simpa [addAll] using h)

open Gv.Proofs.PhylipOutcome (addKeep) in
theorem build_written (o : POpts) (ho : normAlphabet o.alphabet = 2) (L : Nat) (rows : List XRow) (hne : rows ≠ [])
    (hlen : ∀ r ∈ rows, r.2.length = L) (hd : Spec.Fmt.distinct (rows.map (·.1)) = true) :
    build o (L : Int) rows = .ok ⟨autoAlphabet (rows.map (·.2)), L, rows⟩ := by
  have hall : (rows.all fun r => ((r.2.length : Nat) : Int) == (L : Int)) = true := by
    simp only [List.all_eq_true, beq_iff_eq]
    intro r hr; rw [hlen r hr]
  have hadd := addAll_ok L rows { ignore := normIgnore o.ignore } hlen (Or.inl ⟨rfl, rfl⟩)
    (by intro _ _ q hq; simp at hq) hd
  have hbag := foldl_of_addAll _ _ _ hadd
  have hfin : (List.foldl addKeep { ignore := normIgnore o.ignore } rows).finish (normAlphabet o.alphabet) =
      some ⟨autoAlphabet (rows.map (·.2)), L, rows⟩ := by
    rw [hbag]
    simp [Bag.finish, ho, BOTH, Bag.detect, autoAlphabet, hne]
  unfold build
  split
  · rename_i h; rw [hall] at h; simp at h
  · simp only []
    split
    · rename_i hf
      change (List.foldl addKeep { ignore := normIgnore o.ignore } rows).finish _ = none at hf
      rw [hfin] at hf; cases hf
    · rename_i a hf
      change (List.foldl addKeep { ignore := normIgnore o.ignore } rows).finish _ = some a at hf
      rw [hfin] at hf
      simp only [Option.some.injEq] at hf
      subst hf; rfl

end Gv.Proofs.PhylipRT
