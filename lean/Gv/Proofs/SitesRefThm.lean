import Gv.Proofs.SitesRef
/-!
C04: closed forms of `RefCoordinates` / `RefSites`, minimality of the reference window, and the link
between the two functions.  The statements in `Gv/Props/C04.lean` are read off these.
-/
namespace Gv.Proofs.SitesRef
open Gv Gv.Model Gv.Spec.Sites Gv.Proofs.SitesLists

/-- closed form of `RefCoordinates` once the reference is found and the arguments pass the guards -/
theorem refCoordinates_eval (rows : SRows) (name : String) (rs rl : Int) (r : String × Seq)
    (hf : rows.find? (fun r => r.1 == name) = some r) (h0 : 0 ≤ rs) (h1 : 0 < rl) :
    refCoordinates rows name rs rl =
      .ok ((skipTo rs.toNat r.2 : Int), (spanOf rl.toNat (r.2.drop (skipTo rs.toNat r.2)) : Int),
           decide ((nres r.2 : Int) < rs + rl)) := by
  unfold refCoordinates
  simp only [hf]
  have c1 : ¬ rs < 0 := by omega
  have c2 : ¬ rl ≤ 0 := by omega
  simp only [c1, c2, if_false]
  have hp1 := refLoop_phase1 rs.toNat rl.toNat (by omega) r.2 0 0 0 (by omega)
  have hfl := refLoop_flag rs.toNat rl.toNat r.2
  have hle := refLoop_ngaps_le rs.toNat rl.toNat r.2 0 0 0 0
  have hn := nres_le_length r.2
  generalize refLoop rs.toNat rl.toNat r.2 0 0 0 0 = res at hp1 hfl hle
  obtain ⟨ng, as, al⟩ := res
  simp only [Nat.sub_zero, Nat.zero_add, Prod.mk.injEq] at hp1
  simp only [Out.ok.injEq, Prod.mk.injEq]
  refine ⟨by rw [hp1.1], by rw [hp1.2], ?_⟩
  simp only [Nat.zero_add] at hle
  by_cases e : nres r.2 < rs.toNat + rl.toNat
  · have := hfl.mpr e
    simp only [decide_eq_decide]
    constructor <;> intro <;> omega
  · have : ¬ (rs.toNat + rl.toNat > r.2.length - ng) := fun x => e (hfl.mp x)
    simp only [decide_eq_decide]
    constructor <;> intro <;> omega

/-- minimality, on one row: a window starting and ending on a residue is contained in every
window with the same residues before it and inside it -/
theorem window_minimal (t : Seq) (a l a' l' : Nat) (hl : 1 ≤ l) (hal : a + l ≤ t.length)
    (hg1 : t.getD a GAP ≠ GAP) (hg2 : t.getD (a + l - 1) GAP ≠ GAP)
    (hb : nres (t.take a') = nres (t.take a))
    (hw : nres ((t.drop a').take l') = nres ((t.drop a).take l)) :
    a' ≤ a ∧ a + l ≤ a' + l' := by
  have tk : ∀ x y : Nat, nres (t.take (x + y)) = nres (t.take x) + nres ((t.drop x).take y) := by
    intro x y; rw [List.take_add, nres_append]
  have e1 := tk a l
  have e2 := tk a' l'
  constructor
  · apply Classical.byContradiction; intro hc
    have := nres_take_mono t (show a + 1 ≤ a' by omega)
    have := nres_take_succ t a (by omega) hg1
    omega
  · apply Classical.byContradiction; intro hc
    have := nres_take_mono t (show a' + l' ≤ a + l - 1 by omega)
    have h3 := nres_take_succ t (a + l - 1) (by omega) hg2
    have : a + l - 1 + 1 = a + l := by omega
    rw [this] at h3
    omega

/-- the residues inside the window are the requested slice of the ungapped reference -/
theorem window_residues (t : Seq) (a l : Nat) :
    ((t.drop a).take l).filter (· != GAP) =
      ((t.filter (· != GAP)).drop (nres (t.take a))).take (nres ((t.drop a).take l)) := by
  have h : t = t.take a ++ ((t.drop a).take l ++ (t.drop a).drop l) := by
    rw [List.take_append_drop, List.take_append_drop]
  have hf : t.filter (· != GAP) = (t.take a).filter (· != GAP) ++
      (((t.drop a).take l).filter (· != GAP) ++ ((t.drop a).drop l).filter (· != GAP)) := by
    conv => lhs; rw [h]
    rw [List.filter_append, List.filter_append]
  rw [hf]
  unfold nres
  rw [List.drop_left, List.take_left]

/-- the answer of `RefSites`: the alignment positions of the wanted residues, in increasing order -/
def refPositions (sites : List Int) (t : Seq) : List Int :=
  ((List.range (nres t)).filter fun k => sites.contains ((k : Nat) : Int)).map fun k => ((skipTo k t : Nat) : Int)

/-- closed form of `RefSites` once the reference is found -/
theorem refSites_eval (rows : SRows) (L : Int) (name : String) (sites : List Int) (r : String × Seq)
    (hf : rows.find? (fun r => r.1 == name) = some r) :
    refSites rows L name sites =
      if (∀ s ∈ sites, 0 ≤ s ∧ s < L ∧ s < (nres r.2 : Int)) then .ok (refPositions sites r.2) else .err := by
  unfold refSites
  simp only [hf]
  by_cases h : ∀ s ∈ sites, 0 ≤ s ∧ s < L ∧ s < (nres r.2 : Int)
  · have c1 : ¬ (sites.any (fun s => decide (s < 0) || decide (s ≥ L)) = true) := by
      simp only [List.any_eq_true, Bool.or_eq_true, decide_eq_true_eq, not_exists, not_and, not_or]
      intro s hs; have := h s hs; omega
    have c2 : ¬ (sites.any (fun s => decide (s > ((r.2.filter (· != GAP)).length : Int) - 1)) = true) := by
      simp only [List.any_eq_true, decide_eq_true_eq, not_exists, not_and]
      intro s hs; have := h s hs; unfold nres at this; omega
    rw [if_pos h, if_neg c1]
    rw [if_neg c2, refSitesLoop_spec]
    simp [refPositions]
  · simp only [h, if_false]
    split
    · rfl
    · rename_i c1
      split
      · rfl
      · rename_i c2
        exfalso; apply h
        intro s hs
        simp only [List.any_eq_true, Bool.or_eq_true, decide_eq_true_eq, not_exists, not_and, not_or] at c1 c2
        have := c1 s hs; have := c2 s hs; unfold nres; omega

theorem refPositions_sorted (sites : List Int) (t : Seq) : (refPositions sites t).Pairwise (· < ·) := by
  unfold refPositions
  rw [List.pairwise_map]
  have hs : ((List.range (nres t)).filter fun k => sites.contains ((k : Nat) : Int)).Pairwise (· < ·) :=
    (List.pairwise_lt_range).sublist List.filter_sublist
  have hm : ∀ k ∈ ((List.range (nres t)).filter fun k => sites.contains ((k : Nat) : Int)), k < nres t := by
    intro k hk; simpa using (List.mem_filter.mp hk).1
  generalize ((List.range (nres t)).filter fun k => sites.contains ((k : Nat) : Int)) = l at hs hm
  revert hm
  induction hs with
  | nil => intro _; exact List.Pairwise.nil
  | cons hx _ ih =>
    intro hm
    refine List.Pairwise.cons ?_ (ih fun k hk => hm k (List.mem_cons_of_mem _ hk))
    intro b hb
    have := skipTo_strictMono t (hx b hb) (hm b (List.mem_cons_of_mem _ hb))
    omega

/-- membership: exactly the positions holding a residue whose ungapped index is wanted -/
theorem mem_refPositions (sites : List Int) (t : Seq) (p : Int) :
    p ∈ refPositions sites t ↔
      0 ≤ p ∧ p < t.length ∧ t.getD p.toNat GAP ≠ GAP ∧ ((nres (t.take p.toNat) : Nat) : Int) ∈ sites := by
  unfold refPositions
  simp only [List.mem_map, List.mem_filter, List.mem_range, List.contains_eq_mem, decide_eq_true_eq]
  constructor
  · rintro ⟨k, ⟨hk, hm⟩, rfl⟩
    obtain ⟨a, b, c⟩ := skipTo_spec k t hk
    refine ⟨by omega, by omega, by simpa using b, ?_⟩
    simp only [Int.toNat_natCast]; rw [c]; exact hm
  · rintro ⟨h0, h1, h2, h3⟩
    have hp : p.toNat < t.length := by omega
    have hk : nres (t.take p.toNat) < nres t := by
      have := nres_take_succ t p.toNat hp h2
      have := nres_take_le t (p.toNat + 1)
      omega
    refine ⟨nres (t.take p.toNat), ⟨hk, h3⟩, ?_⟩
    have := skipTo_unique t _ p.toNat hp h2 rfl
    omega

/-- a contiguous request: the positions of residues `rs … rs+rl-1` -/
theorem refPositions_window (t : Seq) (rs rl : Nat) (h : rs + rl ≤ nres t) :
    refPositions (window (rs : Int) (rl : Int)) t = (List.range' rs rl).map fun k => ((skipTo k t : Nat) : Int) := by
  unfold refPositions
  rw [filter_range_inside (nres t) rs rl h]
  intro k _
  simp only [List.contains_eq_mem, decide_eq_true_eq, mem_window]
  omega

/-! ### link between `RefCoordinates` and `RefSites` -/

theorem refCoordinates_inv (rows : SRows) (name : String) (rs rl : Int) (x : Int × Int × Bool)
    (h : refCoordinates rows name rs rl = .ok x) :
    ∃ r, rows.find? (fun r => r.1 == name) = some r ∧ 0 ≤ rs ∧ 0 < rl := by
  unfold refCoordinates at h
  cases hf : rows.find? (fun r => r.1 == name) with
  | none => simp [hf] at h
  | some r =>
    simp only [hf] at h
    split at h
    · cases h
    · split at h
      · cases h
      · exact ⟨r, rfl, by omega, by omega⟩

theorem skipTo_mono (t : Seq) {k1 k2 : Nat} (h : k1 ≤ k2) (h2 : k2 < nres t) : skipTo k1 t ≤ skipTo k2 t := by
  rcases Nat.eq_or_lt_of_le h with e | e
  · subst e; exact Nat.le_refl _
  · exact Nat.le_of_lt (skipTo_strictMono t e h2)

/-- the last column of the reference window is the position of residue `rs + rl - 1` -/
theorem window_last (t : Seq) (rs rl : Nat) (hrl : 1 ≤ rl) (h : rs + rl ≤ nres t) :
    skipTo rs t + spanOf rl (t.drop (skipTo rs t)) - 1 = skipTo (rs + rl - 1) t := by
  obtain ⟨s1, s2, s3⟩ := skipTo_spec rs t (by omega)
  have hdrop : nres (t.drop (skipTo rs t)) = nres t - rs := by
    have := nres_append (t.take (skipTo rs t)) (t.drop (skipTo rs t))
    rw [List.take_append_drop, s3] at this
    omega
  obtain ⟨p1, p2, p3, p4⟩ := spanOf_spec rl (t.drop (skipTo rs t)) hrl (by omega)
  simp only [List.length_drop] at p2
  generalize spanOf rl (t.drop (skipTo rs t)) = al at p1 p2 p3 p4
  generalize skipTo rs t = a at s1 s2 s3 p1 p2 p3 p4
  have hg : t.getD (a + al - 1) GAP ≠ GAP := by
    rw [List.getD_eq_getElem?_getD, List.getElem?_drop] at p3
    rw [List.getD_eq_getElem?_getD]
    have : a + al - 1 = a + (al - 1) := by omega
    rw [this]; exact p3
  have htot : nres (t.take (a + al)) = rs + rl := by
    rw [List.take_add, nres_append, s3, p4]
  have hs := nres_take_succ t (a + al - 1) (by omega) hg
  have e : a + al - 1 + 1 = a + al := by omega
  rw [e] at hs
  exact skipTo_unique t _ _ (by omega) hg (by omega)

theorem rect_length {rows : SRows} {L : Int} (hr : Rect rows L) {r : String × Seq} (h : r ∈ rows) :
    (r.2.length : Int) = L := by
  rcases hr with ⟨e, _⟩ | ⟨_, _, hl⟩
  · subst e; simp at h
  · exact hl r h

/-- **`RefSites` on the contiguous request `rs … rs+rl-1` spans exactly the window of
`RefCoordinates(rs, rl)`** -/
theorem refSites_of_refCoordinates (rows : SRows) (L : Int) (name : String) (rs rl a l : Int) (hr : Rect rows L)
    (h : refCoordinates rows name rs rl = .ok (a, l, false)) :
    ∃ out, refSites rows L name (window rs rl) = .ok out ∧ (out.length : Int) = rl ∧
      out.head? = some a ∧ out.getLast? = some (a + l - 1) ∧ ∀ p ∈ out, a ≤ p ∧ p < a + l := by
  obtain ⟨r, hf, h0, h1⟩ := refCoordinates_inv _ _ _ _ _ h
  rw [refCoordinates_eval rows name rs rl r hf h0 h1] at h
  simp only [Out.ok.injEq, Prod.mk.injEq, decide_eq_false_iff_not, Int.not_lt] at h
  obtain ⟨ha, hl, he⟩ := h
  have hmem : r ∈ rows := List.mem_of_find?_eq_some hf
  have hlen := rect_length hr hmem
  have hn := nres_le_length r.2
  have hen : rs.toNat + rl.toNat ≤ nres r.2 := by omega
  have hlast := window_last r.2 rs.toNat rl.toNat (by omega) hen
  obtain ⟨p1, _, _, _⟩ := spanOf_spec rl.toNat (r.2.drop (skipTo rs.toNat r.2)) (by omega) (by
    have := nres_append (r.2.take (skipTo rs.toNat r.2)) (r.2.drop (skipTo rs.toNat r.2))
    rw [List.take_append_drop, (skipTo_spec rs.toNat r.2 (by omega)).2.2] at this
    omega)
  rw [refSites_eval rows L name _ r hf]
  have hall : ∀ s ∈ window rs rl, 0 ≤ s ∧ s < L ∧ s < (nres r.2 : Int) := by
    intro s hs; rw [mem_window] at hs; omega
  rw [if_pos hall]
  refine ⟨_, rfl, ?_⟩
  have ew : window rs rl = window (rs.toNat : Int) (rl.toNat : Int) := by
    congr 1 <;> omega
  rw [ew, refPositions_window r.2 rs.toNat rl.toNat hen]
  refine ⟨by simp; omega, ?_, ?_, ?_⟩
  · have : rl.toNat = (rl.toNat - 1) + 1 := by omega
    rw [this, List.range'_succ]; simp; omega
  · rw [List.getLast?_map, List.getLast?_range']
    have : ¬ (rl.toNat = 0) := by omega
    simp only [this, if_false, Option.map_some, Option.some.injEq]
    rw [← hlast]; omega
  · intro p hp
    simp only [List.mem_map, List.mem_range'_1] at hp
    obtain ⟨k, ⟨k1, k2⟩, rfl⟩ := hp
    have m1 := skipTo_mono r.2 k1 (by omega)
    have m2 := skipTo_mono r.2 (show k ≤ rs.toNat + rl.toNat - 1 by omega) (by omega)
    omega

end Gv.Proofs.SitesRef
