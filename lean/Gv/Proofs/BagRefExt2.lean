import Gv.Proofs.BagRef10
import Gv.Proofs.BagExt2
/-!
Refinement (C01), part 12: `Unalign` (re-insertion of the degapped rows into a NEW plain sequence set — also
when two rows share a name: the reference inserts too) and `RenameRegexp` (names supplied from outside).
-/
namespace Gv.Proofs.BagAbs
open Gv Gv.Model Gv.Spec Gv.Proofs.BagInv

/-! ### insertion of a list of rows, errors dropped: model and reference go together -/

theorem addAllIgnore_ref (l : List (String × Seq)) {b : Bag} (h : Good b) {s : SBag} (hs : Sim b s) :
    Sim (Model.addAllIgnore b l) (Spec.addAllIgnore s l) ∧ Good (Model.addAllIgnore b l) ∧
    (Spec.addAllIgnore s l).alphabet = s.alphabet ∧ (Model.addAllIgnore b l).alphabet = b.alphabet := by
  induction l generalizing b s with
  | nil => exact ⟨hs, h, rfl, rfl⟩
  | cons p t ih =>
    obtain ⟨n, q⟩ := p
    obtain ⟨g1, _, g3, g4, g5⟩ := add_ref h hs n q
    obtain ⟨k1, k2, k3, k4⟩ := ih g3 g1
    exact ⟨k1, k2, k3.trans g4, k4.trans g5⟩

/-! ### `Unalign` -/

theorem ref_unalign {b : Bag} (h : Good b) : Refines b .unalign := by
  intro s' st e
  simp only [Spec.stepOp] at e
  simp only [Model.stepOp]
  by_cases ha : (!seqBagAlphabetOK (abs b).alphabet) = true
  · rw [if_pos ha] at e; simp at e
  · have ha' : ¬ (!seqBagAlphabetOK b.alphabet) = true := ha
    rw [if_neg ha] at e
    rw [if_neg ha']
    simp only [Prod.mk.injEq, Option.some.injEq] at e
    obtain ⟨e1, e2⟩ := e
    have hsim : Sim (newBag b.alphabet) ({ alphabet := b.alphabet } : SBag) := ⟨rfl, rfl, rfl⟩
    obtain ⟨k1, k2, k3, k4⟩ := addAllIgnore_ref ((pairs b).map fun p => (p.1, degap p.2)) (good_newBag b.alphabet) hsim
    have habs := k1.eq_abs (k3.trans k4.symm)
    refine ⟨?_, e2, k2⟩
    rw [← e1]
    exact habs.symm

/-! ### `RenameRegexp` -/

theorem pairs_renameList_aux : ∀ (rows : List Row) (names : List String) (k : Nat),
    (renameList rows names).map (fun r => (r.name, r.seq)) =
      ((rows.map fun r => (r.name, r.seq)).zipIdx k).map fun (r, i) => (names.getD (i - k) r.1, r.2)
  | [], _, _ => rfl
  | r :: t, [], k => by
    simp only [renameList, List.getD_nil]
    have : (fun x : (String × Seq) × Nat => (x.fst.fst, x.fst.snd)) = Prod.fst := by funext x; rfl
    rw [this, List.zipIdx_map_fst]
  | r :: t, n :: ns, k => by
    simp only [renameList, List.map_cons, List.zipIdx_cons, Nat.sub_self, List.getD_cons_zero, List.cons.injEq, true_and]
    rw [pairs_renameList_aux t ns (k + 1)]
    apply List.map_congr_left
    intro p hp
    obtain ⟨x, i⟩ := p
    have hi : k + 1 ≤ i := List.le_snd_of_mem_zipIdx hp
    have : i - k = (i - (k + 1)) + 1 := by omega
    simp only [this, List.getD_cons_succ]

theorem abs_renameRegexp (names : List String) (b : Bag) :
    abs (renameRegexp names b).1 =
      { abs b with rows := (abs b).rows.zipIdx.map fun (r, i) => (names.getD i r.1, r.2) } := by
  have := pairs_renameList_aux b.rows names 0
  simp only [Nat.sub_zero] at this
  simp only [abs, renameRegexp, pairs, this]

theorem good_renameRegexp (names : List String) {b : Bag} (h : Good b) : Good (renameRegexp names b).1 :=
  ⟨inv_renameRegexp names b h.inv, idxFirst_rebuild _ _, rect_renameRegexp names h.rect, h.alpha.congr rfl rfl⟩

theorem ref_renameRe {b : Bag} (h : Good b) (ok : Bool) (names : List String) : Refines b (.renameRe ok names) := by
  intro s' st e
  simp only [Spec.stepOp] at e
  simp only [Model.stepOp]
  cases ok with
  | false =>
    simp only [Bool.not_false, if_true, Prod.mk.injEq, Option.some.injEq] at e ⊢
    exact ⟨e.1, e.2, h⟩
  | true =>
    simp only [Bool.not_true, Bool.false_eq_true, if_false, Prod.mk.injEq, Option.some.injEq] at e ⊢
    obtain ⟨e1, e2⟩ := e
    refine ⟨?_, ?_, good_renameRegexp names h⟩
    · rw [← e1]; exact abs_renameRegexp names b
    · rw [← e2, abs_names]; rfl

/-! ### `SetAlphabet` -/

theorem seqs_pairs (b : Bag) : (abs b).rows.map Prod.snd = b.rows.map (·.seq) := by
  simp [pairs, List.map_map, Function.comp_def]

/-- the decision of `SetAlphabet` as the reference states it -/
theorem setAlphabetResult_eq (a : Int) (d : Nat) :
    setAlphabetResult a d =
      if a == 1 && (d == NUCLEOTIDS || d == BOTH) then some NUCLEOTIDS
      else if a == 0 && (d == AMINOACIDS || d == BOTH) then some AMINOACIDS else none := by
  unfold setAlphabetResult
  by_cases hu : d = UNKNOWN
  · subst hu; simp [UNKNOWN, NUCLEOTIDS, BOTH, AMINOACIDS]
  · have : (d == UNKNOWN) = false := by simpa using hu
    simp only [this, Bool.false_eq_true, if_false]
    by_cases h1 : a = 1
    · subst h1; simp [NUCLEOTIDS, AMINOACIDS]
    · by_cases h0 : a = 0
      · subst h0; simp [NUCLEOTIDS, AMINOACIDS]
      · simp [NUCLEOTIDS, AMINOACIDS, h1, h0]

theorem ref_setAlpha {b : Bag} (h : Good b) (a : Int) : Refines b (.setAlpha a) := by
  intro s' st e
  simp only [Spec.stepOp, seqs_pairs] at e
  simp only [Model.stepOp, setAlphabet, setAlphabetResult_eq]
  have hgood : ∀ x, x ≠ BOTH → Good { b with alphabet := x } := fun x hx =>
    ⟨h.inv.congr rfl rfl rfl, h.first.transfer rfl rfl, h.rect.congr rfl rfl rfl, fun _ => hx⟩
  by_cases c1 : (a == 1 && (detectAlphabetBag (b.rows.map (·.seq)) == NUCLEOTIDS || detectAlphabetBag (b.rows.map (·.seq)) == BOTH)) = true
  · rw [if_pos c1] at e
    simp only [c1, if_true, Prod.mk.injEq, Option.some.injEq] at e ⊢
    exact ⟨e.1, by simpa using e.2, hgood _ (by simp [NUCLEOTIDS, BOTH])⟩
  · rw [if_neg c1] at e
    by_cases c2 : (a == 0 && (detectAlphabetBag (b.rows.map (·.seq)) == AMINOACIDS || detectAlphabetBag (b.rows.map (·.seq)) == BOTH)) = true
    · rw [if_pos c2] at e
      simp only [c1, c2, if_true, Bool.false_eq_true, if_false, Prod.mk.injEq, Option.some.injEq] at e ⊢
      exact ⟨e.1, by simpa using e.2, hgood _ (by simp [AMINOACIDS, BOTH])⟩
    · rw [if_neg c2] at e
      simp only [c1, c2, Bool.false_eq_true, if_false, Prod.mk.injEq, Option.some.injEq] at e ⊢
      exact ⟨e.1, by simpa using e.2, h⟩

end Gv.Proofs.BagAbs
