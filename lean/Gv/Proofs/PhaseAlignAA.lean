import Gv.Proofs.PhaseAlign
/-!
Helper development for C16: the translate mode of the phaser, `alignAgainstRefsAA`
(`Gv.Model.PhaseAlign.phaseAA`).

* `alignATG_ok_bounds`: the coordinates the `ALIGN_ALGO_ATG` aligner reports for its second sequence lie inside
  it (`0 ≤ start2 < |s2|`, `start2 − 1 ≤ end2 < |s2|`) — for both variants of the fill; with the repaired fill the
  trace-back consumes a residue of the second sequence (`alignATG_ok_consumes`: `start2 ≤ end2`), because it can
  leave the matrix through row 0 only by a diagonal step (`fill_no_up_row0`);
* `Good`: the invariant of the selection loops — the kept hit's amino-acid positions lie inside the translation
  of its strand in its frame; `aaStep_good`, `aaFrames_good`, `aaSelect_good`;
* `phaseAA_no_panic`: hence none of the four slice expressions of `alignAgainstRefsAA` is out of range;
* `phaseAA_ok`: what an `ok` result is.
-/
namespace Gv.Proofs.PhaseAlignAA
open Gv Gv.Model Gv.Model.SW Gv.Model.Phase Gv.Model.PhaseAlign Gv.Proofs.SWTrace Gv.Proofs.PhaseAlign Gv.Props.C09

/-! ### the aligner's coordinates -/

/-- the un-stopped trace-back only moves towards the origin -/
theorem btLoopATG_le (gopen gext : Int) (m : Nat → Nat → Int) (tr : Nat → Nat → Dir) (s1 s2 : Seq) :
    ∀ (f pi pj : Nat) (st : BT) (out : Nat × Nat × BT),
      btLoopATG gopen gext m tr s1 s2 f pi pj st = some out → out.1 ≤ pi ∧ out.2.1 ≤ pj := by
  intro f
  induction f with
  | zero =>
    intro pi pj st out ho
    simp only [btLoopATG, Option.some.injEq] at ho
    subst ho
    exact ⟨Nat.le_refl _, Nat.le_refl _⟩
  | succ f ih =>
    intro pi pj st out ho
    simp only [btLoopATG] at ho
    split at ho
    · simp only [Option.some.injEq] at ho
      subst ho
      exact ⟨Nat.le_refl _, Nat.le_refl _⟩
    · cases htr : tr (pi - 1) (pj - 1) with
      | diag =>
        simp only [btStep, htr] at ho
        have := ih _ _ _ out ho
        omega
      | up =>
        simp only [btStep, htr] at ho
        by_cases h0 : pi - 1 = 0
        · simp [h0] at ho
        · simp only [h0, if_false] at ho
          have := ih _ _ _ out ho
          omega
      | left =>
        simp only [btStep, htr] at ho
        by_cases h0 : pj - 1 = 0
        · simp [h0] at ho
        · simp only [h0, if_false] at ho
          have := ih _ _ _ out ho
          omega

/-- when no cell of row 0 says `UP`, the un-stopped trace-back started inside the matrix consumes at least one
residue of the second sequence: it leaves through row 0 only by a diagonal step -/
theorem btLoopATG_consumes (gopen gext : Int) (m : Nat → Nat → Int) (tr : Nat → Nat → Dir) (s1 s2 : Seq)
    (l2 : Nat) (hup : ∀ j, j < l2 → tr 0 j ≠ Dir.up) :
    ∀ (f pi pj : Nat) (st : BT) (out : Nat × Nat × BT),
      btLoopATG gopen gext m tr s1 s2 f pi pj st = some out → pi + pj ≤ f → 1 ≤ pi → 1 ≤ pj → pj ≤ l2 →
      out.2.1 < pj := by
  intro f
  induction f with
  | zero => intro pi pj st out _ hf h1 h2; omega
  | succ f ih =>
    intro pi pj st out ho hf h1 h2 h3
    simp only [btLoopATG] at ho
    split at ho
    · omega
    · cases htr : tr (pi - 1) (pj - 1) with
      | diag =>
        simp only [btStep, htr] at ho
        have := btLoopATG_le _ _ _ _ _ _ _ _ _ _ _ ho
        omega
      | up =>
        simp only [btStep, htr] at ho
        by_cases h0 : pi - 1 = 0
        · exact absurd (h0 ▸ htr) (hup (pj - 1) (by omega))
        · simp only [h0, if_false] at ho
          have hb := gapLen_bounds (fun r => m r (pj - 1)) (m (pi - 1) (pj - 1)) gopen gext (pi - 1) (pi - 1) 1
            (Nat.le_refl _) (by omega) (by omega)
          exact ih _ _ _ out ho (by omega) (by omega) h2 h3
      | left =>
        simp only [btStep, htr] at ho
        by_cases h0 : pj - 1 = 0
        · simp [h0] at ho
        · simp only [h0, if_false] at ho
          have hb := gapLen_bounds (fun c => m (pi - 1) c) (m (pi - 1) (pj - 1)) gopen gext (pj - 1) (pj - 1) 1
            (Nat.le_refl _) (by omega) (by omega)
          have := btLoopATG_le _ _ _ _ _ _ _ _ _ _ _ ho
          omega

/-- **the positions `ALIGN_ALGO_ATG` reports for its second sequence lie inside it** — both variants of the
fill: `0 ≤ start2 < |s2|` and `start2 − 1 ≤ end2 < |s2|` (`end2 = start2 − 1`: no residue of `s2` is aligned) -/
theorem alignATG_ok_bounds (a : Aligner) (fixed : Bool) (s1 s2 : Seq) (r : AtgResult)
    (h : alignATG a fixed s1 s2 = AtgOutcome.ok r) :
    0 ≤ r.start2 ∧ r.start2 < s2.length ∧ r.start2 ≤ r.end2 + 1 ∧ r.end2 < s2.length := by
  simp only [alignATG] at h
  split at h
  · cases h
  · split at h
    · split at h
      · cases h
      · rename_i hne
        simp only [Bool.or_eq_true, List.isEmpty_iff, not_or] at hne
        have hp2 : 0 < s2.length := List.length_pos_iff.mpr hne.2
        split at h
        · cases h
        · rename_i pi pj st hl
          have hle := btLoopATG_le _ _ _ _ _ _ _ _ _ _ _ hl
          rename_i i1 i2 _ _ _
          obtain ⟨_, b3⟩ := lastRowBest_range (fill a fixed (s1.reverse.zip i1) (s2.reverse.zip i2)).m
            (s1.reverse.length - 1) s2.reverse.length
          simp only [List.length_reverse] at b3 hle
          simp only [AtgOutcome.ok.injEq] at h
          subst h
          simp only [List.length_reverse] at hle ⊢
          refine ⟨?_, ?_, ?_, ?_⟩ <;> omega
    · cases h

/-- **with the repaired fill the returned alignment holds a residue of the second sequence**: `start2 ≤ end2` -/
theorem alignATG_ok_consumes (a : Aligner) (s1 s2 : Seq) (r : AtgResult)
    (h : alignATG a true s1 s2 = AtgOutcome.ok r) : r.start2 ≤ r.end2 := by
  simp only [alignATG] at h
  split at h
  · cases h
  · split at h
    · split at h
      · cases h
      · rename_i hne
        simp only [Bool.or_eq_true, List.isEmpty_iff, not_or] at hne
        have hp1 : 0 < s1.length := List.length_pos_iff.mpr hne.1
        have hp2 : 0 < s2.length := List.length_pos_iff.mpr hne.2
        split at h
        · cases h
        · rename_i pi pj st hl
          rename_i i1 i2 hi1 hi2 _
          have hl1 : i1.length = s1.length := by rw [mapM_length _ _ _ hi1]; simp
          have hl2 : i2.length = s2.length := by rw [mapM_length _ _ _ hi2]; simp
          have hx1l : (s1.reverse.zip i1).length = s1.length := by simp [List.length_zip]; omega
          have hx2l : (s2.reverse.zip i2).length = s2.length := by simp [List.length_zip]; omega
          obtain ⟨_, b3⟩ := lastRowBest_range (fill a true (s1.reverse.zip i1) (s2.reverse.zip i2)).m
            (s1.reverse.length - 1) s2.reverse.length
          simp only [List.length_reverse] at b3 hl
          have hc := btLoopATG_consumes a.gapopen a.gapextend (fill a true (s1.reverse.zip i1) (s2.reverse.zip i2)).m
            (fill a true (s1.reverse.zip i1) (s2.reverse.zip i2)).t s1.reverse s2.reverse s2.length
            (fun j hj => fill_no_up_row0 a _ _ (by omega) j (by omega)) _ _ _ _ _ hl (by omega) (by omega) (by omega)
            (by omega)
          simp only [AtgOutcome.ok.injEq] at h
          subst h
          simp only [List.length_reverse] at hc ⊢
          omega
    · cases h

/-! ### the selection loops -/

theorem codonsFrom_length (code : List (List Byte × Byte)) : ∀ (n : Nat) (s : Seq), s.length ≤ n →
    (codonsFrom code s).length = s.length / 3 := by
  intro n
  induction n with
  | zero => intro s h; cases s <;> simp_all [codonsFrom]
  | succ n ih =>
    intro s h
    match s with
    | [] => simp [codonsFrom]
    | [_] => simp [codonsFrom]
    | [_, _] => simp [codonsFrom]
    | a :: b :: c :: t =>
      simp only [codonsFrom, List.length_cons]
      rw [ih t (by simp at h; omega)]
      omega

theorem bufferTranslate_some (code : List (List Byte × Byte)) (f : Nat) (s p : Seq)
    (h : bufferTranslate code f s = some p) : p = codonsFrom code (s.drop f) := by
  unfold bufferTranslate at h
  by_cases h1 : (detectAlphabetSeq s != NUCLEOTIDS && detectAlphabetSeq s != BOTH) = true
  · simp [h1] at h
  · by_cases h2 : s.length < 3 + f
    · simp [h1, h2] at h
    · simp [h1, h2] at h
      exact h.symm

/-- Go's `seqend + 1` of the kept hit -/
def endAA (b : AABest) (h : Hit) : Nat := if b.noRes then 0 else h.seqend + 1

/-- the invariant of the two loops of `alignAgainstRefsAA`: the kept hit lies in a frame `0..2`, on the reverse
strand only when both strands are searched, and its amino-acid positions lie inside the translation of its strand
in its frame (`seqstart < |seqaa|`, `seqstart ≤ seqend + 1 ≤ |seqaa|`); with the repaired aligner it holds a
residue of the translation (`seqstart ≤ seqend`) -/
def Good (c : NTCfg) (code : List (List Byte × Byte)) (seq : Seq) (b : AABest) : Prop :=
  ∀ h, b.hit = some h →
    h.frame < 3 ∧ (h.rev = true → c.reverse = true) ∧
    h.seqstart < (codonsFrom code ((strandOf seq h).drop h.frame)).length ∧
    h.seqstart ≤ endAA b h ∧ endAA b h ≤ (codonsFrom code ((strandOf seq h).drop h.frame)).length ∧
    (c.fixed = true → b.noRes = false ∧ h.seqstart ≤ h.seqend)

theorem good_init (c : NTCfg) (code : List (List Byte × Byte)) (seq : Seq) : Good c code seq {} := by
  intro h hh
  cases hh

theorem aaStep_good (c : NTCfg) (code : List (List Byte × Byte)) (seq orfaa : Seq) (b b' : AABest) (phase : Nat)
    (hph : 3 ≤ phase → c.reverse = true) (hg : Good c code seq b)
    (hs : aaStep c code seq orfaa b phase = AAStep.go b') : Good c code seq b' := by
  simp only [aaStep] at hs
  split at hs
  · cases hs
  · rename_i seqaa htr
    have hseqaa := bufferTranslate_some _ _ _ _ htr
    split at hs
    · cases hs
    · cases hs
    · rename_i r hal
      split at hs
      · simp only [AAStep.go.injEq] at hs
        subst hs
        intro h hh
        simp only [Option.some.injEq] at hh
        subst hh
        obtain ⟨k1, k2, k3, k4⟩ := alignATG_ok_bounds _ _ _ _ _ hal
        have hstrand : strandOf seq ⟨decide (3 ≤ phase), phase % 3, r.start2.toNat, r.end2.toNat⟩ =
            (if decide (3 ≤ phase) = true then revcompIgnoringError seq else seq) := rfl
        simp only [hstrand, ← hseqaa, endAA]
        refine ⟨Nat.mod_lt _ (by omega), fun hr => hph (by simpa using hr), by omega, ?_, ?_, ?_⟩
        · by_cases hneg : r.end2 < 0
          · simp only [hneg, decide_true, if_true]; omega
          · simp only [hneg, decide_false, Bool.false_eq_true, if_false]; omega
        · by_cases hneg : r.end2 < 0
          · simp only [hneg, decide_true, if_true]; omega
          · simp only [hneg, decide_false, Bool.false_eq_true, if_false]; omega
        · intro hfix
          rw [hfix] at hal
          have := alignATG_ok_consumes _ _ _ _ hal
          refine ⟨by simp only [decide_eq_false_iff_not]; omega, by omega⟩
      · simp only [AAStep.go.injEq] at hs
        subst hs
        exact hg

theorem aaStep_no_panic (c : NTCfg) (code : List (List Byte × Byte)) (seq orfaa : Seq) (b : AABest) (phase : Nat)
    (hfix : c.fixed = true) : aaStep c code seq orfaa b phase ≠ AAStep.panic := by
  simp only [aaStep]
  split
  · simp
  · split
    · simp
    · rename_i hal
      rw [hfix] at hal
      exact absurd hal (alignATG_never_panics _ _ _)
    · split <;> simp

theorem aaFrames_good (c : NTCfg) (code : List (List Byte × Byte)) (seq orfaa : Seq) :
    ∀ (l : List Nat) (b b' : AABest), (∀ ph ∈ l, 3 ≤ ph → c.reverse = true) → Good c code seq b →
      aaFrames c code seq orfaa l b = AAStep.go b' → Good c code seq b' := by
  intro l
  induction l with
  | nil =>
    intro b b' _ hg hs
    simp only [aaFrames, AAStep.go.injEq] at hs
    subst hs
    exact hg
  | cons ph rest ih =>
    intro b b' hl hg hs
    simp only [aaFrames] at hs
    cases h1 : aaStep c code seq orfaa b ph with
    | go b1 =>
      simp only [h1] at hs
      exact ih b1 b' (fun p hp => hl p (List.mem_cons_of_mem _ hp))
        (aaStep_good c code seq orfaa b b1 ph (hl ph List.mem_cons_self) hg h1) hs
    | err => simp only [h1] at hs; cases hs
    | panic => simp only [h1] at hs; cases hs

theorem aaFrames_no_panic (c : NTCfg) (code : List (List Byte × Byte)) (seq orfaa : Seq) (hfix : c.fixed = true) :
    ∀ (l : List Nat) (b : AABest), aaFrames c code seq orfaa l b ≠ AAStep.panic := by
  intro l
  induction l with
  | nil => intro b; simp [aaFrames]
  | cons ph rest ih =>
    intro b
    simp only [aaFrames]
    split
    · exact ih _
    · rename_i o hno
      cases ho : aaStep c code seq orfaa b ph with
      | go x => exact absurd ho (hno x)
      | err => simp
      | panic => exact absurd ho (aaStep_no_panic c code seq orfaa b ph hfix)

theorem aaPhases_rev (c : NTCfg) : ∀ ph ∈ aaPhases c, 3 ≤ ph → c.reverse = true := by
  intro ph hph h3
  unfold aaPhases at hph
  by_cases hr : c.reverse = true
  · exact hr
  · simp only [hr, Bool.false_eq_true, if_false, List.mem_cons, List.not_mem_nil, or_false] at hph
    omega

theorem aaSelect_good (c : NTCfg) (code : List (List Byte × Byte)) (seq : Seq) :
    ∀ (orfs : List Seq) (b b' : AABest), Good c code seq b →
      aaSelect c code seq orfs b = AAStep.go b' → Good c code seq b' := by
  intro orfs
  induction orfs with
  | nil =>
    intro b b' hg hs
    simp only [aaSelect, AAStep.go.injEq] at hs
    subst hs
    exact hg
  | cons o rest ih =>
    intro b b' hg hs
    simp only [aaSelect] at hs
    cases h1 : aaFrames c code seq o (aaPhases c) b with
    | go b1 =>
      simp only [h1] at hs
      exact ih b1 b' (aaFrames_good c code seq o _ b b1 (aaPhases_rev c) hg h1) hs
    | err => simp only [h1] at hs; cases hs
    | panic => simp only [h1] at hs; cases hs

theorem aaSelect_no_panic (c : NTCfg) (code : List (List Byte × Byte)) (seq : Seq) (hfix : c.fixed = true) :
    ∀ (orfs : List Seq) (b : AABest), aaSelect c code seq orfs b ≠ AAStep.panic := by
  intro orfs
  induction orfs with
  | nil => intro b; simp [aaSelect]
  | cons o rest ih =>
    intro b
    simp only [aaSelect]
    split
    · exact ih _
    · rename_i o' hno
      cases ho : aaFrames c code seq o (aaPhases c) b with
      | go x => exact absurd ho (hno x)
      | err => simp
      | panic => exact absurd ho (aaFrames_no_panic c code seq o hfix _ b)

/-! ### the result -/

/-- one of the four slice expressions of `alignAgainstRefsAA` is out of range -/
def outOfRange (c : NTCfg) (code : List (List Byte × Byte)) (seq : Seq) (b : AABest) (h : Hit) : Bool :=
  (h.frame + h.seqstart * 3 > (if c.cutend then h.frame + endAA b h * 3 else (strandOf seq h).length) ||
     (if c.cutend then h.frame + endAA b h * 3 else (strandOf seq h).length) > (strandOf seq h).length ||
     h.seqstart > (if c.cutend then endAA b h else (codonsFrom code ((strandOf seq h).drop h.frame)).length) ||
     (if c.cutend then endAA b h else (codonsFrom code ((strandOf seq h).drop h.frame)).length) >
       (codonsFrom code ((strandOf seq h).drop h.frame)).length)

/-- for a hit that meets the invariant none of the slice expressions is out of range -/
theorem good_in_range (c : NTCfg) (code : List (List Byte × Byte)) (seq : Seq) (b : AABest) (h : Hit)
    (hg : Good c code seq b) (hh : b.hit = some h) : outOfRange c code seq b h = false := by
  unfold outOfRange
  obtain ⟨_, _, g3, g4, g5, _⟩ := hg h hh
  rw [codonsFrom_length code _ _ (Nat.le_refl _)] at g3 g5 ⊢
  simp only [List.length_drop] at g3 g5 ⊢
  cases c.cutend with
  | true =>
    simp only [if_true, Bool.or_eq_false_iff, decide_eq_false_iff_not]
    refine ⟨⟨⟨?_, ?_⟩, ?_⟩, ?_⟩ <;> omega
  | false =>
    simp only [Bool.false_eq_true, if_false, Bool.or_eq_false_iff, decide_eq_false_iff_not]
    refine ⟨⟨⟨?_, ?_⟩, ?_⟩, ?_⟩ <;> omega

/-- the shape of `phaseAA` once the selection has returned -/
theorem phaseAA_of_select_none (c : NTCfg) (code : List (List Byte × Byte)) (orfs : List Seq) (seq : Seq) (b : AABest)
    (hs : aaSelect c code seq orfs {} = AAStep.go b) (hh : b.hit = none) :
    phaseAA c code orfs seq = NTOut.removed (noHit seq) := by
  simp only [phaseAA, hs, hh]

theorem phaseAA_of_select_some (c : NTCfg) (code : List (List Byte × Byte)) (orfs : List Seq) (seq : Seq) (b : AABest)
    (h : Hit) (hs : aaSelect c code seq orfs {} = AAStep.go b) (hh : b.hit = some h) :
    phaseAA c code orfs seq =
      if outOfRange c code seq b h = true then NTOut.panic
      else if (b.noRes && c.cutend) = true then NTOut.ok ⟨h.frame + h.seqstart * 3, [], [], some []⟩ h
      else NTOut.ok (assembleAA code (strandOf seq h) h c.cutend) h := by
  simp only [phaseAA, hs, hh, endAA, outOfRange]
  rfl

/-- **`alignAgainstRefsAA` on top of the repaired aligner has no run-time panic**: the aligner does not index out
of range and every slice expression is in range -/
theorem phaseAA_no_panic (c : NTCfg) (code : List (List Byte × Byte)) (orfs : List Seq) (seq : Seq)
    (hfix : c.fixed = true) : phaseAA c code orfs seq ≠ NTOut.panic := by
  cases hs : aaSelect c code seq orfs {} with
  | err => simp [phaseAA, hs]
  | panic => exact absurd hs (aaSelect_no_panic c code seq hfix orfs {})
  | go b =>
    have hg := aaSelect_good c code seq orfs {} b (good_init c code seq) hs
    cases hh : b.hit with
    | none => rw [phaseAA_of_select_none c code orfs seq b hs hh]; simp
    | some h =>
      rw [phaseAA_of_select_some c code orfs seq b h hs hh, good_in_range c code seq b h hg hh]
      simp only [Bool.false_eq_true, if_false]
      split <;> simp

/-- what an `ok` result of `phaseAA` is: the selection returned a hit that meets the invariant, and the result is
`assembleAA` of that hit — or, only when the kept alignment holds no residue of the translated sequence (excluded
for the repaired aligner by `Good`), the end is cut and the hit starts at the first residue, the empty result at the
frame's offset -/
theorem phaseAA_ok (c : NTCfg) (code : List (List Byte × Byte)) (orfs : List Seq) (seq : Seq) (p : Phased) (h : Hit)
    (hp : phaseAA c code orfs seq = NTOut.ok p h) :
    ∃ b, aaSelect c code seq orfs {} = AAStep.go b ∧ b.hit = some h ∧ Good c code seq b ∧
      ((b.noRes = true ∧ c.cutend = true ∧ p = ⟨h.frame + h.seqstart * 3, [], [], some []⟩) ∨
        ((b.noRes && c.cutend) = false ∧ p = assembleAA code (strandOf seq h) h c.cutend)) := by
  cases hs : aaSelect c code seq orfs {} with
  | err => simp [phaseAA, hs] at hp
  | panic => simp [phaseAA, hs] at hp
  | go b =>
    have hg := aaSelect_good c code seq orfs {} b (good_init c code seq) hs
    cases hh : b.hit with
    | none => rw [phaseAA_of_select_none c code orfs seq b hs hh] at hp; cases hp
    | some h' =>
      rw [phaseAA_of_select_some c code orfs seq b h' hs hh, good_in_range c code seq b h' hg hh] at hp
      simp only [Bool.false_eq_true, if_false] at hp
      by_cases hdeg : (b.noRes && c.cutend) = true
      · rw [if_pos hdeg] at hp
        simp only [NTOut.ok.injEq] at hp
        obtain ⟨rfl, rfl⟩ := hp
        simp only [Bool.and_eq_true] at hdeg
        exact ⟨b, rfl, hh, hg, Or.inl ⟨hdeg.1, hdeg.2, rfl⟩⟩
      · rw [if_neg hdeg] at hp
        simp only [NTOut.ok.injEq] at hp
        obtain ⟨rfl, rfl⟩ := hp
        exact ⟨b, rfl, hh, hg, Or.inr ⟨by simpa using hdeg, rfl⟩⟩

/-- the only `removed` result of `phaseAA` is `noHit`: no alignment scored above 0 -/
theorem phaseAA_removed (c : NTCfg) (code : List (List Byte × Byte)) (orfs : List Seq) (seq : Seq) (p : Phased)
    (hp : phaseAA c code orfs seq = NTOut.removed p) :
    p = noHit seq ∧ ∃ b, aaSelect c code seq orfs {} = AAStep.go b ∧ b.hit = none := by
  cases hs : aaSelect c code seq orfs {} with
  | err => simp [phaseAA, hs] at hp
  | panic => simp [phaseAA, hs] at hp
  | go b =>
    cases hh : b.hit with
    | none =>
      rw [phaseAA_of_select_none c code orfs seq b hs hh] at hp
      simp only [NTOut.removed.injEq] at hp
      exact ⟨hp.symm, b, rfl, hh⟩
    | some h' =>
      rw [phaseAA_of_select_some c code orfs seq b h' hs hh] at hp
      generalize outOfRange c code seq b h' = o at hp
      generalize (b.noRes && c.cutend) = d at hp
      cases o <;> cases d <;> simp at hp

/-- everything the public theorems of `Props/C16.lean` state about an `ok` result, in one place -/
theorem phaseAA_ok_facts (c : NTCfg) (code : List (List Byte × Byte)) (orfs : List Seq) (seq : Seq) (p : Phased)
    (h : Hit) (hp : phaseAA c code orfs seq = NTOut.ok p h) :
    h.frame < 3 ∧ (h.rev = true → c.reverse = true) ∧
    p.position = h.frame + 3 * h.seqstart ∧ p.codon = p.nt ∧
    p.position + p.nt.length ≤ (strandOf seq h).length ∧
    (c.cutend = false → p.position + p.nt.length = (strandOf seq h).length) ∧
    (c.cutend = true → p.nt.length % 3 = 0) ∧
    (p = assembleAA code (strandOf seq h) h c.cutend ∨ (c.cutend = true ∧ p.nt = [] ∧ p.aa = some [])) ∧
    (c.fixed = true → p = assembleAA code (strandOf seq h) h c.cutend ∧ h.seqstart ≤ h.seqend ∧
      h.seqend < (codonsFrom code ((strandOf seq h).drop h.frame)).length) := by
  obtain ⟨b, _, hh, hg, hcase⟩ := phaseAA_ok c code orfs seq p h hp
  obtain ⟨g1, g2, g3, g4, g5, g6⟩ := hg h hh
  have hL := codonsFrom_length code _ ((strandOf seq h).drop h.frame) (Nat.le_refl _)
  rw [hL] at g3 g5
  simp only [List.length_drop] at g3 g5
  rcases hcase with ⟨hn, hce, rfl⟩ | ⟨hnd, rfl⟩
  · -- the alignment holds no residue of the translation and the end is cut
    simp only [endAA, hn, if_true] at g4 g5
    refine ⟨g1, g2, ?_, rfl, ?_, ?_, ?_, Or.inr ⟨hce, rfl, rfl⟩, ?_⟩
    · show h.frame + h.seqstart * 3 = h.frame + 3 * h.seqstart
      omega
    · show h.frame + h.seqstart * 3 + ([] : Seq).length ≤ (strandOf seq h).length
      simp only [List.length_nil]
      omega
    · intro hf
      rw [hce] at hf
      cases hf
    · intro _
      rfl
    · intro hfix
      have := (g6 hfix).1
      rw [hn] at this
      cases this
  · have hend : c.cutend = true → endAA b h = h.seqend + 1 := by
      intro hce
      rw [hce, Bool.and_true] at hnd
      simp [endAA, hnd]
    refine ⟨g1, g2, by simp only [assembleAA]; omega, rfl, ?_, ?_, ?_, Or.inl rfl, ?_⟩
    · cases hce : c.cutend with
      | true =>
        have := hend hce
        simp only [assembleAA, slice, if_true, List.length_take, List.length_drop]
        omega
      | false =>
        simp only [assembleAA, slice, Bool.false_eq_true, if_false, List.length_take, List.length_drop]
        omega
    · intro hce
      simp only [hce, assembleAA, slice, Bool.false_eq_true, if_false, List.length_take, List.length_drop]
      omega
    · intro hce
      have := hend hce
      simp only [hce, assembleAA, slice, if_true, List.length_take, List.length_drop]
      omega
    · intro hfix
      obtain ⟨k1, k2⟩ := g6 hfix
      simp only [endAA, k1, Bool.false_eq_true, if_false] at g5
      rw [hL]
      simp only [List.length_drop]
      exact ⟨trivial, k2, by omega⟩

end Gv.Proofs.PhaseAlignAA
