import Gv.Proofs.ProtDistCounts
import Gv.Proofs.ProtDistBrent
import Gv.Proofs.SubstReal
import Mathlib.Analysis.SpecialFunctions.Log.Basic
import Mathlib.Tactic.Linarith
import Mathlib.Tactic.NormNum
import Mathlib.Tactic.Positivity
import Mathlib.Tactic.FieldSimp
import Mathlib.Algebra.BigOperators.Group.Finset.Basic
/-!
The parts of `Gv.Model.ProtDist` that need the real numbers: counts are invariant under permutations of the
site list, the normalised pair frequencies sum to one, the regenerated JC69 cell, the value `MLDist` stores for
a pair.  Used by `Props/C17.lean`.
-/
namespace Gv.Proofs.ProtDistReal
open Gv Gv.Model.ProtDist Gv.Gen.ProtDist Gv.Proofs.ProtDistCounts Gv.Proofs.Brent Gv.Spec.Subst
open Gv.Proofs.SubstReal

/-! ### constants over ℝ -/

theorem distMax_eq : (PROT_DIST_MAX : ℝ) = 20 := by simp [PROT_DIST_MAX]
theorem blMax_eq : (BL_MAX : ℝ) = 100 := by simp [BL_MAX]
theorem mlMissing_eq : (mlMissing : ℝ) = -1 := by simp [mlMissing]
theorem sumLow_eq : (sumLow : ℝ) = 1 / 1000 := by simp [sumLow]
theorem sumHi1_eq : (sumHi1 : ℝ) = 1 - 1 / 1000 := by simp [sumHi1]
theorem sumHi2_eq : (sumHi2 : ℝ) = 1 + 1 / 1000 := by simp [sumHi2]
theorem ns_eq : ns = 20 := rfl

/-! ### the stored matrix -/

theorem tabGet_tabulate (n : ℕ) (f : ℕ → ℝ) {k : ℕ} (h : k < n) : tabGet (tabulate n f) k = f k := by
  simp [tabGet, tabulate, Array.getD, h]

theorem ofCells_cellsOf (F : ℕ → ℕ → ℝ) {i j : ℕ} (hi : i < ns) (hj : j < ns) :
    ofCells (cellsOf F) i j = F i j := by
  unfold ofCells cellsOf
  have hk : i * ns + j < ns * ns := by
    have : i * ns + j < (i + 1) * ns := by rw [Nat.add_mul]; omega
    exact lt_of_lt_of_le this (Nat.mul_le_mul_right ns hi)
  rw [tabGet_tabulate _ _ hk]
  have hns : 0 < ns := by decide
  have h1 : (i * ns + j) / ns = i := by
    rw [Nat.add_comm, Nat.add_mul_div_right _ _ hns, Nat.div_eq_of_lt hj, Nat.zero_add]
  have h2 : (i * ns + j) % ns = j := by
    rw [Nat.add_comm, Nat.add_mul_mod_self_right, Nat.mod_eq_of_lt hj]
  rw [h1, h2]

theorem sumN_eq_sumTo (n : ℕ) (f : ℕ → ℝ) : sumN n f = sumTo n f := by
  have key : ∀ (r k : ℕ) (acc : ℝ), sumFrom f k r acc = (List.range' k r).foldl (fun a i => a + f i) acc := by
    intro r
    induction r with
    | zero => intro k acc; rfl
    | succ r ih => intro k acc; simp [sumFrom, List.range'_succ, ih]
  unfold sumN sumTo
  rw [key, List.range_eq_range']

theorem fSum_eq (F : ℕ → ℕ → ℝ) : fSum F = ∑ i ∈ Finset.range ns, ∑ j ∈ Finset.range ns, F i j := by
  unfold fSum
  rw [sumTo_eq_sum_range]
  apply Finset.sum_congr rfl
  intro i _
  rw [sumTo_eq_sum_range]

theorem fSum_ofCells (F : ℕ → ℕ → ℝ) : fSum (ofCells (cellsOf F)) = fSum F := by
  rw [fSum_eq, fSum_eq]
  apply Finset.sum_congr rfl
  intro i hi
  apply Finset.sum_congr rfl
  intro j hj
  exact ofCells_cellsOf F (Finset.mem_range.mp hi) (Finset.mem_range.mp hj)

/-! ### counts as sums; permutations of the site list -/

/-! ### the cells add up to `len` -/

/-- contribution of one site to cell `(i, j)` -/
noncomputable def term (i j : ℕ) (s : PSite ℝ) : ℝ := if hits i j s then fWeight s else 0

/-- contribution of one site to `len` -/
noncomputable def lenTerm (s : PSite ℝ) : ℝ := if s.sel && (fStates s).isSome then fWeight s else 0

theorem fCellStep_eq (i j : ℕ) (acc : ℝ) (s : PSite ℝ) : fCellStep i j acc s = acc + term i j s := by
  unfold fCellStep term hits
  by_cases hsel : s.sel = true
  · cases hst : fStates s with
    | none => simp [hsel]
    | some xy =>
      obtain ⟨x, y⟩ := xy
      by_cases hxy : x = i ∧ y = j
      · simp [hsel, hxy]
      · have : ¬ ((x, y) = (i, j)) := by simpa using hxy
        simp [hsel, hxy, this]
  · have : s.sel = false := by simpa using hsel
    simp [this]

theorem fLenStep_eq (acc : ℝ) (s : PSite ℝ) : fLenStep acc s = acc + lenTerm s := by
  unfold fLenStep lenTerm
  split_ifs <;> simp

theorem foldl_add_eq {β : Type} (g : β → ℝ) (step : ℝ → β → ℝ) (hstep : ∀ acc s, step acc s = acc + g s) :
    ∀ (l : List β) (acc : ℝ), l.foldl step acc = acc + (l.map g).sum := by
  intro l
  induction l with
  | nil => intro acc; simp
  | cons s l ih => intro acc; simp [List.foldl_cons, hstep, ih, add_assoc]

theorem fCell_eq_sum (l : List (PSite ℝ)) (i j : ℕ) : fCell l i j = (l.map (term i j)).sum := by
  unfold fCell
  rw [foldl_add_eq (term i j) (fCellStep i j) (fCellStep_eq i j) l]
  simp

theorem fLen_eq_sum (l : List (PSite ℝ)) : fLen l = (l.map lenTerm).sum := by
  unfold fLen
  rw [foldl_add_eq lenTerm fLenStep fLenStep_eq l]
  simp

theorem jcStep_comm (acc : ℝ × ℝ) (s t : PSite ℝ) : jcStep (jcStep acc s) t = jcStep (jcStep acc t) s := by
  unfold jcStep
  split_ifs <;> (ext <;> simp <;> ring)

theorem fCellStep_comm (i j : ℕ) (acc : ℝ) (s t : PSite ℝ) :
    fCellStep i j (fCellStep i j acc s) t = fCellStep i j (fCellStep i j acc t) s := by
  simp only [fCellStep_eq]; ring

theorem fLenStep_comm (acc : ℝ) (s t : PSite ℝ) : fLenStep (fLenStep acc s) t = fLenStep (fLenStep acc t) s := by
  simp only [fLenStep_eq]; ring

theorem fCell_perm {l₁ l₂ : List (PSite ℝ)} (h : l₁.Perm l₂) (i j : ℕ) : fCell l₁ i j = fCell l₂ i j :=
  h.foldl_eq' (fun s _ t _ z => fCellStep_comm i j z s t) _

theorem fLen_perm {l₁ l₂ : List (PSite ℝ)} (h : l₁.Perm l₂) : fLen l₁ = fLen l₂ :=
  h.foldl_eq' (fun s _ t _ z => fLenStep_comm z s t) _

theorem jcCounts_perm {l₁ l₂ : List (PSite ℝ)} (h : l₁.Perm l₂) : jcCounts l₁ = jcCounts l₂ :=
  h.foldl_eq' (fun s _ t _ z => jcStep_comm z s t) _

theorem seqsDiffer_perm (v : Variant) {l₁ l₂ : List (PSite ℝ)} (h : l₁.Perm l₂) : seqsDiffer v l₁ = seqsDiffer v l₂ :=
  h.any_eq

theorem fStates_lt {s : PSite ℝ} {x y : ℕ} (h : fStates s = some (x, y)) : x < ns ∧ y < ns := by
  unfold fStates at h
  cases ha : aaIndex s.a with
  | none => simp [ha] at h
  | some a =>
    cases hb : aaIndex s.b with
    | none => simp [ha, hb] at h
    | some b =>
      simp [ha, hb] at h
      obtain ⟨rfl, rfl⟩ := h
      exact ⟨aaIndex_lt _ _ ha, aaIndex_lt _ _ hb⟩

/-- summed over all cells, one site contributes what it contributes to `len` -/
theorem sum_term (s : PSite ℝ) : ∑ i ∈ Finset.range ns, ∑ j ∈ Finset.range ns, term i j s = lenTerm s := by
  unfold term lenTerm hits
  by_cases hsel : s.sel = true
  · cases hst : fStates s with
    | none => simp [hsel]
    | some xy =>
      obtain ⟨x, y⟩ := xy
      obtain ⟨hx, hy⟩ := fStates_lt hst
      simp only [hsel, Bool.true_and, Option.isSome_some, if_true, decide_eq_true_eq, Option.some.injEq,
        Prod.mk.injEq]
      have : ∀ i ∈ Finset.range ns, (∑ j ∈ Finset.range ns, if x = i ∧ y = j then fWeight s else 0) =
          if x = i then fWeight s else 0 := by
        intro i _
        by_cases hxi : x = i
        · simp only [hxi, true_and, if_true]
          rw [Finset.sum_ite_eq (Finset.range ns) y (fun _ => fWeight s)]
          simp [Finset.mem_range.mpr hy]
        · simp [hxi]
      rw [Finset.sum_congr rfl this, Finset.sum_ite_eq (Finset.range ns) x (fun _ => fWeight s)]
      simp [Finset.mem_range.mpr hx]
  · have : s.sel = false := by simpa using hsel
    simp [this]

theorem sum_cells_eq_len (l : List (PSite ℝ)) :
    ∑ i ∈ Finset.range ns, ∑ j ∈ Finset.range ns, fCell l i j = fLen l := by
  induction l with
  | nil => simp [fCell, fLen]
  | cons s l ih =>
    rw [fLen_eq_sum] at ih ⊢
    simp only [fCell_eq_sum] at ih ⊢
    simp only [List.map_cons, List.sum_cons, Finset.sum_add_distrib]
    rw [ih, sum_term]

/-- `mat.Sum(Fs)` after the normalisation, over the reals: 1 when some weight was counted, else the unnormalised total -/
theorem fSum_fNorm (l : List (PSite ℝ)) (h : 0 < fLen l) : fSum (fNorm l) = 1 := by
  rw [fSum_eq]
  have hne : fLen l ≠ 0 := ne_of_gt h
  have : ∀ i j, fNorm l i j = fCell l i j / fLen l := by
    intro i j; unfold fNorm; simp [h]
  simp only [this]
  simp only [← Finset.sum_div]
  rw [sum_cells_eq_len, div_self hne]

/-! ### the regenerated JC69 cell -/

theorem jc69Cell_fst (p0 len : ℝ) : (jc69Cell p0 len).1 = if 0 < len then p0 / len else 1 := by
  simp [jc69Cell]

theorem jc69Cell_snd (p0 len : ℝ) :
    (jc69Cell p0 len).2 =
      (let p := if 0 < len then p0 / len else 1
       let d := if 1 - 20 / 19 * p < 0 then 20 else -19 / 20 * Real.log (1 - 20 / 19 * p)
       if 20 < d then 20 else d) := by
  simp [jc69Cell, PROT_DIST_MAX]

theorem jc69Cell_le (p0 len : ℝ) : (jc69Cell p0 len).2 ≤ 20 := by
  rw [jc69Cell_snd]
  dsimp only
  split_ifs <;> linarith

theorem jc69Cell_nonneg {p0 len : ℝ} (h0 : 0 ≤ p0) : 0 ≤ (jc69Cell p0 len).2 := by
  rw [jc69Cell_snd]
  dsimp only
  have hp : 0 ≤ (if 0 < len then p0 / len else 1 : ℝ) := by
    split_ifs with hl
    · exact div_nonneg h0 (le_of_lt hl)
    · norm_num
  generalize (if 0 < len then p0 / len else 1 : ℝ) = p at hp
  have hd : 0 ≤ (if 1 - 20 / 19 * p < 0 then (20 : ℝ) else -19 / 20 * Real.log (1 - 20 / 19 * p)) := by
    split_ifs with hneg
    · norm_num
    · have ha : 0 ≤ 1 - 20 / 19 * p := not_lt.mp hneg
      have hb : 1 - 20 / 19 * p ≤ 1 := by nlinarith
      have : Real.log (1 - 20 / 19 * p) ≤ 0 := Real.log_nonpos ha hb
      nlinarith
  generalize (if 1 - 20 / 19 * p < 0 then (20 : ℝ) else -19 / 20 * Real.log (1 - 20 / 19 * p)) = d at hd
  split_ifs <;> linarith

theorem jc69Cell_zero {len : ℝ} (hl : 0 < len) : (jc69Cell 0 len).2 = 0 := by
  rw [jc69Cell_snd]
  simp [hl]
  norm_num

/-- on its domain the cell is the published JC69 estimator for 20 states, capped at 20 -/
theorem jc69Cell_published {p0 len : ℝ} (hl : 0 < len) (hdom : p0 / len < 19 / 20) :
    (jc69Cell p0 len).2 = min 20 (-(19 / 20) * Real.log (1 - 20 / 19 * (p0 / len))) := by
  rw [jc69Cell_snd]
  dsimp only
  have harg : ¬ (1 - 20 / 19 * (p0 / len) < 0) := by
    have : 0 < 1 - 20 / 19 * (p0 / len) := by nlinarith
    exact not_lt.mpr (le_of_lt this)
  simp only [hl, if_true, harg, if_false]
  have e : (-19 / 20 : ℝ) = -(19 / 20) := by norm_num
  rw [e]
  split_ifs with h
  · exact (min_eq_left (le_of_lt h)).symm
  · exact (min_eq_right (not_lt.mp h)).symm

/-! ### the value stored for a pair -/

theorem capDist_eq (d : ℝ) : capDist d = if 20 ≤ d then 20 else d := by
  simp [capDist, PROT_DIST_MAX]

theorem capDist_missing : capDist (mlMissing : ℝ) = -1 := by
  rw [capDist_eq, mlMissing_eq]; norm_num

/-- unfolding of `pairDistWith` into its four outcomes -/
theorem pairDistWith_cases (v : Variant) (lk : (ℕ → ℕ → ℝ) → ℝ → ℝ) (l : List (PSite ℝ)) (jc d : ℝ)
    (h : pairDistWith v lk l jc = PairOut.ok d) :
    (seqsDiffer v l = false ∧ d = 0) ∨
    (seqsDiffer v l = true ∧ fSum (fNorm l) < 1 / 1000 ∧ d = -1) ∨
    (seqsDiffer v l = true ∧ ¬ fSum (fNorm l) < 1 / 1000 ∧
      (optDistF (fun t => -(lk (ofCells (cellsOf (fNorm l))) t)) v.brentBracketStop (mlInit jc)).status ≠ BStatus.tooMany ∧
      d = capDist (optDistF (fun t => -(lk (ofCells (cellsOf (fNorm l))) t)) v.brentBracketStop (mlInit jc)).param) := by
  unfold pairDistWith at h
  by_cases hd : seqsDiffer v l = true
  · simp only [hd, if_true] at h
    rw [fSum_ofCells] at h
    by_cases hlow : fSum (fNorm l) < 1 / 1000
    · have : RealLike.ltb (fSum (fNorm l)) (sumLow : ℝ) = true := by
        rw [sumLow_eq, RealLike.real_ltb]; exact decide_eq_true hlow
      simp only [this, if_true] at h
      injection h with h
      right; left
      exact ⟨hd, hlow, by rw [← h, capDist_missing]⟩
    · have : RealLike.ltb (fSum (fNorm l)) (sumLow : ℝ) = false := by
        rw [sumLow_eq, RealLike.real_ltb]; exact decide_eq_false hlow
      simp only [this, Bool.false_eq_true, if_false] at h
      right; right
      split at h
      · split at h
        · cases h
        · rename_i hns
          injection h with h
          refine ⟨hd, hlow, ?_, h.symm⟩
          intro hbad
          exact hns hbad
      · cases h
  · have hd' : seqsDiffer v l = false := by simpa using hd
    simp only [hd', Bool.false_eq_true, if_false] at h
    injection h with h
    left
    exact ⟨hd', by rw [← h]; exact RealLike.real_zero⟩

end Gv.Proofs.ProtDistReal
