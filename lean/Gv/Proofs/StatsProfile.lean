import Gv.Proofs.StatsUnique
import Gv.Proofs.StatsDiff
/-!
C14: `NewCountProfileFromAlignment` — the header lists the characters in order of first appearance and the
count of character `r` at site `j` is the number of rows holding `r` there.
-/
namespace Gv.Proofs.StatsProfile
open Gv Gv.Model Gv.Proofs.StatsUnique Gv.Proofs.StatsDiff
set_option linter.unusedSimpArgs false

/-! ### association lists with an updated value -/

theorem lookup_map_upd {β : Type} (g : β → β) (acc : List (Byte × β)) (p q : Byte) :
    lookup q (acc.map fun e => if e.1 == p then (e.1, g e.2) else e) =
      if q == p then (lookup q acc).map g else lookup q acc := by
  induction acc with
  | nil => simp [lookup]
  | cons e t ih =>
    obtain ⟨k, v⟩ := e
    by_cases hk : (k == p) = true
    · have hkp : k = p := by simpa using hk
      subst hkp
      by_cases hq : (q == k) = true
      · simp [lookup, hq]
      · have hq' : (q == k) = false := by simpa using hq
        simp only [List.map_cons, BEq.rfl, if_true, lookup, hq', Bool.false_eq_true, if_false]
        rw [ih]; simp [hq']
    · have hk' : (k == p) = false := by simpa using hk
      simp only [List.map_cons, hk', Bool.false_eq_true, if_false, lookup]
      by_cases hq : (q == k) = true
      · have hqk : q = k := by simpa using hq
        subst hqk
        simp [hk']
      · have hq' : (q == k) = false := by simpa using hq
        simp only [hq', Bool.false_eq_true, if_false]
        exact ih

theorem lookup_append_one {β : Type} (acc : List (Byte × β)) (p q : Byte) (n : β) :
    lookup q (acc ++ [(p, n)]) = match lookup q acc with | some v => some v | none => if q == p then some n else none := by
  induction acc with
  | nil => simp [lookup]
  | cons e t ih =>
    obtain ⟨k, v⟩ := e
    by_cases hq : (q == k) = true
    · simp [lookup, hq]
    · have hq' : (q == k) = false := by simpa using hq
      simp only [List.cons_append, lookup, hq', Bool.false_eq_true, if_false]
      exact ih

theorem lookup_none_iff_not_any {β : Type} (acc : List (Byte × β)) (p : Byte) :
    lookup p acc = none ↔ acc.any (·.1 == p) = false := by
  induction acc with
  | nil => simp [lookup]
  | cons e t ih =>
    obtain ⟨k, v⟩ := e
    by_cases hk : (p == k) = true
    · have : p = k := by simpa using hk
      subst this
      simp [lookup]
    · have hk' : (p == k) = false := by simpa using hk
      have hk'' : (k == p) = false := by
        simp only [beq_eq_false_iff_ne, ne_eq] at hk' ⊢
        exact fun e => hk' e.symm
      simp only [lookup, hk', Bool.false_eq_true, if_false, List.any_cons, hk'', Bool.false_or]
      exact ih

theorem lookup_isSome_iff {β : Type} (acc : List (Byte × β)) (p : Byte) :
    (lookup p acc).isSome = true ↔ p ∈ acc.map Prod.fst := by
  induction acc with
  | nil => simp [lookup]
  | cons e t ih =>
    obtain ⟨k, v⟩ := e
    by_cases hk : (p == k) = true
    · have : p = k := by simpa using hk
      subst this
      simp [lookup]
    · have hk' : (p == k) = false := by simpa using hk
      have hne : ¬ p = k := by simpa using hk'
      simp only [lookup, hk', Bool.false_eq_true, if_false, List.map_cons, List.mem_cons, hne, false_or]
      exact ih

/-- the vector of a character, zeros when it is not (yet) in the profile -/
def vecOf (L : Nat) (acc : List (Byte × List Nat)) (q : Byte) : List Nat := (lookup q acc).getD (List.replicate L 0)

theorem lookup_profStep (L : Nat) (acc : List (Byte × List Nat)) (i : Nat) (r q : Byte) :
    lookup q (profStep L acc (i, r)) = if q == r then some (incrAt (vecOf L acc r) i) else lookup q acc := by
  unfold profStep vecOf
  by_cases ha : acc.any (·.1 == r) = true
  · simp only [ha, if_true]
    rw [lookup_map_upd (fun v => incrAt v i)]
    by_cases hq : (q == r) = true
    · have : q = r := by simpa using hq
      subst this
      cases hl : lookup q acc with
      | none =>
        have := (lookup_none_iff_not_any acc q).mp hl
        rw [this] at ha; simp at ha
      | some v => simp
    · simp [hq]
  · have ha' : acc.any (·.1 == r) = false := Bool.eq_false_iff.mpr ha
    simp only [ha', Bool.false_eq_true, if_false]
    rw [lookup_append_one]
    by_cases hq : (q == r) = true
    · have : q = r := by simpa using hq
      subst this
      simp [(lookup_none_iff_not_any acc q).mpr ha']
    · have hq' : (q == r) = false := by simpa using hq
      simp only [hq', Bool.false_eq_true, if_false]
      cases lookup q acc <;> rfl

/-- all vectors have `L` entries -/
def WellSized (L : Nat) (acc : List (Byte × List Nat)) : Prop := ∀ q v, lookup q acc = some v → v.length = L

theorem vecOf_length (L : Nat) (acc : List (Byte × List Nat)) (h : WellSized L acc) (q : Byte) : (vecOf L acc q).length = L := by
  unfold vecOf
  cases hl : lookup q acc with
  | none => simp
  | some v => simpa using h q v hl

theorem wellSized_step (L : Nat) (acc : List (Byte × List Nat)) (h : WellSized L acc) (x : Nat × Byte) :
    WellSized L (profStep L acc x) := by
  obtain ⟨i, r⟩ := x
  intro q v hv
  rw [lookup_profStep] at hv
  split at hv
  · simp only [Option.some.injEq] at hv
    rw [← hv, length_incrAt]
    exact vecOf_length L acc h r
  · exact h q v hv

theorem vecOf_step (L : Nat) (acc : List (Byte × List Nat)) (h : WellSized L acc) (i : Nat) (r q : Byte) (j : Nat) (hj : j < L) :
    (vecOf L (profStep L acc (i, r)) q).getD j 0 = (vecOf L acc q).getD j 0 + if (i == j && r == q) then 1 else 0 := by
  have hstep := lookup_profStep L acc i r q
  by_cases hq : (q == r) = true
  · have : q = r := by simpa using hq
    subst this
    have : vecOf L (profStep L acc (i, q)) q = incrAt (vecOf L acc q) i := by
      unfold vecOf at hstep ⊢
      rw [hstep]; simp
    rw [this, getD_incrAt _ _ _ (by rw [vecOf_length L acc h q]; exact hj)]
    by_cases hij : j = i
    · subst hij; simp
    · have : (i == j) = false := by
        simp only [beq_eq_false_iff_ne, ne_eq]; exact fun e => hij e.symm
      simp [hij, this]
  · have hq' : (q == r) = false := by simpa using hq
    have hrq : (r == q) = false := by
      simp only [beq_eq_false_iff_ne, ne_eq] at hq' ⊢
      exact fun e => hq' e.symm
    have : vecOf L (profStep L acc (i, r)) q = vecOf L acc q := by
      unfold vecOf
      rw [hstep]; simp [hq']
    rw [this]
    simp [hrq]

theorem vecOf_fold (L : Nat) (xs : List (Nat × Byte)) (acc : List (Byte × List Nat)) (h : WellSized L acc) (q : Byte) (j : Nat) (hj : j < L) :
    (vecOf L (xs.foldl (profStep L) acc) q).getD j 0 =
      (vecOf L acc q).getD j 0 + (xs.filter fun x => x.1 == j && x.2 == q).length ∧
    WellSized L (xs.foldl (profStep L) acc) := by
  induction xs generalizing acc with
  | nil => simp [h]
  | cons x t ih =>
    obtain ⟨i, r⟩ := x
    simp only [List.foldl_cons]
    have h' := wellSized_step L acc h (i, r)
    have := ih (profStep L acc (i, r)) h'
    refine ⟨?_, this.2⟩
    rw [this.1, vecOf_step L acc h i r q j hj, List.filter_cons]
    by_cases hc : (i == j && r == q) = true
    · simp [hc]; omega
    · have hc' : (i == j && r == q) = false := Bool.eq_false_iff.mpr hc
      simp [hc']

theorem keys_profStep (L : Nat) (acc : List (Byte × List Nat)) (x : Nat × Byte) :
    (profStep L acc x).map Prod.fst =
      if (acc.map Prod.fst).contains x.2 then acc.map Prod.fst else acc.map Prod.fst ++ [x.2] := by
  unfold profStep
  have hany : acc.any (·.1 == x.2) = (acc.map Prod.fst).contains x.2 := by
    induction acc with
    | nil => rfl
    | cons e t ih =>
      simp only [List.any_cons, List.map_cons, List.contains_cons, ih]
      congr 1
      rw [Bool.eq_iff_iff]
      simp only [beq_iff_eq]
      exact ⟨fun e => e.symm, fun e => e.symm⟩
  rw [hany]
  by_cases h : (acc.map Prod.fst).contains x.2 = true
  · simp only [h, if_true, List.map_map]
    apply List.map_congr_left
    intro e _
    simp only [Function.comp]
    split <;> rfl
  · have h' : (acc.map Prod.fst).contains x.2 = false := Bool.eq_false_iff.mpr h
    rw [h']
    simp

theorem keys_fold (L : Nat) (xs : List (Nat × Byte)) (acc : List (Byte × List Nat)) :
    (xs.foldl (profStep L) acc).map Prod.fst = dedupFold (acc.map Prod.fst) (xs.map Prod.snd) := by
  induction xs generalizing acc with
  | nil => rfl
  | cons x t ih =>
    simp only [List.foldl_cons, List.map_cons]
    rw [ih, keys_profStep]
    rfl

/-! ### the pairs visited -/

theorem count_pair_zipIdx (s : Seq) (k j : Nat) (q : Byte) :
    ((s.zipIdx k).map (fun p => (p.2, p.1)) |>.filter fun x => x.1 == j && x.2 == q).length =
      if k ≤ j ∧ s[j - k]? = some q then 1 else 0 := by
  induction s generalizing k with
  | nil => simp
  | cons c t ih =>
    simp only [List.zipIdx_cons, List.map_cons, List.filter_cons]
    by_cases hk : k = j
    · subst hk
      have h1 : ¬ (k + 1 ≤ k ∧ t[k - (k + 1)]? = some q) := by omega
      by_cases hc : c = q
      · subst hc
        simp only [BEq.rfl, Bool.and_self, if_true, List.length_cons, ih (k + 1), if_neg h1]
        simp
      · have : (c == q) = false := by simpa using hc
        simp only [this, Bool.and_false, Bool.false_eq_true, if_false, ih (k + 1), if_neg h1]
        simp [hc]
    · have hkj : (k == j) = false := by simpa using hk
      simp only [hkj, Bool.false_and, Bool.false_eq_true, if_false, ih (k + 1)]
      by_cases hle : k + 1 ≤ j
      · have e : j - k = (j - (k + 1)) + 1 := by omega
        have hle' : k ≤ j := by omega
        simp only [hle, hle', true_and, e, List.getElem?_cons_succ]
      · have hle' : ¬ k ≤ j := by omega
        simp [hle, hle']

theorem count_pair_items (rows : CRows) (j : Nat) (q : Byte) :
    ((profItems rows).filter fun x => x.1 == j && x.2 == q).length = Spec.profileCountAt rows j q := by
  unfold profItems Spec.profileCountAt
  induction rows with
  | nil => rfl
  | cons r t ih =>
    simp only [List.flatMap_cons, List.filter_append, List.length_append, ih, List.filter_cons]
    have := count_pair_zipIdx r.2 0 j q
    simp only [Nat.zero_le, true_and, Nat.sub_zero] at this
    rw [this]
    by_cases h : r.2[j]? = some q
    · simp [h]; omega
    · have : (r.2[j]? == some q) = false := by simpa using h
      simp [h, this]

theorem items_chars (rows : CRows) : (profItems rows).map Prod.snd = rows.flatMap Prod.snd := by
  unfold profItems
  induction rows with
  | nil => rfl
  | cons r t ih =>
    simp only [List.flatMap_cons, List.map_append, ih]
    congr 1
    rw [List.map_map]
    have : ((fun x : Nat × Byte => x.2) ∘ fun p : Byte × Nat => (p.2, p.1)) = Prod.fst := rfl
    rw [show (Prod.snd ∘ fun p : Byte × Nat => (p.2, p.1)) = Prod.fst from rfl, List.zipIdx_map_fst]

/-! ### the profile -/

theorem wellSized_nil (L : Nat) : WellSized L [] := by
  intro q v h; simp [lookup] at h

/-- header, sizes, counts -/
theorem profile_spec (rows : CRows) (L : Nat) :
    let prof := (profItems rows).foldl (profStep L) []
    prof.map Prod.fst = Spec.profileHeader rows ∧
    (∀ q v, lookup q prof = some v → v.length = L) ∧
    (∀ q, (lookup q prof).isSome = true ↔ q ∈ rows.flatMap Prod.snd) ∧
    (∀ q j, j < L → ((lookup q prof).getD (List.replicate L 0)).getD j 0 = Spec.profileCountAt rows j q) := by
  intro prof
  have hk : prof.map Prod.fst = Spec.profileHeader rows := by
    show ((profItems rows).foldl (profStep L) []).map Prod.fst = _
    rw [keys_fold, items_chars]
    exact dedupFold_nil _
  refine ⟨hk, ?_, ?_, ?_⟩
  · have := (vecOf_fold L (profItems rows) [] (wellSized_nil L) 0 0)
    intro q v hv
    by_cases hL : 0 < L
    · exact (this hL).2 q v hv
    · -- L = 0: sizes follow from the step invariant all the same
      have hw : WellSized L ((profItems rows).foldl (profStep L) []) := by
        generalize profItems rows = xs
        have : ∀ acc, WellSized L acc → WellSized L (xs.foldl (profStep L) acc) := by
          induction xs with
          | nil => intro acc h; exact h
          | cons x t ih => intro acc h; exact ih _ (wellSized_step L acc h x)
        exact this [] (wellSized_nil L)
      exact hw q v hv
  · intro q
    rw [lookup_isSome_iff, hk]
    exact mem_firstOccurrences _ q
  · intro q j hj
    have := (vecOf_fold L (profItems rows) [] (wellSized_nil L) q j hj).1
    unfold vecOf at this
    rw [this, count_pair_items]
    simp [lookup, List.getElem?_replicate, hj]

end Gv.Proofs.StatsProfile
