import Gv.Proofs.DistColsOps
/-!
Helper development for property C08, first half — Part G: explicit unit weights (every counting
mode), and concrete evaluations of the model over `ℝ` showing that the internal-gap counter
(`countgapmut = 1`) is *not* invariant under column permutation or replication.
-/
namespace Gv.Proofs.DistCols
open Gv Gv.Model.Dist

/-! ### same sites, same distance -/

/-- `Distance` reads the weights only through the site list -/
theorem distance_eq_of_sites (c : Cfg ℝ) (ws' : Option (List ℝ)) (ini ini' : Init ℝ) (s1 s2 s1' s2' : List Code)
    (hpi : ini'.pi = ini.pi) (h : sites s1' s2' ini'.sel ws' = sites s1 s2 ini.sel c.weights) :
    distance { c with weights := ws' } ini' s1' s2' = distance c ini s1 s2 := by
  obtain ⟨model, rmGaps, gapMode, rmAmb, gamma, alpha, ws, variant⟩ := c
  cases model <;> simp only [distance, hpi, h]

private theorem one_real : (@OfNat.ofNat ℝ 1 (instOfNatOfRealLike 1)) = (1 : ℝ) := by
  real_like

/-- **explicit unit weights = no weights**, for every model and every counting mode (the internal-gap
one included) -/
theorem distMatrix_unit (c : Cfg ℝ) (rows : List Seq) (hw : c.weights = none)
    (hrect : ∀ r ∈ rows, r.length = alnLen rows) (a b cc d : Int) :
    distMatrix { c with weights := some (List.replicate (alnLen rows) (1 : ℝ)) } rows a b cc d
      = distMatrix c rows a b cc d := by
  apply distMatrix_congr c { c with weights := some (List.replicate (alnLen rows) (1 : ℝ)) } rows rows a b cc d rfl rfl
  rw [initModel_eq, initModel_eq]
  by_cases hall : rows.all (fun r => r.all okByte) = true
  · simp only [hall, if_true]
    intro i j
    apply distance_eq_of_sites
    · unfold piOf
      simp only [hw]
      split
      · rw [probaNt_eq_cols, probaNt_eq_cols, colsOf_unit_weights]
      · rfl
    · rw [hw]
      have := Gv.Proofs.Dist.sites_unit (α := ℝ) ((rows.map fun r => r.map codeOf).getD i [])
        ((rows.map fun r => r.map codeOf).getD j []) (selectedSites rows c.rmGaps) (alnLen rows) (by
          rw [List.getD_eq_getElem?_getD, List.getElem?_map]
          cases hri : rows[i]? with
          | none => simp
          | some r =>
            have := hrect r (List.mem_of_getElem? hri)
            simp [this])
      rw [one_real] at this
      exact this
  · simp only [hall, Bool.false_eq_true, if_false]

/-! ### the internal-gap counter on concrete alignments -/

theorem isNuc0 : isNuc 0 = false := by decide
theorem isNuc1 : isNuc 1 = true := by decide
theorem nd01 : ntIUPACDifference 0 1 = true := by decide
theorem amb0 : isAmbiguous 0 = false := by decide
theorem amb1 : isAmbiguous 1 = false := by decide
theorem ne01 : ((0 : Code) != 1) = true := by decide
theorem ne11 : ((1 : Code) != 1) = false := by decide

/-- `rawdist` / `pdist`, `countgapmut = 1`, no weights, unchanged variant -/
noncomputable def cfgIG (m : DModel) : Cfg ℝ := ⟨m, false, 1, false, false, 0, none, Variant.asIs⟩

theorem selRaw1 : selectCall Gen.rawdistCalls Gen.rawdistSwitchOn 1 =
    some ["countDiffsWithInternalGaps", "seq1", "seq2", "m.selectedSites", "weights", "false"] := by decide

theorem selPdist1 : selectCall Gen.pdistCalls Gen.pdistSwitchOn 1 =
    some ["countDiffsWithInternalGaps", "seq1", "seq2", "m.selectedSites", "weights", "m.removeAmbiguous"] := by decide

theorem runIG (flag : String) (hf : flag = "false" ∨ flag = "m.removeAmbiguous") (l : List (Site ℝ)) :
    runCounter Variant.asIs false
      ["countDiffsWithInternalGaps", "seq1", "seq2", "m.selectedSites", "weights", flag] l
      = some [(countDiffsWithInternalGaps false false l).1, (countDiffsWithInternalGaps false false l).2] := by
  rcases hf with rfl | rfl <;> rfl

/-- the internal-gap counts of a pair of rows over `{A, -}` (codes 1 and 0), all sites selected, no weights -/
local macro "ig_eval" : tactic => `(tactic| (
  simp only [countDiffsWithInternalGaps, sites, List.foldl, igStep, diffUpdate, isNuc0, isNuc1, nd01, amb0, amb1,
    ofBool, ne01, ne11]
  real_like
  norm_num [maxG]))

/-- `A-A` vs `AAA`: one difference (internal gap) on three sites -/
theorem ig_AgA : countDiffsWithInternalGaps false false
    (sites [1, 0, 1] [1, 1, 1] [true, true, true] (none : Option (List ℝ))) = (1, 3) := by ig_eval
/-- `AA-` vs `AAA`: the trailing gap is not counted -/
theorem ig_AAg : countDiffsWithInternalGaps false false
    (sites [1, 1, 0] [1, 1, 1] [true, true, true] (none : Option (List ℝ))) = (0, 2) := by ig_eval
/-- `A-` vs `AA` -/
theorem ig_Ag : countDiffsWithInternalGaps false false
    (sites [1, 0] [1, 1] [true, true] (none : Option (List ℝ))) = (0, 1) := by ig_eval
/-- `A-A-` vs `AAAA`: in two copies the first gap has become internal -/
theorem ig_AgAg : countDiffsWithInternalGaps false false
    (sites [1, 0, 1, 0] [1, 1, 1, 1] [true, true, true, true] (none : Option (List ℝ))) = (1, 3) := by ig_eval

theorem two_row_matrix (c : Cfg ℝ) (rows : List Seq) (ini : Init ℝ) (d : ℝ) (hn : rows.length = 2)
    (hi : initModel c rows = some ini)
    (hd : distance c ini (ini.codes.getD 0 []) (ini.codes.getD 1 []) = some d) (hfin : isUncomputable d = false) :
    distMatrix c rows (-1) (-1) (-1) (-1) = some [[0, d], [d, 0]] := by
  have hp : pairList 2 (-1) (-1) (-1) (-1) = some [(0, 1)] := by decide
  have hr : List.range 2 = [0, 1] := by decide
  unfold distMatrix
  rw [hi]
  simp only [Option.bind_some, bind, pure, hn, hp, List.mapM_cons, List.mapM_nil, hd, hr, List.map]
  simp [cell, samePair, hfin]

theorem initIG (m : DModel) (hm : m = .raw ∨ m = .pdist) (rows : List Seq) (sel : List Bool) (codes : List (List Code))
    (h1 : rows.all (fun r => r.all okByte) = true) (h2 : selectedSites rows false = sel)
    (h3 : rows.map (fun r => r.map codeOf) = codes) :
    initModel (cfgIG m) rows = some ⟨sel, codes, ⟨0, 0, 0, 0⟩⟩ := by
  rw [initModel_eq, h1]
  rcases hm with rfl | rfl <;> simp only [if_true, cfgIG, h2, h3, piOf] <;> rfl

theorem distRawIG (ini : Init ℝ) (s1 s2 : List Code) (nb tot : ℝ)
    (h : countDiffsWithInternalGaps false false (sites s1 s2 ini.sel (none : Option (List ℝ))) = (nb, tot)) :
    distance (cfgIG .raw) ini s1 s2 = some nb := by
  unfold distance cfgIG
  simp only []
  rw [selRaw1]
  simp only [Option.bind_some, bind, pure, runIG _ (Or.inl rfl), h]
  rfl

theorem distPdistIG (ini : Init ℝ) (s1 s2 : List Code) (nb tot : ℝ)
    (h : countDiffsWithInternalGaps false false (sites s1 s2 ini.sel (none : Option (List ℝ))) = (nb, tot)) :
    distance (cfgIG .pdist) ini s1 s2 = some (nb / tot) := by
  unfold distance cfgIG
  simp only []
  rw [selPdist1]
  simp only [Option.bind_some, bind, pure, runIG _ (Or.inr rfl), h]
  rfl

/-- (over `ℝ`, `1 / 0 = 0`: the test `d == +Inf` of the model reads `d = 0`; special values are C07's `FVal`) -/
theorem unc_small (d : ℝ) (h0 : 0 < d) (h1 : d ≤ 1) : isUncomputable d = false := by
  have h100 : Gen.c_NT_DIST_OVER.toNat = 100000 := by decide
  unfold isUncomputable ntDistOver
  rw [h100]
  real_like
  simp only [Bool.or_eq_false_iff, decide_eq_false_iff_not, not_lt, RealLike.real_ofNat']
  refine ⟨⟨h0.le, ?_⟩, ?_⟩
  · simp only [div_zero]; exact ne_of_gt h0
  · push_cast; linarith

/-- a pair at distance 0: the cell is 0 (in the real-number reading through the substitute `2 · max = 0`) -/
theorem two_row_matrix_zero (c : Cfg ℝ) (rows : List Seq) (ini : Init ℝ) (hn : rows.length = 2)
    (hv : c.variant = Variant.asIs) (hi : initModel c rows = some ini)
    (hd : distance c ini (ini.codes.getD 0 []) (ini.codes.getD 1 []) = some 0) :
    distMatrix c rows (-1) (-1) (-1) (-1) = some [[0, 0], [0, 0]] := by
  have hp : pairList 2 (-1) (-1) (-1) (-1) = some [(0, 1)] := by decide
  have hr : List.range 2 = [0, 1] := by decide
  have hu : isUncomputable (0 : ℝ) = true := by
    unfold isUncomputable
    real_like
    simp
  unfold distMatrix
  rw [hi]
  simp only [Option.bind_some, bind, pure, hn, hp, List.mapM_cons, List.mapM_nil, hd, hr, List.map]
  simp [cell, samePair, hu, substitute, maxAccepted, hv, Variant.asIs]

/-- `A-A` / `AAA`, raw, internal-gap mode: distance 1 -/
theorem mat_raw_AgA : distMatrix (cfgIG .raw) [[65, 45, 65], [65, 65, 65]] (-1) (-1) (-1) (-1)
    = some [[0, 1], [1, 0]] :=
  two_row_matrix _ _ _ 1 rfl
    (initIG .raw (Or.inl rfl) _ [true, true, true] [[1, 0, 1], [1, 1, 1]] (by decide) (by decide) (by decide))
    (distRawIG _ _ _ 1 3 ig_AgA) (unc_small 1 (by norm_num) (by norm_num))

/-- the same columns in the order 0, 2, 1 (`AA-` / `AAA`): distance 0 -/
theorem mat_raw_AAg : distMatrix (cfgIG .raw) [[65, 65, 45], [65, 65, 65]] (-1) (-1) (-1) (-1)
    = some [[0, 0], [0, 0]] :=
  two_row_matrix_zero _ _ _ rfl rfl
    (initIG .raw (Or.inl rfl) _ [true, true, true] [[1, 1, 0], [1, 1, 1]] (by decide) (by decide) (by decide))
    (distRawIG _ _ _ 0 2 ig_AAg)

/-- p-distance: 1/3 -/
theorem mat_pdist_AgA : distMatrix (cfgIG .pdist) [[65, 45, 65], [65, 65, 65]] (-1) (-1) (-1) (-1)
    = some [[0, 1 / 3], [1 / 3, 0]] :=
  two_row_matrix _ _ _ (1 / 3) rfl
    (initIG .pdist (Or.inr rfl) _ [true, true, true] [[1, 0, 1], [1, 1, 1]] (by decide) (by decide) (by decide))
    (distPdistIG _ _ _ 1 3 ig_AgA) (unc_small _ (by norm_num) (by norm_num))

/-- … and 0 after the permutation -/
theorem mat_pdist_AAg : distMatrix (cfgIG .pdist) [[65, 65, 45], [65, 65, 65]] (-1) (-1) (-1) (-1)
    = some [[0, 0], [0, 0]] :=
  two_row_matrix_zero _ _ _ rfl rfl
    (initIG .pdist (Or.inr rfl) _ [true, true, true] [[1, 1, 0], [1, 1, 1]] (by decide) (by decide) (by decide))
    (by rw [distPdistIG _ _ _ 0 2 ig_AAg]; norm_num)

/-- `A-` / `AA`, raw: 0 -/
theorem mat_raw_Ag : distMatrix (cfgIG .raw) [[65, 45], [65, 65]] (-1) (-1) (-1) (-1) = some [[0, 0], [0, 0]] :=
  two_row_matrix_zero _ _ _ rfl rfl
    (initIG .raw (Or.inl rfl) _ [true, true] [[1, 0], [1, 1]] (by decide) (by decide) (by decide))
    (distRawIG _ _ _ 0 1 ig_Ag)

/-- two copies (`A-A-` / `AAAA`), raw: 1, not `2 · 0` -/
theorem mat_raw_AgAg : distMatrix (cfgIG .raw) [[65, 45, 65, 45], [65, 65, 65, 65]] (-1) (-1) (-1) (-1)
    = some [[0, 1], [1, 0]] :=
  two_row_matrix _ _ _ 1 rfl
    (initIG .raw (Or.inl rfl) _ [true, true, true, true] [[1, 0, 1, 0], [1, 1, 1, 1]] (by decide) (by decide) (by decide))
    (distRawIG _ _ _ 1 3 ig_AgAg) (unc_small 1 (by norm_num) (by norm_num))

end Gv.Proofs.DistCols
