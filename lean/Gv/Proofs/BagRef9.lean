import Gv.Proofs.BagRef8
/-! Refinement (C01), part 9: the second loop of `Concat` simulates its plain-list form. -/
namespace Gv.Proofs.BagAbs
open Gv Gv.Model Gv.Spec Gv.Proofs.BagInv Gv.Proofs.BagFresh

theorem getByName_eq_find_gi {b : Bag} (h : GI b) (n : String) :
    getByName b n = b.rows.find? (fun r => r.name == n) := by
  unfold getByName
  rw [h.first n]
  cases hf : b.rows.find? (fun r => r.name == n) with
  | none => simp
  | some r => simp [deref_find h.inv.ids_nodup hf]

theorem pairs_updRows (n : String) (s : Seq) (rows : List Row) :
    (updRows n s rows).map (fun r => (r.name, r.seq)) = updNamedP n s (rows.map fun r => (r.name, r.seq)) := by
  simp only [updRows, updNamedP, List.map_map]
  apply List.map_congr_left
  intro r _
  simp only [Function.comp]
  split <;> rfl

theorem updNamedP_absent (n : String) (s : Seq) (ps : List (String × Seq)) (h : n ∉ ps.map Prod.fst) :
    updNamedP n s ps = ps := by
  induction ps with
  | nil => rfl
  | cons p t ih =>
    simp only [List.map_cons, List.mem_cons, not_or] at h
    have : (p.1 == n) = false := by simpa using (fun e => h.1 (Eq.symm e))
    simp only [updNamedP, List.map_cons, this, Bool.false_eq_true, if_false]
    exact congrArg _ (ih h.2)

/-- invariant carried through the second loop -/
structure L2 (alen : Nat) (x : Bag) : Prop where
  ni : NI x
  align : x.isAlign = true
  len : x.length = -1 ∨ x.length = (alen : Int)

theorem loop2_step (alen : Nat) (n : String) (s : Seq) {x : Bag} (h : L2 alen x) :
    ∃ x', appendToSequence n s (if (getByName x n).isSome then x else (addSeq x n (List.replicate alen GAP)).1) = (x', false) ∧
      L2 alen x' ∧ pairs x' = stepP alen (n, s) (pairs x) ∧
      x'.policy = x.policy ∧ x'.alphabet = x.alphabet := by
  have hfind : (getByName x n).isSome = (firstNamed n (pairs x)).isSome := by
    rw [getByName_eq_find_gi h.ni.gi, pairs, firstNamed_pairs]; simp
  by_cases hs : (firstNamed n (pairs x)).isSome = true
  · have hmem : n ∈ x.rows.map (·.name) := by
      have : firstNamed n (pairs x) ≠ none := by intro e; rw [e] at hs; cases hs
      have := mt (firstNamed_none_iff n (pairs x)).mpr this
      simpa [pairs, List.map_map, Function.comp_def] using this
    refine ⟨{ x with rows := updRows n s x.rows }, ?_, ⟨ni_updRows h.ni n s, h.align, h.len⟩, ?_, rfl, rfl⟩
    · rw [hfind, hs]; simp only [if_true]
      exact appendToSequence_named h.ni n s hmem
    · have : stepP alen (n, s) (pairs x) = updNamedP n s (pairs x) := by unfold stepP; simp only [hs, if_true]
      rw [this]
      exact pairs_updRows n s x.rows
  · have hs' : (firstNamed n (pairs x)).isSome = false := by simpa using hs
    have hnone : firstNamed n (pairs x) = none := by cases hq : firstNamed n (pairs x) <;> simp_all
    have hnot : n ∉ x.rows.map (·.name) := by
      have := (firstNamed_none_iff n (pairs x)).mp hnone
      simpa [pairs, List.map_map, Function.comp_def] using this
    have hidx : idxLookup n x.index = none := (idxLookup_none_iff h.ni.inv n).mpr hnot
    have hadd : addSeq x n (List.replicate alen GAP) = (pushed true x n (List.replicate alen GAP), false) := by
      unfold addSeq; rw [h.align]
      exact addSeqAs_fresh true x n _ hidx (fun _ => by simpa using h.len)
    have hni1 : NI (pushed true x n (List.replicate alen GAP)) := by
      have := ni_addSeqAs x.isAlign h.ni n (List.replicate alen GAP)
      rw [h.align] at this
      have e : addSeqAs true x n (List.replicate alen GAP) = (pushed true x n (List.replicate alen GAP), false) := by
        have := hadd; unfold addSeq at this; rw [h.align] at this; exact this
      rw [e] at this; exact this
    have hmem1 : n ∈ (pushed true x n (List.replicate alen GAP)).rows.map (·.name) := by simp [pushed]
    refine ⟨{ pushed true x n (List.replicate alen GAP) with rows := updRows n s (pushed true x n (List.replicate alen GAP)).rows },
      ?_, ⟨ni_updRows hni1 n s, h.align, Or.inr (by simp [pushed])⟩, ?_, rfl, rfl⟩
    · rw [hfind, hs']; simp only [Bool.false_eq_true, if_false, hadd]
      exact appendToSequence_named hni1 n s hmem1
    · have : stepP alen (n, s) (pairs x) = pairs x ++ [(n, List.replicate alen GAP ++ s)] := by
        unfold stepP; simp only [hs', Bool.false_eq_true, if_false]
      rw [this]
      show List.map (fun r => (r.name, r.seq)) (updRows n s (pushed true x n (List.replicate alen GAP)).rows) = _
      rw [pairs_updRows]
      have habs := updNamedP_absent n s (pairs x) (by simpa [pairs, List.map_map, Function.comp_def] using hnot)
      have : List.map (fun r => (r.name, r.seq)) (pushed true x n (List.replicate alen GAP)).rows =
          pairs x ++ [(n, List.replicate alen GAP)] := pairs_pushed true x n _
      rw [this]
      unfold updNamedP at habs ⊢
      rw [List.map_append, habs]
      simp

theorem loop2_ok (alen : Nat) (l : List (String × Seq)) {x : Bag} (h : L2 alen x) :
    ∃ x', concatLoop2 alen l x = (x', false) ∧ L2 alen x' ∧
      pairs x' = l.foldl (fun ps q => stepP alen q ps) (pairs x) ∧
      x'.policy = x.policy ∧ x'.alphabet = x.alphabet := by
  induction l generalizing x with
  | nil => exact ⟨x, rfl, h, rfl, rfl, rfl⟩
  | cons q t ih =>
    obtain ⟨n, s⟩ := q
    obtain ⟨x1, e1, h1, p1, a1, b1⟩ := loop2_step alen n s h
    obtain ⟨x2, e2, h2, p2, a2, b2⟩ := ih h1
    refine ⟨x2, ?_, h2, ?_, a2.trans a1, b2.trans b1⟩
    · simp only [concatLoop2, e1, Bool.false_eq_true, if_false]; exact e2
    · simp only [List.foldl_cons]; rw [p2, p1]

end Gv.Proofs.BagAbs
