import Gv.Model.Fmt.Fasta
import Gv.Spec.Fmt
/-!
FASTA round trip, helper development (the property statement is in `Props/C02.lean`).

Pattern: (1) the tokens of the writer's output, by induction over rows and over the chunks of a
wrapped sequence (`wrap_eq_chunks`: the index-based wrap `i % w == 0 && i > 0` is "chunks of `w`
joined by newlines" for EVERY width `w > 0`); (2) the parser loop run over those tokens is a left fold
of `Bag.add` over the rows; (3) that fold succeeds and rebuilds the rows when the names are distinct
and the rows have one length.
-/
namespace Gv.Proofs.FastaRT
open Gv Gv.Model Gv.Model.Fmt Gv.Model.Fmt.Fasta

/-! ### lexing lines -/

def CleanLine (l : Seq) : Prop := l ≠ [] ∧ (∀ b ∈ l, identChar b = true) ∧ l.head? ≠ some GT

theorem takeWhile_append_stop {p : Byte → Bool} (l : Seq) (x : Byte) (r : Seq)
    (hl : ∀ b ∈ l, p b = true) (hx : p x = false) :
    (l ++ x :: r).takeWhile p = l ∧ (l ++ x :: r).dropWhile p = x :: r := by
  induction l with
  | nil => simp [hx]
  | cons a t ih =>
    have ha : p a = true := hl a (by simp)
    have ht : ∀ b ∈ t, p b = true := fun b hb => hl b (by simp [hb])
    simp [ha, ih ht]

theorem identChar_NL : identChar NL = false := by decide
theorem isEOL_NL : isEOL NL = true := by decide

/-- scanning a clean line followed by a newline yields the identifier and leaves the newline -/
theorem scan_line (l : Seq) (h : CleanLine l) (r : Seq) :
    scan (l ++ NL :: r) = (.ident l, NL :: r) := by
  obtain ⟨hne, hall, hgt⟩ := h
  cases l with
  | nil => exact absurd rfl hne
  | cons c cs =>
    have hc : identChar c = true := hall c (by simp)
    have hcs : ∀ b ∈ cs, identChar b = true := fun b hb => hall b (by simp [hb])
    have hc1 : isEOL c = false := by
      unfold identChar at hc; cases h : isEOL c <;> simp_all
    have hc2 : (c == 0) = false := by
      unfold identChar at hc; cases h : (c == 0) <;> simp_all
    have hc3 : (c == GT) = false := by
      cases h : (c == GT)
      · rfl
      · exfalso; apply hgt; simp at h; simp [h]
    obtain ⟨h1, h2⟩ := takeWhile_append_stop (p := identChar) cs NL r hcs identChar_NL
    simp only [List.cons_append, scan, hc1, hc2, hc3, h1, h2]
    simp [afterRun]
    decide

theorem lex_cons (c : Byte) (cs : Seq) :
    lex (c :: cs) = match (scan (c :: cs)).1 with
      | .eof => [.eof]
      | t => t :: lex (scan (c :: cs)).2 := by
  rw [lex]
  split <;> simp_all

/-- a newline followed by something that is neither an end-of-line character nor NUL is one EOL token -/
theorem scan_nl (r : Seq) (h : ∀ b, r.head? = some b → isEOL b = false ∧ b ≠ 0) :
    scan (NL :: r) = (.eol, r) := by
  simp only [scan, isEOL_NL, if_true]
  congr 1
  cases r with
  | nil => rfl
  | cons b t =>
    have := h b rfl
    have h0 : (b == 0) = false := by simp [this.2]
    simp [List.dropWhile, this.1, afterRun, h0]

theorem lex_line (l : Seq) (h : CleanLine l) (r : Seq)
    (hr : ∀ b, r.head? = some b → isEOL b = false ∧ b ≠ 0) :
    lex (l ++ NL :: r) = .ident l :: .eol :: lex r := by
  have hne := h.1
  cases l with
  | nil => exact absurd rfl hne
  | cons c cs =>
    have hs := scan_line (c :: cs) h r
    rw [List.cons_append] at hs ⊢
    rw [lex_cons, hs]
    simp only []
    rw [lex_cons, scan_nl r hr]

/-! ### wrap = chunks joined by newlines -/

theorem wrap_append (w : Nat) : ∀ (a : Seq) (i : Nat) (b : Seq),
    wrap w i (a ++ b) = wrap w i a ++ wrap w (i + a.length) b
  | [], i, b => by simp [wrap]
  | x :: xs, i, b => by
    simp only [List.cons_append, wrap, List.length_cons, List.append_assoc]
    rw [wrap_append w xs (i+1) b]
    have : i + 1 + xs.length = i + (xs.length + 1) := by omega
    rw [this]

theorem wrap_noNL (w : Nat) : ∀ (a : Seq) (i : Nat),
    (∀ j, i ≤ j → j < i + a.length → ¬ (j % w = 0 ∧ j > 0)) → wrap w i a = a
  | [], _, _ => by simp [wrap]
  | x :: xs, i, h => by
    have h0 : ¬ (i % w = 0 ∧ i > 0) := h i (Nat.le_refl _) (by simp)
    have hrec : wrap w (i+1) xs = xs := wrap_noNL w xs (i+1) (fun j hj1 hj2 => h j (by omega) (by simp; omega))
    simp only [wrap, hrec]
    have : (i % w == 0 && decide (i > 0)) = false := by
      cases hm : (i % w == 0) <;> simp_all
    simp [this]

def interc : List Seq → Seq
  | [] => []
  | [c] => c
  | c :: cs => c ++ NL :: interc cs

def chunks (w : Nat) (s : Seq) : List Seq :=
  if h : w = 0 ∨ s = [] then [] else s.take w :: chunks w (s.drop w)
termination_by s.length
decreasing_by
  have hs : s ≠ [] := fun e => h (Or.inr e)
  have hw : w ≠ 0 := fun e => h (Or.inl e)
  have : 0 < s.length := List.length_pos_iff.mpr hs
  simp [List.length_drop]; omega

theorem between_not_multiple (w m j : Nat) (h1 : m * w < j) (h2 : j < (m + 1) * w) : j % w ≠ 0 := by
  intro h
  obtain ⟨q, hq⟩ := Nat.dvd_of_mod_eq_zero h
  subst hq
  have hw : 0 < w := by
    cases w with
    | zero => simp at h2
    | succ n => omega
  have a : m < q := by
    have : m * w < q * w := by rw [Nat.mul_comm q w]; exact h1
    exact Nat.lt_of_mul_lt_mul_right this
  have b : q < m + 1 := by
    have : q * w < (m + 1) * w := by rw [Nat.mul_comm q w]; exact h2
    exact Nat.lt_of_mul_lt_mul_right this
  omega

theorem wrap_eq_chunks (w : Nat) (hw : 0 < w) : ∀ (n : Nat) (s : Seq) (m : Nat), s.length ≤ n → s ≠ [] →
    wrap w (m * w) s = (if m = 0 then [] else [NL]) ++ interc (chunks w s) := by
  intro n
  induction n with
  | zero => intro s m hl hs; cases s <;> simp_all
  | succ n ih =>
    intro s m hl hs
    have hsplit : s = s.take w ++ s.drop w := (List.take_append_drop w s).symm
    obtain ⟨x, xs, hx⟩ : ∃ x xs, s = x :: xs := by
      cases s with
      | nil => exact absurd rfl hs
      | cons x xs => exact ⟨x, xs, rfl⟩
    have htake : s.take w = x :: xs.take (w - 1) := by
      subst hx
      cases w with
      | zero => omega
      | succ k => simp
    have hfirst : wrap w (m * w) (s.take w) = (if m = 0 then [] else [NL]) ++ s.take w := by
      rw [htake]
      have hrest : wrap w (m * w + 1) (xs.take (w - 1)) = xs.take (w - 1) := by
        apply wrap_noNL
        intro j hj1 hj2 hc
        have hlen : (xs.take (w-1)).length ≤ w - 1 := by simp [List.length_take]; omega
        exact between_not_multiple w m j (by omega) (by rw [Nat.add_mul]; omega) hc.1
      simp only [wrap, hrest]
      by_cases hm : m = 0
      · subst hm; simp
      · have hpos : 0 < m * w := Nat.mul_pos (Nat.pos_of_ne_zero hm) hw
        simp [hm, hpos]
    rw [chunks]
    have hcond : ¬ (w = 0 ∨ s = []) := by
      intro h
      cases h with
      | inl h => omega
      | inr h => exact hs h
    simp only [hcond, dite_false]
    by_cases hd : s.drop w = []
    · have htk : s.take w = s := by rw [List.drop_eq_nil_iff] at hd; exact List.take_of_length_le hd
      have hc : chunks w (s.drop w) = [] := by rw [hd, chunks]; simp
      rw [hc]
      simp only [interc]
      rw [htk] at hfirst ⊢; exact hfirst
    · have hlenw : (s.take w).length = w := by
        have : w < s.length := by
          rcases Nat.lt_or_ge w s.length with h | h
          · exact h
          · exact absurd (List.drop_eq_nil_iff.mpr h) hd
        simp [List.length_take]; omega
      have hdl : (s.drop w).length ≤ n := by simp [List.length_drop]; omega
      have ihd := ih (s.drop w) (m + 1) hdl hd
      conv => lhs; rw [hsplit]
      rw [wrap_append, hfirst, hlenw]
      have : m * w + w = (m + 1) * w := by rw [Nat.add_mul]; simp
      rw [this, ihd]
      have hne : chunks w (s.drop w) ≠ [] := by
        rw [chunks]; simp [hd]; omega
      cases hch : chunks w (s.drop w) with
      | nil => exact absurd hch hne
      | cons c cs => simp [interc]

/-! ### tokens of a written row -/

def Residues (q : Seq) : Prop := q ≠ [] ∧ ∀ b ∈ q, identChar b = true ∧ b ≠ GT ∧ b ≠ SP
def ValidName (n : Seq) : Prop := CleanLine n ∧ n.head? ≠ some SP
def ValidRow (r : XRow) : Prop := ValidName r.1 ∧ Residues r.2

def pairs (cs : List Seq) : List Tok := cs.flatMap (fun c => [.ident c, .eol])

theorem cleanLine_head (l : Seq) (h : CleanLine l) (r : Seq) :
    ∀ b, (l ++ r).head? = some b → isEOL b = false ∧ b ≠ 0 := by
  obtain ⟨hne, hall, _⟩ := h
  cases l with
  | nil => exact absurd rfl hne
  | cons c cs =>
    intro b hb
    simp at hb; subst hb
    have := hall c (by simp)
    unfold identChar at this
    cases _h : isEOL c <;> simp_all

theorem lex_interc : ∀ (cs : List Seq), cs ≠ [] → (∀ c ∈ cs, CleanLine c) → ∀ (rest : Seq),
    (∀ b, rest.head? = some b → isEOL b = false ∧ b ≠ 0) →
    lex (interc cs ++ NL :: rest) = pairs cs ++ lex rest
  | [], h, _, _, _ => absurd rfl h
  | [c], _, hc, rest, hr => by
    simp only [interc, pairs, List.flatMap_cons, List.flatMap_nil, List.append_nil]
    rw [lex_line c (hc c (by simp)) rest hr]; rfl
  | c :: c' :: cs, _, hc, rest, hr => by
    have h1 := hc c (by simp)
    have h2 := hc c' (by simp)
    have ih := lex_interc (c' :: cs) (by simp) (fun x hx => hc x (by simp [hx])) rest hr
    simp only [interc, List.append_assoc, List.cons_append] at ih ⊢
    rw [lex_line c h1]
    · simp only [pairs, List.flatMap_cons, List.cons_append, List.nil_append] at ih ⊢
      rw [ih]
    · intro b hb
      cases cs with
      | nil => simp only [interc] at hb; exact cleanLine_head c' h2 _ b hb
      | cons c'' cs' =>
        simp only [interc, List.append_assoc] at hb
        exact cleanLine_head c' h2 _ b hb

theorem noSpaces_id (c : Seq) (h : ∀ b ∈ c, b ≠ SP) : noSpaces c = c := by
  unfold noSpaces
  apply List.filter_eq_self.mpr
  intro b hb; simp [h b hb]

def rowToks (w : Nat) (r : XRow) : List Tok := .start :: .ident r.1 :: .eol :: pairs (chunks w r.2)

theorem chunks_flatten (w : Nat) (hw : 0 < w) : ∀ (n : Nat) (s : Seq), s.length ≤ n → (chunks w s).flatten = s := by
  intro n
  induction n with
  | zero => intro s h; cases s <;> simp_all [chunks]
  | succ n ih =>
    intro s h
    rw [chunks]
    by_cases hs : s = []
    · simp [hs]
    · have hcond : ¬ (w = 0 ∨ s = []) := by
        intro h'
        cases h' with
        | inl h' => omega
        | inr h' => exact hs h'
      simp only [hcond, dite_false, List.flatten_cons]
      have : (s.drop w).length ≤ n := by
        have : 0 < s.length := List.length_pos_iff.mpr hs
        simp [List.length_drop]; omega
      rw [ih _ this, List.take_append_drop]

theorem chunks_mem (w : Nat) (hw : 0 < w) : ∀ (n : Nat) (s : Seq), s.length ≤ n →
    ∀ c ∈ chunks w s, c ≠ [] ∧ ∀ b ∈ c, b ∈ s := by
  intro n
  induction n with
  | zero => intro s h c hc; cases s <;> simp_all [chunks]
  | succ n ih =>
    intro s h c hc
    rw [chunks] at hc
    by_cases hs : s = []
    · simp [hs] at hc
    · have hcond : ¬ (w = 0 ∨ s = []) := by
        intro h'
        cases h' with
        | inl h' => omega
        | inr h' => exact hs h'
      simp only [hcond, dite_false, List.mem_cons] at hc
      have hpos : 0 < s.length := List.length_pos_iff.mpr hs
      cases hc with
      | inl h1 =>
        subst h1
        refine ⟨?_, fun b hb => List.mem_of_mem_take hb⟩
        intro e
        have h1 := @List.length_take _ w s
        rw [e] at h1; simp only [List.length_nil] at h1; omega
      | inr h2 =>
        have hl : (s.drop w).length ≤ n := by simp [List.length_drop]; omega
        obtain ⟨a, b⟩ := ih _ hl c h2
        exact ⟨a, fun x hx => List.mem_of_mem_drop (b x hx)⟩

theorem chunks_ne_nil (w : Nat) (hw : 0 < w) (s : Seq) (hs : s ≠ []) : chunks w s ≠ [] := by
  rw [chunks]
  have hcond : ¬ (w = 0 ∨ s = []) := by
    intro h'
    cases h' with
    | inl h' => omega
    | inr h' => exact hs h'
  simp [hcond]

theorem lex_row (w : Nat) (hw : 0 < w) (r : XRow) (hr : ValidRow r) (rest : Seq)
    (hrest : ∀ b, rest.head? = some b → isEOL b = false ∧ b ≠ 0) :
    lex (writeRow w r ++ rest) = rowToks w r ++ lex rest := by
  obtain ⟨⟨hn, _⟩, hq⟩ := hr
  have hwrap := wrap_eq_chunks w hw r.2.length r.2 0 (Nat.le_refl _) hq.1
  simp only [Nat.zero_mul, if_true, List.nil_append] at hwrap
  have hcl : ∀ c ∈ chunks w r.2, CleanLine c := by
    intro c hc
    obtain ⟨h1, h2⟩ := chunks_mem w hw _ r.2 (Nat.le_refl _) c hc
    refine ⟨h1, fun b hb => (hq.2 b (h2 b hb)).1, ?_⟩
    intro e
    cases c with
    | nil => exact h1 rfl
    | cons x xs => simp at e; exact (hq.2 x (h2 x (by simp))).2.1 e
  have hne := chunks_ne_nil w hw r.2 hq.1
  simp only [writeRow, rowToks, List.cons_append, List.append_assoc, hwrap]
  rw [lex_cons]
  have hs : scan (GT :: (r.1 ++ (NL :: (interc (chunks w r.2) ++ (NL :: rest))))) =
      (.start, r.1 ++ (NL :: (interc (chunks w r.2) ++ (NL :: rest)))) := by
    have e1 : isEOL GT = false := by decide
    have e2 : (GT == (0 : Byte)) = false := by decide
    simp [scan, e1, e2]
  simp only [List.nil_append] at *
  rw [hs]
  simp only []
  rw [lex_line r.1 hn]
  · rw [lex_interc _ hne hcl rest hrest]
  · intro b hb
    cases hch : chunks w r.2 with
    | nil => exact absurd hch hne
    | cons c cs =>
      rw [hch] at hb
      have hc := hcl c (by rw [hch]; simp)
      cases cs with
      | nil => simp only [interc] at hb; exact cleanLine_head c hc _ b hb
      | cons c' cs' => simp only [interc, List.append_assoc] at hb; exact cleanLine_head c hc _ b hb

theorem lex_write (w : Nat) (hw : 0 < w) : ∀ (rows : List XRow), (∀ r ∈ rows, ValidRow r) →
    lex (write w rows) = rows.flatMap (rowToks w) ++ [.eof]
  | [], _ => by simp [write, lex]
  | r :: rs, h => by
    have ih := lex_write w hw rs (fun x hx => h x (by simp [hx]))
    simp only [write, List.flatMap_cons] at ih ⊢
    rw [lex_row w hw r (h r (by simp))]
    · rw [ih]; simp
    · intro b hb
      cases rs with
      | nil => simp at hb
      | cons r' rs' =>
        simp [writeRow] at hb; subst hb; decide

/-! ### the parser loop over the tokens of written rows is a fold of `Bag.add` -/

theorem stripSpaces_id (n : Seq) (h : n.head? ≠ some SP) : stripSpaces n = n := by
  unfold stripSpaces
  cases n with
  | nil => rfl
  | cons x xs =>
    have : (x == SP) = false := by
      cases hx : (x == SP)
      · rfl
      · exfalso; apply h; simp at hx; simp [hx]
    simp [List.dropWhile, this]

/-- running the parser over the identifier/EOL pairs of the chunks appends their concatenation -/
theorem body_pairs : ∀ (cs : List Seq) (st : PS) (T : List Tok), cs ≠ [] → (∀ c ∈ cs, ∀ b ∈ c, b ≠ SP) →
    body st (pairs cs ++ T) = body { st with curseq := st.curseq ++ cs.flatten } T
  | [], _, _, h, _ => absurd rfl h
  | [c], st, T, _, hsp => by
    simp only [pairs, List.flatMap_cons, List.flatMap_nil, List.append_nil, List.cons_append, List.nil_append]
    rw [body, loop]
    simp [noSpaces_id c (hsp c (by simp))]
  | c :: c' :: cs, st, T, _, hsp => by
    have ih := body_pairs (c' :: cs) { st with curseq := st.curseq ++ c } T (by simp)
      (fun x hx => hsp x (by simp [hx]))
    simp only [pairs, List.flatMap_cons, List.cons_append, List.nil_append] at ih ⊢
    rw [body, loop]
    simp only [noSpaces_id c (hsp c (by simp))]
    rw [ih]
    simp [List.append_assoc]

/-- the record that is still pending in the parser state -/
def pending (st : PS) : List XRow := if st.curseq ≠ [] then [(st.curname, st.curseq)] else []
/-- a state as it is between records of a written file -/
def Fresh (st : PS) : Prop := st.curseq ≠ [] ∨ (st.curname = [] ∧ st.curseq = [])

def addAll (b : Bag) (rows : List XRow) : Option Bag := rows.foldlM (fun b r => b.add r.1 r.2) b

theorem body_row (w : Nat) (hw : 0 < w) (r : XRow) (hr : ValidRow r) (st : PS) (hst : Fresh st) (T : List Tok) :
    body st (rowToks w r ++ T) =
      (addAll st.bag (pending st)).bind fun b => body { curname := r.1, curseq := r.2, bag := b } T := by
  obtain ⟨⟨_, hsp⟩, hq⟩ := hr
  have hne := chunks_ne_nil w hw r.2 hq.1
  have hns : ∀ c ∈ chunks w r.2, ∀ b ∈ c, b ≠ SP := by
    intro c hc b hb
    exact (hq.2 b ((chunks_mem w hw _ r.2 (Nat.le_refl _) c hc).2 b hb)).2.2
  have hfl := chunks_flatten w hw _ r.2 (Nat.le_refl _)
  simp only [rowToks, List.cons_append]
  rw [body]
  by_cases hcs : st.curseq ≠ []
  · simp only [hcs, if_true, ne_eq, not_false_eq_true, pending, addAll, List.foldlM_cons, List.foldlM_nil]
    cases hadd : st.bag.add st.curname st.curseq with
    | none => simp
    | some b =>
      simp only [Option.bind_eq_bind, Option.bind_some, Option.pure_def]
      rw [loop, body_pairs _ _ _ hne hns]
      simp [hfl, stripSpaces_id r.1 hsp]
  · have hcs' : st.curseq = [] := by simpa using hcs
    have hnm : st.curname = [] := by
      cases hst with
      | inl h => exact absurd hcs' h
      | inr h => exact h.1
    simp only [hcs', hnm, ne_eq, not_true_eq_false, if_false, pending, addAll, List.foldlM_nil,
      Option.pure_def, Option.bind_some]
    rw [loop, body_pairs _ _ _ hne hns]
    simp [hfl, stripSpaces_id r.1 hsp]

theorem addAll_append (b : Bag) (l1 l2 : List XRow) :
    addAll b (l1 ++ l2) = (addAll b l1).bind fun b' => addAll b' l2 := by
  simp [addAll, List.foldlM_append]

theorem body_rows (w : Nat) (hw : 0 < w) : ∀ (rows : List XRow), (∀ r ∈ rows, ValidRow r) →
    ∀ (st : PS), Fresh st →
    body st (rows.flatMap (rowToks w) ++ [.eof]) = addAll st.bag (pending st ++ rows)
  | [], _, st, _ => by
    simp only [List.flatMap_nil, List.nil_append, List.append_nil]
    rw [body]
    by_cases h : st.curseq = []
    · simp [h, pending, addAll]
    · simp [h, pending, addAll]
  | r :: rs, h, st, hst => by
    have hr := h r (by simp)
    simp only [List.flatMap_cons, List.append_assoc]
    rw [body_row w hw r hr st hst, addAll_append]
    congr 1
    funext b
    have hfresh : Fresh { curname := r.1, curseq := r.2, bag := b } := Or.inl hr.2.1
    rw [body_rows w hw rs (fun x hx => h x (by simp [hx])) _ hfresh]
    simp [pending, hr.2.1]

/-! ### adding rows with distinct names and one length rebuilds them -/

theorem find_none_of_forall (b : Bag) (n : Name) (h : ∀ r ∈ b.rows, r.1 ≠ n) : b.find n = none := by
  unfold Bag.find
  have : b.rows.find? (fun x => x.1 == n) = none := by
    apply List.find?_eq_none.mpr
    intro r hr
    simp [h r hr]
  simp [this]

theorem add_fresh (b : Bag) (n : Name) (s : Seq) (hf : ∀ r ∈ b.rows, r.1 ≠ n)
    (hl : b.length = -1 ∨ b.length = s.length) :
    b.add n s = some { b with length := s.length, rows := b.rows ++ [(n, s)] } := by
  unfold Bag.add
  rw [find_none_of_forall b n hf]
  cases hl with
  | inl h => simp [h]
  | inr h => simp [h]

/-- a prefix already in the bag, the remaining rows have names distinct from it and from each other -/
theorem addAll_ok (L : Nat) : ∀ (rows : List XRow) (b : Bag),
    (∀ r ∈ rows, r.2.length = L) →
    (b.rows = [] ∧ b.length = -1 ∨ b.rows ≠ [] ∧ b.length = L) →
    (∀ r ∈ rows, ∀ q ∈ b.rows, q.1 ≠ r.1) →
    Spec.Fmt.distinct (rows.map (·.1)) = true →
    addAll b rows = some { b with
      length := if rows = [] then b.length else L, rows := b.rows ++ rows }
  | [], b, _, _, _, _ => by simp [addAll]
  | r :: rs, b, hlen, hb, hfr, hd => by
    have hadd : b.add r.1 r.2 = some { b with length := r.2.length, rows := b.rows ++ [(r.1, r.2)] } := by
      apply add_fresh
      · intro q hq; exact hfr r (by simp) q hq
      · cases hb with
        | inl h => exact Or.inl h.2
        | inr h => right; rw [h.2, hlen r (by simp)]
    simp only [Spec.Fmt.distinct, List.map_cons, Bool.and_eq_true, Bool.not_eq_true'] at hd
    have hnotin : ∀ q ∈ rs, q.1 ≠ r.1 := by
      intro q hq e
      have : (rs.map (·.1)).contains r.1 = true := by
        simp only [List.contains_iff_mem, List.mem_map]
        exact ⟨q, hq, e⟩
      rw [this] at hd
      exact absurd hd.1 (by simp)
    have ih := addAll_ok L rs { b with length := r.2.length, rows := b.rows ++ [(r.1, r.2)] }
      (fun x hx => hlen x (by simp [hx]))
      (Or.inr ⟨by simp, by simp [hlen r (by simp)]⟩)
      (by
        intro x hx q hq
        simp only [List.mem_append, List.mem_singleton] at hq
        cases hq with
        | inl hq => exact hfr x (by simp [hx]) q hq
        | inr hq => subst hq; exact fun e => hnotin x hx e.symm)
      hd.2
    simp only [addAll, List.foldlM_cons] at ih ⊢
    rw [hadd]
    simp only [Option.bind_eq_bind, Option.bind_some]
    rw [ih]
    simp only [List.append_assoc, List.cons_append, List.nil_append, reduceCtorEq, if_false]
    cases rs with
    | nil => simp [hlen r (by simp)]
    | cons x xs => simp

end Gv.Proofs.FastaRT
