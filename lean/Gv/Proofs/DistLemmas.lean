import Gv.Model.Dist
/-!
Helper lemmas for property C07, part 1 (core-only): behaviour of the pair counters of
`Model/Dist.lean` when the two rows are exchanged, on equal rows, and with unit weights.
The property theorems themselves are in `Props/C07.lean`.
-/
namespace Gv.Proofs.Dist
open Gv Gv.Model.Dist

section
variable {α : Type} [RealLike α]

/-- the same column seen from the other row -/
def swapSite (s : Site α) : Site α := ⟨s.b, s.a, s.sel, s.w⟩

theorem sites_swap (s1 s2 : List Code) (sel : List Bool) (ws : Option (List α)) :
    sites s2 s1 sel ws = (sites s1 s2 sel ws).map swapSite := by
  induction s1 generalizing s2 sel ws with
  | nil => cases s2 <;> simp [sites]
  | cons a t ih =>
    cases s2 with
    | nil => simp [sites]
    | cons b t2 =>
      cases sel with
      | nil => simp [sites]
      | cons s sel =>
        cases ws with
        | none => simp [sites, swapSite, ih]
        | some w =>
          cases w with
          | nil => simp [sites]
          | cons w ws => simp [sites, swapSite, ih]

theorem bne_symm (a b : Code) : (a != b) = (b != a) := by
  exact bne_comm

theorem ntDiff_symm (a b : Code) : ntIUPACDifference a b = ntIUPACDifference b a := by
  unfold ntIUPACDifference
  generalize NT_N = n
  by_cases ha : a > n <;> by_cases hb : b > n <;> simp only [ha, hb, if_true, if_false]
  by_cases hab : a = b
  · subst hab; rfl
  · have hba : ¬ b = a := fun h => hab h.symm
    simp only [beq_iff_eq, hab, hba, if_false, UInt8.and_comm]

theorem isTransversion_symm (a b : Code) : isTransversion a b = isTransversion b a := by
  unfold isTransversion
  generalize NT_R = r
  generalize NT_Y = y
  simp only [Bool.and_assoc, Bool.and_comm, Bool.and_left_comm, Bool.or_comm]

theorem isTransition_symm (a b : Code) : isTransition a b = isTransition b a := by
  unfold isTransition
  generalize NT_A = x1; generalize NT_G = x2; generalize NT_T = x3; generalize NT_C = x4
  simp only [Bool.and_comm, Bool.or_comm, Bool.or_left_comm]

theorem isAG_symm (a b : Code) : isAG a b = isAG b a := by
  unfold isAG
  generalize NT_A = x1; generalize NT_G = x2
  simp only [Bool.and_comm, Bool.or_comm]

theorem isCT_symm (a b : Code) : isCT a b = isCT b a := by
  unfold isCT
  generalize NT_T = x3; generalize NT_C = x4
  simp only [Bool.and_comm, Bool.or_comm]

theorem diffUpdate_swap (r : Bool) (nb tot : α) (s : Site α) :
    diffUpdate r nb tot (swapSite s) = diffUpdate r nb tot s := by
  cases s with
  | mk a b sel w =>
    simp only [diffUpdate, swapSite, bne_symm b a, ntDiff_symm b a, Bool.or_comm (isAmbiguous b) (isAmbiguous a)]

theorem diffStep_swap (g r : Bool) (st : α × α) (s : Site α) :
    diffStep g r st (swapSite s) = diffStep g r st s := by
  unfold diffStep
  rw [diffUpdate_swap]
  cases s with
  | mk a b sel w => simp only [swapSite, Bool.or_comm (isNuc b) (isNuc a), Bool.and_comm (isNuc b) (isNuc a)]

omit [RealLike α] in
theorem foldl_map_swap {β : Type} (f : β → Site α → β) (h : ∀ st s, f st (swapSite s) = f st s)
    (l : List (Site α)) (st : β) : (l.map swapSite).foldl f st = l.foldl f st := by
  induction l generalizing st with
  | nil => rfl
  | cons s t ih => simp [List.foldl, h, ih]

theorem mutStep_swap (st : Mut α) (s : Site α) : mutStep st (swapSite s) = mutStep st s := by
  cases s with
  | mk a b sel w =>
    simp only [mutStep, swapSite, bne_symm b a, isTransversion_symm b a, isTransition_symm b a,
      isAG_symm b a, isCT_symm b a, Bool.and_comm (isNuc b) (isNuc a)]

/-- state of the internal-gap counter seen from the other row -/
def swapIG (st : IG α) : IG α := ⟨st.nb, st.tot, st.first2, st.first1, st.tmp2, st.tmp1⟩

theorem igStep_swap (h r : Bool) (st : IG α) (s : Site α) :
    igStep h r (swapIG st) (swapSite s) = swapIG (igStep h r st s) := by
  cases s with
  | mk a b sel w =>
    cases st with
    | mk nb tot f1 f2 t1 t2 =>
      simp only [igStep, swapIG, diffUpdate, swapSite, bne_symm b a, ntDiff_symm b a,
        Bool.or_comm (isNuc b) (isNuc a), Bool.or_comm (isAmbiguous b) (isAmbiguous a),
        Bool.and_comm (!(f2 && !isNuc b)) (!(f1 && !isNuc a))]
      split <;> rfl

theorem ig_foldl_swap (h r : Bool) (l : List (Site α)) (st : IG α) :
    (l.map swapSite).foldl (igStep h r) (swapIG st) = swapIG (l.foldl (igStep h r) st) := by
  induction l generalizing st with
  | nil => rfl
  | cons s t ih => simp only [List.map, List.foldl, igStep_swap, ih]

/-! ### equal rows -/

omit [RealLike α] in
theorem foldl_inv {β γ : Type} (P : β → Prop) (f : β → γ → β) (l : List γ) (init : β) (h0 : P init)
    (hstep : ∀ st s, s ∈ l → P st → P (f st s)) : P (l.foldl f init) := by
  induction l generalizing init with
  | nil => exact h0
  | cons s t ih =>
    simp only [List.foldl]
    exact ih _ (hstep _ _ (by simp) h0) (fun st s' hs' hp => hstep st s' (by simp [hs']) hp)

theorem sites_diag (s : List Code) (sel : List Bool) (ws : Option (List α)) :
    ∀ x ∈ sites s s sel ws, x.a = x.b := by
  induction s generalizing sel ws with
  | nil => intro x hx; simp [sites] at hx
  | cons a t ih =>
    cases sel with
    | nil => intro x hx; simp [sites] at hx
    | cons b sel =>
      cases ws with
      | none =>
        intro x hx
        simp only [sites, List.mem_cons] at hx
        rcases hx with rfl | hx
        · rfl
        · exact ih _ _ x hx
      | some w =>
        cases w with
        | nil => intro x hx; simp [sites] at hx
        | cons w ws =>
          intro x hx
          simp only [sites, List.mem_cons] at hx
          rcases hx with rfl | hx
          · rfl
          · exact ih _ _ x hx

theorem diffStep_diag (g r : Bool) (st : α × α) (s : Site α) (h : s.a = s.b) :
    (diffStep g r st s).1 = st.1 := by
  cases s with
  | mk a b sel w =>
    simp only at h
    subst h
    simp only [diffStep, diffUpdate, bne_self_eq_false, Bool.false_and, Bool.false_eq_true, if_false]
    split <;> split <;> rfl

theorem countDiffsGen_diag (g r : Bool) (l : List (Site α)) (h : ∀ x ∈ l, x.a = x.b) :
    (countDiffsGen g r l).1 = 0 := by
  unfold countDiffsGen
  apply foldl_inv (fun st : α × α => st.1 = 0)
  · rfl
  · intro st s hs hp
    rw [diffStep_diag g r st s (h s hs)]
    exact hp

theorem mutStep_diag (st : Mut α) (s : Site α) (h : s.a = s.b) :
    (mutStep st s).transitions = st.transitions ∧ (mutStep st s).transversions = st.transversions ∧
    (mutStep st s).ag = st.ag ∧ (mutStep st s).ct = st.ct := by
  cases s with
  | mk a b sel w =>
    simp only at h
    subst h
    simp only [mutStep, bne_self_eq_false, Bool.false_eq_true, if_false]
    split <;> simp

theorem countMutations_diag (l : List (Site α)) (h : ∀ x ∈ l, x.a = x.b) :
    (countMutations l).transitions = 0 ∧ (countMutations l).transversions = 0 ∧
    (countMutations l).ag = 0 ∧ (countMutations l).ct = 0 := by
  unfold countMutations
  apply foldl_inv (fun st : Mut α => st.transitions = 0 ∧ st.transversions = 0 ∧ st.ag = 0 ∧ st.ct = 0)
  · exact ⟨rfl, rfl, rfl, rfl⟩
  · intro st s hs hp
    obtain ⟨h1, h2, h3, h4⟩ := mutStep_diag st s (h s hs)
    exact ⟨h1 ▸ hp.1, h2 ▸ hp.2.1, h3 ▸ hp.2.2.1, h4 ▸ hp.2.2.2⟩

theorem igStep_diag (hon r : Bool) (st : IG α) (s : Site α) (h : s.a = s.b)
    (hp : st.nb = 0 ∧ st.tmp1 = 0 ∧ st.tmp2 = 0) :
    (igStep hon r st s).nb = 0 ∧ (igStep hon r st s).tmp1 = 0 ∧ (igStep hon r st s).tmp2 = 0 := by
  cases s with
  | mk a b sel w =>
    cases st with
    | mk nb tot f1 f2 t1 t2 =>
      simp only at h hp
      obtain ⟨h1, h2, h3⟩ := hp
      subst h h1 h2 h3
      simp only [igStep, diffUpdate, bne_self_eq_false, Bool.false_and, Bool.false_eq_true, if_false]
      split
      · refine ⟨rfl, ?_, ?_⟩ <;> simp only <;> split <;> rfl
      · exact ⟨rfl, rfl, rfl⟩

theorem maxG_zero : maxG (0 : α) 0 = 0 := by
  unfold maxG
  split <;> rfl

theorem countDiffsWithInternalGaps_diag (hon r : Bool) (l : List (Site α)) (h : ∀ x ∈ l, x.a = x.b) :
    (countDiffsWithInternalGaps hon r l).1 = 0 - 0 := by
  unfold countDiffsWithInternalGaps
  have := foldl_inv (fun st : IG α => st.nb = 0 ∧ st.tmp1 = 0 ∧ st.tmp2 = 0) (igStep hon r) l
    ⟨0, 0, true, true, 0, 0⟩ ⟨rfl, rfl, rfl⟩ (fun st s hs hp => igStep_diag hon r st s (h s hs) hp)
  obtain ⟨h1, h2, h3⟩ := this
  simp only [h1, h2, h3, maxG_zero]

/-! ### unit weights -/

theorem sites_unit (s1 s2 : List Code) (sel : List Bool) (n : Nat) (hn : s1.length ≤ n) :
    sites s1 s2 sel (some (List.replicate n (1 : α))) = sites s1 s2 sel none := by
  induction s1 generalizing s2 sel n with
  | nil => cases n <;> simp [sites]
  | cons a t ih =>
    cases n with
    | zero => simp at hn
    | succ n =>
      cases s2 with
      | nil => simp [sites]
      | cons b t2 =>
        cases sel with
        | nil => simp [sites]
        | cons s sel =>
          simp only [List.replicate, sites]
          rw [ih t2 sel n (by simpa using hn)]

end

/-! ### site selection -/

def isACGT (c : Byte) : Bool := toUpper c == 65 || toUpper c == 67 || toUpper c == 71 || toUpper c == 84

set_option maxRecDepth 100000 in
theorem badForSelection_eq : ∀ c : Byte, badForSelection c = !isACGT c := by decide

theorem not_any_bad (l : Nat) (rows : List Seq) :
    (!rows.any fun s => badForSelection (s.getD l 0)) = rows.all fun s => isACGT (s.getD l 0) := by
  simp only [badForSelection_eq]
  induction rows with
  | nil => rfl
  | cons r t ih => simp only [List.any_cons, List.all_cons, Bool.not_or, Bool.not_not, ih]

theorem selectedSites_get (rows : List Seq) (rm : Bool) (l : Nat) (hl : l < (rows.headD []).length) :
    (selectedSites rows rm)[l]? = some (!rm || rows.all fun s => isACGT (s.getD l 0)) := by
  unfold selectedSites
  rw [List.getElem?_map, List.getElem?_range hl]
  simp only [Option.map_some, Option.some.injEq]
  cases rm
  · simp
  · simp only [Bool.true_and, Bool.not_true, Bool.false_or]
    exact not_any_bad l rows

theorem selectedSites_length (rows : List Seq) (rm : Bool) :
    (selectedSites rows rm).length = (rows.headD []).length := by
  simp [selectedSites]

/-! ### matrix assembly -/

section
variable {α : Type} [RealLike α]

omit [RealLike α] in
theorem samePair_symm (p : Nat × Nat) (i j : Nat) : samePair p i j = samePair p j i := by
  unfold samePair
  rw [Bool.or_comm]

theorem cell_symm (v : Variant) (entries : List ((Nat × Nat) × α)) (i j : Nat) :
    cell v entries i j = cell v entries j i := by
  unfold cell
  have : (fun e : (Nat × Nat) × α => samePair e.1 i j) = (fun e => samePair e.1 j i) := by
    funext e; exact samePair_symm e.1 i j
  simp only [this]

theorem cell_diag (v : Variant) (entries : List ((Nat × Nat) × α)) (i : Nat)
    (h : ∀ e ∈ entries, e.1.1 ≠ e.1.2) : cell v entries i i = 0 := by
  unfold cell
  have hnil : entries.filter (fun e => samePair e.1 i i) = [] := by
    rw [List.filter_eq_nil_iff]
    intro e he hs
    simp only [samePair, Bool.or_self, Bool.and_eq_true, beq_iff_eq] at hs
    exact h e he (hs.1.trans hs.2.symm)
  simp only [hnil, List.any_nil, Bool.false_eq_true, if_false, List.getLast?_nil]

omit [RealLike α] in
theorem crossPairs_offdiag (is js : List Nat) :
    ∀ p ∈ (is.flatMap fun i => (js.filter (· != i)).map fun j => (i, j)), p.1 ≠ p.2 := by
  intro p hp
  simp only [List.mem_flatMap, List.mem_map, List.mem_filter] at hp
  obtain ⟨i, _, j, ⟨_, hj⟩, rfl⟩ := hp
  simp only [bne_iff_ne, ne_eq] at hj
  exact fun h => hj h.symm

omit [RealLike α] in
theorem pairList_offdiag (n : Nat) (a b c d : Int) (ps : List (Nat × Nat))
    (h : pairList n a b c d = some ps) : ∀ p ∈ ps, p.1 ≠ p.2 := by
  unfold pairList at h
  split at h
  · dsimp only at h
    split at h <;> (try split at h) <;> (try split at h) <;> (try split at h) <;>
      first
      | (cases h; done)
      | (simp only [Option.some.injEq] at h; subst h; exact crossPairs_offdiag _ _)
  · simp only [Option.some.injEq] at h
    subst h
    intro p hp
    simp only [List.mem_flatMap, List.mem_map, List.mem_filter] at hp
    obtain ⟨i, _, j, ⟨_, hj⟩, rfl⟩ := hp
    simp only [gt_iff_lt, decide_eq_true_eq] at hj
    exact Nat.ne_of_lt hj

omit [RealLike α] in
theorem mapM_fst {β : Type} (f : Nat × Nat → Option β) (l : List (Nat × Nat)) (r : List ((Nat × Nat) × β))
    (h : l.mapM (fun p => (f p).bind fun d => some (p, d)) = some r) : r.map (·.1) = l := by
  induction l generalizing r with
  | nil => simp at h; subst h; rfl
  | cons p t ih =>
    rw [List.mapM_cons] at h
    cases hf : f p with
    | none => simp [hf] at h
    | some d =>
      cases ht : t.mapM (fun p => (f p).bind fun d => some (p, d)) with
      | none => simp [hf, ht] at h
      | some rt =>
        simp [hf, ht] at h
        subst h
        simp [ih rt ht]

/-- shape of a successful `distMatrix`: a table of `cell`s over entries whose pairs are off-diagonal -/
theorem distMatrix_shape (c : Cfg α) (rows : List Seq) (a b cc d : Int) (m : List (List α))
    (h : distMatrix c rows a b cc d = some m) :
    ∃ entries : List ((Nat × Nat) × α), (∀ e ∈ entries, e.1.1 ≠ e.1.2) ∧
      m = (List.range rows.length).map fun i => (List.range rows.length).map fun j => cell c.variant entries i j := by
  unfold distMatrix at h
  cases hi : initModel c rows with
  | none => simp [hi] at h
  | some ini =>
    cases hp : pairList rows.length a b cc d with
    | none => simp [hi, hp] at h
    | some pairs =>
      simp only [hi, hp, Option.bind_eq_bind, Option.bind_some, bind, pure] at h
      obtain ⟨entries, he, hm⟩ := Option.bind_eq_some_iff.mp h
      simp only [Option.some.injEq] at hm
      refine ⟨entries, ?_, hm.symm⟩
      intro e hmem
      have hfst := mapM_fst _ pairs entries he
      have : e.1 ∈ pairs := by
        rw [← hfst]; exact List.mem_map_of_mem hmem
      exact pairList_offdiag _ _ _ _ _ _ hp _ this

end
end Gv.Proofs.Dist
