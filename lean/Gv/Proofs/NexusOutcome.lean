import Gv.Model.Fmt.Nexus
import Gv.Proofs.FmtBagInv
/-!
Nexus parser: what a successful parse looks like (helper development for `Props/C03.lean`).
-/
namespace Gv.Proofs.NexusOutcome
open Gv Gv.Model Gv.Model.Fmt Gv.Model.Fmt.Nexus Gv.Proofs.FmtBagInv

def Good (f : Facts) (b : Bag) : Prop := Inv b ∧ (f.rejectsEmptyRows = true → Pos b)

theorem repl_length (a b : Byte) (s : Seq) : (repl a b s).length = s.length := by simp [repl]

theorem addRow_good (f : Facts) (d : Data) (b b' : Bag) (r : XRow) (hb : Good f b)
    (h : addRow f d b r = .ok b') : Good f b' ∧ b'.rows ≠ [] := by
  unfold addRow at h
  split at h
  · simp at h
  · rename_i he
    split at h
    · simp at h
    · split at h
      · simp at h
      · rename_i b1 hadd
        simp [pure, Except.pure] at h; subst h
        refine ⟨⟨add_inv b hb.1 _ _ b1 hadd, ?_⟩, add_rows_ne b _ _ b1 hadd⟩
        intro hf
        have hne : r.2 ≠ [] := by
          intro e
          simp [hf, e] at he
        apply add_pos b (hb.2 hf) _ _ _ b1 hadd
        intro e
        have := congrArg List.length e
        simp [repl_length] at this
        exact hne this

theorem foldlM_good (f : Facts) (d : Data) : ∀ (rows : List XRow) (b b' : Bag), Good f b →
    (rows ≠ [] ∨ b.rows ≠ []) → rows.foldlM (addRow f d) b = .ok b' → Good f b' ∧ b'.rows ≠ []
  | [], b, b', hb, hne, h => by
    simp [pure, Except.pure] at h; subst h
    refine ⟨hb, ?_⟩
    cases hne with
    | inl e => exact absurd rfl e
    | inr e => exact e
  | r :: rs, b, b', hb, _, h => by
    simp only [List.foldlM_cons, bind, Except.bind] at h
    split at h
    · simp at h
    · rename_i b1 h1
      obtain ⟨hg, hn⟩ := addRow_good f d b b1 r hb h1
      exact foldlM_good f d rs b1 b' hg (Or.inr hn) h

theorem replaceMatchChars_names (rows : List XRow) :
    (replaceMatchChars rows).map (·.1) = rows.map (·.1) := by
  cases rows with
  | nil => rfl
  | cons ref rest => simp [replaceMatchChars, List.map_map, Function.comp_def]

theorem replaceMatchChars_lengths (rows : List XRow) (L : Int) (h : ∀ r ∈ rows, (r.2.length : Int) = L) :
    ∀ r ∈ replaceMatchChars rows, (r.2.length : Int) = L := by
  cases rows with
  | nil => intro r hr; simp [replaceMatchChars] at hr
  | cons ref rest =>
    intro r hr
    simp only [replaceMatchChars, List.mem_cons, List.mem_map] at hr
    cases hr with
    | inl e => subst e; exact h _ (by simp)
    | inr e =>
      obtain ⟨q, hq, rfl⟩ := e
      simp only [List.length_map, List.length_zipIdx]
      exact h q (by simp [hq])

theorem replaceMatchChars_ne (rows : List XRow) (h : rows ≠ []) : replaceMatchChars rows ≠ [] := by
  cases rows with
  | nil => exact absurd rfl h
  | cons _ _ => simp [replaceMatchChars]

/-- from the row loop to the result -/
theorem tail_ok (f : Facts) (d : Data) (init : Nat) (v : Bag) (alp : Nat) (a' : Aln)
    (hfold : List.foldlM (addRow f d) ({ ignore := init } : Bag) d.rows = Except.ok v)
    (hrows : ¬ d.rows = [])
    (hfin : Bag.finish { ignore := v.ignore, length := v.length, rows := replaceMatchChars v.rows } alp = some a') :
    a'.rows ≠ [] ∧ (∀ r ∈ a'.rows, (r.2.length : Int) = a'.length) ∧
      Spec.Fmt.distinct (a'.rows.map (·.1)) = true ∧ (f.rejectsEmptyRows = true → 1 ≤ a'.length) := by
  obtain ⟨hg, hn⟩ := foldlM_good f d d.rows _ v ⟨inv_empty _, fun _ hh => absurd rfl hh⟩ (Or.inl hrows) hfold
  obtain ⟨hr, hl⟩ := finish_rows _ _ a' hfin
  rw [hr, hl]
  refine ⟨replaceMatchChars_ne _ hn, replaceMatchChars_lengths _ _ hg.1.2.1, ?_, fun hf => hg.2 hf hn⟩
  simp only []
  rw [replaceMatchChars_names]
  exact hg.1.2.2

/-- the final stage: non-empty, rectangular, pairwise distinct names; at least one column once empty rows
are rejected -/
theorem build_ok (f : Facts) (o : POpts) (top : Top) (a : Aln) (h : build f o top = .ok a) :
    a.rows ≠ [] ∧ (∀ r ∈ a.rows, (r.2.length : Int) = a.length) ∧
      Spec.Fmt.distinct (a.rows.map (·.1)) = true ∧ (f.rejectsEmptyRows = true → 1 ≤ a.length) := by
  unfold build at h
  simp only [bind, Except.bind, pure, Except.pure] at h
  repeat' (split at h <;> try (simp at h))
  all_goals (
    rename_i a' hfin
    subst h
    exact tail_ok f _ _ _ _ a' (by assumption) (by assumption) hfin)

theorem parse_ok (f : Facts) (o : POpts) (bs : Seq) (a : Aln) (h : Nexus.parse f o bs = .ok a) :
    ∃ top, build f o top = .ok a := by
  unfold Nexus.parse at h
  cases hp : parseR f o bs with
  | error e => rw [hp] at h; cases e <;> simp [toOutcome] at h
  | ok a' =>
    rw [hp] at h
    simp [toOutcome] at h; subst h
    unfold parseR at hp
    simp only [bind, Except.bind, pure, Except.pure] at hp
    repeat' (split at hp <;> try (simp at hp))
    exact ⟨_, hp⟩

end Gv.Proofs.NexusOutcome
