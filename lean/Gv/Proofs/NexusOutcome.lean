import Gv.Model.Fmt.Nexus
import Gv.Proofs.FmtBagInv
/-!
Nexus parser: what a successful parse looks like (helper development for `Props/C03.lean`).
-/
namespace Gv.Proofs.NexusOutcome
open Gv Gv.Model Gv.Model.Fmt Gv.Model.Fmt.Nexus Gv.Proofs.FmtBagInv

def Good (f : Facts) (b : Bag) : Prop := Inv b ∧ (f.rejectsEmptyRows = true → Pos b)

theorem repl_length (a b : Byte) (s : Seq) : (repl a b s).length = s.length := by simp [repl]

theorem addRow_good (f : Facts) (d : Data) (b b' : Bag) (r : XRow) (hb : Good f b)
    (h : addRow f d b r = .ok b') : Good f b' ∧ b'.rows ≠ [] := by
  unfold addRow at h
  split at h
  · simp at h
  · rename_i he
    split at h
    · simp at h
    · split at h
      · simp at h
      · rename_i b1 hadd
        simp [pure, Except.pure] at h; subst h
        refine ⟨⟨add_inv b hb.1 _ _ b1 hadd, ?_⟩, add_rows_ne b _ _ b1 hadd⟩
        intro hf
        have hne : r.2 ≠ [] := by
          intro e
          simp [hf, e] at he
        apply add_pos b (hb.2 hf) _ _ _ b1 hadd
        intro e
        have := congrArg List.length e
        simp [repl_length] at this
        exact hne this

theorem foldlM_good (f : Facts) (d : Data) : ∀ (rows : List XRow) (b b' : Bag), Good f b →
    (rows ≠ [] ∨ b.rows ≠ []) → rows.foldlM (addRow f d) b = .ok b' → Good f b' ∧ b'.rows ≠ []
  | [], b, b', hb, hne, h => by
    simp [pure, Except.pure] at h; subst h
    refine ⟨hb, ?_⟩
    cases hne with
    | inl e => exact absurd rfl e
    | inr e => exact e
  | r :: rs, b, b', hb, _, h => by
    simp only [List.foldlM_cons, bind, Except.bind] at h
    split at h
    · simp at h
    · rename_i b1 h1
      obtain ⟨hg, hn⟩ := addRow_good f d b b1 r hb h1
      exact foldlM_good f d rs b1 b' hg (Or.inr hn) h

theorem replaceMatchChars_names (rows : List XRow) :
    (replaceMatchChars rows).map (·.1) = rows.map (·.1) := by
  cases rows with
  | nil => rfl
  | cons ref rest => simp [replaceMatchChars, List.map_map, Function.comp_def]

theorem replaceMatchChars_lengths (rows : List XRow) (L : Int) (h : ∀ r ∈ rows, (r.2.length : Int) = L) :
    ∀ r ∈ replaceMatchChars rows, (r.2.length : Int) = L := by
  cases rows with
  | nil => intro r hr; simp [replaceMatchChars] at hr
  | cons ref rest =>
    intro r hr
    simp only [replaceMatchChars, List.mem_cons, List.mem_map] at hr
    cases hr with
    | inl e => subst e; exact h _ (by simp)
    | inr e =>
      obtain ⟨q, hq, rfl⟩ := e
      simp only [List.length_map, List.length_zipIdx]
      exact h q (by simp [hq])

theorem replaceMatchChars_ne (rows : List XRow) (h : rows ≠ []) : replaceMatchChars rows ≠ [] := by
  cases rows with
  | nil => exact absurd rfl h
  | cons _ _ => simp [replaceMatchChars]

/-- from the row loop to the result -/
theorem tail_ok (f : Facts) (d : Data) (init : Nat) (v : Bag) (alp : Nat) (a' : Aln)
    (hfold : List.foldlM (addRow f d) ({ ignore := init } : Bag) d.rows = Except.ok v)
    (hrows : ¬ d.rows = [])
    (hfin : Bag.finish { ignore := v.ignore, length := v.length, rows := replaceMatchChars v.rows } alp = some a') :
    a'.rows ≠ [] ∧ (∀ r ∈ a'.rows, (r.2.length : Int) = a'.length) ∧
      Spec.Fmt.distinct (a'.rows.map (·.1)) = true ∧ (f.rejectsEmptyRows = true → 1 ≤ a'.length) := by
  obtain ⟨hg, hn⟩ := foldlM_good f d d.rows _ v ⟨inv_empty _, fun _ hh => absurd rfl hh⟩ (Or.inl hrows) hfold
  obtain ⟨hr, hl⟩ := finish_rows _ _ a' hfin
  rw [hr, hl]
  refine ⟨replaceMatchChars_ne _ hn, replaceMatchChars_lengths _ _ hg.1.2.1, ?_, fun hf => hg.2 hf hn⟩
  simp only []
  rw [replaceMatchChars_names]
  exact hg.1.2.2

/-- the final stage: non-empty, rectangular, pairwise distinct names; at least one column once empty rows
are rejected -/
theorem build_ok (f : Facts) (o : POpts) (top : Top) (a : Aln) (h : build f o top = .ok a) :
    a.rows ≠ [] ∧ (∀ r ∈ a.rows, (r.2.length : Int) = a.length) ∧
      Spec.Fmt.distinct (a.rows.map (·.1)) = true ∧ (f.rejectsEmptyRows = true → 1 ≤ a.length) := by
  unfold build at h
  simp only [bind, Except.bind, pure, Except.pure] at h
  repeat' (split at h <;> try (simp at h))
  all_goals (
    rename_i a' hfin
    subst h
    exact tail_ok f _ _ _ _ a' (by assumption) (by assumption) hfin)

theorem parse_ok (f : Facts) (o : POpts) (bs : Seq) (a : Aln) (h : Nexus.parse f o bs = .ok a) :
    ∃ top, build f o top = .ok a := by
  unfold Nexus.parse at h
  cases hp : parseR f o bs with
  | error e => rw [hp] at h; cases e <;> simp [toOutcome] at h
  | ok a' =>
    rw [hp] at h
    simp [toOutcome] at h; subst h
    unfold parseR at hp
    simp only [bind, Except.bind, pure, Except.pure] at hp
    repeat' (split at hp <;> try (simp at hp))
    exact ⟨_, hp⟩

/-! ### the Nexus parser never panics and never exits (no such path exists in the model; proved, not assumed) -/

section Kinds
open Gv.Model.Fmt.Phylip (Stop R)

/-- `Soft r`: `r` is a success, an explicit error or a `hang` — not `panic`, not `exit` -/
def Soft {α} (r : R α) : Prop := r ≠ .error .panic ∧ r ≠ .error .exit

theorem consumeComment_soft (f : Facts) : ∀ (fuel : Nat) (inp : Seq) (e : Bool), Soft (consumeComment f fuel inp e) := by
  intro fuel
  induction fuel with
  | zero => intro inp e; simp [consumeComment, Soft]
  | succ k ih =>
    intro inp e
    unfold consumeComment
    simp only
    repeat' split
    all_goals (first | exact ih _ _ | simp [Soft, pure, Except.pure])

theorem skipCommand_soft : ∀ (fuel : Nat) (inp : Seq), Soft (skipCommand fuel inp) := by
  intro fuel
  induction fuel with
  | zero => intro inp; simp [skipCommand, Soft]
  | succ k ih =>
    intro inp
    unfold skipCommand
    simp only
    repeat' split
    all_goals (first | exact ih _ | simp [Soft, pure, Except.pure])

theorem skipKey_soft (inp : Seq) : Soft (skipKey inp) := by
  unfold skipKey
  simp only
  repeat' split
  all_goals simp [Soft, pure, Except.pure]

theorem skipBlock_soft : ∀ (fuel : Nat) (inp : Seq), Soft (skipBlock fuel inp) := by
  intro fuel
  induction fuel with
  | zero => intro inp; simp [skipBlock, Soft]
  | succ k ih =>
    intro inp
    unfold skipBlock
    simp only
    repeat' split
    all_goals (first | exact ih _ | simp [Soft, pure, Except.pure])

theorem bind_soft {α β} (x : R α) (g : α → R β) (hx : Soft x) (hg : ∀ a, Soft (g a)) : Soft (x >>= g) := by
  cases x with
  | ok a => exact hg a
  | error e =>
    simp only [bind, Except.bind]
    obtain ⟨h1, h2⟩ := hx
    exact ⟨by intro h; cases h; exact h1 rfl, by intro h; cases h; exact h2 rfl⟩

theorem dimensions_soft (f : Facts) (w : Bool) : ∀ (fuel : Nat) (inp : Seq) (a b : Int), Soft (dimensions f w fuel inp a b) := by
  intro fuel
  induction fuel with
  | zero => intro inp a b; simp [dimensions, Soft]
  | succ k ih =>
    intro inp a b
    unfold dimensions
    simp only
    repeat' split
    all_goals (first
      | exact ih _ _ _
      | exact bind_soft _ _ (skipKey_soft _) (fun _ => ih _ _ _)
      | simp [Soft, pure, Except.pure])

theorem taxlabelsLoop_soft : ∀ (fuel : Nat) (inp : Seq) (acc : List Name), Soft (taxlabelsLoop fuel inp acc) := by
  intro fuel
  induction fuel with
  | zero => intro inp acc; simp [taxlabelsLoop, Soft]
  | succ k ih =>
    intro inp acc
    unfold taxlabelsLoop
    simp only
    repeat' split
    all_goals (first | exact ih _ _ | simp [Soft, pure, Except.pure])

theorem parseTaxa_soft (f : Facts) : ∀ (fuel : Nat) (inp : Seq) (n : Int) (ls : List Name), Soft (parseTaxa f fuel inp n ls) := by
  intro fuel
  induction fuel with
  | zero => intro inp n ls; simp [parseTaxa, Soft]
  | succ k ih =>
    intro inp n ls
    unfold parseTaxa
    simp only
    repeat' split
    all_goals (first
      | exact ih _ _ _
      | exact bind_soft _ _ (dimensions_soft f false _ _ _ _) (fun _ => ih _ _ _)
      | exact bind_soft _ _ (taxlabelsLoop_soft _ _ _) (fun _ => ih _ _ _)
      | exact bind_soft _ _ (consumeComment_soft f _ _ _) (fun _ => ih _ _ _)
      | exact bind_soft _ _ (skipCommand_soft _ _) (fun _ => ih _ _ _)
      | simp [Soft, pure, Except.pure])

theorem formatChar_soft (inp : Seq) : Soft (formatChar inp) := by
  unfold formatChar
  simp only
  repeat' split
  all_goals simp [Soft, pure, Except.pure]

theorem formatLoop_soft : ∀ (fuel : Nat) (inp : Seq) (d : Data), Soft (formatLoop fuel inp d) := by
  intro fuel
  induction fuel with
  | zero => intro inp d; simp [formatLoop, Soft]
  | succ k ih =>
    intro inp d
    unfold formatLoop
    simp only
    repeat' split
    all_goals (first
      | exact ih _ _
      | exact bind_soft _ _ (formatChar_soft _) (fun _ => ih _ _)
      | exact bind_soft _ _ (skipKey_soft _) (fun _ => ih _ _)
      | simp [Soft, pure, Except.pure])

theorem rowLoop_soft (f : Facts) : ∀ (fuel : Nat) (inp acc : Seq), Soft (rowLoop f fuel inp acc) := by
  intro fuel
  induction fuel with
  | zero => intro inp acc; simp [rowLoop, Soft]
  | succ k ih =>
    intro inp acc
    unfold rowLoop
    simp only
    repeat' split
    all_goals (first | exact ih _ _ | simp [Soft, pure, Except.pure])

theorem matrixLoop_soft (f : Facts) : ∀ (fuel : Nat) (inp : Seq) (rows : List XRow), Soft (matrixLoop f fuel inp rows) := by
  intro fuel
  induction fuel with
  | zero => intro inp rows; simp [matrixLoop, Soft]
  | succ k ih =>
    intro inp rows
    unfold matrixLoop
    simp only
    repeat' split
    all_goals (first
      | exact ih _ _
      | exact bind_soft _ _ (consumeComment_soft f _ _ _) (fun _ => ih _ _)
      | exact bind_soft _ _ (rowLoop_soft f _ _ _) (fun _ => ih _ _)
      | simp [Soft, pure, Except.pure])

theorem parseData_soft (f : Facts) : ∀ (fuel : Nat) (inp : Seq) (d : Data), Soft (parseData f fuel inp d) := by
  intro fuel
  induction fuel with
  | zero => intro inp d; simp [parseData, Soft]
  | succ k ih =>
    intro inp d
    unfold parseData
    simp only
    repeat' split
    all_goals (first
      | exact ih _ _
      | exact bind_soft _ _ (dimensions_soft f true _ _ _ _) (fun _ => ih _ _)
      | exact bind_soft _ _ (formatLoop_soft _ _ _) (fun _ => ih _ _)
      | exact bind_soft _ _ (matrixLoop_soft f _ _ _) (fun _ => ih _ _)
      | exact bind_soft _ _ (consumeComment_soft f _ _ _) (fun _ => ih _ _)
      | exact bind_soft _ _ (skipCommand_soft _ _) (fun _ => ih _ _)
      | simp [Soft, pure, Except.pure])

theorem topStep_soft (f : Facts) (k : Seq → Top → R Top) (hk : ∀ r top, Soft (k r top)) (top : Top) (t : Tok)
    (r : Seq) : Soft (topStep f k top t r) := by
  unfold topStep
  simp only
  repeat' split
  all_goals first
    | exact hk _ _
    | exact bind_soft _ _ (parseTaxa_soft f _ _ _ _) (fun _ => hk _ _)
    | exact bind_soft _ _ (parseData_soft f _ _ _) (fun _ => hk _ _)
    | exact bind_soft _ _ (skipBlock_soft _ _) (fun _ => hk _ _)
    | simp [Soft, pure, Except.pure]

theorem topLoop_soft (f : Facts) : ∀ (fuel : Nat) (inp : Seq) (top : Top), Soft (topLoop f fuel inp top) := by
  intro fuel
  induction fuel with
  | zero => intro inp top; simp [topLoop, Soft]
  | succ k ih =>
    intro inp top
    unfold topLoop
    simp only
    repeat' split
    all_goals first
      | exact ih _ _
      | exact topStep_soft f _ (fun r t => ih r t) _ _ _
      | exact bind_soft _ _ (consumeComment_soft f _ _ _) (fun _ => topStep_soft f _ (fun r t => ih r t) _ _ _)
      | simp [Soft, pure, Except.pure]

theorem addRow_soft (f : Facts) (d : Data) (b : Bag) (r : XRow) : Soft (addRow f d b r) := by
  unfold addRow
  repeat' split
  all_goals simp [Soft, pure, Except.pure]

theorem foldlM_soft (f : Facts) (d : Data) : ∀ (rows : List XRow) (b : Bag), Soft (rows.foldlM (addRow f d) b)
  | [], b => by simp [Soft, pure, Except.pure]
  | r :: rs, b => by
    simp only [List.foldlM_cons]
    exact bind_soft _ _ (addRow_soft f d b r) (fun b' => foldlM_soft f d rs b')

theorem build_soft (f : Facts) (o : POpts) (top : Top) : Soft (build f o top) := by
  constructor
  all_goals (
    intro h
    unfold build at h
    simp only [bind, Except.bind, pure, Except.pure] at h
    have h1 := fun d rows b => (foldlM_soft f d rows b)
    simp only [Soft] at h1
    repeat' (split at h <;> try (simp at h))
    all_goals simp_all)

/-- the Nexus parser (every combination of the repairs) never panics and never exits -/
theorem parse_soft (f : Facts) (o : POpts) (bs : Seq) : Nexus.parse f o bs ≠ .panic ∧ Nexus.parse f o bs ≠ .exit := by
  have key : Soft (parseR f o bs) := by
    constructor
    all_goals (
      intro h
      unfold parseR at h
      simp only [bind, Except.bind, pure, Except.pure] at h
      have h1 := fun a b c => (topLoop_soft f a b c)
      have h2 := fun a b => (build_soft f a b)
      simp only [Soft] at h1 h2
      repeat' (split at h <;> try (simp at h))
      all_goals simp_all)
  unfold Nexus.parse
  cases hp : parseR f o bs with
  | ok a => simp [toOutcome]
  | error e =>
    rw [hp] at key
    cases e <;> simp [toOutcome, Soft] at key ⊢

end Kinds

end Gv.Proofs.NexusOutcome
