import Gv.Model.Fmt.Nexus
/-!
Nexus parser: once `consumeComment` stops at EOF, the fuel of every loop of the model is sufficient —
the parser never reports `hang` (helper development for `Props/C03.lean`).

`Prog n proj x`: the computation `x` does not hang, and on success the remaining input (`proj` of the
result) is no longer than `n`.
-/
namespace Gv.Proofs.NexusNoHang
open Gv Gv.Model Gv.Model.Fmt Gv.Model.Fmt.Nexus
open Gv.Model.Fmt.Phylip (Stop R)

theorem length_dropWhile_le {α} (p : α → Bool) : ∀ l : List α, (l.dropWhile p).length ≤ l.length
  | [] => by simp
  | x :: xs => by
    simp only [List.dropWhile]
    split
    · exact Nat.le_succ_of_le (length_dropWhile_le p xs)
    · simp

theorem afterRun_le (l : Seq) : (Phylip.afterRun l).length ≤ l.length := by
  unfold Phylip.afterRun; split
  · split <;> simp
  · simp

theorem identFrom_le (c : Byte) (cs : Seq) : (identFrom c cs).2.length ≤ cs.length := by
  unfold identFrom
  exact Nat.le_trans (afterRun_le _) (length_dropWhile_le _ _)

theorem scan_shorter (c : Byte) (cs : Seq) : (scan (c :: cs)).2.length < (c :: cs).length := by
  have h1 := Nat.le_trans (afterRun_le (cs.dropWhile isWS)) (length_dropWhile_le isWS cs)
  have h2 := identFrom_le c cs
  unfold scan
  simp only [List.length_cons]
  by_cases c1 : isWS c = true
  · simp only [c1, if_true]; omega
  · by_cases c2 : (c == NL) = true
    · simp only [c1, c2, if_true, Bool.false_eq_true, if_false]; omega
    · by_cases c3 : (c == CR) = true
      · simp only [c1, c2, c3, if_true, Bool.false_eq_true, if_false]
        cases cs with
        | nil => simp
        | cons x r =>
          have := identFrom_le x r
          split
          · rename_i r' he
            simp only [List.cons.injEq] at he
            rw [← he.2]
            simp only [List.length_cons]; omega
          · rename_i x' r' _ he
            simp only [List.cons.injEq] at he
            rw [← he.1, ← he.2]
            simp only [List.length_cons]; omega
          · simp
      · simp only [c1, c2, c3, Bool.false_eq_true, if_false]
        repeat' split
        all_goals first | omega | (simp only []; omega)

theorem scan_le (inp : Seq) : (scan inp).2.length ≤ inp.length := by
  cases inp with
  | nil => simp [scan]
  | cons c cs => exact Nat.le_of_lt (scan_shorter c cs)

theorem scan_nil : scan [] = (⟨.eof, []⟩, []) := rfl

theorem sIW_nil : sIW [] = (⟨.eof, []⟩, []) := by simp [sIW, scan_nil]

/-- `scanIgnoreWhitespace` on a non-empty input consumes at least one byte -/
theorem sIW_shorter (c : Byte) (cs : Seq) : (sIW (c :: cs)).2.length < (c :: cs).length := by
  unfold sIW
  simp only
  have h1 := scan_shorter c cs
  split
  · have h2 := scan_le (scan (c :: cs)).2
    omega
  · exact h1

theorem sIW_le (inp : Seq) : (sIW inp).2.length ≤ inp.length := by
  cases inp with
  | nil => simp [sIW_nil]
  | cons c cs => exact Nat.le_of_lt (sIW_shorter c cs)

/-- no hang; on success the rest is at most `n` long -/
def Prog {α} (n : Nat) (proj : α → Seq) : R α → Prop
  | .ok a => (proj a).length ≤ n
  | .error st => st ≠ .hang

theorem prog_bind {α β} {n : Nat} {p : α → Seq} {q : β → Seq} (x : R α) (g : α → R β)
    (hx : Prog n p x) (hg : ∀ a, (p a).length ≤ n → Prog n q (g a)) : Prog n q (x >>= g) := by
  cases x with
  | ok a => exact hg a hx
  | error e => exact hx

theorem prog_mono {α} {n m : Nat} {p : α → Seq} (x : R α) (h : Prog n p x) (hnm : n ≤ m) : Prog m p x := by
  cases x with
  | ok a => exact Nat.le_trans h hnm
  | error e => exact h

/-- bind where the first computation is known to leave at most `m ≤ n` bytes -/
theorem prog_bind_step {α β} {p : α → Seq} {q : β → Seq} (n m : Nat) (x : R α) (g : α → R β)
    (hx : Prog m p x) (hg : ∀ a, (p a).length ≤ m → Prog n q (g a)) : Prog n q (x >>= g) := by
  cases x with
  | ok a => exact hg a hx
  | error e => exact hx

theorem prog_error {α} {n : Nat} {p : α → Seq} : Prog n p (.error .error : R α) := by simp [Prog]
theorem prog_pure {α} {n : Nat} {p : α → Seq} (a : α) (h : (p a).length ≤ n) : Prog n p (pure a : R α) := h

/-- recursion step shared by all loops: continue on a strictly shorter rest -/
theorem step {α} {p : α → Seq} (k : Nat) (loop : Seq → R α) (inp r : Seq) (h : inp.length < k + 1)
    (hr : r.length < inp.length) (ih : ∀ i : Seq, i.length < k → Prog i.length p (loop i)) :
    Prog inp.length p (loop r) :=
  prog_mono _ (ih r (by omega)) (by omega)

theorem consumeComment_prog (f : Facts) (hf : f.commentStopsAtEof = true) :
    ∀ (fuel : Nat) (inp : Seq) (e : Bool), inp.length < fuel → Prog inp.length id (consumeComment f fuel inp e) := by
  intro fuel
  induction fuel with
  | zero => intro inp e h; omega
  | succ k ih =>
    intro inp e h
    cases inp with
    | nil => simp [consumeComment, sIW_nil, hf, Prog]
    | cons c cs =>
      have hs := sIW_shorter c cs
      unfold consumeComment
      simp only [hf, if_true]
      repeat' split
      all_goals first
        | exact prog_error
        | exact prog_pure _ (by simp only [id]; omega)
        | exact prog_mono _ (ih _ _ (by omega)) (by omega)

theorem skipCommand_prog : ∀ (fuel : Nat) (inp : Seq), inp.length < fuel → Prog inp.length id (skipCommand fuel inp) := by
  intro fuel
  induction fuel with
  | zero => intro inp h; omega
  | succ k ih =>
    intro inp h
    cases inp with
    | nil => simp [skipCommand, sIW_nil, Prog]
    | cons c cs =>
      have hs := sIW_shorter c cs
      unfold skipCommand
      simp only
      repeat' split
      all_goals first
        | exact prog_error
        | exact prog_pure _ (by simp only [id]; omega)
        | exact prog_mono _ (ih _ (by omega)) (by omega)

theorem skipKey_prog (inp : Seq) : Prog inp.length id (skipKey inp) := by
  have h1 := sIW_le inp
  have h2 := sIW_le (sIW inp).2
  unfold skipKey
  simp only
  repeat' split
  all_goals first
    | exact prog_error
    | exact prog_pure _ (by simp only [id]; omega)

theorem skipBlock_prog : ∀ (fuel : Nat) (inp : Seq), inp.length < fuel → Prog inp.length id (skipBlock fuel inp) := by
  intro fuel
  induction fuel with
  | zero => intro inp h; omega
  | succ k ih =>
    intro inp h
    cases inp with
    | nil => simp [skipBlock, sIW_nil, Prog]
    | cons c cs =>
      have hs := sIW_shorter c cs
      have h2 := sIW_le (sIW (c :: cs)).2
      unfold skipBlock
      simp only
      repeat' split
      all_goals first
        | exact prog_error
        | exact prog_pure _ (by simp only [id]; omega)
        | exact prog_mono _ (ih _ (by omega)) (by omega)

theorem dimValue_le (f : Facts) (inp : Seq) (v : Int) (st er : Bool) (r : Seq)
    (h : dimValue f inp = (v, st, er, r)) : r.length ≤ inp.length := by
  have h1 := sIW_le inp
  have h2 := sIW_le (sIW inp).2
  unfold dimValue at h
  simp only at h
  repeat' (split at h)
  all_goals (simp only [Prod.mk.injEq] at h; obtain ⟨_, _, _, rfl⟩ := h; omega)

theorem dimensions_prog (f : Facts) (w : Bool) : ∀ (fuel : Nat) (inp : Seq) (a b : Int), inp.length < fuel →
    Prog inp.length (fun r => r.2.2) (dimensions f w fuel inp a b) := by
  intro fuel
  induction fuel with
  | zero => intro inp a b h; omega
  | succ k ih =>
    intro inp a b h
    cases inp with
    | nil => simp [dimensions, sIW_nil, skipKey, Prog, bind, Except.bind]
    | cons c cs =>
      have hs := sIW_shorter c cs
      rcases hdv : dimValue f (sIW (c :: cs)).2 with ⟨v, st, er, r⟩
      have hd := dimValue_le f _ v st er r hdv
      unfold dimensions
      simp only [hdv]
      repeat' split
      all_goals first
        | exact prog_error
        | exact prog_pure _ (by simp only []; omega)
        | exact prog_mono _ (ih _ _ _ (by omega)) (by omega)
        | (apply prog_bind_step (p := id) _ _ _ _ (skipKey_prog _)
           intro r' hr'
           simp only [id] at hr'
           exact prog_mono _ (ih _ _ _ (by omega)) (by omega))

theorem taxlabelsLoop_prog : ∀ (fuel : Nat) (inp : Seq) (acc : List Name), inp.length < fuel →
    Prog inp.length (fun r => r.2) (taxlabelsLoop fuel inp acc) := by
  intro fuel
  induction fuel with
  | zero => intro inp acc h; omega
  | succ k ih =>
    intro inp acc h
    cases inp with
    | nil => simp [taxlabelsLoop, sIW_nil, Prog]
    | cons c cs =>
      have hs := sIW_shorter c cs
      unfold taxlabelsLoop
      simp only
      repeat' split
      all_goals first
        | exact prog_error
        | exact prog_pure _ (by simp only []; omega)
        | exact prog_mono _ (ih _ _ (by omega)) (by omega)

theorem formatChar_prog (inp : Seq) : Prog inp.length (fun r => r.2) (formatChar inp) := by
  have h1 := sIW_le inp
  have h2 := sIW_le (sIW inp).2
  unfold formatChar
  simp only
  repeat' split
  all_goals first
    | exact prog_error
    | exact prog_pure _ (by simp only []; omega)

theorem formatLoop_prog : ∀ (fuel : Nat) (inp : Seq) (d : Data), inp.length < fuel →
    Prog inp.length (fun r => r.2) (formatLoop fuel inp d) := by
  intro fuel
  induction fuel with
  | zero => intro inp d h; omega
  | succ k ih =>
    intro inp d h
    cases inp with
    | nil => simp [formatLoop, sIW_nil, skipKey, Prog, bind, Except.bind]
    | cons c cs =>
      have hs := sIW_shorter c cs
      have h2 := sIW_le (sIW (c :: cs)).2
      have h3 := sIW_le (sIW (sIW (c :: cs)).2).2
      unfold formatLoop
      simp only
      repeat' split
      all_goals first
        | exact prog_error
        | exact prog_pure _ (by simp only []; omega)
        | exact prog_mono _ (ih _ _ (by omega)) (by omega)
        | (apply prog_bind_step (p := fun r => r.2) _ _ _ _ (formatChar_prog _)
           intro r' hr'
           exact prog_mono _ (ih _ _ (by omega)) (by omega))
        | (apply prog_bind_step (p := id) _ _ _ _ (skipKey_prog _)
           intro r' hr'
           simp only [id] at hr'
           exact prog_mono _ (ih _ _ (by omega)) (by omega))

theorem rowLoop_prog (f : Facts) : ∀ (fuel : Nat) (inp acc : Seq), inp.length < fuel →
    Prog inp.length (fun r => r.2) (rowLoop f fuel inp acc) := by
  intro fuel
  induction fuel with
  | zero => intro inp acc h; omega
  | succ k ih =>
    intro inp acc h
    cases inp with
    | nil => simp [rowLoop, sIW_nil, Prog, isKeyword]
    | cons c cs =>
      have hs := sIW_shorter c cs
      unfold rowLoop
      simp only
      repeat' split
      all_goals first
        | exact prog_error
        | exact prog_pure _ (by simp only []; omega)
        | exact prog_mono _ (ih _ _ (by omega)) (by omega)

theorem matrixLoop_prog (f : Facts) (hf : f.commentStopsAtEof = true) : ∀ (fuel : Nat) (inp : Seq) (rows : List XRow),
    inp.length < fuel → Prog inp.length (fun r => r.2) (matrixLoop f fuel inp rows) := by
  intro fuel
  induction fuel with
  | zero => intro inp rows h; omega
  | succ k ih =>
    intro inp rows h
    cases inp with
    | nil => simp [matrixLoop, sIW_nil, Prog]
    | cons c cs =>
      have hs := sIW_shorter c cs
      unfold matrixLoop
      simp only
      repeat' split
      all_goals first
        | exact prog_error
        | exact prog_pure _ (by simp only []; omega)
        | exact prog_mono _ (ih _ _ (by omega)) (by omega)
        | (apply prog_bind_step (p := id) _ _ _ _ (consumeComment_prog f hf _ _ _ (by omega))
           intro r' hr'
           simp only [id] at hr'
           exact prog_mono _ (ih _ _ (by omega)) (by omega))
        | (apply prog_bind_step (p := fun r => r.2) _ _ _ _ (rowLoop_prog f _ _ _ (by omega))
           intro r' hr'
           exact prog_mono _ (ih _ _ (by omega)) (by omega))

theorem parseTaxa_prog (f : Facts) (hf : f.commentStopsAtEof = true) : ∀ (fuel : Nat) (inp : Seq) (n : Int) (ls : List Name),
    inp.length < fuel → Prog inp.length (fun r => r.2.2) (parseTaxa f fuel inp n ls) := by
  intro fuel
  induction fuel with
  | zero => intro inp n ls h; omega
  | succ k ih =>
    intro inp n ls h
    cases inp with
    | nil => simp [parseTaxa, sIW_nil, Prog]
    | cons c cs =>
      have hs := sIW_shorter c cs
      have h2 := sIW_le (sIW (c :: cs)).2
      unfold parseTaxa
      simp only
      split
      · exact prog_mono _ (ih _ _ _ (by omega)) (by omega)
      · exact prog_error
      · split
        · exact prog_error
        · exact prog_pure _ (by simp only []; omega)
      · apply prog_bind_step (p := fun r => r.2.2) _ _ _ _ (dimensions_prog f false _ _ _ _ (by omega))
        intro ⟨a, b, r'⟩ hr'
        simp only [] at hr'
        exact prog_mono _ (ih _ _ _ (by simp only []; omega)) (by simp only []; omega)
      · apply prog_bind_step (p := fun r => r.2) _ _ _ _ (taxlabelsLoop_prog _ _ _ (by omega))
        intro ⟨a, r'⟩ hr'
        simp only [] at hr'
        exact prog_mono _ (ih _ _ _ (by simp only []; omega)) (by simp only []; omega)
      · apply prog_bind_step (p := id) _ _ _ _ (consumeComment_prog f hf _ _ _ (by omega))
        intro r' hr'
        simp only [id] at hr'
        exact prog_mono _ (ih _ _ _ (by omega)) (by omega)
      · split
        · exact prog_error
        · apply prog_bind_step (p := id) _ _ _ _ (skipCommand_prog _ _ (by omega))
          intro r' hr'
          simp only [id] at hr'
          exact prog_mono _ (ih _ _ _ (by omega)) (by omega)
      · split
        · exact prog_mono _ (ih _ _ _ (by omega)) (by omega)
        · apply prog_bind_step (p := id) _ _ _ _ (skipCommand_prog _ _ (by omega))
          intro r' hr'
          simp only [id] at hr'
          exact prog_mono _ (ih _ _ _ (by omega)) (by omega)
      · apply prog_bind_step (p := id) _ _ _ _ (skipCommand_prog _ _ (by omega))
        intro r' hr'
        simp only [id] at hr'
        exact prog_mono _ (ih _ _ _ (by omega)) (by omega)

theorem parseData_prog (f : Facts) (hf : f.commentStopsAtEof = true) : ∀ (fuel : Nat) (inp : Seq) (d : Data),
    inp.length < fuel → Prog inp.length (fun r => r.2) (parseData f fuel inp d) := by
  intro fuel
  induction fuel with
  | zero => intro inp d h; omega
  | succ k ih =>
    intro inp d h
    cases inp with
    | nil => simp [parseData, sIW_nil, Prog]
    | cons c cs =>
      have hs := sIW_shorter c cs
      have h2 := sIW_le (sIW (c :: cs)).2
      unfold parseData
      simp only
      split
      · exact prog_mono _ (ih _ _ (by omega)) (by omega)
      · exact prog_error
      · split
        · exact prog_error
        · exact prog_pure _ (by simp only []; omega)
      · apply prog_bind_step (p := fun r => r.2.2) _ _ _ _ (dimensions_prog f true _ _ _ _ (by omega))
        intro ⟨a, b, r'⟩ hr'
        simp only [] at hr'
        exact prog_mono _ (ih _ _ (by simp only []; omega)) (by simp only []; omega)
      · apply prog_bind_step (p := fun r => r.2) _ _ _ _ (formatLoop_prog _ _ _ (by omega))
        intro ⟨a, r'⟩ hr'
        simp only [] at hr'
        exact prog_mono _ (ih _ _ (by simp only []; omega)) (by simp only []; omega)
      · apply prog_bind_step (p := fun r => r.2) _ _ _ _ (matrixLoop_prog f hf _ _ _ (by omega))
        intro ⟨a, r'⟩ hr'
        simp only [] at hr'
        exact prog_mono _ (ih _ _ (by simp only []; omega)) (by simp only []; omega)
      · apply prog_bind_step (p := id) _ _ _ _ (consumeComment_prog f hf _ _ _ (by omega))
        intro r' hr'
        simp only [id] at hr'
        exact prog_mono _ (ih _ _ (by omega)) (by omega)
      · split
        · exact prog_error
        · apply prog_bind_step (p := id) _ _ _ _ (skipCommand_prog _ _ (by omega))
          intro r' hr'
          simp only [id] at hr'
          exact prog_mono _ (ih _ _ (by omega)) (by omega)
      · split
        · exact prog_mono _ (ih _ _ (by omega)) (by omega)
        · apply prog_bind_step (p := id) _ _ _ _ (skipCommand_prog _ _ (by omega))
          intro r' hr'
          simp only [id] at hr'
          exact prog_mono _ (ih _ _ (by omega)) (by omega)
      · apply prog_bind_step (p := id) _ _ _ _ (skipCommand_prog _ _ (by omega))
        intro r' hr'
        simp only [id] at hr'
        exact prog_mono _ (ih _ _ (by omega)) (by omega)

/-- the top-level loop does not hang (`NoHang` = `Prog` with a trivial projection) -/
def NoHang {α} (x : R α) : Prop := Prog 0 (fun _ => ([] : Seq)) x

theorem noHang_of_prog {α} {n : Nat} {p : α → Seq} (x : R α) (h : Prog n p x) : NoHang x := by
  cases x with
  | ok a => simp [NoHang, Prog]
  | error e => exact h

theorem noHang_bind {α β} {n : Nat} {p : α → Seq} (x : R α) (g : α → R β) (hx : Prog n p x)
    (hg : ∀ a, (p a).length ≤ n → NoHang (g a)) : NoHang (x >>= g) := by
  cases x with
  | ok a => exact hg a hx
  | error e => exact hx

theorem topStep_nohang (f : Facts) (hf : f.commentStopsAtEof = true) (n : Nat) (k : Seq → Top → R Top)
    (hk : ∀ (r : Seq) (top : Top), r.length < n → NoHang (k r top)) (top : Top) (t : Tok) (r : Seq)
    (hr : r.length < n) : NoHang (topStep f k top t r) := by
  have h2 := sIW_le r
  have h3 := sIW_le (sIW r).2
  unfold topStep
  simp only
  split
  · split
    · simp [NoHang, Prog]
    · split
      · apply noHang_bind (p := fun r => r.2.2) _ _ (parseTaxa_prog f hf _ _ _ _ (by omega))
        intro ⟨a1, a2, a3⟩ ha
        simp only [] at ha
        exact hk _ _ (by simp only []; omega)
      · split
        · simp [NoHang, Prog]
        · apply noHang_bind (p := fun r => r.2) _ _ (parseData_prog f hf _ _ _ (by omega))
          intro ⟨a1, a2⟩ ha
          simp only [] at ha
          exact hk _ _ (by simp only []; omega)
      · apply noHang_bind (p := id) _ _ (skipBlock_prog _ _ (by omega))
        intro a ha
        simp only [id] at ha
        exact hk _ _ (by omega)
  · exact hk _ _ hr

theorem topLoop_nohang (f : Facts) (hf : f.commentStopsAtEof = true) : ∀ (fuel : Nat) (inp : Seq) (top : Top),
    inp.length < fuel → NoHang (topLoop f fuel inp top) := by
  intro fuel
  induction fuel with
  | zero => intro inp top h; omega
  | succ k ih =>
    intro inp top h
    cases inp with
    | nil => simp [topLoop, sIW_nil, NoHang, Prog, pure, Except.pure]
    | cons c cs =>
      have hs := sIW_shorter c cs
      have hk : ∀ (r : Seq) (top : Top), r.length < (c :: cs).length → NoHang (topLoop f k r top) :=
        fun r top hr => ih r top (by omega)
      unfold topLoop
      simp only
      split
      · simp [NoHang, Prog, pure, Except.pure]
      · split
        · exact ih _ _ (by omega)
        · split
          · apply noHang_bind (p := id) _ _ (consumeComment_prog f hf _ _ _ (by omega))
            intro r' hr'
            simp only [id] at hr'
            have h4 := sIW_le r'
            exact topStep_nohang f hf _ _ hk _ _ _ (by omega)
          · exact topStep_nohang f hf _ _ hk _ _ _ hs

theorem addRow_nohang (f : Facts) (d : Data) (b : Bag) (r : XRow) : NoHang (addRow f d b r) := by
  unfold addRow
  repeat' split
  all_goals simp [NoHang, Prog, pure, Except.pure]

theorem foldlM_nohang (f : Facts) (d : Data) : ∀ (rows : List XRow) (b : Bag), NoHang (rows.foldlM (addRow f d) b)
  | [], b => by simp [NoHang, Prog, pure, Except.pure]
  | r :: rs, b => by
    simp only [List.foldlM_cons]
    cases h : addRow f d b r with
    | ok b' => simp only [bind, Except.bind]; exact foldlM_nohang f d rs b'
    | error e =>
      have := addRow_nohang f d b r
      rw [h] at this
      simpa [bind, Except.bind, NoHang, Prog] using this

theorem build_nohang (f : Facts) (o : POpts) (top : Top) : build f o top ≠ .error .hang := by
  intro h
  unfold build at h
  simp only [bind, Except.bind, pure, Except.pure] at h
  have h1 : ∀ d rows b, List.foldlM (addRow f d) b rows ≠ .error .hang := by
    intro d rows b e
    have := foldlM_nohang f d rows b
    rw [e] at this
    simp [NoHang, Prog] at this
  repeat' (split at h <;> try (simp at h))
  all_goals simp_all

/-- **no hang**: once `consumeComment` stops at EOF the Nexus parser never reports `hang` -/
theorem parse_nohang (f : Facts) (hf : f.commentStopsAtEof = true) (o : POpts) (bs : Seq) :
    Nexus.parse f o bs ≠ .hang := by
  intro h
  unfold Nexus.parse at h
  cases hp : parseR f o bs with
  | ok a => rw [hp] at h; simp [toOutcome] at h
  | error e =>
    rw [hp] at h
    cases e <;> simp [toOutcome] at h
    unfold parseR at hp
    simp only [bind, Except.bind, pure, Except.pure] at hp
    have h1 : ∀ n inp top, inp.length < n → topLoop f n inp top ≠ .error .hang := by
      intro n inp top hlt e
      have := topLoop_nohang f hf n inp top hlt
      rw [e] at this
      simp [NoHang, Prog] at this
    have h2 := build_nohang f o
    have h3 := sIW_le bs
    repeat' (split at hp <;> try (simp at hp))
    all_goals (first | exact h2 _ hp | exact h1 _ _ _ (by omega) (by assumption) | simp_all)

end Gv.Proofs.NexusNoHang
