import Gv.Proofs.BagRefExt3
import Gv.Model.Sites
/-!
C01 / C04: the container-level `DiffWithFirst` / `ReplaceMatchChars` (`diffWithFirstBag`, `replaceMatchCharsBag` of
`Model/Bag.lean`: in-place rewrite through the row pointers, cached length, index panics) agree with the row-level models
`diffWithFirst` / `replaceMatchChars` of `Model/Sites.lean` (property C04) on every rectangular alignment.
-/
namespace Gv.Proofs.BagAbs
open Gv Gv.Model Gv.Proofs.BagInv

theorem mapIdx_id (o : Seq) : List.mapIdx (fun _ c => c) o = o :=
  List.ext_getElem (by simp) (by simp)

/-- one row of `DiffWithFirst`: the index loop of the container model = the zip of the C04 model (for rows of any two
lengths: what lies beyond the first row is kept) -/
theorem diffSeq_eq_zip (f o : Seq) :
    diffSeq f o = (f.zip o).map (fun p => if p.1 == p.2 then POINT else p.2) ++ o.drop f.length := by
  induction f generalizing o with
  | nil => simp [diffSeq, mapIdx_id]
  | cons x f ih =>
    cases o with
    | nil => simp [diffSeq]
    | cons c o =>
      have := ih o
      simp only [diffSeq] at this
      simpa [diffSeq, List.mapIdx_cons] using this

/-- one row of `ReplaceMatchChars` when the cached length is the first row's length -/
theorem matchSeq_eq_zip (f o : Seq) :
    matchSeq f.length f o =
      (f.zip o).map (fun p => if p.1 != POINT && p.2 == POINT then p.1 else p.2) ++ o.drop f.length := by
  induction f generalizing o with
  | nil => simp [matchSeq, mapIdx_id]
  | cons x f ih =>
    cases o with
    | nil => simp [matchSeq]
    | cons c o =>
      have := ih o
      simp only [matchSeq] at this
      simpa [matchSeq, List.mapIdx_cons] using this

/-- on plain rows (of any lengths) the container's loop is the C04 model of `DiffWithFirst` -/
theorem againstFirst_diffSeq (rows : List (String × Seq)) : againstFirst diffSeq rows = diffWithFirst rows := by
  match rows with
  | [] => rfl
  | [r] => rfl
  | f :: r :: rest => simp [againstFirst, diffWithFirst, diffSeq_eq_zip]

/-- … and of `ReplaceMatchChars` when the length used is the first row's -/
theorem againstFirst_matchSeq (L : Nat) (rows : List (String × Seq)) (hL : ∀ f ∈ rows.head?, f.2.length = L) :
    againstFirst (matchSeq L) rows = replaceMatchChars rows := by
  match rows, hL with
  | [], _ => rfl
  | [r], _ => rfl
  | f :: r :: rest, hL =>
    have e : L = f.2.length := (hL f (by simp)).symm
    subst e
    simp [againstFirst, replaceMatchChars, matchSeq_eq_zip]

theorem diffWithFirstBag_rect {b : Bag} (h : Rect b) (ha : b.isAlign = true) :
    diffWithFirstBag b = some { b with rows := withSeqs b.rows (againstFirst diffSeq (pairs b)) } := by
  have hlen := rect_pairs_len h ha
  have hnp : diffPanics (pairs b) = false := by
    cases hp : pairs b with
    | nil => rfl
    | cons r0 rest =>
      simp only [diffPanics, List.any_eq_false, decide_eq_true_eq, Nat.not_lt]
      intro r hr
      rw [hlen r (by rw [hp]; exact List.mem_cons_of_mem _ hr), hlen r0 (by rw [hp]; simp)]
      exact Nat.le_refl _
  unfold diffWithFirstBag; simp [hnp]

theorem replaceMatchCharsBag_rect {b : Bag} (h : Rect b) (ha : b.isAlign = true) :
    replaceMatchCharsBag b =
      some { b with rows := withSeqs b.rows (againstFirst (matchSeq b.length.toNat) (pairs b)) } := by
  have hnp := matchPanics_false b.length.toNat (pairs b) (rect_pairs_len h ha)
  unfold replaceMatchCharsBag; simp [hnp]

theorem pairs_againstFirst (g : Seq → Seq → Seq) (b : Bag) :
    pairs { b with rows := withSeqs b.rows (againstFirst g (pairs b)) } = againstFirst g (pairs b) :=
  pairs_withSeqs b.rows _ ((againstFirst_names g _).trans (pairs_names b))

end Gv.Proofs.BagAbs
