import Gv.NumRealD
import Gv.Spec.Published
/-!
Real-analysis helpers for property C07 (Mathlib): the "negative logarithm or its gamma form"
`nl`, its bounds, and the published estimators of `Spec/Published.lean` written as non-negative
combinations of `nl` — independent of the regenerated code.
-/
namespace Gv.Proofs.DistReal
open Gv Gv.Spec.Published

/-- `-ln x`, or with gamma-distributed rates of shape `a`: `a (x^(-1/a) - 1)` -/
noncomputable def nl (g : Bool) (a x : ℝ) : ℝ := if g then a * (x ^ (-1 / a) - 1) else -Real.log x

theorem nl_one (g : Bool) (a : ℝ) : nl g a 1 = 0 := by
  cases g <;> simp [nl]

theorem one_sub_le_nl (g : Bool) {a x : ℝ} (ha : 0 < a) (hx : 0 < x) : 1 - x ≤ nl g a x := by
  cases g
  · simp only [nl, Bool.false_eq_true, if_false]
    have := Real.log_le_sub_one_of_pos hx
    linarith
  · simp only [nl, if_true]
    have h1 : Real.log x ≤ x - 1 := Real.log_le_sub_one_of_pos hx
    have h2 : x ^ (-1 / a) = Real.exp (Real.log x * (-1 / a)) := Real.rpow_def_of_pos hx _
    have h3 : Real.log x * (-1 / a) + 1 ≤ Real.exp (Real.log x * (-1 / a)) := Real.add_one_le_exp _
    have h4 : (1 - x) / a ≤ Real.log x * (-1 / a) := by
      have : Real.log x * (-1 / a) = (- Real.log x) / a := by ring
      rw [this]
      exact div_le_div_of_nonneg_right (by linarith) ha.le
    have h5 : (1 - x) / a ≤ x ^ (-1 / a) - 1 := by rw [h2]; linarith
    have h6 : a * ((1 - x) / a) = 1 - x := by field_simp
    calc 1 - x = a * ((1 - x) / a) := h6.symm
      _ ≤ a * (x ^ (-1 / a) - 1) := mul_le_mul_of_nonneg_left h5 ha.le

theorem nl_nonneg (g : Bool) {a x : ℝ} (ha : 0 < a) (hx : 0 < x) (hx1 : x ≤ 1) : 0 ≤ nl g a x := by
  have := one_sub_le_nl g ha hx
  linarith

/-- the clamp `if dist > 0 { return dist } return 0` is the identity on non-negative values -/
theorem clamp_id {x : ℝ} (h : 0 ≤ x) : (if 0 < x then x else 0) = x := by
  split_ifs with h1
  · rfl
  · linarith

theorem clamp_congr {x y : ℝ} (h : x = y) (hy : 0 ≤ y) : (if 0 < x then x else 0) = y := by
  subst h; exact clamp_id hy

/-- the guard `if !(arg > 0) { return +Inf }` of the repaired source is not taken on the domain -/
theorem guard_elim {c : Prop} [Decidable c] {y : ℝ} (hc : ¬ c) : (if c then (1 : ℝ) / 0 else y) = y := if_neg hc

/-! ### the published estimators as combinations of `nl` -/

theorem neg_one_div (a : ℝ) : -(1 / a) = -1 / a := by ring

theorem jcS_eq_nl (g : Bool) (a p : ℝ) :
    (if g then jc69Gamma a p else jc69 p) = 3 / 4 * nl g a (1 - 4 / 3 * p) := by
  cases g <;> simp only [jc69, jc69Gamma, nl, Bool.false_eq_true, if_false, if_true] <;> real_like
  · ring
  · rw [neg_one_div]; ring

theorem k80S_eq_nl (g : Bool) (a P Q : ℝ) :
    (if g then k80Gamma a P Q else k80 P Q) = 1 / 2 * nl g a (1 - 2 * P - Q) + 1 / 4 * nl g a (1 - 2 * Q) := by
  cases g <;> simp only [k80, k80Gamma, nl, Bool.false_eq_true, if_false, if_true] <;> real_like
  · ring
  · rw [neg_one_div]; ring

theorem f81S_eq_nl (g : Bool) (a πA πC πG πT p : ℝ) :
    (if g then f81Gamma a πA πC πG πT p else f81 πA πC πG πT p)
      = tajimaNeiB πA πC πG πT * nl g a (1 - p / tajimaNeiB πA πC πG πT) := by
  cases g <;> simp only [f81, f81Gamma, nl, Bool.false_eq_true, if_false, if_true] <;> real_like
  · ring
  · rw [neg_one_div]; ring

theorem f84S_eq_nl (g : Bool) (a πA πC πG πT P Q : ℝ) :
    (if g then f84Gamma a πA πC πG πT P Q else f84 πA πC πG πT P Q)
      = 2 * f84A πA πC πG πT * nl g a (1 - P / (2 * f84A πA πC πG πT)
            - (f84A πA πC πG πT - f84B πA πC πG πT) * Q / (2 * f84A πA πC πG πT * f84C πA πC πG πT))
        + 2 * (f84B πA πC πG πT + f84C πA πC πG πT - f84A πA πC πG πT) * nl g a (1 - Q / (2 * f84C πA πC πG πT)) := by
  cases g <;> simp only [f84, f84Gamma, nl, Bool.false_eq_true, if_false, if_true] <;> real_like
  · ring
  · rw [neg_one_div]; ring

/-- coefficients of TN93 -/
noncomputable def tnK1 (πA πG : ℝ) : ℝ := 2 * πA * πG / (πA + πG)
noncomputable def tnK2 (πC πT : ℝ) : ℝ := 2 * πC * πT / (πC + πT)
noncomputable def tnK3 (πA πC πG πT : ℝ) : ℝ :=
  2 * ((πA + πG) * (πC + πT) - πA * πG * (πC + πT) / (πA + πG) - πC * πT * (πA + πG) / (πC + πT))

theorem tn93S_eq_nl (a πA πC πG πT P1 P2 Q : ℝ) :
    tn93 πA πC πG πT P1 P2 Q
      = tnK1 πA πG * nl false a (tn93E2 πA πC πG πT P1 Q) + tnK2 πC πT * nl false a (tn93E3 πA πC πG πT P2 Q)
        + tnK3 πA πC πG πT * nl false a (tn93E1 πA πC πG πT Q) := by
  simp only [tn93, nl, tnK1, tnK2, tnK3, Bool.false_eq_true, if_false]
  real_like
  ring

theorem tn93GammaS_eq_nl (a πA πC πG πT P1 P2 Q : ℝ) (hR : πA + πG ≠ 0) (hY : πC + πT ≠ 0)
    (hsum : πA + πC + πG + πT = 1) :
    tn93Gamma a πA πC πG πT P1 P2 Q
      = tnK1 πA πG * nl true a (tn93E2 πA πC πG πT P1 Q) + tnK2 πC πT * nl true a (tn93E3 πA πC πG πT P2 Q)
        + tnK3 πA πC πG πT * nl true a (tn93E1 πA πC πG πT Q) := by
  simp only [tn93Gamma, nl, tnK1, tnK2, tnK3, if_true]
  real_like
  rw [neg_one_div]
  generalize tn93E1 πA πC πG πT Q ^ (-1 / a) = X1
  generalize tn93E2 πA πC πG πT P1 Q ^ (-1 / a) = X2
  generalize tn93E3 πA πC πG πT P2 Q ^ (-1 / a) = X3
  have hT : πT = 1 - πA - πC - πG := by linarith
  subst hT
  have hY' : πC + (1 - πA - πC - πG) ≠ 0 := hY
  field_simp
  ring

/-! ### sign of the coefficients -/

theorem amgm_div {x y : ℝ} (hx : 0 < x) (hy : 0 < y) : x * y / (x + y) ≤ (x + y) / 4 := by
  rw [div_le_div_iff₀ (by positivity) (by norm_num)]
  nlinarith [sq_nonneg (x - y)]

theorem tnK3_nonneg {πA πC πG πT : ℝ} (hA : 0 < πA) (hC : 0 < πC) (hG : 0 < πG) (hT : 0 < πT) :
    0 ≤ tnK3 πA πC πG πT := by
  unfold tnK3
  have h1 := amgm_div hA hG
  have h2 := amgm_div hC hT
  have hR : 0 < πA + πG := by linarith
  have hY : 0 < πC + πT := by linarith
  have e1 : πA * πG * (πC + πT) / (πA + πG) = πA * πG / (πA + πG) * (πC + πT) := by ring
  have e2 : πC * πT * (πA + πG) / (πC + πT) = πC * πT / (πC + πT) * (πA + πG) := by ring
  rw [e1, e2]
  have := mul_le_mul_of_nonneg_right h1 hY.le
  have := mul_le_mul_of_nonneg_right h2 hR.le
  nlinarith [mul_pos hR hY]

/-- `B + C − A ≥ 0` for F84 when the frequencies sum to one -/
theorem f84_coeff_nonneg {πA πC πG πT : ℝ} (hA : 0 < πA) (hC : 0 < πC) (hG : 0 < πG) (hT : 0 < πT)
    (hsum : πA + πC + πG + πT = 1) :
    0 ≤ f84B πA πC πG πT + f84C πA πC πG πT - f84A πA πC πG πT := by
  have hk := tnK3_nonneg hA hC hG hT
  have hR : 0 < πA + πG := by linarith
  have hY : 0 < πC + πT := by linarith
  have key : f84B πA πC πG πT + f84C πA πC πG πT - f84A πA πC πG πT = tnK3 πA πC πG πT / 2 := by
    unfold f84A f84B f84C tnK3
    have hT' : πT = 1 - πA - πC - πG := by linarith
    subst hT'
    have hR' : πA + πG ≠ 0 := ne_of_gt hR
    have hY' : πC + (1 - πA - πC - πG) ≠ 0 := ne_of_gt hY
    field_simp
    ring
  rw [key]
  linarith

theorem f84A_pos {πA πC πG πT : ℝ} (hA : 0 < πA) (hC : 0 < πC) (hG : 0 < πG) (hT : 0 < πT) :
    0 < f84A πA πC πG πT := by
  unfold f84A; positivity

theorem f84C_pos {πA πC πG πT : ℝ} (hA : 0 < πA) (hC : 0 < πC) (hG : 0 < πG) (hT : 0 < πT) :
    0 < f84C πA πC πG πT := by
  unfold f84C; positivity

/-! ### lower bounds of the published estimators (hence non-negativity) -/

theorem jcS_ge (g : Bool) {a p : ℝ} (ha : 0 < a) (hp : p < 3 / 4) :
    p ≤ (if g then jc69Gamma a p else jc69 p) := by
  rw [jcS_eq_nl]
  have := one_sub_le_nl g ha (x := 1 - 4 / 3 * p) (by linarith)
  linarith

theorem k80S_ge (g : Bool) {a P Q : ℝ} (ha : 0 < a) (h1 : 0 < 1 - 2 * P - Q) (h2 : 0 < 1 - 2 * Q) :
    P + Q ≤ (if g then k80Gamma a P Q else k80 P Q) := by
  rw [k80S_eq_nl]
  have := one_sub_le_nl g ha h1
  have := one_sub_le_nl g ha h2
  linarith

theorem f81S_ge (g : Bool) {a πA πC πG πT p : ℝ} (ha : 0 < a) (hb : 0 < tajimaNeiB πA πC πG πT)
    (h1 : 0 < 1 - p / tajimaNeiB πA πC πG πT) :
    p ≤ (if g then f81Gamma a πA πC πG πT p else f81 πA πC πG πT p) := by
  rw [f81S_eq_nl]
  have h := one_sub_le_nl g ha h1
  have h' := mul_le_mul_of_nonneg_left h hb.le
  have e : tajimaNeiB πA πC πG πT * (1 - (1 - p / tajimaNeiB πA πC πG πT)) = p := by
    field_simp
    ring
  linarith

theorem f84S_ge (g : Bool) {a πA πC πG πT P Q : ℝ} (ha : 0 < a)
    (hA : 0 < πA) (hC : 0 < πC) (hG : 0 < πG) (hT : 0 < πT) (hsum : πA + πC + πG + πT = 1)
    (h1 : 0 < 1 - P / (2 * f84A πA πC πG πT)
            - (f84A πA πC πG πT - f84B πA πC πG πT) * Q / (2 * f84A πA πC πG πT * f84C πA πC πG πT))
    (h2 : 0 < 1 - Q / (2 * f84C πA πC πG πT)) :
    P + Q ≤ (if g then f84Gamma a πA πC πG πT P Q else f84 πA πC πG πT P Q) := by
  rw [f84S_eq_nl]
  have hApos := f84A_pos hA hC hG hT
  have hCpos := f84C_pos hA hC hG hT
  have hco := f84_coeff_nonneg hA hC hG hT hsum
  have n1 := mul_le_mul_of_nonneg_left (one_sub_le_nl g ha h1) (by positivity : 0 ≤ 2 * f84A πA πC πG πT)
  have n2 := mul_le_mul_of_nonneg_left (one_sub_le_nl g ha h2)
    (by linarith : 0 ≤ 2 * (f84B πA πC πG πT + f84C πA πC πG πT - f84A πA πC πG πT))
  have e : 2 * f84A πA πC πG πT * (1 - (1 - P / (2 * f84A πA πC πG πT)
            - (f84A πA πC πG πT - f84B πA πC πG πT) * Q / (2 * f84A πA πC πG πT * f84C πA πC πG πT)))
        + 2 * (f84B πA πC πG πT + f84C πA πC πG πT - f84A πA πC πG πT) * (1 - (1 - Q / (2 * f84C πA πC πG πT)))
        = P + Q := by
    generalize f84A πA πC πG πT = A at *
    generalize f84B πA πC πG πT = B at *
    generalize f84C πA πC πG πT = C at *
    field_simp
    ring
  linarith

theorem tn93_combo_ge (g : Bool) {a πA πC πG πT P1 P2 Q : ℝ} (ha : 0 < a)
    (hA : 0 < πA) (hC : 0 < πC) (hG : 0 < πG) (hT : 0 < πT)
    (h1 : 0 < tn93E1 πA πC πG πT Q) (h2 : 0 < tn93E2 πA πC πG πT P1 Q) (h3 : 0 < tn93E3 πA πC πG πT P2 Q) :
    P1 + P2 + Q ≤ tnK1 πA πG * nl g a (tn93E2 πA πC πG πT P1 Q) + tnK2 πC πT * nl g a (tn93E3 πA πC πG πT P2 Q)
        + tnK3 πA πC πG πT * nl g a (tn93E1 πA πC πG πT Q) := by
  have k3 := tnK3_nonneg hA hC hG hT
  have k1 : 0 ≤ tnK1 πA πG := by unfold tnK1; positivity
  have k2 : 0 ≤ tnK2 πC πT := by unfold tnK2; positivity
  have n1 := mul_le_mul_of_nonneg_left (one_sub_le_nl g ha h2) k1
  have n2 := mul_le_mul_of_nonneg_left (one_sub_le_nl g ha h3) k2
  have n3 := mul_le_mul_of_nonneg_left (one_sub_le_nl g ha h1) k3
  have e : tnK1 πA πG * (1 - tn93E2 πA πC πG πT P1 Q) + tnK2 πC πT * (1 - tn93E3 πA πC πG πT P2 Q)
      + tnK3 πA πC πG πT * (1 - tn93E1 πA πC πG πT Q) = P1 + P2 + Q := by
    unfold tnK1 tnK2 tnK3 tn93E1 tn93E2 tn93E3
    real_like
    have hR : πA + πG ≠ 0 := by positivity
    have hY : πC + πT ≠ 0 := by positivity
    field_simp
    ring
  linarith

end Gv.Proofs.DistReal
