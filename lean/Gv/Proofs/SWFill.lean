import Gv.Model.SW
import Gv.Spec.SW
import Gv.Proofs.SWSpec
/-!
Helper development for C09: what the **repaired** `fillMatrix_SW` (`Gv.Model.SW.fill … true`)
computes.

1. `cellR`: the content of one cell as a function of the two *reversed prefixes* that end at the cell
   (row prefix `c1 :: r1`, column prefix `c2 :: r2`) — a structural recursion with the very
   `cellStep` of the model; `fillRows_eq` shows the model's rows are the table of `cellR`.
2. `cellR_brute`: under `gapopen ≤ gapextend < 0` the stored value is the exhaustive-search optimum
   `Spec.SW.bruteFrom` of the reversed prefixes, and the running maxima `maxa`, `bx` are
   `gapopen +` the same optimum entered in a gap state.
3. reversal: column lists anchored at reversed prefixes are the reversed local alignments ending at
   the cell, with the same score.

`Gv.Props.C09.sw_score_optimal` assembles them.
-/
namespace Gv.Proofs.SWFill
open Gv Gv.Model.SW

/-- a cell "outside the matrix": value 0, no gap state -/
def outside : StepOut := { val := 0, tr := Dir.diag, maxa := none, bx := none, mscore := 0 }

/-- cells of the row whose reversed prefix is `c1 :: r1` (`hasUp = (r1 ≠ [])`), given the cells `up`
of the previous row, as a function of the reversed column prefix -/
def cellInner (a : Aligner) (c1 : CI) (hasUp : Bool) (up : List CI → StepOut) : List CI → StepOut
  | [] => outside
  | c2 :: r2 =>
    let left := cellInner a c1 hasUp up r2
    cellStep a.gapopen a.gapextend (matchScore a c1 c2) (up r2).val
      (if hasUp then some (up (c2 :: r2)).val else none)
      (if r2.isEmpty then none else some left.val)
      (up (c2 :: r2)).maxa left.bx

/-- everything the repaired loop computes at the cell reached after the reversed row prefix and the
reversed column prefix -/
def cellR (a : Aligner) : List CI → List CI → StepOut
  | [] => fun _ => outside
  | c1 :: r1 => cellInner a c1 (decide (r1.length > 0)) (cellR a r1)

theorem cellR_nil_right (a : Aligner) (r1 : List CI) : cellR a r1 [] = outside := by
  cases r1 <;> rfl

theorem cellR_cons_cons (a : Aligner) (c1 : CI) (r1 : List CI) (c2 : CI) (r2 : List CI) :
    cellR a (c1 :: r1) (c2 :: r2) =
      cellStep a.gapopen a.gapextend (matchScore a c1 c2) (cellR a r1 r2).val
        (if decide (r1.length > 0) then some (cellR a r1 (c2 :: r2)).val else none)
        (if r2.isEmpty then none else some (cellR a (c1 :: r1) r2).val)
        (cellR a r1 (c2 :: r2)).maxa (cellR a (c1 :: r1) r2).bx := rfl

/-- reversed non-empty prefixes of `l` continued from `acc`: `[b0 :: acc, b1 :: b0 :: acc, …]` -/
def prefixesFrom {α} (acc : List α) : List α → List (List α)
  | [] => []
  | b :: t => (b :: acc) :: prefixesFrom (b :: acc) t

theorem map_const_prefixesFrom {α β} (c : β) (acc l : List α) :
    (prefixesFrom acc l).map (fun _ => c) = l.map (fun _ => c) := by
  induction l generalizing acc with
  | nil => rfl
  | cons b t ih => simp [prefixesFrom, ih]

/-- the running maximum after the cells of one row -/
def bestFold (i : Nat) : Nat → Best → List Int → Best
  | _, best, [] => best
  | j, best, ms :: t =>
    bestFold i (j + 1) (if ms > best.score then { score := ms, i := i, j := j } else best) t

theorem bestFold_score (i : Nat) : ∀ (l : List Int) (j : Nat) (best : Best),
    (bestFold i j best l).score = l.foldl max best.score := by
  intro l
  induction l with
  | nil => intro j best; rfl
  | cons ms t ih =>
    intro j best
    simp only [bestFold, List.foldl_cons, ih]
    congr 1
    split
    · show ms = max best.score ms; omega
    · omega

/-- one row of the repaired loop is the row of `cellR` -/
theorem rowScan_eq (a : Aligner) (c1 : CI) (r1 : List CI) :
    ∀ (rest acc : List CI) (j : Nat) (best : Best),
      rowScan a c1 r1.length (decide (r1.length > 0)) j (cellR a r1 acc).val
        (if acc.isEmpty then none else some (cellR a (c1 :: r1) acc).val) (cellR a (c1 :: r1) acc).bx best
        (zip3 rest ((prefixesFrom acc rest).map fun p => (cellR a r1 p).val)
          ((prefixesFrom acc rest).map fun p => (cellR a r1 p).maxa))
      = ((prefixesFrom acc rest).map fun p =>
            ((⟨(cellR a (c1 :: r1) p).val, (cellR a (c1 :: r1) p).tr⟩ : Cell), (cellR a (c1 :: r1) p).maxa),
         bestFold r1.length j best ((prefixesFrom acc rest).map fun p => (cellR a (c1 :: r1) p).mscore)) := by
  intro rest
  induction rest with
  | nil => intro acc j best; rfl
  | cons b rest ih =>
    intro acc j best
    simp only [prefixesFrom, List.map_cons, zip3, rowScan, bestFold]
    have hcell : cellStep a.gapopen a.gapextend (matchScore a c1 b) (cellR a r1 acc).val
        (if decide (r1.length > 0) = true then some (cellR a r1 (b :: acc)).val else none)
        (if acc.isEmpty = true then none else some (cellR a (c1 :: r1) acc).val)
        (cellR a r1 (b :: acc)).maxa (cellR a (c1 :: r1) acc).bx = cellR a (c1 :: r1) (b :: acc) := by
      rw [cellR_cons_cons]
    rw [hcell]
    have := ih (b :: acc) (j + 1)
      (if (cellR a (c1 :: r1) (b :: acc)).mscore > best.score then
        { score := (cellR a (c1 :: r1) (b :: acc)).mscore, i := r1.length, j := j } else best)
    simp only [List.isEmpty_cons, Bool.false_eq_true, if_false] at this
    rw [this]

/-- the running maximum after whole rows -/
def bestRowsFold : Nat → Best → List (List Int) → Best
  | _, best, [] => best
  | i, best, row :: t => bestRowsFold (i + 1) (bestFold i 0 best row) t

theorem bestRowsFold_score : ∀ (rows : List (List Int)) (i : Nat) (best : Best),
    (bestRowsFold i best rows).score = rows.flatten.foldl max best.score := by
  intro rows
  induction rows with
  | nil => intro i best; rfl
  | cons row t ih =>
    intro i best
    simp only [bestRowsFold, ih, bestFold_score, List.flatten_cons, List.foldl_append]

/-- the rows of the repaired loop are the table of `cellR` over the reversed prefixes -/
theorem fillRows_eq (a : Aligner) (x2 : List CI) (dummy : Cell) :
    ∀ (rest1 acc1 : List CI) (best : Best),
      fillRows a true x2 acc1.length ((prefixesFrom [] x2).map fun p => (cellR a acc1 p).val)
        ((prefixesFrom [] x2).map fun p => (cellR a acc1 p).maxa) best (rest1.map fun c => (c, dummy))
      = ((prefixesFrom acc1 rest1).map fun q =>
            (prefixesFrom [] x2).map fun p => (⟨(cellR a q p).val, (cellR a q p).tr⟩ : Cell),
         bestRowsFold acc1.length best ((prefixesFrom acc1 rest1).map fun q =>
            (prefixesFrom [] x2).map fun p => (cellR a q p).mscore)) := by
  intro rest1
  induction rest1 with
  | nil => intro acc1 best; rfl
  | cons c1 rest1 ih =>
    intro acc1 best
    have h := rowScan_eq a c1 acc1 x2 [] 0 best
    simp only [cellR_nil_right, outside, List.isEmpty_nil, if_true] at h
    simp only [List.map_cons, fillRows, if_true, prefixesFrom, bestRowsFold, h, List.map_map, Function.comp_def]
    have := ih (c1 :: acc1)
      (bestFold acc1.length 0 best ((prefixesFrom [] x2).map fun p => (cellR a (c1 :: acc1) p).mscore))
    simp only [List.length_cons] at this
    rw [this]

/-- `fillMatrix_SW` (repaired) in closed form -/
theorem fill_eq (a : Aligner) (x1 x2 : List CI) :
    fill a true x1 x2 =
      ⟨(prefixesFrom [] x1).map fun q =>
          (prefixesFrom [] x2).map fun p => (⟨(cellR a q p).val, (cellR a q p).tr⟩ : Cell),
       bestRowsFold 0 ⟨0, 0, 0⟩ ((prefixesFrom [] x1).map fun q =>
          (prefixesFrom [] x2).map fun p => (cellR a q p).mscore)⟩ := by
  have h := fillRows_eq a x2 ⟨0, Dir.up⟩ x1 [] ⟨0, 0, 0⟩
  have e1 : ((prefixesFrom [] x2).map fun p => (cellR a [] p).val) = x2.map fun _ => (0 : Int) :=
    map_const_prefixesFrom (0 : Int) [] x2
  have e2 : ((prefixesFrom [] x2).map fun p => (cellR a [] p).maxa) = x2.map fun _ => (none : NInf) :=
    map_const_prefixesFrom (none : NInf) [] x2
  rw [e1, e2] at h
  simp only [fill, if_true]
  simp only [List.length_nil] at h
  rw [h]

/-! ### the stored values are exhaustive-search optima of the reversed prefixes -/

/-- `max` with a possibly absent (−∞) competitor -/
def maxN (x : Int) : NInf → Int
  | none => x
  | some v => max x v

/-- `cellStep` in closed form -/
theorem cellStep_spec (go ge mt d : Int) (upv leftv : Option Int) (maxa bx : NInf) :
    (cellStep go ge mt d upv leftv maxa bx).maxa = maxa.step ge upv go ∧
    (cellStep go ge mt d upv leftv maxa bx).bx = bx.step ge leftv go ∧
    (cellStep go ge mt d upv leftv maxa bx).mscore =
      maxN (maxN (d + mt) (maxa.step ge upv go)) (bx.step ge leftv go) ∧
    (cellStep go ge mt d upv leftv maxa bx).val =
      max 0 (maxN (maxN (d + mt) (maxa.step ge upv go)) (bx.step ge leftv go)) := by
  refine ⟨rfl, rfl, ?_, ?_⟩
  · simp only [cellStep]
    generalize maxa.step ge upv go = A
    generalize bx.step ge leftv go = B
    cases A <;> cases B <;>
      simp only [NInf.gt, maxN, Option.getD, decide_eq_true_eq, Bool.false_eq_true, if_false] <;>
      (repeat' split) <;> omega
  · simp only [cellStep]
    generalize maxa.step ge upv go = A
    generalize bx.step ge leftv go = B
    cases A <;> cases B <;>
      simp only [NInf.gt, maxN, Option.getD, decide_eq_true_eq, Bool.false_eq_true, if_false] <;>
      (repeat' split) <;> omega

section brute
open Gv.Spec.SW
variable (S : Scheme) (hle : S.gapopen ≤ S.gapext) (hneg : S.gapext < 0)
include hle hneg

theorem gapCost_neg (p k : St) : gapCost S p k < 0 := by
  unfold gapCost; split <;> omega

theorem brute_nil_left (t : Seq) (prev : St) : bruteFrom S [] t prev = 0 := by
  induction t generalizing prev with
  | nil => rfl
  | cons b t ih =>
    rw [bruteFrom_nil_cons, ih]
    have := gapCost_neg S hle hneg prev .y
    omega

theorem brute_nil_right (s : Seq) (prev : St) : bruteFrom S s [] prev = 0 := by
  induction s generalizing prev with
  | nil => rfl
  | cons a s ih =>
    rw [bruteFrom_cons_nil, ih]
    have := gapCost_neg S hle hneg prev .x
    omega

/-- with a single residue left in the first sequence the entry state is irrelevant -/
theorem brute_single_left (c b : Byte) (t : Seq) :
    bruteFrom S [c] (b :: t) .x = bruteFrom S [c] (b :: t) .m := by
  rw [bruteFrom_cons_cons S c b [] t .x, bruteFrom_cons_cons S c b [] t .m, brute_nil_left S hle hneg (b :: t) .x]
  have h1 := gapCost_neg S hle hneg .x .x
  have h2 := gapCost_neg S hle hneg .m .x
  have h3 : gapCost S .x .y = gapCost S .m .y := by simp [gapCost]
  rw [h3]
  simp only [max3]
  omega

theorem brute_single_right (a : Byte) (s : Seq) (b : Byte) :
    bruteFrom S (a :: s) [b] .y = bruteFrom S (a :: s) [b] .m := by
  rw [bruteFrom_cons_cons S a b s [] .y, bruteFrom_cons_cons S a b s [] .m, brute_nil_right S hle hneg (a :: s) .y]
  have h1 := gapCost_neg S hle hneg .y .y
  have h2 := gapCost_neg S hle hneg .m .y
  have h3 : gapCost S .y .x = gapCost S .m .x := by simp [gapCost]
  rw [h3]
  simp only [max3]
  omega

omit hneg in
/-- entering in state `x`: either do as from state `m`, or extend the gap -/
theorem brute_x_step (a a' : Byte) (s : Seq) (b : Byte) (t : Seq) :
    bruteFrom S (a :: a' :: s) (b :: t) .x =
      max (bruteFrom S (a :: a' :: s) (b :: t) .m) (S.gapext + bruteFrom S (a' :: s) (b :: t) .x) := by
  rw [bruteFrom_cons_cons S a b (a' :: s) t .x, bruteFrom_cons_cons S a b (a' :: s) t .m]
  have h1 : gapCost S .x .x = S.gapext := by simp [gapCost]
  have h2 : gapCost S .m .x = S.gapopen := by simp [gapCost]
  have h3 : gapCost S .x .y = gapCost S .m .y := by simp [gapCost]
  rw [h1, h2, h3]
  simp only [max3]
  omega

omit hneg in
theorem brute_y_step (a : Byte) (s : Seq) (b b' : Byte) (t : Seq) :
    bruteFrom S (a :: s) (b :: b' :: t) .y =
      max (bruteFrom S (a :: s) (b :: b' :: t) .m) (S.gapext + bruteFrom S (a :: s) (b' :: t) .y) := by
  rw [bruteFrom_cons_cons S a b s (b' :: t) .y, bruteFrom_cons_cons S a b s (b' :: t) .m]
  have h1 : gapCost S .y .y = S.gapext := by simp [gapCost]
  have h2 : gapCost S .m .y = S.gapopen := by simp [gapCost]
  have h3 : gapCost S .y .x = gapCost S .m .x := by simp [gapCost]
  rw [h1, h2, h3]
  simp only [max3]
  omega

/-- what `maxa[j]` holds after the row with reversed prefix `r1`: `gapopen +` the optimum of the
prefixes above entered in state `x` (−∞ on the first row) -/
def Fspec (r1 r2 : List CI) : NInf :=
  match r1, r2 with
  | _ :: c :: r, b :: t => some (S.gapopen + bruteFrom S ((c :: r).map (·.1)) ((b :: t).map (·.1)) .x)
  | _, _ => none

/-- what `bx` holds after the cell: `gapopen +` the optimum of the prefixes to the left entered in
state `y` (−∞ in the first column) -/
def Espec (r1 r2 : List CI) : NInf :=
  match r1, r2 with
  | a :: s, _ :: b :: t => some (S.gapopen + bruteFrom S ((a :: s).map (·.1)) ((b :: t).map (·.1)) .y)
  | _, _ => none

omit hle hneg in
theorem Fspec_nil_right (r1 : List CI) : Fspec S r1 [] = none := by
  unfold Fspec; split <;> simp_all

omit hle hneg in
theorem Espec_nil_right (r1 : List CI) : Espec S r1 [] = none := by
  unfold Espec; split <;> simp_all

/-- **the repaired loop computes the Gotoh quantities**: value = optimum of the reversed prefixes,
`maxa` / `bx` = `gapopen +` optimum entered in a gap state -/
theorem cellR_brute (a : Aligner) (hgo : S.gapopen = a.gapopen) (hge : S.gapext = a.gapextend) :
    ∀ (r1 r2 : List CI), (∀ c1 ∈ r1, ∀ c2 ∈ r2, matchScore a c1 c2 = S.sub c1.1 c2.1) →
      (cellR a r1 r2).val = bruteFrom S (r1.map (·.1)) (r2.map (·.1)) .m ∧
      (cellR a r1 r2).maxa = Fspec S r1 r2 ∧ (cellR a r1 r2).bx = Espec S r1 r2 := by
  intro r1
  induction r1 with
  | nil =>
    intro r2 _
    refine ⟨?_, rfl, rfl⟩
    simp [cellR, outside, brute_nil_left S hle hneg]
  | cons c1 r1 ih1 =>
    intro r2
    induction r2 with
    | nil =>
      intro _
      rw [cellR_nil_right]
      refine ⟨?_, (Fspec_nil_right S _).symm, (Espec_nil_right S _).symm⟩
      simp [outside, brute_nil_right S hle hneg]
    | cons c2 r2 ih2 =>
      intro hsub
      have hD := (ih1 r2 (fun x hx y hy => hsub x (List.mem_cons_of_mem _ hx) y (List.mem_cons_of_mem _ hy))).1
      have hU := ih1 (c2 :: r2) (fun x hx y hy => hsub x (List.mem_cons_of_mem _ hx) y hy)
      have hL := ih2 (fun x hx y hy => hsub x hx y (List.mem_cons_of_mem _ hy))
      have hmt : matchScore a c1 c2 = S.sub c1.1 c2.1 := hsub c1 (by simp) c2 (by simp)
      obtain ⟨sF, sE, _, sV⟩ := cellStep_spec a.gapopen a.gapextend (matchScore a c1 c2) (cellR a r1 r2).val
        (if decide (r1.length > 0) then some (cellR a r1 (c2 :: r2)).val else none)
        (if r2.isEmpty then none else some (cellR a (c1 :: r1) r2).val)
        (cellR a r1 (c2 :: r2)).maxa (cellR a (c1 :: r1) r2).bx
      rw [← cellR_cons_cons] at sF sE sV
      -- the vertical running maximum
      have hF : (cellR a (c1 :: r1) (c2 :: r2)).maxa = Fspec S (c1 :: r1) (c2 :: r2) := by
        rw [sF, hU.2.1, hU.1]
        cases r1 with
        | nil => rfl
        | cons c r =>
          cases r with
          | nil =>
            simp only [List.length_cons, List.length_nil, Fspec, NInf.step, NInf.add, NInf.maxWith,
              Option.map_none, List.map_cons, List.map_nil]
            rw [brute_single_left S hle hneg, ← hgo]
            simp [Int.add_comm]
          | cons c' r' =>
            simp only [List.length_cons, Fspec, NInf.step, NInf.add, NInf.maxWith, Option.map_some,
              List.map_cons]
            have e := brute_x_step S hle c.1 c'.1 (r'.map (·.1)) c2.1 (r2.map (·.1))
            rw [e, ← hgo, ← hge]
            simp only [gt_iff_lt, Nat.zero_lt_succ, decide_true, if_true]
            split <;> (congr 1; omega)
      -- the horizontal running maximum
      have hE : (cellR a (c1 :: r1) (c2 :: r2)).bx = Espec S (c1 :: r1) (c2 :: r2) := by
        rw [sE, hL.2.2, hL.1]
        cases r2 with
        | nil => rfl
        | cons b t =>
          cases t with
          | nil =>
            simp only [List.isEmpty_cons, Espec, NInf.step, NInf.add, NInf.maxWith,
              Option.map_none, List.map_cons, List.map_nil]
            rw [brute_single_right S hle hneg, ← hgo]
            simp [Int.add_comm]
          | cons b' t' =>
            simp only [List.isEmpty_cons, Espec, NInf.step, NInf.add, NInf.maxWith, Option.map_some,
              List.map_cons]
            have e := brute_y_step S hle c1.1 (r1.map (·.1)) b.1 b'.1 (t'.map (·.1))
            rw [e, ← hgo, ← hge]
            simp only [Bool.false_eq_true, if_false]
            split <;> (congr 1; omega)
      refine ⟨?_, hF, hE⟩
      -- the stored value
      have hv : (cellR a (c1 :: r1) (c2 :: r2)).val =
          max 0 (maxN (maxN (bruteFrom S (r1.map (·.1)) (r2.map (·.1)) .m + S.sub c1.1 c2.1)
            (Fspec S (c1 :: r1) (c2 :: r2))) (Espec S (c1 :: r1) (c2 :: r2))) := by
        rw [← hF, ← hE, ← hD, ← hmt, sF, sE]; exact sV
      rw [hv]
      clear hv sV sF sE hF hE hU hL hD ih1 ih2
      simp only [List.map_cons]
      rw [bruteFrom_cons_cons]
      have g1 : gapCost S .m .x = S.gapopen := by simp [gapCost]
      have g2 : gapCost S .m .y = S.gapopen := by simp [gapCost]
      rw [g1, g2]
      have hopen : S.gapopen < 0 := by omega
      rcases r1 with _ | ⟨c, r⟩ <;> rcases r2 with _ | ⟨b, t⟩ <;>
        simp only [Fspec, Espec, maxN, max3, List.map_cons, List.map_nil, brute_nil_left S hle hneg,
          brute_nil_right S hle hneg] <;> omega

end brute

/-! ### the running maximum is the Gotoh optimum -/

theorem mem_prefixesFrom {α} {q : List α} : ∀ {l acc : List α}, q ∈ prefixesFrom acc l →
    ∃ e, 1 ≤ e ∧ e ≤ l.length ∧ q = (l.take e).reverse ++ acc := by
  intro l
  induction l with
  | nil => intro acc h; simp [prefixesFrom] at h
  | cons b t ih =>
    intro acc h
    simp only [prefixesFrom, List.mem_cons] at h
    rcases h with h | h
    · exact ⟨1, Nat.le_refl _, by simp, by simp [h]⟩
    · obtain ⟨e, he1, he2, hq⟩ := ih h
      exact ⟨e + 1, by omega, by simp; omega, by simp [hq]⟩

theorem prefixesFrom_mem {α} : ∀ (l acc : List α) (e : Nat), 1 ≤ e → e ≤ l.length →
    (l.take e).reverse ++ acc ∈ prefixesFrom acc l := by
  intro l
  induction l with
  | nil => intro acc e h1 h2; simp at h2; omega
  | cons b t ih =>
    intro acc e h1 h2
    cases e with
    | zero => omega
    | succ e =>
      simp only [prefixesFrom, List.take_succ_cons, List.reverse_cons, List.append_assoc, List.singleton_append,
        List.mem_cons]
      cases e with
      | zero => left; simp
      | succ e' =>
        right
        exact ih (b :: acc) (e' + 1) (by omega) (by simp at h2; omega)

theorem mem_flatten_table {α β γ} (f : α → β → γ) (l1 : List α) (l2 : List β) (x : γ) :
    x ∈ (l1.map fun q => l2.map fun p => f q p).flatten ↔ ∃ q ∈ l1, ∃ p ∈ l2, f q p = x := by
  simp only [List.mem_flatten]
  constructor
  · rintro ⟨row, hrow, hx⟩
    obtain ⟨q, hq, rfl⟩ := List.mem_map.mp hrow
    obtain ⟨p, hp, e⟩ := List.mem_map.mp hx
    exact ⟨q, hq, p, hp, e⟩
  · rintro ⟨q, hq, p, hp, e⟩
    exact ⟨_, List.mem_map.mpr ⟨q, hq, rfl⟩, List.mem_map.mpr ⟨p, hp, e⟩⟩

theorem cellR_val_mscore (a : Aligner) (q p : List CI) :
    (cellR a q p).val = max 0 (cellR a q p).mscore := by
  cases q with
  | nil => simp [cellR, outside]
  | cons c1 r1 =>
    cases p with
    | nil => simp [cellR_nil_right, outside]
    | cons c2 r2 =>
      rw [cellR_cons_cons]
      obtain ⟨_, _, h3, h4⟩ := cellStep_spec a.gapopen a.gapextend (matchScore a c1 c2) (cellR a r1 r2).val
        (if decide (r1.length > 0) then some (cellR a r1 (c2 :: r2)).val else none)
        (if r2.isEmpty then none else some (cellR a (c1 :: r1) r2).val)
        (cellR a r1 (c2 :: r2)).maxa (cellR a (c1 :: r1) r2).bx
      rw [h3, h4]

open Gv.Spec.SW in
/-- **the score reported by the repaired `fillMatrix_SW` is the optimum over all local alignments**
(as computed by the Gotoh program of the specification), for all sequences, any substitution
function and any gap penalties with `gapopen ≤ gapextend < 0` -/
theorem fill_best_eq_gotoh (a : Aligner) (S : Scheme) (hgo : S.gapopen = a.gapopen) (hge : S.gapext = a.gapextend)
    (hle : S.gapopen ≤ S.gapext) (hneg : S.gapext < 0) (x1 x2 : List CI)
    (hsub : ∀ c1 ∈ x1, ∀ c2 ∈ x2, matchScore a c1 c2 = S.sub c1.1 c2.1) :
    (fill a true x1 x2).best.score = gotohBest S (x1.map (·.1)) (x2.map (·.1)) := by
  rw [fill_eq]
  simp only [bestRowsFold_score]
  -- name the table of unclamped scores
  generalize hT : ((prefixesFrom [] x1).map fun q => (prefixesFrom [] x2).map fun p => (cellR a q p).mscore) = T
  have hV : List.foldl max (0 : Int) T.flatten = maxList T.flatten := rfl
  rw [hV]
  -- every cell holds the exhaustive optimum of its reversed prefixes
  have hcell : ∀ e1 e2, e1 ≤ x1.length → e2 ≤ x2.length →
      (cellR a (x1.take e1).reverse (x2.take e2).reverse).val =
        bruteFrom S ((x1.map (·.1)).take e1).reverse ((x2.map (·.1)).take e2).reverse .m := by
    intro e1 e2 _ _
    have := (cellR_brute S hle hneg a hgo hge (x1.take e1).reverse (x2.take e2).reverse
      (fun c1 h1 c2 h2 => hsub c1 (List.mem_of_mem_take (List.mem_reverse.mp h1)) c2
        (List.mem_of_mem_take (List.mem_reverse.mp h2)))).1
    simpa [List.map_reverse, List.map_take] using this
  have hmemT : ∀ e1 e2, 1 ≤ e1 → e1 ≤ x1.length → 1 ≤ e2 → e2 ≤ x2.length →
      (cellR a (x1.take e1).reverse (x2.take e2).reverse).mscore ∈ T.flatten := by
    intro e1 e2 a1 b1 a2 b2
    rw [← hT, mem_flatten_table (fun q p => (cellR a q p).mscore)]
    refine ⟨(x1.take e1).reverse, ?_, (x2.take e2).reverse, ?_, rfl⟩
    · simpa using prefixesFrom_mem x1 [] e1 a1 b1
    · simpa using prefixesFrom_mem x2 [] e2 a2 b2
  apply Int.le_antisymm
  · -- reported ≤ optimum
    rcases maxList_mem T.flatten with h | h
    · rw [h]; exact maxList_nonneg _
    · have h' := h
      rw [← hT, mem_flatten_table (fun q p => (cellR a q p).mscore)] at h'
      obtain ⟨q, hq, p, hp, hval⟩ := h'
      obtain ⟨e1, a1, b1, rfl⟩ := mem_prefixesFrom hq
      obtain ⟨e2, a2, b2, rfl⟩ := mem_prefixesFrom hp
      simp only [List.append_nil] at hval
      have hle' : maxList T.flatten ≤ (cellR a (x1.take e1).reverse (x2.take e2).reverse).val := by
        rw [cellR_val_mscore, hval, hT]; omega
      rw [hcell e1 e2 b1 b2] at hle'
      obtain ⟨cols, hc, ec⟩ := brute_attained S ((x1.map (·.1)).take e1).reverse ((x2.map (·.1)).take e2).reverse .m
      obtain ⟨p1, p2, hloc⟩ := local_of_anchored_reverse hc
      have := gotoh_upper S hloc
      rw [score_reverse] at this
      have e : score S cols = scoreFrom S .m cols := rfl
      omega
  · -- optimum ≤ reported
    obtain ⟨p1, p2, cols, hloc, hs⟩ := gotoh_attained S (x1.map (·.1)) (x2.map (·.1))
    rw [← hs]
    have hanc := anchored_reverse_of_local hloc
    have hub := brute_upper S cols.reverse _ _ .m hanc
    have hrev : scoreFrom S .m cols.reverse = score S cols := score_reverse S cols
    rw [hrev] at hub
    have hl1 : p1 + (proj1 cols).length ≤ x1.length := by
      have := hloc.2.2.1.length_le; simp only [List.length_drop, List.length_map] at this
      have := hloc.1; simp only [List.length_map] at this; omega
    have hl2 : p2 + (proj2 cols).length ≤ x2.length := by
      have := hloc.2.2.2.length_le; simp only [List.length_drop, List.length_map] at this
      have := hloc.2.1; simp only [List.length_map] at this; omega
    have h0 := maxList_nonneg T.flatten
    by_cases z1 : p1 + (proj1 cols).length = 0
    · rw [z1] at hub
      simp only [List.take_zero, List.reverse_nil, brute_nil_left S hle hneg] at hub
      omega
    · by_cases z2 : p2 + (proj2 cols).length = 0
      · rw [z2] at hub
        simp only [List.take_zero, List.reverse_nil, brute_nil_right S hle hneg] at hub
        omega
      · rw [← hcell _ _ hl1 hl2, cellR_val_mscore] at hub
        have := le_maxList (hmemT _ _ (by omega) hl1 (by omega) hl2)
        omega

end Gv.Proofs.SWFill
