import Gv.Props.C09
import Gv.Proofs.PhaseAlignCell
/-!
Helper development for C16: the `ALIGN_ALGO_ATG` aligner (`Gv.Model.PhaseAlign.alignATG`, repaired fill) on
a sequence that contains the reference verbatim exactly once, under a diagonally dominant scheme:
`alignATG_verbatim`.  `Gv.Props.C16` states the consequences for phasing.
-/
namespace Gv.Proofs.PhaseAlign
open Gv Gv.Model Gv.Model.SW Gv.Model.PhaseAlign Gv.Spec.SW Gv.Proofs.SWFill Gv.Proofs.SWTrace
  Gv.Proofs.PhaseAlignSpec Gv.Proofs.PhaseAlignCell Gv.Props.C09

/-! ### small list facts -/

theorem mapM_length {α β} (f : α → Option β) : ∀ (l : List α) (r : List β), l.mapM f = some r → r.length = l.length := by
  intro l
  induction l with
  | nil => intro r h; simp at h; subst h; rfl
  | cons c t ih =>
    intro r h
    cases hc : f c with
    | none => simp [List.mapM_cons, hc] at h
    | some v =>
      cases ht : List.mapM f t with
      | none => simp [List.mapM_cons, hc, ht] at h
      | some w =>
        simp [List.mapM_cons, hc, ht] at h
        subst h
        simp [ih w ht]

theorem mapM_zip_mem {α β} (f : α → Option β) : ∀ (l : List α) (r : List β), l.mapM f = some r →
    ∀ c ∈ l.zip r, f c.1 = some c.2 := by
  intro l
  induction l with
  | nil => intro r _ c hc; simp at hc
  | cons x t ih =>
    intro r h c hc
    cases hx : f x with
    | none => simp [List.mapM_cons, hx] at h
    | some v =>
      cases ht : List.mapM f t with
      | none => simp [List.mapM_cons, hx, ht] at h
      | some w =>
        simp [List.mapM_cons, hx, ht] at h
        subst h
        simp only [List.zip_cons_cons, List.mem_cons] at hc
        rcases hc with rfl | hc
        · exact hx
        · exact ih w ht c hc

theorem Q_map {α β} (g : α → β) (x : List α) (i : Nat) : (Q x i).map g = Q (x.map g) i := by
  simp [Q, List.map_reverse, List.map_take]

/-- the reversed prefix of a reversed list is a suffix of the list -/
theorem Q_reverse {α} (l : List α) (j : Nat) (hj : j < l.length) : Q l.reverse j = l.drop (l.length - 1 - j) := by
  simp only [Q, List.take_reverse, List.reverse_reverse]
  congr 1
  omega

theorem getD_reverse_mid (pre orf post : Seq) (k : Nat) (hk : k < orf.length) :
    (pre ++ orf ++ post).reverse.getD (post.length + k) 0 = orf.reverse.getD k 0 := by
  simp only [List.reverse_append, List.getD_eq_getElem?_getD]
  rw [List.getElem?_append_right (by simp)]
  simp only [List.length_reverse, Nat.add_sub_cancel_left]
  rw [List.getElem?_append_left (by simp; omega)]

/-! ### the aligner's scheme -/

theorem hsub_of_indices (a : Aligner) (s1 s2 : Seq) (i1 i2 : List Nat)
    (h1 : seqToIndices a s1 = some i1) (h2 : seqToIndices a s2 = some i2) :
    ∀ c1 ∈ s1.zip i1, ∀ c2 ∈ s2.zip i2, matchScore a c1 c2 = (schemeOf a).sub c1.1 c2.1 := by
  have hz1 := mapM_zip_mem (idxOf a) s1 i1 h1
  have hz2 := mapM_zip_mem (idxOf a) s2 i2 h2
  intro c1 hc1 c2 hc2
  show matchScore a c1 c2 = matchScore a (c1.1, (idxOf a c1.1).getD 0) (c2.1, (idxOf a c2.1).getD 0)
  rw [hz1 c1 hc1, hz2 c2 hc2]; rfl

/-- after `SetScore` the scheme is byte equality -/
theorem schemeOf_mm (a : Aligner) (h : a.submatrix = none) :
    schemeOf a = ⟨fun x y => if x != y then a.mismatch else a.matchS, a.gapopen, a.gapextend⟩ := by
  simp [schemeOf, matchScore, h]

/-! ### the main statement -/

/-- **`ALIGN_ALGO_ATG` on a verbatim occurrence.**  For gap penalties `gapopen ≤ gapextend < 0`, a scheme that
is diagonally dominant on the residues involved, and a non-empty reference `orf` that occurs in
`pre ++ orf ++ post` at offset `|pre|` only: unless `Alignment()` reports an error (a residue outside the
alphabet of the index map), the aligner returns exactly that occurrence — both rows equal to `orf`, no gap, no
mismatch, start/end positions those of the occurrence, score the self-score of `orf`. -/
theorem alignATG_verbatim (a : Aligner) (orf pre post : Seq)
    (hgap : a.gapopen ≤ a.gapextend ∧ a.gapextend < 0) (hne : orf ≠ [])
    (hdom : Dom (schemeOf a) orf (pre ++ orf ++ post))
    (honce : ∀ k, orf <+: (pre ++ orf ++ post).drop k → k = pre.length) :
    alignATG a true orf (pre ++ orf ++ post) = AtgOutcome.err ∨
    alignATG a true orf (pre ++ orf ++ post) = AtgOutcome.ok
      { score := W (schemeOf a) orf, start1 := 0, start2 := pre.length,
        end1 := (orf.length : Int) - 1, end2 := (pre.length : Int) + orf.length - 1,
        length := orf.length, nmatch := orf.length, nmismatch := 0, ngaps := 0,
        row1 := orf, row2 := orf } := by
  have hm : 0 < orf.length := List.length_pos_iff.mpr hne
  generalize hseq : pre ++ orf ++ post = seq at *
  have hn : seq.length = pre.length + orf.length + post.length := by rw [← hseq]; simp; omega
  have hseqne : seq ≠ [] := by intro e; rw [e] at hn; simp at hn; omega
  simp only [alignATG]
  rw [if_neg (by simp [hne, hseqne])]
  cases hi1 : seqToIndices a orf.reverse with
  | none => left; rfl
  | some i1 =>
    cases hi2 : seqToIndices a seq.reverse with
    | none => left; rfl
    | some i2 =>
      right
      simp only []
      rw [if_neg (by simp [hne, hseqne])]
      -- shapes
      have hl1 : i1.length = orf.length := by rw [mapM_length _ _ _ hi1]; simp
      have hl2 : i2.length = seq.length := by rw [mapM_length _ _ _ hi2]; simp
      generalize hx1 : orf.reverse.zip i1 = x1
      generalize hx2 : seq.reverse.zip i2 = x2
      have hm1 : x1.map (·.1) = orf.reverse := by rw [← hx1]; exact List.map_fst_zip (by simp; omega)
      have hm2 : x2.map (·.1) = seq.reverse := by rw [← hx2]; exact List.map_fst_zip (by simp; omega)
      have hx1l : x1.length = orf.length := by rw [← hx1]; simp [List.length_zip]; omega
      have hx2l : x2.length = seq.length := by rw [← hx2]; simp [List.length_zip]; omega
      have hsub : ∀ c1 ∈ x1, ∀ c2 ∈ x2, matchScore a c1 c2 = (schemeOf a).sub c1.1 c2.1 := by
        rw [← hx1, ← hx2]; exact hsub_of_indices a _ _ i1 i2 hi1 hi2
      -- the reversed prefixes of the two annotated sequences, as suffixes of the originals
      have hQ1 : ∀ i, i < orf.length → (Q x1 i).map (·.1) = orf.drop (orf.length - 1 - i) := by
        intro i hi; rw [Q_map, hm1, Q_reverse _ _ hi]
      have hQ2 : ∀ j, j < seq.length → (Q x2 j).map (·.1) = seq.drop (seq.length - 1 - j) := by
        intro j hj; rw [Q_map, hm2, Q_reverse _ _ hj]
      have hsubQ : ∀ i j, ∀ c1 ∈ Q x1 i, ∀ c2 ∈ Q x2 j, matchScore a c1 c2 = (schemeOf a).sub c1.1 c2.1 :=
        fun i j c1 h1 c2 h2 => hsub c1 (Q_subset h1) c2 (Q_subset h2)
      have hdQ : ∀ i j, i < orf.length → j < seq.length →
          Dom (schemeOf a) ((Q x1 i).map (·.1)) ((Q x2 j).map (·.1)) := by
        intro i j hi hj
        rw [hQ1 i hi, hQ2 j hj]
        exact hdom.mono (fun _ h => List.mem_of_mem_drop h) (fun _ h => List.mem_of_mem_drop h)
      generalize hf : fill a true x1 x2 = f
      -- values of the last row
      have hrow : ∀ j, j < seq.length →
          f.m (orf.length - 1) j ≤ W (schemeOf a) orf ∧
          (f.m (orf.length - 1) j = W (schemeOf a) orf ↔ orf <+: seq.drop (seq.length - 1 - j)) := by
        intro j hj
        have hq1 := hQ1 (orf.length - 1) (by omega)
        have e0 : orf.length - 1 - (orf.length - 1) = 0 := by omega
        rw [e0, List.drop_zero] at hq1
        rw [← hf, fill_m, if_pos ⟨by omega, by omega⟩]
        have h1 := cell_val_le (schemeOf a) hgap.1 hgap.2 a rfl rfl _ _ (hsubQ (orf.length - 1) j) (hdQ _ _ (by omega) hj)
        have h2 := cell_val_eq_iff (schemeOf a) hgap.1 hgap.2 a rfl rfl _ _ (hsubQ (orf.length - 1) j) (hdQ _ _ (by omega) hj)
        rw [hq1] at h1 h2
        rw [hQ2 j hj] at h2
        exact ⟨h1, h2⟩
      -- the unique maximal cell of that row
      have hjs : post.length + orf.length - 1 < seq.length := by omega
      have hdropstar : seq.drop pre.length = orf ++ post := by
        rw [← hseq, List.append_assoc, List.drop_left]
      have hbest : lastRowBest f.m (orf.reverse.length - 1) seq.reverse.length =
          ⟨W (schemeOf a) orf, orf.length - 1, post.length + orf.length - 1⟩ := by
        simp only [List.length_reverse]
        apply lastRowBest_unique
        · exact W_pos (schemeOf a) orf hne (fun x hx => (hdom x hx).1)
        · exact hjs
        · apply (hrow _ hjs).2.mpr
          have : seq.length - 1 - (post.length + orf.length - 1) = pre.length := by omega
          rw [this, hdropstar]; exact List.prefix_append _ _
        · exact fun j hj => (hrow j hj).1
        · intro j hj he
          have := honce _ ((hrow j hj).2.mp he)
          omega
      rw [hbest]
      simp only []
      -- the trace along the occurrence is diagonal
      have htr : ∀ d, d < orf.length - 1 + 1 →
          f.t (orf.length - 1 + 1 - 1 - d) (post.length + orf.length - 1 + 1 - 1 - d) = Dir.diag := by
        intro d hd
        have hi : orf.length - 1 + 1 - 1 - d < orf.length := by omega
        have hj : post.length + orf.length - 1 + 1 - 1 - d < seq.length := by omega
        rw [← hf, fill_t a x1 x2 _ _ (by omega) (by omega)]
        apply cell_tr_diag (schemeOf a) hgap.1 hgap.2 a rfl rfl _ _ (Q_ne_nil (by omega)) (hsubQ _ _) (hdQ _ _ hi hj)
        rw [hQ1 _ hi, hQ2 _ hj]
        have e1 : orf.length - 1 - (orf.length - 1 + 1 - 1 - d) = d := by omega
        have e2 : seq.length - 1 - (post.length + orf.length - 1 + 1 - 1 - d) = pre.length + d := by omega
        rw [e1, e2, ← List.drop_drop, hdropstar, List.drop_append_of_le_length (by omega)]
        exact List.prefix_append _ _
      have hloop := btLoopATG_diag a.gapopen a.gapextend f.m f.t orf.reverse seq.reverse
        (orf.length - 1 + 1) (post.length + orf.length - 1 + 1)
        (orf.length - 1 + (post.length + orf.length - 1) + 2) {} (by omega) (by omega) htr
      rw [hloop]
      simp only []
      have hrun := diagRun_eq orf.reverse seq.reverse (orf.length - 1 + 1) (orf.length - 1 + 1)
        (post.length + orf.length - 1 + 1) {} (Nat.le_refl _) (by omega) (by simp; omega)
        (by
          intro d hd
          have e1 : post.length + orf.length - 1 + 1 - 1 - d = post.length + (orf.length - 1 - d) := by omega
          have e2 : orf.length - 1 + 1 - 1 - d = orf.length - 1 - d := by omega
          rw [e1, e2, ← hseq]
          exact getD_reverse_mid pre orf post _ (by omega))
      rw [hrun]
      have et : (orf.reverse.drop (orf.length - 1 + 1 - (orf.length - 1 + 1))).take (orf.length - 1 + 1) = orf.reverse := by
        rw [Nat.sub_self, List.drop_zero, List.take_of_length_le (by simp; omega)]
      simp only [et, List.append_nil, List.reverse_reverse, AtgOutcome.ok.injEq, AtgResult.mk.injEq]
      refine ⟨trivial, ?_, ?_, ?_, ?_, ?_, ?_, trivial, trivial, trivial, trivial⟩ <;> omega

/-! ### any other sequence: no panic, and the score is at most the reference's self-score -/

theorem lastRowBest_le (m : Nat → Nat → Int) (row l2 : Nat) (T : Int) (hT : 0 ≤ T)
    (h : ∀ j, j < l2 → m row j ≤ T) :
    (lastRowBest m row l2).score ≤ T ∧ (lastRowBest m row l2).i ≤ row ∧ (lastRowBest m row l2).j + 1 ≤ max l2 1 := by
  unfold lastRowBest
  have key : ∀ k, k ≤ l2 →
      let b := (List.range k).foldl (fun b j => if m row j > b.score then (⟨m row j, row, j⟩ : Best) else b) ⟨0, 0, 0⟩
      b.score ≤ T ∧ b.i ≤ row ∧ b.j + 1 ≤ max k 1 := by
    intro k
    induction k with
    | zero => intro _; exact ⟨hT, Nat.zero_le _, by simp⟩
    | succ k ih =>
      intro hk
      obtain ⟨i1, i2, i3⟩ := ih (by omega)
      simp only [List.range_succ, List.foldl_append, List.foldl_cons, List.foldl_nil]
      generalize (List.range k).foldl (fun b j => if m row j > b.score then (⟨m row j, row, j⟩ : Best) else b) ⟨0, 0, 0⟩ = b at i1 i2 i3
      have := h k (by omega)
      split
      · exact ⟨this, Nat.le_refl _, by show k + 1 ≤ max (k + 1) 1; omega⟩
      · exact ⟨i1, i2, by omega⟩
  exact key l2 (Nat.le_refl _)

/-- the un-stopped loop returns (no Go panic) when no cell of row 0 says `UP` and no cell of column 0 `LEFT` -/
theorem btLoopATG_total (gopen gext : Int) (m : Nat → Nat → Int) (tr : Nat → Nat → Dir)
    (s1 s2 : Seq) (l1 l2 : Nat) (hup : ∀ j, j < l2 → tr 0 j ≠ Dir.up) (hleft : ∀ i, i < l1 → tr i 0 ≠ Dir.left) :
    ∀ (f pi pj : Nat) (st : BT), pi ≤ l1 → pj ≤ l2 →
      (btLoopATG gopen gext m tr s1 s2 f pi pj st).isSome := by
  intro f
  induction f with
  | zero => intro pi pj st _ _; rfl
  | succ f ih =>
    intro pi pj st h1 h2
    simp only [btLoopATG]
    split
    · rfl
    · rename_i hz
      cases htr : tr (pi - 1) (pj - 1) with
      | diag =>
        simp only [btStep, htr]
        exact ih _ _ _ (by omega) (by omega)
      | up =>
        simp only [btStep, htr]
        by_cases h0 : pi - 1 = 0
        · exact absurd (h0 ▸ htr) (hup (pj - 1) (by omega))
        · simp only [h0, if_false]
          exact ih _ _ _ (by omega) h2
      | left =>
        simp only [btStep, htr]
        by_cases h0 : pj - 1 = 0
        · exact absurd (h0 ▸ htr) (hleft (pi - 1) (by omega))
        · simp only [h0, if_false]
          exact ih _ _ _ h1 (by omega)

theorem lastRowBest_range (m : Nat → Nat → Int) (row l2 : Nat) :
    (lastRowBest m row l2).i ≤ row ∧ (lastRowBest m row l2).j + 1 ≤ max l2 1 := by
  unfold lastRowBest
  have key : ∀ k, k ≤ l2 →
      let b := (List.range k).foldl (fun b j => if m row j > b.score then (⟨m row j, row, j⟩ : Best) else b) ⟨0, 0, 0⟩
      b.i ≤ row ∧ b.j + 1 ≤ max k 1 := by
    intro k
    induction k with
    | zero => intro _; exact ⟨Nat.zero_le _, by simp⟩
    | succ k ih =>
      intro hk
      obtain ⟨i2, i3⟩ := ih (by omega)
      simp only [List.range_succ, List.foldl_append, List.foldl_cons, List.foldl_nil]
      generalize (List.range k).foldl (fun b j => if m row j > b.score then (⟨m row j, row, j⟩ : Best) else b) ⟨0, 0, 0⟩ = b at i2 i3
      split
      · exact ⟨Nat.le_refl _, by show k + 1 ≤ max (k + 1) 1; omega⟩
      · exact ⟨i2, by omega⟩
  exact key l2 (Nat.le_refl _)

/-- **the repaired `ALIGN_ALGO_ATG` aligner never indexes out of range**, whatever the sequences and scores -/
theorem alignATG_never_panics (a : Aligner) (s1 s2 : Seq) : alignATG a true s1 s2 ≠ AtgOutcome.panic := by
  simp only [alignATG]
  split
  · simp
  · rename_i hne
    simp only [Bool.true_and, Bool.or_eq_true, List.isEmpty_iff, not_or] at hne
    have hp1 : 0 < s1.length := List.length_pos_iff.mpr hne.1
    have hp2 : 0 < s2.length := List.length_pos_iff.mpr hne.2
    split
    · rename_i i1 i2 hi1 hi2
      rw [if_neg (by simp [hne.1, hne.2])]
      have hl1 : i1.length = s1.length := by rw [mapM_length _ _ _ hi1]; simp
      have hl2 : i2.length = s2.length := by rw [mapM_length _ _ _ hi2]; simp
      generalize hx1 : s1.reverse.zip i1 = x1
      generalize hx2 : s2.reverse.zip i2 = x2
      have hx1l : x1.length = s1.length := by rw [← hx1]; simp [List.length_zip]; omega
      have hx2l : x2.length = s2.length := by rw [← hx2]; simp [List.length_zip]; omega
      obtain ⟨b2, b3⟩ := lastRowBest_range (fill a true x1 x2).m (s1.reverse.length - 1) s2.reverse.length
      simp only [List.length_reverse] at b2 b3
      have htot := btLoopATG_total a.gapopen a.gapextend (fill a true x1 x2).m (fill a true x1 x2).t
        s1.reverse s2.reverse x1.length x2.length
        (fun j hj => fill_no_up_row0 a _ _ (by omega) j hj)
        (fun i hi => fill_no_left_col0 a _ _ (by omega) i hi)
        ((lastRowBest (fill a true x1 x2).m (s1.reverse.length - 1) s2.reverse.length).i +
          (lastRowBest (fill a true x1 x2).m (s1.reverse.length - 1) s2.reverse.length).j + 2)
        ((lastRowBest (fill a true x1 x2).m (s1.reverse.length - 1) s2.reverse.length).i + 1)
        ((lastRowBest (fill a true x1 x2).m (s1.reverse.length - 1) s2.reverse.length).j + 1) {}
        (by simp only [List.length_reverse]; omega) (by simp only [List.length_reverse]; omega)
      cases hloop : btLoopATG a.gapopen a.gapextend (fill a true x1 x2).m (fill a true x1 x2).t
          s1.reverse s2.reverse
          ((lastRowBest (fill a true x1 x2).m (s1.reverse.length - 1) s2.reverse.length).i +
            (lastRowBest (fill a true x1 x2).m (s1.reverse.length - 1) s2.reverse.length).j + 2)
          ((lastRowBest (fill a true x1 x2).m (s1.reverse.length - 1) s2.reverse.length).i + 1)
          ((lastRowBest (fill a true x1 x2).m (s1.reverse.length - 1) s2.reverse.length).j + 1) {} with
      | none => rw [hloop] at htot; simp at htot
      | some v => simp
    · simp

/-- **no alignment anchored at the reference's start beats the reference's self-score, and the repaired
aligner does not panic**: for any sequence `tmp`, under a dominant scheme -/
theorem alignATG_score_le (a : Aligner) (orf tmp : Seq)
    (hgap : a.gapopen ≤ a.gapextend ∧ a.gapextend < 0) (hne : orf ≠ [])
    (hdom : Dom (schemeOf a) orf tmp) :
    alignATG a true orf tmp = AtgOutcome.err ∨
    ∃ r, alignATG a true orf tmp = AtgOutcome.ok r ∧ r.score ≤ W (schemeOf a) orf := by
  have hm : 0 < orf.length := List.length_pos_iff.mpr hne
  simp only [alignATG]
  by_cases hte : tmp = []
  · left; simp [hte]
  have hn : 0 < tmp.length := List.length_pos_iff.mpr hte
  rw [if_neg (by simp [hne, hte])]
  cases hi1 : seqToIndices a orf.reverse with
  | none => left; rfl
  | some i1 =>
    cases hi2 : seqToIndices a tmp.reverse with
    | none => left; rfl
    | some i2 =>
      right
      simp only []
      rw [if_neg (by simp [hne, hte])]
      have hl1 : i1.length = orf.length := by rw [mapM_length _ _ _ hi1]; simp
      have hl2 : i2.length = tmp.length := by rw [mapM_length _ _ _ hi2]; simp
      generalize hx1 : orf.reverse.zip i1 = x1
      generalize hx2 : tmp.reverse.zip i2 = x2
      have hm1 : x1.map (·.1) = orf.reverse := by rw [← hx1]; exact List.map_fst_zip (by simp; omega)
      have hm2 : x2.map (·.1) = tmp.reverse := by rw [← hx2]; exact List.map_fst_zip (by simp; omega)
      have hx1l : x1.length = orf.length := by rw [← hx1]; simp [List.length_zip]; omega
      have hx2l : x2.length = tmp.length := by rw [← hx2]; simp [List.length_zip]; omega
      have hsub : ∀ c1 ∈ x1, ∀ c2 ∈ x2, matchScore a c1 c2 = (schemeOf a).sub c1.1 c2.1 := by
        rw [← hx1, ← hx2]; exact hsub_of_indices a _ _ i1 i2 hi1 hi2
      have hrow : ∀ j, j < tmp.length → (fill a true x1 x2).m (orf.length - 1) j ≤ W (schemeOf a) orf := by
        intro j hj
        rw [fill_m, if_pos ⟨by omega, by omega⟩]
        have hq1 : (Q x1 (orf.length - 1)).map (·.1) = orf := by
          rw [Q_map, hm1, Q_reverse _ _ (by omega)]
          have : orf.length - 1 - (orf.length - 1) = 0 := by omega
          rw [this, List.drop_zero]
        have hq2 : (Q x2 j).map (·.1) = tmp.drop (tmp.length - 1 - j) := by
          rw [Q_map, hm2, Q_reverse _ _ hj]
        have h1 := cell_val_le (schemeOf a) hgap.1 hgap.2 a rfl rfl (Q x1 (orf.length - 1)) (Q x2 j)
          (fun c1 h1 c2 h2 => hsub c1 (Q_subset h1) c2 (Q_subset h2))
          (by rw [hq1, hq2]; exact hdom.mono (fun _ h => h) (fun _ h => List.mem_of_mem_drop h))
        rw [hq1] at h1
        exact h1
      have hW : 0 ≤ W (schemeOf a) orf := W_nonneg _ orf (fun x hx => (hdom x hx).1)
      obtain ⟨b1, b2, b3⟩ := lastRowBest_le (fill a true x1 x2).m (orf.reverse.length - 1) tmp.reverse.length
        (W (schemeOf a) orf) hW (by simpa using hrow)
      simp only [List.length_reverse] at b2 b3
      have htot := btLoopATG_total a.gapopen a.gapextend (fill a true x1 x2).m (fill a true x1 x2).t
        orf.reverse tmp.reverse x1.length x2.length
        (fun j hj => fill_no_up_row0 a _ _ (by omega) j hj)
        (fun i hi => fill_no_left_col0 a _ _ (by omega) i hi)
        ((lastRowBest (fill a true x1 x2).m (orf.reverse.length - 1) tmp.reverse.length).i +
          (lastRowBest (fill a true x1 x2).m (orf.reverse.length - 1) tmp.reverse.length).j + 2)
        ((lastRowBest (fill a true x1 x2).m (orf.reverse.length - 1) tmp.reverse.length).i + 1)
        ((lastRowBest (fill a true x1 x2).m (orf.reverse.length - 1) tmp.reverse.length).j + 1) {}
        (by simp only [List.length_reverse]; omega) (by simp only [List.length_reverse]; omega)
      cases hloop : btLoopATG a.gapopen a.gapextend (fill a true x1 x2).m (fill a true x1 x2).t
          orf.reverse tmp.reverse
          ((lastRowBest (fill a true x1 x2).m (orf.reverse.length - 1) tmp.reverse.length).i +
            (lastRowBest (fill a true x1 x2).m (orf.reverse.length - 1) tmp.reverse.length).j + 2)
          ((lastRowBest (fill a true x1 x2).m (orf.reverse.length - 1) tmp.reverse.length).i + 1)
          ((lastRowBest (fill a true x1 x2).m (orf.reverse.length - 1) tmp.reverse.length).j + 1) {} with
      | none => rw [hloop] at htot; simp at htot
      | some v => exact ⟨_, rfl, b1⟩

end Gv.Proofs.PhaseAlign
