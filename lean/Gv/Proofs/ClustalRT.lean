import Gv.Model.Fmt.Clustal
import Gv.Proofs.PhylipRT2
import Gv.Proofs.PhylipNoHang
/-!
Clustal round trip, helper development, part 1: the lexer on the writer's lines, lines that the parser only
skips (the header line with the version text, the conservation line), one written row.
-/
namespace Gv.Proofs.ClustalRT
open Gv Gv.Model Gv.Model.Fmt Gv.Model.Fmt.Clustal
open Gv.Model.Fmt.Phylip (isWS identChar afterRun parseInt64 Stop R isDigit)
open Gv.Proofs.PhylipRT (Run Res identChar_facts isWS_SP identChar_SP identChar_NL natDec_run natDec_head
  parseInt64_none)
open Gv.Proofs.FastaRT (takeWhile_append_stop)

set_option maxRecDepth 100000

/-! ### the lexer -/

/-- how the lexer classifies an identifier run -/
def classify (l : Seq) : Tok :=
  if (parseInt64 l).isSome then Tok.num l
  else if Utf8.upperLit l == [67, 76, 85, 83, 84, 65, 76] || Utf8.upperLit l == [67, 76, 85, 83, 84, 65, 76, 87] then .clustal
  else .ident l

theorem scan_run (l : Seq) (h : Run l) (x : Byte) (hx : identChar x = false) (hx0 : x ≠ 0) (rest : Seq) :
    scan (l ++ x :: rest) = some (classify l, x :: rest) := by
  obtain ⟨hne, hall⟩ := h
  cases l with
  | nil => exact absurd rfl hne
  | cons c cs =>
    obtain ⟨f1, f2, f3, _⟩ := identChar_facts c (hall c (by simp)).1
    have fw : isWS c = false := (hall c (by simp)).2
    have hcs : ∀ b ∈ cs, identChar b = true := fun b hb => (hall b (by simp [hb])).1
    obtain ⟨t1, t2⟩ := takeWhile_append_stop (p := identChar) cs x rest hcs hx
    have hx0' : (x == 0) = false := by simp [hx0]
    simp only [List.cons_append, scan, fw, f1, f2, f3, Bool.false_eq_true, if_false, t1, t2, afterRun, hx0',
      classify]

/-- one or more spaces followed by a byte that is not a blank -/
theorem scan_ws (k : Nat) (c : Byte) (hc : isWS c = false) (hc0 : c ≠ 0) (rest : Seq) :
    scan (List.replicate (k + 1) SP ++ c :: rest) = some (Tok.ws, c :: rest) := by
  have hrep : ∀ b ∈ List.replicate k SP, isWS b = true := by
    intro b hb
    rw [(List.mem_replicate.mp hb).2]; exact isWS_SP
  obtain ⟨_, t2⟩ := takeWhile_append_stop (p := isWS) (List.replicate k SP) c rest hrep hc
  have hc0' : (c == 0) = false := by simp [hc0]
  simp only [List.replicate_succ, List.cons_append, scan, isWS_SP, if_true, t2, afterRun, hc0',
    Bool.false_eq_true, if_false]

theorem scan_nl (rest : Seq) : scan (NL :: rest) = some (Tok.eol, rest) := by
  simp [scan, isWS, NL, SP, TAB]

theorem scan_nil : scan [] = some (Tok.eof, []) := rfl

theorem st_scan (inp : Seq) (l t : Tok) (r : Seq) (h : scan inp = some (t, r)) :
    St.scan ⟨inp, l, false⟩ = .ok (t, ⟨r, t, false⟩) := by
  simp [St.scan, h]

theorem st_scan_pushed (inp : Seq) (l : Tok) : St.scan ⟨inp, l, true⟩ = .ok (l, ⟨inp, l, false⟩) := by
  simp [St.scan]

theorem scanWithEOL_of (s s1 : St) (t : Tok) (h : s.scan = .ok (t, s1)) (ht : (t != .eol) = true) :
    scanWithEOL s = .ok (t, s1) := by
  unfold scanWithEOL
  simp [h, bind, Except.bind, ht, pure, Except.pure]

/-! ### lines that are only skipped -/

/-- text without line end, carriage return or NUL -/
def NoEol (v : Seq) : Prop := ∀ b ∈ v, (b == NL) = false ∧ (b == CR) = false ∧ (b == 0) = false

theorem dropWhile_append_stop {p : Byte → Bool} (x : Byte) (r : Seq) (hx : p x = false) : ∀ (l : Seq),
    (l ++ x :: r).dropWhile p = l.dropWhile p ++ x :: r
  | [] => by simp [hx]
  | a :: t => by
    by_cases ha : p a = true
    · simp [ha, dropWhile_append_stop x r hx t]
    · simp [ha]

theorem takeWhile_append_stop' {p : Byte → Bool} (x : Byte) (r : Seq) (hx : p x = false) : ∀ (l : Seq),
    (l ++ x :: r).takeWhile p = l.takeWhile p
  | [] => by simp [hx]
  | a :: t => by
    by_cases ha : p a = true
    · simp [ha, takeWhile_append_stop' x r hx t]
    · simp [ha]

theorem noEol_dropWhile (p : Byte → Bool) (v : Seq) (h : NoEol v) : NoEol (v.dropWhile p) :=
  fun b hb => h b ((List.dropWhile_sublist p).subset hb)

theorem afterRun_line (v : Seq) (hv : NoEol v) (R : Seq) : afterRun (v ++ NL :: R) = v ++ NL :: R := by
  cases v with
  | nil => simp [afterRun, NL]
  | cons b t => simp [afterRun, (hv b (by simp)).2.2]

/-- one token of a line: the rest is again a piece of the line -/
theorem scan_step (c : Byte) (cs : Seq) (hv : NoEol (c :: cs)) (R : Seq) :
    ∃ t v', scan (c :: cs ++ NL :: R) = some (t, v' ++ NL :: R) ∧ (t != .eol) = true ∧ (t != .eof) = true ∧
      v'.length ≤ cs.length ∧ NoEol v' ∧ (isWS c = true → t = .ws) := by
  obtain ⟨c1, c2, c3⟩ := hv c (by simp)
  have hcs : NoEol cs := fun b hb => hv b (by simp [hb])
  by_cases hw : isWS c = true
  · refine ⟨.ws, cs.dropWhile isWS, ?_, by decide, by decide, Gv.Proofs.PhylipNoHang.length_dropWhile_le _ _,
      noEol_dropWhile _ _ hcs, fun _ => rfl⟩
    have : isWS NL = false := by decide
    simp only [List.cons_append, scan, hw, if_true, dropWhile_append_stop NL R this cs,
      afterRun_line _ (noEol_dropWhile _ _ hcs)]
  · have hw' : isWS c = false := by simpa using hw
    refine ⟨classify (c :: cs.takeWhile identChar), cs.dropWhile identChar, ?_, ?_, ?_,
      Gv.Proofs.PhylipNoHang.length_dropWhile_le _ _, noEol_dropWhile _ _ hcs, fun h => absurd h hw⟩
    · simp only [List.cons_append, scan, hw', c1, c2, c3, Bool.false_eq_true, if_false,
        dropWhile_append_stop NL R identChar_NL cs, takeWhile_append_stop' NL R identChar_NL cs,
        afterRun_line _ (noEol_dropWhile _ _ hcs), classify]
    · unfold classify; split <;> (try split) <;> simp
    · unfold classify; split <;> (try split) <;> simp

/-- the conservation line: `for tok != ENDOFLINE && tok != EOF { tok = scan() }` ends on its line end -/
theorem skipLine_line : ∀ (fuel : Nat) (v : Seq), NoEol v → v.length + 2 ≤ fuel → ∀ (tok : Tok) (l : Tok) (R : Seq),
    (tok != .eol) = true → (tok != .eof) = true →
    skipLine fuel tok ⟨v ++ NL :: R, l, false⟩ = .ok (.eol, ⟨R, .eol, false⟩) := by
  intro fuel
  induction fuel with
  | zero => intro v _ h; omega
  | succ f ih =>
    intro v hv hf tok l R h1 h2
    rw [skipLine]
    simp only [h1, h2, Bool.and_self, if_true]
    cases v with
    | nil =>
      obtain ⟨f', rfl⟩ : ∃ f', f = f' + 1 := ⟨f - 1, by simp at hf; omega⟩
      simp only [List.nil_append, st_scan _ _ _ _ (scan_nl R), bind, Except.bind]
      rw [skipLine]
      simp [pure, Except.pure]
    | cons c cs =>
      obtain ⟨t, v', hs, ht1, ht2, hl, hv', _⟩ := scan_step c cs hv R
      simp only [st_scan _ _ _ _ hs, bind, Except.bind]
      exact ih v' hv' (by simp only [List.length_cons] at hf; omega) t t R ht1 ht2

/-- the header line: `for tok != ENDOFLINE && tok != EOF { tok = scanWithEOL() }` ends with what
`scanWithEOL` makes of its line end and the empty lines after it -/
theorem skipHeader_line (R : Seq) (s0 : St) (hR : ∀ l, scanWithEOL ⟨NL :: R, l, false⟩ = .ok (.eol, s0)) :
    ∀ (fuel : Nat) (v : Seq), NoEol v → v.length + 2 ≤ fuel → ∀ (tok : Tok) (l : Tok),
    (tok != .eol) = true → (tok != .eof) = true →
    skipHeader fuel tok ⟨v ++ NL :: R, l, false⟩ = .ok (.eol, s0) := by
  intro fuel
  induction fuel with
  | zero => intro v _ h; omega
  | succ f ih =>
    intro v hv hf tok l h1 h2
    rw [skipHeader]
    simp only [h1, h2, Bool.and_self, if_true]
    cases v with
    | nil =>
      obtain ⟨f', rfl⟩ : ∃ f', f = f' + 1 := ⟨f - 1, by simp at hf; omega⟩
      simp only [List.nil_append, hR, bind, Except.bind]
      rw [skipHeader]
      simp [pure, Except.pure]
    | cons c cs =>
      obtain ⟨t, v', hs, ht1, ht2, hl, hv', _⟩ := scan_step c cs hv R
      simp only [scanWithEOL_of _ _ _ (st_scan _ _ _ _ hs) ht1, bind, Except.bind]
      exact ih v' hv' (by simp only [List.length_cons] at hf; omega) t t ht1 ht2

/-! ### one written row -/

/-- a segment of residues: a run that is neither a number nor the header word -/
def SegOk (sg : Seq) : Prop := Run sg ∧ classify sg = .ident sg

/-- the row after its name: blanks, residues, one blank, the cumulative count, line end -/
def rowTail (k : Nat) (sg : Seq) (e : Nat) : Seq :=
  List.replicate (k + 1) SP ++ sg ++ SP :: (natDec e ++ [NL])

theorem scan_num (n : Nat) (hn : n ≤ 9223372036854775807) (x : Byte) (hx : identChar x = false) (hx0 : x ≠ 0)
    (rest : Seq) : scan (natDec n ++ x :: rest) = some (Tok.num (natDec n), x :: rest) := by
  rw [scan_run _ (natDec_run n) x hx hx0 rest]
  simp [classify, Decimal.parseInt64_natDec n hn]

/-- `name WS sequence WS count EOL` read by `row`, the name token being `tok` -/
theorem row_written (nm : Name) (tok : Tok) (htok : tok = .ident nm ∨ tok = .num nm) (k : Nat) (sg : Seq)
    (hsg : SegOk sg) (e : Nat) (he : e ≤ 9223372036854775807) (T : Seq) (l : Tok) :
    row tok ⟨rowTail k sg e ++ T, l, false⟩ = .ok (nm, sg, .eol, ⟨T, .eol, false⟩) := by
  obtain ⟨⟨hne, hall⟩, hcl⟩ := hsg
  obtain ⟨c0, c', rfl⟩ : ∃ c0 c', sg = c0 :: c' := by
    cases sg with
    | nil => exact absurd rfl hne
    | cons a b => exact ⟨a, b, rfl⟩
  have hc0 := hall c0 (by simp)
  obtain ⟨d, ds, hd, hdw, hd0⟩ := natDec_head e
  have e0 : rowTail k (c0 :: c') e ++ T =
      List.replicate (k + 1) SP ++ c0 :: (c' ++ SP :: (natDec e ++ NL :: T)) := by
    simp [rowTail, List.append_assoc]
  have h1 := scan_ws k c0 hc0.2 (identChar_facts c0 hc0.1).2.2.2 (c' ++ SP :: (natDec e ++ NL :: T))
  have h2 := scan_run (c0 :: c') ⟨hne, hall⟩ SP identChar_SP (by decide) (natDec e ++ NL :: T)
  rw [hcl, List.cons_append] at h2
  have h3 : scan (SP :: (natDec e ++ NL :: T)) = some (Tok.ws, natDec e ++ NL :: T) := by
    have := scan_ws 0 d hdw hd0 (ds ++ NL :: T)
    simpa [hd, List.replicate] using this
  have h4 := scan_num e he NL identChar_NL (by decide) T
  have h5 := scan_nl T
  rw [e0]
  unfold row
  cases htok with
  | inl ht =>
    subst ht
    simp only [bind, Except.bind, pure, Except.pure, st_scan _ _ _ _ h1, bne_self_eq_false, Bool.false_eq_true,
      if_false]
    simp only [st_scan _ _ _ _ h2, st_scan _ _ _ _ h3, st_scan _ _ _ _ h4,
      st_scan _ _ _ _ h5, beq_self_eq_true, if_true, bne_self_eq_false, Bool.false_eq_true, if_false]
  | inr ht =>
    subst ht
    simp only [bind, Except.bind, pure, Except.pure, st_scan _ _ _ _ h1, bne_self_eq_false, Bool.false_eq_true,
      if_false]
    simp only [st_scan _ _ _ _ h2, st_scan _ _ _ _ h3, st_scan _ _ _ _ h4,
      st_scan _ _ _ _ h5, beq_self_eq_true, if_true, bne_self_eq_false, Bool.false_eq_true, if_false]

end Gv.Proofs.ClustalRT
