import Gv.Model.Weights
import Gv.NumReal
import Mathlib.Tactic.NormNum
import Mathlib.Tactic.Positivity
import Mathlib.Tactic.Linarith
import Mathlib.Tactic.Ring
import Mathlib.Tactic.FieldSimp
import Mathlib.Analysis.SpecialFunctions.Log.Basic
import Mathlib.Analysis.SpecialFunctions.Pow.Real
/-!
Helper development for C20: postconditions of `FProg` programs over **all answer tapes**, and the
positivity of the three branches of `stats.gamma` over `ℝ`.  Imports Mathlib — never imported by the oracle.
-/
namespace Gv.Proofs.WeightsTape
open Gv Gv.Model Gv.Model.FProg Gv.Model.Weights

/-- `Post A p Q`: on every tape whose entries satisfy `A`, every result of `p` satisfies `Q` (and the
unread tape still satisfies `A`) -/
def Post {α : Type} (A : ℝ → Prop) (p : FProg ℝ α) (Q : α → Prop) : Prop :=
  ∀ t : List ℝ, (∀ u ∈ t, A u) → ∀ r t', runTape p t = some (r, t') → Q r ∧ (∀ u ∈ t', A u)

theorem Post.pure {α} {A : ℝ → Prop} {Q : α → Prop} {a : α} (h : Q a) : Post A (.pure a) Q := by
  intro t ht r t' hr
  simp only [runTape, Option.some.injEq, Prod.mk.injEq] at hr
  obtain ⟨rfl, rfl⟩ := hr
  exact ⟨h, ht⟩

theorem Post.unit {α} {A : ℝ → Prop} {Q : α → Prop} {k : ℝ → FProg ℝ α}
    (h : ∀ u, A u → Post A (k u) Q) : Post A (.unit k) Q := by
  intro t ht r t' hr
  cases t with
  | nil => simp [runTape] at hr
  | cons u t =>
    simp only [runTape] at hr
    exact h u (ht u (by simp)) t (fun v hv => ht v (by simp [hv])) r t' hr

theorem Post.bind {α β} {A : ℝ → Prop} {p : FProg ℝ α} {f : α → FProg ℝ β} {Q₁ : α → Prop} {Q₂ : β → Prop}
    (hp : Post A p Q₁) (hf : ∀ a, Q₁ a → Post A (f a) Q₂) : Post A (FProg.bind p f) Q₂ := by
  intro t ht r t' hr
  rw [runTape_bind] at hr
  cases hpt : runTape p t with
  | none => simp [hpt] at hr
  | some v =>
    obtain ⟨a, t₁⟩ := v
    simp only [hpt, Option.bind_some] at hr
    obtain ⟨hq, ht₁⟩ := hp t ht a t₁ hpt
    exact hf a hq t₁ ht₁ r t' hr

theorem Post.mono {α} {A : ℝ → Prop} {p : FProg ℝ α} {Q Q' : α → Prop}
    (hp : Post A p Q) (h : ∀ a, Q a → Q' a) : Post A p Q' :=
  fun t ht r t' hr => ⟨h r (hp t ht r t' hr).1, (hp t ht r t' hr).2⟩

/-- the trivial postcondition: the unread tape is a suffix of the tape -/
theorem Post.trivial {α} {A : ℝ → Prop} (p : FProg ℝ α) : Post A p (fun _ => True) := by
  induction p with
  | pure a => exact Post.pure True.intro
  | unit k ih => exact Post.unit fun u _ => ih u

theorem Post.result {α} {A : ℝ → Prop} {p : FProg ℝ α} {Q : α → Prop} (hp : Post A p Q)
    {t : List ℝ} (ht : ∀ u ∈ t, A u) {r : α} {t' : List ℝ} (hr : runTape p t = some (r, t')) : Q r :=
  (hp t ht r t' hr).1

/-! ## constants over ℝ -/

@[simp] theorem c1em7_real : (c1em7 : ℝ) = 1 / 10000000 := by simp [c1em7]
@[simp] theorem c9999999_real : (c9999999 : ℝ) = 9999999 / 10000000 := by simp [c9999999]
@[simp] theorem accurate_real : (accurate : ℝ) = 1 / 100000000 := by simp [accurate]
theorem cE_real : (cE : ℝ) = Real.exp 1 := by simp [cE]
theorem cE_pos : 0 < (cE : ℝ) := by rw [cE_real]; exact Real.exp_pos 1

/-! ## the three branches of `stats.gamma` -/

/-- `alpha > 1` (Cheng): every accepted value is `alpha · e^v · beta > 0` — for every tape -/
theorem gammaCheng_post (A : ℝ → Prop) {alpha beta : ℝ} (ha : 0 < alpha) (hb : 0 < beta) (fuel : ℕ) :
    Post A (gammaCheng alpha beta fuel) (fun r => ∀ x, r = some x → 0 < x) := by
  induction fuel with
  | zero => exact Post.pure (by intro x h; cases h)
  | succ n ih =>
    unfold gammaCheng
    refine Post.unit fun u1 _ => ?_
    split
    · exact ih
    · refine Post.unit fun d2 _ => ?_
      simp only []
      split
      · refine Post.pure ?_
        intro x hx
        simp only [Option.some.injEq] at hx
        subst hx
        simp only [RealLike.real_exp]
        have := Real.exp_pos (RealLike.log (u1 / (1 - u1)) / RealLike.sqrt (2 * alpha - 1))
        positivity
      · exact ih

/-- `alpha == 1`: every accepted value is `-log u · beta` with `1e-7 < u < 1`, hence `> 0` -/
theorem gammaOne_post {A : ℝ → Prop} (hA : ∀ u, A u → u < 1) {beta : ℝ} (hb : 0 < beta) (fuel : ℕ) :
    Post A (gammaOne beta fuel) (fun r => ∀ x, r = some x → 0 < x) := by
  induction fuel with
  | zero => exact Post.pure (by intro x h; cases h)
  | succ n ih =>
    unfold gammaOne
    refine Post.unit fun u hu => ?_
    split
    · exact ih
    · rename_i hle
      refine Post.pure ?_
      intro x hx
      simp only [Option.some.injEq] at hx
      subst hx
      simp only [RealLike.real_leb, c1em7_real, decide_eq_true_eq, not_le] at hle
      simp only [RealLike.real_log]
      have h0 : 0 < u := lt_trans (by norm_num) hle
      have : Real.log u < 0 := Real.log_neg h0 (hA u hu)
      exact mul_pos (by linarith) hb

theorem kgB_real (alpha : ℝ) : kgB alpha = (Real.exp 1 + alpha) / Real.exp 1 := by simp [kgB, cE_real]

theorem kgB_gt_one {alpha : ℝ} (ha : 0 < alpha) : 1 < kgB alpha := by
  rw [kgB_real, lt_div_iff₀ (Real.exp_pos 1)]; linarith

theorem kgB_sub_one (alpha : ℝ) : kgB alpha - 1 = alpha / Real.exp 1 := by
  rw [kgB_real]; field_simp; ring

/-- the two-piece inverse of the `alpha < 1` branch is positive for `0 < u < 1` -/
theorem kgX_pos {alpha u : ℝ} (ha : 0 < alpha) (hu0 : 0 < u) (hu1 : u < 1) : 0 < kgX alpha u := by
  have hb := kgB_gt_one ha
  have hb0 : 0 < kgB alpha := by linarith
  unfold kgX
  simp only [RealLike.real_leb, RealLike.real_pow, RealLike.real_log, RealLike.real_one]
  split
  · exact Real.rpow_pos_of_pos (mul_pos hb0 hu0) _
  · rename_i h
    simp only [decide_eq_true_eq, not_le] at h
    -- 0 < (b - p)/alpha < 1/e < 1
    have h1 : 0 < (kgB alpha - kgB alpha * u) / alpha := by
      apply div_pos _ ha
      have : kgB alpha * u < kgB alpha * 1 := mul_lt_mul_of_pos_left hu1 hb0
      linarith
    have h2 : (kgB alpha - kgB alpha * u) / alpha < 1 := by
      rw [div_lt_one ha]
      have e := kgB_sub_one alpha
      have he : alpha / Real.exp 1 < alpha := by
        rw [div_lt_iff₀ (Real.exp_pos 1)]
        have : (1 : ℝ) < Real.exp 1 := by
          have := Real.add_one_lt_exp (x := 1) (by norm_num); linarith
        nlinarith
      linarith
    have := Real.log_neg h1 h2
    linarith

/-- … and non-negative for `0 ≤ u < 1` (`u = 0` gives exactly `0`, see `kgX_zero`) -/
theorem kgX_nonneg {alpha u : ℝ} (ha : 0 < alpha) (hu0 : 0 ≤ u) (hu1 : u < 1) : 0 ≤ kgX alpha u := by
  rcases hu0.lt_or_eq with h | h
  · exact (kgX_pos ha h hu1).le
  · subst h
    unfold kgX
    simp only [RealLike.real_leb, RealLike.real_pow, mul_zero]
    rw [if_pos (by simp)]
    exact Real.rpow_nonneg le_rfl _

theorem kgX_zero {alpha : ℝ} (ha : 0 < alpha) : kgX alpha 0 = 0 := by
  unfold kgX
  simp only [RealLike.real_leb, RealLike.real_pow, mul_zero]
  rw [if_pos (by simp)]
  exact Real.zero_rpow (by simp only [RealLike.real_one]; exact (one_div_pos.mpr ha).ne')

/-- `alpha < 1` (Kennedy & Gentle): every accepted value is `kgX alpha u · beta` -/
theorem gammaKG_post {A : ℝ → Prop} {P : ℝ → Prop} {alpha beta : ℝ}
    (hP : ∀ u, A u → P (kgX alpha u * beta)) (fuel : ℕ) :
    Post A (gammaKG alpha beta fuel) (fun r => ∀ x, r = some x → P x) := by
  induction fuel with
  | zero => exact Post.pure (by intro x h; cases h)
  | succ n ih =>
    unfold gammaKG
    refine Post.unit fun u hu => ?_
    simp only []
    refine Post.unit fun u1 _ => ?_
    split
    · split
      · refine Post.pure ?_
        intro x hx
        simp only [Option.some.injEq] at hx
        subst hx
        exact hP u hu
      · exact ih
    · split
      · refine Post.pure ?_
        intro x hx
        simp only [Option.some.injEq] at hx
        subst hx
        exact hP u hu
      · exact ih

/-- open unit interval: the answers of `rand.Float64()` other than the (probability `2^-63`) value `0` -/
def Open01 (u : ℝ) : Prop := 0 < u ∧ u < 1
/-- `[0, 1)`: every answer of `rand.Float64()` -/
def Unit01 (u : ℝ) : Prop := 0 ≤ u ∧ u < 1

/-- the unexported `gamma(alpha, beta)`: every value returned on draws in `(0,1)` is `> 0` -/
theorem gammaS_post {alpha beta : ℝ} (ha : 0 < alpha) (hb : 0 < beta) (fuel : ℕ) :
    Post Open01 (gammaS alpha beta fuel) (fun r => ∀ x, r = some x → 0 < x) := by
  unfold gammaS
  split
  · exact gammaCheng_post _ ha hb fuel
  · split
    · exact gammaOne_post (fun u h => h.2) hb fuel
    · exact gammaKG_post (fun u h => mul_pos (kgX_pos ha h.1 h.2) hb) fuel

/-- for `alpha ≥ 1` (both weight builders) draws in `[0,1)` suffice -/
theorem gammaS_post_of_one_le {alpha beta : ℝ} (ha : 1 ≤ alpha) (hb : 0 < beta) (fuel : ℕ) :
    Post Unit01 (gammaS alpha beta fuel) (fun r => ∀ x, r = some x → 0 < x) := by
  unfold gammaS
  split
  · exact gammaCheng_post _ (by linarith) hb fuel
  · rename_i h
    simp only [RealLike.real_ltb, RealLike.real_one, decide_eq_true_eq, not_lt] at h
    have : alpha = 1 := le_antisymm h ha
    rw [if_pos (by simp [this])]
    exact gammaOne_post (fun u h => h.2) hb fuel

end Gv.Proofs.WeightsTape
