import Gv.Model.PhaseAlign
import Gv.Proofs.SWTrace
import Gv.Proofs.PhaseAlignSpec
/-!
Helper development for C16 (matrix side): what the repaired `fillMatrix_SW` stores in the cells that lie
on a verbatim occurrence, under a diagonally dominant scheme.

* `cell_val_le`, `cell_val_eq_iff`: a cell holds at most the self-score of its (reversed) row prefix, with
  equality exactly when that prefix is a prefix of the (reversed) column prefix;
* `cell_tr_diag`: in that case the stored direction is `DIAG` (both gap candidates are strictly smaller);
* `lastRowBest_unique`: the scan of the last row finds the unique cell holding the maximum;
* `btLoopATG_diag`: the un-stopped trace-back along a run of `DIAG` cells.
-/
namespace Gv.Proofs.PhaseAlignCell
open Gv Gv.Model Gv.Model.SW Gv.Model.PhaseAlign Gv.Spec.SW Gv.Proofs.SWFill Gv.Proofs.SWTrace
  Gv.Proofs.PhaseAlignSpec

/-- `cellStep` stores `DIAG` when neither gap candidate beats the diagonal score -/
theorem cellStep_tr_diag (go ge mt d : Int) (upv leftv : Option Int) (maxa bx : NInf)
    (h1 : ∀ v, (cellStep go ge mt d upv leftv maxa bx).maxa = some v → v ≤ d + mt)
    (h2 : ∀ v, (cellStep go ge mt d upv leftv maxa bx).bx = some v → v ≤ d + mt) :
    (cellStep go ge mt d upv leftv maxa bx).tr = Dir.diag := by
  simp only [cellStep] at h1 h2 ⊢
  generalize maxa.step ge upv go = A at h1 h2 ⊢
  generalize bx.step ge leftv go = B at h1 h2 ⊢
  cases A with
  | none =>
    cases B with
    | none => simp [NInf.gt]
    | some b => have := h2 b rfl; simp [NInf.gt]; omega
  | some x =>
    have hx := h1 x rfl
    cases B with
    | none => simp [NInf.gt]; omega
    | some b =>
      have := h2 b rfl
      have e1 : ¬ (x > d + mt) := by omega
      simp [NInf.gt, e1]; omega

section
variable (S : Scheme) (hle : S.gapopen ≤ S.gapext) (hneg : S.gapext < 0)
variable (a : Aligner) (hgo : S.gapopen = a.gapopen) (hge : S.gapext = a.gapextend)
include hle hneg hgo hge

/-- a cell holds at most the self-score of its reversed row prefix -/
theorem cell_val_le (r1 r2 : List CI)
    (hsub : ∀ c1 ∈ r1, ∀ c2 ∈ r2, matchScore a c1 c2 = S.sub c1.1 c2.1)
    (hd : Dom S (r1.map (·.1)) (r2.map (·.1))) :
    (cellR a r1 r2).val ≤ W S (r1.map (·.1)) := by
  rw [(cellR_brute S hle hneg a hgo hge r1 r2 hsub).1]
  exact brute_le_W S hle hneg _ _ _ hd

/-- … with equality exactly on a verbatim occurrence -/
theorem cell_val_eq_iff (r1 r2 : List CI)
    (hsub : ∀ c1 ∈ r1, ∀ c2 ∈ r2, matchScore a c1 c2 = S.sub c1.1 c2.1)
    (hd : Dom S (r1.map (·.1)) (r2.map (·.1))) :
    (cellR a r1 r2).val = W S (r1.map (·.1)) ↔ r1.map (·.1) <+: r2.map (·.1) := by
  rw [(cellR_brute S hle hneg a hgo hge r1 r2 hsub).1]
  exact brute_eq_W_iff S hle hneg _ _ hd

/-- on a verbatim occurrence the stored direction is `DIAG` -/
theorem cell_tr_diag (r1 r2 : List CI) (hne : r1 ≠ [])
    (hsub : ∀ c1 ∈ r1, ∀ c2 ∈ r2, matchScore a c1 c2 = S.sub c1.1 c2.1)
    (hd : Dom S (r1.map (·.1)) (r2.map (·.1)))
    (hp : r1.map (·.1) <+: r2.map (·.1)) : (cellR a r1 r2).tr = Dir.diag := by
  cases r1 with
  | nil => exact absurd rfl hne
  | cons c1 r1' =>
    cases r2 with
    | nil => simp at hp
    | cons c2 r2' =>
      simp only [List.map_cons, List.cons_prefix_cons] at hp
      obtain ⟨hc, hp'⟩ := hp
      have hgoneg : S.gapopen < 0 := by omega
      -- the diagonal neighbour holds the self-score of the shorter prefix
      have hsub' : ∀ x ∈ r1', ∀ y ∈ r2', matchScore a x y = S.sub x.1 y.1 :=
        fun x hx y hy => hsub x (by simp [hx]) y (by simp [hy])
      have hd' : Dom S (r1'.map (·.1)) (r2'.map (·.1)) :=
        hd.mono (fun x hx => by simp only [List.map_cons, List.mem_cons]; exact Or.inr hx)
          (fun y hy => by simp only [List.map_cons, List.mem_cons]; exact Or.inr hy)
      have hdiag : (cellR a r1' r2').val = W S (r1'.map (·.1)) :=
        (cell_val_eq_iff S hle hneg a hgo hge r1' r2' hsub' hd').mpr hp'
      have hmt : matchScore a c1 c2 = S.sub c1.1 c1.1 := by
        rw [hsub c1 (by simp) c2 (by simp), hc]
      have hw : 0 < S.sub c1.1 c1.1 := (hd c1.1 (by simp)).1
      obtain ⟨_, hF, hE⟩ := cellR_brute S hle hneg a hgo hge (c1 :: r1') (c2 :: r2') hsub
      rw [cellR_cons_cons] at hF hE ⊢
      apply cellStep_tr_diag
      · intro v hv
        rw [hv] at hF
        rw [hdiag, hmt]
        -- `maxa` = gapopen + optimum of the prefixes above, entered in state x
        cases r1' with
        | nil => simp [Fspec] at hF
        | cons c r =>
          simp only [Fspec, Option.some.injEq] at hF
          have hdx : Dom S ((c :: r).map (·.1)) ((c2 :: r2').map (·.1)) :=
            hd.mono (fun x hx => by simp only [List.map_cons, List.mem_cons] at hx ⊢; exact Or.inr hx)
              (fun y hy => hy)
          have := brute_le_W S hle hneg ((c :: r).map (·.1)) ((c2 :: r2').map (·.1)) .x hdx
          simp only [List.map_cons, W] at this hF ⊢
          omega
      · intro v hv
        rw [hv] at hE
        rw [hdiag, hmt]
        cases r2' with
        | nil => simp [Espec] at hE
        | cons b t =>
          simp only [Espec, Option.some.injEq] at hE
          have hdy : Dom S ((c1 :: r1').map (·.1)) ((b :: t).map (·.1)) :=
            hd.mono (fun x hx => hx)
              (fun y hy => by simp only [List.map_cons, List.mem_cons] at hy ⊢; exact Or.inr hy)
          have := brute_le_W S hle hneg ((c1 :: r1').map (·.1)) ((b :: t).map (·.1)) .y hdy
          simp only [List.map_cons, W] at this hE ⊢
          omega

end

/-! ### the scan of the last row -/

theorem lastRowBest_unique (m : Nat → Nat → Int) (row l2 : Nat) (T : Int) (jstar : Nat)
    (hT : 0 < T) (hj : jstar < l2) (hv : m row jstar = T) (hle : ∀ j, j < l2 → m row j ≤ T)
    (huniq : ∀ j, j < l2 → m row j = T → j = jstar) :
    lastRowBest m row l2 = ⟨T, row, jstar⟩ := by
  unfold lastRowBest
  -- invariant over the processed prefix `range k`
  have key : ∀ k, k ≤ l2 →
      let b := (List.range k).foldl (fun b j => if m row j > b.score then (⟨m row j, row, j⟩ : Best) else b) ⟨0, 0, 0⟩
      (k ≤ jstar → b.score < T) ∧ (jstar < k → b = ⟨T, row, jstar⟩) := by
    intro k
    induction k with
    | zero => intro _; exact ⟨fun _ => hT, fun h => absurd h (Nat.not_lt_zero _)⟩
    | succ k ih =>
      intro hk
      obtain ⟨i1, i2⟩ := ih (by omega)
      simp only [List.range_succ, List.foldl_append, List.foldl_cons, List.foldl_nil]
      generalize (List.range k).foldl (fun b j => if m row j > b.score then (⟨m row j, row, j⟩ : Best) else b) ⟨0, 0, 0⟩ = b at i1 i2
      refine ⟨?_, ?_⟩
      · intro hkj
        have hb := i1 (by omega)
        have h1 := hle k (by omega)
        have h2 : m row k ≠ T := fun e => by have := huniq k (by omega) e; omega
        split
        · show m row k < T; omega
        · exact hb
      · intro hkj
        by_cases e : k = jstar
        · subst e
          have hb := i1 (Nat.le_refl _)
          rw [if_pos (by omega), hv]
        · have hb := i2 (by omega)
          subst hb
          have h1 := hle k (by omega)
          rw [if_neg (by show ¬ (m row k > T); omega)]
  exact (key l2 (Nat.le_refl _)).2 hj

/-! ### the un-stopped trace-back along a diagonal run -/

/-- `k` `DIAG` passes starting from `(pi, pj)` -/
def diagRun (s1 s2 : Seq) : Nat → Nat → Nat → BT → BT
  | 0, _, _, st => st
  | k + 1, pi, pj, st => diagRun s1 s2 k (pi - 1) (pj - 1) (st.pushDiag (s1.getD (pi - 1) 0) (s2.getD (pj - 1) 0))

theorem btLoopATG_diag (gopen gext : Int) (m : Nat → Nat → Int) (tr : Nat → Nat → Dir) (s1 s2 : Seq) :
    ∀ (pi pj f : Nat) (st : BT), pi ≤ pj → pi ≤ f →
      (∀ d, d < pi → tr (pi - 1 - d) (pj - 1 - d) = Dir.diag) →
      btLoopATG gopen gext m tr s1 s2 f pi pj st = some (0, pj - pi, diagRun s1 s2 pi pi pj st) := by
  intro pi
  induction pi with
  | zero =>
    intro pj f st _ _ _
    cases f <;> simp [btLoopATG, diagRun]
  | succ pi ih =>
    intro pj f st hle hf htr
    cases f with
    | zero => omega
    | succ f =>
      have h0 := htr 0 (by omega)
      simp only [Nat.sub_zero, Nat.add_sub_cancel] at h0
      simp only [btLoopATG]
      rw [if_neg (by omega)]
      simp only [btStep, Nat.add_sub_cancel, h0]
      rw [ih (pj - 1) f _ (by omega) (by omega)
        (fun d hd => by
          have := htr (d + 1) (by omega)
          rw [show pi + 1 - 1 - (d + 1) = pi - 1 - d by omega, show pj - 1 - (d + 1) = pj - 1 - 1 - d by omega] at this
          exact this)]
      simp only [diagRun, Nat.add_sub_cancel]
      rw [show pj - 1 - pi = pj - (pi + 1) by omega]

/-- what `k` diagonal passes over equal residues leave in the state -/
theorem diagRun_eq (s1 s2 : Seq) : ∀ (k pi pj : Nat) (st : BT), k ≤ pi → k ≤ pj → pi ≤ s1.length →
    (∀ d, d < k → s2.getD (pj - 1 - d) 0 = s1.getD (pi - 1 - d) 0) →
    diagRun s1 s2 k pi pj st =
      { r1 := (s1.drop (pi - k)).take k ++ st.r1, r2 := (s1.drop (pi - k)).take k ++ st.r2,
        nm := st.nm + k, nmm := st.nmm, ng := st.ng, len := st.len + k } := by
  intro k
  induction k with
  | zero => intro pi pj st _ _ _ _; simp [diagRun]
  | succ k ih =>
    intro pi pj st h1 h2 h3 heq
    have h0 := heq 0 (by omega)
    simp only [Nat.sub_zero] at h0
    simp only [diagRun]
    rw [ih (pi - 1) (pj - 1) _ (by omega) (by omega) (by omega)
      (fun d hd => by
        have := heq (d + 1) (by omega)
        rw [show pj - 1 - (d + 1) = pj - 1 - 1 - d by omega, show pi - 1 - (d + 1) = pi - 1 - 1 - d by omega] at this
        exact this)]
    simp only [BT.pushDiag, h0, beq_self_eq_true, if_true]
    have e : pi - 1 - k = pi - (k + 1) := by omega
    have hlt : pi - 1 < s1.length := by omega
    have hcat : (s1.drop (pi - (k + 1))).take (k + 1) = (s1.drop (pi - (k + 1))).take k ++ [s1.getD (pi - 1) 0] := by
      rw [List.take_add_one]
      congr 1
      have : pi - (k + 1) + k = pi - 1 := by omega
      simp [List.getD_eq_getElem?_getD, this, List.getElem?_eq_getElem hlt]
    rw [e, hcat]
    simp only [List.append_assoc, List.singleton_append, BT.mk.injEq, true_and]
    omega

end Gv.Proofs.PhaseAlignCell
