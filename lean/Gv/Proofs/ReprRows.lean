import Gv.Proofs.PhylipRT4
import Gv.Proofs.ClustalRT4
/-!
C02, Phylip and Clustal: what the representability predicates of `Spec/Fmt.lean` give row by row, in the
form the round-trip developments (`PhylipRT*`, `ClustalRT*`) need.  (Kept out of `Props/C02.lean` because of
the `decide`s over all bytes.)
-/
namespace Gv.Proofs.ReprRows
open Gv Gv.Model Gv.Model.Fmt
open Gv.Spec.Fmt (reprBase rectangular residuesOk distinct isPrintable isNt isAa isSpecial reprPhylip reprClustal upperName)

set_option maxRecDepth 100000

section Phylip
open Gv.Proofs.PhylipRT

theorem ph_name_byte : ∀ b : Byte, isPrintable b = true →
    Phylip.identChar b = true ∧ Phylip.isWS b = false := by decide

theorem ph_residue_byte : ∀ b : Byte, (isNt b || isSpecial b) = true ∨ (isAa b || isSpecial b) = true →
    Phylip.identChar b = true ∧ Phylip.isWS b = false ∧ Phylip.isDigit b = false ∧ b ≠ 43 := by decide

theorem ph_printable_ascii : ∀ b : Byte, isPrintable b = true → decide (b < 128) = true := by decide

/-- what `reprPhylip` gives row by row -/
theorem ph_repr_rows (strict : Bool) (rows : List XRow) (h : reprPhylip strict rows = true) :
    rows ≠ [] ∧ ∃ L, 1 ≤ L ∧ (∀ r ∈ rows, RowOk strict L r) ∧ distinct (rows.map (·.1)) = true := by
  simp only [reprPhylip, reprBase, Bool.and_eq_true, Bool.or_eq_true, Bool.not_eq_true'] at h
  obtain ⟨⟨⟨⟨hrect, hres⟩, hdist⟩, hnames⟩, hstrict⟩ := h
  cases rows with
  | nil => simp [rectangular] at hrect
  | cons r0 rs =>
    simp only [rectangular, Bool.and_eq_true, decide_eq_true_eq, List.all_eq_true, beq_iff_eq] at hrect
    have hlen : ∀ r ∈ r0 :: rs, r.2.length = r0.2.length := by
      intro r hr
      cases hr with
      | head => rfl
      | tail _ hr => exact hrect.2 r hr
    refine ⟨by simp, r0.2.length, hrect.1, ?_, hdist⟩
    intro r hr
    have hn := (List.all_eq_true.mp hnames) r hr
    simp only [Bool.and_eq_true, Bool.not_eq_true', List.all_eq_true] at hn
    have hne : r.1 ≠ [] := by
      intro e; rw [e] at hn; simp at hn
    refine ⟨⟨hne, fun b hb => ph_name_byte b (hn.2 b hb)⟩, ?_, ?_, ?_, hlen r hr⟩
    · intro hs
      cases hstrict with
      | inl h => rw [hs] at h; cases h
      | inr h => simpa using (List.all_eq_true.mp h) r hr
    · simp only [allAscii, List.all_eq_true]
      intro b hb
      exact ph_printable_ascii b (hn.2 b hb)
    · intro b hb
      apply ph_residue_byte
      simp only [residuesOk, Bool.or_eq_true, List.all_eq_true] at hres
      cases hres with
      | inl h1 => left; simpa using h1 r hr b hb
      | inr h1 => right; simpa using h1 r hr b hb

/-- a representable alignment whose counts fit is one that a `Parse` call of a stream reads back -/
theorem ph_good (af strict : Bool) (rows : List XRow) (h : reprPhylip strict rows = true)
    (hsize : rows.length ≤ 9223372036854775807 ∧ ∀ r ∈ rows, r.2.length ≤ 9223372036854775807)
    (halloc : af = false ∨ rows.length < 134217728) : Good af strict rows := by
  obtain ⟨hne, L, hL1, hok, hdist⟩ := ph_repr_rows strict rows h
  refine ⟨hne, hsize.1, halloc, hdist, L, hL1, ?_, hok⟩
  cases rows with
  | nil => exact absurd rfl hne
  | cons r rs => rw [← (hok r (by simp)).len]; exact hsize.2 r (by simp)

theorem stream_length (strict oneline noblock : Bool) : ∀ (as : List (List XRow)),
    as.length ≤ (as.flatMap (Phylip.write strict oneline noblock)).length
  | [] => by simp
  | a :: rest => by
    obtain ⟨d, R, h, _, _⟩ := write_head strict oneline noblock a
    have ih := stream_length strict oneline noblock rest
    simp only [List.flatMap_cons, List.length_append, List.length_cons, h]
    omega

end Phylip

section Clustal
open Gv.Proofs.ClustalRT

theorem cl_residue_byte : ∀ b : Byte,
    ((isNt b || isSpecial b) = true → Clustal.upper b ≠ 76) ∧ ((isAa b || isSpecial b) = true → Clustal.upper b ≠ 85) := by
  decide

theorem cl_upper : Clustal.upper = Spec.Fmt.upper := rfl

theorem cl_residue_ascii : ∀ b : Byte, (isNt b || isSpecial b) = true ∨ (isAa b || isSpecial b) = true → b < 0x80 := by
  decide

theorem cl_printable_ascii : ∀ b : Byte, isPrintable b = true → b < 0x80 := by decide

/-- what `reprClustal` gives row by row -/
theorem cl_repr_rows (rows : List XRow) (h : reprClustal rows = true) :
    rows ≠ [] ∧ ∃ L, 1 ≤ L ∧ (∀ r ∈ rows, RowOk L W r) ∧ distinct (rows.map (·.1)) = true := by
  simp only [reprClustal, reprBase, Bool.and_eq_true] at h
  obtain ⟨⟨⟨⟨hrect, hres⟩, hdist⟩, hnames⟩, hcl⟩ := h
  cases rows with
  | nil => simp [rectangular] at hrect
  | cons r0 rs =>
    simp only [rectangular, Bool.and_eq_true, decide_eq_true_eq, List.all_eq_true, beq_iff_eq] at hrect
    have hlen : ∀ r ∈ r0 :: rs, r.2.length = r0.2.length := by
      intro r hr
      cases hr with
      | head => rfl
      | tail _ hr => exact hrect.2 r hr
    refine ⟨by simp, r0.2.length, hrect.1, ?_, hdist⟩
    intro r hr
    have hn := (List.all_eq_true.mp hnames) r hr
    simp only [Bool.and_eq_true, Bool.not_eq_true', List.all_eq_true] at hn
    have hc := (List.all_eq_true.mp hcl) r hr
    simp only [Bool.and_eq_true, bne_iff_ne, ne_eq] at hc
    have hne : r.1 ≠ [] := by
      intro e; rw [e] at hn; simp at hn
    have hrun : Gv.Proofs.PhylipRT.Run r.1 := ⟨hne, fun b hb => ph_name_byte b (hn.2 b hb)⟩
    have hname : NameOk r.1 := by
      refine ⟨hrun, ?_⟩
      unfold classify
      by_cases hi : (Phylip.parseInt64 r.1).isSome = true
      · right; simp [hi]
      · left
        have h1 : ¬ (r.1.map Clustal.upper = [67, 76, 85, 83, 84, 65, 76]) := by rw [cl_upper]; exact hc.1
        have h2 : ¬ (r.1.map Clustal.upper = [67, 76, 85, 83, 84, 65, 76, 87]) := by rw [cl_upper]; exact hc.2
        have hu : Utf8.upperLit r.1 = r.1.map Clustal.upper :=
          Gv.Proofs.Utf8Norm.upperLit_ascii r.1
            (Gv.Proofs.Utf8Norm.allAscii_of_forall r.1 (fun b hb => cl_printable_ascii b (hn.2 b hb)))
        simp [hi, hu, h1, h2]
    simp only [residuesOk, Bool.or_eq_true, List.all_eq_true] at hres
    refine rowOk_of _ r hname (hlen r hr) ?_ ?_ ?_
    · intro b hb
      apply ph_residue_byte
      cases hres with
      | inl h1 => left; simpa using h1 r hr b hb
      | inr h1 => right; simpa using h1 r hr b hb
    · intro b hb
      apply cl_residue_ascii
      cases hres with
      | inl h1 => left; simpa using h1 r hr b hb
      | inr h1 => right; simpa using h1 r hr b hb
    · cases hres with
      | inl h1 => left; exact fun b hb => (cl_residue_byte b).1 (by simpa using h1 r hr b hb)
      | inr h1 => right; exact fun b hb => (cl_residue_byte b).2 (by simpa using h1 r hr b hb)

end Clustal

end Gv.Proofs.ReprRows
