import Gv.Proofs.BagExt
/-!
C01, the general site-cleaning methods `RemoveCharacterSites` / `RemoveMajorityCharacterSites` through the C12 model
(`cleanSitesBag`): every C12 cleaning function is "nothing on a negative length, else the removal pass `removeSites` on some
qualification list" (`IsCleanFn`); for any such function the write-back keeps ids, names and index, the representation
invariant, the kind and rectangularity.
-/
namespace Gv.Proofs.BagAbs
open Gv Gv.Model Gv.Proofs.BagInv

/-- the shape shared by the C12 cleaning functions -/
structure IsCleanFn (f : CRows → Int → Nat → CleanResult) : Prop where
  neg : ∀ rows L a, L < 0 → f rows L a = unchanged rows L
  pos : ∀ rows L a, ¬ L < 0 → ∃ q ends, f rows L a = removeSites rows L.toNat q ends

theorem isCleanFn_char (test : Nat → Nat → Bool) (cs : List Byte) (ends ic ig iN rev : Bool) :
    IsCleanFn (fun rows L a => removeCharacterSites test rows L a cs ends ic ig iN rev) :=
  ⟨fun rows L a h => by simp only [removeCharacterSites, if_pos h],
   fun rows L a h => ⟨_, ends, by simp only [removeCharacterSites, if_neg h]; rfl⟩⟩

theorem isCleanFn_maj (test : Nat → Nat → Bool) (ends ig iN : Bool) :
    IsCleanFn (fun rows L a => removeMajoritySites test rows L a ends ig iN) :=
  ⟨fun rows L a h => by simp only [removeMajoritySites, if_pos h],
   fun rows L a h => ⟨_, ends, by simp only [removeMajoritySites, if_neg h]; rfl⟩⟩

theorem IsCleanFn.names {f : CRows → Int → Nat → CleanResult} (hf : IsCleanFn f) (rows : CRows) (L : Int) (a : Nat) :
    (f rows L a).rows.map Prod.fst = rows.map Prod.fst := by
  by_cases h : L < 0
  · rw [hf.neg rows L a h]; rfl
  · obtain ⟨q, ends, e⟩ := hf.pos rows L a h
    rw [e]; exact removeSites_names _ _ _ _

/-- `RemoveGapSites` is the general method on the gap character, all options off -/
theorem removeGapSites_eq_char (test : Nat → Nat → Bool) (ends : Bool) (b : Bag) :
    removeGapSites test ends b = removeCharSitesBag test [GAP] ends false false false false b := rfl

theorem cleanSitesBag_fields {f : CRows → Int → Nat → CleanResult} (hf : IsCleanFn f) {b : Bag} {r : Bag × CleanResult}
    (h : cleanSitesBag f b = some r) :
    keys r.1.rows = keys b.rows ∧ r.1.index = b.index ∧ r.1.next = b.next ∧ r.1.isAlign = b.isAlign ∧
    r.1.alphabet = b.alphabet ∧ r.1.policy = b.policy := by
  unfold cleanSitesBag at h
  split at h
  · simp at h
  · simp only [Option.some.injEq] at h; subst h
    refine ⟨keys_withSeqs _ _ (length_of_names ?_), rfl, rfl, rfl, rfl, rfl⟩
    rw [hf.names, pairs_names]

theorem inv_cleanSitesBag {f : CRows → Int → Nat → CleanResult} (hf : IsCleanFn f) (b : Bag) (h : Inv b)
    (r : Bag × CleanResult) (hr : cleanSitesBag f b = some r) : Inv r.1 := by
  obtain ⟨k, i, n, _⟩ := cleanSitesBag_fields hf hr
  exact h.transfer (by rw [k]) i (by omega)

theorem rect_cleanSitesBag {f : CRows → Int → Nat → CleanResult} (hf : IsCleanFn f) {b : Bag} (h : Rect b)
    (r : Bag × CleanResult) (hr : cleanSitesBag f b = some r) : Rect r.1 := by
  unfold cleanSitesBag at hr
  split at hr
  · simp at hr
  · simp only [Option.some.injEq] at hr; subst hr
    have hnames := hf.names (pairs b) b.length b.alphabet
    have hl := length_of_names (hnames.trans (pairs_names b))
    constructor
    · intro ha x hx
      simp only [] at ha hx ⊢
      have hseq : x.seq ∈ (f (pairs b) b.length b.alphabet).rows.map Prod.snd := by
        rw [← seqs_withSeqs _ _ hl]; exact List.mem_map_of_mem (f := (·.seq)) hx
      obtain ⟨p, hp, e⟩ := List.mem_map.mp hseq
      rw [← e]
      have hne : b.rows ≠ [] := by
        intro e0
        have : (withSeqs b.rows (f (pairs b) b.length b.alphabet).rows).length = 0 := by
          rw [withSeqs_length _ _ hl, e0]; rfl
        rw [List.length_eq_zero_iff] at this
        rw [this] at hx; simp at hx
      have hpne : pairs b ≠ [] := by simpa [pairs] using hne
      have hlen : 0 ≤ b.length := by
        cases hrows : b.rows with
        | nil => exact absurd hrows hne
        | cons y t =>
          have := h.rows_len ha y (by simp [hrows])
          omega
      obtain ⟨q, ends, e1⟩ := hf.pos (pairs b) b.length b.alphabet (by omega)
      rw [e1] at hp ⊢
      exact removeSites_lens _ hpne _ _ _ p hp
    · intro ha he
      simp only [] at ha he ⊢
      have hb : b.rows = [] := by
        have := withSeqs_length b.rows _ hl
        rw [he] at this
        exact List.eq_nil_of_length_eq_zero this.symm
      have := h.empty_len ha hb
      rw [hf.neg _ _ _ (by omega)]
      exact this

/-! ### `Replace` with a regular expression (new sequences supplied) -/

theorem regexSeqs_names (ps : List (String × Seq)) (seqs : List Seq) :
    (regexSeqs ps seqs).map Prod.fst = ps.map Prod.fst := by
  apply List.ext_getElem
  · simp [regexSeqs]
  · intro i h1 h2
    simp [regexSeqs]

theorem regexSeqs_length (b : Bag) (seqs : List Seq) : (regexSeqs (pairs b) seqs).length = b.rows.length :=
  length_of_names ((regexSeqs_names _ _).trans (pairs_names b))

theorem replaceRegexBag_fields (seqs : List Seq) (b : Bag) :
    keys (replaceRegexBag seqs b).1.rows = keys b.rows ∧ (replaceRegexBag seqs b).1.index = b.index ∧
    (replaceRegexBag seqs b).1.next = b.next ∧ (replaceRegexBag seqs b).1.isAlign = b.isAlign ∧
    (replaceRegexBag seqs b).1.alphabet = b.alphabet ∧ (replaceRegexBag seqs b).1.policy = b.policy ∧
    (replaceRegexBag seqs b).1.length = b.length :=
  ⟨keys_withSeqs _ _ (regexSeqs_length b seqs), rfl, rfl, rfl, rfl, rfl, rfl⟩

theorem inv_replaceRegexBag (seqs : List Seq) (b : Bag) (h : Inv b) : Inv (replaceRegexBag seqs b).1 :=
  inv_withSeqs h _ (regexSeqs_length b seqs)

/-- the rows shown after the call are the rows with the supplied sequences -/
theorem pairs_replaceRegexBag (seqs : List Seq) (b : Bag) :
    pairs (replaceRegexBag seqs b).1 = regexSeqs (pairs b) seqs :=
  pairs_withSeqs b.rows _ ((regexSeqs_names _ _).trans (pairs_names b))

/-- a regex `Replace` that did not report an error leaves an alignment rectangular (it ends with the scan of the row
lengths against the cached length) -/
theorem rect_replaceRegexBag (seqs : List Seq) {b : Bag} (h : Rect b) (hok : (replaceRegexBag seqs b).2 = false) :
    Rect (replaceRegexBag seqs b).1 := by
  by_cases ha : b.isAlign = true
  · unfold replaceRegexBag at hok ⊢
    simp only [ha, Bool.true_and, List.any_eq_false, bne_iff_ne, ne_eq, Decidable.not_not] at hok
    constructor
    · intro _ r hr; exact hok r hr
    · intro _ he
      simp only [] at he ⊢
      have := withSeqs_length b.rows _ (regexSeqs_length b seqs)
      rw [he] at this
      exact h.empty_len ha (List.eq_nil_of_length_eq_zero this.symm)
  · exact Rect.of_not_align (by simpa [replaceRegexBag] using ha)

end Gv.Proofs.BagAbs
