import Gv.Proofs.CodonCore
/-! all 17³ representative codons for table invertebratemitocode, by kernel evaluation -/
namespace Gv.Proofs.CodonCore
open Gv Gv.Model
set_option maxRecDepth 100000

theorem finite_core2 : ∀ a ∈ reps, ∀ b ∈ reps, ∀ c ∈ reps,
    translateCodon Gen.invertebratemitocode a b c = Spec.translateCodon Spec.ncbi5 a b c := by
  decide +kernel

end Gv.Proofs.CodonCore
