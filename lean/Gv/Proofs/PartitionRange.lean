import Gv.Model.Fmt.Partition
/-!
`AddRange` with the proposed guards never indexes out of range and always terminates, for ALL
(64-bit or not) `start`, `end`, `modulo` (helper development for `Props/C03.lean`).
-/
namespace Gv.Proofs.PartitionRange
open Gv Gv.Model Gv.Model.Fmt Gv.Model.Fmt.Partition

theorem wrap64_id (x : Int) (h0 : 0 ≤ x) (h1 : x < 9223372036854775808) : wrap64 x = x := by
  unfold wrap64
  have : (x + 9223372036854775808) % 18446744073709551616 = x + 9223372036854775808 :=
    Int.emod_eq_of_lt (by omega) (by omega)
  omega

/-- entries are −1 or a partition index below `n` -/
def InRange (n : Int) (parts : List Int) : Prop := ∀ p ∈ parts, -1 ≤ p ∧ p < n

theorem inRange_set (n : Int) (parts : List Int) (k : Nat) (v : Int) (hv : -1 ≤ v ∧ v < n)
    (h : InRange n parts) : InRange n (parts.set k v) := by
  intro p hp
  rcases List.mem_or_eq_of_mem_set hp with h1 | h1
  · exact h p h1
  · subst h1; exact hv

/-- the guarded loop: never `panic`, never `hang` (given enough fuel), keeps length and range -/
theorem rangeLoop_guarded (idx endI modulo : Int) (n : Int) (hm : 0 < modulo) (hidx : -1 ≤ idx ∧ idx < n) :
    ∀ (fuel : Nat) (i : Int) (parts : List Int), 0 ≤ i → endI < parts.length →
      (parts.length : Int) < 9223372036854775808 → 0 < fuel → endI - i + 1 < fuel → InRange n parts →
      (rangeLoop true idx endI modulo fuel i parts = .error) ∨
      (∃ ps', rangeLoop true idx endI modulo fuel i parts = .ok ps' ∧ ps'.length = parts.length ∧ InRange n ps') := by
  intro fuel
  induction fuel with
  | zero => intro i parts _ _ _ hf; omega
  | succ f ih =>
    intro i parts h0 hend hlen _ hf hr
    unfold rangeLoop
    split
    · rename_i hi
      split
      · rename_i hb
        simp only [Bool.or_eq_true, decide_eq_true_eq] at hb
        omega
      · split
        · left; rfl
        · split
          · right
            exact ⟨parts.set i.toNat idx, rfl, by simp, inRange_set n parts _ idx hidx hr⟩
          · rename_i hg
            simp only [Bool.true_and, decide_eq_true_eq, Int.not_lt] at hg
            have hw : wrap64 (i + modulo) = i + modulo := wrap64_id _ (by omega) (by omega)
            rw [hw]
            have := ih (i + modulo) (parts.set i.toNat idx) (by omega) (by simpa using hend)
              (by simpa using hlen) (by omega) (by omega) (inRange_set n parts _ idx hidx hr)
            simpa using this
    · right
      exact ⟨parts, rfl, rfl, hr⟩

/-- partition-set invariant: the map covers exactly the declared length (below 2^63, as every Go
slice), every entry is −1 or the index of a declared partition -/
def PInv (ps : PSet) : Prop :=
  ps.parts.length = ps.length ∧ (ps.length : Int) < 9223372036854775808 ∧ InRange ps.names.length ps.parts

theorem inRange_mono (n m : Int) (h : n ≤ m) (parts : List Int) (hr : InRange n parts) : InRange m parts :=
  fun p hp => ⟨(hr p hp).1, by have := (hr p hp).2; omega⟩

/-- **`AddRange` with the overflow guard** (whether or not `start > end` is rejected): for all `start`, `end`, `modulo` the result is an explicit
error or a partition set that still satisfies the invariant — never a panic, never a hang. -/
theorem addRange_guarded (r : Bool) (ps : PSet) (h : PInv ps) (part model : Name) (start endI modulo : Int) :
    addRange r true ps part model start endI modulo = .error ∨
    ∃ ps', addRange r true ps part model start endI modulo = .ok ps' ∧ PInv ps' ∧ ps'.length = ps.length := by
  obtain ⟨h1, h2, h3⟩ := h
  unfold addRange
  by_cases c1 : start < 0
  · simp [c1]
  · by_cases c2 : endI ≥ ps.length
    · simp [c1, c2]
    · by_cases c3 : modulo ≤ 0
      · simp [c1, c2, c3]
      · by_cases c4 : (r && decide (start > endI)) = true
        · simp [c1, c2, c3, c4]
        · simp only [c1, c2, c3, c4, if_false, Bool.false_eq_true]
          cases hfi : ps.names.findIdx? (fun x => x.1 == part) with
          | some k =>
            have hk : k < ps.names.length := (List.findIdx?_eq_some_iff_findIdx_eq.mp hfi).1
            simp only
            rcases rangeLoop_guarded (k : Int) endI modulo ps.names.length (by omega) ⟨by omega, by omega⟩
              (ps.length + 2) start ps.parts (by omega) (by rw [h1]; omega) (by rw [h1]; exact h2)
              (by omega) (by omega) h3 with he | ⟨ps', he, hl, hr⟩
            · left; simp [he]
            · right
              exact ⟨{ ps with names := ps.names, parts := ps' }, by simp [he], ⟨by simp [hl, h1], h2, hr⟩, rfl⟩
          | none =>
            simp only
            have h3' : InRange ((ps.names ++ [(part, model)]).length : Nat) ps.parts :=
              inRange_mono _ _ (by simp; omega) _ h3
            rcases rangeLoop_guarded (ps.names.length : Int) endI modulo ((ps.names ++ [(part, model)]).length : Nat)
              (by omega) ⟨by omega, by simp; omega⟩
              (ps.length + 2) start ps.parts (by omega) (by rw [h1]; omega) (by rw [h1]; exact h2)
              (by omega) (by omega) h3' with he | ⟨ps', he, hl, hr⟩
            · left; simp [he]
            · right
              exact ⟨{ ps with names := ps.names ++ [(part, model)], parts := ps' }, by simp [he],
                ⟨by simp [hl, h1], h2, hr⟩, rfl⟩

end Gv.Proofs.PartitionRange
