import Gv.Proofs.NexusOutcome
import Gv.Proofs.FmtFresh
/-!
Nexus parser (C03): a successful parse agrees with the counts of the `DIMENSIONS` commands as the parser read them
(`ntax`, `nchar`; −1 = not declared) and with the `TAXA` block (helper development for `Props/C03.lean`).
-/
namespace Gv.Proofs.NexusHeader
open Gv Gv.Model Gv.Model.Fmt Gv.Model.Fmt.Nexus Gv.Proofs.FmtBagInv Gv.Proofs.NexusOutcome Gv.Proofs.FmtFresh

/-- under IGNORE_NONE a successful `AddSequence` appends exactly one row -/
theorem add_count0 (b : Bag) (hi : b.ignore = 0) (name : Name) (s : Seq) (b' : Bag) (h : b.add name s = some b') :
    b'.rows.length = b.rows.length + 1 := by
  unfold Bag.add at h
  have h1 : (b.ignore == 1) = false := by simp [hi]
  have h2 : (b.ignore == 2) = false := by simp [hi]
  simp only [h1, h2, Bool.false_eq_true, if_false, Bool.false_and] at h
  repeat' (split at h <;> try (simp at h))
  all_goals (obtain ⟨_, rfl⟩ := h; simp)

/-- what the row loop maintains: policy, row count against the rows seen, cached length against `nchar` -/
structure Acc (d : Data) (i k : Nat) (b : Bag) : Prop where
  ignore : b.ignore = i
  le : b.rows.length ≤ k
  eq0 : i = 0 → b.rows.length = k
  len : d.nchar ≠ -1 → b.rows ≠ [] → b.length = d.nchar

theorem addRow_acc (f : Facts) (d : Data) (i k : Nat) (b b' : Bag) (r : XRow) (hb : Acc d i k b)
    (h : addRow f d b r = .ok b') : Acc d i (k + 1) b' := by
  unfold addRow at h
  split at h
  · simp at h
  · split at h
    · simp at h
    · rename_i hlen
      split at h
      · simp at h
      · rename_i b1 hadd
        simp [pure, Except.pure] at h; subst h
        have hle := add_le b _ _ b1 hadd
        refine ⟨by rw [hle.2.2, hb.ignore], by have := hb.le; omega, ?_, ?_⟩
        · intro hi
          rw [add_count0 b (by rw [hb.ignore, hi]) _ _ b1 hadd, hb.eq0 hi]
        · intro hn hne
          have hrl : (r.2.length : Int) = d.nchar := by
            simp only [Bool.and_eq_true, bne_iff_ne, ne_eq, not_and, Decidable.not_not] at hlen
            by_cases e : (r.2.length : Int) = d.nchar
            · exact e
            · exact absurd (hlen e) hn
          -- unchanged (then it already had rows) or appended with the length of the translated row
          unfold Bag.add at hadd
          repeat' (split at hadd <;> try (simp at hadd))
          all_goals first
            | (subst hadd; exact hb.len hn hne)
            | (obtain ⟨_, rfl⟩ := hadd
               simp only [repl_length]
               exact hrl)

theorem foldlM_acc (f : Facts) (d : Data) (i : Nat) : ∀ (rows : List XRow) (k : Nat) (b b' : Bag), Acc d i k b →
    rows.foldlM (addRow f d) b = .ok b' → Acc d i (k + rows.length) b'
  | [], k, b, b', hb, h => by
    simp [pure, Except.pure] at h; subst h; simpa using hb
  | r :: rs, k, b, b', hb, h => by
    simp only [List.foldlM_cons, bind, Except.bind] at h
    split at h
    · simp at h
    · rename_i b1 h1
      have := foldlM_acc f d i rs (k + 1) b1 b' (addRow_acc f d i k b b1 r hb h1) h
      simpa [Nat.add_assoc, Nat.add_comm 1] using this

theorem replaceMatchChars_length (rows : List XRow) : (replaceMatchChars rows).length = rows.length := by
  cases rows with
  | nil => rfl
  | cons _ _ => simp [replaceMatchChars]

/-- what a successful parse agrees with -/
structure Agrees (o : POpts) (top : Top) (d : Data) (a : Aln) : Prop where
  data : top.data = some d
  /-- the matrix has as many (distinct) names as `ntax` declares -/
  matrix_ntax : d.ntax ≠ -1 → (d.rows.length : Int) = d.ntax
  /-- no more rows than the matrix; exactly as many when no duplicate policy drops rows -/
  rows_le : a.rows.length ≤ d.rows.length
  rows_eq : normIgnore o.ignore = 0 → a.rows.length = d.rows.length
  /-- the number of columns is `nchar` -/
  nchar : d.nchar ≠ -1 → a.length = d.nchar
  /-- with a `TAXA` block: one row per label, and `ntax` of that block is the number of labels -/
  taxa : ∀ ls, top.taxlabels = some ls → a.rows.length = ls.length ∧ (top.taxantax = -1 ∨ top.taxantax = (ls.length : Int))

theorem build_agrees (f : Facts) (o : POpts) (top : Top) (a : Aln) (h : build f o top = .ok a) :
    ∃ d, Agrees o top d a := by
  unfold build at h
  simp only [bind, Except.bind, pure, Except.pure] at h
  repeat' (split at h <;> try (simp at h))
  · rename_i _ ls hls htx _ d hd hrows hnt _ v hfold _ hcount _ a' hfin
    subst h
    have hacc := foldlM_acc f d (normIgnore o.ignore) d.rows 0 _ v ⟨rfl, by simp, fun _ => rfl, fun _ hh => absurd rfl hh⟩ hfold
    obtain ⟨hr, hl⟩ := finish_rows _ _ a' hfin
    obtain ⟨_, hne⟩ := foldlM_good f d d.rows _ v ⟨inv_empty _, fun _ hh => absurd rfl hh⟩ (Or.inl hrows) hfold
    refine ⟨d, hd, ?_, ?_, ?_, ?_, ?_⟩
    · intro hn; by_cases e : (d.rows.length : Int) = d.ntax
      · exact e
      · exact absurd ⟨e, hn⟩ hnt
    · rw [hr]; simp only [replaceMatchChars_length]; simpa using hacc.le
    · intro hi; rw [hr]; simp only [replaceMatchChars_length]; simpa using hacc.eq0 hi
    · intro hn; rw [hl]; exact hacc.len hn hne
    · intro ls' hls'
      rw [hls] at hls'
      simp only [Option.some.injEq] at hls'
      subst hls'
      refine ⟨by rw [hr]; simp only [replaceMatchChars_length]; exact hcount, ?_⟩
      by_cases e : top.taxantax = -1
      · exact Or.inl e
      · by_cases e2 : top.taxantax = (ls.length : Int)
        · exact Or.inr e2
        · exact absurd ⟨e, e2⟩ htx
  · rename_i _ hls htx _ d hd hrows hnt _ v hfold _ a' hfin
    subst h
    have hacc := foldlM_acc f d (normIgnore o.ignore) d.rows 0 _ v ⟨rfl, by simp, fun _ => rfl, fun _ hh => absurd rfl hh⟩ hfold
    obtain ⟨hr, hl⟩ := finish_rows _ _ a' hfin
    obtain ⟨_, hne⟩ := foldlM_good f d d.rows _ v ⟨inv_empty _, fun _ hh => absurd rfl hh⟩ (Or.inl hrows) hfold
    refine ⟨d, hd, ?_, ?_, ?_, ?_, ?_⟩
    · intro hn; by_cases e : (d.rows.length : Int) = d.ntax
      · exact e
      · exact absurd ⟨e, hn⟩ hnt
    · rw [hr]; simp only [replaceMatchChars_length]; simpa using hacc.le
    · intro hi; rw [hr]; simp only [replaceMatchChars_length]; simpa using hacc.eq0 hi
    · intro hn; rw [hl]; exact hacc.len hn hne
    · intro ls' hls'
      rw [hls] at hls'
      cases hls'

/-- a successful parse: `#NEXUS`, the top-level loop over the rest of the input, the final stage -/
theorem parse_inv (f : Facts) (o : POpts) (bs : Seq) (a : Aln) (h : Nexus.parse f o bs = .ok a) :
    ∃ top, (sIW bs).1.kind = .nexus ∧ topLoop f ((sIW bs).2.length + 3) (sIW bs).2 {} = .ok top ∧ build f o top = .ok a := by
  unfold Nexus.parse at h
  cases hp : parseR f o bs with
  | error e => rw [hp] at h; cases e <;> simp [toOutcome] at h
  | ok a' =>
    rw [hp] at h
    simp [toOutcome] at h; subst h
    unfold parseR at hp
    simp only [bind, Except.bind, pure, Except.pure] at hp
    repeat' (split at hp <;> try (simp at hp))
    rename_i hk _ top htop
    exact ⟨top, by simpa using hk, htop, hp⟩

end Gv.Proofs.NexusHeader
