import Gv.Model.FrameStats
import Gv.Spec.FrameStats
/-! Helper lemmas on the column loops of `Frameshifts` / `Stops` (C14). -/
namespace Gv.Proofs.FrameStats
open Gv Gv.Model

/-- the invariant of the column loop of `Frameshifts`: the current part and the record lie left of `pos`, and the
record is the zero value or a part of more than one residue -/
def FsInv (st : FsState) : Prop :=
  st.start ≤ st.pos ∧ st.bE ≤ st.pos ∧ ((st.bS = 0 ∧ st.bE = 0) ∨ st.bS + 1 < st.bE)

theorem phaseStep_moves (flag : Bool) (ph : Nat) (sd : Bool) (r c : Byte) :
    (phaseStep flag ph sd r c).2.2 = true → (c == GAP) = false := by
  unfold phaseStep
  by_cases hc : (c == GAP) = true
  · simp [hc]
  · simp [hc]

theorem fsStep_inv (flag : Bool) (st : FsState) (r c : Byte) (last : Bool) (h : FsInv st) :
    FsInv (fsStep flag st r c last) ∧ st.pos ≤ (fsStep flag st r c last).pos ∧
      (fsStep flag st r c last).pos ≤ st.pos + (if (c == GAP) = true then 0 else 1) := by
  obtain ⟨h1, h2, h3⟩ := h
  have hm := phaseStep_moves flag st.phase st.started r c
  unfold FsInv fsStep
  simp only []
  generalize (phaseStep flag st.phase st.started r c) = p at hm ⊢
  obtain ⟨ph, sd, mv⟩ := p
  simp only [] at hm ⊢
  cases mv
  · simp only [Bool.false_eq_true, ↓reduceIte]
    refine ⟨?_, Nat.le_refl _, by split <;> omega⟩
    by_cases hu : ((ph == 0 || last) && decide (st.pos > st.start + 1) && decide (st.pos + st.bS > st.bE + st.start)) = true
    · simp only [hu, ↓reduceIte]
      simp only [Bool.and_eq_true, decide_eq_true_eq] at hu
      refine ⟨by split <;> omega, Nat.le_refl _, Or.inr (by omega)⟩
    · simp only [hu, Bool.false_eq_true, ↓reduceIte]
      exact ⟨by split <;> omega, h2, h3⟩
  · have hc := hm rfl
    simp only [↓reduceIte, hc, Bool.false_eq_true]
    refine ⟨?_, by omega, by omega⟩
    by_cases hu : ((ph == 0 || last) && decide (st.pos + 1 > st.start + 1) && decide (st.pos + 1 + st.bS > st.bE + st.start)) = true
    · simp only [hu, ↓reduceIte]
      simp only [Bool.and_eq_true, decide_eq_true_eq] at hu
      refine ⟨by split <;> omega, Nat.le_refl _, Or.inr (by omega)⟩
    · simp only [hu, Bool.false_eq_true, ↓reduceIte]
      exact ⟨by split <;> omega, by omega, h3⟩

theorem fsLoop_inv (flag : Bool) (cols : List (Byte × Byte)) (st : FsState) (h : FsInv st) :
    FsInv (fsLoop flag cols st) ∧ (fsLoop flag cols st).pos ≤ st.pos + (cols.filter fun p => p.2 != GAP).length := by
  induction cols generalizing st with
  | nil => exact ⟨h, by simp [fsLoop]⟩
  | cons x t ih =>
    obtain ⟨r, c⟩ := x
    have hs := fsStep_inv flag st r c t.isEmpty h
    have := ih _ hs.1
    refine ⟨by simpa [fsLoop] using this.1, ?_⟩
    have h3 := hs.2.2
    have h4 := this.2
    simp only [fsLoop, List.filter_cons]
    by_cases hc : (c == GAP) = true
    · have hne : (c != GAP) = false := by simp [bne, hc]
      simp only [hc, ↓reduceIte, if_true] at h3
      simp only [hne, Bool.false_eq_true, ↓reduceIte]
      omega
    · have hne : (c != GAP) = true := by simpa [bne] using hc
      have hc' : (c == GAP) = false := by simpa using hc
      simp only [hc', Bool.false_eq_true, ↓reduceIte] at h3
      simp only [hne, ↓reduceIte, List.length_cons]
      omega

end Gv.Proofs.FrameStats
